/- Invariant of the channel-side Gate model (Model/MonGate.lean) over ALL op sequences (C09): ids, in-flight sets, pause flag. -/
import LdkModel.Model.MonGate
namespace Ldk.MonGate.Gate
open Ldk.MonGate

/-- ids handed to chain::Watch by a list of outputs, in order -/
def handedIds : List Out → List Nat
  | [] => []
  | .handed id _ :: os => id :: handedIds os
  | _ :: os => handedIds os

theorem handedIds_append (a b : List Out) : handedIds (a ++ b) = handedIds a ++ handedIds b := by
  induction a with
  | nil => rfl
  | cons o os ih => cases o <;> simp [handedIds, ih]

theorem handedIds_outsOf (r : Gen.Restored) (cf : Bool) : handedIds (outsOf r cf) = [] := by
  unfold outsOf
  simp only [handedIds_append]
  cases r.ready <;> cases cf <;> cases r.cs <;> cases r.raa <;> cases r.adds.isEmpty <;> cases r.fwds.isEmpty <;>
    cases r.fails.isEmpty <;> cases r.fulfills.isEmpty <;> simp [handedIds]

/-- the invariant: the blocked queue is the consecutive run of ids after the last one handed over, ending at latest_monitor_update_id;
    what the ChainMonitor still reports pending is tracked by the manager; in-flight ids are below the next id to hand over; the channel is
    paused (MONITOR_UPDATE_IN_PROGRESS) whenever an update is in flight or blocked -/
structure Inv (c : Chan) : Prop where
  blocked_run : c.blocked = List.range' c.nextHand c.blocked.length
  latest_eq : c.nextHand + c.blocked.length = c.latest + 1
  cm_sub : ∀ i ∈ c.cmPending, i ∈ c.inFlight
  lt_next : ∀ i ∈ c.inFlight, i < c.nextHand
  paused_inflight : c.inFlight ≠ [] → c.paused = true
  paused_blocked : c.blocked ≠ [] → c.paused = true

theorem Inv.init (k : Nat) : Inv (Chan.init k) := by
  refine ⟨by simp [Chan.init], by simp [Chan.init], ?_, ?_, ?_, ?_⟩ <;> simp [Chan.init]

/-- nothing is in flight (manager view and ChainMonitor view) -/
def Chan.quiet (c : Chan) : Prop := c.inFlight = [] ∧ c.cmPending = []

theorem Inv.quiet_of_not_paused {c : Chan} (inv : Inv c) (h : c.paused = false) : c.quiet := by
  have h1 : c.inFlight = [] := by
    cases hi : c.inFlight with
    | nil => rfl
    | cons x xs => have := inv.paused_inflight (by simp [hi]); simp [h] at this
  refine ⟨h1, ?_⟩
  cases hc : c.cmPending with
  | nil => rfl
  | cons x xs => have := inv.cm_sub x (by simp [hc]); simp [h1] at this

def anyGated (os : List Out) : Bool := os.any Out.gated

theorem anyGated_append (a b : List Out) : anyGated (a ++ b) = (anyGated a || anyGated b) := by simp [anyGated]

/-- resume touches only the pause flag and the pending items -/
theorem resume_fields (c : Chan) : (resume c).1.latest = c.latest ∧ (resume c).1.blocked = c.blocked ∧ (resume c).1.inFlight = c.inFlight ∧
    (resume c).1.cmPending = c.cmPending ∧ (resume c).1.nextHand = c.nextHand ∧ handedIds (resume c).2 = [] ∧
    ((resume c).1.paused = c.paused ∨ ((resume c).1.paused = false ∧ c.blocked = [])) ∧ (c.blocked ≠ [] → (resume c).2 = []) := by
  unfold resume
  split
  · simp [handedIds]
  · rename_i h
    have hb : c.blocked = [] := by
      cases hc : c.blocked with
      | nil => rfl
      | cons x xs => simp [Gen.resumeBlocked, hc] at h
    simp [handedIds_outsOf, hb]

/-- handing update `id` over (ChannelManager::handle_new_monitor_update) from a paused channel whose next id is `id` -/
theorem handOver_spec (c : Chan) (id : Nat) (ip : Bool) (hid : id = c.nextHand) (hp : c.paused = true)
    (hrun : c.blocked = List.range' (id + 1) c.blocked.length) (hlat : id + 1 + c.blocked.length = c.latest + 1)
    (hcm : ∀ i ∈ c.cmPending, i ∈ c.inFlight) (hlt : ∀ i ∈ c.inFlight, i < c.nextHand) :
    Inv (handOver c id ip).1 ∧ handedIds (handOver c id ip).2 = [id] ∧ (handOver c id ip).1.nextHand = id + 1 ∧
    (anyGated (handOver c id ip).2 = true → (handOver c id ip).1.quiet) := by
  unfold handOver
  cases ip with
  | false =>
    -- Completed: the id is pushed and removed again
    have hl : (Gen.mgrNewUpdate c.inFlight id (!false)).1 = c.inFlight := by
      simp [Gen.mgrNewUpdate, List.eraseIdx_append_of_length_le]
    have hm2 : (Gen.mgrNewUpdate c.inFlight id (!false)).2 = c.inFlight.isEmpty := by
      simp [Gen.mgrNewUpdate, List.eraseIdx_append_of_length_le]
    simp only [hl, hm2, Bool.false_eq_true, if_false, hp, Bool.and_true]
    cases he : c.inFlight.isEmpty with
    | true =>
      have hnil : c.inFlight = [] := by simpa using he
      have hcmnil : c.cmPending = [] := by
        cases hc : c.cmPending with
        | nil => rfl
        | cons x xs => have := hcm x (by simp [hc]); simp [hnil] at this
      simp only [if_true]
      have rf := resume_fields { c with nextHand := id + 1, paused := true }
      obtain ⟨r1, r2, r3, r4, r5, r6, r7, r8⟩ := rf
      simp only at r1 r2 r3 r4 r5 r7 r8
      refine ⟨⟨?_, ?_, ?_, ?_, ?_, ?_⟩, ?_, ?_, ?_⟩
      · rw [r2, r5]; exact hrun
      · rw [r2, r5, r1]; exact hlat
      · rw [r4, r3]; exact hcm
      · rw [r3, r5, hnil]; simp
      · rw [r3, hnil]; simp
      · intro hb; rw [r2] at hb
        rcases r7 with r7 | ⟨_, r7⟩
        · rw [r7]
        · exact absurd r7 hb
      · simp [handedIds, r6]
      · exact r5
      · intro _; exact ⟨by rw [r3]; exact hnil, by rw [r4]; exact hcmnil⟩
    | false =>
      simp only [Bool.false_eq_true, if_false]
      refine ⟨⟨hrun, hlat, hcm, ?_, fun _ => by simp [hp], fun _ => by simp [hp]⟩, by simp [handedIds], by simp, by simp [anyGated, Out.gated]⟩
      intro i hi; dsimp only at hi ⊢; have := hlt i hi; omega
  | true =>
    have hl : (Gen.mgrNewUpdate c.inFlight id (!true)).1 = c.inFlight ++ [id] := by simp [Gen.mgrNewUpdate]
    have hm2 : (Gen.mgrNewUpdate c.inFlight id (!true)).2 = false := by simp [Gen.mgrNewUpdate]
    simp only [hl, hm2, if_true, Bool.false_and, Bool.false_eq_true, if_false]
    refine ⟨⟨hrun, hlat, ?_, ?_, fun _ => by simp [hp], fun _ => by simp [hp]⟩, by simp [handedIds], by simp, by simp [anyGated, Out.gated]⟩
    · intro i hi
      simp only [List.mem_append, List.mem_singleton] at hi ⊢
      rcases hi with hi | hi
      · exact Or.inl (hcm i hi)
      · exact Or.inr hi
    · intro i hi
      simp only [List.mem_append, List.mem_singleton] at hi
      dsimp only
      rcases hi with hi | hi
      · have := hlt i hi; omega
      · omega

theorem map_succ_range' (s n : Nat) : (List.range' s n).map (· + 1) = List.range' (s + 1) n := by
  induction n generalizing s with
  | zero => rfl
  | succ n ih => simp [List.range'_succ, ih]

/-- what a step must establish: the invariant, the handed ids continue the run, gated releases only with nothing in flight -/
def Good (c : Chan) (r : Chan × List Out) : Prop :=
  Inv r.1 ∧ (∃ k, handedIds r.2 = List.range' c.nextHand k ∧ r.1.nextHand = c.nextHand + k) ∧ (anyGated r.2 = true → r.1.quiet)

theorem good_of_handOver (c0 c : Chan) (id : Nat) (ip : Bool) (hn : c.nextHand = c0.nextHand) (hid : id = c.nextHand) (hp : c.paused = true)
    (hrun : c.blocked = List.range' (id + 1) c.blocked.length) (hlat : id + 1 + c.blocked.length = c.latest + 1)
    (hcm : ∀ i ∈ c.cmPending, i ∈ c.inFlight) (hlt : ∀ i ∈ c.inFlight, i < c.nextHand) : Good c0 (handOver c id ip) := by
  obtain ⟨h1, h2, h3, h4⟩ := handOver_spec c id ip hid hp hrun hlat hcm hlt
  refine ⟨h1, ⟨1, ?_, ?_⟩, h4⟩
  · rw [h2, ← hn, ← hid]; rfl
  · rw [h3, ← hn, ← hid]

/-- push_ret_blockable_mon_update + hand-over, from a paused channel whose latest id was just bumped to `id` -/
theorem good_of_queueOrHand (c0 c : Chan) (id : Nat) (ip : Bool) (hn : c.nextHand = c0.nextHand) (hp : c.paused = true)
    (hrun : c.blocked = List.range' c.nextHand c.blocked.length) (hlat : c.nextHand + c.blocked.length = id) (hl : c.latest = id)
    (hcm : ∀ i ∈ c.cmPending, i ∈ c.inFlight) (hlt : ∀ i ∈ c.inFlight, i < c.nextHand) : Good c0 (queueOrHand c id ip) := by
  unfold queueOrHand
  cases hb : c.blocked with
  | nil =>
    simp only [Gen.pushBlockable, List.isEmpty_nil, Bool.not_true, Bool.false_eq_true, if_false]
    have hlen : c.blocked.length = 0 := by simp [hb]
    exact good_of_handOver c0 { c with blocked := [] } id ip hn (by show id = c.nextHand; omega) hp
      (by show ([] : List Nat) = List.range' (id + 1) 0; rfl) (by show id + 1 + 0 = c.latest + 1; omega) hcm hlt
  | cons x xs =>
    simp only [Gen.pushBlockable, List.isEmpty_cons, Bool.not_false, if_true]
    refine ⟨⟨?_, ?_, hcm, hlt, fun _ => hp, fun _ => hp⟩, ⟨0, by simp [handedIds], by simp [hn]⟩, by simp [anyGated]⟩
    · simp only [List.length_append, List.length_cons, List.length_nil]
      rw [List.range'_concat]
      rw [hb] at hrun hlat
      simp only [List.length_cons] at hrun hlat
      rw [← hrun]; simp; omega
    · simp only [List.length_append, List.length_cons, List.length_nil]
      rw [hb] at hlat; simp only [List.length_cons] at hlat; omega

theorem pause_fields (c : Chan) (fl : Bool × Bool × Bool) (v : List Nat × List Nat × List Nat) :
    (pauseWith c fl v).paused = true ∧ (pauseWith c fl v).blocked = c.blocked ∧ (pauseWith c fl v).inFlight = c.inFlight ∧
    (pauseWith c fl v).cmPending = c.cmPending ∧ (pauseWith c fl v).nextHand = c.nextHand ∧ (pauseWith c fl v).latest = c.latest := by
  simp [pauseWith, Gen.pausedSetsInProgress]

theorem good_same (c c' : Chan) (outs : List Out) (inv : Inv c) (h1 : c'.latest = c.latest) (h2 : c'.blocked = c.blocked)
    (h3 : c'.inFlight = c.inFlight) (h4 : c'.cmPending = c.cmPending) (h5 : c'.nextHand = c.nextHand) (h6 : c'.paused = c.paused)
    (hh : handedIds outs = []) (hg : anyGated outs = true → c.paused = false) : Good c (c', outs) := by
  have inv' : Inv c' := ⟨by rw [h2, h5]; exact inv.blocked_run, by rw [h2, h5, h1]; exact inv.latest_eq, by rw [h4, h3]; exact inv.cm_sub,
    by rw [h3, h5]; exact inv.lt_next, by rw [h3, h6]; exact inv.paused_inflight, by rw [h2, h6]; exact inv.paused_blocked⟩
  refine ⟨inv', ⟨0, by simpa using hh, by simp [h5]⟩, ?_⟩
  intro g
  exact inv'.quiet_of_not_paused (by show c'.paused = false; rw [h6]; exact hg g)

theorem csPre_fields (c : Chan) (nc ar : Bool) : (csPre c nc ar).paused = true ∧ (csPre c nc ar).blocked = c.blocked ∧
    (csPre c nc ar).inFlight = c.inFlight ∧ (csPre c nc ar).cmPending = c.cmPending ∧ (csPre c nc ar).nextHand = c.nextHand ∧
    (csPre c nc ar).latest = c.latest + 1 := by
  unfold csPre
  split
  · rename_i h; simp [h]
  · simp [pauseWith, Gen.pausedSetsInProgress]

theorem step_good (c : Chan) (inv : Inv c) (op : Op) : Good c (step c op) := by
  have hA := inv.blocked_run; have hB := inv.latest_eq; have hC := inv.cm_sub; have hD := inv.lt_next
  have hE := inv.paused_inflight; have hF := inv.paused_blocked
  cases op with
  | csRecv nc ar ip =>
    obtain ⟨f1, f2, f3, f4, f5, f6⟩ := csPre_fields c nc ar
    simp only [step]
    exact good_of_queueOrHand c _ _ ip f5 f1 (by rw [f2, f5]; exact hA) (by rw [f2, f5]; exact hB) f6 (by rw [f4, f3]; exact hC) (by rw [f3, f5]; exact hD)
  | send ip =>
    simp only [step]
    split
    · exact good_same c c [] inv rfl rfl rfl rfl rfl rfl rfl (by simp [anyGated])
    · exact good_of_queueOrHand c _ _ ip rfl (by simp [pauseWith, Gen.pausedSetsInProgress]) hA hB rfl hC hD
  | other ip =>
    simp only [step]
    exact good_of_queueOrHand c _ _ ip rfl (by simp [pauseWith, Gen.pausedSetsInProgress]) hA hB rfl hC hD
  | disconnect => exact good_same c _ [] inv rfl rfl rfl rfl rfl rfl rfl (by simp [anyGated])
  | confirm =>
    simp only [step]
    refine good_same c _ _ inv rfl rfl rfl rfl rfl rfl ?_ ?_
    · split <;> simp [handedIds]
    · cases hp : c.paused <;> simp [Gen.checkReady, anyGated]
  | reestablish nr ncs rcase =>
    simp only [step]
    refine good_same c _ _ inv rfl rfl rfl rfl rfl rfl ?_ ?_
    · simp only [handedIds_append]
      repeat' split
      all_goals simp [handedIds]
    · cases hp : c.paused
      · simp
      · intro h; exfalso; revert h
        simp only [anyGated_append, Gen.reestRaa, Gen.reestCs, Gen.reestAwaitingReadyHeld, Gen.reestReadyResent]
        cases nr <;> cases ncs <;> cases c.csFirst <;> by_cases h1 : rcase = 1 <;> by_cases h2 : rcase = 2 <;> simp [anyGated, Out.gated, h1, h2]
  | unblock ip =>
    simp only [step]
    cases hb : c.blocked with
    | nil => simp only [Gen.unblockNext, List.isEmpty_nil, if_true]; exact good_same c c [] inv rfl rfl rfl rfl rfl rfl rfl (by simp [anyGated])
    | cons x xs =>
      simp only [Gen.unblockNext, List.isEmpty_cons, Bool.false_eq_true, if_false, List.getElem?_cons_zero, Option.map_some, List.eraseIdx_cons_zero]
      rw [hb] at hA hB
      simp only [List.length_cons, List.range'_succ, List.cons.injEq] at hA hB
      exact good_of_handOver c { c with blocked := xs } x ip rfl hA.1 (hF (by simp [hb]))
        (by show xs = List.range' (x + 1) xs.length; rw [hA.1]; exact hA.2) (by show x + 1 + xs.length = c.latest + 1; rw [hA.1]; omega) hC hD
  | complete id =>
    simp only [step]
    split
    · rename_i hcont
      have hl : Gen.mgrRetain c.inFlight (c.nextHand - 1) = [] := by
        simp only [Gen.mgrRetain, List.filter_eq_nil_iff]
        intro i hi; have := hD i hi; simp; omega
      split
      · rename_i hcm
        simp only [hl, Gen.mgrStillInFlight, List.length_nil, ne_eq, not_true_eq_false, decide_false, Bool.false_eq_true, if_false]
        have hcmnil : c.cmPending.erase id = [] := by simpa using hcm
        split
        · have rf := resume_fields { c with cmPending := c.cmPending.erase id, inFlight := [] }
          obtain ⟨r1, r2, r3, r4, r5, r6, r7, r8⟩ := rf
          simp only at r1 r2 r3 r4 r5 r7
          refine ⟨⟨by rw [r2, r5]; exact hA, by rw [r2, r5, r1]; exact hB, by rw [r4, hcmnil]; simp, by rw [r3]; simp, by rw [r3]; simp, ?_⟩,
            ⟨0, by simpa using r6, by simp [r5]⟩, fun _ => ⟨r3, by rw [r4]; exact hcmnil⟩⟩
          intro hb; rw [r2] at hb
          rcases r7 with r7 | ⟨_, r7⟩
          · rw [r7]; exact hF hb
          · exact absurd r7 hb
        · refine ⟨⟨hA, hB, by simp [hcmnil], by simp, by simp, hF⟩, ⟨0, by simp [handedIds], by simp⟩, fun _ => ⟨rfl, hcmnil⟩⟩
      · refine ⟨⟨hA, hB, ?_, hD, hE, hF⟩, ⟨0, by simp [handedIds], by simp⟩, by simp [anyGated]⟩
        intro i hi; exact hC i (List.mem_of_mem_erase hi)
    · exact good_same c c [] inv rfl rfl rfl rfl rfl rfl rfl (by simp [anyGated])
  | raaRecv freed rc hold adds fw fl ff ip =>
    simp only [step]
    split
    · rename_i hrel
      have hbe : c.blocked = [] := by
        cases hb : c.blocked with
        | nil => rfl
        | cons x xs => simp [Gen.raaReleaseMonitor, hb] at hrel
      rw [hbe] at hB; simp only [List.length_nil, Nat.add_zero] at hB
      exact good_of_handOver c _ _ ip rfl (by show c.latest + 1 = c.nextHand; omega) (by simp [pauseWith, Gen.pausedSetsInProgress])
        (by simp [pauseWith, hbe]) (by simp [pauseWith, hbe]) (by simpa [pauseWith] using hC) (by simpa [pauseWith] using hD)
    · refine ⟨⟨?_, ?_, by simpa [pauseWith] using hC, by simpa [pauseWith] using hD, fun _ => by simp [pauseWith, Gen.pausedSetsInProgress],
        fun _ => by simp [pauseWith, Gen.pausedSetsInProgress]⟩, ⟨0, by simp [handedIds], by simp [pauseWith]⟩, by simp [anyGated]⟩
      · simp only [pauseWith, List.length_append, List.length_cons, List.length_nil]
        rw [List.range'_concat, ← hA]; simp; omega
      · simp only [pauseWith, List.length_append, List.length_cons, List.length_nil]; omega
  | claim ub0 ip =>
    simp only [step]
    split
    · rename_i hbuild
      have hbe : c.blocked = [] := by
        cases hb : c.blocked with
        | nil => rfl
        | cons x xs => simp [Gen.claimBuildsCs, hb] at hbuild
      rw [hbe] at hB; simp only [List.length_nil, Nat.add_zero] at hB
      exact good_of_handOver c _ _ ip rfl (by show c.latest + 1 = c.nextHand; omega) (by simp [pauseWith, Gen.pausedSetsInProgress])
        (by simp [pauseWith, hbe]) (by simp [pauseWith, hbe]) (by simpa [pauseWith] using hC) (by simpa [pauseWith] using hD)
    · cases hb : c.blocked with
      | nil =>
        rw [hb] at hB; simp only [List.length_nil, Nat.add_zero] at hB
        exact good_of_handOver c _ _ ip rfl (by simp [Gen.claimJump, pauseWith]; omega) (by simp [pauseWith, Gen.pausedSetsInProgress])
          (by simp [Gen.claimJump, pauseWith]) (by simp [Gen.claimJump, pauseWith]) (by simpa [pauseWith] using hC) (by simpa [pauseWith] using hD)
      | cons x xs =>
        rw [hb] at hA hB
        simp only [List.length_cons, List.range'_succ, List.cons.injEq] at hA hB
        refine good_of_handOver c _ _ ip rfl (by simp [Gen.claimJump, pauseWith, hA.1]) (by simp [pauseWith, Gen.pausedSetsInProgress])
          ?_ ?_ (by simpa [pauseWith] using hC) (by simpa [pauseWith] using hD)
        · simp only [Gen.claimJump, pauseWith, List.getElem?_cons_zero, Option.getD_some, List.map_cons, List.length_cons, List.length_map]
          rw [List.range'_succ, hA.1]
          congr 1
          rw [hA.2, map_succ_range', List.length_range']
        · simp only [Gen.claimJump, pauseWith, List.getElem?_cons_zero, Option.getD_some, List.map_cons, List.length_cons, List.length_map]
          omega

/-- the run as a trace: per step the state reached and what the step put out -/
def trace (c : Chan) : List Op → List (Chan × List Out)
  | [] => []
  | op :: ops => step c op :: trace (step c op).1 ops

theorem run_good (ops : List Op) : ∀ c : Chan, Inv c →
    Inv (run c ops).1 ∧ (∃ n, handedIds (run c ops).2 = List.range' c.nextHand n ∧ (run c ops).1.nextHand = c.nextHand + n) ∧
    (∀ p ∈ trace c ops, anyGated p.2 = true → p.1.quiet) := by
  induction ops with
  | nil => intro c inv; exact ⟨inv, ⟨0, rfl, rfl⟩, by simp [trace]⟩
  | cons op ops ih =>
    intro c inv
    obtain ⟨i1, ⟨k, hk1, hk2⟩, g1⟩ := step_good c inv op
    obtain ⟨i2, ⟨n, hn1, hn2⟩, g2⟩ := ih (step c op).1 i1
    refine ⟨i2, ⟨k + n, ?_, ?_⟩, ?_⟩
    · simp only [run, handedIds_append, hk1, hn1, hk2]
      rw [List.range'_append_1]
    · simp only [run, hn2, hk2]; omega
    · intro p hp
      simp only [trace, List.mem_cons] at hp
      rcases hp with rfl | hp
      · exact g1
      · exact g2 p hp

/-- state and outputs once every update the ChainMonitor still reports pending has completed (independent of the order) -/
def allComplete (c : Chan) : Chan × List Out :=
  if c.cmPending.isEmpty then (c, [])
  else
    let c1 := { c with cmPending := [], inFlight := Gen.mgrRetain c.inFlight (c.nextHand - 1) }
    if Gen.mgrStillInFlight c1.inFlight.length then (c1, []) else if c1.paused then resume c1 else (c1, [])

theorem run_completions (ds : List Nat) : ∀ c : Chan, ds.Perm c.cmPending → run c (ds.map Op.complete) = allComplete c := by
  induction ds with
  | nil =>
    intro c hp
    have : c.cmPending = [] := List.Perm.eq_nil (List.Perm.symm hp) |> fun h => h
    simp [run, allComplete, this]
  | cons d ds ih =>
    intro c hp
    have hd : d ∈ c.cmPending := hp.subset (by simp)
    have hp' : ds.Perm (c.cmPending.erase d) := by
      have := (List.perm_cons_erase hd)
      exact List.Perm.cons_inv (hp.trans this)
    have hne : c.cmPending.isEmpty = false := by
      cases hc : c.cmPending with
      | nil => simp [hc] at hd
      | cons x xs => rfl
    simp only [List.map_cons, run, step]
    have hcont : c.cmPending.contains d = true := by simpa using hd
    simp only [hcont, if_true]
    cases he : (c.cmPending.erase d).isEmpty with
    | true =>
      have hds : ds = [] := by
        have : c.cmPending.erase d = [] := by simpa using he
        rw [this] at hp'; exact List.Perm.eq_nil hp'
      subst hds
      have hnil : c.cmPending.erase d = [] := by simpa using he
      simp only [if_true, List.map_nil, run, List.append_nil, allComplete, hne, Bool.false_eq_true, if_false, hnil]
    | false =>
      simp only [Bool.false_eq_true, if_false, List.nil_append]
      rw [ih _ hp']
      simp only [allComplete, he, hne, Bool.false_eq_true, if_false]

end Ldk.MonGate.Gate
