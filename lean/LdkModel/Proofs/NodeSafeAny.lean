/- whole-history SAFETY of Model/NodeStep.lean for ANY delivered heights (C08, round 6): the invariant `Safe` of
   Proofs/NodeSafe.lean does not need blocks to arrive one height at a time. A block at a processed height (the next one or
   a jump) re-establishes every clause AT THAT HEIGHT from any state; a block at a height the monitors ignore (re-announced
   or lower) only moves things towards "resolved" (`Mono`) and leaves the monitors' best height alone. -/
import LdkModel.Proofs.NodeSafe
namespace Ldk.NodeStep
open Ldk Ldk.Timing

theorem mgrIntercept_frame (s : St) (h : Nat) : Frame s (mgrIntercept s h).1 := by
  unfold mgrIntercept; split
  · exact failUp_frame { s with intercepted := false }
  · exact Frame.refl s

theorem Mono.safeAt {s s' : St} (m : Mono s s') {h : Nat} (c : SafeAt h s) : SafeAt h s' :=
  ⟨m.c1 c.1, m.c2 c.2.1, m.c3 c.2.2.1, m.c4 c.2.2.2⟩

/-- a block at ANY processed height (`h > monBest`: the next block or a jump of any size), from ANY state: afterwards the
    node is in time at `h` in every respect, the monitors' best height is `h`, nothing went "backwards" -/
theorem block_processed (s : St) (h : Nat) (x : BbuExit) (c t : Bool) (hproc : monitorProcessesHeight h s.monBest = true) :
    SafeAt h (nodeStep s (.block h x c t)).1 ∧ (nodeStep s (.block h x c t)).1.monBest = h ∧
    Mono s (nodeStep s (.block h x c t)).1 := by
  simp only [nodeStep, hproc, if_true]
  have m0 := mgrBlock_mono s h x
  have mi := mgrIntercept_mono (mgrBlock s h x).1 h
  have mt := monTxs_mono (mgrIntercept (mgrBlock s h x).1 h).1 h c t
  have ms := monScan_mono (monTxs (mgrIntercept (mgrBlock s h x).1 h).1 h c t) h
  have mm := monMatured_mono (monScan (monTxs (mgrIntercept (mgrBlock s h x).1 h).1 h c t) h).1 h
  have mp := monPreemptive_mono (monMatured (monScan (monTxs (mgrIntercept (mgrBlock s h x).1 h).1 h c t) h).1 h).1 h
  have mc := monClaims_mono (monPreemptive (monMatured (monScan (monTxs (mgrIntercept (mgrBlock s h x).1 h).1 h c t) h).1 h).1 h).1 h
  have mu := monUp_mono (monDown (mgrIntercept (mgrBlock s h x).1 h).1 h c t).1 h
  have p2 := mgrBlock_post s h x
  have p4 := mgrIntercept_post (mgrBlock s h x).1 h
  have p1 := monScan_post (monTxs (mgrIntercept (mgrBlock s h x).1 h).1 h c t) h
  have p3 := monUp_post (monDown (mgrIntercept (mgrBlock s h x).1 h).1 h c t).1 h
  have mdown : Mono (monScan (monTxs (mgrIntercept (mgrBlock s h x).1 h).1 h c t) h).1 (monDown (mgrIntercept (mgrBlock s h x).1 h).1 h c t).1 :=
    (mm.trans mp).trans mc
  have mall : Mono s (monUp (monDown (mgrIntercept (mgrBlock s h x).1 h).1 h c t).1 h).1 :=
    ((((m0.trans mi).trans mt).trans ms).trans mdown).trans mu
  refine ⟨⟨?_, ?_, ?_, ?_⟩, trivial, ?_⟩
  · exact (mdown.trans mu).c1 p1
  · exact ((((mi.trans mt).trans ms).trans mdown).trans mu).c2 p2
  · exact p3
  · exact (((mt.trans ms).trans mdown).trans mu).c4 p4
  · exact ⟨mall.inC, mall.outC, mall.pre, mall.cell, mall.icp, mall.live, mall.db, mall.up, mall.ub⟩

/-- a block at a height the monitors do NOT process (re-announced or lower: restart, reorg): only the manager's sweeps run;
    the monitors' best height stays, nothing goes "backwards" -/
theorem block_unprocessed (s : St) (h : Nat) (x : BbuExit) (c t : Bool) (hproc : monitorProcessesHeight h s.monBest = false) :
    Mono s (nodeStep s (.block h x c t)).1 ∧ (nodeStep s (.block h x c t)).1.monBest = s.monBest := by
  simp only [nodeStep, hproc, Bool.false_eq_true, if_false]
  exact ⟨(mgrBlock_mono s h x).trans (mgrIntercept_mono _ h), ((mgr_frame s h x).trans (mgrIntercept_frame _ h)).2.2.2.2.2⟩

/-- the only thing a history must satisfy: the downstream peer's preimage, when it comes, comes while the upstream HTLC is not
    yet inside its own on-chain window at the node's best height (the weakest condition under which the upstream side CAN be
    in time right after the arrival; implied by `OneAtATime`'s "before the node's own downstream trigger", see
    `oneAtATime_preimageInTime`). Blocks are unconstrained: any heights, jumps, re-announced and lower heights. -/
def PreimageInTime : St → List Ev → Prop
  | _, [] => True
  | s, e :: es =>
    (match e with
     | .preimage => shouldBroadcastFor s.monBest s.inCltv false true = false
     | _ => True) ∧ PreimageInTime (nodeStep s e).1 es

theorem nodeStep_safe_any (s : St) (e : Ev) (hs : Safe s)
    (he : match e with
          | .preimage => shouldBroadcastFor s.monBest s.inCltv false true = false
          | _ => True) : Safe (nodeStep s e).1 := by
  obtain ⟨⟨c1, c2, c3, c4⟩, wf⟩ := hs
  cases e with
  | block h x c t =>
    cases hproc : monitorProcessesHeight h s.monBest with
    | true =>
      obtain ⟨sa, hb, m⟩ := block_processed s h x c t hproc
      unfold Safe; rw [hb]; exact ⟨sa, m.wf wf⟩
    | false =>
      obtain ⟨m, hb⟩ := block_unprocessed s h x c t hproc
      unfold Safe; rw [hb]; exact ⟨m.safeAt ⟨c1, c2, c3, c4⟩, m.wf wf⟩
  | preimage =>
    simp only at he
    unfold Safe SafeAt
    simp only [nodeStep]
    unfold onPreimage
    split
    · exact ⟨⟨c1, c2, c3, c4⟩, wf⟩
    · rename_i hn
      simp only [Bool.or_eq_true, not_or, Bool.not_eq_true] at hn
      simp only []
      split
      · refine ⟨⟨(fun a => nomatch a), (fun a => absurd (show s.inCell = true from a) (by simp [hn.2])), (fun _ b => nomatch b), c4⟩, wf⟩
      · refine ⟨⟨(fun a => nomatch a), (fun a => absurd (show s.inCell = true from a) (by simp [hn.2])), fun _ _ _ => he, c4⟩, wf⟩
  | downCommitted =>
    unfold Safe SafeAt
    simp only [nodeStep]
    split
    · rename_i hc
      unfold C2 at c2
      refine ⟨⟨fun _ _ => cell_ok_scan_ok _ _ _ (c2 hc), (fun a => nomatch a), c3, c4⟩, wf⟩
    · exact ⟨⟨c1, c2, c3, c4⟩, wf⟩
  | released =>
    unfold Safe SafeAt
    simp only [nodeStep]
    split
    · rename_i hc
      unfold C4 at c4
      refine ⟨⟨c1, fun _ => icpt_ok_cell_ok _ _ (c4 hc), c3, (fun a => nomatch a)⟩, wf⟩
    · exact ⟨⟨c1, c2, c3, c4⟩, wf⟩

theorem run_safe_any (es : List Ev) : ∀ s : St, Safe s → PreimageInTime s es → Safe (run s es).1 := by
  induction es with
  | nil => intro s hs _; exact hs
  | cons e t ih =>
    intro s hs ho
    obtain ⟨he, hr⟩ := ho
    exact ih _ (nodeStep_safe_any s e hs he) hr

/-- the hypothesis of round 5b's theorem implies the new, weaker one -/
theorem oneAtATime_preimageInTime (es : List Ev) : ∀ s : St, Safe s → OneAtATime s es → PreimageInTime s es := by
  induction es with
  | nil => intro _ _ _; trivial
  | cons e t ih =>
    intro s hs ho
    obtain ⟨he, hr⟩ := ho
    refine ⟨?_, ih _ (nodeStep_safe s e hs he) hr⟩
    cases e with
    | preimage => exact arrival_ok_up_ok _ _ _ hs.2 he
    | block h x c t => trivial
    | downCommitted => trivial
    | released => trivial

/-- the DOWNSTREAM-facing part of the invariant (outbound HTLC, holding cell, held intercepted forward) needs no hypothesis on
    the history at all: whenever and however the preimage arrives -/
def SafeDown (s : St) : Prop := C1 s.monBest s ∧ C2 s.monBest s ∧ C4 s.monBest s

theorem nodeStep_safeDown (s : St) (e : Ev) (hs : SafeDown s) : SafeDown (nodeStep s e).1 := by
  obtain ⟨c1, c2, c4⟩ := hs
  cases e with
  | block h x c t =>
    cases hproc : monitorProcessesHeight h s.monBest with
    | true =>
      obtain ⟨sa, hb, _⟩ := block_processed s h x c t hproc
      unfold SafeDown; rw [hb]; exact ⟨sa.1, sa.2.1, sa.2.2.2⟩
    | false =>
      obtain ⟨m, hb⟩ := block_unprocessed s h x c t hproc
      unfold SafeDown; rw [hb]; exact ⟨m.c1 c1, m.c2 c2, m.c4 c4⟩
  | preimage =>
    unfold SafeDown
    simp only [nodeStep]
    unfold onPreimage
    split
    · exact ⟨c1, c2, c4⟩
    · rename_i hn
      simp only [Bool.or_eq_true, not_or, Bool.not_eq_true] at hn
      simp only []
      split
      · exact ⟨(fun a => nomatch a), (fun a => absurd (show s.inCell = true from a) (by simp [hn.2])), c4⟩
      · exact ⟨(fun a => nomatch a), (fun a => absurd (show s.inCell = true from a) (by simp [hn.2])), c4⟩
  | downCommitted =>
    unfold SafeDown
    simp only [nodeStep]
    split
    · rename_i hc
      unfold C2 at c2
      exact ⟨fun _ _ => cell_ok_scan_ok _ _ _ (c2 hc), (fun a => nomatch a), c4⟩
    · exact ⟨c1, c2, c4⟩
  | released =>
    unfold SafeDown
    simp only [nodeStep]
    split
    · rename_i hc
      unfold C4 at c4
      exact ⟨c1, fun _ => icpt_ok_cell_ok _ _ (c4 hc), (fun a => nomatch a)⟩
    · exact ⟨c1, c2, c4⟩

theorem run_safeDown (es : List Ev) : ∀ s : St, SafeDown s → SafeDown (run s es).1 := by
  induction es with
  | nil => intro s hs; exact hs
  | cons e t ih => intro s hs; exact ih _ (nodeStep_safeDown s e hs)

end Ldk.NodeStep
