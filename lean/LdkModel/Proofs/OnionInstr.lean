/- C14 — hop payload VALUES and BYTES: helper lemmas for the payload round-trip theorems of Props/C14.lean
   (big-endian integers, HighZeroBytesDroppedBigSize, BigSize, the TLV stream framing, self-delimitation).
   Core only (no Mathlib). -/
import LdkModel.Model.OnionInstr
import LdkModel.Proofs.OnionPayload
import LdkModel.Proofs.Onion
set_option linter.unusedSimpArgs false
namespace Ldk.OnionPayload
open Ldk.Onion (Bytes WellFramed bigSizeFrame)

/-! ### big-endian integers -/

theorem beBytes_length (n x : Nat) : (beBytes n x).length = n := by
  induction n generalizing x with
  | zero => rfl
  | succ n ih => simp [beBytes, ih]

theorem beNat_snoc (l : Bytes) (b : UInt8) : beNat (l ++ [b]) = beNat l * 256 + b.toNat := by
  simp [beNat, List.foldl_append]

theorem beNat_beBytes (n x : Nat) : beNat (beBytes n x) = x % 256 ^ n := by
  induction n generalizing x with
  | zero => simp [beBytes, beNat, Nat.mod_one]
  | succ n ih =>
    rw [beBytes, beNat_snoc, ih, UInt8.toNat_ofNat']
    have e : (256 : Nat) ^ (n + 1) = 256 * 256 ^ n := by rw [Nat.pow_succ, Nat.mul_comm]
    rw [e, Nat.mod_mul]
    have : x % 256 % 2 ^ 8 = x % 256 := Nat.mod_eq_of_lt (by omega)
    omega

theorem foldl_be (acc : Nat) (b : Bytes) :
    b.foldl (fun acc x => acc * 256 + x.toNat) acc = acc * 256 ^ b.length + beNat b := by
  induction b generalizing acc with
  | nil => simp [beNat]
  | cons x xs ih =>
    simp only [List.foldl_cons, List.length_cons, beNat]
    rw [ih, ih (0 * 256 + x.toNat), Nat.pow_succ, Nat.add_mul, Nat.add_mul, Nat.mul_assoc, Nat.mul_comm 256 (256 ^ xs.length)]
    omega

theorem beNat_cons (x : UInt8) (xs : Bytes) : beNat (x :: xs) = x.toNat * 256 ^ xs.length + beNat xs := by
  have := foldl_be (0 * 256 + x.toNat) xs
  simp only [beNat, List.foldl_cons] at *
  rw [this]; simp

theorem beNat_dropZeros (l : Bytes) : beNat (l.dropWhile (· == 0)) = beNat l := by
  induction l with
  | nil => rfl
  | cons x xs ih =>
    simp only [List.dropWhile_cons]
    split
    · rename_i hx
      have : x = 0 := by simpa using hx
      subst this
      rw [ih, beNat_cons]; simp
    · rfl

theorem dropZeros_head (l : Bytes) : (l.dropWhile (· == 0)).head? ≠ some 0 := by
  induction l with
  | nil => simp
  | cons x xs ih =>
    simp only [List.dropWhile_cons]
    split
    · exact ih
    · rename_i hx
      simp only [List.head?_cons, ne_eq, Option.some.injEq]
      intro h; subst h; simp at hx

theorem dropZeros_length (l : Bytes) : (l.dropWhile (· == 0)).length ≤ l.length := by
  induction l with
  | nil => simp
  | cons x xs ih => simp only [List.dropWhile_cons]; split <;> simp <;> omega

/-! ### HighZeroBytesDroppedBigSize and the other value encodings -/

theorem hzbd_roundtrip (w x : Nat) (hx : x < 256 ^ w) : hzbdDec w (hzbdEnc w x) = some x := by
  unfold hzbdDec hzbdEnc
  have h1 := dropZeros_length (beBytes w x)
  rw [beBytes_length] at h1
  rw [if_neg (by omega), if_neg (dropZeros_head _), beNat_dropZeros, beNat_beBytes, Nat.mod_eq_of_lt hx]

theorem hzbdEnc_length_le (w x : Nat) : (hzbdEnc w x).length ≤ w := by
  have := dropZeros_length (beBytes w x); rwa [beBytes_length] at this

/-- the writer never emits a leading zero byte, and zero is the empty string (what the TLV test vectors demand) -/
theorem hzbdEnc_minimal (w x : Nat) : (hzbdEnc w x).head? ≠ some 0 := dropZeros_head _

/-- a non-minimal encoding (leading zero byte) or one that is too long is rejected by the reader -/
theorem hzbdDec_rejects (w : Nat) (b : Bytes) : (b.head? = some 0 ∨ w < b.length) → hzbdDec w b = none := by
  intro h
  unfold hzbdDec
  rcases h with h | h
  · split <;> simp
  · simp [h]

theorem decodeVal_encodeVal (e : ValEnc) (v : HVal) (hv : v.valid e = true) : decodeVal e (encodeVal e v) = some v := by
  cases e <;> cases v <;> simp only [HVal.valid, Bool.false_eq_true, decide_eq_true_eq, Bool.and_eq_true, beq_iff_eq] at hv
  · simp [decodeVal, encodeVal, hzbd_roundtrip _ _ hv]
  · simp [decodeVal, encodeVal, beBytes_length, beNat_beBytes, Nat.mod_eq_of_lt hv]
  · simp [decodeVal, encodeVal, hv]
  · simp [decodeVal, encodeVal]
  · rename_i s t
    simp only [decodeVal, encodeVal, List.length_append, hv.1]
    rw [if_neg (by omega), List.drop_left' hv.1, List.take_left' hv.1, hzbd_roundtrip _ _ hv.2]
    rfl

/-! ### BigSize -/

theorem bigSize_ne_nil (n : Nat) : bigSize n ≠ [] := by
  unfold bigSize; split <;> (try split) <;> (try split) <;> simp

theorem bigSize_length_pos (n : Nat) : 1 ≤ (bigSize n).length := by
  have := bigSize_ne_nil n
  cases h : bigSize n with
  | nil => exact absurd h this
  | cons _ _ => simp

theorem readBigSize_bigSize (n : Nat) (h : n < 2 ^ 64) (r : Bytes) : readBigSize (bigSize n ++ r) = some (n, r) := by
  unfold bigSize
  split
  · rename_i h1
    have : (UInt8.ofNat n).toNat = n := by rw [UInt8.toNat_ofNat']; omega
    simp only [List.cons_append, List.nil_append, readBigSize, this]
    rw [if_pos (by omega)]
  · split
    · rename_i h1 h2
      have hm : n % 256 ^ 2 = n := Nat.mod_eq_of_lt (by omega)
      have hl := beBytes_length 2 n
      have e : (0xfd : UInt8).toNat = 0xfd := rfl
      simp only [List.cons_append, readBigSize, e]
      rw [if_neg (by omega)]
      simp only [if_true, List.length_append, hl, List.take_left' hl, List.drop_left' hl, beNat_beBytes, hm]
      rw [if_neg (by omega), if_neg (by omega)]
    · split
      · rename_i h1 h2 h3
        have hm : n % 256 ^ 4 = n := Nat.mod_eq_of_lt (by omega)
        have hl := beBytes_length 4 n
        have e : (0xfe : UInt8).toNat = 0xfe := rfl
        simp only [List.cons_append, readBigSize, e]
        rw [if_neg (by omega)]
        simp only [show ¬ (254 = 253) by omega, if_false, if_true, List.length_append, hl, List.take_left' hl, List.drop_left' hl,
          beNat_beBytes, hm]
        rw [if_neg (by omega), if_neg (by omega)]
      · rename_i h1 h2 h3
        have hm : n % 256 ^ 8 = n := Nat.mod_eq_of_lt (by omega)
        have hl := beBytes_length 8 n
        have e : (0xff : UInt8).toNat = 0xff := rfl
        simp only [List.cons_append, readBigSize, e]
        rw [if_neg (by omega)]
        simp only [show ¬ (255 = 253) by omega, show ¬ (255 = 254) by omega, if_false, List.length_append, hl,
          List.take_left' hl, List.drop_left' hl, beNat_beBytes, hm]
        rw [if_neg (by omega), if_neg (by omega)]

/-! ### TLV stream framing -/

theorem encodeRecords_cons (r : Rec) (rs : List Rec) :
    encodeRecords (r :: rs) = bigSize r.1 ++ (bigSize r.2.length ++ (r.2 ++ encodeRecords rs)) := by
  simp [encodeRecords, List.append_assoc]

/-- the types and value lengths fit BigSize's u64 -/
def RecsU64 (recs : List Rec) : Prop := ∀ r ∈ recs, r.1 < 2 ^ 64 ∧ r.2.length < 2 ^ 64

theorem parseRecords_encodeRecords : ∀ (recs : List Rec) (fuel : Nat), RecsU64 recs → (encodeRecords recs).length < fuel →
    parseRecords fuel (encodeRecords recs) = some recs
  | [], fuel, _, hf => by
    cases fuel with
    | zero => simp at hf
    | succ f => simp [encodeRecords, parseRecords]
  | r :: rs, fuel, hu, hf => by
    have hr := hu r (by simp)
    rw [encodeRecords_cons] at hf ⊢
    have h1 := bigSize_length_pos r.1
    cases fuel with
    | zero => simp at hf
    | succ f =>
      have hne : bigSize r.1 ++ (bigSize r.2.length ++ (r.2 ++ encodeRecords rs)) ≠ [] := by
        intro h; simp [bigSize_ne_nil] at h
      have ih := parseRecords_encodeRecords rs f (fun x hx => hu x (by simp [hx])) (by
        simp only [List.length_append] at hf; omega)
      cases hb : bigSize r.1 ++ (bigSize r.2.length ++ (r.2 ++ encodeRecords rs)) with
      | nil => exact absurd hb hne
      | cons x xs =>
        rw [parseRecords, ← hb, readBigSize_bigSize _ hr.1]
        simp only [readBigSize_bigSize _ hr.2, List.length_append]
        rw [if_neg (by omega), List.drop_left' rfl, List.take_left' rfl, ih]
        all_goals first | rfl | (intro h; cases h)

theorem parsePayload_encodePayload (recs : List Rec) (hu : RecsU64 recs) (hl : (encodeRecords recs).length < 2 ^ 64) :
    parsePayload (encodePayload recs) = some recs := by
  unfold parsePayload encodePayload
  simp only [readBigSize_bigSize _ hl, ne_eq, not_true_eq_false, if_false]
  exact parseRecords_encodeRecords recs _ hu (by omega)

/-! ### the length prefix makes the payload self-delimiting for `decode_next_hop`'s reader -/

theorem beBytes_two (n : Nat) : beBytes 2 n = [UInt8.ofNat (n / 256 % 256), UInt8.ofNat (n % 256)] := by
  simp [beBytes]

theorem bsf_small (n : Nat) (body : Bytes) (hn : n < 0xfd) (hb : body.length = n) :
    WellFramed bigSizeFrame (UInt8.ofNat n :: body) := by
  intro rest
  have h1 : (UInt8.ofNat n).toNat = n := by simp; omega
  simp [bigSizeFrame, h1, hn, hb]; omega

theorem bsf_u16 (hi lo : UInt8) (body : Bytes)
    (hv : 0xfd ≤ hi.toNat * 256 + lo.toNat) (hb : body.length = hi.toNat * 256 + lo.toNat) :
    WellFramed bigSizeFrame (0xfd :: hi :: lo :: body) := by
  intro rest
  simp [bigSizeFrame, hb]
  omega

theorem wellFramed_encodePayload (recs : List Rec) (hl : (encodeRecords recs).length < 65536) :
    WellFramed bigSizeFrame (encodePayload recs) := by
  unfold encodePayload
  simp only []
  generalize hs : encodeRecords recs = s at hl
  unfold bigSize
  by_cases h1 : s.length < 0xfd
  · rw [if_pos h1]
    exact bsf_small s.length s h1 rfl
  · rw [if_neg h1, if_pos (by omega), beBytes_two]
    have e1 : (UInt8.ofNat (s.length / 256 % 256)).toNat = s.length / 256 := by rw [UInt8.toNat_ofNat']; omega
    have e2 : (UInt8.ofNat (s.length % 256)).toNat = s.length % 256 := by rw [UInt8.toNat_ofNat']; omega
    exact bsf_u16 _ _ s (by rw [e1, e2]; omega) (by rw [e1, e2]; omega)

/-! ### the typed records of an instruction decode, with the READER's encodings, to the values that were encoded
   with the WRITER's encodings (both tables generated) -/

theorem optValid_some {e : ValEnc} {v : HVal} (h : optValid e (some v) = true) : v.valid e = true := h

theorem dec_num (e : ValEnc) (n : Nat) (h : (HVal.num n).valid e = true) : decodeVal e (encodeVal e (.num n)) = some (.num n) :=
  decodeVal_encodeVal e _ h
theorem dec_bytes (e : ValEnc) (b : Bytes) (h : (HVal.bytes b).valid e = true) : decodeVal e (encodeVal e (.bytes b)) = some (.bytes b) :=
  decodeVal_encodeVal e _ h
theorem dec_st (s : Bytes) (t : Nat) (h : (HVal.secretTotal s t).valid .secretTotal = true) :
    decodeVal .secretTotal (encodeVal .secretTotal (.secretTotal s t)) = some (.secretTotal s t) :=
  decodeVal_encodeVal _ _ h

theorem dv_raw (b : Bytes) : decodeVal .raw b = some (.bytes b) := rfl
theorem ev_raw (b : Bytes) : encodeVal .raw (.bytes b) = b := rfl

theorem toOut_custom (i : HopInstr) : i.toOut.customTlvs = i.custom := by cases i <;> rfl
theorem toOut_outer (i : HopInstr) : i.toOut.outerOnion = true := by cases i <;> rfl

theorem typed_values_decode (i : HopInstr) (hv : i.valuesOk = true) :
    i.toOut.typedRecs.all (fun r => (decodeVal (encOf inboundEnc r.1) r.2).isSome) = true ∧
    instrOf i.kind i.toOut.typedRecs i.custom = some i := by
  have e8 : (256 : Nat) ^ 8 = 18446744073709551616 := by decide
  have e4 : (256 : Nat) ^ 4 = 4294967296 := by decide
  cases i with
  | forward scid amt cltv =>
    simp only [HopInstr.valuesOk, Bool.and_eq_true, decide_eq_true_eq] at hv
    obtain ⟨⟨h1, h2⟩, h3⟩ := hv
    have a := dec_num (.be 8) scid (by simpa [HVal.valid] using h1)
    have b := dec_num (.hzbd 8) amt (by simpa [HVal.valid] using h2)
    have c := dec_num (.hzbd 4) cltv (by simpa [HVal.valid] using h3)
    constructor
    · simp [HopInstr.toOut, OutPayload.typedRecs, tlvRecords, encNum, encOf, inboundEnc, writeEncOnionForward, List.lookup, a, b, c]
    · simp [HopInstr.toOut, HopInstr.kind, HopInstr.custom, OutPayload.typedRecs, tlvRecords, instrOf, getNum, getVal, lookupRec, encNum, encOf,
        inboundEnc, writeEncOnionForward, List.lookup, a, b, c]
  | receive amt cltv pd md ks custom =>
    simp only [HopInstr.valuesOk, Bool.and_eq_true, decide_eq_true_eq] at hv
    obtain ⟨⟨⟨h1, h2⟩, h3⟩, h4⟩ := hv
    have a := dec_num (.hzbd 8) amt (by simpa [HVal.valid] using h1)
    have b := dec_num (.hzbd 4) cltv (by simpa [HVal.valid] using h2)
    have c : ∀ p, pd = some p → decodeVal .secretTotal (encodeVal .secretTotal (.secretTotal p.1 p.2)) = some (.secretTotal p.1 p.2) :=
      fun p hp => dec_st _ _ (by subst hp; exact optValid_some h3)
    have d : ∀ k, ks = some k → decodeVal (.fixed 32) (encodeVal (.fixed 32) (.bytes k)) = some (.bytes k) :=
      fun k hk => dec_bytes _ _ (by subst hk; exact optValid_some h4)
    constructor
    · cases pd <;> cases md <;> cases ks <;>
        simp [HopInstr.toOut, OutPayload.typedRecs, tlvRecords, encNum, encBytes, encST, encOf, inboundEnc, writeEncOnionReceive,
          List.lookup, a, b, c, d, dv_raw, ev_raw]
    · cases pd <;> cases md <;> cases ks <;>
        simp [HopInstr.toOut, HopInstr.kind, HopInstr.custom, OutPayload.typedRecs, tlvRecords, instrOf, getNum, getBytes, getST, getVal,
          lookupRec, encNum, encBytes, encST, encOf, inboundEnc, writeEncOnionReceive, List.lookup, a, b, c, d, dv_raw, ev_raw]
  | blindedForward enc bp =>
    simp only [HopInstr.valuesOk] at hv
    have d : ∀ k, bp = some k → decodeVal (.fixed 33) (encodeVal (.fixed 33) (.bytes k)) = some (.bytes k) :=
      fun k hk => dec_bytes _ _ (by subst hk; exact optValid_some hv)
    constructor
    · cases bp <;>
        simp [HopInstr.toOut, OutPayload.typedRecs, tlvRecords, encBytes, encOf, inboundEnc, writeEncOnionBlindedForward,
          List.lookup, d, dv_raw, ev_raw]
    · cases bp <;>
        simp [HopInstr.toOut, HopInstr.kind, OutPayload.typedRecs, tlvRecords, instrOf, getBytes, getVal,
          lookupRec, encBytes, encOf, inboundEnc, writeEncOnionBlindedForward, List.lookup, d, dv_raw, ev_raw]
  | blindedReceive amt total cltv enc bp ks ir custom =>
    simp only [HopInstr.valuesOk, Bool.and_eq_true, decide_eq_true_eq] at hv
    obtain ⟨⟨⟨⟨h1, h2⟩, h3⟩, h4⟩, h5⟩ := hv
    have a := dec_num (.hzbd 8) amt (by simpa [HVal.valid] using h1)
    have a2 := dec_num (.hzbd 8) total (by simpa [HVal.valid] using h2)
    have b := dec_num (.hzbd 4) cltv (by simpa [HVal.valid] using h3)
    have c : ∀ k, bp = some k → decodeVal (.fixed 33) (encodeVal (.fixed 33) (.bytes k)) = some (.bytes k) :=
      fun k hk => dec_bytes _ _ (by subst hk; exact optValid_some h4)
    have d : ∀ k, ks = some k → decodeVal (.fixed 32) (encodeVal (.fixed 32) (.bytes k)) = some (.bytes k) :=
      fun k hk => dec_bytes _ _ (by subst hk; exact optValid_some h5)
    constructor
    · cases bp <;> cases ks <;> cases ir <;>
        simp [HopInstr.toOut, OutPayload.typedRecs, tlvRecords, encNum, encBytes, encOf, inboundEnc, writeEncOnionBlindedReceive,
          List.lookup, a, a2, b, c, d, dv_raw, ev_raw]
    · cases bp <;> cases ks <;> cases ir <;>
        simp [HopInstr.toOut, HopInstr.kind, HopInstr.custom, OutPayload.typedRecs, tlvRecords, instrOf, getNum, getBytes, getVal,
          lookupRec, encNum, encBytes, encOf, inboundEnc, writeEncOnionBlindedReceive, List.lookup, a, a2, b, c, d, dv_raw, ev_raw]
  | trampolineEntrypoint amt cltv mp pkt pk =>
    simp only [HopInstr.valuesOk, Bool.and_eq_true, decide_eq_true_eq] at hv
    obtain ⟨⟨⟨h1, h2⟩, h3⟩, h4⟩ := hv
    have a := dec_num (.hzbd 8) amt (by simpa [HVal.valid] using h1)
    have b := dec_num (.hzbd 4) cltv (by simpa [HVal.valid] using h2)
    have c : ∀ p, mp = some p → decodeVal .secretTotal (encodeVal .secretTotal (.secretTotal p.1 p.2)) = some (.secretTotal p.1 p.2) :=
      fun p hp => dec_st _ _ (by subst hp; exact optValid_some h3)
    have d : ∀ k, pk = some k → decodeVal (.fixed 33) (encodeVal (.fixed 33) (.bytes k)) = some (.bytes k) :=
      fun k hk => dec_bytes _ _ (by subst hk; exact optValid_some h4)
    constructor
    · cases mp <;> cases pk <;>
        simp [HopInstr.toOut, OutPayload.typedRecs, tlvRecords, encNum, encBytes, encST, encOf, inboundEnc, writeEncOnionTrampolineEntrypoint,
          List.lookup, a, b, c, d, dv_raw, ev_raw]
    · cases mp <;> cases pk <;>
        simp [HopInstr.toOut, HopInstr.kind, OutPayload.typedRecs, tlvRecords, instrOf, getNum, getBytes, getST, getVal,
          lookupRec, encNum, encBytes, encST, encOf, inboundEnc, writeEncOnionTrampolineEntrypoint, List.lookup, a, b, c, d, dv_raw, ev_raw]

/-! ### the records of an instruction fit the BigSize framing -/

theorem len_le_encodeRecords : ∀ (recs : List Rec) (r : Rec), r ∈ recs → r.2.length ≤ (encodeRecords recs).length
  | [], _, h => by cases h
  | x :: xs, r, h => by
    rw [encodeRecords_cons]
    simp only [List.length_append]
    rcases List.mem_cons.mp h with rfl | h
    · omega
    · have := len_le_encodeRecords xs r h; omega

theorem types_tlvRecords (typed : List (Nat × Option Bytes)) (extra : List Rec) (B : Nat)
    (h1 : ∀ tv ∈ typed, tv.1 < B) (h2 : ∀ r ∈ extra, r.1 < B) : ∀ r ∈ tlvRecords typed extra, r.1 < B := by
  intro r hr
  unfold tlvRecords at hr
  rcases List.mem_append.mp hr with h | h
  · obtain ⟨tv, htv, he⟩ := List.mem_filterMap.mp h
    cases hv : tv.2 with
    | none => simp [hv] at he
    | some v => simp [hv] at he; rw [← he]; exact h1 tv htv
  · exact h2 r h

theorem forall_toList_map (o : Option Bytes) (t : Nat) (P : Rec → Prop) (h : ∀ v, P (t, v)) :
    ∀ r ∈ (o.map (fun v => ((t, v) : Rec))).toList, P r := by
  cases o <;> simp [h]

theorem instr_records_u64 (i : HopInstr) (hc : ∀ r ∈ i.custom, r.1 < 2 ^ 64)
    (hl : (encodeRecords i.toOut.records).length < 2 ^ 64) : RecsU64 i.toOut.records := by
  intro r hr
  refine ⟨?_, Nat.lt_of_le_of_lt (len_le_encodeRecords _ r hr) hl⟩
  revert r
  cases i with
  | forward scid amt cltv =>
    exact types_tlvRecords _ _ _ (by simp [HopInstr.toOut, OutPayload.out, writeOnionForward]) (by simp [HopInstr.toOut, OutPayload.out, writeOnionForward])
  | receive amt cltv pd md ks custom =>
    refine types_tlvRecords _ _ _ (by simp [HopInstr.toOut, OutPayload.out, writeOnionReceive]) ?_
    intro r hr
    simp only [HopInstr.toOut, OutPayload.out, writeOnionReceive] at hr
    rw [mem_sortByType] at hr
    rcases List.mem_append.mp hr with h | h
    · exact hc r h
    · exact forall_toList_map _ 5482373484 (fun r => r.1 < 2 ^ 64) (fun _ => by simp) r h
  | blindedForward enc bp =>
    exact types_tlvRecords _ _ _ (by simp [HopInstr.toOut, OutPayload.out, writeOnionBlindedForward]) (by simp [HopInstr.toOut, OutPayload.out, writeOnionBlindedForward])
  | blindedReceive amt total cltv enc bp ks ir custom =>
    refine types_tlvRecords _ _ _ (by simp [HopInstr.toOut, OutPayload.out, writeOnionBlindedReceive]) ?_
    intro r hr
    simp only [HopInstr.toOut, OutPayload.out, writeOnionBlindedReceive] at hr
    rw [mem_sortByType] at hr
    rcases List.mem_append.mp hr with h | h
    · rcases List.mem_append.mp h with h | h
      · exact hc r h
      · exact forall_toList_map _ 77777 (fun r => r.1 < 2 ^ 64) (fun _ => by simp) r h
    · exact forall_toList_map _ 5482373484 (fun r => r.1 < 2 ^ 64) (fun _ => by simp) r h
  | trampolineEntrypoint amt cltv mp pkt pk =>
    exact types_tlvRecords _ _ _ (by simp [HopInstr.toOut, OutPayload.out, writeOnionTrampolineEntrypoint]) (by simp [HopInstr.toOut, OutPayload.out, writeOnionTrampolineEntrypoint])

/-- the instructions are well-formed: values of their fields' types, custom TLVs as `RecipientCustomTlvs::new` lets them
    through (u64 types), and the serialized TLV stream shorter than 64 KiB (an onion holds 1300 bytes) -/
structure HopInstr.Valid (i : HopInstr) : Prop where
  values : i.valuesOk = true
  custom : ValidCustom i.custom
  customU64 : ∀ r ∈ i.custom, r.1 < 2 ^ 64
  size : (encodeRecords i.toOut.records).length < 65536

/-- the single-step law of the record loop for a type the reader does not know, below the custom range:
    an EVEN type is rejected, an ODD one is skipped (neither a typed field nor a custom TLV) -/
theorem decodeGo_unknown (known : List Nat) (customMin : Nat) (last : Option Nat) (t : Nat) (v : Bytes) (rest : List Rec)
    (ho : orderBad last t = false) (hk : known.contains t = false) (hc : t < customMin) :
    decodeGo known customMin last ((t, v) :: rest) =
      if t % 2 = 0 then .error .unknownRequired else decodeGo known customMin (some t) rest := by
  simp only [decodeGo, ho, hk, hc, Bool.false_eq_true, if_false, if_true, beq_iff_eq]

end Ldk.OnionPayload
