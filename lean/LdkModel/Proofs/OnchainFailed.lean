/- C03 — helper lemmas about Model/OnchainFailed.lean (restart reconstruction of on-chain failed HTLCs). -/
import LdkModel.Model.OnchainFailed
set_option linter.unusedSimpArgs false
namespace Ldk.OnchainFailed
open Ldk Ldk.OnchainFailedGen

/-- the generated arm chain picks exactly the HTLCs (with a source) of the commitment with txid `t` -/
theorem mem_confirmedHtlcs (m : Mon) (t : Nat) (h : Htlc) (hs : h.src.isSome = true) :
    h ∈ confirmedHtlcs m t ↔ h ∈ commitmentHtlcs m t := by
  unfold confirmedHtlcs commitmentHtlcs cpHtlcs isCounterparty isHolderCur isHolderPrev
  by_cases h1 : m.curCp = some t
  · simp [h1, hs]
  · by_cases h2 : m.prevCp = some t
    · have h1' : ¬ (some t = m.curCp) := fun e => h1 e.symm
      simp [h1, h1', h2, hs]
    · have h1' : ¬ (some t = m.curCp) := fun e => h1 e.symm
      have h2' : ¬ (some t = m.prevCp) := fun e => h2 e.symm
      by_cases h3 : t = m.holderCurTxid
      · subst h3
        simp [h1, h1', h2, h2']
      · cases hp : m.holderPrev with
        | none => simp [h1, h1', h2, h2', h3]
        | some p =>
          obtain ⟨p1, p2⟩ := p
          by_cases h4 : t = p1
          · subst h4
            simp [h1, h1', h2, h2', h3]
          · simp [h1, h1', h2, h2', h3, h4]

/-- whatever `walkOne` inserts is the candidate's own source -/
theorem walkOne_src (m : Mon) (conf : List Htlc) (c : Htlc) (s : Nat) (h : walkOne m conf c = some s) :
    c.src = some s := by
  unfold walkOne at h
  cases hc : c.src with
  | none => simp [hc] at h
  | some s' =>
    simp only [hc] at h
    have : s' = s := by
      repeat' split at h
      all_goals first | (injection h) | (cases h)
    rw [this]

/-- a candidate whose source the user already resolved is skipped -/
theorem walkOne_resolved (m : Mon) (conf : List Htlc) (c : Htlc) (s : Nat) (hc : c.src = some s)
    (hr : s ∈ m.resolvedToUser) : walkOne m conf c = none := by
  unfold walkOne
  simp [hc, skipResolved, hr]

/-- a candidate found in the confirmed list with a live non-dust output inserts nothing -/
theorem walkOne_live (m : Mon) (conf : List Htlc) (c : Htlc) (s : Nat) (hc : c.src = some s)
    (hex : ∃ h ∈ conf, h.src = some s)
    (hall : ∀ h ∈ conf, h.src = some s → ∃ i, h.outIdx = some i ∧ Live m i) :
    walkOne m conf c = none := by
  unfold walkOne
  simp only [hc]
  split
  · rfl
  · cases hf : conf.find? (fun h => h.src == some s) with
    | none =>
      obtain ⟨h, hm, hsrc⟩ := hex
      have := List.find?_eq_none.mp hf h hm
      simp [hsrc] at this
    | some h =>
      have hm : h ∈ conf := List.mem_of_find?_eq_some hf
      have hsrc : h.src = some s := by
        have := List.find?_some hf
        simpa using this
      obtain ⟨i, hi, hlive⟩ := hall h hm hsrc
      simp only [hi, isDust, Option.isNone_some]
      cases hr : m.resolvedOnChain.find? (fun r => resolvedFilter r.outIdx (some i)) with
      | none => simp [reportUnresolved]
      | some st =>
        have hst : st ∈ m.resolvedOnChain := List.mem_of_find?_eq_some hr
        have hidx : st.outIdx = some i := by
          have := List.find?_some hr
          simpa [resolvedFilter] using this
        have hp := hlive st hst hidx
        cases hpre : st.preimage with
        | none => exact absurd hpre hp
        | some p => simp [reportResolved, hpre]

theorem mem_onchainFailed (m : Mon) (s : Nat) :
    s ∈ onchainFailed m ↔ ∃ t, confirmedTxid m = some t ∧
      ∃ c ∈ candidateHtlcs m, walkOne m (confirmedHtlcs m t) c = some s := by
  unfold onchainFailed
  cases h : confirmedTxid m with
  | none => simp
  | some t => simp [List.mem_filterMap]

/-- fewer than ANTI_REORG_DELAY confirmations of every funding spend seen: no confirmed txid -/
theorem confirmedTxid_none (m : Mon) (h0 : m.fundingSpendConfirmed = none)
    (h1 : ∀ e ∈ m.awaiting, e.isFundingSpend = true → m.best + 1 < e.height + ANTI_REORG_DELAY) :
    confirmedTxid m = none := by
  unfold confirmedTxid
  simp only [h0, Option.map_eq_none_iff, List.find?_eq_none]
  intro e he
  by_cases hf : e.isFundingSpend = true
  · have := h1 e he hf
    simp only [hf, buried, Bool.true_and, decide_eq_true_eq]
    omega
  · simp [hf]

/-- what an insertion by `walkOne` means -/
theorem walkOne_some_cases (m : Mon) (conf : List Htlc) (c : Htlc) (s : Nat) (h : walkOne m conf c = some s) :
    s ∉ m.resolvedToUser ∧
    ((∀ x ∈ conf, x.src ≠ some s) ∨
     ∃ x ∈ conf, x.src = some s ∧ (x.outIdx = none ∨ ∃ r ∈ m.resolvedOnChain, r.outIdx = x.outIdx ∧ r.preimage = none)) := by
  have hc := walkOne_src m conf c s h
  unfold walkOne at h
  simp only [hc] at h
  split at h
  · cases h
  · rename_i hskip
    refine ⟨?_, ?_⟩
    · intro hm
      apply hskip
      simp [skipResolved, hm]
    · cases hf : conf.find? (fun x => x.src == some s) with
      | none =>
        left
        intro x hx hsrc
        have := List.find?_eq_none.mp hf x hx
        simp [hsrc] at this
      | some x =>
        right
        have hm : x ∈ conf := List.mem_of_find?_eq_some hf
        have hsrc : x.src = some s := by
          have := List.find?_some hf
          simpa using this
        refine ⟨x, hm, hsrc, ?_⟩
        simp only [hf] at h
        cases hi : x.outIdx with
        | none => left; rfl
        | some i =>
          right
          simp only [hi, isDust, Option.isNone_some] at h
          cases hr : m.resolvedOnChain.find? (fun r => resolvedFilter r.outIdx (some i)) with
          | none => simp [hr, reportUnresolved] at h
          | some st =>
            have hst : st ∈ m.resolvedOnChain := List.mem_of_find?_eq_some hr
            have hidx : st.outIdx = some i := by
              have := List.find?_some hr
              simpa [resolvedFilter] using this
            refine ⟨st, hst, hidx, ?_⟩
            simp only [hr] at h
            cases hpre : st.preimage with
            | none => rfl
            | some p => simp [reportResolved, hpre] at h

/-- a candidate that is not in the confirmed list (and not yet resolved to the user) is inserted -/
theorem walkOne_not_included (m : Mon) (conf : List Htlc) (c : Htlc) (s : Nat) (hc : c.src = some s)
    (hr : s ∉ m.resolvedToUser) (hn : ∀ x ∈ conf, x.src ≠ some s) : walkOne m conf c = some s := by
  unfold walkOne
  have hf : conf.find? (fun x => x.src == some s) = none := by
    apply List.find?_eq_none.mpr
    intro x hx
    simpa using hn x hx
  simp [hc, skipResolved, hr, hf, reportNotIncluded]

end Ldk.OnchainFailed
