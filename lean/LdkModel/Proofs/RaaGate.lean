/- Helper lemmas for the revoke_and_ack gate (Model/RaaGate.lean + Generated/RaaGuard.lean). Core only. -/
import LdkModel.Model.RaaGate
namespace Ldk.RaaGate
open Ldk.Secrets Ldk.RaaGuard

/-- what passing the GENERATED guard chain implies.  This is the lemma a changed guard breaks. -/
theorem check_none (i : In) (h : check i = none) :
    i.quiescent = false ∧ i.channelReady = true ∧ i.peerDisconnected = false ∧
    (i.bothSidesShutdown && i.lastSentClosingFeeSome) = false ∧
    i.secretValid = true ∧ (i.cpCurrentPointSome = true → i.secretMatchesPoint = true) ∧
    i.awaitingRemoteRevoke = true ∧ i.signerValidates = true ∧ i.storeAccepts = true := by
  unfold check at h
  repeat' split at h
  all_goals first
    | (cases h; done)
    | simp_all

/-- conversely: these conditions are all the generated chain asks for -/
theorem check_none_of (i : In)
    (h1 : i.quiescent = false) (h2 : i.channelReady = true) (h3 : i.peerDisconnected = false)
    (h4 : (i.bothSidesShutdown && i.lastSentClosingFeeSome) = false) (h5 : i.secretValid = true)
    (h6 : i.cpCurrentPointSome = true → i.secretMatchesPoint = true) (h7 : i.awaitingRemoteRevoke = true)
    (h8 : i.signerValidates = true) (h9 : i.storeAccepts = true) : check i = none := by
  unfold check
  cases hc : i.cpCurrentPointSome
  · simp_all
  · have := h6 hc
    simp_all

variable {S Pt : Type} [DecidableEq S] [DecidableEq Pt]

theorem recvRaa_some {w : World S Pt} {c c' : Side S Pt} {m : Raa S Pt} (h : recvRaa w c m = some c') :
    check (inOf w c m) = none ∧
    ∃ store', provideSecret w.P c.store (provideIdx c.st.cpNext) m.secret = some store' ∧
      c' = { c with st := accept c.st m.next, store := store', accepted := (monitorIdx c.st.cpNext, m.secret) :: c.accepted } := by
  unfold recvRaa outcome at h
  split at h
  · cases h
  · rename_i hn
    refine ⟨by simpa using hn, ?_⟩
    cases hp : provideSecret w.P c.store (provideIdx c.st.cpNext) m.secret with
    | none => rw [hp] at h; cases h
    | some st' => rw [hp] at h; exact ⟨st', rfl, by simpa using h.symm⟩

/-- the invariant of all op sequences -/
structure Inv (w : World S Pt) (n0 : Nat) (st0 : Store S) (c : Side S Pt) : Prop where
  num : c.st.cpNext = n0 - c.accepted.length
  cnt : c.signed = c.accepted.length + (if c.st.awaitingRemoteRevoke then 1 else 0)
  idx : c.accepted.map (·.1) = idxs n0 c.accepted.length
  sto : replay w.P st0 c.accepted = some c.store

omit [DecidableEq Pt] in
theorem Inv.init (w : World S Pt) (n0 : Nat) (st0 : Store S) (cur nxt : Option Pt) :
    Inv w n0 st0 (Side.init n0 st0 cur nxt) :=
  ⟨rfl, rfl, rfl, rfl⟩

theorem Inv.step {w : World S Pt} {n0 : Nat} {st0 : Store S} {c c' : Side S Pt} (inv : Inv w n0 st0 c)
    (o : Op S Pt) (h : step w c o = some c') : Inv w n0 st0 c' := by
  cases o with
  | sign =>
    simp only [RaaGate.step] at h
    split at h
    · cases h
    · rename_i hw
      cases h
      have hw' : c.st.awaitingRemoteRevoke = false := by simpa using hw
      exact ⟨inv.num, by have := inv.cnt; simp [hw'] at this ⊢; omega, inv.idx, inv.sto⟩
  | env e =>
    simp only [RaaGate.step] at h
    cases h
    exact ⟨inv.num, inv.cnt, inv.idx, inv.sto⟩
  | raa m =>
    simp only [RaaGate.step] at h
    cases hr : recvRaa w c m with
    | none => rw [hr] at h; simp at h; subst h; exact inv
    | some c1 =>
      rw [hr] at h; simp at h; subst h
      obtain ⟨hc, st', hp, rfl⟩ := recvRaa_some hr
      have ha := (check_none _ hc).2.2.2.2.2.2.1
      have ha' : c.st.awaitingRemoteRevoke = true := ha
      have eacc : (accept c.st m.next).cpNext = c.st.cpNext - 1 ∧ (accept c.st m.next).awaitingRemoteRevoke = false := ⟨rfl, rfl⟩
      refine ⟨?_, ?_, ?_, ?_⟩
      · show (accept c.st m.next).cpNext = _
        rw [eacc.1, inv.num]; simp only [List.length_cons]; omega
      · show c.signed = _
        have := inv.cnt
        rw [ha'] at this
        simp only [List.length_cons]
        show c.signed = c.accepted.length + 1 + (if (accept c.st m.next).awaitingRemoteRevoke then 1 else 0)
        rw [eacc.2]; simpa using this
      · simp only [List.map_cons, List.length_cons, idxs]
        rw [inv.idx]
        show monitorIdx c.st.cpNext :: _ = _
        rw [inv.num]; rfl
      · show replay w.P st0 ((monitorIdx c.st.cpNext, m.secret) :: c.accepted) = some st'
        simp only [replay, inv.sto, Option.bind_some]
        exact hp

theorem Inv.run {w : World S Pt} {n0 : Nat} {st0 : Store S} : ∀ (ops : List (Op S Pt)) (c c' : Side S Pt),
    Inv w n0 st0 c → run w c ops = some c' → Inv w n0 st0 c'
  | [], c, c', inv, h => by simp only [RaaGate.run] at h; cases h; exact inv
  | o :: os, c, c', inv, h => by
    simp only [RaaGate.run] at h
    cases hs : RaaGate.step w c o with
    | none => rw [hs] at h; cases h
    | some c1 => rw [hs] at h; exact Inv.run os c1 c' (inv.step o hs) h

end Ldk.RaaGate
