/- AEAD ChaCha20-Poly1305 (RFC 8439 §2.8) with LDK's nonce layout (peer_channel_encryptor.rs:
   `nonce[4..].copy_from_slice(&n.to_le_bytes())` — 4 zero bytes ‖ 8-byte little-endian counter).
   Plain executable definition, no Mathlib.  VALIDATED, NOT PROVED: RFC 8439 §2.8.2 and the first
   BOLT-8 transport frame below; the c15 correspondence compares every act and frame byte-for-byte
   with the Rust code.  Theorems never unfold it (Props/C15.lean is stated over `Noise.Crypto`). -/
import LdkModel.Prim.ChaCha20
import LdkModel.Prim.Poly1305
namespace Ldk.Prim.ChaChaPoly

def le64 (n : Nat) : ByteArray := Id.run do
  let mut o := ByteArray.emptyWithCapacity 8
  let mut t := n
  for _ in [0:8] do
    o := o.push (UInt8.ofNat (t % 256))
    t := t / 256
  return o

def pad16 (b : ByteArray) : ByteArray := Id.run do
  let mut o := b
  for _ in [0:(16 - b.size % 16) % 16] do o := o.push 0
  return o

/-- RFC 8439 §2.8: one-time key = first 32 bytes of block 0; tag over
    ad ‖ pad ‖ ciphertext ‖ pad ‖ le64(|ad|) ‖ le64(|ciphertext|) -/
def tagBA (key nonce ad ct : ByteArray) : ByteArray :=
  let otk := (ChaCha20.blocksBA key nonce 0 1).extract 0 32
  Poly1305.macBA otk (pad16 ad ++ pad16 ct ++ le64 ad.size ++ le64 ct.size)

def sealBA (key nonce ad pt : ByteArray) : ByteArray :=
  let ct := ChaCha20.xorBA pt (ChaCha20.streamAtBA key nonce 64 pt.size)
  ct ++ tagBA key nonce ad ct

def openBA (key nonce ad box : ByteArray) : Option ByteArray :=
  if box.size < 16 then none
  else
    let ct := box.extract 0 (box.size - 16)
    let tag := box.extract (box.size - 16) box.size
    if (tagBA key nonce ad ct).toList == tag.toList then
      some (ChaCha20.xorBA ct (ChaCha20.streamAtBA key nonce 64 ct.size))
    else none

/-- LDK's nonce: 4 zero bytes ‖ LE64 counter -/
def nonceOf (n : Nat) : ByteArray := (ByteArray.mk #[0, 0, 0, 0]) ++ le64 n

end Ldk.Prim.ChaChaPoly

namespace Ldk.Prim
open ChaChaPoly
private def ba (l : List UInt8) : ByteArray := ByteArray.mk l.toArray

/-- RFC 8439 AEAD with an explicit 12-byte nonce: ciphertext ‖ 16-byte tag -/
def chachaPolySealNonce (key nonce12 ad plaintext : List UInt8) : List UInt8 :=
  (sealBA (ba key) (ba nonce12) (ba ad) (ba plaintext)).toList
def chachaPolyOpenNonce (key nonce12 ad box : List UInt8) : Option (List UInt8) :=
  (openBA (ba key) (ba nonce12) (ba ad) (ba box)).map (·.toList)

/-- `PeerChannelEncryptor::encrypt_with_ad(n, key, h, plaintext)` -/
def ChaChaPoly.seal (key : List UInt8) (nonceCounter : Nat) (ad plaintext : List UInt8) : List UInt8 :=
  (sealBA (ba key) (nonceOf nonceCounter) (ba ad) (ba plaintext)).toList
/-- `PeerChannelEncryptor::decrypt_with_ad(n, key, h, ciphertext ‖ tag)`; `none` = "Bad MAC" -/
def ChaChaPoly.open (key : List UInt8) (nonceCounter : Nat) (ad box : List UInt8) : Option (List UInt8) :=
  (openBA (ba key) (nonceOf nonceCounter) (ba ad) (ba box)).map (·.toList)

namespace ChaChaPoly
private def hexDigit (c : Char) : Nat :=
  if '0' ≤ c ∧ c ≤ '9' then c.toNat - '0'.toNat else c.toNat - 'a'.toNat + 10
private def unhex (s : String) : List UInt8 :=
  let rec go : List Char → List UInt8
    | a :: b :: rest => UInt8.ofNat (hexDigit a * 16 + hexDigit b) :: go rest
    | _ => []
  go s.toList
private def hexOf (b : List UInt8) : String :=
  let d (n : Nat) : Char := if n < 10 then Char.ofNat (48 + n) else Char.ofNat (87 + n)
  String.ofList (b.foldr (fun x acc => d (x.toNat / 16) :: d (x.toNat % 16) :: acc) [])

-- test vectors (tests, labelled as tests)
private def k282 : List UInt8 := (List.range 32).map (fun i => UInt8.ofNat (0x80 + i))
private def n282 : List UInt8 := unhex "070000004041424344454647"
private def ad282 : List UInt8 := unhex "50515253c0c1c2c3c4c5c6c7"
private def pt282 : List UInt8 := "Ladies and Gentlemen of the class of '99: If I could offer you only one tip for the future, sunscreen would be it.".toUTF8.toList
-- RFC 8439 §2.8.2
#guard hexOf (chachaPolySealNonce k282 n282 ad282 pt282) =
  "d31a8d34648e60db7b86afbc53ef7ec2a4aded51296e08fea9e2b5a736ee62d63dbea45e8ca9671282fafb69da92728b1a71de0a9e060b2905d6a5b67ecd3b3692ddbd7f2d778b8c9803aee328091b58fab324e4fad675945585808b4831d7bc3ff4def08e4b7a9de576d26586cec64b6116" ++
  "1ae10b594f09e26a7e902ecbd0600691"
#guard chachaPolyOpenNonce k282 n282 ad282 (chachaPolySealNonce k282 n282 ad282 pt282) = some pt282
#guard chachaPolyOpenNonce k282 n282 ad282 ((chachaPolySealNonce k282 n282 ad282 pt282).set 5 0) = none
#guard chachaPolyOpenNonce k282 n282 [] (chachaPolySealNonce k282 n282 ad282 pt282) = none
-- BOLT-8 appendix A "message encryption tests" (= peer_channel_encryptor.rs
-- message_encryption_decryption_test_vectors): sk, first frame of "hello": header box, body box
private def bolt8sk : List UInt8 := unhex "969ab31b4d288cedf6218839b27a3e2140827047f2c0f01bf5c04435d43511a9"
#guard hexOf (ChaChaPoly.seal bolt8sk 0 [] [0, 5] ++ ChaChaPoly.seal bolt8sk 1 [] "hello".toUTF8.toList) =
  "cf2b30ddf0cf3f80e7c35a6e6730b59fe802473180f396d88a8fb0db8cbcf25d2f214cf9ea1d95"
#guard ChaChaPoly.open bolt8sk 1 [] (unhex "473180f396d88a8fb0db8cbcf25d2f214cf9ea1d95") = some "hello".toUTF8.toList
#guard ChaChaPoly.open bolt8sk 0 [] (unhex "473180f396d88a8fb0db8cbcf25d2f214cf9ea1d95") = none
#guard ChaChaPoly.open bolt8sk 0 [] [1, 2, 3] = none
end ChaChaPoly
end Ldk.Prim
