/- HMAC-SHA256 (RFC 2104 / FIPS 198-1) on top of `Prim/Sha256.lean`. Plain executable definition,
   no Mathlib.  VALIDATED, NOT PROVED: the `#guard`s at the end are the RFC 4231 test cases 1-4, 6, 7
   (5 is the truncated-output case), and the c14 correspondence compares every onion HMAC / key
   derivation byte-for-byte with `bitcoin::hashes::hmac`.  Theorems never unfold it: they are stated
   over an abstract `mac`. -/
import LdkModel.Prim.Sha256
namespace Ldk.Prim.Hmac

/-- key block: keys longer than the 64-byte block are hashed first, then zero-padded to 64 -/
def keyBlock (key : ByteArray) : ByteArray := Id.run do
  let mut k := if key.size > 64 then Sha256.hashBA key else key
  for _ in [k.size:64] do k := k.push 0
  return k

def xorPad (k : ByteArray) (p : UInt8) : ByteArray := Id.run do
  let mut o := ByteArray.emptyWithCapacity 64
  for b in k do o := o.push (b ^^^ p)
  return o

/-- HMAC-SHA256(key, msg) = H((K ⊕ opad) ‖ H((K ⊕ ipad) ‖ msg)) -/
def hmacBA (key msg : ByteArray) : ByteArray :=
  let k := keyBlock key
  let inner := Sha256.hashBA (xorPad k 0x36 ++ msg)
  Sha256.hashBA (xorPad k 0x5c ++ inner)

end Ldk.Prim.Hmac

namespace Ldk.Prim
/-- HMAC-SHA256 (key, msg) → 32 bytes -/
def hmacSha256 (key msg : List UInt8) : List UInt8 :=
  (Hmac.hmacBA (ByteArray.mk key.toArray) (ByteArray.mk msg.toArray)).toList

namespace Hmac
private def hexOf (b : List UInt8) : String :=
  let d (n : Nat) : Char := if n < 10 then Char.ofNat (48 + n) else Char.ofNat (87 + n)
  String.ofList (b.foldr (fun x acc => d (x.toNat / 16) :: d (x.toNat % 16) :: acc) [])
private def str (s : String) : List UInt8 := s.toUTF8.toList

-- RFC 4231 test vectors (tests, labelled as tests)
#guard hexOf (hmacSha256 (List.replicate 20 0x0b) (str "Hi There")) =
  "b0344c61d8db38535ca8afceaf0bf12b881dc200c9833da726e9376c2e32cff7"
#guard hexOf (hmacSha256 (str "Jefe") (str "what do ya want for nothing?")) =
  "5bdcc146bf60754e6a042426089575c75a003f089d2739839dec58b964ec3843"
#guard hexOf (hmacSha256 (List.replicate 20 0xaa) (List.replicate 50 0xdd)) =
  "773ea91e36800e46854db8ebd09181a72959098b3ef8c122d9635514ced565fe"
#guard hexOf (hmacSha256 ((List.range 25).map (fun i => UInt8.ofNat (i + 1))) (List.replicate 50 0xcd)) =
  "82558a389a443c0ea4cc819899f2083a85f0faa3e578f8077a2e3ff46729665b"
#guard hexOf (hmacSha256 (List.replicate 131 0xaa) (str "Test Using Larger Than Block-Size Key - Hash Key First")) =
  "60e431591ee0b67f0d8a26aacbf5b77f8e0bc6213728c5140546040f0ee37f54"
#guard hexOf (hmacSha256 (List.replicate 131 0xaa)
    (str "This is a test using a larger than block-size key and a larger than block-size data. The key needs to be hashed before being used by the HMAC algorithm.")) =
  "9b09ffa71b942fcb27635fbcd5b0e944bfdc63644f0713938a7f51535c3a35e2"
end Hmac
end Ldk.Prim
