/- HKDF-SHA256 (RFC 5869) as LDK uses it (`crypto::utils::hkdf_extract_expand_twice`): extract with
   `salt`, expand with EMPTY info to two 32-byte outputs T(1), T(2).  Plain executable definition,
   no Mathlib.  VALIDATED, NOT PROVED: RFC 5869 test case 3 (empty salt/info) below, the BOLT-8
   vectors in Driver/C15.lean, and the c15 correspondence (byte-for-byte against the Rust code). -/
import LdkModel.Prim.Hmac
namespace Ldk.Prim

/-- HKDF-Extract: PRK = HMAC(salt, ikm) -/
def hkdfExtract (salt ikm : List UInt8) : List UInt8 := hmacSha256 salt ikm

/-- mirrors lightning/src/crypto/utils.rs::hkdf_extract_expand_twice (macro hkdf_extract_expand!):
    `t1 = HMAC(prk, 0x01)`, `t2 = HMAC(prk, t1 ‖ 0x02)` -/
def hkdf2 (salt ikm : List UInt8) : List UInt8 × List UInt8 :=
  let prk := hkdfExtract salt ikm
  let t1 := hmacSha256 prk [1]
  let t2 := hmacSha256 prk (t1 ++ [2])
  (t1, t2)

namespace Hkdf
private def hexOf (b : List UInt8) : String :=
  let d (n : Nat) : Char := if n < 10 then Char.ofNat (48 + n) else Char.ofNat (87 + n)
  String.ofList (b.foldr (fun x acc => d (x.toNat / 16) :: d (x.toNat % 16) :: acc) [])

-- test vectors (tests, labelled as tests): RFC 5869 A.3 (SHA-256, zero-length salt and info, L = 42)
#guard hexOf (hkdfExtract [] (List.replicate 22 0x0b)) =
  "19ef24a32c717b167f33a91d6f648bdf96596776afdb6377ac434c1c293ccb04"
#guard hexOf (hkdf2 [] (List.replicate 22 0x0b)).1 =
  "8da4e775a563c18f715f802a063c5a31b8a11f5c5ee1879ec3454e5f3c738d2d"
#guard hexOf ((hkdf2 [] (List.replicate 22 0x0b)).2.take 10) = "9d201395faa4b61a96c8"
end Hkdf
end Ldk.Prim
