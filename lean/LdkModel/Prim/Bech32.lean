/- Bech32 (BIP-173) checksum and 5-bit ↔ 8-bit regrouping, as used by BOLT-11 through the `bech32`
   crate (0.11): `primitives::checksum::Engine::input_fe`, `HrpFe32Iter`, `Checksummed`,
   `BytesToFes`, `FesToBytes`, `gf32::CHARS_LOWER`.  BOLT-11 uses bech32 (target residue 1), not
   bech32m; BOLT-12 strings carry no checksum at all.  No Mathlib.
   The theorem `Ldk.C18.bech32_single_symbol_detected` is about `polymodStep`/`verifyChecksum`
   below; their tie to the crate is the `c18b11` differential (every valid string and every mutant is
   judged by both). -/
namespace Ldk.Prim.Bech32

/-- a 5-bit symbol (`Fe32`), invariant `< 32` -/
abbrev U5 := UInt8

/-- xor of the generator constants `GEN[i]` selected by the bits of the five bits shifted out
    -- mirrors bech32 primitives/checksum.rs::Engine::input_fe (the `for i in 0..5` loop),
    constants primitives/mod.rs::GEN -/
def genMix (b : UInt32) : UInt32 :=
  (if b &&& 1 != 0 then 0x3b6a57b2 else 0) ^^^ (if b &&& 2 != 0 then 0x26508e6d else 0) ^^^
  (if b &&& 4 != 0 then 0x1ea119fa else 0) ^^^ (if b &&& 8 != 0 then 0x3d4233dd else 0) ^^^
  (if b &&& 16 != 0 then 0x2a1462b3 else 0)

/-- one step of the checksum engine on the packed 6×5-bit residue
    -- mirrors checksum.rs::PackedFe32::mul_by_x_then_add (degree 6) + Engine::input_fe.
    (`residue &= !(0x1f << 25); residue <<= 5` equals `(residue & 0x1ffffff) << 5` on every u32.) -/
def polymodStep (chk : UInt32) (v : U5) : UInt32 :=
  (((chk &&& 0x1ffffff) <<< 5) ||| v.toUInt32) ^^^ genMix ((chk >>> 25) &&& 0x1f)

/-- residue after feeding `vs` to a fresh engine (`Engine::new` starts at 1) -/
def polymod (vs : List U5) : UInt32 := vs.foldl polymodStep 1

/-- mirrors checksum.rs::HrpFe32Iter: high bits of every (lower-cased) byte, a zero, low bits -/
def hrpExpand (hrp : List UInt8) : List U5 :=
  hrp.map (fun (x : UInt8) => x >>> 5) ++ [0] ++ hrp.map (fun (x : UInt8) => x &&& 31)

def validSyms (d : List U5) : Bool := d.all (· < 32)

/-- mirrors decode.rs::UncheckedHrpstring::validate_checksum::<Bech32>: residue must be
    TARGET_RESIDUE = 1 (`data` includes the six checksum symbols) -/
def verifyChecksum (hrp : List UInt8) (data : List U5) : Bool :=
  validSyms data && polymod (hrpExpand hrp ++ data) == 1

/-- `n`-th packed symbol of a residue -- mirrors checksum.rs::PackedFe32::unpack -/
def unpack (r : UInt32) (n : Nat) : U5 := ((r >>> (UInt32.ofNat (5 * n))) &&& 0x1f).toUInt8

/-- mirrors iter.rs::Checksummed::next: feed the target residue symbols (0,0,0,0,0,1), then read the
    residue from the most significant symbol down -/
def createChecksum (hrp : List UInt8) (data : List U5) : List U5 :=
  let r := polymod (hrpExpand hrp ++ data ++ [0, 0, 0, 0, 0, 1])
  [unpack r 5, unpack r 4, unpack r 3, unpack r 2, unpack r 1, unpack r 0]

/-- mirrors gf32.rs::CHARS_LOWER -/
def charset : List Char := "qpzry9x8gf2tvdw0s3jn54khce6mua7l".toList

def symToChar (v : U5) : Char := charset.getD v.toNat 'q'

/-- mirrors gf32.rs::Fe32::from_char (either case) -/
def charToSym (c : Char) : Option U5 :=
  let lc := if 'A' ≤ c ∧ c ≤ 'Z' then Char.ofNat (c.toNat + 32) else c
  match charset.findIdx? (· == lc) with
  | some i => some (UInt8.ofNat i)
  | none => none

/-! ### bit regrouping -/

/-- `w` bits of `x`, most significant first -/
def bitsOf : Nat → Nat → List Bool
  | 0, _ => []
  | w + 1, x => x.testBit w :: bitsOf w x

def ofBits (bs : List Bool) : Nat := bs.foldl (fun a b => 2 * a + b.toNat) 0

/-- consecutive groups of `w + 1` bits; a trailing partial group is kept as is -/
def chunks (w : Nat) : Nat → List Bool → List (List Bool)
  | 0, _ => []
  | fuel + 1, bs => if bs.isEmpty then [] else bs.take (w + 1) :: chunks w fuel (bs.drop (w + 1))

def padTo (w : Nat) (bs : List Bool) : List Bool :=
  bs ++ List.replicate ((w - bs.length % w) % w) false

/-- 8 → 5 regrouping, last group zero-padded -- mirrors iter.rs::BytesToFes -/
def bytesToFes (b : List UInt8) : List U5 :=
  let bits := b.flatMap (fun x => bitsOf 8 x.toNat)
  (chunks 4 bits.length (padTo 5 bits)).map (fun g => UInt8.ofNat (ofBits g))

/-- 5 → 8 regrouping; trailing bits that do not fill a byte are DROPPED without any check
    -- mirrors iter.rs::FesToBytes (yields `n * 5 / 8` bytes) -/
def fesToBytes (f : List U5) : List UInt8 :=
  let bits := f.flatMap (fun x => bitsOf 5 x.toNat)
  (chunks 7 bits.length (bits.take (bits.length / 8 * 8))).map (fun g => UInt8.ofNat (ofBits g))

end Ldk.Prim.Bech32
