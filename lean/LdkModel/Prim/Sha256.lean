/- SHA-256 (FIPS 180-4), plain executable definition on bytes with UInt32 arithmetic.
   No Mathlib.  VALIDATED, NOT PROVED: the `#guard`s at the end are the FIPS 180-4 / NIST test
   vectors (empty, "abc", 448-bit, 896-bit, 55/56/64-byte padding boundaries, 1000 × 'a'), and the
   correspondence runs (c05: `build`, `provide`, `get`) compare it byte-for-byte with
   `bitcoin::hashes::sha256`.  Theorems never unfold it: they are stated over an abstract hash. -/
namespace Ldk.Prim.Sha256

def K : Array UInt32 := #[
  0x428a2f98, 0x71374491, 0xb5c0fbcf, 0xe9b5dba5, 0x3956c25b, 0x59f111f1, 0x923f82a4, 0xab1c5ed5,
  0xd807aa98, 0x12835b01, 0x243185be, 0x550c7dc3, 0x72be5d74, 0x80deb1fe, 0x9bdc06a7, 0xc19bf174,
  0xe49b69c1, 0xefbe4786, 0x0fc19dc6, 0x240ca1cc, 0x2de92c6f, 0x4a7484aa, 0x5cb0a9dc, 0x76f988da,
  0x983e5152, 0xa831c66d, 0xb00327c8, 0xbf597fc7, 0xc6e00bf3, 0xd5a79147, 0x06ca6351, 0x14292967,
  0x27b70a85, 0x2e1b2138, 0x4d2c6dfc, 0x53380d13, 0x650a7354, 0x766a0abb, 0x81c2c92e, 0x92722c85,
  0xa2bfe8a1, 0xa81a664b, 0xc24b8b70, 0xc76c51a3, 0xd192e819, 0xd6990624, 0xf40e3585, 0x106aa070,
  0x19a4c116, 0x1e376c08, 0x2748774c, 0x34b0bcb5, 0x391c0cb3, 0x4ed8aa4a, 0x5b9cca4f, 0x682e6ff3,
  0x748f82ee, 0x78a5636f, 0x84c87814, 0x8cc70208, 0x90befffa, 0xa4506ceb, 0xbef9a3f7, 0xc67178f2]

def H0 : Array UInt32 := #[
  0x6a09e667, 0xbb67ae85, 0x3c6ef372, 0xa54ff53a, 0x510e527f, 0x9b05688c, 0x1f83d9ab, 0x5be0cd19]

@[inline] def rotr (x : UInt32) (n : UInt32) : UInt32 := (x >>> n) ||| (x <<< (32 - n))
@[inline] def ch (x y z : UInt32) : UInt32 := (x &&& y) ^^^ ((~~~ x) &&& z)
@[inline] def maj (x y z : UInt32) : UInt32 := (x &&& y) ^^^ (x &&& z) ^^^ (y &&& z)
@[inline] def bsig0 (x : UInt32) : UInt32 := rotr x 2 ^^^ rotr x 13 ^^^ rotr x 22
@[inline] def bsig1 (x : UInt32) : UInt32 := rotr x 6 ^^^ rotr x 11 ^^^ rotr x 25
@[inline] def ssig0 (x : UInt32) : UInt32 := rotr x 7 ^^^ rotr x 18 ^^^ (x >>> 3)
@[inline] def ssig1 (x : UInt32) : UInt32 := rotr x 17 ^^^ rotr x 19 ^^^ (x >>> 10)

/-- message padding: 0x80, zeros to 56 mod 64, 64-bit big-endian bit length -/
def pad (msg : ByteArray) : ByteArray := Id.run do
  let len := msg.size
  let mut m := msg.push 0x80
  let z := (64 - (len + 9) % 64) % 64
  for _ in [0:z] do m := m.push 0
  let bits := len * 8
  for i in [0:8] do m := m.push (UInt8.ofNat ((bits >>> (8 * (7 - i))) % 256))
  return m

@[inline] def be32 (b : ByteArray) (o : Nat) : UInt32 :=
  ((b.get! o).toUInt32 <<< 24) ||| ((b.get! (o + 1)).toUInt32 <<< 16) |||
  ((b.get! (o + 2)).toUInt32 <<< 8) ||| (b.get! (o + 3)).toUInt32

/-- one 64-byte block at offset `off` -/
def compress (h : Array UInt32) (m : ByteArray) (off : Nat) : Array UInt32 := Id.run do
  let mut w : Array UInt32 := Array.mkEmpty 64
  for t in [0:16] do w := w.push (be32 m (off + 4 * t))
  for t in [16:64] do
    w := w.push (ssig1 w[t - 2]! + w[t - 7]! + ssig0 w[t - 15]! + w[t - 16]!)
  let mut a := h[0]!; let mut b := h[1]!; let mut c := h[2]!; let mut d := h[3]!
  let mut e := h[4]!; let mut f := h[5]!; let mut g := h[6]!; let mut hh := h[7]!
  for t in [0:64] do
    let t1 := hh + bsig1 e + ch e f g + K[t]! + w[t]!
    let t2 := bsig0 a + maj a b c
    hh := g; g := f; f := e; e := d + t1; d := c; c := b; b := a; a := t1 + t2
  return #[h[0]! + a, h[1]! + b, h[2]! + c, h[3]! + d, h[4]! + e, h[5]! + f, h[6]! + g, h[7]! + hh]

def hashBA (msg : ByteArray) : ByteArray := Id.run do
  let m := pad msg
  let mut h := H0
  for i in [0:m.size / 64] do h := compress h m (64 * i)
  let mut out := ByteArray.emptyWithCapacity 32
  for x in h do
    out := out.push (x >>> 24).toUInt8
    out := out.push (x >>> 16).toUInt8
    out := out.push (x >>> 8).toUInt8
    out := out.push x.toUInt8
  return out

end Ldk.Prim.Sha256

namespace Ldk.Prim
/-- SHA-256 of a byte list (32 bytes out) -/
def sha256 (msg : List UInt8) : List UInt8 := (Sha256.hashBA (ByteArray.mk msg.toArray)).toList

namespace Sha256
private def hexOf (b : List UInt8) : String :=
  let d (n : Nat) : Char := if n < 10 then Char.ofNat (48 + n) else Char.ofNat (87 + n)
  String.ofList (b.foldr (fun x acc => d (x.toNat / 16) :: d (x.toNat % 16) :: acc) [])
private def str (s : String) : List UInt8 := s.toUTF8.toList

-- test vectors (tests, labelled as tests)
#guard hexOf (sha256 []) = "e3b0c44298fc1c149afbf4c8996fb92427ae41e4649b934ca495991b7852b855"
#guard hexOf (sha256 (str "abc")) = "ba7816bf8f01cfea414140de5dae2223b00361a396177a9cb410ff61f20015ad"
#guard hexOf (sha256 (str "abcdbcdecdefdefgefghfghighijhijkijkljklmklmnlmnomnopnopq")) =
  "248d6a61d20638b8e5c026930c3e6039a33ce45964ff2167f6ecedd419db06c1"
#guard hexOf (sha256 (str "abcdefghbcdefghicdefghijdefghijkefghijklfghijklmghijklmnhijklmnoijklmnopjklmnopqklmnopqrlmnopqrsmnopqrstnopqrstu")) =
  "cf5b16a778af8380036ce59e7b0492370b249b11e8f07a51afac45037afee9d1"
#guard hexOf (sha256 (List.replicate 55 0x61)) = "9f4390f8d30c2dd92ec9f095b65e2b9ae9b0a925a5258e241c9f1e910f734318"
#guard hexOf (sha256 (List.replicate 56 0x61)) = "b35439a4ac6f0948b6d6f9e3c6af0f5f590ce20f1bde7090ef7970686ec6738a"
#guard hexOf (sha256 (List.replicate 64 0x61)) = "ffe054fe7ae0cb6dc65c3af9b61d5209f439851db43d0ba5997337df154668eb"
#guard hexOf (sha256 (List.replicate 1000 0x61)) = "41edece42d63e8d9bf515a9ba6932e1c20cbc9f5a5d134645adb5db1b9737ea3"
#guard hexOf (sha256 (List.replicate 32 0)) = "66687aadf862bd776c8fc18b8e9f8e20089714856ee233b3902a591d0d5f2925"
end Sha256
end Ldk.Prim
