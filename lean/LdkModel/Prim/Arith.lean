/- Checked / saturating arithmetic helpers used by translated Rust code (u64 unless stated). -/
namespace Ldk

def U64_MAX : Nat := 2 ^ 64 - 1
def U32_MAX : Nat := 2 ^ 32 - 1

/-- Rust `a.checked_sub(b)` on unsigned integers -/
def chkSub (a b : Nat) : Option Nat := if b ≤ a then some (a - b) else none
/-- Rust `u64::checked_add` -/
def chkAdd64 (a b : Nat) : Option Nat := if a + b < 2 ^ 64 then some (a + b) else none
/-- Rust `u64::checked_mul` -/
def chkMul64 (a b : Nat) : Option Nat := if a * b < 2 ^ 64 then some (a * b) else none
/-- Rust `checked_div` -/
def chkDiv (a b : Nat) : Option Nat := if b = 0 then none else some (a / b)
/-- Rust `u64::saturating_add` -/
def satAdd64 (a b : Nat) : Nat := if a + b < 2 ^ 64 then a + b else 2 ^ 64 - 1
/-- Rust `u64::saturating_mul` -/
def satMul64 (a b : Nat) : Nat := if a * b < 2 ^ 64 then a * b else 2 ^ 64 - 1
def satAdd32 (a b : Nat) : Nat := if a + b < 2 ^ 32 then a + b else 2 ^ 32 - 1

end Ldk

namespace Ldk
def I64_MAX : Nat := 2 ^ 63 - 1
/-- Rust `u32::checked_mul` -/
def chkMul32 (a b : Nat) : Option Nat := if a * b < 2 ^ 32 then some (a * b) else none
def chkAdd32 (a b : Nat) : Option Nat := if a + b < 2 ^ 32 then some (a + b) else none
/-- Rust `u32::saturating_mul` -/
def satMul32 (a b : Nat) : Nat := if a * b < 2 ^ 32 then a * b else 2 ^ 32 - 1
end Ldk
