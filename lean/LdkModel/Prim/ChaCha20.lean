/- ChaCha20 (RFC 8439: 20 rounds, 96-bit nonce, 32-bit block counter), plain executable definition
   over UInt32, no Mathlib.  LDK (crate `chacha20-poly1305` 0.2.1, `ChaCha20::new(key, nonce12, seek)`)
   only uses the IETF variant; `seek` there is a BYTE offset into the keystream
   (`block_count = seek / 64`, `offset = seek % 64`) — `chacha20StreamAt` below.  The original
   (djb) variant with a 64-bit nonce and 64-bit counter is also provided (8-byte nonce argument).
   VALIDATED, NOT PROVED: `#guard`s at the end are RFC 8439 §2.3.2 (block function), §2.4.2
   (encryption), the all-zero vector; the c14/c15 correspondences compare against the Rust crate
   byte for byte.  Theorems never unfold it: they are stated over an abstract `stream`. -/
namespace Ldk.Prim.ChaCha20

@[inline] def rotl (x : UInt32) (n : UInt32) : UInt32 := (x <<< n) ||| (x >>> (32 - n))

@[inline] def le32 (b : ByteArray) (o : Nat) : UInt32 :=
  (b.get! o).toUInt32 ||| ((b.get! (o + 1)).toUInt32 <<< 8) |||
  ((b.get! (o + 2)).toUInt32 <<< 16) ||| ((b.get! (o + 3)).toUInt32 <<< 24)

@[inline] def qr (s : Array UInt32) (a b c d : Nat) : Array UInt32 :=
  let xa := s[a]!; let xb := s[b]!; let xc := s[c]!; let xd := s[d]!
  let xa := xa + xb; let xd := rotl (xd ^^^ xa) 16
  let xc := xc + xd; let xb := rotl (xb ^^^ xc) 12
  let xa := xa + xb; let xd := rotl (xd ^^^ xa) 8
  let xc := xc + xd; let xb := rotl (xb ^^^ xc) 7
  (((s.set! a xa).set! b xb).set! c xc).set! d xd

/-- initial state: constants, key, then words 12..15 (counter / nonce layout depends on variant) -/
def initState (key : ByteArray) (w12 w13 w14 w15 : UInt32) : Array UInt32 :=
  #[0x61707865, 0x3320646e, 0x79622d32, 0x6b206574,
    le32 key 0, le32 key 4, le32 key 8, le32 key 12, le32 key 16, le32 key 20, le32 key 24, le32 key 28,
    w12, w13, w14, w15]

/-- the ChaCha20 block function on a prepared state: 10 double rounds, add the input, serialise LE -/
def blockOfState (st : Array UInt32) (out : ByteArray) : ByteArray := Id.run do
  let mut s := st
  for _ in [0:10] do
    s := qr s 0 4 8 12; s := qr s 1 5 9 13; s := qr s 2 6 10 14; s := qr s 3 7 11 15
    s := qr s 0 5 10 15; s := qr s 1 6 11 12; s := qr s 2 7 8 13; s := qr s 3 4 9 14
  let mut o := out
  for i in [0:16] do
    let x := s[i]! + st[i]!
    o := o.push x.toUInt8
    o := o.push (x >>> 8).toUInt8
    o := o.push (x >>> 16).toUInt8
    o := o.push (x >>> 24).toUInt8
  return o

/-- state for block `ctr`: 12-byte nonce ⇒ IETF (32-bit counter, wraps), 8-byte nonce ⇒ original
    (64-bit counter in words 12,13) -/
def stateFor (key nonce : ByteArray) (ctr : Nat) : Array UInt32 :=
  if nonce.size == 8 then
    initState key (UInt32.ofNat (ctr % 4294967296)) (UInt32.ofNat (ctr / 4294967296 % 4294967296))
      (le32 nonce 0) (le32 nonce 4)
  else
    initState key (UInt32.ofNat (ctr % 4294967296)) (le32 nonce 0) (le32 nonce 4) (le32 nonce 8)

/-- keystream blocks `startCounter .. startCounter + nblocks - 1`, concatenated -/
def blocksBA (key nonce : ByteArray) (startCounter nblocks : Nat) : ByteArray := Id.run do
  let mut o := ByteArray.emptyWithCapacity (64 * nblocks)
  for i in [0:nblocks] do o := blockOfState (stateFor key nonce (startCounter + i)) o
  return o

/-- `n` keystream bytes starting at BYTE position `pos` (the crate's `seek`) -/
def streamAtBA (key nonce : ByteArray) (pos n : Nat) : ByteArray :=
  let b0 := pos / 64
  let off := pos % 64
  let nb := (off + n + 63) / 64
  (blocksBA key nonce b0 nb).extract off (off + n)

def xorBA (a b : ByteArray) : ByteArray := Id.run do
  let mut o := ByteArray.emptyWithCapacity a.size
  for i in [0:a.size] do o := o.push (a.get! i ^^^ b.get! i)
  return o

end Ldk.Prim.ChaCha20

namespace Ldk.Prim
open ChaCha20

/-- one 64-byte keystream block (IETF: 12-byte nonce, 32-bit counter) -/
def chacha20Block (key : List UInt8) (counter : UInt32) (nonce12 : List UInt8) : List UInt8 :=
  (blocksBA (ByteArray.mk key.toArray) (ByteArray.mk nonce12.toArray) counter.toNat 1).toList

/-- `n` keystream bytes from the start of block `startCounter` (nonce: 12 bytes IETF, 8 bytes original) -/
def chacha20Stream (key nonce12 : List UInt8) (startCounter : Nat) (n : Nat) : List UInt8 :=
  (streamAtBA (ByteArray.mk key.toArray) (ByteArray.mk nonce12.toArray) (64 * startCounter) n).toList

/-- `n` keystream bytes from BYTE position `pos` of the stream that starts at block 0
    (= `ChaCha20::new(key, nonce, seek = pos)` followed by `apply_keystream` on `n` zero bytes) -/
def chacha20StreamAt (key nonce12 : List UInt8) (pos : Nat) (n : Nat) : List UInt8 :=
  (streamAtBA (ByteArray.mk key.toArray) (ByteArray.mk nonce12.toArray) pos n).toList

/-- data ⊕ keystream (from the start of block `startCounter`) -/
def chacha20Xor (key nonce12 : List UInt8) (startCounter : Nat) (data : List UInt8) : List UInt8 :=
  let d := ByteArray.mk data.toArray
  (xorBA d (streamAtBA (ByteArray.mk key.toArray) (ByteArray.mk nonce12.toArray) (64 * startCounter) d.size)).toList

namespace ChaCha20
private def hexOf (b : List UInt8) : String :=
  let d (n : Nat) : Char := if n < 10 then Char.ofNat (48 + n) else Char.ofNat (87 + n)
  String.ofList (b.foldr (fun x acc => d (x.toNat / 16) :: d (x.toNat % 16) :: acc) [])
private def key0 : List UInt8 := (List.range 32).map UInt8.ofNat

-- test vectors (tests, labelled as tests)
-- RFC 8439 §2.3.2
#guard hexOf (chacha20Block key0 1 [0, 0, 0, 9, 0, 0, 0, 0x4a, 0, 0, 0, 0]) =
  "10f1e7e4d13b5915500fdd1fa32071c4c7d1f4c733c068030422aa9ac3d46c4ed2826446079faa0914c2d705d98b02a2b5129cd1de164eb9cbd083e8a2503c4e"
-- RFC 8439 §2.4.2
#guard hexOf (chacha20Xor key0 [0, 0, 0, 0, 0, 0, 0, 0x4a, 0, 0, 0, 0] 1
    "Ladies and Gentlemen of the class of '99: If I could offer you only one tip for the future, sunscreen would be it.".toUTF8.toList) =
  "6e2e359a2568f98041ba0728dd0d6981e97e7aec1d4360c20a27afccfd9fae0bf91b65c5524733ab8f593dabcd62b3571639d624e65152ab8f530c359f0861d807ca0dbf500d6a6156a38e088a22b65e52bc514d16ccf806818ce91ab77937365af90bbf74a35be6b40b8eedf2785e42874d"
-- all-zero key / nonce, block 0 (same for both variants)
#guard hexOf (chacha20Block (List.replicate 32 0) 0 (List.replicate 12 0)) =
  "76b8e0ada0f13d90405d6ae55386bd28bdd219b8a08ded1aa836efcc8b770dc7da41597c5157488d7724e03fb8d84a376a43b8f41518a11cc387b669b2ee6586"
#guard chacha20Stream (List.replicate 32 0) (List.replicate 8 0) 0 64 = chacha20Block (List.replicate 32 0) 0 (List.replicate 12 0)
-- original variant, draft-agl-tls-chacha20poly1305 / djb test vector: key 0, nonce 00..01 (8 bytes)
#guard hexOf (chacha20Stream (List.replicate 32 0) [0, 0, 0, 0, 0, 0, 0, 1] 0 32) =
  "de9cba7bf3d69ef5e786dc63973f653a0b49e015adbff7134fcb7df137821031"
-- seek is a byte offset: bytes 100..199 of the stream are the same whichever way they are reached
#guard chacha20StreamAt key0 (List.replicate 12 0) 100 100 = ((chacha20Stream key0 (List.replicate 12 0) 0 200).drop 100)
#guard chacha20StreamAt key0 (List.replicate 12 0) 128 70 = chacha20Stream key0 (List.replicate 12 0) 2 70
end ChaCha20
end Ldk.Prim
