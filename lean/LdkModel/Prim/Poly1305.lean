/- Poly1305 (RFC 8439 §2.5) on `Nat` arithmetic modulo 2^130 − 5.  Plain executable definition, no
   Mathlib.  VALIDATED, NOT PROVED: the `#guard`s at the end are RFC 8439 §2.5.2 and appendix A.3
   vectors; the c15 correspondence compares every AEAD tag byte-for-byte with the Rust crate
   `chacha20-poly1305`.  Theorems never unfold it (they are stated over an abstract AEAD). -/
namespace Ldk.Prim.Poly1305

def P : Nat := 2 ^ 130 - 5

/-- little-endian number of `b[off .. off+len)` -/
def leNat (b : ByteArray) (off len : Nat) : Nat := Id.run do
  let mut acc := 0
  for i in [0:len] do
    acc := acc + (b.get! (off + len - 1 - i)).toNat
    if i + 1 < len then acc := acc * 256
  return acc

/-- `r` with the RFC 8439 clamp -/
def clampR (key : ByteArray) : Nat := leNat key 0 16 &&& 0x0ffffffc0ffffffc0ffffffc0fffffff

/-- the accumulator after absorbing `msg` (each 16-byte block gets a 0x01 byte appended) -/
def absorb (r : Nat) (msg : ByteArray) : Nat := Id.run do
  let mut acc := 0
  let nblocks := (msg.size + 15) / 16
  for i in [0:nblocks] do
    let off := 16 * i
    let len := min 16 (msg.size - off)
    let n := leNat msg off len + 2 ^ (8 * len)
    acc := ((acc + n) * r) % P
  return acc

def macBA (key msg : ByteArray) : ByteArray := Id.run do
  let r := clampR key
  let s := leNat key 16 16
  let mut t := (absorb r msg + s) % 2 ^ 128
  let mut o := ByteArray.emptyWithCapacity 16
  for _ in [0:16] do
    o := o.push (UInt8.ofNat (t % 256))
    t := t / 256
  return o

end Ldk.Prim.Poly1305

namespace Ldk.Prim
/-- Poly1305 one-time authenticator: 32-byte key (r ‖ s), message → 16-byte tag -/
def poly1305 (key32 msg : List UInt8) : List UInt8 :=
  (Poly1305.macBA (ByteArray.mk key32.toArray) (ByteArray.mk msg.toArray)).toList

namespace Poly1305
private def hexDigit (c : Char) : Nat :=
  if '0' ≤ c ∧ c ≤ '9' then c.toNat - '0'.toNat else c.toNat - 'a'.toNat + 10
private def unhex (s : String) : List UInt8 :=
  let rec go : List Char → List UInt8
    | a :: b :: rest => UInt8.ofNat (hexDigit a * 16 + hexDigit b) :: go rest
    | _ => []
  go s.toList
private def hexOf (b : List UInt8) : String :=
  let d (n : Nat) : Char := if n < 10 then Char.ofNat (48 + n) else Char.ofNat (87 + n)
  String.ofList (b.foldr (fun x acc => d (x.toNat / 16) :: d (x.toNat % 16) :: acc) [])

-- test vectors (tests, labelled as tests)
-- RFC 8439 §2.5.2
#guard hexOf (poly1305 (unhex "85d6be7857556d337f4452fe42d506a80103808afb0db2fd4abff6af4149f51b")
    "Cryptographic Forum Research Group".toUTF8.toList) = "a8061dc1305136c6c22b8baf0c0127a9"
-- RFC 8439 A.3 #1: zero key, zero message
#guard hexOf (poly1305 (List.replicate 32 0) (List.replicate 64 0)) = "00000000000000000000000000000000"
-- RFC 8439 A.3 #5: r = 2, message block 2^128-1 (tests the reduction 2^130-5)
#guard hexOf (poly1305 (unhex "0200000000000000000000000000000000000000000000000000000000000000")
    (List.replicate 16 0xff)) = "03000000000000000000000000000000"
-- RFC 8439 A.3 #6: s = 2^128-1 (tests the final addition mod 2^128)
#guard hexOf (poly1305 (unhex "02000000000000000000000000000000ffffffffffffffffffffffffffffffff")
    (unhex "02000000000000000000000000000000")) = "03000000000000000000000000000000"
-- empty message: tag = s
#guard hexOf (poly1305 (unhex "85d6be7857556d337f4452fe42d506a80103808afb0db2fd4abff6af4149f51b") []) =
  "0103808afb0db2fd4abff6af4149f51b"
end Poly1305
end Ldk.Prim
