/- C01 — statistics / limits half.  Ties the acceptance checks (`get_next_commitment_stats`) and the
   advertised send limits (`get_available_balances`), both GENERATED from lightning/src/sign/tx_builder.rs,
   to the commitment transaction that is actually built (`buildCommitment`, Model/TxBuilder.lean).
   Property theorems only; per-function lemmas are in Proofs/TxStats.lean.

   Notation (Proofs/TxStats.lean): `outSum dirs` / `inSum dirs` = Σ amount_msat of the holder's outbound /
   inbound HTLCs, `outCount dirs` = number of outbound HTLCs, `nondustCount l f d ty dirs` = number of HTLCs
   that are not dust on the commitment selected by `l` at feerate `f` and dust limit `d`,
   `spikedFeerate spike f ty` = the feerate `get_next_commitment_stats` charges (2·f when `assume_fee_spike`
   on a non-anchor channel, else f). -/
import LdkModel.Props.C01
import LdkModel.Proofs.TxStats
namespace Ldk.C01
open Ldk Ldk.TxB

/-! ## 1. one dust classification -/

/-- The statistics code (`HTLCAmountDirection::is_dust`) and the transaction builder (the `is_dust` closure
    of `build_commitment_transaction`) classify every HTLC identically. -/
theorem isDust_agrees (h : HtlcIn) (local_ : Bool) (feerate dust : Nat) (ty : ChanType)
    (hz : ty.zeroFee = true → feerate = 0) :
    is_dust { outbound := (h.offered == local_), amount_msat := h.amount_msat } local_ feerate dust ty =
      buildIsDust ty feerate dust h :=
  is_dust_dirOf h local_ feerate dust ty hz

/-- non-vacuity: a 1 000-sat offered HTLC at 253 sat/kw, dust limit 546: second-stage fee 167 sat, so it is
    non-dust; at 2 500 sat/kw (fee 1 657 sat) it is dust — in both views -/
example : is_dust { outbound := true, amount_msat := 1000000 } true 253 546 ⟨false, false⟩ = false ∧
    buildIsDust ⟨false, false⟩ 253 546 ⟨true, 1000000⟩ = false ∧
    is_dust { outbound := true, amount_msat := 1000000 } true 2500 546 ⟨false, false⟩ = true ∧
    buildIsDust ⟨false, false⟩ 2500 546 ⟨true, 1000000⟩ = true := by decide

/-! ## 2. an accepted commitment is affordable, hence conserves funds -/

/-- If `get_next_commitment_stats` (no additional HTLC, no fee spike: the check made before a
    commitment is signed) accepts the HTLC set, then the builder succeeds on the same set, the funder
    affords anchors and fee (`FunderAffords`), the msat balances of the statistics are the builder's
    pre-fee balances minus the fee taken from the funder, and the two main outputs of the transaction
    are exactly the statistics' balances in whole satoshis, trimmed at the dust limit. -/
theorem stats_accept_implies_build_affords (local_ funder : Bool) (chan vts : Nat) (htlcs : List HtlcIn)
    (feerate : Nat) (lim : Option Nat) (dust : Nat) (ty : ChanType) (s : NextCommitmentStats)
    (hs : get_next_commitment_stats local_ funder chan vts
            (htlcs.map (fun h => { outbound := (h.offered == local_), amount_msat := h.amount_msat }))
            0 feerate false lim dust ty = some s)
    (hc : chan * 1000 < 2 ^ 64 - 1)
    (hz : ty.zeroFee = true → ty.anchors = false ∧ feerate = 0) :
    ∃ b, buildCommitment local_ funder chan vts htlcs feerate dust ty = some b ∧
      FunderAffords funder ty b ∧
      s.holder_balance_msat = b.localBeforeFeeMsat - (if funder then 1000 * b.commitTxFeeSat else 0) ∧
      s.counterparty_balance_msat = b.remoteBeforeFeeMsat - (if funder then 0 else 1000 * b.commitTxFeeSat) ∧
      b.localBeforeFeeMsat / 1000 - (if funder then b.commitTxFeeSat else 0) = s.holder_balance_msat / 1000 ∧
      b.remoteBeforeFeeMsat / 1000 - (if funder then 0 else b.commitTxFeeSat) = s.counterparty_balance_msat / 1000 ∧
      b.toBroadcaster =
        (let v := if local_ then s.holder_balance_msat / 1000 else s.counterparty_balance_msat / 1000
         if v ≥ dust then v else 0) ∧
      b.toCountersignatory =
        (let v := if local_ then s.counterparty_balance_msat / 1000 else s.holder_balance_msat / 1000
         if v ≥ dust then v else 0) := by
  change get_next_commitment_stats local_ funder chan vts (htlcs.map (dirOf local_)) 0 feerate false lim
    dust ty = some s at hs
  obtain ⟨h1, h2, h3, hb, cb, h4, -, h6, -⟩ := stats_inv _ _ _ _ _ _ _ _ _ _ _ _ hs
  rw [spikedFeerate_false, Nat.add_zero, nondustCount_map _ _ _ _ _ (fun h => (hz h).2)] at h6
  rw [outSum_map] at h2 h4
  rw [inSum_map] at h3 h4
  obtain ⟨h4s, h4g⟩ := csf_some_ssf _ _ _ _ _ _ h4
  generalize hfee : commit_tx_fee_sat feerate
    (htlcs.filter (fun h => !(buildIsDust ty feerate dust h))).length ty = fee at h6
  unfold buildCommitment
  simp only [chkSub, h1, h2, h3, if_true, h4s, hfee]
  refine ⟨_, rfl, ?_⟩
  simp only [FunderAffords]
  rw [satMul64_anchors] at h4g
  rw [csf_some] at h6 h4
  have hle := satMul64_le fee 1000
  generalize s.holder_balance_msat = sh at *
  generalize s.counterparty_balance_msat = sc at *
  generalize sumMsat (htlcs.filter (fun h => h.offered == local_)) = lt at *
  generalize sumMsat (htlcs.filter (fun h => !(h.offered == local_))) = rt at *
  generalize satMul64 (total_anchors_sat ty) 1000 = A at *
  have hfee1000 : fee * 1000 < 2 ^ 64 := by
    apply Classical.byContradiction; intro hn
    rw [satMul64_ge _ _ hn] at h6
    cases funder <;> simp at h6 h4 <;> omega
  rw [satMul64_eq _ _ hfee1000] at h6
  rw [ssf_eq]
  cases funder
  · simp only [Bool.false_eq_true, if_false] at h6 h4 h4g
    obtain ⟨h6a, rfl, rfl⟩ := h6
    obtain ⟨h4a, rfl, rfl⟩ := h4
    cases local_ <;> simp [sub_mul_div_1000] <;> omega
  · simp only [if_true] at h6 h4 h4g
    obtain ⟨h6a, rfl, rfl⟩ := h6
    obtain ⟨h4a, rfl, rfl⟩ := h4
    cases local_ <;> simp [sub_mul_div_1000] <;> omega

/-- Conservation without side condition: a commitment whose HTLC set passed `get_next_commitment_stats`
    pays out (outputs + stated fee) at most the channel value. -/
theorem accepted_commitment_conserves (local_ funder : Bool) (chan vts : Nat) (htlcs : List HtlcIn)
    (feerate : Nat) (lim : Option Nat) (dust : Nat) (ty : ChanType) (s : NextCommitmentStats)
    (hs : get_next_commitment_stats local_ funder chan vts
            (htlcs.map (fun h => { outbound := (h.offered == local_), amount_msat := h.amount_msat }))
            0 feerate false lim dust ty = some s)
    (hc : chan * 1000 < 2 ^ 64 - 1)
    (hz : ty.zeroFee = true → ty.anchors = false ∧ feerate = 0) :
    ∃ b, buildCommitment local_ funder chan vts htlcs feerate dust ty = some b ∧
      (outputValues ty chan b).sum + b.commitTxFeeSat ≤ chan := by
  obtain ⟨b, hb, ha, -⟩ :=
    stats_accept_implies_build_affords local_ funder chan vts htlcs feerate lim dust ty s hs hc hz
  exact ⟨b, hb, outputs_plus_fee_le_channel_value local_ funder chan vts htlcs feerate dust ty b hb hz ha⟩

/-- non-vacuity: 1 000 000-sat legacy channel funded by the holder, 600 000 sat to the holder, one
    non-dust offered HTLC (50 000 sat) and one dust received HTLC (100 sat), 253 sat/kw, dust limit 354:
    fee = 253·(724+172)/1000 = 226 sat; the statistics accept and report 549 774 / 399 900 sat -/
example : get_next_commitment_stats true true 1000000 600000000
    (([⟨true, 50000000⟩, ⟨false, 100000⟩] : List HtlcIn).map
      (fun h => { outbound := (h.offered == true), amount_msat := h.amount_msat }))
    0 253 false none 354 ⟨false, false⟩ =
    some { holder_balance_msat := 549774000, counterparty_balance_msat := 399900000, dust_exposure_msat := 100000 } := by
  decide

example : ∃ b, buildCommitment true true 1000000 600000000 [⟨true, 50000000⟩, ⟨false, 100000⟩] 253 354
      ⟨false, false⟩ = some b ∧ b.toBroadcaster = 549774 ∧ b.toCountersignatory = 399900 ∧
      b.commitTxFeeSat = 226 ∧ (outputValues ⟨false, false⟩ 1000000 b).sum + b.commitTxFeeSat = 999900 :=
  ⟨_, rfl, by decide, by decide, by decide, by decide⟩

/-! ## 3. what the "at least one output" guard guarantees -/

/-- Whenever `get_next_commitment_stats` succeeds (any `addl`, any spike flag), the commitment it
    describes has an output at the feerate it charges: the generated `has_output` holds for the balances
    after HTLCs and anchors, i.e. the channel type is zero-fee (P2A output always present), or some HTLC is
    non-dust at that feerate, or one of the two balances — after the fee for exactly the non-dust HTLCs is
    taken from the funder — reaches the broadcaster's dust limit. -/
theorem stats_has_output (l fu : Bool) (chan vth : Nat) (dirs : List HTLCAmountDirection) (addl f : Nat)
    (spike : Bool) (lim : Option Nat) (dust : Nat) (ty : ChanType) (s : NextCommitmentStats)
    (h : get_next_commitment_stats l fu chan vth dirs addl f spike lim dust ty = some s) :
    let sf := spikedFeerate spike f ty
    let n := nondustCount l sf dust ty dirs
    let hb := vth - outSum dirs - (if fu then 1000 * total_anchors_sat ty else 0)
    let cb := chan * 1000 - vth - inSum dirs - (if fu then 0 else 1000 * total_anchors_sat ty)
    has_output fu hb cb sf n dust ty = true ∧
    (ty.zeroFee = true ∨ n ≠ 0 ∨
      dust * 1000 ≤ hb - (if fu then satMul64 (commit_tx_fee_sat sf n ty) 1000 else 0) ∨
      dust * 1000 ≤ cb - (if fu then 0 else satMul64 (commit_tx_fee_sat sf n ty) 1000)) := by
  intro sf n hb cb
  obtain ⟨-, -, -, hb', cb', h4, h5, -, -⟩ := stats_inv _ _ _ _ _ _ _ _ _ _ _ _ h
  rw [csf_some, satMul64_anchors] at h4
  have e : hb' = hb ∧ cb' = cb := by
    cases fu <;> simp at h4 ⊢ <;> simp [hb, cb, h4]
  rw [e.1, e.2] at h5
  exact ⟨h5, (has_output_iff ..).1 h5⟩

/-- non-vacuity (and sharpness): holder-funded legacy channel of 1 000 sat with 500 sat each, 253 sat/kw
    (fee 183 sat), dust limit 354: the counterparty's 500 sat is an output, the stats succeed; with a dust
    limit of 546 neither balance is an output and the stats fail -/
example : (get_next_commitment_stats true true 1000 500000 [] 0 253 false none 354 ⟨false, false⟩).isSome = true ∧
    get_next_commitment_stats true true 1000 500000 [] 0 253 false none 546 ⟨false, false⟩ = none := by
  decide

/-! ## 4. the advertised send limits -/

section limits
variable (fu : Bool) (chan vth : Nat) (dirs : List HTLCAmountDirection) (f : Nat) (lim : Option Nat)
  (maxd : Nat) (cons : ChannelConstraints) (ty : ChanType)

/-- the next-HTLC limit never exceeds the outbound capacity -/
theorem limit_le_outbound_capacity :
    (get_available_balances fu chan vth dirs f lim maxd cons ty).next_outbound_htlc_limit_msat ≤
    (get_available_balances fu chan vth dirs f lim maxd cons ty).outbound_capacity_msat :=
  (gab_limit_min fu chan vth dirs f lim maxd cons ty).1

/-- the advertised minimum is at least the peer's `htlc_minimum_msat` -/
theorem minimum_ge_peer_minimum :
    (get_available_balances fu chan vth dirs f lim maxd cons ty).next_outbound_htlc_minimum_msat ≥
    cons.counterparty_htlc_minimum_msat :=
  (gab_limit_min fu chan vth dirs f lim maxd cons ty).2.2.2.1

/-- the limit fits into what is left of the peer's `max_htlc_value_in_flight_msat` (saturating) -/
theorem limit_le_in_flight_remaining :
    (get_available_balances fu chan vth dirs f lim maxd cons ty).next_outbound_htlc_limit_msat ≤
    cons.counterparty_max_htlc_value_in_flight_msat - outSum dirs :=
  (gab_limit_min fu chan vth dirs f lim maxd cons ty).2.1

/-- … hence sending the limit never pushes the in-flight total above the peer's maximum (unless it already
    is above, in which case the limit is 0) -/
theorem limit_respects_in_flight :
    (get_available_balances fu chan vth dirs f lim maxd cons ty).next_outbound_htlc_limit_msat + outSum dirs ≤
    max cons.counterparty_max_htlc_value_in_flight_msat (outSum dirs) := by
  have := limit_le_in_flight_remaining fu chan vth dirs f lim maxd cons ty
  omega

theorem limit_pos_respects_in_flight
    (hp : 0 < (get_available_balances fu chan vth dirs f lim maxd cons ty).next_outbound_htlc_limit_msat) :
    (get_available_balances fu chan vth dirs f lim maxd cons ty).next_outbound_htlc_limit_msat + outSum dirs ≤
    cons.counterparty_max_htlc_value_in_flight_msat := by
  have := limit_le_in_flight_remaining fu chan vth dirs f lim maxd cons ty
  omega

/-- no HTLC can be sent once the peer's `max_accepted_htlcs` slots are used up -/
theorem limit_zero_when_slots_full
    (hfull : outCount dirs + 1 > cons.counterparty_max_accepted_htlcs) :
    (get_available_balances fu chan vth dirs f lim maxd cons ty).next_outbound_htlc_limit_msat = 0 :=
  (gab_limit_min fu chan vth dirs f lim maxd cons ty).2.2.1 hfull

/-- the outbound capacity is the holder's balance minus pending outbound HTLCs, minus the anchors if the
    holder funds them, minus the reserve the peer selected (all saturating) -/
theorem outbound_capacity_eq :
    (get_available_balances fu chan vth dirs f lim maxd cons ty).outbound_capacity_msat =
    vth - outSum dirs - (if fu then 1000 * total_anchors_sat ty else 0)
      - cons.counterparty_selected_channel_reserve_satoshis * 1000 := by
  rw [(gab_limit_min fu chan vth dirs f lim maxd cons ty).2.2.2.2, gabBalances_fst]

/-- … so whenever it is positive, capacity + reserve + pending outbound (+ anchors) is exactly the holder's
    balance: the reserve is never part of what is offered for sending -/
theorem outbound_capacity_excludes_reserve
    (hp : 0 < (get_available_balances fu chan vth dirs f lim maxd cons ty).outbound_capacity_msat) :
    (get_available_balances fu chan vth dirs f lim maxd cons ty).outbound_capacity_msat
      + 1000 * cons.counterparty_selected_channel_reserve_satoshis + outSum dirs
      + (if fu then 1000 * total_anchors_sat ty else 0) = vth := by
  rw [outbound_capacity_eq] at hp ⊢
  omega

/-- the weaker unconditional form -/
theorem outbound_capacity_le :
    (get_available_balances fu chan vth dirs f lim maxd cons ty).outbound_capacity_msat ≤
    vth - 1000 * cons.counterparty_selected_channel_reserve_satoshis := by
  rw [outbound_capacity_eq]; omega

/-- the limit itself never touches the reserve -/
theorem limit_excludes_reserve
    (hp : 0 < (get_available_balances fu chan vth dirs f lim maxd cons ty).next_outbound_htlc_limit_msat) :
    (get_available_balances fu chan vth dirs f lim maxd cons ty).next_outbound_htlc_limit_msat
      + 1000 * cons.counterparty_selected_channel_reserve_satoshis + outSum dirs ≤ vth := by
  have h1 := limit_le_outbound_capacity fu chan vth dirs f lim maxd cons ty
  have h2 := outbound_capacity_excludes_reserve fu chan vth dirs f lim maxd cons ty (by omega)
  omega

end limits

/-- the constraints used in the examples: dust limits 354, reserves 10 000 sat, htlc_minimum 1 000 msat,
    max in flight 500 000 sat, 2 slots -/
def exCons : ChannelConstraints :=
  { holder_dust_limit_satoshis := 354, counterparty_selected_channel_reserve_satoshis := 10000
    counterparty_dust_limit_satoshis := 354, holder_selected_channel_reserve_satoshis := 10000
    counterparty_htlc_minimum_msat := 1000, counterparty_max_htlc_value_in_flight_msat := 500000000
    counterparty_max_accepted_htlcs := 2 }

/-- non-vacuity: holder-funded legacy 1 000 000-sat channel, 600 000 sat to the holder, one pending
    outbound HTLC of 50 000 sat, 253 sat/kw: capacity 540 000 sat; limit = min(capacity − fee for 1+2 HTLCs
    at 2·253 sat/kw (627 sat), 450 000 sat of in-flight room) = 450 000 sat; minimum 1 000 msat -/
example : get_available_balances true 1000000 600000000 [⟨true, 50000000⟩] 253 none 5000000000 exCons ⟨false, false⟩ =
    { inbound_capacity_msat := 390000000, outbound_capacity_msat := 540000000
      next_outbound_htlc_limit_msat := 450000000, next_outbound_htlc_minimum_msat := 1000
      dust_exposure_msat := 0, next_splice_out_maximum_sat := 0 } := by decide +kernel

/-- with an in-flight maximum that does not bind, the limit is capacity − 627 sat -/
example : (get_available_balances true 1000000 600000000 [⟨true, 50000000⟩] 253 none 5000000000
      { exCons with counterparty_max_htlc_value_in_flight_msat := 1000000000 } ⟨false, false⟩).next_outbound_htlc_limit_msat
    = 539373000 := by decide

/-- both slots used: the limit is 0 -/
example : (get_available_balances true 1000000 600000000 [⟨true, 50000000⟩, ⟨true, 50000000⟩] 253 none
      5000000000 exCons ⟨false, false⟩).next_outbound_htlc_limit_msat = 0 := by decide

/-! ## 5. (stretch) the advertised limit is accepted by the peer — holder is the funder

What the peer evaluates on our `update_add_htlc` (channel.rs): `validate_update_add_htlc` calls
`get_next_commitment_stats` for both commitments with `addl = 0`, no spike, and requires the sender's
balance ≥ the reserve it selected; `can_accept_incoming_htlc` repeats both calls with
`addl = fee_spike_buffer_htlc = 1` (0 for zero-fee commitments) and, when the peer is not the funder, once
more on the sender's commitment with `assume_fee_spike = true` and the same reserve requirement.
`send_htlc` itself checks nothing but `minimum ≤ amount ≤ limit` (and `amount ≠ 0`).
The dust-exposure comparisons of `can_accept_incoming_htlc` use the PEER's own
`max_dust_htlc_exposure_msat` and are not covered.  -/

/-- core arithmetic: an amount within the funder's advertised limit leaves the funder, on either
    commitment, with reserve + the fee for (non-dust HTLCs incl. the new one + `addl ≤ 1`) at any feerate
    up to the spiked one -/
theorem funder_limit_covers_fee (chan vth : Nat) (dirs : List HTLCAmountDirection) (f : Nat)
    (lim : Option Nat) (maxd : Nat) (cons : ChannelConstraints) (ty : ChanType) (amt : Nat)
    (hf : f < 2 ^ 32) (hpos : 0 < amt)
    (hmax : amt ≤ (get_available_balances true chan vth dirs f lim maxd cons ty).next_outbound_htlc_limit_msat)
    (l : Bool) (addl : Nat) (haddl : addl ≤ 1) (spike : Bool) :
    let d := if l then cons.holder_dust_limit_satoshis else cons.counterparty_dust_limit_satoshis
    commit_tx_fee_sat (spikedFeerate spike f ty)
        (nondustCount l f d ty (dirs ++ [⟨true, amt⟩]) + addl) ty * 1000
      + cons.counterparty_selected_channel_reserve_satoshis * 1000 + 1000 * total_anchors_sat ty
      + outSum (dirs ++ [⟨true, amt⟩]) ≤ vth := by
  intro d
  have h0 := Nat.le_trans hmax (gab_limit_le_reserved true chan vth dirs f lim maxd cons ty)
  simp only [if_true] at h0
  rw [gabBalances_fst] at h0
  simp only [if_true] at h0
  have hsp := adjust_holder_reserved_spec _ _ _ _ _ _ _ amt hpos h0
  rw [nondustCount_append, outSum_append_out, is_dust_out]
  have hle := spikedFeerate_le_gabSpiked spike f ty hf
  generalize spikedFeerate spike f ty = sp at hle ⊢
  generalize gabSpiked f ty = gs at hle hsp
  -- fee is monotone in feerate and count
  have m1 : ∀ n k, n ≤ k → commit_tx_fee_sat sp n ty ≤ commit_tx_fee_sat gs k ty := fun n k hnk =>
    Nat.le_trans (commit_tx_fee_mono_feerate sp gs n ty hle) (commit_tx_fee_mono gs n k ty hnk)
  generalize hcap : vth - outSum dirs - 1000 * total_anchors_sat ty
    - cons.counterparty_selected_channel_reserve_satoshis * 1000 = cap at hsp
  have key : ∀ (n dl : Nat),
      (amt + commit_tx_fee_sat gs (n + 2) ty * 1000 ≤ cap ∨
        (amt < dl * 1000 ∧ amt + commit_tx_fee_sat gs (n + 1) ty * 1000 ≤ cap)) →
      commit_tx_fee_sat sp (n + (if decide (amt < dl * 1000) = true then 0 else 1) + addl) ty * 1000
        + cons.counterparty_selected_channel_reserve_satoshis * 1000 + 1000 * total_anchors_sat ty
        + (outSum dirs + amt) ≤ vth := by
    intro n dl hs
    by_cases hdust : amt < dl * 1000
    · simp only [hdust, decide_true, if_true]
      have := m1 (n + 0 + addl) (n + 1) (by omega)
      have := m1 (n + 0 + addl) (n + 2) (by omega)
      omega
    · simp only [hdust, decide_false, Bool.false_eq_true, if_false]
      have := m1 (n + 1 + addl) (n + 2) (by omega)
      omega
  cases l
  · exact key _ _ hsp.2
  · exact key _ _ hsp.1

/-- from "fee + reserve + anchors + outbound HTLCs ≤ holder balance" and the output guard to a
    successful `get_next_commitment_stats` of the funder with the balance at or above the reserve -/
theorem stats_of_cover (l : Bool) (chan vth : Nat) (dirs' : List HTLCAmountDirection) (addl f : Nat)
    (spike : Bool) (lim : Option Nat) (d : Nat) (ty : ChanType) (res : Nat)
    (hv : vth ≤ chan * 1000) (hin' : inSum dirs' ≤ chan * 1000 - vth)
    (hk : commit_tx_fee_sat (spikedFeerate spike f ty) (nondustCount l f d ty dirs' + addl) ty * 1000
            + res * 1000 + 1000 * total_anchors_sat ty + outSum dirs' ≤ vth)
    (hho : has_output true (vth - outSum dirs' - 1000 * total_anchors_sat ty)
            (chan * 1000 - vth - inSum dirs') (spikedFeerate spike f ty)
            (nondustCount l (spikedFeerate spike f ty) d ty dirs') d ty = true) :
    ∃ s, get_next_commitment_stats l true chan vth dirs' addl f spike lim d ty = some s ∧
      s.holder_balance_msat ≥ res * 1000 := by
  generalize hfee : commit_tx_fee_sat (spikedFeerate spike f ty) (nondustCount l f d ty dirs' + addl) ty = fee at hk
  have hsat := satMul64_le fee 1000
  refine ⟨_, stats_intro l true chan vth dirs' addl f spike lim d ty
    (vth - outSum dirs' - satMul64 (total_anchors_sat ty) 1000) (chan * 1000 - vth - inSum dirs')
    (vth - outSum dirs' - satMul64 (total_anchors_sat ty) 1000 - satMul64 fee 1000)
    (chan * 1000 - vth - inSum dirs') hv (by omega) hin' ?_ ?_ ?_, ?_⟩
  · rw [csf_some, satMul64_anchors]; simp only [if_true]
    exact ⟨by omega, by first | trivial | rfl, by first | trivial | rfl⟩
  · rw [satMul64_anchors]; exact hho
  · rw [csf_some, hfee, satMul64_anchors]; simp only [if_true]
    exact ⟨by omega, by first | trivial | rfl, by first | trivial | rfl⟩
  · simp only [satMul64_anchors]; lia

/-- STRETCH, part A (reserve ≥ both dust limits; dust-exposure checks not included).  The holder funds
    the channel (any channel type).  Any positive amount within the advertised limit passes every
    `get_next_commitment_stats` call the peer makes on the `update_add_htlc` — on either commitment
    (`l`), without or with the one-HTLC fee-spike buffer (`addl ≤ 1`), at the current or the spiked
    feerate — and leaves the holder at or above the reserve the peer selected. -/
theorem limit_accepted_by_peer_stats_partial (chan vth : Nat) (dirs : List HTLCAmountDirection) (f : Nat)
    (lim : Option Nat) (maxd : Nat) (cons : ChannelConstraints) (ty : ChanType) (amt : Nat)
    (hf : f < 2 ^ 32) (hv : vth ≤ chan * 1000) (hin : inSum dirs ≤ chan * 1000 - vth)
    (hres : cons.holder_dust_limit_satoshis ≤ cons.counterparty_selected_channel_reserve_satoshis ∧
            cons.counterparty_dust_limit_satoshis ≤ cons.counterparty_selected_channel_reserve_satoshis)
    (hpos : 0 < amt)
    (hmax : amt ≤ (get_available_balances true chan vth dirs f lim maxd cons ty).next_outbound_htlc_limit_msat)
    (l : Bool) (addl : Nat) (haddl : addl ≤ 1) (spike : Bool) :
    ∃ s, get_next_commitment_stats l true chan vth (dirs ++ [⟨true, amt⟩]) addl f spike lim
          (if l then cons.holder_dust_limit_satoshis else cons.counterparty_dust_limit_satoshis) ty = some s ∧
      s.holder_balance_msat ≥ cons.counterparty_selected_channel_reserve_satoshis * 1000 := by
  have hk := funder_limit_covers_fee chan vth dirs f lim maxd cons ty amt hf hpos hmax l addl haddl spike
  simp only [] at hk
  generalize hdd : (if l = true then cons.holder_dust_limit_satoshis else cons.counterparty_dust_limit_satoshis) = d
    at hk ⊢
  have hd : d ≤ cons.counterparty_selected_channel_reserve_satoshis := by
    subst hdd; split <;> omega
  generalize hdirs : dirs ++ [⟨true, amt⟩] = dirs' at hk ⊢
  have hin' : inSum dirs' ≤ chan * 1000 - vth := by rw [← hdirs, inSum_append_out]; exact hin
  refine stats_of_cover l chan vth dirs' addl f spike lim d ty _ hv hin' hk ?_
  -- the guard's count (non-dust at the spiked feerate) is at most the fee's count
  have hcnt : nondustCount l (spikedFeerate spike f ty) d ty dirs' ≤ nondustCount l f d ty dirs' + addl :=
    Nat.le_trans (nondustCount_antitone l f _ d ty dirs' (le_spikedFeerate spike f ty hf)) (Nat.le_add_right _ _)
  have hfee' := commit_tx_fee_mono (spikedFeerate spike f ty) _ _ ty hcnt
  have hsat' := satMul64_le (commit_tx_fee_sat (spikedFeerate spike f ty)
    (nondustCount l (spikedFeerate spike f ty) d ty dirs') ty) 1000
  rw [has_output_iff]; simp only [if_true]
  right; right; left
  generalize commit_tx_fee_sat (spikedFeerate spike f ty) (nondustCount l f d ty dirs' + addl) ty = fee at hk hfee'
  generalize commit_tx_fee_sat (spikedFeerate spike f ty)
      (nondustCount l (spikedFeerate spike f ty) d ty dirs') ty = v at hfee' hsat' ⊢
  generalize satMul64 v 1000 = w at hsat' ⊢
  lia

/-- STRETCH, part B (no assumption on the reserve — covers zero-reserve channels; no fee spike).  If the
    amount also respects the advertised minimum, every non-spiked check of the peer
    (`validate_update_add_htlc`: `addl = 0`; `can_accept_incoming_htlc`: `addl = 1`; both commitments)
    succeeds: in particular both commitments keep at least one output. -/
theorem limit_accepted_by_peer_stats_nospike (chan vth : Nat) (dirs : List HTLCAmountDirection) (f : Nat)
    (lim : Option Nat) (maxd : Nat) (cons : ChannelConstraints) (ty : ChanType) (amt : Nat)
    (hf : f < 2 ^ 32) (hc : chan * 1000 < 2 ^ 64 - 1)
    (hv : vth ≤ chan * 1000) (hin : inSum dirs ≤ chan * 1000 - vth)
    (hpos : 0 < amt)
    (hmin : (get_available_balances true chan vth dirs f lim maxd cons ty).next_outbound_htlc_minimum_msat ≤ amt)
    (hmax : amt ≤ (get_available_balances true chan vth dirs f lim maxd cons ty).next_outbound_htlc_limit_msat)
    (l : Bool) (addl : Nat) (haddl : addl ≤ 1) :
    ∃ s, get_next_commitment_stats l true chan vth (dirs ++ [⟨true, amt⟩]) addl f false lim
          (if l then cons.holder_dust_limit_satoshis else cons.counterparty_dust_limit_satoshis) ty = some s ∧
      s.holder_balance_msat ≥ cons.counterparty_selected_channel_reserve_satoshis * 1000 := by
  have hk := funder_limit_covers_fee chan vth dirs f lim maxd cons ty amt hf hpos hmax l addl haddl false
  simp only [] at hk
  have hin' : inSum (dirs ++ [⟨true, amt⟩]) ≤ chan * 1000 - vth := by rw [inSum_append_out]; exact hin
  refine stats_of_cover l chan vth _ addl f false lim _ ty _ hv hin' hk ?_
  have hamt : amt < 2 ^ 64 - 1 := by rw [outSum_append_out] at hk; omega
  obtain ⟨g1, g2⟩ := gab_guard true chan vth dirs f lim maxd cons ty amt hpos hamt hmin hmax
  rw [gabBalances_fst, gabBalances_snd_funder _ _ _ _ hv] at g1 g2
  simp only [if_true] at g1 g2
  rw [spikedFeerate_false, nondustCount_append, is_dust_out, outSum_append_out, inSum_append_out]
  have e : vth - (outSum dirs + amt) - 1000 * total_anchors_sat ty
      = vth - outSum dirs - 1000 * total_anchors_sat ty - amt := by omega
  rw [e]
  cases l
  · simpa using g2
  · simpa using g1

/-- Part A in the PEER's own coordinates (this is literally what its `validate_update_add_htlc` /
    `can_accept_incoming_htlc` evaluate): commitment `lp` from its side, it is not the funder, its
    `value_to_self` is the rest of the channel, HTLC directions flipped, the sender's balance is its
    `counterparty_balance_msat`, and the reserve it enforces is the one it selected. -/
theorem limit_accepted_by_peer_partial (chan vth : Nat) (dirs : List HTLCAmountDirection) (f : Nat)
    (lim : Option Nat) (maxd : Nat) (cons : ChannelConstraints) (ty : ChanType) (amt : Nat)
    (hf : f < 2 ^ 32) (hv : vth ≤ chan * 1000) (hin : inSum dirs ≤ chan * 1000 - vth)
    (hres : cons.holder_dust_limit_satoshis ≤ cons.counterparty_selected_channel_reserve_satoshis ∧
            cons.counterparty_dust_limit_satoshis ≤ cons.counterparty_selected_channel_reserve_satoshis)
    (hpos : 0 < amt)
    (hmax : amt ≤ (get_available_balances true chan vth dirs f lim maxd cons ty).next_outbound_htlc_limit_msat)
    (lp : Bool) (addl : Nat) (haddl : addl ≤ 1) (spike : Bool) :
    ∃ s, get_next_commitment_stats lp false chan (chan * 1000 - vth)
          ((dirs ++ [(⟨true, amt⟩ : HTLCAmountDirection)]).map flipDir) addl f spike lim
          (if lp then cons.counterparty_dust_limit_satoshis else cons.holder_dust_limit_satoshis) ty = some s ∧
      s.counterparty_balance_msat ≥ cons.counterparty_selected_channel_reserve_satoshis * 1000 := by
  obtain ⟨s, hs, hbal⟩ := limit_accepted_by_peer_stats_partial chan vth dirs f lim maxd cons ty amt hf hv hin
    hres hpos hmax (!lp) addl haddl spike
  obtain ⟨s', hs', -, e2⟩ := stats_swap _ _ _ _ _ _ _ _ _ _ _ _ hs
  refine ⟨s', ?_, by omega⟩
  rw [← hs']
  cases lp <;> rfl

/-- Part B in the peer's coordinates. -/
theorem limit_accepted_by_peer_nospike (chan vth : Nat) (dirs : List HTLCAmountDirection) (f : Nat)
    (lim : Option Nat) (maxd : Nat) (cons : ChannelConstraints) (ty : ChanType) (amt : Nat)
    (hf : f < 2 ^ 32) (hc : chan * 1000 < 2 ^ 64 - 1)
    (hv : vth ≤ chan * 1000) (hin : inSum dirs ≤ chan * 1000 - vth)
    (hpos : 0 < amt)
    (hmin : (get_available_balances true chan vth dirs f lim maxd cons ty).next_outbound_htlc_minimum_msat ≤ amt)
    (hmax : amt ≤ (get_available_balances true chan vth dirs f lim maxd cons ty).next_outbound_htlc_limit_msat)
    (lp : Bool) (addl : Nat) (haddl : addl ≤ 1) :
    ∃ s, get_next_commitment_stats lp false chan (chan * 1000 - vth)
          ((dirs ++ [(⟨true, amt⟩ : HTLCAmountDirection)]).map flipDir) addl f false lim
          (if lp then cons.counterparty_dust_limit_satoshis else cons.holder_dust_limit_satoshis) ty = some s ∧
      s.counterparty_balance_msat ≥ cons.counterparty_selected_channel_reserve_satoshis * 1000 := by
  obtain ⟨s, hs, hbal⟩ := limit_accepted_by_peer_stats_nospike chan vth dirs f lim maxd cons ty amt hf hc hv hin
    hpos hmin hmax (!lp) addl haddl
  obtain ⟨s', hs', -, e2⟩ := stats_swap _ _ _ _ _ _ _ _ _ _ _ _ hs
  refine ⟨s', ?_, by omega⟩
  rw [← hs']
  cases lp <;> rfl

/-- non-vacuity and sharpness of part A: in the channel of the §4 example (in-flight maximum not binding)
    the limit is 539 373 000 msat; sending exactly the limit leaves the holder, under the peer's
    strictest check (sender's commitment, one buffer HTLC, 2x feerate: fee 506·(724+3·172)/1000 = 627 sat),
    with exactly the 10 000-sat reserve; one msat more is below the reserve -/
example :
    (get_available_balances true 1000000 600000000 [⟨true, 50000000⟩] 253 none 5000000000
      { exCons with counterparty_max_htlc_value_in_flight_msat := 1000000000 } ⟨false, false⟩).next_outbound_htlc_limit_msat
      = 539373000 ∧
    get_next_commitment_stats true true 1000000 600000000 [⟨true, 50000000⟩, ⟨true, 539373000⟩] 1 253 true none 354
      ⟨false, false⟩ = some { holder_balance_msat := 10000000, counterparty_balance_msat := 400000000, dust_exposure_msat := 0 } ∧
    get_next_commitment_stats true true 1000000 600000000 [⟨true, 50000000⟩, ⟨true, 539373001⟩] 1 253 true none 354
      ⟨false, false⟩ = some { holder_balance_msat := 9999999, counterparty_balance_msat := 400000000, dust_exposure_msat := 0 } := by
  decide +kernel

/-- the peer's view of the same check (its coordinates): identical balances, swapped -/
example :
    get_next_commitment_stats false false 1000000 400000000
      (([⟨true, 50000000⟩, ⟨true, 539373000⟩] : List HTLCAmountDirection).map flipDir) 1 253 true none 354
      ⟨false, false⟩ = some { holder_balance_msat := 400000000, counterparty_balance_msat := 10000000, dust_exposure_msat := 0 } := by
  decide +kernel

/-! ### the holder is NOT the funder: the advertised limit is not always accepted

`adjust_capacity_for_counterparty_reserved_fee` lets the fundee send a non-dust HTLC as soon as the funder
can pay the fee for that HTLC plus its reserve (`nondust_htlc_count + 1`), whereas the funder-receiver's
`can_accept_incoming_htlc` demands the fee for one HTLC more (`fee_spike_buffer_htlc = 1`).  When one
HTLC's fee (feerate·172/1000 sat) exceeds the funder's reserve there are states in which an amount inside
`[minimum, limit]` is failed back by the peer (ChannelBalanceOverdrawn).  Concrete instance on the generated
code (holder's coordinates; 100 000-sat legacy channel funded by the peer, 10 000 sat/kw, both reserves
1 000 sat, peer balance 10 000 sat): limit 89 000 000 msat, minimum 1 000 msat; a 50 000 000-msat HTLC
passes the peer's `validate_update_add_htlc` stats (`addl = 0`) but its `can_accept_incoming_htlc` stats
(`addl = 1`: fee for 2 HTLCs = 10 680 sat > 10 000 sat) fail on both commitments. -/

def exConsSmall : ChannelConstraints :=
  { holder_dust_limit_satoshis := 354, counterparty_selected_channel_reserve_satoshis := 1000
    counterparty_dust_limit_satoshis := 354, holder_selected_channel_reserve_satoshis := 1000
    counterparty_htlc_minimum_msat := 1000, counterparty_max_htlc_value_in_flight_msat := 100000000
    counterparty_max_accepted_htlcs := 50 }

theorem fundee_limit_not_accepted_example :
    (get_available_balances false 100000 90000000 [] 10000 none 5000000000 exConsSmall ⟨false, false⟩).next_outbound_htlc_limit_msat
      = 89000000 ∧
    (get_available_balances false 100000 90000000 [] 10000 none 5000000000 exConsSmall ⟨false, false⟩).next_outbound_htlc_minimum_msat
      = 1000 ∧
    (get_next_commitment_stats true false 100000 90000000 [⟨true, 50000000⟩] 0 10000 false none 354 ⟨false, false⟩).isSome = true ∧
    (get_next_commitment_stats false false 100000 90000000 [⟨true, 50000000⟩] 0 10000 false none 354 ⟨false, false⟩).isSome = true ∧
    get_next_commitment_stats true false 100000 90000000 [⟨true, 50000000⟩] 1 10000 false none 354 ⟨false, false⟩ = none ∧
    get_next_commitment_stats false false 100000 90000000 [⟨true, 50000000⟩] 1 10000 false none 354 ⟨false, false⟩ = none ∧
    -- the same failing call as the peer (funder) makes it on its own commitment
    get_next_commitment_stats true true 100000 10000000 [⟨false, 50000000⟩] 1 10000 false none 354 ⟨false, false⟩ = none := by
  decide +kernel

end Ldk.C01
