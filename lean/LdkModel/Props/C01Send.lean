/- C01 — the balance guard (G2) of the two-party protocol theorems, DISCHARGED from the real admission check.

   Props/ChanProto.lean proves agreement / balance conservation for runs of `stepG`, whose guard (G2) on `commit x adds …` is the
   abstract condition `adds.sum + liveSum x ≤ x.valueToSelf`.  Here the guard is replaced by what the real node does: every add of
   the batch passes `send_htlc` — `amount ∈ [next_outbound_htlc_minimum_msat, next_outbound_htlc_limit_msat]` with the limits from the
   TRANSLATED `get_next_commitment_stats` / `get_available_balances` (Generated/TxBuilder.lean) applied to the node state of the channel
   model through the generated filters (`inNextStats false true`, `claimedInNext false`, `nextCommitmentValueToSelf`; call shapes pinned
   by tools/gen_sendlimit.py) — `Chan.stepChecked` (Model/SendLimit.lean).  For EVERY channel type, funder side, feerate, reserve,
   dust limit, dust-exposure limit, in-flight / slot limit:  `stepChecked ⊆ stepG`  on every state of a guarded run.

   What the proof uses: (1) arithmetic on the translated function: limit ≤ outbound_capacity = value − Σ counted outbound − anchors −
   reserve (`gab_limit_min`); (2) per-state table facts on the generated filters: a live outbound HTLC is counted by the statistics
   filter or debited as claimed, never both (`live_split`); (3) the inbound credit of `get_next_commitment_value_to_self_msat(false)`
   (LocalRemoved(Fulfill) amounts) is ZERO whenever the node may build a commitment: an inbound LocalRemoved HTLC exists only while its
   holder awaits a revoke_and_ack (`good_localRemoved_awaiting`, by `decide` over the 106 joint configurations).  Without (3) the
   implication is false — that is the mechanism of KF-C01-2 (holding-cell release: the credit of a queued claim admitted an add that
   precedes the claim on the wire), repaired in /repo 4ccd3da.
   Still side conditions (in `evOkBase`): (G1) revoke_and_ack / commitment_signed release order, (G3) no duplicate removal in a batch,
   (G4) update_fee not processed over an un-promoted one.  Theorems that inherit them are named `…_partial`. -/
import LdkModel.Proofs.Channel.Checked
import LdkModel.Props.ChanProto
namespace Ldk.C01Send
open Ldk.Chan

/-- One HTLC, all configurations: an amount admitted by the real `send_htlc` on a node that holds no inbound HTLC in LocalRemoved(Fulfill)
    is positive and covered by the node's settled balance net of its live outbound HTLCs — guard (G2) for a single add. -/
theorem real_limit_implies_guard (c : SendCfg) (n : Node) (amt : Nat) (h : n.sendOk c amt = true) (hn : NoInboundClaim n) :
    0 < amt ∧ amt + liveSum n ≤ n.valueToSelf :=
  sendOk_bound h hn

/-- The hypothesis is needed: with a fulfilled inbound HTLC not yet revoked (LocalRemoved(Fulfill)) the real limit counts its amount
    as the node's own although `value_to_self_msat` does not contain it yet. -/
def creditNode : Node :=
  { Node.init 1_000_000 true 0 with inb := [{ id := 0, amt := 5_000_000, st := .localRemoved true }], awaitingRaa := true }
def creditCfg : SendCfg :=
  { chanValueSat := 10_000, limitingFeerate := none, maxDustExposureMsat := 50_000_000, ty := { anchors := false, zeroFee := false },
    cons := { holder_dust_limit_satoshis := 354, counterparty_selected_channel_reserve_satoshis := 100, counterparty_dust_limit_satoshis := 354,
              holder_selected_channel_reserve_satoshis := 100, counterparty_htlc_minimum_msat := 1, counterparty_max_htlc_value_in_flight_msat := 10_000_000,
              counterparty_max_accepted_htlcs := 50 } }

example : creditNode.sendOk creditCfg 3_000_000 = true ∧ ¬ (3_000_000 + liveSum creditNode ≤ creditNode.valueToSelf) := by decide

/-- `stepChecked ⊆ stepG`: on every state satisfying the invariant of the guarded protocol, a step enabled under the REAL check
    (and (G1), (G3), (G4)) is a guarded step with the same result — for all `SendCfg`s of the two nodes. -/
theorem stepChecked_refines_stepG (ca cb : SendCfg) (va vb f0 : Nat) (evs : List Ev) (s s' : Sys) (e : Ev)
    (hr : runG (Sys.init va vb f0) evs = some s) (h : stepChecked ca cb s e = some s') : stepG s e = some s' :=
  stepChecked_stepG (Inv.run hr) h

/-- Every run guarded by the real limit is a guarded run (hence a run of the model) with the same final state. -/
theorem runChecked_refines_runG (ca cb : SendCfg) (va vb f0 : Nat) (evs : List Ev) (s : Sys)
    (h : runChecked ca cb (Sys.init va vb f0) evs = some s) : runG (Sys.init va vb f0) evs = some s :=
  runChecked_runG evs _ _ (Inv.init va vb f0) h

/-- AGREEMENT and BALANCES for runs guarded by the REAL send limit: every commitment_signed processed carries exactly the HTLC set,
    balance and feerate its receiver computes; the settled balances add up to the channel value plus the half-committed fulfilled
    amounts; each node's live outbound HTLCs are covered by its balance (no subtraction ever truncates).
    Partial: (G1), (G3), (G4) are still enabling conditions of `stepChecked`; (G2) is gone. -/
theorem agreement_real_limit_partial (ca cb : SendCfg) (va vb f0 : Nat) (evs : List Ev) (s : Sys)
    (h : runChecked ca cb (Sys.init va vb f0) evs = some s) :
    s.agreed = true ∧ s.feeAgreed = true ∧
    s.a.valueToSelf + s.b.valueToSelf = s.total + excess s.a s.b + excess s.b s.a ∧
    liveSum s.a ≤ s.a.valueToSelf ∧ liveSum s.b ≤ s.b.valueToSelf ∧ s.total = va + vb := by
  have hg := runChecked_refines_runG ca cb va vb f0 evs s h
  obtain ⟨b1, b2, b3, b4⟩ := ChanProto.balance_conservation_partial va vb f0 evs s hg
  exact ⟨ChanProto.agreement_partial va vb f0 evs s hg, ChanProto.fee_agreement_partial va vb f0 evs s hg, b1, b2, b3, b4⟩

/-- … and at every quiescent point of such a run the two balances partition the channel value (input of `C01Close.coop_close_agreement_partial`). -/
theorem quiescent_real_limit_partial (ca cb : SendCfg) (va vb f0 : Nat) (evs : List Ev) (s : Sys)
    (h : runChecked ca cb (Sys.init va vb f0) evs = some s)
    (hq : s.a.inb = [] ∧ s.a.outb = [] ∧ s.b.inb = [] ∧ s.b.outb = []) : s.a.valueToSelf + s.b.valueToSelf = va + vb :=
  ChanProto.balance_quiescent_partial va vb f0 evs s (runChecked_refines_runG ca cb va vb f0 evs s h) hq

/-- a 2 000 sat legacy channel at 253 sat/kw, reserves 10 sat, as both nodes see it -/
def exCfg : SendCfg :=
  { chanValueSat := 2_000, limitingFeerate := none, maxDustExposureMsat := 5_000_000, ty := { anchors := false, zeroFee := false },
    cons := { holder_dust_limit_satoshis := 354, counterparty_selected_channel_reserve_satoshis := 10, counterparty_dust_limit_satoshis := 354,
              holder_selected_channel_reserve_satoshis := 10, counterparty_htlc_minimum_msat := 1, counterparty_max_htlc_value_in_flight_msat := 2_000_000,
              counterparty_max_accepted_htlcs := 50 } }

-- non-vacuity: crossing adds in both directions, admitted by the real limits of both nodes
example : (runChecked exCfg exCfg (Sys.init 1_000_000 1_000_000 253) (ChanProto.goodRun.take 13)).isSome = true := by decide
-- the funder's limit right after opening: 520 999 msat (the `dust limit − 1` arm of adjust_capacity_for_holder_reserved_fee)
example : ((Sys.init 1_000_000 1_000_000 253).a.availableBalances exCfg).map (·.next_outbound_htlc_limit_msat) = some 520_999 := by decide
-- the overdraw counter-example of ChanProto (balance 0 offers 5 msat) is refused by the real check at its first event
example : runChecked exCfg exCfg (Sys.init 0 10) (ChanProto.cexOverdraw.take 1) = none := by decide
-- one msat above the limit is refused
example : stepChecked exCfg exCfg (Sys.init 1_000_000 1_000_000 253) (.commit true [521_000] [] []) = none ∧
    (stepChecked exCfg exCfg (Sys.init 1_000_000 1_000_000 253) (.commit true [520_999] [] [])).isSome = true := by decide

end Ldk.C01Send
