/- C02 — A forwarding node never loses money on an HTLC it forwards.
   Property theorems only.  `admitFwd` is composed from the GENERATED translations of
   `internal_htlc_satisfies_config` and `check_incoming_htlc_cltv` (Generated/Timing.lean, regenerated from
   the Rust source on every run); `FwdProto` (`Forward.step`) is the hand-written one-HTLC machine of
   Model/Forward.lean whose gating is checked against the real node on every run (harness c02.rs).
   Every statement about the machine quantifies over ALL op lists, including `crash` / `restart` at any point,
   either persistence mode, on-chain preimage / timeout, and B's own (guarded) upstream actions.
   Scope: one HTLC; on-chain claiming itself is C07; trampoline / intercept forwards are not modelled. -/
import LdkModel.Proofs.Forward
namespace Ldk.C02
open Ldk Ldk.Forward

/-! ## admission -/

/-- the generated `htlcSatisfiesConfig`, re-read through `requiredFee` -/
theorem satisfies_eq (cfg : FwdCfg) (inAmt inCltv outAmt outCltv : Nat) :
    htlcSatisfiesConfig inAmt inCltv outAmt outCltv cfg.feeProp cfg.feeBase cfg.cltvDelta =
      match requiredFee cfg outAmt with
      | none => .error .feeInsufficient
      | some fee => if inAmt < fee ∨ inAmt - fee < outAmt then .error .feeInsufficient
                    else if inCltv < outCltv + cfg.cltvDelta then .error .incorrectCLTVExpiry else .ok () := by
  unfold htlcSatisfiesConfig
  have : (Option.bind (chkMul64 outAmt cfg.feeProp) fun prop_fee => chkAdd64 (prop_fee / 1000000) cfg.feeBase)
      = requiredFee cfg outAmt := rfl
  simp only [this]
  cases requiredFee cfg outAmt <;> simp

example : htlcSatisfiesConfig 101000 500 100000 400 0 1000 48 = .ok () := by rfl

/-- Exact characterisation of admission (nothing admissible is refused, nothing else is admitted):
    the fee is computable without u64 overflow and fully paid, the configured and the minimum CLTV delta are
    respected, and all three height margins hold. -/
theorem admit_ok_iff (cfg : FwdCfg) (height inAmt inCltv outAmt outCltv : Nat) :
    admitFwd cfg height inAmt inCltv outAmt outCltv = .ok () ↔
      (∃ fee, requiredFee cfg outAmt = some fee ∧ outAmt + fee ≤ inAmt) ∧
      outCltv + cfg.cltvDelta ≤ inCltv ∧ outCltv + MIN_CLTV_EXPIRY_DELTA ≤ inCltv ∧
      height + HTLC_FAIL_BACK_BUFFER < inCltv ∧ inCltv ≤ height + CLTV_FAR_FAR_AWAY ∧
      height + LATENCY_GRACE_PERIOD_BLOCKS < outCltv := by
  unfold admitFwd
  rw [satisfies_eq]
  cases hf : requiredFee cfg outAmt with
  | none => simp
  | some fee =>
    simp only [checkIncomingHtlcCltv]
    by_cases c1 : inAmt < fee ∨ inAmt - fee < outAmt
    · simp only [c1, if_true]; constructor
      · intro h; cases h
      · rintro ⟨⟨f, hf', hle⟩, -⟩; cases hf'; omega
    · simp only [c1, if_false]
      by_cases c2 : inCltv < outCltv + cfg.cltvDelta
      · simp only [c2, if_true]; constructor
        · intro h; cases h
        · rintro ⟨-, h, -⟩; omega
      · simp only [c2, if_false, decide_eq_true_eq]
        have hfee : (∃ f, some fee = some f ∧ outAmt + f ≤ inAmt) := ⟨fee, rfl, by omega⟩
        repeat' split
        all_goals (constructor <;> intro h <;>
          first | cases h; done | omega | (refine ⟨hfee, ?_, ?_, ?_, ?_, ?_⟩ <;> omega) | rfl)

example : admitFwd ⟨1000, 0, 48⟩ 100 101000 500 100000 400 = .ok () := by rfl
example : admitFwd ⟨1000, 0, 48⟩ 100 100999 500 100000 400 = .error .feeInsufficient := by rfl
example : admitFwd ⟨1000, 0, 72⟩ 100 101000 471 100000 400 = .error .incorrectCLTVExpiry := by rfl

/-- **admit_no_loss.** An admitted forward offers downstream no more than what was received upstream less the
    configured fee and CLTV delta, and leaves the timing margins — for all `Nat` inputs. -/
theorem admit_no_loss (cfg : FwdCfg) (height inAmt inCltv outAmt outCltv : Nat)
    (hok : admitFwd cfg height inAmt inCltv outAmt outCltv = .ok ()) :
    (∃ fee, requiredFee cfg outAmt = some fee ∧ outAmt + fee ≤ inAmt) ∧
    outCltv + cfg.cltvDelta ≤ inCltv ∧
    outCltv > height + LATENCY_GRACE_PERIOD_BLOCKS ∧
    inCltv > height + HTLC_FAIL_BACK_BUFFER := by
  obtain ⟨h1, h2, -, h4, -, h6⟩ := (admit_ok_iff ..).mp hok
  exact ⟨h1, h2, h6, h4⟩

example : ∃ cfg h a b c d, admitFwd cfg h a b c d = .ok () := ⟨⟨1000, 100, 48⟩, 100, 101010, 500, 100000, 400, by rfl⟩

/-- **admit_fee_exact.** The fee demanded is exactly `amt·prop/10⁶ + base` when neither the product nor the sum
    overflows u64 (so paying one msat less is refused, paying exactly that is enough as far as the fee goes),
    and any overflow rejects the forward. -/
theorem admit_fee_exact (cfg : FwdCfg) (height inAmt inCltv outAmt outCltv : Nat) :
    (requiredFee cfg outAmt =
      if outAmt * cfg.feeProp < 2 ^ 64 ∧ outAmt * cfg.feeProp / 1000000 + cfg.feeBase < 2 ^ 64
      then some (outAmt * cfg.feeProp / 1000000 + cfg.feeBase) else none) ∧
    (requiredFee cfg outAmt = none → admitFwd cfg height inAmt inCltv outAmt outCltv = .error .feeInsufficient) ∧
    (∀ fee, requiredFee cfg outAmt = some fee →
      (inAmt < outAmt + fee → admitFwd cfg height inAmt inCltv outAmt outCltv = .error .feeInsufficient) ∧
      (outAmt + fee ≤ inAmt → admitFwd cfg height inAmt inCltv outAmt outCltv ≠ .error .feeInsufficient)) := by
  refine ⟨?_, ?_, ?_⟩
  · unfold requiredFee chkMul64 chkAdd64
    by_cases h1 : outAmt * cfg.feeProp < 2 ^ 64 <;>
      by_cases h2 : outAmt * cfg.feeProp / 1000000 + cfg.feeBase < 2 ^ 64 <;> simp [h1, h2]
  · intro h; unfold admitFwd; rw [satisfies_eq, h]
  · intro fee h
    constructor
    · intro hlt; unfold admitFwd; rw [satisfies_eq, h]
      have : inAmt < fee ∨ inAmt - fee < outAmt := by omega
      simp [this]
    · intro hle; unfold admitFwd; rw [satisfies_eq, h]
      have : ¬ (inAmt < fee ∨ inAmt - fee < outAmt) := by omega
      simp only [this, if_false]
      by_cases c2 : inCltv < outCltv + cfg.cltvDelta
      · simp [c2]
      · simp only [c2, if_false, checkIncomingHtlcCltv]
        repeat' split
        all_goals simp

example : requiredFee ⟨1000, 2500, 48⟩ 4000000 = some 11000 := by decide
example : requiredFee ⟨0, 4294967295, 48⟩ 4294967298 = none := by decide
example : requiredFee ⟨0, 4294967295, 48⟩ 4294967297 = some 18446744073709 := by decide

/-! ## the forwarding machine: invariants over all op lists -/

/-- **preimage_durable_before_removal_irrevocable.** Whenever the downstream `revoke_and_ack` monitor update
    that removes a *fulfilled* HTLC has been handed to `chain::Watch` (let alone become durable), the preimage
    is durable in the upstream monitor — on every schedule, with crashes and restarts anywhere.
    (`downRaaUpdate ≠ notYet` only happens after removal, see `raa_only_after_removal`; for an HTLC removed by
    *failure* there is no preimage and nothing to gate.)  The gate is the `blocker` flag
    (`actions_blocking_raa_monitor_updates`): see `blocker_removed_only_when_durable`. -/
theorem preimage_durable_before_removal_irrevocable (ops : List Op) :
    let s := run init ops
    (s.downRaaUpdate = .handedToWatch ∨ s.downRaaUpdate = .durable) → s.down ≠ .removedByFail →
      s.upPreimageDurable = true := by
  intro s hr hd
  have I := inv_reachable ops
  have : s.down = .removedByFulfil := by
    rcases I.raa_removed (by rcases hr with h | h <;> simp [s, h] ) with h | h
    · exact h
    · exact absurd h hd
  exact I.raa_gate this hr

/-- the `RAAMonitorUpdateBlockingAction` registered by `update_fulfill_htlc` is gone only if the upstream preimage
    update is durable (it may stay longer: until ALL in-flight updates of the upstream channel are complete) -/
theorem blocker_removed_only_when_durable (ops : List Op) :
    let s := run init ops
    (s.down = .fulfilSeen ∨ s.down = .removedByFulfil) → s.blocker = false → s.upPreimageDurable = true :=
  (inv_reachable ops).blocker_gate

/-- non-vacuity of "may stay longer": a retransmitted fulfil re-adds the blocker while unrelated upstream updates
    are in flight; the revocation is parked although the preimage is durable, and released when they complete -/
example :
    let s := run init [.setSync false, .recvFulfilDown, .complete .up, .handUpOther, .recvFulfilDown, .recvCsDown,
      .complete .downCs, .recvRaaDown]
    s.upPreimageDurable = true ∧ s.blocker = true ∧ s.downRaaUpdate = .blocked := by decide
example :
    let s := run init [.setSync false, .recvFulfilDown, .complete .up, .handUpOther, .recvFulfilDown, .recvCsDown,
      .complete .downCs, .recvRaaDown, .completeUpOther]
    s.blocker = false ∧ s.downRaaUpdate = .handedToWatch := by decide

theorem raa_only_after_removal (ops : List Op) :
    let s := run init ops
    s.downRaaUpdate ≠ .notYet → (s.down = .removedByFulfil ∨ s.down = .removedByFail) :=
  (inv_reachable ops).raa_removed

/-- non-vacuity: asynchronous persistence, the revocation arrives before the upstream preimage is durable and
    is parked; completing the upstream update releases it. -/
example :
    let s := run init [.setSync false, .recvFulfilDown, .recvCsDown, .complete .downCs, .recvRaaDown]
    s.downRaaUpdate = .blocked ∧ s.upPreimageDurable = false ∧ s.down = .removedByFulfil := by decide
example :
    let s := run init [.setSync false, .recvFulfilDown, .recvCsDown, .complete .downCs, .recvRaaDown, .complete .up]
    s.downRaaUpdate = .handedToWatch ∧ s.upPreimageDurable = true := by decide
/-- ... and a crash that loses the in-flight preimage update in between does not let the revocation through:
    it is released by the restart only together with the replayed, completed preimage update. -/
example :
    let s := run init [.setSync false, .recvFulfilDown, .recvCsDown, .complete .downCs, .recvRaaDown, .crash true]
    s.downRaaUpdate = .blocked ∧ s.upPreimageDurable = false := by decide
example :
    let s := run init [.setSync false, .recvFulfilDown, .recvCsDown, .complete .downCs, .recvRaaDown, .crash true, .restart true]
    s.downRaaUpdate = .durable ∧ s.upPreimageDurable = true := by decide

/-- **claim_replayed.** `restart` recomputes the upstream claim from the DURABLE monitors alone: from every
    crashed state — reachable or not, i.e. whatever the persisted manager remembered of the claim — if a
    durable monitor knows the preimage and the upstream HTLC is still pending, then after the restart the
    upstream preimage update is (again) with `chain::Watch`, and with a synchronous persister it is already
    durable, so `update_fulfill_htlc` upstream is enabled. -/
theorem claim_replayed (s : St) (sy : Bool) (hdead : s.alive = false)
    (hk : durDownKnowsPreimage s = true ∨ durUpKnowsPreimage s = true) (hp : s.up = .pending) :
    let s' := step s (.restart sy)
    s'.alive = true ∧ s'.up = .pending ∧ s'.upPreimageHandedToWatch = true ∧
    (sy = true → fulfilAllowed s' = true) := by
  have hk' : (durDownKnowsPreimage s || durUpKnowsPreimage s) = true := by
    rcases hk with h | h <;> simp [h]
  obtain ⟨a, b, c, d⟩ := restart_replays s sy hdead hk' hp
  exact ⟨a, b, c, fun h => by simpa [fulfilAllowed] using d h⟩

/-- the same on every run of the machine, phrased with the state *after* the restart (as the property reads):
    after any op list ending in a restart of a crashed node, a durable monitor knowing the preimage with the
    upstream still pending means the upstream claim is pending again. -/
theorem claim_replayed_reachable (ops : List Op) (sy : Bool) :
    let s := run init ops
    let s' := step s (.restart sy)
    s.alive = false → (durDownKnowsPreimage s' = true ∨ durUpKnowsPreimage s' = true) → s'.up = .pending →
      s'.upPreimageHandedToWatch = true := by
  intro s s' _ hk _
  have I : Inv s' := inv_step _ _ (inv_reachable ops)
  rcases hk with hk | hk
  · apply I.knows_handed
    simp only [durDownKnowsPreimage, knowsPreimage, Bool.or_eq_true, Bool.and_eq_true] at hk ⊢
    rcases hk with ⟨⟨h, -⟩, -⟩ | h
    · rcases h with h | h
      · exact Or.inl (Or.inl h)
      · exact Or.inl (Or.inr h)
    · exact Or.inr h
  · exact I.dur_handed hk

/-- non-vacuity: the downstream monitor durably holds the preimage (holder-commitment update complete), the
    upstream preimage update was lost in the crash; the restart puts the claim back and completes it. -/
example :
    let s := run init [.setSync false, .recvFulfilDown, .recvCsDown, .complete .downCs, .crash true]
    s.alive = false ∧ durDownKnowsPreimage s = true ∧ s.upPreimageDurable = false ∧ s.up = .pending := by decide
example :
    let s := run init [.setSync false, .recvFulfilDown, .recvCsDown, .complete .downCs, .crash true, .restart true, .sendFulfilUp]
    s.up = .fulfilSent := by decide
/-- ... even from a (hypothetical) persisted manager that forgot the claim entirely -/
example :
    let s : St := { alive := false, sync := false, down := .fulfilSeen, downCsUpdate := .durable }
    (step s (.restart false)).upPreimageHandedToWatch = true := by decide

/-- **fail_only_after_irrevocable.** B has failed the HTLC backwards only if the downstream HTLC was removed by
    failure and the `revoke_and_ack` update that makes this irrevocable is durable, or B's own downstream
    timeout spend is buried by at least `ANTI_REORG_DELAY` confirmations. -/
theorem fail_only_after_irrevocable (ops : List Op) :
    let s := run init ops
    s.up = .failSent →
      (s.down = .removedByFail ∧ s.downRaaUpdate = .durable) ∨
      (s.down = .onchainTimeoutBuried ∧ ANTI_REORG_DELAY ≤ s.timeoutDepth) := by
  intro s h
  have := (inv_reachable ops).fail_sent h
  simpa [failAllowed] using this

example : (run init [.recvFailDown, .recvCsDown, .recvRaaDown, .sendFailUp]).up = .failSent := by decide
/-- the fail is refused while the revocation update is still in flight, and before the revocation -/
example : (run init [.setSync false, .recvFailDown, .recvCsDown, .complete .downCs, .recvRaaDown, .sendFailUp]).up = .pending := by decide
example : (run init [.recvFailDown, .recvCsDown, .sendFailUp]).up = .pending := by decide
example : (run init [.chainTimeout 5, .sendFailUp]).up = .pending := by decide
example : (run init [.chainTimeout 6, .sendFailUp]).up = .failSent := by decide

/-- **never_fulfilled_down_failed_up.** The losing outcome — the next hop has (or can still irrevocably get) the
    downstream amount while B failed the HTLC upstream — is unreachable. -/
theorem never_fulfilled_down_failed_up (ops : List Op) :
    let s := run init ops
    ¬ (s.up = .failSent ∧ downClaimable s = true) := by
  intro s ⟨h, hc⟩
  rcases fail_only_after_irrevocable ops h with ⟨hd, -⟩ | ⟨hd, -⟩ <;>
    simp [downClaimable, s, hd] at hc

/-- the converse direction of the property: B never *fulfils* upstream before the preimage is durable upstream,
    and whenever B (alive) has learned the preimage with the upstream still pending, completing the upstream
    preimage update enables and `sendFulfilUp` performs the upstream claim. -/
theorem learned_preimage_claims (ops : List Op) :
    let s := run init ops
    (s.up = .fulfilSent → s.upPreimageDurable = true) ∧
    (s.alive = true → knowsPreimage s = true → s.up = .pending →
      (run s [.complete .up, .sendFulfilUp]).up = .fulfilSent) := by
  intro s
  have I := inv_reachable ops
  refine ⟨I.fulfil_sent, ?_⟩
  intro ha hk hp
  exact claim_after_complete _ ha (I.knows_handed hk) hp

example : (run init [.chainPreimage, .sendFulfilUp]).up = .fulfilSent := by decide
example : (run init [.setSync false, .chainPreimage, .sendFulfilUp]).up = .pending := by decide

/-- **forward_no_loss.** For an admitted forward, in every reachable state in which B has acted upstream, B's
    worst-case combined balance change is non-negative; it is at least the demanded fee whenever B fulfilled
    upstream, and exactly `inAmt − outAmt` (the fee the sender paid) when the next hop claims. -/
theorem forward_no_loss (cfg : FwdCfg) (height inAmt inCltv outAmt outCltv : Nat)
    (hok : admitFwd cfg height inAmt inCltv outAmt outCltv = .ok ()) (ops : List Op) :
    let s := run init ops
    s.up ≠ .pending →
      0 ≤ deltaWorst inAmt outAmt s ∧
      (s.up = .fulfilSent → ∃ fee, requiredFee cfg outAmt = some fee ∧ (fee : Int) ≤ deltaWorst inAmt outAmt s) ∧
      (s.up = .fulfilSent → downClaimable s = true → deltaWorst inAmt outAmt s = (inAmt : Int) - outAmt) := by
  intro s hne
  obtain ⟨⟨fee, hfee, hle⟩, -⟩ := admit_no_loss cfg height inAmt inCltv outAmt outCltv hok
  have hnl := never_fulfilled_down_failed_up ops
  cases hu : s.up with
  | pending => exact absurd hu hne
  | failSent =>
    have hc : downClaimable s = false := by
      cases h : downClaimable s
      · rfl
      · exact absurd ⟨hu, h⟩ hnl
    simp [deltaWorst, hu, hc]
  | fulfilSent =>
    refine ⟨?_, fun _ => ⟨fee, hfee, ?_⟩, ?_⟩
    · cases hc : downClaimable s <;> simp [deltaWorst, hu, hc] <;> omega
    · cases hc : downClaimable s <;> simp [deltaWorst, hu, hc] <;> omega
    · intro _ hc; simp [deltaWorst, hu, hc]

/-- non-vacuity: the success path earns exactly the fee, the failure path costs nothing -/
example :
    let s := run init [.recvFulfilDown, .sendFulfilUp, .recvCsDown, .recvRaaDown]
    s.up = .fulfilSent ∧ s.down = .removedByFulfil ∧ deltaWorst 101000 100000 s = 1000 := by decide
example :
    let s := run init [.recvFailDown, .recvCsDown, .recvRaaDown, .sendFailUp]
    s.up = .failSent ∧ deltaWorst 101000 100000 s = 0 := by decide

end Ldk.C02
