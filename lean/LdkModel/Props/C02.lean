/- C02 — A forwarding node never loses money on an HTLC it forwards.
   Property theorems only.  `admitFwd` is composed from the GENERATED translations of
   `internal_htlc_satisfies_config` and `check_incoming_htlc_cltv` (Generated/Timing.lean, regenerated from
   the Rust source on every run); `FwdProto` (`Forward.step`) is the hand-written one-HTLC machine of
   Model/Forward.lean whose gating is checked against the real node on every run (harness c02.rs).
   Every statement about the machine quantifies over ALL op lists, including `crash` / `restart` at any point,
   either persistence mode, on-chain preimage / timeout, and B's own (guarded) upstream actions.
   `outcome` / `admitHop` (every next-hop kind: real channel, phantom SCID, intercept SCID, unknown SCID) is composed
   from the GENERATED translations of can_forward_htlc_should_intercept, can_forward_htlc_to_outgoing_channel,
   forward_needs_intercept_to_{known,unknown}_chan, htlc_satisfies_config, create_htlc_intercepted_event and
   forward_intercepted_htlc (Generated/Forward.lean, regenerated on every run).
   Scope: the one-HTLC machine, lifted to N HTLCs on one pair of links (Model/ForwardMulti.lean); on-chain claiming itself is C07 (the downstream monitor's preimage LEARNING per HTLC source is here: Generated/ChainClaim.lean);
   blinded forwards: the amounts of check_blinded_forward (Generated/Blinded.lean); trampoline forwards are not modelled. -/
import LdkModel.Proofs.Forward
import LdkModel.Proofs.ForwardHop
import LdkModel.Proofs.ForwardClose
import LdkModel.Proofs.ForwardMulti
import LdkModel.Proofs.ForwardBlinded
import LdkModel.Proofs.RaaBlock
namespace Ldk.C02
open Ldk Ldk.Forward Ldk.FwdGen

/-! ## admission -/

/-- the generated `htlcSatisfiesConfig`, re-read through `requiredFee` -/
theorem satisfies_eq (cfg : FwdCfg) (inAmt inCltv outAmt outCltv : Nat) :
    htlcSatisfiesConfig inAmt inCltv outAmt outCltv cfg.feeProp cfg.feeBase cfg.cltvDelta =
      match requiredFee cfg outAmt with
      | none => .error .feeInsufficient
      | some fee => if inAmt < fee ∨ inAmt - fee < outAmt then .error .feeInsufficient
                    else if inCltv < outCltv + cfg.cltvDelta then .error .incorrectCLTVExpiry else .ok () := by
  unfold htlcSatisfiesConfig
  have : (Option.bind (chkMul64 outAmt cfg.feeProp) fun prop_fee => chkAdd64 (prop_fee / 1000000) cfg.feeBase)
      = requiredFee cfg outAmt := rfl
  simp only [this]
  cases requiredFee cfg outAmt <;> simp

example : htlcSatisfiesConfig 101000 500 100000 400 0 1000 48 = .ok () := by rfl

/-- Exact characterisation of admission (nothing admissible is refused, nothing else is admitted):
    the fee is computable without u64 overflow and fully paid, the configured and the minimum CLTV delta are
    respected, and all three height margins hold. -/
theorem admit_ok_iff (cfg : FwdCfg) (height inAmt inCltv outAmt outCltv : Nat) :
    admitFwd cfg height inAmt inCltv outAmt outCltv = .ok () ↔
      (∃ fee, requiredFee cfg outAmt = some fee ∧ outAmt + fee ≤ inAmt) ∧
      outCltv + cfg.cltvDelta ≤ inCltv ∧ outCltv + MIN_CLTV_EXPIRY_DELTA ≤ inCltv ∧
      height + HTLC_FAIL_BACK_BUFFER < inCltv ∧ inCltv ≤ height + CLTV_FAR_FAR_AWAY ∧
      height + LATENCY_GRACE_PERIOD_BLOCKS < outCltv := by
  unfold admitFwd
  rw [satisfies_eq]
  cases hf : requiredFee cfg outAmt with
  | none => simp
  | some fee =>
    simp only [checkIncomingHtlcCltv]
    by_cases c1 : inAmt < fee ∨ inAmt - fee < outAmt
    · simp only [c1, if_true]; constructor
      · intro h; cases h
      · rintro ⟨⟨f, hf', hle⟩, -⟩; cases hf'; omega
    · simp only [c1, if_false]
      by_cases c2 : inCltv < outCltv + cfg.cltvDelta
      · simp only [c2, if_true]; constructor
        · intro h; cases h
        · rintro ⟨-, h, -⟩; omega
      · simp only [c2, if_false, decide_eq_true_eq]
        have hfee : (∃ f, some fee = some f ∧ outAmt + f ≤ inAmt) := ⟨fee, rfl, by omega⟩
        repeat' split
        all_goals (constructor <;> intro h <;>
          first | cases h; done | omega | (refine ⟨hfee, ?_, ?_, ?_, ?_, ?_⟩ <;> omega) | rfl)

example : admitFwd ⟨1000, 0, 48⟩ 100 101000 500 100000 400 = .ok () := by rfl
example : admitFwd ⟨1000, 0, 48⟩ 100 100999 500 100000 400 = .error .feeInsufficient := by rfl
example : admitFwd ⟨1000, 0, 72⟩ 100 101000 471 100000 400 = .error .incorrectCLTVExpiry := by rfl

/-- **admit_no_loss.** An admitted forward offers downstream no more than what was received upstream less the
    configured fee and CLTV delta, and leaves the timing margins — for all `Nat` inputs. -/
theorem admit_no_loss (cfg : FwdCfg) (height inAmt inCltv outAmt outCltv : Nat)
    (hok : admitFwd cfg height inAmt inCltv outAmt outCltv = .ok ()) :
    (∃ fee, requiredFee cfg outAmt = some fee ∧ outAmt + fee ≤ inAmt) ∧
    outCltv + cfg.cltvDelta ≤ inCltv ∧
    outCltv > height + LATENCY_GRACE_PERIOD_BLOCKS ∧
    inCltv > height + HTLC_FAIL_BACK_BUFFER := by
  obtain ⟨h1, h2, -, h4, -, h6⟩ := (admit_ok_iff ..).mp hok
  exact ⟨h1, h2, h6, h4⟩

example : ∃ cfg h a b c d, admitFwd cfg h a b c d = .ok () := ⟨⟨1000, 100, 48⟩, 100, 101010, 500, 100000, 400, by rfl⟩

/-- **admit_fee_exact.** The fee demanded is exactly `amt·prop/10⁶ + base` when neither the product nor the sum
    overflows u64 (so paying one msat less is refused, paying exactly that is enough as far as the fee goes),
    and any overflow rejects the forward. -/
theorem admit_fee_exact (cfg : FwdCfg) (height inAmt inCltv outAmt outCltv : Nat) :
    (requiredFee cfg outAmt =
      if outAmt * cfg.feeProp < 2 ^ 64 ∧ outAmt * cfg.feeProp / 1000000 + cfg.feeBase < 2 ^ 64
      then some (outAmt * cfg.feeProp / 1000000 + cfg.feeBase) else none) ∧
    (requiredFee cfg outAmt = none → admitFwd cfg height inAmt inCltv outAmt outCltv = .error .feeInsufficient) ∧
    (∀ fee, requiredFee cfg outAmt = some fee →
      (inAmt < outAmt + fee → admitFwd cfg height inAmt inCltv outAmt outCltv = .error .feeInsufficient) ∧
      (outAmt + fee ≤ inAmt → admitFwd cfg height inAmt inCltv outAmt outCltv ≠ .error .feeInsufficient)) := by
  refine ⟨?_, ?_, ?_⟩
  · unfold requiredFee chkMul64 chkAdd64
    by_cases h1 : outAmt * cfg.feeProp < 2 ^ 64 <;>
      by_cases h2 : outAmt * cfg.feeProp / 1000000 + cfg.feeBase < 2 ^ 64 <;> simp [h1, h2]
  · intro h; unfold admitFwd; rw [satisfies_eq, h]
  · intro fee h
    constructor
    · intro hlt; unfold admitFwd; rw [satisfies_eq, h]
      have : inAmt < fee ∨ inAmt - fee < outAmt := by omega
      simp [this]
    · intro hle; unfold admitFwd; rw [satisfies_eq, h]
      have : ¬ (inAmt < fee ∨ inAmt - fee < outAmt) := by omega
      simp only [this, if_false]
      by_cases c2 : inCltv < outCltv + cfg.cltvDelta
      · simp [c2]
      · simp only [c2, if_false, checkIncomingHtlcCltv]
        repeat' split
        all_goals simp

example : requiredFee ⟨1000, 2500, 48⟩ 4000000 = some 11000 := by decide
example : requiredFee ⟨0, 4294967295, 48⟩ 4294967298 = none := by decide
example : requiredFee ⟨0, 4294967295, 48⟩ 4294967297 = some 18446744073709 := by decide

/-! ## the forwarding machine: invariants over all op lists -/

/-- **preimage_durable_before_removal_irrevocable.** Whenever the downstream `revoke_and_ack` monitor update
    that removes a *fulfilled* HTLC has been handed to `chain::Watch` (let alone become durable), the preimage
    is durable in the upstream monitor — on every schedule, with crashes and restarts anywhere.
    (`downRaaUpdate ≠ notYet` only happens after removal, see `raa_only_after_removal`; for an HTLC removed by
    *failure* there is no preimage and nothing to gate.)  The gate is the `blocker` flag
    (`actions_blocking_raa_monitor_updates`): see `blocker_removed_only_when_durable`. -/
theorem preimage_durable_before_removal_irrevocable (ops : List Op) :
    let s := run init ops
    (s.downRaaUpdate = .handedToWatch ∨ s.downRaaUpdate = .durable) → s.down ≠ .removedByFail →
      s.upPreimageDurable = true := by
  intro s hr hd
  have I := inv_reachable ops
  have : s.down = .removedByFulfil := by
    rcases I.raa_removed (by rcases hr with h | h <;> simp [s, h] ) with h | h
    · exact h
    · exact absurd h hd
  exact I.raa_gate this hr

/-- the `RAAMonitorUpdateBlockingAction` registered by `update_fulfill_htlc` is gone only if the upstream preimage
    update is durable (it may stay longer: until ALL in-flight updates of the upstream channel are complete) -/
theorem blocker_removed_only_when_durable (ops : List Op) :
    let s := run init ops
    (s.down = .fulfilSeen ∨ s.down = .removedByFulfil) → s.blocker = false → s.upPreimageDurable = true :=
  (inv_reachable ops).blocker_gate

/-- non-vacuity of "may stay longer": a retransmitted fulfil re-adds the blocker while unrelated upstream updates
    are in flight; the revocation is parked although the preimage is durable, and released when they complete -/
example :
    let s := run init [.setSync false, .recvFulfilDown, .complete .up, .handUpOther, .recvFulfilDown, .recvCsDown,
      .complete .downCs, .recvRaaDown]
    s.upPreimageDurable = true ∧ s.blocker = true ∧ s.downRaaUpdate = .blocked := by decide
example :
    let s := run init [.setSync false, .recvFulfilDown, .complete .up, .handUpOther, .recvFulfilDown, .recvCsDown,
      .complete .downCs, .recvRaaDown, .completeUpOther]
    s.blocker = false ∧ s.downRaaUpdate = .handedToWatch := by decide

theorem raa_only_after_removal (ops : List Op) :
    let s := run init ops
    s.downRaaUpdate ≠ .notYet → (s.down = .removedByFulfil ∨ s.down = .removedByFail) :=
  (inv_reachable ops).raa_removed

/-- non-vacuity: asynchronous persistence, the revocation arrives before the upstream preimage is durable and
    is parked; completing the upstream update releases it. -/
example :
    let s := run init [.setSync false, .recvFulfilDown, .recvCsDown, .complete .downCs, .recvRaaDown]
    s.downRaaUpdate = .blocked ∧ s.upPreimageDurable = false ∧ s.down = .removedByFulfil := by decide
example :
    let s := run init [.setSync false, .recvFulfilDown, .recvCsDown, .complete .downCs, .recvRaaDown, .complete .up]
    s.downRaaUpdate = .handedToWatch ∧ s.upPreimageDurable = true := by decide
/-- ... and a crash that loses the in-flight preimage update in between does not let the revocation through:
    it is released by the restart only together with the replayed, completed preimage update. -/
example :
    let s := run init [.setSync false, .recvFulfilDown, .recvCsDown, .complete .downCs, .recvRaaDown, .crash true]
    s.downRaaUpdate = .blocked ∧ s.upPreimageDurable = false := by decide
example :
    let s := run init [.setSync false, .recvFulfilDown, .recvCsDown, .complete .downCs, .recvRaaDown, .crash true, .restart true]
    s.downRaaUpdate = .durable ∧ s.upPreimageDurable = true := by decide

/-- **claim_replayed.** `restart` recomputes the upstream claim from the DURABLE monitors alone: from every
    crashed state — reachable or not, i.e. whatever the persisted manager remembered of the claim — if a
    durable monitor knows the preimage and the upstream HTLC is still pending, then after the restart the
    upstream preimage update is (again) with `chain::Watch`, and with a synchronous persister it is already
    durable, so `update_fulfill_htlc` upstream is enabled. -/
theorem claim_replayed (s : St) (sy : Bool) (hdead : s.alive = false)
    (hk : durDownKnowsPreimage s = true ∨ durUpKnowsPreimage s = true) (hp : s.up = .pending) :
    let s' := step s (.restart sy)
    s'.alive = true ∧ s'.up = .pending ∧ s'.upPreimageHandedToWatch = true ∧
    (sy = true → fulfilAllowed s' = true) := by
  have hk' : (durDownKnowsPreimage s || durUpKnowsPreimage s) = true := by
    rcases hk with h | h <;> simp [h]
  obtain ⟨a, b, c, d⟩ := restart_replays s sy hdead hk' hp
  exact ⟨a, b, c, fun h => by simpa [fulfilAllowed] using d h⟩

/-- the same on every run of the machine, phrased with the state *after* the restart (as the property reads):
    after any op list ending in a restart of a crashed node, a durable monitor knowing the preimage with the
    upstream still pending means the upstream claim is pending again. -/
theorem claim_replayed_reachable (ops : List Op) (sy : Bool) :
    let s := run init ops
    let s' := step s (.restart sy)
    s.alive = false → (durDownKnowsPreimage s' = true ∨ durUpKnowsPreimage s' = true) → s'.up = .pending →
      s'.upPreimageHandedToWatch = true := by
  intro s s' _ hk _
  have I : Inv s' := inv_step _ _ (inv_reachable ops)
  rcases hk with hk | hk
  · apply I.knows_handed
    simp only [durDownKnowsPreimage, knowsPreimage, Bool.or_eq_true, Bool.and_eq_true] at hk ⊢
    rcases hk with ⟨⟨h, -⟩, -⟩ | h
    · rcases h with h | h
      · exact Or.inl (Or.inl h)
      · exact Or.inl (Or.inr h)
    · exact Or.inr h
  · exact I.dur_handed hk

/-- non-vacuity: the downstream monitor durably holds the preimage (holder-commitment update complete), the
    upstream preimage update was lost in the crash; the restart puts the claim back and completes it. -/
example :
    let s := run init [.setSync false, .recvFulfilDown, .recvCsDown, .complete .downCs, .crash true]
    s.alive = false ∧ durDownKnowsPreimage s = true ∧ s.upPreimageDurable = false ∧ s.up = .pending := by decide
example :
    let s := run init [.setSync false, .recvFulfilDown, .recvCsDown, .complete .downCs, .crash true, .restart true, .sendFulfilUp]
    s.up = .fulfilSent := by decide
/-- ... even from a (hypothetical) persisted manager that forgot the claim entirely -/
example :
    let s : St := { alive := false, sync := false, down := .fulfilSeen, downCsUpdate := .durable }
    (step s (.restart false)).upPreimageHandedToWatch = true := by decide

/-- **fail_only_after_irrevocable.** B has failed the HTLC backwards only if the downstream HTLC was removed by
    failure and the `revoke_and_ack` update that makes this irrevocable is durable, or B's own downstream
    timeout spend is buried by at least `ANTI_REORG_DELAY` confirmations. -/
theorem fail_only_after_irrevocable (ops : List Op) :
    let s := run init ops
    s.up = .failSent →
      (s.down = .removedByFail ∧ s.downRaaUpdate = .durable) ∨
      (s.down = .onchainTimeoutBuried ∧ ANTI_REORG_DELAY ≤ s.timeoutDepth) := by
  intro s h
  have := (inv_reachable ops).fail_sent h
  simpa [failAllowed] using this

example : (run init [.recvFailDown, .recvCsDown, .recvRaaDown, .sendFailUp]).up = .failSent := by decide
/-- the fail is refused while the revocation update is still in flight, and before the revocation -/
example : (run init [.setSync false, .recvFailDown, .recvCsDown, .complete .downCs, .recvRaaDown, .sendFailUp]).up = .pending := by decide
example : (run init [.recvFailDown, .recvCsDown, .sendFailUp]).up = .pending := by decide
example : (run init [.chainTimeout 5, .sendFailUp]).up = .pending := by decide
example : (run init [.chainTimeout 6, .sendFailUp]).up = .failSent := by decide

/-- **never_fulfilled_down_failed_up.** The losing outcome — the next hop has (or can still irrevocably get) the
    downstream amount while B failed the HTLC upstream — is unreachable. -/
theorem never_fulfilled_down_failed_up (ops : List Op) :
    let s := run init ops
    ¬ (s.up = .failSent ∧ downClaimable s = true) := by
  intro s ⟨h, hc⟩
  rcases fail_only_after_irrevocable ops h with ⟨hd, -⟩ | ⟨hd, -⟩ <;>
    simp [downClaimable, s, hd] at hc

/-- the converse direction of the property: B never *fulfils* upstream before the preimage is durable upstream,
    and whenever B (alive) has learned the preimage with the upstream still pending, completing the upstream
    preimage update enables and `sendFulfilUp` performs the upstream claim. -/
theorem learned_preimage_claims (ops : List Op) :
    let s := run init ops
    (s.up = .fulfilSent → s.upPreimageDurable = true) ∧
    (s.alive = true → knowsPreimage s = true → s.up = .pending →
      (run s [.complete .up, .sendFulfilUp]).up = .fulfilSent) := by
  intro s
  have I := inv_reachable ops
  refine ⟨I.fulfil_sent, ?_⟩
  intro ha hk hp
  exact claim_after_complete _ ha (I.knows_handed hk) hp

example : (run init [.chainPreimage, .sendFulfilUp]).up = .fulfilSent := by decide
example : (run init [.setSync false, .chainPreimage, .sendFulfilUp]).up = .pending := by decide

/-- **forward_no_loss.** For an admitted forward, in every reachable state in which B has acted upstream, B's
    worst-case combined balance change is non-negative; it is at least the demanded fee whenever B fulfilled
    upstream, and exactly `inAmt − outAmt` (the fee the sender paid) when the next hop claims. -/
theorem forward_no_loss (cfg : FwdCfg) (height inAmt inCltv outAmt outCltv : Nat)
    (hok : admitFwd cfg height inAmt inCltv outAmt outCltv = .ok ()) (ops : List Op) :
    let s := run init ops
    s.up ≠ .pending →
      0 ≤ deltaWorst inAmt outAmt s ∧
      (s.up = .fulfilSent → ∃ fee, requiredFee cfg outAmt = some fee ∧ (fee : Int) ≤ deltaWorst inAmt outAmt s) ∧
      (s.up = .fulfilSent → downClaimable s = true → deltaWorst inAmt outAmt s = (inAmt : Int) - outAmt) := by
  intro s hne
  obtain ⟨⟨fee, hfee, hle⟩, -⟩ := admit_no_loss cfg height inAmt inCltv outAmt outCltv hok
  have hnl := never_fulfilled_down_failed_up ops
  cases hu : s.up with
  | pending => exact absurd hu hne
  | failSent =>
    have hc : downClaimable s = false := by
      cases h : downClaimable s
      · rfl
      · exact absurd ⟨hu, h⟩ hnl
    simp [deltaWorst, hu, hc]
  | fulfilSent =>
    refine ⟨?_, fun _ => ⟨fee, hfee, ?_⟩, ?_⟩
    · cases hc : downClaimable s <;> simp [deltaWorst, hu, hc] <;> omega
    · cases hc : downClaimable s <;> simp [deltaWorst, hu, hc] <;> omega
    · intro _ hc; simp [deltaWorst, hu, hc]

/-- non-vacuity: the success path earns exactly the fee, the failure path costs nothing -/
example :
    let s := run init [.recvFulfilDown, .sendFulfilUp, .recvCsDown, .recvRaaDown]
    s.up = .fulfilSent ∧ s.down = .removedByFulfil ∧ deltaWorst 101000 100000 s = 1000 := by decide
example :
    let s := run init [.recvFailDown, .recvCsDown, .recvRaaDown, .sendFailUp]
    s.up = .failSent ∧ deltaWorst 101000 100000 s = 0 := by decide

/-! ## admission for every next-hop kind (real channel, phantom SCID, intercept SCID, unknown SCID) -/

/-- **unknown_scid_arm_exact.** Exact characterisation of the `None =>` arm of can_forward_htlc_should_intercept
    (generated `cfsiUnknown`; the outgoing SCID is not one of our channels): the forward payload asks for no more
    than the HTLC carries and grants at least `MIN_CLTV_EXPIRY_DELTA`, and the SCID is a phantom SCID (not
    intercepted) or one the interception flags cover (intercepted) -/
theorem unknown_scid_arm_exact (fl : Nat) (isI isP : Bool) (ia ic oa oc : Nat) (b : Bool) :
    cfsiUnknown fl isI isP ia ic oa oc = .ok b ↔
      oa ≤ ia ∧ oc + MIN_CLTV_EXPIRY_DELTA ≤ ic ∧
      ((isP = true ∧ b = false) ∨ (isP = false ∧ forwardNeedsInterceptToUnknownChan fl isI isP = true ∧ b = true)) := by
  have hmin : 0 < MIN_CLTV_EXPIRY_DELTA := by decide
  unfold cfsiUnknown
  by_cases c1 : oa > ia
  · simp only [c1, decide_true, if_true]; constructor
    · intro h; cases h
    · intro h; omega
  · simp only [c1, decide_false, Bool.false_eq_true, if_false]
    by_cases c2 : ic - oc < MIN_CLTV_EXPIRY_DELTA
    · simp only [c2, decide_true, if_true]; constructor
      · intro h; cases h
      · intro h; omega
    · simp only [c2, decide_false, Bool.false_eq_true, if_false]
      have h1 : oa ≤ ia := by omega
      have h2 : oc + MIN_CLTV_EXPIRY_DELTA ≤ ic := by omega
      cases isP with
      | true =>
        cases b <;> simp [h1, h2]
      | false =>
        cases hn : forwardNeedsInterceptToUnknownChan fl isI false <;> cases b <;> simp [h1, h2]

/-- **unknown_scid_arm_no_loss.** Proved directly on the translated `None =>` arm: whatever the interception flags and
    the namespace of the SCID, an HTLC is let through (to be intercepted, or to our phantom node) only if the forward
    payload asks for no more than the HTLC carries and grants at least `MIN_CLTV_EXPIRY_DELTA`. -/
theorem unknown_scid_arm_no_loss (fl : Nat) (isI isP : Bool) (ia ic oa oc : Nat) (b : Bool)
    (hok : cfsiUnknown fl isI isP ia ic oa oc = .ok b) : oa ≤ ia ∧ oc + MIN_CLTV_EXPIRY_DELTA ≤ ic :=
  let ⟨h1, h2, _⟩ := (unknown_scid_arm_exact fl isI isP ia ic oa oc b).mp hok
  ⟨h1, h2⟩

example : cfsiUnknown FLAG_ToInterceptSCIDs true false 100000 500 100000 452 = .ok true := by rfl
example : cfsiUnknown FLAG_ToInterceptSCIDs true false 100000 500 100001 452 = .error .feeInsufficient := by rfl
example : cfsiUnknown FLAG_ToUnknownSCIDs false false 1 500 1000000 452 = .error .feeInsufficient := by rfl
example : cfsiUnknown 0 false true 100000 500 100001 452 = .error .feeInsufficient := by rfl

/-- **hop_offer_bounded.** Whatever the onion's outgoing SCID resolves to, for all inbound amounts / expiries, onion
    amounts / expiries, node settings, interception flags and channel views: if the node offers an HTLC downstream —
    directly, or by releasing an intercepted HTLC at its `expected_outbound_amount_msat` — then it offers exactly what
    the onion asked for, never more than the inbound HTLC carries, with an expiry at least `MIN_CLTV_EXPIRY_DELTA`
    before the inbound expiry, and with the height margins of `check_incoming_htlc_cltv`. -/
theorem hop_offer_bounded (n : NodeCfg) (best : Nat) (hop : NextHop) (h : Htlc) (a c : Nat)
    (ho : downstreamOffer (outcome n best hop h) = some (a, c)) :
    a = h.outAmt ∧ c = h.outCltv ∧ a ≤ h.inAmt ∧ c + MIN_CLTV_EXPIRY_DELTA ≤ h.inCltv ∧
    curHeight best + LATENCY_GRACE_PERIOD_BLOCKS < c ∧ curHeight best + HTLC_FAIL_BACK_BUFFER < h.inCltv := by
  unfold outcome at ho
  cases hadm : admitHop n best hop h with
  | error r => simp [hadm, downstreamOffer] at ho
  | ok i =>
    simp only [hadm, fwdPendingInfo, interceptedEvent] at ho
    -- the amount bound of the arm that ran
    have hamt : h.outAmt ≤ h.inAmt ∧ checkIncomingHtlcCltv (curHeight best) h.outCltv h.inCltv MIN_CLTV_EXPIRY_DELTA = .ok () := by
      cases hop with
      | chan cv =>
        obtain ⟨ht, hk⟩ := admitHop_chan_ok hadm
        obtain ⟨-, hto⟩ := known_ok hk
        obtain ⟨hs, -⟩ := to_outgoing_ok hto
        obtain ⟨cfg, -, hs'⟩ := chan_satisfies_ok hs
        obtain ⟨fee, -, hle, -⟩ := satisfies_ok hs'
        exact ⟨by omega, ht⟩
      | phantom | interceptScid | unknown =>
        obtain ⟨ht, hu⟩ := admitHop_nonchan_ok rfl hadm
        exact ⟨((unknown_scid_arm_exact ..).mp hu).1, ht⟩
    obtain ⟨hle, ht⟩ := hamt
    obtain ⟨t1, t2, -, t4⟩ := (cltv_ok_iff ..).mp ht
    have fin : ∀ a c, (a, c) = (h.outAmt, h.outCltv) →
        a = h.outAmt ∧ c = h.outCltv ∧ a ≤ h.inAmt ∧ c + MIN_CLTV_EXPIRY_DELTA ≤ h.inCltv ∧
        curHeight best + LATENCY_GRACE_PERIOD_BLOCKS < c ∧ curHeight best + HTLC_FAIL_BACK_BUFFER < h.inCltv := by
      intro a c e; injection e with e1 e2; subst e1; subst e2; exact ⟨rfl, rfl, hle, t1, t4, t2⟩
    cases i with
    | true =>
      simp only [if_true, downstreamOffer, releaseIntercepted, forwardIntercepted, Option.some.injEq] at ho
      exact fin a c ho.symm
    | false =>
      cases hop with
      | chan cv =>
        simp only [Bool.false_eq_true, if_false, downstreamOffer, Option.some.injEq] at ho
        exact fin a c ho.symm
      | phantom =>
        simp only [Bool.false_eq_true, if_false] at ho
        cases hfin : finalExpiryTooSoon best h.outCltv <;> simp [hfin, downstreamOffer] at ho
      | interceptScid | unknown => simp [downstreamOffer] at ho

/-- **hop_chan_fee_and_delta.** A forward over one of our channels — intercepted or not — pays the fee and grants
    the CLTV delta of a `ChannelConfig` the channel advertises (the current one, or `prev_config`), reaches the
    counterparty's `htlc_minimum_msat`, uses a private channel only if `accept_forwards_to_priv_channels`, and
    uses a channel that is not live only through an intercept. -/
theorem hop_chan_fee_and_delta (n : NodeCfg) (best : Nat) (cv : ChanView) (h : Htlc) (a c : Nat)
    (ho : downstreamOffer (outcome n best (.chan cv) h) = some (a, c)) :
    (∃ cfg, cv.accepts cfg ∧ (∃ fee, cfg.fee a = some fee ∧ a + fee ≤ h.inAmt) ∧ c + cfg.cltvDelta ≤ h.inCltv) ∧
    cv.cpHtlcMin ≤ a ∧ (cv.announce = true ∨ n.acceptPriv = true) ∧
    (cv.live = true ∨ ∃ i e x, outcome n best (.chan cv) h = .intercepted i e x) ∧
    (cv.scidPrivacy = true → h.scid = cv.scidAlias) := by
  obtain ⟨ea, ec, -⟩ := hop_offer_bounded n best (.chan cv) h a c ho
  subst ea; subst ec
  unfold outcome at ho ⊢
  cases hadm : admitHop n best (.chan cv) h with
  | error r => simp [hadm, downstreamOffer] at ho
  | ok i =>
    obtain ⟨-, hk⟩ := admitHop_chan_ok hadm
    obtain ⟨-, hto⟩ := known_ok hk
    obtain ⟨hs, hmin, hpriv, hlive, halias⟩ := to_outgoing_ok hto
    obtain ⟨cfg, hacc, hs'⟩ := chan_satisfies_ok hs
    obtain ⟨fee, hfee, hle, hd⟩ := satisfies_ok hs'
    refine ⟨⟨cfg, hacc, ⟨fee, hfee, hle⟩, hd⟩, hmin, hpriv, ?_, halias⟩
    rcases hlive with hi | hl
    · subst hi
      exact Or.inr ⟨h.inAmt, h.outAmt, h.outCltv, by simp [fwdPendingInfo, interceptedEvent]⟩
    · exact Or.inl hl

/-- non-vacuity: a plain forward, a forward accepted only under `prev_config`, an intercept to an offline private
    channel, and the rejections next to them -/
example : outcome ⟨0, false⟩ 100 (.chan ⟨true, true, true, true, false, 7, 1000, ⟨0, 1000, 72⟩, none⟩) ⟨true, 42, 101000, 500, 100000, 428⟩
    = .forward 100000 428 := by decide
example : outcome ⟨0, false⟩ 100 (.chan ⟨true, true, true, true, false, 7, 1000, ⟨0, 1000, 72⟩, none⟩) ⟨true, 42, 100999, 500, 100000, 428⟩
    = .reject .feeInsufficient := by decide
example : outcome ⟨0, false⟩ 100 (.chan ⟨true, true, true, true, false, 7, 1000, ⟨0, 2000, 72⟩, some ⟨0, 1000, 72⟩⟩) ⟨true, 42, 101000, 500, 100000, 428⟩
    = .forward 100000 428 := by decide
example : outcome ⟨0, false⟩ 100 (.chan ⟨true, true, true, true, false, 7, 1000, ⟨0, 1000, 72⟩, none⟩) ⟨true, 42, 101000, 500, 999, 428⟩
    = .reject .amountBelowMinimum := by decide
example : outcome ⟨0, false⟩ 100 (.chan ⟨false, true, true, true, false, 7, 1000, ⟨0, 1000, 72⟩, none⟩) ⟨true, 42, 101000, 500, 100000, 428⟩
    = .reject .privateChannelForward := by decide
example : outcome ⟨0, true⟩ 100 (.chan ⟨false, false, true, false, false, 7, 1000, ⟨0, 1000, 72⟩, none⟩) ⟨true, 42, 101000, 500, 100000, 428⟩
    = .reject .peerOffline := by decide
example : outcome ⟨FLAG_ToOfflinePrivateChannels, true⟩ 100 (.chan ⟨false, false, true, false, false, 7, 1000, ⟨0, 1000, 72⟩, none⟩) ⟨true, 42, 101000, 500, 100000, 428⟩
    = .intercepted 101000 100000 428 := by decide

/-- **hop_intercept_event_sound.** Every `HTLCIntercepted` event — towards a known channel, an intercept SCID or an
    unknown SCID — reports the inbound amount truthfully and an `expected_outbound_amount_msat` that does not exceed
    it, with an outgoing expiry at least `MIN_CLTV_EXPIRY_DELTA` before the inbound one.  Releasing it with
    `forward_intercepted_htlc(.., amt)` offers exactly `amt` at that expiry (LDK does not second-guess the caller):
    the node cannot lose on the HTLC exactly when `amt ≤ inbound_amount_msat`, which `amt ≤ expected` guarantees. -/
theorem hop_intercept_event_sound (n : NodeCfg) (best : Nat) (hop : NextHop) (h : Htlc) (i e x : Nat)
    (ho : outcome n best hop h = .intercepted i e x) :
    i = h.inAmt ∧ e = h.outAmt ∧ x = h.outCltv ∧ e ≤ i ∧ x + MIN_CLTV_EXPIRY_DELTA ≤ h.inCltv ∧
    (∀ amt, releaseIntercepted (outcome n best hop h) amt = some (amt, x)) ∧
    (∀ amt, amt ≤ e → amt ≤ h.inAmt) := by
  have hoff : downstreamOffer (outcome n best hop h) = some (e, x) := by
    simp [ho, downstreamOffer, releaseIntercepted, forwardIntercepted]
  obtain ⟨e1, e2, hle, hc, -⟩ := hop_offer_bounded n best hop h e x hoff
  have hi : i = h.inAmt := by
    unfold outcome at ho
    cases hadm : admitHop n best hop h with
    | error r => simp [hadm] at ho
    | ok b =>
      simp only [hadm, fwdPendingInfo, interceptedEvent] at ho
      cases b with
      | true => simp only [if_true, Outcome.intercepted.injEq] at ho; exact ho.1.symm
      | false =>
        simp only [Bool.false_eq_true, if_false] at ho
        cases hop <;> simp at ho
        cases hfin : finalExpiryTooSoon best h.outCltv <;> simp [hfin] at ho
  refine ⟨hi, e1, e2, by omega, hc, ?_, ?_⟩
  · intro amt; simp [ho, releaseIntercepted, forwardIntercepted]
  · intro amt hamt; omega

/-- non-vacuity: intercept SCID and unknown SCID, the onion asking for less than / exactly / one msat more than
    the HTLC carries -/
example : outcome ⟨FLAG_ToInterceptSCIDs, false⟩ 100 .interceptScid ⟨true, 42, 100000, 500, 99000, 452⟩ = .intercepted 100000 99000 452 := by decide
example : outcome ⟨FLAG_ToInterceptSCIDs, false⟩ 100 .interceptScid ⟨true, 42, 100000, 500, 100000, 452⟩ = .intercepted 100000 100000 452 := by decide
example : outcome ⟨FLAG_ToInterceptSCIDs, false⟩ 100 .interceptScid ⟨true, 42, 100000, 500, 100001, 452⟩ = .reject .feeInsufficient := by decide
example : outcome ⟨FLAG_ToUnknownSCIDs, false⟩ 100 .unknown ⟨true, 42, 100000, 500, 150000, 452⟩ = .reject .feeInsufficient := by decide
example : outcome ⟨FLAG_ToUnknownSCIDs, false⟩ 100 .unknown ⟨true, 42, 100000, 500, 100000, 453⟩ = .reject .incorrectCLTVExpiry := by decide
example : outcome ⟨FLAG_ToUnknownSCIDs, false⟩ 100 .unknown ⟨true, 42, 100000, 500, 100000, 452⟩ = .intercepted 100000 100000 452 := by decide

/-- **hop_phantom_credit_bounded.** An HTLC to one of our phantom SCIDs that reaches the receive pipeline is credited
    with exactly what the forward payload named, never more than the inbound HTLC carries, and is far enough from
    expiry to be claimed (`HTLC_FAIL_BACK_BUFFER + 1` blocks). -/
theorem hop_phantom_credit_bounded (n : NodeCfg) (best : Nat) (h : Htlc) (a c : Nat)
    (ho : outcome n best .phantom h = .phantomRecv a c) :
    a = h.outAmt ∧ c = h.outCltv ∧ a ≤ h.inAmt ∧ c + MIN_CLTV_EXPIRY_DELTA ≤ h.inCltv ∧
    best + HTLC_FAIL_BACK_BUFFER + 1 < c := by
  unfold outcome at ho
  cases hadm : admitHop n best .phantom h with
  | error r => simp [hadm] at ho
  | ok b =>
    obtain ⟨ht, hu⟩ := admitHop_nonchan_ok rfl hadm
    obtain ⟨hle, hd, -⟩ := (unknown_scid_arm_exact ..).mp hu
    simp only [hadm, fwdPendingInfo, interceptedEvent] at ho
    cases b with
    | true => simp at ho
    | false =>
      simp only [Bool.false_eq_true, if_false] at ho
      cases hfin : finalExpiryTooSoon best h.outCltv with
      | true => simp [hfin] at ho
      | false =>
        simp only [hfin, Outcome.phantomRecv.injEq] at ho
        obtain ⟨e1, e2⟩ := ho
        subst e1; subst e2
        simp only [finalExpiryTooSoon, decide_eq_false_iff_not] at hfin
        exact ⟨rfl, rfl, hle, hd, by omega⟩

example : outcome ⟨0, false⟩ 100 .phantom ⟨true, 42, 100000, 500, 100000, 452⟩ = .phantomRecv 100000 452 := by decide
example : outcome ⟨0, false⟩ 100 .phantom ⟨true, 42, 100000, 500, 100001, 452⟩ = .reject .feeInsufficient := by decide
example : outcome ⟨0, false⟩ 100 .phantom ⟨true, 42, 100000, 188, 100000, 140⟩ = .reject .paymentClaimBuffer := by decide
example : outcome ⟨0, false⟩ 100 .phantom ⟨true, 42, 100000, 189, 100000, 141⟩ = .phantomRecv 100000 141 := by decide

/-- **admit_nonchan_ok_iff.** Exact characterisation of admission when the SCID is not one of our channels (nothing
    admissible is refused, nothing else is admitted): the forward payload asks for no more than the HTLC carries,
    grants at least `MIN_CLTV_EXPIRY_DELTA`, the height margins hold, and the SCID is a phantom SCID (handled as a
    receive, never intercepted) or is covered by the interception flags (`ToInterceptSCIDs` for an intercept SCID,
    `ToUnknownSCIDs` for any other). -/
theorem admit_nonchan_ok_iff (n : NodeCfg) (best : Nat) (hop : NextHop) (h : Htlc) (b : Bool) (hc : hop.chan? = none) :
    admitHop n best hop h = .ok b ↔
      h.outAmt ≤ h.inAmt ∧ h.outCltv + MIN_CLTV_EXPIRY_DELTA ≤ h.inCltv ∧
      curHeight best + HTLC_FAIL_BACK_BUFFER < h.inCltv ∧ h.inCltv ≤ curHeight best + CLTV_FAR_FAR_AWAY ∧
      curHeight best + LATENCY_GRACE_PERIOD_BLOCKS < h.outCltv ∧
      ((hop = .phantom ∧ b = false) ∨
       (hop = .interceptScid ∧ Nat.land n.interceptFlags FLAG_ToInterceptSCIDs ≠ 0 ∧ b = true) ∨
       (hop = .unknown ∧ Nat.land n.interceptFlags FLAG_ToUnknownSCIDs ≠ 0 ∧ b = true)) := by
  have key : admitHop n best hop h = .ok b ↔
      cfsiUnknown n.interceptFlags hop.isIntercept hop.isPhantom h.inAmt h.inCltv h.outAmt h.outCltv = .ok b ∧
      checkIncomingHtlcCltv (curHeight best) h.outCltv h.inCltv MIN_CLTV_EXPIRY_DELTA = .ok () := by
    constructor
    · intro hok; obtain ⟨a1, a2⟩ := admitHop_nonchan_ok hc hok; exact ⟨a2, a1⟩
    · rintro ⟨hu, ht⟩
      unfold admitHop canForwardHtlcShouldIntercept
      simp only [hc, hu]
      exact (tail_ok_iff _ _ _ _ _).mpr ⟨rfl, ht⟩
  rw [key, unknown_scid_arm_exact, cltv_ok_iff]
  cases hop with
  | chan cv => simp [NextHop.chan?] at hc
  | phantom =>
    simp [NextHop.isPhantom, NextHop.isIntercept]
    constructor
    · rintro ⟨⟨a1, a2, a3⟩, -, b2, b3, b4⟩; exact ⟨a1, a2, b2, b3, b4, a3⟩
    · rintro ⟨a1, a2, b2, b3, b4, a3⟩; exact ⟨⟨a1, a2, a3⟩, a2, b2, b3, b4⟩
  | interceptScid =>
    simp [NextHop.isPhantom, NextHop.isIntercept, forwardNeedsInterceptToUnknownChan]
    constructor
    · rintro ⟨⟨a1, a2, a3⟩, -, b2, b3, b4⟩; exact ⟨a1, a2, b2, b3, b4, a3⟩
    · rintro ⟨a1, a2, b2, b3, b4, a3⟩; exact ⟨⟨a1, a2, a3⟩, a2, b2, b3, b4⟩
  | unknown =>
    simp [NextHop.isPhantom, NextHop.isIntercept, forwardNeedsInterceptToUnknownChan]
    constructor
    · rintro ⟨⟨a1, a2, a3⟩, -, b2, b3, b4⟩; exact ⟨a1, a2, b2, b3, b4, a3⟩
    · rintro ⟨a1, a2, b2, b3, b4, a3⟩; exact ⟨⟨a1, a2, a3⟩, a2, b2, b3, b4⟩

/-- **hop_unknown_rejected.** An HTLC whose outgoing SCID is neither one of our channels nor a phantom SCID is never
    forwarded and never credited; it is failed back unless the interception flags cover it, and an HTLC to an
    unknown SCID with `ToUnknownSCIDs` clear (an intercept SCID with `ToInterceptSCIDs` clear) is always failed back. -/
theorem hop_unknown_rejected (n : NodeCfg) (best : Nat) (hop : NextHop) (h : Htlc)
    (hk : hop = .unknown ∨ hop = .interceptScid) :
    (∀ a c, outcome n best hop h ≠ .forward a c ∧ outcome n best hop h ≠ .phantomRecv a c) ∧
    ((hop = .unknown → Nat.land n.interceptFlags FLAG_ToUnknownSCIDs = 0 → ∃ r, outcome n best hop h = .reject r) ∧
     (hop = .interceptScid → Nat.land n.interceptFlags FLAG_ToInterceptSCIDs = 0 → ∃ r, outcome n best hop h = .reject r)) := by
  have hc : hop.chan? = none := by rcases hk with rfl | rfl <;> rfl
  have hshape : ∀ b, admitHop n best hop h = .ok b →
      outcome n best hop h = (if b then .intercepted h.inAmt h.outAmt h.outCltv else .reject .unknownNextPeer) := by
    intro b hb
    unfold outcome
    rcases hk with rfl | rfl <;> cases b <;> simp [hb, fwdPendingInfo, interceptedEvent]
  have hrej : (∀ b, admitHop n best hop h = .ok b → b = false) → ∃ r, outcome n best hop h = .reject r := by
    intro hf
    cases hadm : admitHop n best hop h with
    | error r => exact ⟨r, by simp [outcome, hadm]⟩
    | ok b => have := hf b hadm; subst this; exact ⟨_, by simpa using hshape false hadm⟩
  refine ⟨?_, ?_, ?_⟩
  · intro a c
    cases hadm : admitHop n best hop h with
    | error r => simp [outcome, hadm]
    | ok b => rw [hshape b hadm]; cases b <;> simp
  · intro hu hz
    apply hrej
    intro b hb
    have := (admit_nonchan_ok_iff n best hop h b hc).mp hb
    obtain ⟨-, -, -, -, -, hcase⟩ := this
    subst hu
    rcases hcase with ⟨hf, -⟩ | ⟨hf, -⟩ | ⟨-, hnz, -⟩
    · cases hf
    · cases hf
    · exact absurd hz hnz
  · intro hu hz
    apply hrej
    intro b hb
    have := (admit_nonchan_ok_iff n best hop h b hc).mp hb
    obtain ⟨-, -, -, -, -, hcase⟩ := this
    subst hu
    rcases hcase with ⟨hf, -⟩ | ⟨-, hnz, -⟩ | ⟨hf, -⟩
    · cases hf
    · exact absurd hz hnz
    · cases hf

example : outcome ⟨0, false⟩ 100 .unknown ⟨true, 42, 100000, 500, 99000, 452⟩ = .reject .unknownNextPeer := by decide
example : outcome ⟨FLAG_ToUnknownSCIDs, false⟩ 100 .interceptScid ⟨true, 42, 100000, 500, 99000, 452⟩ = .reject .unknownNextPeer := by decide
example : outcome ⟨FLAG_ToInterceptSCIDs, false⟩ 100 .unknown ⟨true, 42, 100000, 500, 99000, 452⟩ = .reject .unknownNextPeer := by decide

/-- **admitFwd_is_admitHop.** The plain-channel admission `admitFwd` of the first section is the general decision
    specialised to an announced, live channel without `scid_privacy`, without a previous config, whose
    counterparty minimum is met: same acceptance, same failure reason. -/
theorem admitFwd_is_admitHop (n : NodeCfg) (best : Nat) (cv : ChanView) (h : Htlc)
    (ha : cv.announce = true) (hl : cv.live = true) (hs : cv.scidPrivacy = false) (hp : cv.prev = none)
    (hm : cv.cpHtlcMin ≤ h.outAmt) :
    (admitHop n best (.chan cv) h).map (fun _ => ()) =
      admitFwd ⟨cv.cfg.feeBase, cv.cfg.feeProp, cv.cfg.cltvDelta⟩ (curHeight best) h.inAmt h.inCltv h.outAmt h.outCltv := by
  have hm' : ¬ h.outAmt < cv.cpHtlcMin := by omega
  unfold admitHop canForwardHtlcShouldIntercept admitFwd cfsiKnown canForwardHtlcToOutgoingChannel htlcSatisfiesConfigChan cfsiTail
  simp only [NextHop.chan?, ha, hl, hs, hp, hm', Bool.not_true, Bool.false_and, Bool.and_false, Bool.false_eq_true, if_false, if_true,
    decide_false]
  cases h1 : htlcSatisfiesConfig h.inAmt h.inCltv h.outAmt h.outCltv cv.cfg.feeProp cv.cfg.feeBase cv.cfg.cltvDelta with
  | error e => rfl
  | ok u =>
    cases h2 : checkIncomingHtlcCltv (curHeight best) h.outCltv h.inCltv MIN_CLTV_EXPIRY_DELTA with
    | error e => rfl
    | ok u2 => cases u2; rfl

/-- **hop_forward_no_loss.** For every next-hop kind and every downstream offer the admission lets through
    (including an intercepted HTLC released at its expected amount), on every schedule of the forwarding machine —
    crashes, restarts, asynchronous persistence, on-chain resolution — the node's worst-case combined balance change
    is non-negative once it has acted upstream, and equals `inbound − offered` when the next hop claims. -/
theorem hop_forward_no_loss (n : NodeCfg) (best : Nat) (hop : NextHop) (h : Htlc) (a c : Nat)
    (ho : downstreamOffer (outcome n best hop h) = some (a, c)) (ops : List Op) :
    let s := run init ops
    s.up ≠ .pending →
      0 ≤ deltaWorst h.inAmt a s ∧
      (s.up = .fulfilSent → downClaimable s = true → deltaWorst h.inAmt a s = (h.inAmt : Int) - a) := by
  intro s hne
  obtain ⟨-, -, hle, -⟩ := hop_offer_bounded n best hop h a c ho
  have hnl := never_fulfilled_down_failed_up ops
  cases hu : s.up with
  | pending => exact absurd hu hne
  | failSent =>
    have hc : downClaimable s = false := by
      cases hd : downClaimable s
      · rfl
      · exact absurd ⟨hu, hd⟩ hnl
    simp [deltaWorst, hu, hc]
  | fulfilSent =>
    refine ⟨?_, ?_⟩
    · cases hc : downClaimable s <;> simp [deltaWorst, hu, hc] <;> omega
    · intro _ hc; simp [deltaWorst, hu, hc]

/-! ## force-closing the outbound channel: which forwarded HTLCs may be failed backwards at once

`FwdClose.step` follows ONE outbound HTLC of the forwarding node through the commitment dance of the outbound channel
(state rewrites from the generated tables of Generated/HtlcTables.lean) and records which commitment transactions list it.
`forceClose` applies the selection of `ChannelContext::force_shutdown` as TRANSLATED from the source
(Generated/ForceClose.lean: `forceShutdownConsiders` is the head condition of its `'htlc_iter` loop). -/

/-- **forceclose_selection_is_never_sent.** For EVERY `OutboundHTLCState` and every content of `blocked_monitor_updates`,
    `force_shutdown` hands an HTLC back for immediate backwards failure exactly when it never left the node: it sits in the
    holding cell, or it is `LocalAnnounced` and the one commitment that lists it is still held. -/
theorem forceclose_selection_is_never_sent (s : FwdClose.St) : FwdClose.dropDecision s = FwdClose.neverSent s := by
  unfold FwdClose.dropDecision FwdClose.neverSent
  cases hp : s.phase with
  | notYet => rfl
  | holdingCell => rfl
  | gone => rfl
  | pending st =>
    cases st <;> simp [FcGen.forceShutdownDropsPending, FcGen.forceShutdownConsiders] <;> cases s.held <;> simp

/-- **forceclose_considers_no_signed_view.** Both commitment views, all states: a state `force_shutdown` considers for
    immediate fail-back is in no commitment the counterparty has signed for us (`included_in_commitment(false)`, our holder
    transaction), carries no preimage, and is rewritten by the counterparty's next `revoke_and_ack` — i.e. it is the state of
    an HTLC the counterparty has not yet irrevocably committed to. -/
theorem forceclose_considers_no_signed_view (st : Chan.OutState) (h : FcGen.forceShutdownConsiders st = true) :
    st.included false = false ∧ st.hasPreimage = false ∧ st.included true = true ∧
    FwdClose.raaRewrite (.pending st) = .pending .committed := by
  cases st <;> simp [FcGen.forceShutdownConsiders] at h <;>
    simp [Chan.OutState.included, Chan.OutState.hasPreimage, FwdClose.raaRewrite]

/-- **forceclose_failback_only_never_signed.** On every run of the commitment dance — any interleaving of B's commitments
    (released or held behind an RAA blocker), C's `revoke_and_ack`s, removals and `commitment_signed`s — an HTLC that
    `force_shutdown` fails backwards at once is in NO commitment transaction the next hop can get confirmed: neither its
    latest nor its previous unrevoked commitment (a held commitment was never signed over to it), nor the commitment B
    itself broadcasts.  So the upstream fail-back never precedes the point where the next hop can no longer claim. -/
theorem forceclose_failback_only_never_signed (ops : List FwdClose.Op) :
    let s := FwdClose.run FwdClose.init ops
    s.dropped = true → FwdClose.downstreamCanClaim s = false ∧ s.cpLatest = false ∧ s.cpPrev ≠ some true ∧ s.holder = false := by
  intro s h
  have k := (FwdClose.inv_reachable forceclose_selection_is_never_sent ops).key h
  refine ⟨k, ?_⟩
  simp only [FwdClose.downstreamCanClaim, Bool.or_eq_false_iff, beq_eq_false_iff_ne, ne_eq] at k
  exact ⟨k.1.1, k.1.2, k.2⟩

/-- **forceclose_keeps_committed.** The contrapositive, as the property reads: whenever the next hop can still claim the HTLC
    from a commitment it holds (or from the one B broadcasts), force-closing does not fail it backwards; it is left to the
    `ChannelMonitor` (on-chain preimage / timeout, `fail_only_after_irrevocable`). -/
theorem forceclose_keeps_committed (ops : List FwdClose.Op) :
    let s := FwdClose.run FwdClose.init ops
    s.closed = false → FwdClose.downstreamCanClaim s = true → (FwdClose.step s .forceClose).dropped = false := by
  intro s hc hd
  have I := FwdClose.inv_reachable forceclose_selection_is_never_sent ops
  have e : (FwdClose.step s .forceClose).dropped = FwdClose.dropDecision s := by simp [FwdClose.step, hc]
  rw [e, forceclose_selection_is_never_sent]
  cases hn : FwdClose.neverSent s
  · rfl
  · have := FwdClose.neverSent_cannot_claim I hn
    exact absurd (hd.symm.trans this) (by decide)

/-- **forceclose_fails_back_what_never_left.** Conversely an HTLC that never left the node IS failed backwards by the
    force-close (the `ChannelMonitor` does not know it, nobody else would ever resolve it). -/
theorem forceclose_fails_back_what_never_left (s : FwdClose.St) (hc : s.closed = false) (hn : FwdClose.neverSent s = true) :
    (FwdClose.step s .forceClose).dropped = true := by
  have e : (FwdClose.step s .forceClose).dropped = FwdClose.dropDecision s := by simp [FwdClose.step, hc]
  rw [e, forceclose_selection_is_never_sent, hn]

/-- **forceclose_observation_consistent.** What the harness reads off the real nodes at the instant of the close (the
    reported HTLC state, whether its `update_add_htlc` was ever released, whether C's latest commitment / B's broadcast
    commitment contains it) is constrained by the model: `Seen.consistent` holds in every reachable state. -/
theorem forceclose_observation_consistent (ops : List FwdClose.Op) (cHas bHas : Bool) :
    let s := FwdClose.run FwdClose.init ops
    (cHas = true → s.cpLatest = true ∨ s.cpPrev = some true) → (bHas = true → s.holder = true) →
    (s.phase = .holdingCell → FwdClose.Seen.consistent .holdingCell (!FwdClose.neverSent s) cHas bHas = true) ∧
    (s.phase = .pending .localAnnounced → FwdClose.Seen.consistent .awaitingRemoteRevokeToAdd (!FwdClose.neverSent s) cHas bHas = true) := by
  intro s hcH hbH
  have I := FwdClose.inv_reachable forceclose_selection_is_never_sent ops
  constructor
  · intro hp
    obtain ⟨u1, u2, u3, -⟩ := I.unsent (Or.inr hp)
    have c0 : cHas = false := by
      cases cHas
      · rfl
      · rcases hcH rfl with h | h
        · exact absurd (u1.symm.trans h) (by decide)
        · exact absurd h u2
    have b0 : bHas = false := by
      cases bHas
      · rfl
      · exact absurd (u3.symm.trans (hbH rfl)) (by decide)
    simp [FwdClose.Seen.consistent, FwdClose.neverSent, hp, c0, b0]
  · intro hp
    obtain ⟨l1, l2, -, l4, -⟩ := I.la hp
    have b0 : bHas = false := by
      cases bHas
      · rfl
      · exact absurd (l1.symm.trans (hbH rfl)) (by decide)
    simp only [FwdClose.Seen.consistent, FwdClose.neverSent, hp, b0]
    cases hh : (s.held == some true)
    · simp
    · have hh' : s.held = some true := by simpa using hh
      have c0 : cHas = false := by
        cases cHas
        · rfl
        · rcases hcH rfl with h | h
          · exact absurd ((l4 hh').symm.trans h) (by decide)
          · exact absurd h l2
      simp [c0]

/-- non-vacuity: the scenario of the property — HTLC 0 is `Committed` (C holds it in signed commitments, it is in B's own
    commitment), a later commitment that lists it is held behind an RAA blocker, B force-closes: it is NOT failed back; an
    HTLC freed from the holding cell into that held commitment IS; so is one still in the holding cell; one whose
    `commitment_signed` went out is not -/
example :
    let s := FwdClose.run FwdClose.init [.announce false, .recvRaa, .recvCs, .commit true, .forceClose]
    s.dropped = false ∧ FwdClose.downstreamCanClaim s = true ∧ s.held = some true ∧ s.phase = .pending .committed := by decide
example :
    let s := FwdClose.run FwdClose.init [.queueAdd, .announce true, .forceClose]
    s.dropped = true ∧ FwdClose.downstreamCanClaim s = false := by decide
example : (FwdClose.run FwdClose.init [.queueAdd, .forceClose]).dropped = true := by decide
example :
    let s := FwdClose.run FwdClose.init [.announce false, .forceClose]
    s.dropped = false ∧ FwdClose.downstreamCanClaim s = true := by decide
example :
    let s := FwdClose.run FwdClose.init [.announce true, .release, .forceClose]
    s.dropped = false ∧ FwdClose.downstreamCanClaim s = true := by decide
/-- a fulfilled HTLC whose removal C has not yet revoked stays with the monitor as well -/
example :
    let s := FwdClose.run FwdClose.init [.announce false, .recvRaa, .recvCs, .recvRemove true, .recvCs, .commit true, .forceClose]
    s.dropped = false ∧ s.phase = .pending (.awaitingRemovedRemoteRevoke true) ∧ s.held = some true := by decide

/-! ## N forwarded HTLCs on one pair of links: channel-level events, interference, lifting

    `FwdMulti.mstep` (Model/ForwardMulti.lean): one `commitment_signed` / `revoke_and_ack` / monitor-update completion / crash /
    restart acts on every HTLC; the upstream `PaymentPreimage` update of HTLC k is an "other in-flight update" for every j ≠ k,
    the `RAAMonitorUpdateBlockingAction` of HTLC j parks the downstream revocation update for every k ≠ j (computed from the
    global state in the second and third pass of `mstep`); the downstream monitor's on-chain preimage learning goes through the
    GENERATED de-duplication test of `is_resolving_htlc_output`. -/

open Ldk.FwdMulti Ldk.ChainClaimGen in
/-- **multi_lifting.** The projection of ANY run of the N-machine (all interleavings of channel-level events, crashes and restarts
    included) onto one HTLC is a run of the one-HTLC machine `Forward.step` — the other HTLCs appear in it only as
    `handUpOther` / `completeUpOther` / `addDownOther` / `removeDownOther`. -/
theorem multi_lifting (n : Nat) (ops : List FwdMulti.MOp) (i : Nat) :
    ∃ ops' : List Op, (FwdMulti.mrun (FwdMulti.minit n) ops).hs i = run init ops' :=
  FwdMulti.lifting_from (FwdMulti.minit n) ops i

/-- one step spelled out: the per-HTLC ops are the event's own effect followed by the interference of the other HTLCs -/
theorem multi_step_projection (m : FwdMulti.MSt) (op : FwdMulti.MOp) (i : Nat) :
    (FwdMulti.mstep m op).hs i = run (m.hs i) (FwdMulti.opsFor m op i) := FwdMulti.mstep_hs m op i

/-- non-vacuity: two HTLCs, asynchronous persistence; ONE revoke_and_ack removes both, its monitor update is parked while
    either blocker is registered and flies when the LAST upstream preimage update completes -/
example :
    let m := FwdMulti.mrun (FwdMulti.minit 2) [.setSync false, .recvFulfilDown 0, .recvFulfilDown 1, .recvCsDown, .completeDownCs,
      .recvRaaDown, .completeUp [0]]
    (m.hs 0).downRaaUpdate = .blocked ∧ (m.hs 1).downRaaUpdate = .blocked ∧ (m.hs 0).upPreimageDurable = true ∧
    (m.hs 1).upPreimageDurable = false ∧ FwdMulti.coherent m = true := by decide
example :
    let m := FwdMulti.mrun (FwdMulti.minit 2) [.setSync false, .recvFulfilDown 0, .recvFulfilDown 1, .recvCsDown, .completeDownCs,
      .recvRaaDown, .completeUp [0], .completeUp [1]]
    (m.hs 0).downRaaUpdate = .handedToWatch ∧ (m.hs 1).downRaaUpdate = .handedToWatch ∧ (m.hs 0).blocker = false ∧
    FwdMulti.coherent m = true := by decide

/-- **multi_interference_coherent.** What makes the lifting meaningful: the interference each HTLC's one-HTLC record carries is the
    TRUE global one — in every reachable state of the N-machine, for every HTLC `i`, its `downOther` counter (which parks the
    downstream revocation update) equals the number of OTHER HTLCs that currently hold an `RAAMonitorUpdateBlockingAction`. -/
theorem multi_interference_coherent (n : Nat) (ops : List FwdMulti.MOp) (i : Nat) :
    let m := FwdMulti.mrun (FwdMulti.minit n) ops
    (m.hs i).downOther = FwdMulti.countOthers n i (fun k => (m.hs k).blocker) := by
  intro m
  have h := FwdMulti.coh_run (FwdMulti.minit n) ops (FwdMulti.coh_init n) i
  rw [FwdMulti.mrun_n] at h
  exact h

/-- **multi_preimage_durable_before_removal_irrevocable.** In every reachable state of the N-machine, for EVERY HTLC: the
    downstream revocation update is with `chain::Watch` (or durable) only if that HTLC's upstream preimage update is durable;
    and no HTLC is ever failed upstream while the next hop has, or can still get, its downstream amount. -/
theorem multi_preimage_durable_before_removal_irrevocable (n : Nat) (ops : List FwdMulti.MOp) (i : Nat) :
    let s := (FwdMulti.mrun (FwdMulti.minit n) ops).hs i
    (s.down = .removedByFulfil → (s.downRaaUpdate = .handedToWatch ∨ s.downRaaUpdate = .durable) → s.upPreimageDurable = true) ∧
    ¬ (s.up = .failSent ∧ downClaimable s = true) := by
  intro s
  obtain ⟨o', h⟩ := multi_lifting n ops i
  have I := FwdMulti.inv_multi n ops i
  refine ⟨I.raa_gate, ?_⟩
  show ¬ (((FwdMulti.mrun (FwdMulti.minit n) ops).hs i).up = .failSent ∧ downClaimable ((FwdMulti.mrun (FwdMulti.minit n) ops).hs i) = true)
  rw [h]; exact never_fulfilled_down_failed_up o'

/-- **multi_forward_no_loss.** The money theorem at full strength: in EVERY reachable state of the N-machine (all interleavings,
    crashes / restarts included) and for EVERY set `ids` of forwarded HTLCs whose downstream offer does not exceed the inbound
    amount (`admit_no_loss` / `hop_offer_bounded`), the amounts irrevocably paid downstream add up to no more than the amounts
    claimed or durably claimable upstream — i.e. the fees earned on any set of HTLCs are ≥ 0 — and no HTLC that was paid out
    downstream is failed upstream. -/
theorem multi_forward_no_loss (n : Nat) (ops : List FwdMulti.MOp) (ids : List Nat) (inAmt outAmt : Nat → Nat)
    (hadm : ∀ i ∈ ids, outAmt i ≤ inAmt i) :
    let m := FwdMulti.mrun (FwdMulti.minit n) ops
    FwdMulti.sumOver ids (fun i => if FwdMulti.paidDown (m.hs i) then outAmt i else 0) ≤
      FwdMulti.sumOver ids (fun i => if FwdMulti.securedUp (m.hs i) then inAmt i else 0) ∧
    ∀ i, FwdMulti.paidDown (m.hs i) = true → (m.hs i).up ≠ .failSent := by
  intro m
  refine ⟨FwdMulti.sum_pointwise ids _ _ ?_, fun i hp => FwdMulti.paid_not_failed _ (FwdMulti.inv_multi n ops i) hp⟩
  intro i hi
  have I := FwdMulti.inv_multi n ops i
  cases hp : FwdMulti.paidDown (m.hs i)
  · simp
  · have hs := FwdMulti.paid_secured _ I hp
    show outAmt i ≤ (if FwdMulti.securedUp (m.hs i) = true then inAmt i else 0)
    rw [if_pos hs]; exact hadm i hi

example :
    let m := FwdMulti.mrun (FwdMulti.minit 2) [.recvFulfilDown 0, .recvFulfilDown 1, .recvCsDown, .recvRaaDown, .sendFulfilUp 0]
    FwdMulti.paidDown (m.hs 0) = true ∧ FwdMulti.paidDown (m.hs 1) = true ∧ (m.hs 0).up = .fulfilSent ∧ (m.hs 1).up = .pending ∧
    FwdMulti.securedUp (m.hs 1) = true := by decide

/-- **onchain_preimage_learned_per_source.** The downstream monitor's on-chain preimage learning, with the de-duplication test
    of BOTH arms of `is_resolving_htlc_output` as TRANSLATED from the source: for every reachable state, every batch of preimage
    spends one `transactions_confirmed` call sees (any number of HTLCs sharing a payment hash, either arm, any events still
    un-drained) and every claim `c` in it, afterwards an `HTLCEvent` carrying a preimage is queued for `c`'s SOURCE, and when the
    manager drains the events it handles an on-chain preimage for that very HTLC. -/
theorem onchain_preimage_learned_per_source (n : Nat) (ops : List FwdMulti.MOp) (claims : List FwdMulti.Claim) (c : FwdMulti.Claim)
    (hc : c ∈ claims) :
    let m' := FwdMulti.mstep (FwdMulti.mrun (FwdMulti.minit n) ops) (.chainSee claims)
    (∃ ev ∈ m'.events, ev.source = c.source ∧ ev.preimage.isSome = true) ∧
    Op.chainPreimage ∈ FwdMulti.priOps m' .drainEvents c.source := by
  intro m'
  have hev : m'.events = FwdMulti.resolveBlock (FwdMulti.mrun (FwdMulti.minit n) ops).events claims := rfl
  obtain ⟨ev, hm, hs⟩ := FwdMulti.resolveBlock_has (FwdMulti.mrun (FwdMulti.minit n) ops).events claims c hc
  have hp := FwdMulti.resolveBlock_pre _ claims (FwdMulti.events_pre n ops) ev hm
  refine ⟨⟨ev, hev ▸ hm, hs, hp⟩, ?_⟩
  simp only [FwdMulti.priOps, List.mem_map, List.mem_filter]
  exact ⟨ev, ⟨hev ▸ hm, by simp [hs, hp]⟩, by first | rfl | trivial⟩

/-- ... and handling it makes the HTLC's preimage known and hands the upstream `PaymentPreimage` update to `chain::Watch`
    (from where `learned_preimage_claims` takes over) -/
theorem onchain_preimage_event_claims_upstream (s : St) (ha : s.alive = true)
    (hd : s.down = .offered ∨ s.down = .fulfilSeen ∨ s.down = .failSeen) :
    (step s .chainPreimage).down = .onchainPreimage ∧ (step s .chainPreimage).upPreimageHandedToWatch = true ∧
    (step s .chainPreimage).alive = true := FwdMulti.chainPreimage_learns s ha hd

/-- **onchain_preimage_all_sources_claimed.** State-level form, over all runs of the N-machine: the monitor sees ANY batch of preimage
    spends in one block (HTLCs sharing a payment hash included), the manager drains the events — then EVERY claimed HTLC that was
    still open downstream at a live node has its preimage known and its upstream `PaymentPreimage` update handed to `chain::Watch`
    (`learned_preimage_claims` / `multi_lifting` then give the upstream `update_fulfill_htlc`). -/
theorem onchain_preimage_all_sources_claimed (n : Nat) (ops : List FwdMulti.MOp) (claims : List FwdMulti.Claim) (c : FwdMulti.Claim)
    (hc : c ∈ claims)
    (ha : ((FwdMulti.mrun (FwdMulti.minit n) ops).hs c.source).alive = true)
    (hd : ((FwdMulti.mrun (FwdMulti.minit n) ops).hs c.source).down = .offered ∨
          ((FwdMulti.mrun (FwdMulti.minit n) ops).hs c.source).down = .fulfilSeen ∨
          ((FwdMulti.mrun (FwdMulti.minit n) ops).hs c.source).down = .failSeen) :
    let m2 := FwdMulti.mstep (FwdMulti.mstep (FwdMulti.mrun (FwdMulti.minit n) ops) (.chainSee claims)) .drainEvents
    (m2.hs c.source).down = .onchainPreimage ∧ (m2.hs c.source).upPreimageHandedToWatch = true := by
  exact FwdMulti.drain_claims _ claims c hc (FwdMulti.events_pre n ops) ha hd

/-- non-vacuity (the scenario of seeded C02-r4): two forwarded HTLCs with the SAME payment hash 7 on the downstream channel, the
    next hop claims both with HTLC-Success in one block: two events, both inbound HTLCs are claimed upstream -/
example :
    let m := FwdMulti.mrun (FwdMulti.minit 2) [.chainSee [⟨true, 0, 7, 900000, 5⟩, ⟨true, 1, 7, 800000, 5⟩], .drainEvents,
      .sendFulfilUp 0, .sendFulfilUp 1]
    (m.hs 0).up = .fulfilSent ∧ (m.hs 1).up = .fulfilSent := by decide
example : (FwdMulti.resolveBlock [] [⟨true, 0, 7, 900000, 5⟩, ⟨true, 1, 7, 800000, 5⟩, ⟨true, 0, 7, 900000, 5⟩]).length = 2 := by decide

/-! ## blinded forwards: the amounts come from the node's own `payment_relay`, not from the onion -/

open Ldk.BlindedGen in
/-- **blinded_forward_keeps_fee.** Whatever `check_blinded_forward` (GENERATED: `amt_to_forward_msat` translated, the rest pinned and
    composed) lets through, for all inbound amounts / expiries, relay parameters (any `fee_proportional_millionths`, also above
    100 %) and constraints: the amount offered downstream is positive and, together with the fee the node's `payment_relay`
    promises for forwarding exactly that amount (`amt·prop/10⁶ + base`, the division rounding DOWN), does not exceed the inbound
    amount — the inversion never rounds against the node —; the outgoing expiry is the inbound one less the relay's
    `cltv_expiry_delta`; the inbound HTLC met `htlc_minimum_msat` and `max_cltv_expiry`. -/
theorem blinded_forward_keeps_fee (inAmt inCltv : Nat) (r : PaymentRelay) (pc : PaymentConstraints) (uf : Bool) (a c : Nat)
    (h : checkBlindedForward inAmt inCltv r pc uf = some (a, c)) :
    0 < a ∧ a + relayFee r a ≤ inAmt ∧ c + r.cltv_expiry_delta = inCltv ∧
    pc.htlc_minimum_msat ≤ inAmt ∧ inCltv ≤ pc.max_cltv_expiry ∧ uf = false := by
  unfold checkBlindedForward at h
  cases ha : amtToForwardMsat inAmt r with
  | none => simp [ha] at h
  | some a' =>
    have hs := amt_to_forward_sound inAmt r a' ha
    by_cases hd : r.cltv_expiry_delta ≤ inCltv
    · simp only [ha, chkSub, hd, if_true] at h
      by_cases hv : blindedConstraintsViolated inAmt inCltv pc = true
      · simp [hv] at h
      · cases uf
        · simp [hv] at h
          obtain ⟨rfl, rfl⟩ := h
          simp [blindedConstraintsViolated] at hv
          exact ⟨hs.1, hs.2, by omega, by omega, by omega, rfl⟩
        · simp [hv] at h
    · simp [ha, chkSub, hd] at h

open Ldk.BlindedGen in
/-- **blinded_forward_amount_exact.** The rounding direction stated exactly: `amt_to_forward_msat` returns THE largest amount
    whose promised fee still fits into the inbound amount — it never rounds against the node (`blinded_forward_keeps_fee`) and never
    withholds more than it must (every larger amount would eat into the fee); `None` exactly when not even 1 msat can be forwarded. -/
theorem blinded_forward_amount_exact (inAmt : Nat) (r : PaymentRelay) :
    (∀ a, amtToForwardMsat inAmt r = some a →
        0 < a ∧ a + relayFee r a ≤ inAmt ∧ ∀ b, a < b → ¬ (b + relayFee r b ≤ inAmt)) ∧
    (amtToForwardMsat inAmt r = none → ∀ b, 0 < b → ¬ (b + relayFee r b ≤ inAmt)) := by
  have mono : ∀ x y : Nat, x ≤ y → x + relayFee r x ≤ y + relayFee r y := by
    intro x y hxy
    have h1 : x * r.fee_proportional_millionths / 1000000 ≤ y * r.fee_proportional_millionths / 1000000 :=
      Nat.div_le_div_right (Nat.mul_le_mul_right _ hxy)
    simp only [relayFee]; omega
  constructor
  · intro a h
    obtain ⟨h0, h1⟩ := amt_to_forward_sound inAmt r a h
    refine ⟨h0, h1, fun b hb hfit => amt_to_forward_maximal inAmt r a h ?_⟩
    exact Nat.le_trans (mono (a + 1) b hb) hfit
  · intro h b hb hfit
    -- `none`: the base fee alone exceeds the inbound amount, or the rounded amount is 0 and 1 msat does not fit
    have h1fit : 1 + relayFee r 1 ≤ inAmt := Nat.le_trans (mono 1 b hb) hfit
    obtain ⟨delta, prop, base⟩ := r
    unfold amtToForwardMsat at h
    simp only [relayFee] at h1fit
    by_cases hbase : base ≤ inAmt
    · simp only [chkSub, hbase, if_true] at h
      generalize ha0 : (inAmt - base) * 1000000 / (prop + 1000000) = a0 at h
      by_cases hc : inAmt ≥ a0 + 1 + ((a0 + 1) * prop / 1000000 + base)
      · simp [hc] at h
      · simp [hc] at h
        subst h
        simp at hc
        omega
    · omega

example : Ldk.BlindedGen.checkBlindedForward 101000 500 ⟨72, 0, 1000⟩ ⟨600, 1⟩ false = some (100000, 428) := by decide
/-- rounding boundaries: 1 % fee — 101 msat in forwards 100 (fee 1), 100 msat in forwards 99 (fee 0 by the node's own rule, 1 msat kept) -/
example : Ldk.BlindedGen.amtToForwardMsat 101 ⟨0, 10000, 0⟩ = some 100 := by decide
example : Ldk.BlindedGen.amtToForwardMsat 100 ⟨0, 10000, 0⟩ = some 99 := by decide
example : Ldk.BlindedGen.amtToForwardMsat 2 ⟨0, 4294967295, 1⟩ = none := by decide
example : Ldk.BlindedGen.amtToForwardMsat 1000005 ⟨0, 2000000, 0⟩ = some 333335 := by decide

/-! ## (g) the RAA-blocker map (`actions_blocking_raa_monitor_updates`): registration, release and the held test are the
    GENERATED translations of internal_update_fulfill_htlc / claim_mpp_part / handle_monitor_update_release /
    raa_monitor_updates_held (Generated/RaaBlock.lean, tools/gen_raablock.py) -/

/-- Whatever the map held before (in particular: a blocker of an EARLIER claim over the same downstream channel that is still
    pending), processing `update_fulfill_htlc` leaves the new claim's blocker registered on the downstream channel, keeps every
    blocker that was there — on every channel — adds nothing else, and the channel's `revoke_and_ack` update is held. -/
theorem raa_blocker_registered_for_every_fulfil (m : RaaBlock.BlockMap) (chan blocker : Nat) :
    blocker ∈ RaaBlock.BlockMap.get (RaaBlockGen.registerOnFulfil m chan blocker) chan
    ∧ RaaBlockGen.held (RaaBlockGen.registerOnFulfil m chan blocker) chan = true
    ∧ (∀ c x, x ∈ RaaBlock.BlockMap.get m c → x ∈ RaaBlock.BlockMap.get (RaaBlockGen.registerOnFulfil m chan blocker) c)
    ∧ (∀ c x, x ∈ RaaBlock.BlockMap.get (RaaBlockGen.registerOnFulfil m chan blocker) c → (c = chan ∧ x = blocker) ∨ x ∈ RaaBlock.BlockMap.get m c) := by
  refine ⟨?_, ?_, ?_, ?_⟩
  · exact (RaaBlock.mem_get_registerOnFulfil m chan blocker chan blocker).mpr (Or.inl ⟨rfl, rfl⟩)
  · exact (RaaBlock.held_iff _ chan).mpr ⟨blocker, (RaaBlock.mem_get_registerOnFulfil m chan blocker chan blocker).mpr (Or.inl ⟨rfl, rfl⟩)⟩
  · intro c x hx; exact (RaaBlock.mem_get_registerOnFulfil m chan blocker c x).mpr (Or.inr hx)
  · intro c x hx; exact (RaaBlock.mem_get_registerOnFulfil m chan blocker c x).mp hx

example : RaaBlock.BlockMap.get (RaaBlockGen.registerOnFulfil (RaaBlockGen.registerOnFulfil RaaBlock.BlockMap.empty 1 2000) 1 0) 1 = [2000, 0] := by decide

/-- Releasing one completed blocker removes exactly that blocker from exactly that channel. -/
theorem raa_release_removes_only_the_completed_blocker (m : RaaBlock.BlockMap) (chan blocker c x : Nat) :
    x ∈ RaaBlock.BlockMap.get (RaaBlockGen.release m chan blocker) c ↔ x ∈ RaaBlock.BlockMap.get m c ∧ ¬ (c = chan ∧ x = blocker) :=
  RaaBlock.mem_get_release m chan blocker c x

example : RaaBlock.BlockMap.get (RaaBlockGen.release (RaaBlockGen.registerOnFulfil (RaaBlockGen.registerOnFulfil RaaBlock.BlockMap.empty 1 2000) 1 0) 1 2000) 1 = [0] := by decide

/-- Over ALL histories of fulfils and completion-action releases (any number of HTLCs, inbound edges and downstream channels, any
    interleaving, repeated fulfils): the downstream channel's `revoke_and_ack` monitor update is held EXACTLY while some claim over
    that channel is pending (fulfilled by the next hop, its inbound edge's preimage update not yet released). -/
theorem raa_update_held_iff_some_claim_pending (evs : List RaaBlock.Ev) (chan : Nat) :
    RaaBlock.raaParked (RaaBlock.runEv RaaBlock.BlockMap.empty evs) chan = true ↔ ∃ b, RaaBlock.pending chan b evs = true := by
  unfold RaaBlock.raaParked RaaBlock.pending
  rw [RaaBlock.held_iff]
  constructor
  · rintro ⟨b, hb⟩
    refine ⟨b, ?_⟩
    have := (RaaBlock.mem_get_runEv evs RaaBlock.BlockMap.empty chan b).mp hb
    simpa [RaaBlock.BlockMap.get, RaaBlock.BlockMap.empty] using this
  · rintro ⟨b, hb⟩
    refine ⟨b, (RaaBlock.mem_get_runEv evs RaaBlock.BlockMap.empty chan b).mpr ?_⟩
    simpa [RaaBlock.BlockMap.get, RaaBlock.BlockMap.empty] using hb

/-- the round-5 schedule: two claims over downstream channel 1 from inbound edges 0 and 2; the first one's release leaves the update held -/
example : RaaBlock.raaParked (RaaBlock.runEv RaaBlock.BlockMap.empty [.fulfil 1 0, .fulfil 1 2000, .release 1 0]) 1 = true := by decide
example : RaaBlock.raaParked (RaaBlock.runEv RaaBlock.BlockMap.empty [.fulfil 1 0, .fulfil 1 2000, .release 1 0, .release 1 2000]) 1 = false := by decide

/-- **The N-machine's gate IS the generated held test.**  In every reachable state of the N-HTLC machine (all op lists), for every
    tracked HTLC `i`: the condition under which `FwdProto` parks the downstream `revoke_and_ack` update of `i` (its own blocker, or
    the `downOther` counter) holds exactly when the GENERATED `raa_monitor_updates_held` is true of the map obtained by running the
    GENERATED registration of `internal_update_fulfill_htlc` for every HTLC that holds a blocker.  (With a registration that drops a
    blocker when another one is pending — round-5 seed — `held_registerAll` is unprovable.) -/
theorem multi_gate_is_generated_held (n : Nat) (ops : List FwdMulti.MOp) (i : Nat) (hi : i < n) :
    let m := FwdMulti.mrun (FwdMulti.minit n) ops
    ((m.hs i).blocker = true ∨ (m.hs i).downOther ≠ 0)
      ↔ RaaBlockGen.held (RaaBlock.registerAll ((List.range n).filter (fun k => (m.hs k).blocker))) 1 = true := by
  intro m
  have hco := multi_interference_coherent n ops i
  simp only at hco
  rw [RaaBlock.held_registerAll, show (m.hs i).downOther = FwdMulti.countOthers n i (fun k => (m.hs k).blocker) from hco,
    RaaBlock.countOthers_ne_zero]
  constructor
  · rintro (h | ⟨k, hk, _, hp⟩)
    · exact ⟨i, List.mem_filter.mpr ⟨List.mem_range.mpr hi, h⟩⟩
    · exact ⟨k, List.mem_filter.mpr ⟨List.mem_range.mpr hk, hp⟩⟩
  · rintro ⟨k, hk⟩
    have hk' := List.mem_filter.mp hk
    by_cases hki : k = i
    · subst hki; exact Or.inl hk'.2
    · exact Or.inr ⟨k, List.mem_range.mp hk'.1, hki, hk'.2⟩

example : RaaBlockGen.held (RaaBlock.registerAll [0, 2]) 1 = true := by decide
example : RaaBlockGen.held (RaaBlock.registerAll []) 1 = false := by decide

/-- `FreeDuplicateClaimImmediately` (a claim replayed at startup re-added a blocker that the pending claim already holds): the
    GENERATED stateful retain removes exactly ONE copy of the blocker from exactly that channel (`List.erase`), for every map. -/
theorem raa_duplicate_release_removes_exactly_one_copy (m : RaaBlock.BlockMap) (chan blocker c : Nat) :
    RaaBlock.BlockMap.get (RaaBlockGen.releaseDuplicate m chan blocker) c
      = if c = chan then (RaaBlock.BlockMap.get m chan).erase blocker else RaaBlock.BlockMap.get m c :=
  RaaBlock.get_releaseDuplicate m chan blocker c

/-- ... hence a blocker that is registered twice (original claim + duplicate) still holds the channel after the duplicate's release. -/
theorem raa_duplicate_release_keeps_channel_held (m : RaaBlock.BlockMap) (chan blocker : Nat) :
    RaaBlockGen.held (RaaBlockGen.releaseDuplicate (RaaBlockGen.registerOnClaim (RaaBlockGen.registerOnFulfil m chan blocker) chan blocker) chan blocker) chan = true := by
  rw [RaaBlock.held_iff]
  refine ⟨blocker, ?_⟩
  rw [RaaBlock.get_releaseDuplicate, if_pos rfl]
  have h1 : blocker ∈ RaaBlock.BlockMap.get (RaaBlockGen.registerOnFulfil m chan blocker) chan :=
    (RaaBlock.mem_get_registerOnFulfil m chan blocker chan blocker).mpr (Or.inl ⟨rfl, rfl⟩)
  -- registerOnClaim is the same generated chain as registerOnFulfil
  have h2 : ∀ m', RaaBlockGen.registerOnClaim m' chan blocker = RaaBlockGen.registerOnFulfil m' chan blocker := fun _ => rfl
  rw [h2]
  have hc : 2 ≤ List.count blocker (RaaBlock.BlockMap.get (RaaBlockGen.registerOnFulfil (RaaBlockGen.registerOnFulfil m chan blocker) chan blocker) chan) := by
    have hget : ∀ m', RaaBlock.BlockMap.get (RaaBlockGen.registerOnFulfil m' chan blocker) chan = RaaBlock.BlockMap.get m' chan ++ [blocker] := by
      intro m'
      unfold RaaBlockGen.registerOnFulfil RaaBlock.BlockMap.pushAt RaaBlock.BlockMap.orInsertWith RaaBlock.BlockMap.get
      cases h : m' chan <;> simp [RaaBlock.BlockMap.set, h]
    rw [hget, hget]
    simp [List.count_append]
  have : 0 < List.count blocker ((RaaBlock.BlockMap.get (RaaBlockGen.registerOnFulfil (RaaBlockGen.registerOnFulfil m chan blocker) chan blocker) chan).erase blocker) := by
    rw [List.count_erase_self]; omega
  exact List.count_pos_iff.mp this

example : RaaBlock.BlockMap.get (RaaBlockGen.releaseDuplicate (RaaBlock.registerAll [7, 5, 7]) 1 7) 1 = [5, 7] := by decide

/-- The full `raa_monitor_updates_held` (both disjuncts GENERATED): the downstream `revoke_and_ack` update is held exactly when a
    blocker is registered for the channel or an unhandled event carries `ReleaseRAAChannelMonitorUpdate` for this very channel and peer. -/
theorem raa_held_full_iff (m : RaaBlock.BlockMap) (evs : List (Option (Nat × Nat))) (chan cp : Nat) :
    (RaaBlockGen.held m chan || RaaBlockGen.heldByEvents evs chan cp) = true
      ↔ (∃ b, b ∈ RaaBlock.BlockMap.get m chan) ∨ some (chan, cp) ∈ evs := by
  rw [Bool.or_eq_true, RaaBlock.held_iff, RaaBlock.heldByEvents_iff]

example : RaaBlockGen.heldByEvents [none, some (1, 9)] 1 9 = true := by decide
example : RaaBlockGen.heldByEvents [none, some (1, 9)] 1 8 = false := by decide

end Ldk.C02
