/- C03 — Every outbound payment reaches a truthful terminal outcome.
   Property theorems about `Model/OutboundPay.lean` (the `OutboundPayments` state machine of
   lightning/src/ln/outbound_payment.rs).  All statements quantify over every start state `s` (with the
   representation invariant `WF`: one map entry per id — true of `init`, kept by every op), every payment id and
   every op list.  "One payment instance" = `Instance id s ops`: the id is absent in `s`, no restart (`restore`)
   occurs in `ops`, and the id is present after every op of `ops` except possibly the last — i.e. `ops` is a
   prefix of a maximal interval in which the id is present (the first op of such an interval is the one that
   creates the entry).  `nSent`/`nFailed` count the `PaymentSent`/`PaymentFailed` events pushed for the id,
   `claimHits` says that a `claim_htlc` for the id ran while the entry owned HTLCs. -/
import LdkModel.Proofs.OutboundPay
namespace Ldk.C03
open Ldk Ldk.OutboundPay

/-- Without restarts, a payment yields `PaymentSent` at most once. -/
theorem sent_at_most_once (id : PayId) (s : State) (ops : List Op) (h : Instance id s ops) :
    nSent id (run s ops).2 ≤ 1 := by
  have := instance_cases id s ops h
  simp only at this
  omega

example : Instance 1 init [.send 1 [1, 2], .claim 1 1 false, .claim 1 2 false, .claim 1 1 true] ∧
    nSent 1 (run init [.send 1 [1, 2], .claim 1 1 false, .claim 1 2 false, .claim 1 1 true]).2 = 1 :=
  ⟨⟨wf_init, rfl, by decide, by decide⟩, by decide⟩

/-- Without restarts, a payment yields `PaymentFailed` at most once. -/
theorem failed_at_most_once (id : PayId) (s : State) (ops : List Op) (h : Instance id s ops) :
    nFailed id (run s ops).2 ≤ 1 := by
  have := instance_cases id s ops h
  simp only at this
  omega

example : Instance 1 init [.send 1 [1, 2], .fail 1 1 false false, .fail 1 2 false true] ∧
    nFailed 1 (run init [.send 1 [1, 2], .fail 1 1 false false, .fail 1 2 false true]).2 = 1 :=
  ⟨⟨wf_init, rfl, by decide, by decide⟩, by decide⟩

/-- Never both `PaymentSent` and `PaymentFailed` for one payment instance. -/
theorem terminal_exclusive (id : PayId) (s : State) (ops : List Op) (h : Instance id s ops) :
    nSent id (run s ops).2 + nFailed id (run s ops).2 ≤ 1 := by
  have := instance_cases id s ops h
  simp only at this
  omega

-- a part fails, the payment is abandoned, then the other part is claimed after all: only PaymentSent
example : (run init [.send 1 [1, 2], .fail 1 1 false false, .claim 1 2 false, .finalize 1 2]).2 =
    [.pathFailed 1 1, .sent 1, .pathOk 1 2] := by decide

/-- `PaymentSent` is reported exactly when a claim reached the payment while it owned HTLCs
    (Retryable, Abandoned or — already — Fulfilled). -/
theorem sent_iff_a_part_claimed (id : PayId) (s : State) (ops : List Op) (h : Instance id s ops) :
    nSent id (run s ops).2 = 1 ↔ claimHits id s ops = true := by
  have := instance_cases id s ops h
  simp only at this
  rcases this with h1 | h1 | h1 | h1 | h1 | h1
  · simp [h1.2.2.1, h1.2.2.2.2]
  · exact h1.2.2.2
  all_goals simp [h1.2.1, h1.2.2.2]

example : claimHits 1 init [.send 1 [1], .claim 1 1 false] = true ∧
    claimHits 1 init [.claim 1 1 false, .send 1 [1]] = false := by decide

/-- `PaymentFailed` is reported only if no claim reached the payment, and then the entry is gone — it held no
    part any more (`absent_implies_no_part`), so no HTLC of it is pending. -/
theorem failed_only_if_no_part_claimed_and_none_pending (id : PayId) (s : State) (ops : List Op)
    (h : Instance id s ops) (hf : nFailed id (run s ops).2 ≥ 1) :
    claimHits id s ops = false ∧ nSent id (run s ops).2 = 0 ∧ get (run s ops).1.cur id = .absent := by
  have := instance_cases id s ops h
  simp only at this
  rcases this with h1 | h1 | h1 | h1 | h1 | h1
  · omega
  · refine ⟨?_, by omega, h1.1⟩
    have h0 : nSent id (run s ops).2 = 0 := by omega
    cases hc : claimHits id s ops
    · rfl
    · have := h1.2.2.2.2 hc; omega
  all_goals omega

example : nFailed 1 (run init [.send 1 [1], .abandon 1 .userAbandoned, .fail 1 1 false false]).2 = 1 := by decide

/-- Once the last part of a payment is gone a terminal event has been emitted, unless the payment is still
    allowed to retry:
    (1) an instance that has ended (entry removed) reported exactly one terminal event;
    (2) an abandoned entry always still holds a part (so "abandoned and drained" never persists);
    (3) a fulfilled entry has reported `PaymentSent`;
    (4) failing the last part of a payment that may not retry reports `PaymentFailed` in that very call;
    (5) a drained Retryable entry that is not auto-retryable is failed by the next `check_retry_payments`. -/
theorem terminal_when_drained (id : PayId) (s : State) (ops : List Op) (h : Instance id s ops) :
    (get (run s ops).1.cur id = .absent → Started id s ops →
        nSent id (run s ops).2 + nFailed id (run s ops).2 = 1) ∧
    (∀ r, get (run s ops).1.cur id ≠ .abandoned [] r) ∧
    (∀ ps t, get (run s ops).1.cur id = .fulfilled ps t → nSent id (run s ops).2 = 1) ∧
    (∀ (st : PState) (p : PartId) (auto perm : Bool), (∃ ps, st = .retryable ps ∨ ∃ r, st = .abandoned ps r) →
        p ∈ st.parts → removePart p st.parts = [] → ((∃ ps, st = .retryable ps) → ¬(auto = true ∧ perm = false)) →
        (stepP id st (.fail p auto perm)).1 = .absent ∧ nFailed id (stepP id st (.fail p auto perm)).2.evs = 1) ∧
    (stepP id (.retryable []) (.sweep false)).1 = .absent ∧
      nFailed id (stepP id (.retryable []) (.sweep false)).2.evs = 1 := by
  have hc := instance_cases id s ops h
  simp only at hc
  refine ⟨?_, ?_, ?_, ?_, ?_⟩
  · intro habs hs
    rcases hc with h1 | h1 | h1 | h1 | h1 | h1
    · exact (h1.2.1 hs).elim
    · exact h1.2.2.1
    · obtain ⟨⟨t, ht⟩, _⟩ := h1; rw [ht] at habs; cases habs
    · obtain ⟨⟨t, ht⟩, _⟩ := h1; rw [ht] at habs; cases habs
    · obtain ⟨⟨ps, r, ht, _⟩, _⟩ := h1; rw [ht] at habs; cases habs
    · obtain ⟨⟨ps, t, ht⟩, _⟩ := h1; rw [ht] at habs; cases habs
  · intro r hr
    rcases hc with h1 | h1 | h1 | h1 | h1 | h1
    · rw [h1.1] at hr; cases hr
    · rw [h1.1] at hr; cases hr
    · obtain ⟨⟨t, ht⟩, _⟩ := h1; rw [ht] at hr; cases hr
    · obtain ⟨⟨t, ht⟩, _⟩ := h1; rw [ht] at hr; cases hr
    · obtain ⟨⟨ps, r', ht, hne⟩, _⟩ := h1; rw [ht] at hr; cases hr; exact hne rfl
    · obtain ⟨⟨ps, t, ht⟩, _⟩ := h1; rw [ht] at hr; cases hr
  · intro ps t hf
    rcases hc with h1 | h1 | h1 | h1 | h1 | h1
    · rw [h1.1] at hf; cases hf
    · rw [h1.1] at hf; cases hf
    · obtain ⟨⟨t, ht⟩, _⟩ := h1; rw [ht] at hf; cases hf
    · obtain ⟨⟨t, ht⟩, _⟩ := h1; rw [ht] at hf; cases hf
    · obtain ⟨⟨ps, r', ht, hne⟩, _⟩ := h1; rw [ht] at hf; cases hf
    · exact h1.2.1
  · intro st p auto perm hst hp hrm hnr
    obtain ⟨ps, rfl | ⟨r, rfl⟩⟩ := hst
    · have hnr' := hnr ⟨ps, rfl⟩
      simp only [PState.parts] at hp hrm
      have hcont : ps.contains p = true := by simpa using hp
      simp only [stepP, hcont, abandonNow, hrm]
      by_cases ha : auto = true <;> by_cases hpm : perm = true <;> simp_all [nFailed, isFailedFor]
    · simp only [PState.parts] at hp hrm
      have hcont : ps.contains p = true := by simpa using hp
      simp [stepP, hp, abandonNow, hrm, nFailed, isFailedFor]
  · simp [stepP, nFailed, isFailedFor]

-- a two-part payment whose parts both fail, the second without a retry left: drained ⇒ PaymentFailed, entry gone
example : (run init [.send 1 [1, 2], .fail 1 1 true false, .fail 1 2 false false]).2 =
      [.pathFailed 1 1, .pathFailed 1 2, .failed 1 .retriesExhausted] ∧
    get (run init [.send 1 [1, 2], .fail 1 1 true false, .fail 1 2 false false]).1.cur 1 = .absent := by decide
-- a drained payment that may still retry stays Retryable with no part until check_retry_payments gives up
example : get (run init [.send 1 [1], .fail 1 1 true false]).1.cur 1 = .retryable [] ∧
    (run init [.send 1 [1], .fail 1 1 true false, .sweep []]).2 = [.pathFailed 1 1, .failed 1 .retriesExhausted] := by
  decide

/-- A second send with the id of a present payment is refused with `DuplicatePayment`; nothing is pushed and no
    entry of the map (nor the queue or the persisted snapshot) changes. -/
theorem duplicate_send_refused (s : State) (id : PayId) (parts : List PartId) (h : get s.cur id ≠ .absent) :
    (step s (.send id parts)).2 = { dup := true } ∧
    (∀ k, get (step s (.send id parts)).1.cur k = get s.cur k) ∧
    (step s (.send id parts)).1.queue = s.queue ∧ (step s (.send id parts)).1.snapCur = s.snapCur ∧
    (step s (.send id parts)).1.snapQueue = s.snapQueue := by
  have hs := stepP_send_present id (get s.cur id) parts h
  refine ⟨by simp [step, one, hs], ?_, by simp [step, one, hs], rfl, rfl⟩
  intro k
  by_cases hk : k = id
  · subst hk; simp [step, one, hs, get_set_self]
  · simp [step, one, hs, get_set_ne _ _ _ _ hk]

example : (step (step init (.send 7 [1])).1 (.send 7 [2, 3])).2.dup = true ∧
    get (step (step init (.send 7 [1])).1 (.send 7 [2, 3])).1.cur 7 = .retryable [1] := by decide

/-- Duplicate resolutions are idempotent:
    (1) a fail for a part the entry no longer holds changes nothing and pushes nothing;
    (2) a claim for such a part, on a payment already fulfilled or already forgotten, likewise;
    (3) repeating any claim / finalize / fail immediately changes nothing and pushes nothing. -/
theorem duplicates_idempotent (s : State) (id : PayId) (p : PartId) :
    (∀ a pm, (get s.cur id).parts.contains p = false → (∀ t, get s.cur id ≠ .preHtlc t) →
        (step s (.fail id p a pm)).2 = {} ∧ ∀ k, get (step s (.fail id p a pm)).1.cur k = get s.cur k) ∧
    (∀ oc, (get s.cur id).parts.contains p = false → (get s.cur id = .absent ∨ (get s.cur id).isFulfilled = true) →
        (step s (.claim id p oc)).2 = {} ∧ ∀ k, get (step s (.claim id p oc)).1.cur k = get s.cur k) ∧
    (∀ op : Op, (op = .claim id p true ∨ op = .claim id p false ∨ op = .finalize id p ∨ ∃ a pm, op = .fail id p a pm) →
        (step (step s op).1 op).2.evs = [] ∧ ∀ k, get (step (step s op).1 op).1.cur k = get (step s op).1.cur k) := by
  have key : ∀ (s : State) (pop : POp), pop.isResolution = true →
      (one (one s id pop).1 id pop).2.evs = [] ∧ ∀ k, get (one (one s id pop).1 id pop).1.cur k = get (one s id pop).1.cur k := by
    intro s pop hres
    have hr := stepP_repeat id (get s.cur id) pop hres
    have hg : get (one s id pop).1.cur id = (stepP id (get s.cur id) pop).1 := one_get_self s id pop
    refine ⟨by rw [one_evs_self, hg]; exact hr.2, fun k => ?_⟩
    by_cases hk : k = id
    · subst hk; rw [one_get_self, hg]; exact hr.1
    · rw [one_get_ne _ _ _ _ hk]
  refine ⟨?_, ?_, ?_⟩
  · intro a pm hp hpre
    have hs := stepP_fail_absent_part id (get s.cur id) p a pm hp hpre
    refine ⟨by simp [step, one, hs], fun k => ?_⟩
    by_cases hk : k = id
    · subst hk; simp [step, one, hs, get_set_self]
    · simp [step, one, get_set_ne _ _ _ _ hk]
  · intro oc hp hst
    have hs := stepP_claim_absent_part id (get s.cur id) p oc hp hst
    refine ⟨by simp [step, one, hs], fun k => ?_⟩
    by_cases hk : k = id
    · subst hk; simp [step, one, hs, get_set_self]
    · simp [step, one, get_set_ne _ _ _ _ hk]
  · intro op hop
    rcases hop with rfl | rfl | rfl | ⟨a, pm, rfl⟩ <;> exact key s _ rfl

-- the duplicate fulfil after a reconnect: PaymentSent once, the second claim is silent
example : (run init [.send 1 [1], .claim 1 1 false, .claim 1 1 false, .finalize 1 1, .finalize 1 1, .claim 1 1 true]).2 =
    [.sent 1, .pathOk 1 1] := by decide

/-- An id is dropped from the map (by any op other than a restart) only when it holds no part — the only part it
    may still hold is the one that the removing `fail_htlc` is resolving.  Hence "not listed ⇒ no HTLC of it is in
    flight ⇒ safe to retry" as long as every in-flight HTLC is one of the entry's parts. -/
theorem absent_implies_no_part (s : State) (op : Op) (id : PayId) (hop : op ≠ .restore)
    (hpre : get s.cur id ≠ .absent) (hpost : get (step s op).1.cur id = .absent) :
    ∀ q ∈ (get s.cur id).parts, ∃ a pm, op = .fail id q a pm := by
  rw [step_get s op id hop] at hpost
  unfold projStep at hpost
  cases hp : proj id s op with
  | none => simp [hp] at hpost; exact (hpre hpost).elim
  | some pop =>
    simp only [hp] at hpost
    intro q hq
    obtain ⟨a, pm, hpop⟩ := stepP_drop id _ pop hpre hpost q hq
    subst hpop
    refine ⟨a, pm, ?_⟩
    cases op <;> simp only [proj] at hp <;> (try split at hp) <;> simp_all

-- a fulfilled payment with an unresolved part is kept however many timer ticks pass
example : get (run init ([.send 1 [1, 2], .claim 1 1 true, .handle] ++ List.replicate 20 .tick)).1.cur 1 =
    .fulfilled [2] 0 := by decide
-- ... and is dropped IDEMPOTENCY_TIMEOUT_TICKS + 1 ticks after its last part and its last pending event are gone
example : get (run init ([.send 1 [1], .claim 1 1 true, .handle] ++ List.replicate 7 .tick)).1.cur 1 = .fulfilled [] 7 ∧
    get (run init ([.send 1 [1], .claim 1 1 true, .handle] ++ List.replicate 8 .tick)).1.cur 1 = .absent ∧
    get (run init ([.send 1 [1], .claim 1 1 true] ++ List.replicate 20 .tick)).1.cur 1 = .fulfilled [] 0 := by decide

/-- Restarts never turn a claimed payment into a failed one, and `PaymentSent` always stems from a claim.
    `truth p` says that the HTLC of part `p` is resolved by the recipient's claim.  Let the entry of `id`, both in
    the live map and in the persisted map, be `Good`: gone, Fulfilled, or still holding a part with `truth`.
    Then for EVERY continuation — any number of `persist`/`restore` (restarts), monitor replays
    (`insert`/`claim`/`fail`), retries, abandons, ticks, any activity on other ids — in which the id is not sent
    afresh and the resolutions reported for its parts agree with `truth` (and monitors re-insert only parts that
    `truth` marks claimed), no `PaymentFailed` is ever pushed for `id`.  Conversely, over every op list whatsoever,
    a `PaymentSent` for `id` requires a `claim_htlc` call for `id`.
    PARTIAL — what is missing: (a) that a legally persisted ChannelManager + ChannelMonitor pair yields a `Good`
    entry after `restore` + `insert_from_monitor_on_startup` whenever `PaymentSent` was already reported is an
    assumption here (it is the manager/monitor coupling of C10; it fails for a manager written before the
    payment was sent when the claimed part's monitor no longer reports it — `htlcs_resolved_to_user` — while a
    failed part's monitor still does); (b) "after `PaymentFailed` no claim for the id can arrive" is a fact about
    the HTLCs (all of them failed), not about this module. -/
theorem restart_never_contradicts_partial (truth : PartId → Bool) (id : PayId) (s : State) (ops : List Op)
    (hwf : WF s) :
    (Good truth (get s.cur id) → Good truth (get s.snapCur id) → (∀ op ∈ ops, OkFor truth id op) →
        nFailed id (run s ops).2 = 0) ∧
    (nSent id (run s ops).2 > 0 → ∃ p oc, Op.claim id p oc ∈ ops) :=
  ⟨fun hc hs hok => good_run truth id ops s hwf hc hs hok, sent_needs_claim id ops s hwf⟩

-- PaymentSent was reported, the manager was last written before the claim, the restart replays claim and fail:
-- the event is repeated, never contradicted
example : (run init ([.send 1 [1, 2], .persist, .claim 1 1 false, .fail 1 2 false false, .handle] ++
      restartOps [(1, 1, .claimed), (1, 2, .failed false false)])).2 = [.sent 1, .sent 1, .pathOk 1 1] := by decide
-- the hypothesis is needed: a manager written before the send, a monitor view that has forgotten the claimed part
example : (run init ([.persist, .send 1 [1, 2], .claim 1 1 true, .handle] ++
      restartOps [(1, 2, .failed false false)])).2 = [.sent 1, .pathOk 1 1, .pathFailed 1 2, .failed 1 .retriesExhausted] := by
  decide

end Ldk.C03
