/- C03 — Every outbound payment reaches a truthful terminal outcome.
   Property theorems about `Model/OutboundPay.lean` (the `OutboundPayments` state machine of
   lightning/src/ln/outbound_payment.rs).  All statements quantify over every start state `s` (with the
   representation invariant `WF`: one map entry per id — true of `init`, kept by every op), every payment id and
   every op list.  "One payment instance" = `Instance id s ops`: the id is absent in `s`, no restart (`restore`)
   occurs in `ops`, and the id is present after every op of `ops` except possibly the last — i.e. `ops` is a
   prefix of a maximal interval in which the id is present (the first op of such an interval is the one that
   creates the entry).  `nSent`/`nFailed` count the `PaymentSent`/`PaymentFailed` events pushed for the id,
   `claimHits` says that a `claim_htlc` for the id ran while the entry owned HTLCs. -/
import LdkModel.Proofs.OutboundPay
import LdkModel.Proofs.OutboundFee
import LdkModel.Proofs.OutboundRetry
import LdkModel.Proofs.OutboundProbe
import LdkModel.Proofs.OutboundRestart
import LdkModel.Proofs.OnchainFailed
import LdkModel.Proofs.Unbroadcast
namespace Ldk.C03
open Ldk Ldk.OutboundPay

/-- Without restarts, a payment yields `PaymentSent` at most once. -/
theorem sent_at_most_once (id : PayId) (s : State) (ops : List Op) (h : Instance id s ops) :
    nSent id (run s ops).2 ≤ 1 := by
  have := instance_cases id s ops h
  simp only at this
  omega

example : Instance 1 init [.send 1 [1, 2], .claim 1 1 false, .claim 1 2 false, .claim 1 1 true] ∧
    nSent 1 (run init [.send 1 [1, 2], .claim 1 1 false, .claim 1 2 false, .claim 1 1 true]).2 = 1 :=
  ⟨⟨wf_init, rfl, by decide, by decide⟩, by decide⟩

/-- Without restarts, a payment yields `PaymentFailed` at most once. -/
theorem failed_at_most_once (id : PayId) (s : State) (ops : List Op) (h : Instance id s ops) :
    nFailed id (run s ops).2 ≤ 1 := by
  have := instance_cases id s ops h
  simp only at this
  omega

example : Instance 1 init [.send 1 [1, 2], .fail 1 1 false false, .fail 1 2 false true] ∧
    nFailed 1 (run init [.send 1 [1, 2], .fail 1 1 false false, .fail 1 2 false true]).2 = 1 :=
  ⟨⟨wf_init, rfl, by decide, by decide⟩, by decide⟩

/-- Never both `PaymentSent` and `PaymentFailed` for one payment instance. -/
theorem terminal_exclusive (id : PayId) (s : State) (ops : List Op) (h : Instance id s ops) :
    nSent id (run s ops).2 + nFailed id (run s ops).2 ≤ 1 := by
  have := instance_cases id s ops h
  simp only at this
  omega

-- a part fails, the payment is abandoned, then the other part is claimed after all: only PaymentSent
example : (run init [.send 1 [1, 2], .fail 1 1 false false, .claim 1 2 false, .finalize 1 2]).2 =
    [.pathFailed 1 1, .sent 1, .pathOk 1 2] := by decide

/-- `PaymentSent` is reported exactly when a claim reached the payment while it owned HTLCs
    (Retryable, Abandoned or — already — Fulfilled). -/
theorem sent_iff_a_part_claimed (id : PayId) (s : State) (ops : List Op) (h : Instance id s ops) :
    nSent id (run s ops).2 = 1 ↔ claimHits id s ops = true := by
  have := instance_cases id s ops h
  simp only at this
  rcases this with h1 | h1 | h1 | h1 | h1 | h1
  · simp [h1.2.2.1, h1.2.2.2.2]
  · exact h1.2.2.2
  all_goals simp [h1.2.1, h1.2.2.2]

example : claimHits 1 init [.send 1 [1], .claim 1 1 false] = true ∧
    claimHits 1 init [.claim 1 1 false, .send 1 [1]] = false := by decide

/-- `PaymentFailed` is reported only if no claim reached the payment, and then the entry is gone — it held no
    part any more (`absent_implies_no_part`), so no HTLC of it is pending. -/
theorem failed_only_if_no_part_claimed_and_none_pending (id : PayId) (s : State) (ops : List Op)
    (h : Instance id s ops) (hf : nFailed id (run s ops).2 ≥ 1) :
    claimHits id s ops = false ∧ nSent id (run s ops).2 = 0 ∧ get (run s ops).1.cur id = .absent := by
  have := instance_cases id s ops h
  simp only at this
  rcases this with h1 | h1 | h1 | h1 | h1 | h1
  · omega
  · refine ⟨?_, by omega, h1.1⟩
    have h0 : nSent id (run s ops).2 = 0 := by omega
    cases hc : claimHits id s ops
    · rfl
    · have := h1.2.2.2.2 hc; omega
  all_goals omega

example : nFailed 1 (run init [.send 1 [1], .abandon 1 .userAbandoned, .fail 1 1 false false]).2 = 1 := by decide

/-- Once the last part of a payment is gone a terminal event has been emitted, unless the payment is still
    allowed to retry:
    (1) an instance that has ended (entry removed) reported exactly one terminal event;
    (2) an abandoned entry always still holds a part (so "abandoned and drained" never persists);
    (3) a fulfilled entry has reported `PaymentSent`;
    (4) failing the last part of a payment that may not retry reports `PaymentFailed` in that very call;
    (5) a drained Retryable entry that is not auto-retryable is failed by the next `check_retry_payments`. -/
theorem terminal_when_drained (id : PayId) (s : State) (ops : List Op) (h : Instance id s ops) :
    (get (run s ops).1.cur id = .absent → Started id s ops →
        nSent id (run s ops).2 + nFailed id (run s ops).2 = 1) ∧
    (∀ r, get (run s ops).1.cur id ≠ .abandoned [] r) ∧
    (∀ ps t, get (run s ops).1.cur id = .fulfilled ps t → nSent id (run s ops).2 = 1) ∧
    (∀ (amt : Amt) (st : PState) (p : PartId) (auto perm : Bool),
        (∃ ps, (∃ pe to, st = .retryable ps pe to) ∨ ∃ r, st = .abandoned ps r) →
        p ∈ st.parts → removePart p st.parts = [] → ((∃ ps pe to, st = .retryable ps pe to) → ¬(auto = true ∧ perm = false)) →
        (stepP amt id st (.fail p auto perm)).1 = .absent ∧ nFailed id (stepP amt id st (.fail p auto perm)).2.evs = 1) ∧
    (∀ (amt : Amt) (pe to : Nat), (stepP amt id (.retryable [] pe to) (.sweep false)).1 = .absent ∧
      nFailed id (stepP amt id (.retryable [] pe to) (.sweep false)).2.evs = 1) := by
  have hc := instance_cases id s ops h
  simp only at hc
  refine ⟨?_, ?_, ?_, ?_, ?_⟩
  · intro habs hs
    rcases hc with h1 | h1 | h1 | h1 | h1 | h1
    · exact (h1.2.1 hs).elim
    · exact h1.2.2.1
    · obtain ⟨⟨t, ht⟩, _⟩ := h1; rw [ht] at habs; cases habs
    · obtain ⟨⟨t, pe, to, ht⟩, _⟩ := h1; rw [ht] at habs; cases habs
    · obtain ⟨⟨ps, r, ht, _⟩, _⟩ := h1; rw [ht] at habs; cases habs
    · obtain ⟨⟨ps, t, ht⟩, _⟩ := h1; rw [ht] at habs; cases habs
  · intro r hr
    rcases hc with h1 | h1 | h1 | h1 | h1 | h1
    · rw [h1.1] at hr; cases hr
    · rw [h1.1] at hr; cases hr
    · obtain ⟨⟨t, ht⟩, _⟩ := h1; rw [ht] at hr; cases hr
    · obtain ⟨⟨t, pe, to, ht⟩, _⟩ := h1; rw [ht] at hr; cases hr
    · obtain ⟨⟨ps, r', ht, hne⟩, _⟩ := h1; rw [ht] at hr; cases hr; exact hne rfl
    · obtain ⟨⟨ps, t, ht⟩, _⟩ := h1; rw [ht] at hr; cases hr
  · intro ps t hf
    rcases hc with h1 | h1 | h1 | h1 | h1 | h1
    · rw [h1.1] at hf; cases hf
    · rw [h1.1] at hf; cases hf
    · obtain ⟨⟨t, ht⟩, _⟩ := h1; rw [ht] at hf; cases hf
    · obtain ⟨⟨t, pe, to, ht⟩, _⟩ := h1; rw [ht] at hf; cases hf
    · obtain ⟨⟨ps, r', ht, hne⟩, _⟩ := h1; rw [ht] at hf; cases hf
    · exact h1.2.1
  · intro amt st p auto perm hst hp hrm hnr
    obtain ⟨ps, ⟨pe, to, rfl⟩ | ⟨r, rfl⟩⟩ := hst
    · have hnr' := hnr ⟨ps, pe, to, rfl⟩
      simp only [PState.parts] at hp hrm
      have hcont : ps.contains p = true := by simpa using hp
      simp only [stepP_eq_H, stepPH, hcont, abandonNow, hrm]
      by_cases ha : auto = true <;> by_cases hpm : perm = true <;> simp_all [nFailed, isFailedFor]
    · simp only [PState.parts] at hp hrm
      have hcont : ps.contains p = true := by simpa using hp
      simp [stepP_eq_H, stepPH, hp, abandonNow, hrm, nFailed, isFailedFor]
  · intro amt pe to; simp [stepP_eq_H, stepPH, nFailed, isFailedFor]

-- a two-part payment whose parts both fail, the second without a retry left: drained ⇒ PaymentFailed, entry gone
example : (run init [.send 1 [1, 2], .fail 1 1 true false, .fail 1 2 false false]).2 =
      [.pathFailed 1 1, .pathFailed 1 2, .failed 1 .retriesExhausted] ∧
    get (run init [.send 1 [1, 2], .fail 1 1 true false, .fail 1 2 false false]).1.cur 1 = .absent := by decide
-- a drained payment that may still retry stays Retryable with no part until check_retry_payments gives up
example : get (run init [.send 1 [1], .fail 1 1 true false]).1.cur 1 = .retryable [] 0 0 ∧
    (run init [.send 1 [1], .fail 1 1 true false, .sweep []]).2 = [.pathFailed 1 1, .failed 1 .retriesExhausted] := by
  decide

/-- A second send with the id of a present payment is refused with `DuplicatePayment`; nothing is pushed and no
    entry of the map (nor the queue or the persisted snapshot) changes. -/
theorem duplicate_send_refused (s : State) (id : PayId) (parts : List PartId) (h : get s.cur id ≠ .absent) :
    (step s (.send id parts)).2 = { dup := true } ∧
    (∀ k, get (step s (.send id parts)).1.cur k = get s.cur k) ∧
    (step s (.send id parts)).1.queue = s.queue ∧ (step s (.send id parts)).1.snapCur = s.snapCur ∧
    (step s (.send id parts)).1.snapQueue = s.snapQueue := by
  have hs := stepP_send_present (amt := s.amt) id (get s.cur id) parts h
  refine ⟨by simp [step, one, hs], ?_, by simp [step, one, hs], rfl, rfl⟩
  intro k
  by_cases hk : k = id
  · subst hk; simp [step, one, hs, get_set_self]
  · simp [step, one, hs, get_set_ne _ _ _ _ hk]

example : (step (step init (.send 7 [1])).1 (.send 7 [2, 3])).2.dup = true ∧
    get (step (step init (.send 7 [1])).1 (.send 7 [2, 3])).1.cur 7 = .retryable [1] 0 0 := by decide

/-- Duplicate resolutions are idempotent:
    (1) a fail for a part the entry no longer holds changes nothing and pushes nothing;
    (2) a claim for such a part, on a payment already fulfilled or already forgotten, likewise;
    (3) repeating any claim / finalize / fail immediately changes nothing and pushes nothing. -/
theorem duplicates_idempotent (s : State) (id : PayId) (p : PartId) :
    (∀ a pm, (get s.cur id).parts.contains p = false → (∀ t, get s.cur id ≠ .preHtlc t) →
        (step s (.fail id p a pm)).2 = {} ∧ ∀ k, get (step s (.fail id p a pm)).1.cur k = get s.cur k) ∧
    (∀ oc, (get s.cur id).parts.contains p = false → (get s.cur id = .absent ∨ (get s.cur id).isFulfilled = true) →
        (step s (.claim id p oc)).2 = {} ∧ ∀ k, get (step s (.claim id p oc)).1.cur k = get s.cur k) ∧
    (∀ op : Op, (op = .claim id p true ∨ op = .claim id p false ∨ op = .finalize id p ∨ ∃ a pm, op = .fail id p a pm) →
        (step (step s op).1 op).2.evs = [] ∧ ∀ k, get (step (step s op).1 op).1.cur k = get (step s op).1.cur k) := by
  have key : ∀ (s : State) (pop : POp), pop.isResolution = true →
      (one (one s id pop).1 id pop).2.evs = [] ∧ ∀ k, get (one (one s id pop).1 id pop).1.cur k = get (one s id pop).1.cur k := by
    intro s pop hres
    have hr := stepP_repeat (amt := s.amt) id (get s.cur id) pop hres
    have hg : get (one s id pop).1.cur id = (stepP s.amt id (get s.cur id) pop).1 := one_get_self s id pop
    refine ⟨by rw [one_evs_self, hg]; exact hr.2, fun k => ?_⟩
    by_cases hk : k = id
    · subst hk; rw [one_get_self, hg]; exact hr.1
    · rw [one_get_ne _ _ _ _ hk]
  refine ⟨?_, ?_, ?_⟩
  · intro a pm hp hpre
    have hs := stepP_fail_absent_part (amt := s.amt) id (get s.cur id) p a pm hp hpre
    refine ⟨by simp [step, one, hs], fun k => ?_⟩
    by_cases hk : k = id
    · subst hk; simp [step, one, hs, get_set_self]
    · simp [step, one, get_set_ne _ _ _ _ hk]
  · intro oc hp hst
    have hs := stepP_claim_absent_part (amt := s.amt) id (get s.cur id) p oc hp hst
    refine ⟨by simp [step, one, hs], fun k => ?_⟩
    by_cases hk : k = id
    · subst hk; simp [step, one, hs, get_set_self]
    · simp [step, one, get_set_ne _ _ _ _ hk]
  · intro op hop
    rcases hop with rfl | rfl | rfl | ⟨a, pm, rfl⟩ <;> exact key s _ rfl

-- the duplicate fulfil after a reconnect: PaymentSent once, the second claim is silent
example : (run init [.send 1 [1], .claim 1 1 false, .claim 1 1 false, .finalize 1 1, .finalize 1 1, .claim 1 1 true]).2 =
    [.sent 1, .pathOk 1 1] := by decide

/-- An id is dropped from the map (by any op other than a restart) only when it holds no part — the only part it
    may still hold is the one that the removing `fail_htlc` is resolving.  Hence "not listed ⇒ no HTLC of it is in
    flight ⇒ safe to retry" as long as every in-flight HTLC is one of the entry's parts. -/
theorem absent_implies_no_part (s : State) (op : Op) (id : PayId) (hop : op ≠ .restore)
    (hpre : get s.cur id ≠ .absent) (hpost : get (step s op).1.cur id = .absent) :
    ∀ q ∈ (get s.cur id).parts, ∃ a pm, op = .fail id q a pm := by
  rw [step_get s op id hop] at hpost
  unfold projStep at hpost
  cases hp : proj id s op with
  | none => simp [hp] at hpost; exact (hpre hpost).elim
  | some pop =>
    simp only [hp] at hpost
    intro q hq
    obtain ⟨a, pm, hpop⟩ := stepP_drop id _ pop hpre hpost q hq
    subst hpop
    refine ⟨a, pm, ?_⟩
    cases op <;> simp only [proj] at hp <;> (try split at hp) <;> simp_all

-- a fulfilled payment with an unresolved part is kept however many timer ticks pass
example : get (run init ([.send 1 [1, 2], .claim 1 1 true, .handle] ++ List.replicate 20 .tick)).1.cur 1 =
    .fulfilled [2] 0 := by decide
-- ... and is dropped IDEMPOTENCY_TIMEOUT_TICKS + 1 ticks after its last part and its last pending event are gone
example : get (run init ([.send 1 [1], .claim 1 1 true, .handle] ++ List.replicate 7 .tick)).1.cur 1 = .fulfilled [] 7 ∧
    get (run init ([.send 1 [1], .claim 1 1 true, .handle] ++ List.replicate 8 .tick)).1.cur 1 = .absent ∧
    get (run init ([.send 1 [1], .claim 1 1 true] ++ List.replicate 20 .tick)).1.cur 1 = .fulfilled [] 0 := by decide

/-- Restarts never turn a claimed payment into a failed one, and `PaymentSent` always stems from a claim.
    `truth p` says that the HTLC of part `p` is resolved by the recipient's claim.  Let the entry of `id`, both in
    the live map and in the persisted map, be `Good`: gone, Fulfilled, or still holding a part with `truth`.
    Then for EVERY continuation — any number of `persist`/`restore` (restarts), monitor replays
    (`insert`/`claim`/`fail`), retries, abandons, ticks, any activity on other ids — in which the id is not sent
    afresh and the resolutions reported for its parts agree with `truth` (and monitors re-insert only parts that
    `truth` marks claimed), no `PaymentFailed` is ever pushed for `id`.  Conversely, over every op list whatsoever,
    a `PaymentSent` for `id` requires a `claim_htlc` call for `id`.
    PARTIAL — what is missing: (a) that a legally persisted ChannelManager + ChannelMonitor pair yields a `Good`
    entry after `restore` + `insert_from_monitor_on_startup` whenever `PaymentSent` was already reported is an
    assumption here (it is the manager/monitor coupling of C10; it fails for a manager written before the
    payment was sent when the claimed part's monitor no longer reports it — `htlcs_resolved_to_user` — while a
    failed part's monitor still does); (b) "after `PaymentFailed` no claim for the id can arrive" is a fact about
    the HTLCs (all of them failed), not about this module. -/
theorem restart_never_contradicts_partial (truth : PartId → Bool) (id : PayId) (s : State) (ops : List Op)
    (hwf : WF s) :
    (Good truth (get s.cur id) → Good truth (get s.snapCur id) → (∀ op ∈ ops, OkFor truth id op) →
        nFailed id (run s ops).2 = 0) ∧
    (nSent id (run s ops).2 > 0 → ∃ p oc, Op.claim id p oc ∈ ops) :=
  ⟨fun hc hs hok => good_run truth id ops s hwf hc hs hok, sent_needs_claim id ops s hwf⟩

-- PaymentSent was reported, the manager was last written before the claim, the restart replays claim and fail:
-- the event is repeated, never contradicted
example : (run init ([.send 1 [1, 2], .persist, .claim 1 1 false, .fail 1 2 false false, .handle] ++
      restartOps [(1, 1, .claimed), (1, 2, .failed false false)])).2 = [.sent 1, .sent 1, .pathOk 1 1] := by decide
-- the hypothesis is needed: a manager written before the send, a monitor view that has forgotten the claimed part
example : (run init ([.persist, .send 1 [1, 2], .claim 1 1 true, .handle] ++
      restartOps [(1, 2, .failed false false)])).2 = [.sent 1, .pathOk 1 1, .pathFailed 1 2, .failed 1 .retriesExhausted] := by
  decide

/-! ## Send results: which HTLCs of a payment are in flight

    One send / retry call (`sendR` / `retryR`) carries an ARBITRARY per-path result vector: `ok`, `mip`
    (Err(MonitorUpdateInProgress): the HTLC is committed to the channel, it goes out when the monitor update
    completes), `err` (any other error: never sent), `bad` (the path fails pay_route_internal's parameter check:
    nothing of the call is sent).  What `pay_route_internal` / `handle_pay_route_err` /
    `push_path_failed_evs_and_scids` / `PendingOutboundPayment::{insert, remove}` make of it is
    `Generated/OutboundSend.lean`, re-translated from outbound_payment.rs on every run.
    `flight id s fl ops` is the GROUND TRUTH kept by an observer of the two interfaces only (Model/OutboundPay.lean,
    `flightP`): a part enters when it was handed to `send_payment_along_path` and the answer was `Ok` or
    `MonitorUpdateInProgress`, and leaves when `fail_htlc` / `finalize_claims` / `claim_htlc(from_onchain)` resolves
    it.  `Tracks amt st fl`: the entry's `session_privs` are exactly `fl` (no part twice) and, while Retryable, its
    `pending_amt_msat` is the sum of their amounts.  `NoRestart ops`: no `restore`, no start-up `insert`. -/

/-- The link between the translated source and the ground truth, for EVERY result vector that passed the parameter
    checks: `pay_route_internal` returns `Ok(())` only if every HTLC is in flight; otherwise the match arm of
    `handle_pay_route_err` selected by the returned `PaymentSendFailure` removes the session priv of a path iff its
    HTLC is NOT in flight — in particular a `MonitorUpdateInProgress` path is never removed. -/
theorem send_results_classified (amt : Amt) (paths : List (PartId × PathIn)) (hnb : ∀ x ∈ paths, x.2 ≠ .bad) :
    (OutboundSendGen.sendKindOf (flagsOf amt (sendResults paths)) = .sentAll → ∀ x ∈ paths, x.2.inFlight = true) ∧
    (OutboundSendGen.sendKindOf (flagsOf amt (sendResults paths)) ≠ .sentAll →
      ∀ x ∈ paths, OutboundSendGen.handleRemoves (OutboundSendGen.sendKindOf (flagsOf amt (sendResults paths))) x.2.sendRes =
        !x.2.inFlight) :=
  classify_spec paths hnb

-- the seeded trigger: one path paused behind a monitor update, one path refused: PartialFailure with retry
-- parameters; the paused path's session priv stays, the refused one goes
example : OutboundSendGen.sendKindOf (flagsOf (fun _ => 5) (sendResults [(1, .mip), (2, .err)])) = .partialRetry ∧
    OutboundSendGen.handleRemoves .partialRetry PathIn.mip.sendRes = false ∧
    OutboundSendGen.handleRemoves .partialRetry PathIn.err.sendRes = true := by decide

/-- `remove_outbound_if_all_failed` (send_probe, test_send_payment_internal) drops the freshly added entry wholesale —
    no event, the id is free again — only for failure kinds that leave NO HTLC in flight: whatever the result vector,
    if the entry is dropped then no path was accepted (a lone `MonitorUpdateInProgress` is a PartialFailure: kept). -/
theorem entry_dropped_on_send_failure_only_if_nothing_in_flight (amt : Amt) (paths : List (PartId × PathIn))
    (hnb : ∀ x ∈ paths, x.2 ≠ .bad)
    (hd : OutboundSendGen.probeDropsEntry (OutboundSendGen.sendKindOf (flagsOf amt (sendResults paths))) = true) :
    ∀ x ∈ paths, x.2.inFlight = false := by
  obtain ⟨_, c2⟩ := classify_spec (amt := amt) paths hnb
  have hr : ∀ f : OutboundSendGen.Flags, OutboundSendGen.sendKindOf f = .sentAll ∨ OutboundSendGen.sendKindOf f = .allFailedResendSafe ∨
      OutboundSendGen.sendKindOf f = .partialRetry ∨ OutboundSendGen.sendKindOf f = .partialNoRetry := by
    intro f; unfold OutboundSendGen.sendKindOf; split <;> (try split) <;> simp
  intro x hx
  rcases hr (flagsOf amt (sendResults paths)) with hk | hk | hk | hk
  · rw [hk] at hd; simp [OutboundSendGen.probeDropsEntry] at hd
  · have := c2 (by rw [hk]; simp) x hx
    rw [hk] at this
    simpa [OutboundSendGen.handleRemoves] using this.symm
  · rw [hk] at hd; simp [OutboundSendGen.probeDropsEntry] at hd
  · rw [hk] at hd; simp [OutboundSendGen.probeDropsEntry] at hd

example : OutboundSendGen.probeDropsEntry (OutboundSendGen.sendKindOf (flagsOf (fun _ => 5) (sendResults [(1, .mip)]))) = false ∧
    OutboundSendGen.probeDropsEntry (OutboundSendGen.sendKindOf (flagsOf (fun _ => 5) (sendResults [(1, .err)]))) = true := by decide

/-- The set of in-flight parts tracked by the payment equals exactly the parts whose HTLC is actually in flight —
    over ALL op lists without restart (any sends / retries with any per-path result vectors, resolutions in any
    order, duplicates, abandons, sweeps, ticks, activity on other ids), from any state that tracks `fl` (`init`: `[]`). -/
theorem in_flight_tracked (id : PayId) (s : State) (ops : List Op) (fl : List PartId) (hnr : NoRestart ops)
    (h0 : Tracks s.amt (get s.cur id) fl) :
    (get (run s ops).1.cur id).parts = flight id s fl ops ∧ (flight id s fl ops).Nodup :=
  ⟨(tracks_run id ops s fl hnr h0).1, (tracks_run id ops s fl hnr h0).2.1⟩

/-- While the payment is Retryable its pending amount (`pending_amt_msat`) equals the sum over the in-flight parts. -/
theorem pending_amount_is_in_flight_sum (id : PayId) (s : State) (ops : List Op) (fl : List PartId) (hnr : NoRestart ops)
    (h0 : Tracks s.amt (get s.cur id) fl) (ps : List PartId) (pe to : Nat)
    (hst : get (run s ops).1.cur id = .retryable ps pe to) :
    pe = sumAmt s.amt (flight id s fl ops) := by
  have h := tracks_run id ops s fl hnr h0
  rw [← h.1, hst]; exact h.2.2 ps pe to hst

/-- Hence a retry issued by `check_retry_payments` asks the router for exactly the amount that is NOT in flight:
    never is an in-flight amount sent again. -/
theorem retry_requests_missing_amount (id : PayId) (s : State) (ops : List Op) (fl : List PartId) (hnr : NoRestart ops)
    (h0 : Tracks s.amt (get s.cur id) fl) (ps : List PartId) (pe to : Nat)
    (hst : get (run s ops).1.cur id = .retryable ps pe to) (hw : OutboundSendGen.wantsRetry pe to = true) :
    OutboundSendGen.retryValue pe to + sumAmt s.amt (flight id s fl ops) = to := by
  have := pending_amount_is_in_flight_sum id s ops fl hnr h0 ps pe to hst
  unfold OutboundSendGen.wantsRetry at hw
  unfold OutboundSendGen.retryValue
  have hlt : pe < to := by simpa using hw
  omega

/-- `PaymentFailed` is emitted only when the in-flight set is empty: whichever op pushes it, afterwards no HTLC of the
    payment is in flight and the entry is gone. -/
theorem failed_only_when_nothing_in_flight (id : PayId) (s : State) (ops : List Op) (op : Op) (fl : List PartId)
    (hwf : WF s) (hnr : NoRestart (ops ++ [op])) (h0 : Tracks s.amt (get s.cur id) fl)
    (hf : nFailed id (step (run s ops).1 op).2.evs ≥ 1) :
    flight id s fl (ops ++ [op]) = [] ∧ get (run s (ops ++ [op])).1.cur id = .absent := by
  have hnr1 : NoRestart ops := fun o ho => hnr o (List.mem_append_left _ ho)
  have hop := not_restart op (hnr op (by simp))
  have ht := tracks_run id ops s fl hnr1 h0
  rw [← run_amt ops s] at ht
  obtain ⟨h1, h2⟩ := failed_global_step id (run s ops).1 op _ (wf_run ops s hwf) hop ht hf
  rw [flight_append, run_append]
  exact ⟨h2, h1⟩

/-- A `PaymentPathFailed` — from a resolution or from the initial-send handling of a send / retry call — names a part
    whose HTLC is not in flight afterwards (never a path that is paused behind a monitor update). -/
theorem path_failed_names_no_in_flight_part (id : PayId) (s : State) (ops : List Op) (op : Op) (fl : List PartId)
    (hwf : WF s) (hnr : NoRestart (ops ++ [op])) (h0 : Tracks s.amt (get s.cur id) fl) (p : PartId)
    (hp : Ev.pathFailed id p ∈ (step (run s ops).1 op).2.evs) : p ∉ flight id s fl (ops ++ [op]) := by
  have hnr1 : NoRestart ops := fun o ho => hnr o (List.mem_append_left _ ho)
  have hop := not_restart op (hnr op (by simp))
  have ht := tracks_run id ops s fl hnr1 h0
  rw [← run_amt ops s] at ht
  rw [flight_append]
  exact pathFailed_global_step id (run s ops).1 op _ (wf_run ops s hwf) hop ht p hp

/-- An id that is no longer listed has no HTLC in flight (so re-using the id is safe). -/
theorem dropped_only_when_nothing_in_flight (id : PayId) (s : State) (ops : List Op) (fl : List PartId)
    (hnr : NoRestart ops) (h0 : Tracks s.amt (get s.cur id) fl) (habs : get (run s ops).1.cur id = .absent) :
    flight id s fl ops = [] := by
  have h := (tracks_run id ops s fl hnr h0).1
  rw [habs] at h; exact h.symm

/-- a state with amounts for the examples -/
def s1000 : State := { amt := fun p => 1000 + p }

-- MPP send, path 1 paused behind a monitor update, path 2 refused; the retry finds no route: the payment is
-- Abandoned but NOT failed while HTLC 1 is in flight; its later failure is the terminal event
example : Tracks s1000.amt (get s1000.cur 1) [] ∧
    NoRestart [.sendR 1 [(1, .mip), (2, .err)] false, .abandon 1 .routeNotFound, .fail 1 1 false false] ∧
    (run s1000 [.sendR 1 [(1, .mip), (2, .err)] false]).2 = [.pathFailed 1 2] ∧
    get (run s1000 [.sendR 1 [(1, .mip), (2, .err)] false]).1.cur 1 = .retryable [1] 1001 2003 ∧
    flight 1 s1000 [] [.sendR 1 [(1, .mip), (2, .err)] false] = [1] ∧
    (run s1000 [.sendR 1 [(1, .mip), (2, .err)] false, .abandon 1 .routeNotFound]).2 = [.pathFailed 1 2] ∧
    get (run s1000 [.sendR 1 [(1, .mip), (2, .err)] false, .abandon 1 .routeNotFound]).1.cur 1 = .abandoned [1] .routeNotFound ∧
    (run s1000 [.sendR 1 [(1, .mip), (2, .err)] false, .abandon 1 .routeNotFound, .fail 1 1 false false]).2 =
      [.pathFailed 1 2, .pathFailed 1 1, .failed 1 .routeNotFound] := by
  refine ⟨tracks_nil_absent, by decide, by decide, by decide, by decide, by decide, by decide, by decide⟩

-- every path refused: AllFailedResendSafe, nothing in flight, the retry re-sends the whole amount
example : get (run s1000 [.sendR 1 [(1, .err), (2, .err)] false, .retryR 1 [(3, .ok), (4, .mip)] true false]).1.cur 1 =
      .retryable [3, 4] 2007 2003 ∧
    flight 1 s1000 [] [.sendR 1 [(1, .err), (2, .err)] false, .retryR 1 [(3, .ok), (4, .mip)] true false] = [3, 4] := by
  decide

-- a route refused by the parameter check: added, emptied, abandoned and dropped in one call
example : (run s1000 [.sendR 1 [(1, .ok), (2, .bad)] false]).2 = [.pathFailed 1 2, .failed 1 .unexpectedError] ∧
    get (run s1000 [.sendR 1 [(1, .ok), (2, .bad)] false]).1.cur 1 = .absent ∧
    flight 1 s1000 [] [.sendR 1 [(1, .ok), (2, .bad)] false] = [] := by decide


/-! ## Routing fees: `pending_fee_msat`, `remaining_max_total_routing_fee_msat`, `PaymentSent.fee_paid_msat`

    `OutboundFee.Ledger` (Model/OutboundFee.lean) is the fee side of one `Retryable` entry; its arithmetic is
    `Generated/OutboundFee.lean`, re-translated from `PendingOutboundPayment::{insert, remove}` on every run.
    An op list is ANY interleaving of `insert` (create_pending_payment, find_route_and_send_payment,
    insert_from_monitor_on_startup) and `remove` (fail_htlc, handle_pay_route_err, claim from on-chain) calls, with
    duplicates and unknown session privs. -/

/-- `pending_fee_msat` is exactly the sum of the path fees of the parts the entry holds — for every op list, with or
    without a fee budget; in particular the `-=` of `remove` never underflows. -/
theorem pending_fee_is_in_flight_fee_sum (routeMax : Option Nat) (ops : List OutboundFee.FOp) :
    ((OutboundFee.Ledger.new routeMax).run ops).fee = some ((OutboundFee.Ledger.new routeMax).run ops).sumFees ∧
    (OutboundFee.keysF ((OutboundFee.Ledger.new routeMax).run ops).parts).Nodup := by
  have h := OutboundFee.invFee_run ops (OutboundFee.Ledger.new routeMax)
    ⟨by simp [OutboundFee.Ledger.new, OutboundFee.keysF], by simp [OutboundFee.Ledger.new, OutboundFeeGen.newFee, OutboundFee.sumF]⟩
  exact ⟨h.fee, h.nodup⟩

example : ((OutboundFee.Ledger.new (some 5000)).run [.ins 1 1000, .ins 2 2000, .rem 1, .rem 1, .rem 9, .ins 3 500]).fee = some 2500 := by
  decide

/-- The fees of all parts in flight never exceed `max_total_routing_fee_msat` — as long as every route handed back by
    the router keeps within the budget it was asked with (`Fits`: each inserted path's fee fits what is left; the
    budget handed to the router IS the ledger's `remaining_max_total_routing_fee_msat`, `retryBudget`).  Then
    fee in flight + budget left = the initial budget after every op, for every op list. -/
theorem fees_in_flight_never_exceed_max (m : Nat) (hm : m ≤ OutboundFeeGen.U64_MAX) (ops : List OutboundFee.FOp)
    (hfit : OutboundFee.Fits (OutboundFee.Ledger.new (some m)) ops) :
    ∃ r, ((OutboundFee.Ledger.new (some m)).run ops).rem = some r ∧
      ((OutboundFee.Ledger.new (some m)).run ops).sumFees + r = m ∧
      ((OutboundFee.Ledger.new (some m)).run ops).sumFees ≤ m := by
  have h := OutboundFee.inv_run (some m) ops _ (OutboundFee.inv_new (some m) (by intro mm h; cases h; exact hm)) hfit
  obtain ⟨r, hr, hs, _⟩ := h.rem
  exact ⟨r, hr, hs, by unfold OutboundFee.Ledger.sumFees; unfold OutboundFee.sumF at hs; omega⟩

example : OutboundFee.Fits (OutboundFee.Ledger.new (some 3000)) [.ins 1 1000, .ins 2 2000, .rem 1, .ins 3 900] ∧
    ((OutboundFee.Ledger.new (some 3000)).run [.ins 1 1000, .ins 2 2000, .rem 1, .ins 3 900]).rem = some 100 := by
  refine ⟨?_, by decide⟩
  simp only [OutboundFee.Fits]
  refine ⟨fun _ r hr => ?_, fun _ r hr => ?_, fun _ r hr => ?_, trivial⟩ <;>
    (simp [OutboundFee.Ledger.new, OutboundFee.Ledger.insert, OutboundFee.Ledger.remove, OutboundFee.Ledger.has,
      OutboundFeeGen.newRemaining, OutboundFeeGen.newFee, OutboundFeeGen.insertRemaining, OutboundFeeGen.insertFee,
      OutboundFeeGen.removeRemaining, OutboundFeeGen.removeFee, OutboundFeeGen.U64_MAX] at hr; omega)
-- the hypothesis is needed: this module does not enforce the budget itself (`saturating_sub` hides an overdraft) — a
-- route whose fee exceeds what is left is accepted and the in-flight fees then exceed the maximum
example : ((OutboundFee.Ledger.new (some 1000)).run [.ins 1 900, .ins 2 900]).sumFees = 1800 ∧
    ((OutboundFee.Ledger.new (some 1000)).run [.ins 1 900, .ins 2 900]).rem = some 0 := by decide

/-- `PaymentSent.fee_paid_msat` (the pending fee read by claim_htlc before mark_fulfilled) is the sum of the path fees of
    the parts the payment holds when the first claim arrives: parts that failed while the payment was Retryable are
    not counted. -/
theorem sent_fee_is_sum_of_held_parts (routeMax : Option Nat) (ops : List OutboundFee.FOp) :
    ((OutboundFee.Ledger.new routeMax).run ops).feePaid = some ((OutboundFee.Ledger.new routeMax).run ops).sumFees :=
  (pending_fee_is_in_flight_fee_sum routeMax ops).1

example : ((OutboundFee.Ledger.new none).run [.ins 1 1000, .ins 2 1000, .rem 2]).feePaid = some 1000 := by decide


/-! ## Retry strategies: how often the router is asked

    `OutboundRetry.RetrySt` (Model/OutboundRetry.lean) is the retry side of one payment (`retry_strategy`,
    `attempts.count`, still-`Retryable`); one `call` = one `find_route_and_send_payment` after the router answered
    (`noRoute`, a route that fails the overflow test, a route).  The gate expressions are generated from
    `Retry::is_retryable_now` and `PendingOutboundPayment::{is_retryable_now, is_auto_retryable_now}`; the translator
    pins that the router is asked before the gate and that `increment_attempts()` runs once per passing call.
    `run` returns (final state, calls that sent HTLCs, router calls made while the entry was Retryable); calls are
    arbitrary: chained by handle_pay_route_err, issued by check_retry_payments, or aimed at a payment that is gone. -/

/-- `Retry::Attempts(n)`: whatever the call list, at most `n` retries send HTLCs, and the router is asked at most `n + 1`
    times for a payment that is still Retryable (the extra call is the one that finds the budget exhausted and abandons
    the payment); after that no call sends anything. -/
theorem retry_calls_bounded_by_attempts (n : Nat) (calls : List (Nat × OutboundRetry.Answer)) :
    (({ strategy := .attempts n } : OutboundRetry.RetrySt).run calls).2.1 ≤ n ∧
    (({ strategy := .attempts n } : OutboundRetry.RetrySt).run calls).2.2 ≤ n + 1 := by
  exact OutboundRetry.attempts_bound n calls _ rfl rfl rfl

example : (({ strategy := .attempts 2 } : OutboundRetry.RetrySt).run
    [(0, .route), (0, .route), (0, .route), (0, .route), (0, .route)]).2 = (2, 3) := by decide

/-- `Retry::Timeout(d)` with injected time: a call made later than `d` after the first attempt never sends HTLCs — from
    any state of the payment. -/
theorem timeout_retries_only_within_duration (d : Nat) (r : OutboundRetry.RetrySt) (calls : List (Nat × OutboundRetry.Answer))
    (hs : r.strategy = .timeout d) (hlate : ∀ c ∈ calls, c.1 > d) : (r.run calls).2.1 = 0 :=
  OutboundRetry.run_timeout d calls r hs hlate

example : (({ strategy := .timeout 10 } : OutboundRetry.RetrySt).run [(3, .route), (10, .route), (11, .route), (4, .route)]).2 = (2, 3) := by
  decide

/-- check_retry_payments retries a payment only if `is_auto_retryable_now()`: never a payment without a retry strategy
    (manual retries), never one that has left `Retryable`, never one whose gate is closed; and a call for a payment that
    has left `Retryable` sends nothing and leaves it as it is. -/
theorem auto_retry_only_when_gate_open (r : OutboundRetry.RetrySt) (elapsed : Nat) :
    (r.isAutoRetryableNow elapsed = true →
        r.strategy ≠ .manual ∧ r.retryable = true ∧ r.paramsSome = true ∧ r.strategy.gate r.count elapsed = true) ∧
    (r.retryable = false → ∀ a, r.call elapsed a = (r, false)) := by
  constructor
  · intro h
    unfold OutboundRetry.RetrySt.isAutoRetryableNow OutboundSendGen.isAutoRetryableNow OutboundRetry.RetrySt.variant at h
    cases hs : r.strategy <;> cases hr : r.retryable <;> cases hp : r.paramsSome <;>
      simp_all [OutboundRetry.Strategy.isSome]
  · intro h a; simp [OutboundRetry.RetrySt.call, h]

example : ({ strategy := .attempts 1 } : OutboundRetry.RetrySt).isAutoRetryableNow 0 = true ∧
    ({ strategy := .attempts 1, count := 1 } : OutboundRetry.RetrySt).isAutoRetryableNow 0 = false ∧
    ({ strategy := .manual } : OutboundRetry.RetrySt).isAutoRetryableNow 0 = false ∧
    ({ strategy := .manual } : OutboundRetry.RetrySt).isRetryableNow 0 = true := by decide


/-! ## Probes (`send_probe`)

    A probe is a single-path entry of the same map; `fail_htlc` recognises it by its payment hash (`payment_is_probe`).
    `OutboundProbe.failProbe` runs the generated decisions of fail_htlc with `payment_is_probe = true` on the same
    `PState` (Model/OutboundProbe.lean); `abandon` / `sweep` / `tick` are the ordinary `stepP` ops. -/

/-- A probe reports exactly one outcome, and nothing else.  After `send_probe` with ANY per-path result: either no entry
    is left and then no HTLC is in flight (the probe was not sent: no event will come), or the HTLC is in flight and
    then for EVERY later op list (failures of its HTLC incl. duplicates and foreign session privs, with any flags;
    abandon_payment; check_retry_payments sweeps; timer ticks): every event pushed for the id is `ProbeSuccessful` or
    `ProbeFailed` for its path — never `PaymentSent` / `PaymentFailed` / `PaymentPathFailed` —, at most one is pushed,
    exactly one once the entry is gone, and the failure of its HTLC always ends it at once. -/
theorem probe_exactly_one_outcome (amt : Amt) (id : PayId) (p : PartId) (res : PathIn) (ops : List OutboundProbe.ProbeOp) :
    ((OutboundProbe.sendProbe amt .absent p res).1 = .absent ∧ res.inFlight = false) ∨
    (res.inFlight = true ∧
      (∀ e ∈ (OutboundProbe.runProbe amt id (OutboundProbe.sendProbe amt .absent p res).1 ops).2,
          e = .probeSuccessful p ∨ e = .probeFailed p) ∧
      (OutboundProbe.runProbe amt id (OutboundProbe.sendProbe amt .absent p res).1 ops).2.length ≤ 1 ∧
      ((OutboundProbe.runProbe amt id (OutboundProbe.sendProbe amt .absent p res).1 ops).1 = .absent ↔
        (OutboundProbe.runProbe amt id (OutboundProbe.sendProbe amt .absent p res).1 ops).2.length = 1) ∧
      (∀ auto perm, (OutboundProbe.failProbe amt (OutboundProbe.sendProbe amt .absent p res).1 p auto perm).1 = .absent ∧
        (OutboundProbe.failProbe amt (OutboundProbe.sendProbe amt .absent p res).1 p auto perm).2 =
          [if perm then .probeSuccessful p else .probeFailed p])) := by
  rcases OutboundProbe.sendProbe_cases amt p res with h | ⟨hl, hf⟩
  · exact Or.inl h
  · right
    refine ⟨hf, ?_, ?_, ?_, fun auto perm => OutboundProbe.failProbe_own amt p auto perm _ hl⟩
    all_goals rcases OutboundProbe.run_live amt id p ops _ hl with ⟨hl', he⟩ | ⟨ha, e, he, ho⟩
    · rw [he]; simp
    · rw [he]; intro e' he'; simp at he'; subst he'; exact ho
    · rw [he]; simp
    · rw [he]; simp
    · rw [he]
      rcases hl' with ⟨a, t, h1⟩ | ⟨r, h1⟩ <;> simp [h1]
    · rw [he, ha]; simp

-- paused behind a monitor update: send_probe answers Err, but the entry stays and the outcome is reported later
example : OutboundProbe.sendProbe (fun _ => 7) .absent 1 .mip = (.retryable [1] 7 7, false) ∧
    OutboundProbe.runProbe (fun _ => 7) 5 (.retryable [1] 7 7)
      [.tick false, .fail 2 false false, .abandon .userAbandoned, .sweep false, .fail 1 false true, .fail 1 false true] =
      (.absent, [.probeSuccessful 1]) ∧
    OutboundProbe.sendProbe (fun _ => 7) .absent 1 .err = (.absent, false) := by decide


/-! ## Restarts from a stale manager -/

/-- Restarts from ANY earlier snapshot of the manager never turn a claimed payment into a failed one.
    Compared with `restart_never_contradicts_partial` the run may contain the send itself (so the snapshot may predate
    it), and at every start-up the monitors may re-insert ANY part they still report — failed and pending ones too, in
    any order, interleaved with other payments (`insert_from_monitor_on_startup` runs for every HTLC of every closed
    channel's monitor).  `AllOk` (Proofs/OutboundRestart.lean, `OkAt`) admits, in each state: `restore` and `insert`
    always; the creating send if it contains a part that `truth` marks claimed; anything else that touches the payment
    (replayed or live claims / fails agreeing with `truth`, abandon, retries, sweeps, ticks, persist) only once the entry
    is `Good` — gone, Fulfilled, or holding a claimed part.
    PARTIAL — the one thing still assumed: after a restart, by the time the first replayed resolution (or anything other
    than a further insert) reaches the rebuilt entry, it is Good; i.e. the restored snapshot already knew a claimed part /
    the fulfilment, or the monitors still report a claimed part.  It fails exactly when the claimed part has been
    released by its monitor (`htlcs_resolved_to_user`, after the user handled PaymentSent) while the manager on disk
    predates the send and a failed part is still reported: the second example below.  That release-before-manager-write
    window is ChannelManager / ChannelMonitor coupling (C10), not part of this module.  Also not covered: a payment whose
    claimed part is first sent by a later RETRY (the creating send must contain a part that `truth` marks claimed). -/
theorem restart_from_stale_manager_never_contradicts_partial (truth : PartId → Bool) (id : PayId) (s : State)
    (ops : List Op) (hwf : WF s) (hc : Good truth (get s.cur id)) (hs : Good truth (get s.snapCur id))
    (hok : AllOk truth id s ops) : nFailed id (run s ops).2 = 0 :=
  stale_run truth id ops s hwf (Or.inl hc) hs hok

-- the manager on disk predates the send; the monitors report the failed part first, then the claimed one: admissible,
-- PaymentSent is repeated, never contradicted
example : AllOk (fun p => p == 1) 1 init
      [.persist, .send 1 [1, 2], .claim 1 1 false, .handle, .restore, .insert 1 2, .insert 1 1, .claim 1 1 true,
       .fail 1 2 false false] ∧
    (run init [.persist, .send 1 [1, 2], .claim 1 1 false, .handle, .restore, .insert 1 2, .insert 1 1, .claim 1 1 true,
       .fail 1 2 false false]).2 = [.sent 1, .sent 1, .pathOk 1 1] := by decide
-- the hypothesis fails (and PaymentFailed follows PaymentSent) when the claimed part is no longer reported and the manager
-- on disk predates the send
example : ¬ AllOk (fun p => p == 1) 1 init
      [.persist, .send 1 [1, 2], .claim 1 1 true, .handle, .restore, .insert 1 2, .fail 1 2 false false] ∧
    (run init [.persist, .send 1 [1, 2], .claim 1 1 true, .handle, .restore, .insert 1 2, .fail 1 2 false false]).2 =
      [.sent 1, .pathOk 1 1, .pathFailed 1 2, .failed 1 .retriesExhausted] := by decide

/-! ### Restart reconstruction from the monitors: `ChannelMonitor::get_onchain_failed_outbound_htlcs`
    (Model/OnchainFailed.lean over Generated/OnchainFailed.lean). `ChannelManager::read` reports every source in
    `onchainFailed m` as failed (`PaymentPathFailed`, `PaymentFailed` once no part is left). Quantified over EVERY monitor
    view `m` (any txids, any HTLC lists, any awaiting / resolved entries). -/
section OnchainFailed
open Ldk.OnchainFailed

/-- An outbound HTLC with a LIVE NON-DUST OUTPUT in the confirmed commitment transaction is never reported failed on
    restart — whichever of the four commitment transactions a monitor can see confirmed it is (current or previous
    unrevoked counterparty commitment, current or previous holder commitment; `commitmentHtlcs` is the specification,
    independent of the translated arm tests). -/
theorem live_output_never_reported_failed_on_restart (m : Mon) (t s : Nat)
    (hconf : confirmedTxid m = some t)
    (hin : ∃ h ∈ commitmentHtlcs m t, h.src = some s)
    (hlive : ∀ h ∈ commitmentHtlcs m t, h.src = some s → ∃ i, h.outIdx = some i ∧ Live m i) :
    s ∉ onchainFailed m := by
  intro hmem
  obtain ⟨t', ht', c, _, hw⟩ := (mem_onchainFailed m s).mp hmem
  have : t' = t := by rw [hconf] at ht'; exact (Option.some.inj ht').symm
  subst this
  have hc := walkOne_src m _ c s hw
  have hex : ∃ h ∈ confirmedHtlcs m t', h.src = some s := by
    obtain ⟨h, hm, hs⟩ := hin
    exact ⟨h, (mem_confirmedHtlcs m t' h (by simp [hs])).mpr hm, hs⟩
  have hall : ∀ h ∈ confirmedHtlcs m t', h.src = some s → ∃ i, h.outIdx = some i ∧ Live m i :=
    fun h hm hs => hlive h ((mem_confirmedHtlcs m t' h (by simp [hs])).mp hm) hs
  rw [walkOne_live m _ c s hc hex hall] at hw
  cases hw

/-- the round-5 situation: the counterparty's PREVIOUS (unrevoked) commitment 7 confirmed 6 deep; HTLC 1 has output 0 in
    it, HTLC 2 exists only in the current counterparty commitment 8: only 2 is reported -/
def prevCpConfirmed : Mon :=
  { best := 106, fundingSpendConfirmed := none, awaiting := [⟨7, 101, true⟩], curCp := some 8, prevCp := some 7,
    cpCur := [⟨some 1, some 0⟩, ⟨some 2, some 1⟩], cpPrev := [⟨some 1, some 0⟩, ⟨none, some 2⟩], holderCurTxid := 9,
    holderCur := [⟨some 1, some 0⟩], holderPrev := none, resolvedToUser := [], resolvedOnChain := [] }

example : confirmedTxid prevCpConfirmed = some 7 ∧ onchainFailed prevCpConfirmed = [2] ∧
    (∃ h ∈ commitmentHtlcs prevCpConfirmed 7, h.src = some 1) := by decide
-- once the output is resolved WITHOUT a preimage (our timeout claim buried) the HTLC is reported; with a preimage it is not
example : onchainFailed { prevCpConfirmed with resolvedOnChain := [⟨some 0, none⟩] } = [1, 2, 1] ∧
    onchainFailed { prevCpConfirmed with resolvedOnChain := [⟨some 0, some 0⟩] } = [2] := by decide

/-- Nothing is reported failed while the funding spend has fewer than ANTI_REORG_DELAY confirmations (`best - height + 1`)
    and `funding_spend_confirmed` is not set. -/
theorem nothing_reported_failed_before_anti_reorg_delay (m : Mon) (h0 : m.fundingSpendConfirmed = none)
    (h1 : ∀ e ∈ m.awaiting, e.isFundingSpend = true → m.best + 1 < e.height + ANTI_REORG_DELAY) :
    onchainFailed m = [] := by
  unfold onchainFailed
  rw [confirmedTxid_none m h0 h1]

example : onchainFailed { prevCpConfirmed with best := 105 } = [] ∧ onchainFailed prevCpConfirmed ≠ [] := by decide

/-- What IS reported failed on restart has really failed on chain: the funding spend is irrevocably confirmed, the user has
    not been told yet, the HTLC is one of the unrevoked counterparty commitments' HTLCs, and in the confirmed commitment
    it is either absent, or dust, or its output was irrevocably resolved without a preimage. -/
theorem reported_failed_on_restart_is_failed_on_chain (m : Mon) (s : Nat) (h : s ∈ onchainFailed m) :
    ∃ t, confirmedTxid m = some t ∧ s ∉ m.resolvedToUser ∧ (∃ c ∈ candidateHtlcs m, c.src = some s) ∧
      ((∀ x ∈ commitmentHtlcs m t, x.src ≠ some s) ∨
       ∃ x ∈ commitmentHtlcs m t, x.src = some s ∧
         (x.outIdx = none ∨ ∃ r ∈ m.resolvedOnChain, r.outIdx = x.outIdx ∧ r.preimage = none)) := by
  obtain ⟨t, ht, c, hcm, hw⟩ := (mem_onchainFailed m s).mp h
  obtain ⟨hr, hcases⟩ := walkOne_some_cases m _ c s hw
  refine ⟨t, ht, hr, ⟨c, hcm, walkOne_src m _ c s hw⟩, ?_⟩
  rcases hcases with hn | ⟨x, hx, hs, hres⟩
  · left
    intro x hx hs
    exact hn x ((mem_confirmedHtlcs m t x (by simp [hs])).mpr hx) hs
  · right
    exact ⟨x, (mem_confirmedHtlcs m t x (by simp [hs])).mp hx, hs, hres⟩

example : 2 ∈ onchainFailed prevCpConfirmed := by decide

/-- Completeness for HTLCs that did not make it into the confirmed commitment: once the funding spend is irrevocably
    confirmed, a not yet reported HTLC of an unrevoked counterparty commitment that the confirmed commitment does not
    contain IS reported failed (so the payment reaches its terminal event after the restart). -/
theorem not_included_is_reported_failed_on_restart (m : Mon) (t s : Nat) (hconf : confirmedTxid m = some t)
    (hc : ∃ c ∈ candidateHtlcs m, c.src = some s) (hr : s ∉ m.resolvedToUser)
    (hn : ∀ x ∈ commitmentHtlcs m t, x.src ≠ some s) : s ∈ onchainFailed m := by
  obtain ⟨c, hcm, hcs⟩ := hc
  refine (mem_onchainFailed m s).mpr ⟨t, hconf, c, hcm, ?_⟩
  apply walkOne_not_included m _ c s hcs hr
  intro x hx hs
  exact hn x ((mem_confirmedHtlcs m t x (by simp [hs])).mp hx) hs

example : (∀ x ∈ commitmentHtlcs prevCpConfirmed 7, x.src ≠ some 2) ∧ 2 ∈ onchainFailed prevCpConfirmed := by decide

/-- An HTLC whose resolution the user has already handled (`htlcs_resolved_to_user`) is never reported again. -/
theorem resolved_to_user_never_reported_again (m : Mon) (s : Nat) (h : s ∈ m.resolvedToUser) : s ∉ onchainFailed m := by
  intro hm
  exact (reported_failed_on_restart_is_failed_on_chain m s hm).elim fun _ ht => ht.2.1 h

example : onchainFailed { prevCpConfirmed with resolvedToUser := [2] } = [] := by decide

/-- Every HTLC of BOTH unrevoked counterparty commitments is examined (the ones the sender may have to resolve: see
    `fail_unbroadcast_htlcs`): none is forgotten by the restart reconstruction. -/
theorem every_unrevoked_counterparty_htlc_is_examined (m : Mon) (a b : Nat) (ha : m.curCp = some a) (hb : m.prevCp = some b)
    (hab : a ≠ b) (h : Htlc) (hm : h ∈ m.cpCur ∨ h ∈ m.cpPrev) : h ∈ candidateHtlcs m := by
  have hba : ¬ (some a = some b) := fun e => hab (Option.some.inj e)
  rcases hm with hm | hm
  · simp [candidateHtlcs, OnchainFailedGen.candidates, cpHtlcs, ha, hb, hm]
  · simp [candidateHtlcs, OnchainFailedGen.candidates, cpHtlcs, ha, hb, hm, hab]

example : candidateHtlcs prevCpConfirmed = [⟨some 1, some 0⟩, ⟨some 2, some 1⟩, ⟨some 1, some 0⟩, ⟨none, some 2⟩] := by decide

/-- Restart never forgets an HTLC in flight: every outbound HTLC of either unrevoked counterparty commitment whose
    resolution the user has not handled yet is listed by `get_all_current_outbound_htlcs` (and therefore re-inserted into
    `pending_outbound_payments` by `ChannelManager::read`). -/
theorem unresolved_htlc_always_listed_on_restart (m : Mon) (a b : Nat) (ha : m.curCp = some a) (hb : m.prevCp = some b)
    (hab : a ≠ b) (h : Htlc) (s : Nat) (hm : h ∈ m.cpCur ∨ h ∈ m.cpPrev) (hs : h.src = some s)
    (hr : s ∉ m.resolvedToUser) : s ∈ allCurrentOutbound m := by
  unfold allCurrentOutbound
  rw [List.mem_filterMap]
  refine ⟨h, ?_, by simp [hs, OnchainFailedGen.listedUnresolved, hr]⟩
  rcases hm with hm | hm
  · simp [OnchainFailedGen.allCurrentLists, cpHtlcs, ha, hb, hm]
  · simp [OnchainFailedGen.allCurrentLists, cpHtlcs, ha, hb, hm, hab]

example : allCurrentOutbound prevCpConfirmed = [1, 2, 1] ∧
    allCurrentOutbound { prevCpConfirmed with resolvedToUser := [2] } = [1, 1] := by decide

/-- Whatever a restart reports failed on chain it has also listed (so `fail_htlc` finds the entry re-inserted by
    `insert_from_monitor_on_startup` and the failure yields its events instead of being dropped). -/
theorem reported_failed_on_restart_is_listed (m : Mon) (s : Nat) (h : s ∈ onchainFailed m) : s ∈ allCurrentOutbound m := by
  obtain ⟨_, _, hr, ⟨c, hc, hsrc⟩, _⟩ := reported_failed_on_restart_is_failed_on_chain m s h
  unfold allCurrentOutbound
  rw [List.mem_filterMap]
  refine ⟨c, ?_, by simp [hsrc, OnchainFailedGen.listedUnresolved, hr]⟩
  simpa [candidateHtlcs, OnchainFailedGen.candidates, OnchainFailedGen.allCurrentLists] using hc

example : onchainFailed prevCpConfirmed = [2] ∧ 2 ∈ allCurrentOutbound prevCpConfirmed := by decide

/-! #### Composition with `ChannelManager::read` (translated gates `channelClosed`, `readInserts`, `readResolves`; reduced entry
     semantics `outcomeOf`, see `partial`): a payment whose parts sit on SEVERAL channels, some closed on chain, some open. -/

/-- After a restart the payment is in exactly one of {PaymentSent, PaymentFailed, still pending} (`restartOutcome` is a
    function), and it is PaymentFailed ONLY IF every part it holds — persisted or re-inserted from a monitor — is reported
    failed on chain by the monitor of a CLOSED channel, hence (reported_failed_on_restart_is_failed_on_chain) absent from,
    dust in, or resolved without a preimage in that channel's irrevocably confirmed commitment transaction. -/
theorem restart_payment_failed_only_if_every_part_failed_on_chain_partial (persisted : List Nat) (vs : List ChanView)
    (h : restartOutcome persisted vs = .failed) :
    ∀ s ∈ persisted ++ vs.flatMap readInsertsOf, ∃ v ∈ vs, v.inMap = false ∧ s ∈ onchainFailed v.mon ∧
      ∃ t, confirmedTxid v.mon = some t ∧
        ((∀ x ∈ commitmentHtlcs v.mon t, x.src ≠ some s) ∨
         ∃ x ∈ commitmentHtlcs v.mon t, x.src = some s ∧
           (x.outIdx = none ∨ ∃ r ∈ v.mon.resolvedOnChain, r.outIdx = x.outIdx ∧ r.preimage = none)) := by
  intro s hs
  unfold restartOutcome outcomeOf at h
  split at h
  · cases h
  · split at h
    · rename_i hall
      simp only [Bool.and_eq_true, List.all_eq_true] at hall
      have hf := hall.2 s hs
      simp only [List.contains_iff_mem, List.mem_flatMap] at hf
      obtain ⟨v, hv, hsv⟩ := hf
      unfold readFailsOf at hsv
      split at hsv
      · rename_i hc
        have hin : v.inMap = false := by
          cases hi : v.inMap <;> simp [OnchainFailedGen.readResolves, OnchainFailedGen.channelClosed, hi] at hc ⊢
        obtain ⟨t, ht, _, _, hcases⟩ := reported_failed_on_restart_is_failed_on_chain v.mon s hsv
        exact ⟨v, hv, hin, hsv, t, ht, hcases⟩
      · cases hsv
    · cases h

/-- A part that no closed channel's monitor reports failed — because its channel is still open, or because it has a live
    non-dust output in the confirmed commitment (live_output_never_reported_failed_on_restart) — blocks PaymentFailed. -/
theorem part_in_flight_blocks_payment_failed_on_restart_partial (persisted : List Nat) (vs : List ChanView) (s : Nat)
    (hs : s ∈ persisted ++ vs.flatMap readInsertsOf)
    (hlive : ∀ v ∈ vs, v.inMap = false → s ∉ onchainFailed v.mon) : restartOutcome persisted vs ≠ .failed := by
  intro h
  obtain ⟨v, hv, hin, hf, _⟩ := restart_payment_failed_only_if_every_part_failed_on_chain_partial persisted vs h s hs
  exact hlive v hv hin hf

/-- two-part MPP payment, part 1 on a channel closed with the previous counterparty commitment (live output), part 2 on an OPEN
    channel: pending; with part 1 dust instead: still pending (part 2 is in flight); with every channel closed and both parts
    absent / dust: failed (last conjunct: the second channel closed too, part 2 not in its confirmed commitment); a preimage on the
    closed channel: sent -/
def mppOpen : ChanView := { inMap := true, mon := { prevCpConfirmed with cpCur := [⟨some 2, some 0⟩], cpPrev := [] }, preimages := [] }
def mppClosedLive : ChanView := { inMap := false, mon := { prevCpConfirmed with cpCur := [⟨some 1, some 0⟩] }, preimages := [] }
def mppClosedDust : ChanView :=
  { inMap := false, mon := { prevCpConfirmed with cpCur := [⟨some 1, none⟩], cpPrev := [⟨some 1, none⟩] }, preimages := [] }
example : restartOutcome [1, 2] [mppClosedLive, mppOpen] = .pending ∧ restartOutcome [1, 2] [mppClosedDust, mppOpen] = .pending ∧
    restartOutcome [1] [mppClosedDust] = .failed ∧ restartOutcome [] [mppClosedDust] = .failed ∧
    restartOutcome [1, 2] [{ mppClosedLive with preimages := [1] }, mppOpen] = .sent ∧
    restartOutcome [1, 2] [mppClosedDust, { mppOpen with inMap := false }] = .failed := by decide

end OnchainFailed

/-! ### The LIVE twin of the reconstruction: what is queued to fail when a commitment transaction confirms (round 6)

    `fail_unbroadcast_htlcs!` (chain/channelmonitor.rs) runs once when a commitment transaction is seen confirmed: every
    outbound HTLC of the two unrevoked counterparty commitments that is not matched in the confirmed commitment is queued
    as `HTLCUpdate { commitment_tx_output_idx: None }` and becomes `PaymentPathFailed` / `PaymentFailed` ANTI_REORG_DELAY
    blocks later. `failUnbroadcast` is built from the expressions translated by tools/gen_unbroadcast.py. Quantified over
    EVERY pair of candidate lists, every `counterparty_fulfilled_htlcs` set and every confirmed list. -/
section Unbroadcast
open Ldk.OnchainFailed Ldk.Unbroadcast

/-- An outbound HTLC that has a NON-DUST OUTPUT in the confirmed commitment transaction is never queued to fail by the
    confirmation (its fate is decided by who spends that output). -/
theorem live_output_never_queued_to_fail_on_confirmation (cpCur cpPrev : List BHtlc) (fulfilled : List Nat)
    (conf : List BHtlc) (s : Nat) (hin : ∃ b ∈ conf, b.src = some s ∧ b.outIdx.isSome = true) :
    s ∉ failUnbroadcast cpCur cpPrev fulfilled conf := by
  intro h
  obtain ⟨c, _, hc⟩ := (mem_failUnbroadcast cpCur cpPrev fulfilled conf s).mp h
  obtain ⟨_, hany, _⟩ := (checkOne_eq_some fulfilled conf c s).mp hc
  obtain ⟨b, hb, hs, ho⟩ := hin
  have : conf.any (matchedBy s c) = true := List.any_eq_true.mpr ⟨b, hb, matchedBy_same_source s c b hs ho⟩
  rw [this] at hany
  cases hany

/-- the counterparty's previous commitment confirms: HTLC 1 (hash 11) has output 0 in it, HTLC 2 exists only in the
    current counterparty commitment, HTLC 3 is dust in the confirmed one -/
def fuCur : List BHtlc := [⟨some 1, some 0, 11, 9000⟩, ⟨some 2, some 1, 12, 5000⟩, ⟨some 3, none, 13, 100⟩]
def fuConf : List BHtlc := [⟨some 1, some 0, 11, 9000⟩, ⟨none, some 2, 14, 7000⟩, ⟨some 3, none, 13, 100⟩]

example : failUnbroadcast fuCur fuConf [] fuConf = [2, 3, 3] ∧ (∃ b ∈ fuConf, b.src = some 1 ∧ b.outIdx.isSome = true) := by
  decide

/-- Soundness: what the confirmation queues to fail is an HTLC of an unrevoked counterparty commitment that the
    counterparty has not fulfilled off chain and that has NO non-dust output in the confirmed commitment (absent or dust). -/
theorem queued_to_fail_on_confirmation_is_absent_or_dust (cpCur cpPrev : List BHtlc) (fulfilled : List Nat)
    (conf : List BHtlc) (s : Nat) (h : s ∈ failUnbroadcast cpCur cpPrev fulfilled conf) :
    s ∉ fulfilled ∧ (∃ c, (c ∈ cpCur ∨ c ∈ cpPrev) ∧ c.src = some s) ∧ ∀ b ∈ conf, b.src = some s → b.outIdx = none := by
  obtain ⟨c, hcm, hc⟩ := (mem_failUnbroadcast cpCur cpPrev fulfilled conf s).mp h
  obtain ⟨hs, hany, hf⟩ := (checkOne_eq_some fulfilled conf c s).mp hc
  refine ⟨hf, ⟨c, hcm, hs⟩, ?_⟩
  intro b hb hbs
  cases ho : b.outIdx with
  | none => rfl
  | some i =>
    have : conf.any (matchedBy s c) = true :=
      List.any_eq_true.mpr ⟨b, hb, matchedBy_same_source s c b hbs (by simp [ho])⟩
    rw [this] at hany
    cases hany

example : 3 ∈ failUnbroadcast fuCur fuConf [] fuConf := by decide

/-- Completeness: an HTLC of an unrevoked counterparty commitment, not fulfilled off chain, that no entry of the
    confirmed commitment matches (same source with an output, or — for entries without a source — same hash and amount
    with an output) IS queued to fail: the payment reaches its terminal event without a restart. -/
theorem unbroadcast_htlc_is_queued_to_fail_on_confirmation (cpCur cpPrev : List BHtlc) (fulfilled : List Nat)
    (conf : List BHtlc) (c : BHtlc) (s : Nat) (hc : c ∈ cpCur ∨ c ∈ cpPrev) (hs : c.src = some s) (hf : s ∉ fulfilled)
    (hn : ∀ b ∈ conf, b.outIdx = none ∨ (b.src ≠ some s ∧ ¬ (b.src = none ∧ b.hash = c.hash ∧ b.amt = c.amt))) :
    s ∈ failUnbroadcast cpCur cpPrev fulfilled conf := by
  refine (mem_failUnbroadcast cpCur cpPrev fulfilled conf s).mpr ⟨c, hc, (checkOne_eq_some fulfilled conf c s).mpr ⟨hs, ?_, hf⟩⟩
  cases hany : conf.any (matchedBy s c) with
  | false => rfl
  | true =>
    obtain ⟨b, hb, hm⟩ := List.any_eq_true.mp hany
    obtain ⟨ho, hsrc⟩ := (matchedBy_iff s c b).mp hm
    rcases hn b hb with h | ⟨h1, h2⟩
    · simp [h] at ho
    · rcases hsrc with h | h
      · exact absurd h h1
      · exact absurd h h2

example : 2 ∈ failUnbroadcast fuCur fuConf [] fuConf ∧
    (∀ b ∈ fuConf, b.outIdx = none ∨ (b.src ≠ some 2 ∧ ¬ (b.src = none ∧ b.hash = 12 ∧ b.amt = 5000))) := by decide

/-- An HTLC the counterparty has already fulfilled off chain (`counterparty_fulfilled_htlcs`) is never queued to fail. -/
theorem counterparty_fulfilled_never_queued_to_fail (cpCur cpPrev : List BHtlc) (fulfilled : List Nat)
    (conf : List BHtlc) (s : Nat) (h : s ∈ fulfilled) : s ∉ failUnbroadcast cpCur cpPrev fulfilled conf :=
  fun hm => (queued_to_fail_on_confirmation_is_absent_or_dust cpCur cpPrev fulfilled conf s hm).1 h

example : failUnbroadcast fuCur fuConf [2] fuConf = [3, 3] := by decide

/-- The two twins agree: whatever the live check queues to fail is, against the same confirmed list, also reported by
    the restart walk (`get_onchain_failed_outbound_htlcs`) for as long as the user has not been told — a restart between
    the confirmation and the event never loses the failure. -/
theorem queued_by_live_check_is_reported_by_restart_walk (m : Mon) (fulfilled : List Nat) (conf : List BHtlc) (c : BHtlc)
    (s : Nat) (h : checkOne fulfilled conf c = some s) (hr : s ∉ m.resolvedToUser) :
    walkOne m (conf.map BHtlc.toHtlc) c.toHtlc = some s := by
  obtain ⟨hs, hany, _⟩ := (checkOne_eq_some fulfilled conf c s).mp h
  apply walkOne_absent_or_dust m _ c.toHtlc s hs hr
  intro x hx hxs
  obtain ⟨b, hb, rfl⟩ := List.mem_map.mp hx
  cases ho : b.outIdx with
  | none => simpa [BHtlc.toHtlc] using ho
  | some i =>
    have : conf.any (matchedBy s c) = true :=
      List.any_eq_true.mpr ⟨b, hb, matchedBy_same_source s c b hxs (by simp [ho])⟩
    rw [this] at hany
    cases hany

example : checkOne [] fuConf ⟨some 3, none, 13, 100⟩ = some 3 ∧
    walkOne prevCpConfirmed (fuConf.map BHtlc.toHtlc) ⟨some 3, none⟩ = some 3 := by decide

end Unbroadcast

end Ldk.C03
