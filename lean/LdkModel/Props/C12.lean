import LdkModel.Model.TlvFrame
import LdkModel.Proofs.TlvFrame
import LdkModel.Generated.TlvSchemas
/-!
  C12 — persisted objects survive serialization unchanged: the FRAMING theorems.

  Object-level equivalence (ChannelMonitor / ChannelManager / NetworkGraph / scorer read back equal) is
  VALIDATED by the harness on the real code, not proved: the objects are not modelled.  What is proved here,
  for all byte strings / record lists and for every TLV block the Rust source currently declares
  (`generatedTlvSchemas`, re-extracted from lightning/src on every check by tools/gen_tlv_schemas.py), is
  the framing every persisted object is written in: version prefix + TLV stream rules.  The stream decoder
  is the same `decodeTlvStream` (mirror of `_decode_tlv_stream_range!`) that C13 reasons about, run over
  the block's (type, kind) list with opaque payloads (Model/TlvFrame.lean).
-/
set_option maxRecDepth 1000000
namespace Ldk.C12
open Ldk.Codec Ldk.TlvFrame Ldk.TlvFrame.Gen

/-! ## the declared blocks are well formed -/

/-- Reader-side `required` fields with an ODD type, one by one (block name, type).  The macros do not
    enforce "required ⇒ even"; these are fields that are always written by the versions the reader still
    supports.  A new entry has to be added here consciously: an odd required field is silently skipped by
    older readers and makes objects written without it unreadable. -/
def oddRequiredAllowed : List (String × Nat) := [
  ("FundingCandidate", 1), ("FundingCandidate", 3), ("ChannelFunding", 1), ("ChannelFunding", 3),
  ("ChannelFunding", 5), ("HTLCUpdate", 1), ("HolderSignedTx", 1), ("OnchainEvent.HTLCUpdate", 1),
  ("ChannelMonitorUpdateStep.LatestCounterpartyCommitment", 1),
  ("ChannelMonitorUpdateStep.LatestCounterpartyCommitment", 3),
  ("ChannelMonitorUpdateStep.ReleasePaymentComplete", 1),
  ("ChannelMonitorUpdateStep.LatestHolderCommitment", 1),
  ("ChannelMonitorUpdateStep.LatestHolderCommitment", 3),
  ("ChannelMonitorUpdateStep.LatestHolderCommitment", 5), ("ChannelMonitorUpdateStep.RenegotiatedFunding", 1),
  ("ChannelMonitorUpdateStep.RenegotiatedFunding", 3), ("ChannelMonitorUpdateStep.RenegotiatedFunding", 5),
  ("ChannelMonitorUpdateStep.RenegotiatedFundingLocked", 1), ("CommitmentHTLCData", 1),
  ("CommitmentHTLCData", 3), ("FundingScope", 1), ("FundingScope", 3), ("FundingScope", 7),
  ("FundingScope", 11), ("FundingInfo.OutPoint", 1), ("NegotiationFailureReason.CounterpartyAborted", 1),
  ("NegotiationFailureReason.NegotiationError", 1), ("ClosureReason.CounterpartyForceClosed", 1),
  ("ClosureReason.ProcessingError", 1), ("HTLCLocator", 1), ("Event.read.r5", 5), ("Event.read.r21", 1),
  ("Event.read.r21", 3), ("Event.read.r21", 5), ("Event.read.r21", 7), ("Event.read.r21", 9),
  ("Event.read.r21", 11), ("Event.read.r22", 1), ("Event.read.r22", 5), ("Event.read.r22", 7),
  ("FundingScope.read.r0", 1), ("FundingScope.read.r0", 5), ("FundingScope.read.r0", 7),
  ("FundingScope.read.r0", 13), ("NegotiatedCandidate", 1), ("FundingNegotiation.AwaitingSignatures", 1),
  ("FundingNegotiation.AwaitingSignatures", 3), ("FundedChannel.read.r0", 5), ("FundedChannel.read.r0", 13),
  ("FundedChannel.read.r0", 15), ("FundedChannel.read.r0", 17), ("FundedChannel.read.r0", 21),
  ("FundedChannel.read.r0", 27), ("SpliceDetails", 1), ("SpliceCandidateDetails", 3),
  ("SpliceCandidateStatus.AwaitingAck", 1), ("SpliceCandidateStatus.AwaitingAck", 3),
  ("SpliceCandidateStatus.ConstructingTransaction", 1), ("SpliceCandidateStatus.ConstructingTransaction", 3),
  ("SpliceCandidateStatus.ConstructingTransaction", 5), ("SpliceCandidateStatus.AwaitingSignatures", 1),
  ("SpliceCandidateStatus.AwaitingSignatures", 3), ("SpliceCandidateStatus.AwaitingSignatures", 5),
  ("SpliceCandidateStatus.AwaitingSignatures", 7), ("SpliceCandidateStatus.Negotiated", 1),
  ("SpliceCandidateStatus.Negotiated", 3), ("ConfirmedSpliceCandidate", 1), ("ConfirmedSpliceCandidate", 3),
  ("ConfirmedSpliceCandidate", 5), ("ConfirmedSpliceCandidate", 7), ("ClaimingPayment", 9),
  ("MonitorUpdateCompletionAction.FreeDuplicateClaimImmediately", 5),
  ("MonitorUpdateCompletionAction.EmitEventOptionAndFreeOtherChannel", 1), ("PaymentCompleteUpdate", 1),
  ("PaymentCompleteUpdate", 3), ("PaymentCompleteUpdate", 5), ("PaymentCompleteUpdate", 7),
  ("ClaimableHTLC.read.r0", 1), ("PendingAddHTLCInfo", 9), ("TrampolineDispatch", 1),
  ("TrampolineDispatch", 3), ("TrampolineDispatch", 5), ("FundingContribution", 1), ("FundingContribution", 9),
  ("FundingContribution", 11), ("FundingContribution", 13), ("TxInMetadata", 1), ("TxInMetadata", 3),
  ("TxOutMetadata", 1), ("ConstructedTransaction", 1), ("ConstructedTransaction", 3),
  ("ConstructedTransaction", 5), ("ConstructedTransaction", 7), ("ConstructedTransaction", 11),
  ("SharedInputSignature", 1), ("SharedInputSignature", 3), ("InteractiveTxSigningSession", 1),
  ("InteractiveTxSigningSession", 3), ("InteractiveTxSigningSession", 5), ("InteractiveTxSigningSession", 7),
  ("InteractiveTxSigningSession", 9), ("InteractiveTxSigningSession", 11), ("SharedOwnedOutput", 1),
  ("SharedOwnedOutput", 3), ("NextTrampolineHopInfo", 1), ("NextTrampolineHopInfo", 5),
  ("NextTrampolineHopInfo", 7), ("Path", 1), ("Route.read.r0", 1), ("Route.read.r0", 3),
  ("RouteParametersConfig", 3), ("RouteParametersConfig", 5), ("RouteParametersConfig", 7), ("Utxo", 1),
  ("Utxo", 3), ("Utxo", 5), ("ConfirmedUtxo", 1), ("ConfirmedUtxo", 5)]

/-- every TLV block extracted from the source is well formed: types strictly increasing within the block
    (sorted, no type number reused — what `_check_encoded_tlv_order!` debug-asserts on every write and what the
    decoder's order / missing-field checks rely on), types fit a BigSize, and a reader-side `required` field
    is even unless it is one of the enumerated exceptions.  This is the obligation that breaks when someone
    un-sorts a list, reuses a type number, or adds a required field with an odd type in the Rust source. -/
theorem tlv_schemas_wf : ∀ s ∈ generatedTlvSchemas, s.wf oddRequiredAllowed = true := by
  have h : schemaChunks.all (fun c => c.all (·.wf oddRequiredAllowed)) = true := by decide
  intro s hs
  simp only [generatedTlvSchemas, List.mem_flatten] at hs
  obtain ⟨c, hc, hsc⟩ := hs
  exact List.all_eq_true.mp (List.all_eq_true.mp h c hc) s hsc
example : generatedTlvSchemas.length > 300 := by decide
example : (⟨"x", "", 0, "", .both, true, [⟨2, .required⟩, ⟨1, .optional⟩]⟩ : FrameSchema).wf [] = false := by decide  -- un-sorted
example : (⟨"x", "", 0, "", .both, true, [⟨1, .optional⟩, ⟨1, .optional⟩]⟩ : FrameSchema).wf [] = false := by decide  -- reused
example : (⟨"x", "", 0, "", .read, true, [⟨1, .required⟩]⟩ : FrameSchema).wf [] = false := by decide              -- odd required
example : (⟨"x", "", 0, "", .read, true, [⟨1, .required⟩]⟩ : FrameSchema).wf [("x", 1)] = true := by decide

/-- the exception list is exact: it is precisely the list of odd required reader-side fields of the current
    source (no stale entries; nothing covered by accident) -/
theorem odd_required_exceptions_exact : oddRequired generatedTlvSchemas = oddRequiredAllowed := by decide

/-! ## frame-level codec theorems, for every generated block -/

/-- encode ∘ decode = id at frame level: writing any assignment of payloads to the declared fields
    (`required` ones present) and reading the stream back yields the same assignment -/
theorem frame_roundtrip (s : FrameSchema) (hs : s ∈ generatedTlvSchemas) (vals : List (Option Val))
    (hv : validTlvs s.tlvs vals = true) :
    (frameDecode s (frameEncode s vals)).map (fun acc => s.tlvs.map fun f => acc.lookup f.typ) = .ok vals := by
  have hwf := tlv_schemas_wf s hs
  rw [frame_roundtrip' s hwf vals hv]
  simp [Except.map, lookup_presentVals _ _ (wf_parts hwf).1 hv]

/-- … and through the BigSize length prefix of `write_tlv_fields!` / `read_tlv_fields!`, whatever follows
    the block in the enclosing object -/
theorem len_prefixed_roundtrip (s : FrameSchema) (hs : s ∈ generatedTlvSchemas) (vals : List (Option Val))
    (hv : validTlvs s.tlvs vals = true) (hlen : (frameEncode s vals).length < 2 ^ 64) (rest : Bytes) :
    readTlvFields s (writeTlvFields s vals ++ rest) = .ok (presentVals s.tlvs vals, rest) :=
  readTlvFields_write s (tlv_schemas_wf s hs) vals hv hlen rest

/-- a block whose announced length runs past the end of the data never reads successfully -/
theorem length_overrun_rejected (s : FrameSchema) (len : Nat) (hlen : len < 2 ^ 64) (body : Bytes)
    (h : body.length < len) : ∃ e, readTlvFields s (BigSize.encode len ++ body) = .error e :=
  readTlvFields_overrun s len hlen body h

/-- all records are encodable: type and length fit a BigSize -/
def Framed (recs : List (Nat × Bytes)) : Prop := ∀ p ∈ recs, p.1 < 2 ^ 64 ∧ p.2.length < 2 ^ 64

/-- on a well-framed stream the byte-level loop does exactly what `procRecs` does record by record -/
theorem frame_by_records (s : FrameSchema) (recs : List (Nat × Bytes)) (h : Framed recs) :
    frameDecode s (rawEncode recs) = procRecs s.tlvs none [] recs :=
  tlvLoop_raw s.tlvs recs _ none [] h (by omega)

/-- a record of an even type the block does not declare makes the stream unreadable, wherever it stands:
    data with an unknown even field is never silently misread -/
theorem unknown_even_rejected (s : FrameSchema) (r1 r2 : List (Nat × Bytes)) (t : Nat) (val : Bytes)
    (hf : Framed (r1 ++ (t, val) :: r2)) (heven : t % 2 = 0) (hunk : t ∉ s.types) :
    ∃ e, frameDecode s (rawEncode (r1 ++ (t, val) :: r2)) = .error e := by
  rw [frame_by_records s _ hf]
  refine procRecs_unknown_even s.tlvs t val r2 heven ?_ r1 none []
  intro f hf' he
  exact hunk (by rw [← tlvs_types]; exact he ▸ List.mem_map_of_mem hf')

/-- a record of an odd type the block does not declare is ignored: removing it (at any position that keeps
    the types increasing) does not change the result — value or error -/
theorem unknown_odd_ignored (s : FrameSchema) (r1 r2 : List (Nat × Bytes)) (t : Nat) (val : Bytes)
    (hf : Framed (r1 ++ (t, val) :: r2)) (hodd : t % 2 = 1) (hunk : t ∉ s.types)
    (h1 : ∀ p ∈ r1, p.1 < t) (h2 : ∀ p ∈ r2, t < p.1) :
    frameDecode s (rawEncode (r1 ++ (t, val) :: r2)) = frameDecode s (rawEncode (r1 ++ r2)) := by
  have hf' : Framed (r1 ++ r2) := by
    intro p hp
    rcases List.mem_append.mp hp with hp | hp
    · exact hf p (List.mem_append_left _ hp)
    · exact hf p (List.mem_append_right _ (List.mem_cons_of_mem _ hp))
  rw [frame_by_records s _ hf, frame_by_records s _ hf']
  refine procRecs_unknown_odd s.tlvs t val r2 hodd ?_ h2 r1 none [] h1 rfl
  intro f hf'' he
  exact hunk (by rw [← tlvs_types]; exact he ▸ List.mem_map_of_mem hf'')

/-- two adjacent records whose types do not strictly increase (out of order, or a duplicate) make the stream
    unreadable, wherever they stand -/
theorem out_of_order_rejected (s : FrameSchema) (r1 r2 : List (Nat × Bytes)) (t1 t2 : Nat) (v1 v2 : Bytes)
    (hf : Framed (r1 ++ (t1, v1) :: (t2, v2) :: r2)) (hle : t2 ≤ t1) :
    ∃ e, frameDecode s (rawEncode (r1 ++ (t1, v1) :: (t2, v2) :: r2)) = .error e := by
  rw [frame_by_records s _ hf]; exact procRecs_out_of_order s.tlvs t1 t2 v1 v2 r2 hle r1 none []

/-- a stream that lacks a record of a `required` type of the block is unreadable -/
theorem missing_required_rejected (s : FrameSchema) (recs : List (Nat × Bytes)) (t : Nat) (hf : Framed recs)
    (hreq : ⟨t, .required⟩ ∈ s.fields) (hmiss : ∀ p ∈ recs, p.1 ≠ t) :
    ∃ e, frameDecode s (rawEncode recs) = .error e := by
  rw [frame_by_records s _ hf]
  refine procRecs_missing_required s.tlvs t ⟨FrameField.toTlv ⟨t, .required⟩, ?_, rfl, rfl⟩ recs none [] hmiss rfl
  exact List.mem_map_of_mem hreq

/-- whatever reads successfully is well framed: a concatenation of records `type · length · value` whose
    values have exactly the announced length -/
theorem decoded_stream_is_framed (s : FrameSchema) (b : Bytes) (out : List (Nat × Val))
    (h : frameDecode s b = .ok out) : ∃ recs, b = rawEncode recs ∧ Framed recs :=
  tlvLoop_ok_raw s.tlvs _ _ _ _ _ h

-- non-vacuity on real blocks (looked up by name in the generated list)
def blk (n : String) : FrameSchema := (generatedTlvSchemas.find? (·.name == n)).getD ⟨"", "", 0, "", .both, true, []⟩
example : (blk "ChannelMonitorUpdate.read.r0").fields = [⟨3, .optional⟩] := by decide
example : frameDecode (blk "ChannelMonitorUpdate.read.r0") (rawEncode [(3, List.replicate 32 7), (5, [1, 2])]) = .ok [(3, .bytes (List.replicate 32 7))] := by decide
example : frameDecode (blk "ChannelMonitorUpdate.read.r0") (rawEncode [(3, List.replicate 32 7), (6, [1, 2])]) = .error .UnknownRequiredFeature := by decide
example : frameDecode (blk "ChannelMonitorUpdate.read.r0") (rawEncode [(3, [1]), (3, [1])]) = .error .InvalidValue := by decide
example : frameDecode (blk "HolderSignedTx") (rawEncode [(0, [1]), (1, [2]), (2, [3])]) = .error .InvalidValue := by decide   -- 4.. missing
example : readTlvFields (blk "ChannelMonitorUpdate.read.r0") ([3, 3, 1, 9] ++ [0xaa]) = .ok ([(3, .bytes [9])], [0xaa]) := by decide
example : readTlvFields (blk "ChannelMonitorUpdate.read.r0") [4, 3, 1, 9] = .error .ShortRead := by decide

/-! ## writers and readers agree -/

/-- the (write block, read block) pairs of hand-written codecs, resolved through their indices (names re-checked) -/
def resolvedPairs : List (FrameSchema × FrameSchema) :=
  tlvPairs.filterMap fun p =>
    match generatedTlvSchemas[p.2.1]?, generatedTlvSchemas[p.2.2.2]? with
    | some w, some r => if w.name == p.1 && r.name == p.2.2.1 then some (w, r) else none
    | _, _ => none

/-- every hand-written writer/reader pair resolves (the next theorem is not vacuous) -/
theorem pairs_resolve : resolvedPairs.length = tlvPairs.length ∧ tlvPairs.length > 50 := by decide

/-- a hand-written writer never emits an EVEN type its reader does not declare (the reader would reject
    the library's own output); and the odd types written only for the benefit of older readers are pinned -/
theorem written_types_known_to_reader :
    (∀ p ∈ resolvedPairs, ∀ t ∈ unknownToReader p.1 p.2, t % 2 = 1) ∧
    (resolvedPairs.filterMap fun p => if unknownToReader p.1 p.2 == [] then none else some (p.1.name, unknownToReader p.1 p.2))
      = [("Event.write.w2", [3, 9])] := by decide

/-! ## enum variant ids -/

/-- within every TLV-based enum the variant ids (struct and tuple variants together) are pairwise distinct -/
theorem enum_variant_ids_distinct : ∀ e ∈ generatedEnums, (e.2.2.1 ++ e.2.2.2).Nodup := by decide

/-- an id no variant declares is rejected (`UnknownRequiredFeature`) unless the enum is upgradable and the id
    odd, in which case the value is skipped (`Ok(None)`) -/
theorem unknown_variant_classified (upg : Bool) (si ti : List Nat) (id : Nat) (h1 : id ∉ si) (h2 : id ∉ ti) :
    classifyVariant upg si ti id = (if upg = true ∧ id % 2 = 1 then .skipped else .rejected) := by
  simp only [classifyVariant, List.contains_iff_mem, h1, h2, if_false]
  by_cases hu : upg = true <;> by_cases ho : id % 2 = 1 <;> simp [hu, ho]
example : classifyVariant true [0, 2] [4] 7 = .skipped ∧ classifyVariant true [0, 2] [4] 6 = .rejected ∧
    classifyVariant false [0, 2] [4] 7 = .rejected ∧ classifyVariant false [0, 2] [4] 4 = .tuple := by decide

/-! ## version prefix -/

/-- an object whose writer says "readers below `minVer` cannot read this" is refused by a reader that
    implements an older version -/
theorem ver_prefix_rejects_newer_min (this ver minVer : Nat) (hv : ver < 256) (hm : minVer < 256) (h : this < minVer)
    (rest : Bytes) : readVerPrefix this (writeVerPrefix ver minVer ++ rest) = .error .UnknownVersion := by
  rw [readVerPrefix_write this ver minVer hv hm]; simp [h]

/-- … and accepted (version returned, rest untouched) by any reader at or above `minVer` -/
theorem ver_prefix_accepts_current (this ver minVer : Nat) (hv : ver < 256) (hm : minVer < 256) (h : minVer ≤ this)
    (rest : Bytes) : readVerPrefix this (writeVerPrefix ver minVer ++ rest) = .ok (ver, rest) := by
  rw [readVerPrefix_write this ver minVer hv hm]; simp [Nat.not_lt.mpr h]
example : readVerPrefix 1 [2, 2, 9] = .error .UnknownVersion := by decide
example : readVerPrefix 1 [1, 1, 9] = .ok (1, [9]) := by decide
example : readVerPrefix 1 [1] = .error .ShortRead := by decide

/-- the version constants of the current source: every version-prefixed object (ChannelMonitor,
    ChannelMonitorUpdate, OnchainTxHandler, FundedChannel, ChannelManager, NetworkGraph, Route) is readable by
    its own reader -/
theorem ver_prefixes_self_readable : ∀ p ∈ generatedVerPrefixes, ∀ rest : Bytes,
    readVerPrefix p.2.2.2 (writeVerPrefix p.2.1 p.2.2.1 ++ rest) = .ok (p.2.1, rest) := by
  have h : ∀ p ∈ generatedVerPrefixes, p.2.1 < 256 ∧ p.2.2.1 < 256 ∧ p.2.2.1 ≤ p.2.2.2 := by decide
  intro p hp rest
  obtain ⟨a, b, c⟩ := h p hp
  exact ver_prefix_accepts_current _ _ _ a b c rest
example : generatedVerPrefixes.length ≥ 5 := by decide

end Ldk.C12
