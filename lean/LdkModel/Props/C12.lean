import LdkModel.Model.TlvFrame
import LdkModel.Proofs.TlvFrame
import LdkModel.Generated.TlvSchemas
import LdkModel.Generated.TlvFieldPairs
import LdkModel.Generated.EnumCodecs
import LdkModel.Generated.SerPrims
import LdkModel.Generated.Positional
import LdkModel.Proofs.SerPrims
import LdkModel.Proofs.ChanForget
import LdkModel.Proofs.ChanSideVecs
import LdkModel.Generated.ChanSideVecs
/-!
  C12 — persisted objects survive serialization unchanged: the FRAMING theorems.

  Object-level equivalence (ChannelMonitor / ChannelManager / NetworkGraph / scorer read back equal) is
  VALIDATED by the harness on the real code, not proved: the objects are not modelled.  What is proved here,
  for all byte strings / record lists and for every TLV block the Rust source currently declares
  (`generatedTlvSchemas`, re-extracted from lightning/src on every check by tools/gen_tlv_schemas.py), is
  the framing every persisted object is written in: version prefix + TLV stream rules.  The stream decoder
  is the same `decodeTlvStream` (mirror of `_decode_tlv_stream_range!`) that C13 reasons about, run over
  the block's (type, kind) list with opaque payloads (Model/TlvFrame.lean).
-/
set_option maxRecDepth 1000000
namespace Ldk.C12
open Ldk.Codec Ldk.TlvFrame Ldk.TlvFrame.Gen

/-! ## the declared blocks are well formed -/

/-- Reader-side `required` fields with an ODD type, one by one (block name, type).  The macros do not
    enforce "required ⇒ even"; these are fields that are always written by the versions the reader still
    supports.  A new entry has to be added here consciously: an odd required field is silently skipped by
    older readers and makes objects written without it unreadable. -/
def oddRequiredAllowed : List (String × Nat) := [
  ("FundingCandidate", 1), ("FundingCandidate", 3), ("ChannelFunding", 1), ("ChannelFunding", 3),
  ("ChannelFunding", 5), ("HTLCUpdate", 1), ("HolderSignedTx", 1), ("OnchainEvent.HTLCUpdate", 1),
  ("ChannelMonitorUpdateStep.LatestCounterpartyCommitment", 1),
  ("ChannelMonitorUpdateStep.LatestCounterpartyCommitment", 3),
  ("ChannelMonitorUpdateStep.ReleasePaymentComplete", 1),
  ("ChannelMonitorUpdateStep.LatestHolderCommitment", 1),
  ("ChannelMonitorUpdateStep.LatestHolderCommitment", 3),
  ("ChannelMonitorUpdateStep.LatestHolderCommitment", 5), ("ChannelMonitorUpdateStep.RenegotiatedFunding", 1),
  ("ChannelMonitorUpdateStep.RenegotiatedFunding", 3), ("ChannelMonitorUpdateStep.RenegotiatedFunding", 5),
  ("ChannelMonitorUpdateStep.RenegotiatedFundingLocked", 1), ("CommitmentHTLCData", 1),
  ("CommitmentHTLCData", 3), ("FundingScope", 1), ("FundingScope", 3), ("FundingScope", 7),
  ("FundingScope", 11), ("FundingInfo.OutPoint", 1), ("NegotiationFailureReason.CounterpartyAborted", 1),
  ("NegotiationFailureReason.NegotiationError", 1), ("ClosureReason.CounterpartyForceClosed", 1),
  ("ClosureReason.ProcessingError", 1), ("HTLCLocator", 1), ("Event.read.r5", 5), ("Event.read.r21", 1),
  ("Event.read.r21", 3), ("Event.read.r21", 5), ("Event.read.r21", 7), ("Event.read.r21", 9),
  ("Event.read.r21", 11), ("Event.read.r22", 1), ("Event.read.r22", 5), ("Event.read.r22", 7),
  ("FundingScope.read.r0", 1), ("FundingScope.read.r0", 5), ("FundingScope.read.r0", 7),
  ("FundingScope.read.r0", 13), ("NegotiatedCandidate", 1), ("FundingNegotiation.AwaitingSignatures", 1),
  ("FundingNegotiation.AwaitingSignatures", 3), ("FundedChannel.read.r0", 5), ("FundedChannel.read.r0", 13),
  ("FundedChannel.read.r0", 15), ("FundedChannel.read.r0", 17), ("FundedChannel.read.r0", 21),
  ("FundedChannel.read.r0", 27), ("SpliceDetails", 1), ("SpliceCandidateDetails", 3),
  ("SpliceCandidateStatus.AwaitingAck", 1), ("SpliceCandidateStatus.AwaitingAck", 3),
  ("SpliceCandidateStatus.ConstructingTransaction", 1), ("SpliceCandidateStatus.ConstructingTransaction", 3),
  ("SpliceCandidateStatus.ConstructingTransaction", 5), ("SpliceCandidateStatus.AwaitingSignatures", 1),
  ("SpliceCandidateStatus.AwaitingSignatures", 3), ("SpliceCandidateStatus.AwaitingSignatures", 5),
  ("SpliceCandidateStatus.AwaitingSignatures", 7), ("SpliceCandidateStatus.Negotiated", 1),
  ("SpliceCandidateStatus.Negotiated", 3), ("ConfirmedSpliceCandidate", 1), ("ConfirmedSpliceCandidate", 3),
  ("ConfirmedSpliceCandidate", 5), ("ConfirmedSpliceCandidate", 7), ("ClaimingPayment", 9),
  ("MonitorUpdateCompletionAction.FreeDuplicateClaimImmediately", 5),
  ("MonitorUpdateCompletionAction.EmitEventOptionAndFreeOtherChannel", 1), ("PaymentCompleteUpdate", 1),
  ("PaymentCompleteUpdate", 3), ("PaymentCompleteUpdate", 5), ("PaymentCompleteUpdate", 7),
  ("ClaimableHTLC.read.r0", 1), ("PendingAddHTLCInfo", 9), ("TrampolineDispatch", 1),
  ("TrampolineDispatch", 3), ("TrampolineDispatch", 5), ("FundingContribution", 1), ("FundingContribution", 9),
  ("FundingContribution", 11), ("FundingContribution", 13), ("TxInMetadata", 1), ("TxInMetadata", 3),
  ("TxOutMetadata", 1), ("ConstructedTransaction", 1), ("ConstructedTransaction", 3),
  ("ConstructedTransaction", 5), ("ConstructedTransaction", 7), ("ConstructedTransaction", 11),
  ("SharedInputSignature", 1), ("SharedInputSignature", 3), ("InteractiveTxSigningSession", 1),
  ("InteractiveTxSigningSession", 3), ("InteractiveTxSigningSession", 5), ("InteractiveTxSigningSession", 7),
  ("InteractiveTxSigningSession", 9), ("InteractiveTxSigningSession", 11), ("SharedOwnedOutput", 1),
  ("SharedOwnedOutput", 3), ("NextTrampolineHopInfo", 1), ("NextTrampolineHopInfo", 5),
  ("NextTrampolineHopInfo", 7), ("Path", 1), ("Route.read.r0", 1), ("Route.read.r0", 3),
  ("RouteParametersConfig", 3), ("RouteParametersConfig", 5), ("RouteParametersConfig", 7), ("Utxo", 1),
  ("Utxo", 3), ("Utxo", 5), ("ConfirmedUtxo", 1), ("ConfirmedUtxo", 5)]

/-- every TLV block extracted from the source is well formed: types strictly increasing within the block
    (sorted, no type number reused — what `_check_encoded_tlv_order!` debug-asserts on every write and what the
    decoder's order / missing-field checks rely on), types fit a BigSize, and a reader-side `required` field
    is even unless it is one of the enumerated exceptions.  This is the obligation that breaks when someone
    un-sorts a list, reuses a type number, or adds a required field with an odd type in the Rust source. -/
theorem tlv_schemas_wf : ∀ s ∈ generatedTlvSchemas, s.wf oddRequiredAllowed = true := by
  have h : schemaChunks.all (fun c => c.all (·.wf oddRequiredAllowed)) = true := by decide
  intro s hs
  simp only [generatedTlvSchemas, List.mem_flatten] at hs
  obtain ⟨c, hc, hsc⟩ := hs
  exact List.all_eq_true.mp (List.all_eq_true.mp h c hc) s hsc
example : generatedTlvSchemas.length > 300 := by decide
example : (⟨"x", "", 0, "", .both, true, [⟨2, .required⟩, ⟨1, .optional⟩]⟩ : FrameSchema).wf [] = false := by decide  -- un-sorted
example : (⟨"x", "", 0, "", .both, true, [⟨1, .optional⟩, ⟨1, .optional⟩]⟩ : FrameSchema).wf [] = false := by decide  -- reused
example : (⟨"x", "", 0, "", .read, true, [⟨1, .required⟩]⟩ : FrameSchema).wf [] = false := by decide              -- odd required
example : (⟨"x", "", 0, "", .read, true, [⟨1, .required⟩]⟩ : FrameSchema).wf [("x", 1)] = true := by decide

/-- the exception list is exact: it is precisely the list of odd required reader-side fields of the current
    source (no stale entries; nothing covered by accident) -/
theorem odd_required_exceptions_exact : oddRequired generatedTlvSchemas = oddRequiredAllowed := by decide

/-! ## frame-level codec theorems, for every generated block -/

/-- encode ∘ decode = id at frame level: writing any assignment of payloads to the declared fields
    (`required` ones present) and reading the stream back yields the same assignment -/
theorem frame_roundtrip (s : FrameSchema) (hs : s ∈ generatedTlvSchemas) (vals : List (Option Val))
    (hv : validTlvs s.tlvs vals = true) :
    (frameDecode s (frameEncode s vals)).map (fun acc => s.tlvs.map fun f => acc.lookup f.typ) = .ok vals := by
  have hwf := tlv_schemas_wf s hs
  rw [frame_roundtrip' s hwf vals hv]
  simp [Except.map, lookup_presentVals _ _ (wf_parts hwf).1 hv]

/-- … and through the BigSize length prefix of `write_tlv_fields!` / `read_tlv_fields!`, whatever follows
    the block in the enclosing object -/
theorem len_prefixed_roundtrip (s : FrameSchema) (hs : s ∈ generatedTlvSchemas) (vals : List (Option Val))
    (hv : validTlvs s.tlvs vals = true) (hlen : (frameEncode s vals).length < 2 ^ 64) (rest : Bytes) :
    readTlvFields s (writeTlvFields s vals ++ rest) = .ok (presentVals s.tlvs vals, rest) :=
  readTlvFields_write s (tlv_schemas_wf s hs) vals hv hlen rest

/-- a block whose announced length runs past the end of the data never reads successfully -/
theorem length_overrun_rejected (s : FrameSchema) (len : Nat) (hlen : len < 2 ^ 64) (body : Bytes)
    (h : body.length < len) : ∃ e, readTlvFields s (BigSize.encode len ++ body) = .error e :=
  readTlvFields_overrun s len hlen body h

/-- all records are encodable: type and length fit a BigSize -/
def Framed (recs : List (Nat × Bytes)) : Prop := ∀ p ∈ recs, p.1 < 2 ^ 64 ∧ p.2.length < 2 ^ 64

/-- on a well-framed stream the byte-level loop does exactly what `procRecs` does record by record -/
theorem frame_by_records (s : FrameSchema) (recs : List (Nat × Bytes)) (h : Framed recs) :
    frameDecode s (rawEncode recs) = procRecs s.tlvs none [] recs :=
  tlvLoop_raw s.tlvs recs _ none [] h (by omega)

/-- a record of an even type the block does not declare makes the stream unreadable, wherever it stands:
    data with an unknown even field is never silently misread -/
theorem unknown_even_rejected (s : FrameSchema) (r1 r2 : List (Nat × Bytes)) (t : Nat) (val : Bytes)
    (hf : Framed (r1 ++ (t, val) :: r2)) (heven : t % 2 = 0) (hunk : t ∉ s.types) :
    ∃ e, frameDecode s (rawEncode (r1 ++ (t, val) :: r2)) = .error e := by
  rw [frame_by_records s _ hf]
  refine procRecs_unknown_even s.tlvs t val r2 heven ?_ r1 none []
  intro f hf' he
  exact hunk (by rw [← tlvs_types]; exact he ▸ List.mem_map_of_mem hf')

/-- a record of an odd type the block does not declare is ignored: removing it (at any position that keeps
    the types increasing) does not change the result — value or error -/
theorem unknown_odd_ignored (s : FrameSchema) (r1 r2 : List (Nat × Bytes)) (t : Nat) (val : Bytes)
    (hf : Framed (r1 ++ (t, val) :: r2)) (hodd : t % 2 = 1) (hunk : t ∉ s.types)
    (h1 : ∀ p ∈ r1, p.1 < t) (h2 : ∀ p ∈ r2, t < p.1) :
    frameDecode s (rawEncode (r1 ++ (t, val) :: r2)) = frameDecode s (rawEncode (r1 ++ r2)) := by
  have hf' : Framed (r1 ++ r2) := by
    intro p hp
    rcases List.mem_append.mp hp with hp | hp
    · exact hf p (List.mem_append_left _ hp)
    · exact hf p (List.mem_append_right _ (List.mem_cons_of_mem _ hp))
  rw [frame_by_records s _ hf, frame_by_records s _ hf']
  refine procRecs_unknown_odd s.tlvs t val r2 hodd ?_ h2 r1 none [] h1 rfl
  intro f hf'' he
  exact hunk (by rw [← tlvs_types]; exact he ▸ List.mem_map_of_mem hf'')

/-- two adjacent records whose types do not strictly increase (out of order, or a duplicate) make the stream
    unreadable, wherever they stand -/
theorem out_of_order_rejected (s : FrameSchema) (r1 r2 : List (Nat × Bytes)) (t1 t2 : Nat) (v1 v2 : Bytes)
    (hf : Framed (r1 ++ (t1, v1) :: (t2, v2) :: r2)) (hle : t2 ≤ t1) :
    ∃ e, frameDecode s (rawEncode (r1 ++ (t1, v1) :: (t2, v2) :: r2)) = .error e := by
  rw [frame_by_records s _ hf]; exact procRecs_out_of_order s.tlvs t1 t2 v1 v2 r2 hle r1 none []

/-- a stream that lacks a record of a `required` type of the block is unreadable -/
theorem missing_required_rejected (s : FrameSchema) (recs : List (Nat × Bytes)) (t : Nat) (hf : Framed recs)
    (hreq : ⟨t, .required⟩ ∈ s.fields) (hmiss : ∀ p ∈ recs, p.1 ≠ t) :
    ∃ e, frameDecode s (rawEncode recs) = .error e := by
  rw [frame_by_records s _ hf]
  refine procRecs_missing_required s.tlvs t ⟨FrameField.toTlv ⟨t, .required⟩, ?_, rfl, rfl⟩ recs none [] hmiss rfl
  exact List.mem_map_of_mem hreq

/-- whatever reads successfully is well framed: a concatenation of records `type · length · value` whose
    values have exactly the announced length -/
theorem decoded_stream_is_framed (s : FrameSchema) (b : Bytes) (out : List (Nat × Val))
    (h : frameDecode s b = .ok out) : ∃ recs, b = rawEncode recs ∧ Framed recs :=
  tlvLoop_ok_raw s.tlvs _ _ _ _ _ h

-- non-vacuity on real blocks (looked up by name in the generated list)
def blk (n : String) : FrameSchema := (generatedTlvSchemas.find? (·.name == n)).getD ⟨"", "", 0, "", .both, true, []⟩
example : (blk "ChannelMonitorUpdate.read.r0").fields = [⟨3, .optional⟩] := by decide
example : frameDecode (blk "ChannelMonitorUpdate.read.r0") (rawEncode [(3, List.replicate 32 7), (5, [1, 2])]) = .ok [(3, .bytes (List.replicate 32 7))] := by decide
example : frameDecode (blk "ChannelMonitorUpdate.read.r0") (rawEncode [(3, List.replicate 32 7), (6, [1, 2])]) = .error .UnknownRequiredFeature := by decide
example : frameDecode (blk "ChannelMonitorUpdate.read.r0") (rawEncode [(3, [1]), (3, [1])]) = .error .InvalidValue := by decide
example : frameDecode (blk "HolderSignedTx") (rawEncode [(0, [1]), (1, [2]), (2, [3])]) = .error .InvalidValue := by decide   -- 4.. missing
example : readTlvFields (blk "ChannelMonitorUpdate.read.r0") ([3, 3, 1, 9] ++ [0xaa]) = .ok ([(3, .bytes [9])], [0xaa]) := by decide
example : readTlvFields (blk "ChannelMonitorUpdate.read.r0") [4, 3, 1, 9] = .error .ShortRead := by decide

/-! ## writers and readers agree -/

/-- the (write block, read block) pairs of hand-written codecs, resolved through their indices (names re-checked) -/
def resolvedPairs : List (FrameSchema × FrameSchema) :=
  tlvPairs.filterMap fun p =>
    match generatedTlvSchemas[p.2.1]?, generatedTlvSchemas[p.2.2.2]? with
    | some w, some r => if w.name == p.1 && r.name == p.2.2.1 then some (w, r) else none
    | _, _ => none

/-- every hand-written writer/reader pair resolves (the next theorem is not vacuous) -/
theorem pairs_resolve : resolvedPairs.length = tlvPairs.length ∧ tlvPairs.length > 50 := by decide

/-- a hand-written writer never emits an EVEN type its reader does not declare (the reader would reject
    the library's own output); and the odd types written only for the benefit of older readers are pinned -/
theorem written_types_known_to_reader :
    (∀ p ∈ resolvedPairs, ∀ t ∈ unknownToReader p.1 p.2, t % 2 = 1) ∧
    (resolvedPairs.filterMap fun p => if unknownToReader p.1 p.2 == [] then none else some (p.1.name, unknownToReader p.1 p.2))
      = [("Event.write.w2", [3, 9])] := by decide

/-! ## writers and readers agree FIELD BY FIELD

  `tlvFieldRows` (Generated/TlvFieldPairs.lean, re-extracted from the Rust text on every check): for every resolved
  hand-written (write block, read block) pair and every TLV type present on both sides, the struct field the writer
  takes the value from (`htlc.mpp_part.sender_intended_value` -> `.field mpp_part.sender_intended_value`) and the struct
  field the reader initialises from the record of that type (the variable bound by `read_tlv_fields!`, followed through
  `let`s into the constructor literal).  A writer that puts ANOTHER field under a type number than the one its reader
  restores from it (copy/paste of the line above, two fields swapped) changes a row and breaks the theorem. -/

/-- The rows on which writer key and reader key differ, one by one, with the reason.  Categories:
    LEGACY = type kept only for older readers / no longer written with content; COMPUTED = the writer serializes a value
    computed from several fields (or the reader assembles one field from several types); RENAMED = same datum under
    different names on the two sides (intermediate struct, renamed field); GETTER = writer goes through an accessor. -/
def fieldExceptions : List FieldPin := [
  -- LEGACY: `height_original` is gone; a constant 0 is written for pre-0.1 readers, the reader discards it
  ("PackageTemplate.write.w0", 4, (.const, "0u32"), (.loc, "height_original")),
  -- COMPUTED: PaymentClaimable writes `None` for a zero skimmed fee; reader `.unwrap_or(0)`
  ("Event.write.w0", 10, (.loc, "skimmed_fee"), (.field, "counterparty_skimmed_fee_msat")),
  -- LEGACY: PaymentPathFailed no longer carries a network update at type 1 (always `None`); the reader still accepts one
  ("Event.write.w2", 1, (.const, "None::<NetworkUpdate>"), (.field, "failure.network_update")),
  -- COMPUTED: HTLCIntercepted writes the scid inside `InterceptNextHop::FakeScid`
  ("Event.write.w4", 2, (.loc, "intercept_scid"), (.field, "requested_next_hop_scid")),
  -- LEGACY: PaymentForwarded writes the first prev/next HTLC locator's parts for readers that predate `prev_htlcs`/`next_htlcs`
  ("Event.write.w5", 1, (.loc, "legacy_prev.channel_id"), (.loc, "prev_channel_id")),
  ("Event.write.w5", 3, (.loc, "legacy_next.channel_id"), (.loc, "next_channel_id")),
  ("Event.write.w5", 9, (.loc, "legacy_prev.user_channel_id"), (.loc, "prev_user_channel_id")),
  ("Event.write.w5", 11, (.loc, "legacy_next.user_channel_id"), (.loc, "next_user_channel_id")),
  ("Event.write.w5", 13, (.loc, "legacy_prev.node_id"), (.loc, "prev_node_id")),
  ("Event.write.w5", 15, (.loc, "legacy_next.node_id"), (.loc, "next_node_id")),
  -- LEGACY: HTLCHandlingFailed writes the first of `prev_channel_ids` for readers that predate the list
  ("Event.write.w13", 0, (.field, "prev_channel_ids.first"), (.loc, "prev_channel_id")),
  -- LEGACY: OnionMessageIntercepted: peer id written from `next_hop` when it is a node id
  ("Event.write.w17", 0, (.loc, "legacy_peer_node_id"), (.field, "next_hop")),
  -- COMPUTED: channel type written only when it is not the legacy default; the reader overrides `funding.channel_parameters`
  ("FundedChannel.write.w0", 2, (.loc, "chan_type"), (.loc, "channel_type")),
  -- COMPUTED: written only when different from the legacy default derived from the channel value
  ("FundedChannel.write.w0", 4, (.loc, "serialized_holder_selected_reserve"), (.field, "funding.holder_selected_channel_reserve_satoshis")),
  ("FundedChannel.write.w0", 6, (.loc, "serialized_holder_htlc_max_in_flight"), (.field, "context.holder_max_htlc_value_in_flight_msat")),
  -- COMPUTED: the reader rebuilds `HolderCommitmentPoint` from the separately written points (types 45/47/63/71/73)
  ("FundedChannel.write.w0", 45, (.field, "holder_commitment_point.next_point"), (.field, "holder_commitment_point")),
  ("FundedChannel.write.w0", 47, (.field, "holder_commitment_point.pending_next_point"), (.field, "holder_commitment_point")),
  -- RENAMED: per-holding-cell-HTLC accountable flags, zipped back into the holding cell by the reader
  ("FundedChannel.write.w0", 77, (.loc, "holding_cell_accountable_flags"), (.loc, "holding_cell_accountable")),
  -- LEGACY: the first negotiated candidate's funding is written at type 3 for readers that predate type 11
  ("PendingFundingWriteable.write.w0", 3, (.field, "negotiated_candidates.funding"), (.field, "negotiated_candidates")),
  -- RENAMED: the reader fills the flat intermediate `ChannelManagerData`, the writer reads the live manager
  ("ChannelManager.write.w0", 3, (.field, "pending_outbound_payments.pending_outbound_payments"), (.field, "pending_outbound_payments")),
  ("ChannelManager.write.w0", 4, (.field, "claimable_payments.pending_claiming_payments"), (.field, "pending_claiming_payments")),
  ("ChannelManager.write.w0", 5, (.field, "our_network_pubkey"), (.field, "received_network_pubkey")),
  -- COMPUTED: pending events (with completion actions) are written at type 8 only when some action is present
  ("ChannelManager.write.w0", 8, (.expr, "if events_not_backwards_compatible { Some(&pendi"), (.field, "pending_events_read")),
  -- COMPUTED: purposes / onion fields of the claimable payments, collected while the HTLC lists are written, re-zipped by the reader
  ("ChannelManager.write.w0", 9, (.loc, "htlc_purposes"), (.loc, "claimable_htlc_purposes")),
  ("ChannelManager.write.w0", 13, (.loc, "htlc_onion_fields"), (.loc, "amountless_claimable_htlc_onion_fields")),
  -- GETTER: the offer cache lives in `flow`
  ("ChannelManager.write.w0", 21, (.field, "flow.writeable_async_receive_offer_cache"), (.field, "async_receive_offer_cache")),
  -- RENAMED / LEGACY: FailMalformedHTLC shares the reader with FailHTLC; an empty error packet marks the malformed variant
  ("HTLCForwardInfo.write.w1", 1, (.field, "failure_code"), (.loc, "malformed_htlc_failure_code")),
  ("HTLCForwardInfo.write.w1", 2, (.const, "Vec::<u8>::new()"), (.field, "err_packet.data")),
  -- LEGACY: payment params are no longer stored in the HTLC source (always `None`)
  ("HTLCSource.write.w0", 5, (.const, "None::<PaymentParameters>"), (.loc, "payment_params")),
  -- COMPUTED: `ErroneousField { tlv_fieldnum, suggested_value }` is rebuilt from types 1 and 3
  ("InvoiceError.write.w0", 1, (.field, "erroneous_field.tlv_fieldnum"), (.field, "erroneous_field")),
  -- GETTER
  ("NetworkGraph.write.w0", 1, (.field, "get_last_rapid_gossip_sync_timestamp"), (.field, "last_rapid_gossip_sync_timestamp")),
  -- COMPUTED: `payee` is an enum; clear / blinded hints are written under different types and merged back
  ("PaymentParameters.write.w0", 4, (.loc, "clear_hints"), (.field, "payee.route_hints")),
  ("PaymentParameters.write.w0", 8, (.loc, "blinded_hints"), (.field, "payee.route_hints")),
  -- COMPUTED: the final CLTV delta is written next to the payment params and handed to their `ReadableArgs`
  ("RouteParameters.write.w0", 4, (.field, "payment_params.payee.final_cltv_expiry_delta"), (.loc, "final_cltv_delta")),
  -- newtype: `ChannelLiquidities(map)`, tuple constructor
  ("ChannelLiquidities.write.w0", 0, (.field, ""), (.loc, "channel_liquidities")),
  -- GETTER: the two history trackers of `liquidity_history` are written under types 5 and 7
  ("ChannelLiquidity.write.w0", 5, (.field, "liquidity_history.writeable_min_offset_history"), (.field, "liquidity_history")),
  ("ChannelLiquidity.write.w0", 7, (.field, "liquidity_history.writeable_max_offset_history"), (.field, "liquidity_history")),
  -- LEGACY: the fixed-limit form of `max_dust_htlc_exposure` for readers that predate the enum (type 3)
  ("ChannelConfig.write.w0", 6, (.loc, "max_dust_htlc_exposure_msat_fixed_limit"), (.field, "max_dust_htlc_exposure")),
  -- COMPUTED: preimages with claim info are merged into `payment_preimages`; their presence also sets the flag
  ("write_chanmon_internal.w0", 25, (.field, "payment_preimages"), (.field, "written_by_0_1_or_later")),
  -- COMPUTED: the reader assigns `best_block.previous_blocks` after construction
  ("write_chanmon_internal.w0", 39, (.field, "best_block.previous_blocks"), (.loc, "best_block_previous_blocks")),
  -- the total MPP amount is not part of `ClaimableHTLC`: passed in by the caller, returned next to the HTLC
  ("write_claimable_htlc.w0", 1, (.loc, "total_mpp_value_msat"), (.loc, "total_msat")),
  -- GETTER / RENAMED: legacy `HolderSignedTx.to_self_value_sat` is `to_broadcaster_value_sat()` of the commitment
  ("write_legacy_holder_commitment_data.w0", 1, (.field, "to_broadcaster_value_sat"), (.field, "to_self_value_sat"))]

/-- For every hand-written writer/reader pair and every TLV type present on both sides, the writer takes the value
    from the struct field the reader restores from it — or the row is one of the pinned exceptions above.
    Breaks when a writer entry is changed to another field (a duplicated / swapped line) or a reader's constructor
    stops using the variable of that type. -/
theorem writer_reader_fields_agree : ∀ r ∈ tlvFieldRows, FieldRow.agrees fieldExceptions r = true := by decide +kernel

/-- … and the exception list is exact: precisely the differing rows of the current source, in order (nothing stale,
    nothing covered by accident) -/
theorem field_exceptions_exact : fieldMismatches tlvFieldRows = fieldExceptions := by decide +kernel

/-- the table is not degenerate: hundreds of rows, over three quarters of them compared as struct field paths on
    both sides, every row belongs to a resolved pair, and the `ClaimableHTLC` rows are among them -/
theorem field_rows_cover :
    tlvFieldRows.length > 350 ∧
    4 * (tlvFieldRows.filter FieldRow.bothFields).length > 3 * tlvFieldRows.length ∧
    (tlvFieldRows.all fun r => match tlvPairs[r.pairIdx]? with | some p => p.1 == r.wblock && p.2.2.1 == r.rblock | none => false) = true ∧
    (tlvFieldRows.any fun r => r.wblock == "write_claimable_htlc.w0" && r.typ == 3 && r.wkey == (.field, "mpp_part.sender_intended_value") && r.rkey == r.wkey) = true := by
  decide +kernel

/-- (write block, field path) pairs that may legitimately appear under two TLV types — none today -/
def writtenTwiceAllowed : List (String × String) := []

/-- within one hand-written write block no struct field is written under two TLV types -/
theorem no_field_written_twice : writtenTwice writtenTwiceAllowed tlvWriterFields = [] := by decide +kernel

/-- What a write + read RESETS: the fields of a paired hand-written reader's constructor literal that are initialised
    with a constant instead of anything read (block, field path, initialiser), one by one.  All of them are run-time-only
    state (signer/closing negotiation progress, caches, locks, counters that the owner re-derives, the MPP timer).  A
    reader that stops restoring a field (its initialiser replaced by `None` / `false` / `Default::default()`), or a new
    field that is forgotten in the writer and defaulted in the reader — the shape of KF-C12-2, where
    `LegacyChannelConfig::read` had `accept_underpaying_htlcs: false` — adds a row here and breaks the theorem. -/
def readerResetFields : List (String × String × String) := [
  -- FundedChannel: quiescence / splice hand-over, cached fee predictions and previous balances (recomputed), pending
  -- config update timer, handshake override, async-signer flags, closing_signed negotiation progress (restarts after
  -- reconnect), lnd workaround, reestablish bookkeeping
  ("FundedChannel.read.r0", "quiescent_action", "None"),
  ("FundedChannel.read.r0", "funding.holder_prev_commitment_tx_balance", "Mutex::new((0, 0))"),
  ("FundedChannel.read.r0", "funding.counterparty_prev_commitment_tx_balance", "Mutex::new((0, 0))"),
  ("FundedChannel.read.r0", "funding.next_local_fee", "Mutex::new(PredictedNextFee::default())"),
  ("FundedChannel.read.r0", "funding.next_remote_fee", "Mutex::new(PredictedNextFee::default())"),
  ("FundedChannel.read.r0", "context.prev_config", "None"),
  ("FundedChannel.read.r0", "context.inbound_handshake_limits_override", "None"),
  ("FundedChannel.read.r0", "context.signer_pending_revoke_and_ack", "false"),
  ("FundedChannel.read.r0", "context.signer_pending_commitment_update", "false"),
  ("FundedChannel.read.r0", "context.signer_pending_funding", "false"),
  ("FundedChannel.read.r0", "context.signer_pending_closing", "false"),
  ("FundedChannel.read.r0", "context.signer_pending_channel_ready", "false"),
  ("FundedChannel.read.r0", "context.signer_pending_stale_state_verification", "None"),
  ("FundedChannel.read.r0", "context.last_sent_closing_fee", "None"),
  ("FundedChannel.read.r0", "context.last_received_closing_sig", "None"),
  ("FundedChannel.read.r0", "context.pending_counterparty_closing_signed", "None"),
  ("FundedChannel.read.r0", "context.expecting_peer_commitment_signed", "false"),
  ("FundedChannel.read.r0", "context.closing_fee_limits", "None"),
  ("FundedChannel.read.r0", "context.closing_signed_in_flight", "false"),
  ("FundedChannel.read.r0", "context.workaround_lnd_bug_4006", "None"),
  ("FundedChannel.read.r0", "context.funding_locked_txid_sent_in_reestablish", "None"),
  ("FundedChannel.read.r0", "context.sent_message_awaiting_response", "None"),
  -- PendingFunding: candidates read from the legacy type 3 carry no contribution
  ("PendingFunding.read.r0", "negotiated_candidates.contribution", "None"),
  -- AsyncReceiveOfferCache: request attempt counter restarts
  ("AsyncReceiveOfferCache.read.r0", "offer_paths_request_attempts", "0"),
  -- NetworkGraph: node counters are re-assigned by the graph reader; verification context, removal trackers and
  -- pending UTXO checks are run-time only
  ("ChannelInfo.read.r0", "node_one_counter", "u32::MAX"),
  ("ChannelInfo.read.r0", "node_two_counter", "u32::MAX"),
  ("NetworkGraph.read.r0", "secp_ctx", "Secp256k1::verification_only()"),
  ("NetworkGraph.read.r0", "removed_node_counters", "Mutex::new(Vec::new())"),
  ("NetworkGraph.read.r0", "removed_nodes", "Mutex::new(new_hash_map())"),
  ("NetworkGraph.read.r0", "removed_channels", "Mutex::new(new_hash_map())"),
  ("NetworkGraph.read.r0", "pending_checks", "utxo::PendingChecks::new()"),
  ("NodeInfo.read.r0", "node_counter", "u32::MAX"),
  -- ChannelMonitor: event-processing re-entrancy flag; `failed_back_htlc_ids` is documented in-memory only (the harness
  -- compares monitors modulo it, hook verif_eq_modulo_unserialized)
  ("ChannelMonitor.read.r0", "is_processing_pending_events", "false"),
  ("ChannelMonitor.read.r0", "failed_back_htlc_ids", "new_hash_set()"),
  -- ClaimableHTLC: the MPP timeout timer restarts (the harness masks `timer_ticks` in the deep dump)
  ("ClaimableHTLC.read.r0", "mpp_part.timer_ticks", "0")]

/-- the reset list is exact -/
theorem reader_constant_fields_exact : tlvReaderConstFields = readerResetFields := by decide +kernel

-- non-vacuity: a duplicated line (the C12-a slip) and a swap are both caught on a toy table
example : FieldRow.agrees [] (0, "w", "r", 3, (.field, "mpp_part.value"), (.field, "mpp_part.sender_intended_value")) = false := by decide
example : fieldMismatches [(0, "w", "r", 2, (.field, "a"), (.field, "b")), (0, "w", "r", 4, (.field, "b"), (.field, "a")), (0, "w", "r", 6, (.field, "c"), (.field, "c"))]
    = [("w", 2, (.field, "a"), (.field, "b")), ("w", 4, (.field, "b"), (.field, "a"))] := by decide
example : writtenTwice [] [("w", [(2, "mpp_part.value"), (3, "mpp_part.value"), (6, "mpp_part.cltv_expiry")])] = [("w", "mpp_part.value")] := by decide
example : writtenTwice [("w", "mpp_part.value")] [("w", [(2, "mpp_part.value"), (3, "mpp_part.value")])] = [] := by decide

/-! ## hand-written enum byte codecs round trip (positional, non-TLV parts)

  `enumCodecs` (Generated/EnumCodecs.lean, re-extracted on every check): variant -> byte of the write-side `match`,
  byte -> variant of the read-side `match`, for the standalone `impl Writeable/Readable` pairs and the inline matches of
  `FundedChannel::write/read`, `ChannelMonitor`, `HTLCSource`, ….  A writer arm that emits the byte of ANOTHER variant
  (C12-r3: `EnabledStaged(_) => 0u8` — "announced disabled" written as "announced enabled") or a reader arm that
  constructs another variant changes `read (write v)` and breaks the theorem. -/

/-- The documented lossy normalisations, one by one: (codec, variant, variant it is read back as).
    Everything not listed must read back as itself. -/
def enumCanon : EnumCanon := [
  -- channelmonitor.rs: "HolderForceClosedWithInfo" is written under the legacy id 1 (plus TLVs the reader uses to rebuild
  -- it); the byte-level arm reads `HolderForceClosed`, the TLV-level code upgrades it when the info is present
  ("MonitorEvent", "HolderForceClosedWithInfo", "HolderForceClosed"),
  -- channel.rs ChannelUpdateStatus::write: "We only care about writing out the current state as it was announced, ie only
  -- either Enabled or Disabled. In the case of DisabledStaged, we most recently announced the channel as enabled, so we
  -- write 0. For EnabledStaged, we similarly write a 1."  The staged tick counters are dropped.
  ("ChannelUpdateStatus", "DisabledStaged", "Enabled"),
  ("ChannelUpdateStatus", "EnabledStaged", "Disabled"),
  -- channel.rs AnnouncementSigsState::write: "We only care about writing out the current state as if we had just
  -- disconnected, at which point we always set anything but AnnouncementSigsReceived to NotSent."
  ("AnnouncementSigsState", "MessageSent", "NotSent"),
  ("AnnouncementSigsState", "Committed", "NotSent"),
  -- FundedChannel::write, OutboundHTLCState::RemoteRemoved: "Treat this as a Committed because we haven't received the CS -
  -- they'll resend the claim/fail on reconnect"
  ("OutboundHTLCState", "RemoteRemoved", "Committed"),
  -- FundedChannel::write, HTLCUpdateAwaitingACK::FailMalformedHTLC: "We don't want to break downgrading by adding a new
  -- variant, so write a dummy ::FailHTLC variant and write the real malformed error as an optional TLV" (type 43; the
  -- reader turns the entry back into FailMalformedHTLC after the TLV stream)
  ("HTLCUpdateAwaitingACK", "FailMalformedHTLC", "FailHTLC"),
  -- channelmanager.rs HTLCSource: the TrampolineForward variant is written (id 2) but `HTLCSource::read` knows ids 0 and 1
  -- only (UnknownRequiredFeature): trampoline forwarding is not reachable yet; listed by the translator as unread writer
  ("HTLCSource", "TrampolineForward", "!")]

/-- read (write v) = canon v for every variant of every hand-written enum byte codec -/
theorem enum_codec_roundtrip :
    ∀ t ∈ codecRoundtrips enumCodecs, t.2.2 = canonOf enumCanon t.1 t.2.1 := by decide +kernel

/-- … and the normalisation list is exact: precisely the variants that do not read back as themselves -/
theorem enum_canon_exact : codecLossy enumCodecs = enumCanon := by decide +kernel

/-- two variants that must stay distinguishable after a reload (different canonical variants) are never written as the
    same byte — in particular announced-enabled (`Enabled`, `DisabledStaged`) vs announced-disabled (`Disabled`,
    `EnabledStaged`) -/
theorem enum_codec_distinguishes :
    ∀ c ∈ enumCodecs, ∀ w1 ∈ EnumCodec.writes c, ∀ w2 ∈ EnumCodec.writes c,
      canonOf enumCanon (EnumCodec.name c) w1.1 ≠ canonOf enumCanon (EnumCodec.name c) w2.1 → w1.2 ≠ w2.2 := by decide +kernel

/-- bytes a reader still accepts although its writer never emits them (legacy encodings), pinned -/
theorem enum_codec_read_only_bytes : codecReadOnly enumCodecs = [
    ("OutboundHTLCState", 2, "RemoteRemoved"),   -- written as Committed (1) since the state is re-derived on reconnect
    ("HTLCFailureMsg", 2, "Relay"),              -- ids 2 / 3: the length-prefixed TLV forms read since 0.0.x, ids 0 / 1 written
    ("HTLCFailureMsg", 3, "Malformed")] := by decide +kernel

/-- the codecs found in the current source (a codec whose `match` changes shape disappears from the table: pinned) -/
theorem enum_codecs_present : enumCodecs.map EnumCodec.name =
    ["MonitorEvent", "ChannelUpdateStatus", "AnnouncementSigsState", "InboundHTLCState", "InboundHTLCRemovalReason",
     "OutboundHTLCState", "HTLCUpdateAwaitingACK", "RAACommitmentOrder", "HTLCFailureMsg", "HTLCSource"] := by decide +kernel

example : codecLossy [("S", [("Enabled", 0), ("DisabledStaged", 0), ("EnabledStaged", 0), ("Disabled", 1)], [(0, "Enabled"), (1, "Disabled")])]
    = [("S", "DisabledStaged", "Enabled"), ("S", "EnabledStaged", "Enabled")] := by decide   -- the C12-r3 slip reads back as Enabled
example : canonOf enumCanon "ChannelUpdateStatus" "EnabledStaged" = "Disabled" ∧ canonOf enumCanon "ChannelUpdateStatus" "Enabled" = "Enabled" := by decide

/-- The straight-line positional parts of the three big hand-written serializers: the common subsequence of the field
    names written (`self.….x.write(writer)`) and of the variables read (`let x = Readable::read(reader)?`), pinned.  Two
    positional fields swapped on one side shorten the common subsequence.  (Names only; loops, version branches and
    renamed fields are outside it.) -/
theorem positional_common_exact : positionalCommon = [
    ("FundedChannel", ["user_id_low", "channel_id", "latest_monitor_update_id", "destination_script",
      "counterparty_next_commitment_transaction_number", "value_to_self_msat", "monitor_pending_channel_ready",
      "monitor_pending_revoke_and_ack", "monitor_pending_commitment_signed", "holding_cell_update_fee", "next_holder_htlc_id",
      "update_time_counter", "feerate_per_kw", "funding_tx_confirmed_in", "funding_tx_confirmation_height", "short_channel_id",
      "counterparty_dust_limit_satoshis", "holder_dust_limit_satoshis", "counterparty_max_htlc_value_in_flight_msat",
      "counterparty_htlc_minimum_msat", "holder_htlc_minimum_msat", "counterparty_max_accepted_htlcs", "funding_transaction",
      "counterparty_next_commitment_point", "counterparty_current_commitment_point", "counterparty_node_id",
      "counterparty_shutdown_scriptpubkey", "commitment_secrets", "channel_update_status"]),
    ("ChannelManager", ["chain_hash", "short_channel_id", "payment_hash", "peer_pubkey", "latest_features", "session_priv"]),
    ("ChannelMonitor", ["latest_update_id", "commitment_transaction_number_obscure_factor", "destination_script",
      "counterparty_payment_script", "script", "channel_keys_id", "holder_revocation_basepoint",
      "current_counterparty_commitment_txid", "prev_counterparty_commitment_txid", "counterparty_commitment_params",
      "channel_value_satoshis", "commitment_secrets", "txid", "lockdown_from_offchain", "holder_tx_signed"])] := by decide +kernel

/-! ## enum variant ids -/

/-- within every TLV-based enum the variant ids (struct and tuple variants together) are pairwise distinct -/
theorem enum_variant_ids_distinct : ∀ e ∈ generatedEnums, (e.2.2.1 ++ e.2.2.2).Nodup := by decide

/-- an id no variant declares is rejected (`UnknownRequiredFeature`) unless the enum is upgradable and the id
    odd, in which case the value is skipped (`Ok(None)`) -/
theorem unknown_variant_classified (upg : Bool) (si ti : List Nat) (id : Nat) (h1 : id ∉ si) (h2 : id ∉ ti) :
    classifyVariant upg si ti id = (if upg = true ∧ id % 2 = 1 then .skipped else .rejected) := by
  simp only [classifyVariant, List.contains_iff_mem, h1, h2, if_false]
  by_cases hu : upg = true <;> by_cases ho : id % 2 = 1 <;> simp [hu, ho]
example : classifyVariant true [0, 2] [4] 7 = .skipped ∧ classifyVariant true [0, 2] [4] 6 = .rejected ∧
    classifyVariant false [0, 2] [4] 7 = .rejected ∧ classifyVariant false [0, 2] [4] 4 = .tuple := by decide

/-! ## version prefix -/

/-- an object whose writer says "readers below `minVer` cannot read this" is refused by a reader that
    implements an older version -/
theorem ver_prefix_rejects_newer_min (this ver minVer : Nat) (hv : ver < 256) (hm : minVer < 256) (h : this < minVer)
    (rest : Bytes) : readVerPrefix this (writeVerPrefix ver minVer ++ rest) = .error .UnknownVersion := by
  rw [readVerPrefix_write this ver minVer hv hm]; simp [h]

/-- … and accepted (version returned, rest untouched) by any reader at or above `minVer` -/
theorem ver_prefix_accepts_current (this ver minVer : Nat) (hv : ver < 256) (hm : minVer < 256) (h : minVer ≤ this)
    (rest : Bytes) : readVerPrefix this (writeVerPrefix ver minVer ++ rest) = .ok (ver, rest) := by
  rw [readVerPrefix_write this ver minVer hv hm]; simp [Nat.not_lt.mpr h]
example : readVerPrefix 1 [2, 2, 9] = .error .UnknownVersion := by decide
example : readVerPrefix 1 [1, 1, 9] = .ok (1, [9]) := by decide
example : readVerPrefix 1 [1] = .error .ShortRead := by decide

/-- the version constants of the current source: every version-prefixed object (ChannelMonitor,
    ChannelMonitorUpdate, OnchainTxHandler, FundedChannel, ChannelManager, NetworkGraph, Route) is readable by
    its own reader -/
theorem ver_prefixes_self_readable : ∀ p ∈ generatedVerPrefixes, ∀ rest : Bytes,
    readVerPrefix p.2.2.2 (writeVerPrefix p.2.1 p.2.2.1 ++ rest) = .ok (p.2.1, rest) := by
  have h : ∀ p ∈ generatedVerPrefixes, p.2.1 < 256 ∧ p.2.2.1 < 256 ∧ p.2.2.1 ≤ p.2.2.2 := by decide
  intro p hp rest
  obtain ⟨a, b, c⟩ := h p hp
  exact ver_prefix_accepts_current _ _ _ a b c rest
example : generatedVerPrefixes.length ≥ 5 := by decide

/-! ## the length / integer primitives every persisted collection is written with — TRANSLATED from util/ser.rs

  `Generated/SerPrims.lean` is regenerated on every check from `impl Writeable / Readable for CollectionLength`, `for BigSize` and the
  HighZeroBytesDroppedBigSize reader of `impl_writeable_primitive!` (comparisons, escape / tag constants, widths).  The theorems
  below are about THOSE functions; `*_matches_source` additionally identifies them with the hand-written mirrors of Model/Codec.lean,
  so every Codec theorem (C13) and every frame theorem above talks about the boundaries the source has today.  C12-r4
  (`if self.0 < 0xffff` -> `<= u16::MAX`: a collection of exactly 65535 entries written as the bare escape marker) breaks
  `collection_length_matches_source` and `collection_length_roundtrip_source`. -/

/-- the CollectionLength writer / reader of the current source are the `CollLen.encode` / `CollLen.decode` of Model/Codec.lean -/
theorem collection_length_matches_source :
    (∀ n, SerPrims.collLenEncode n = CollLen.encode n) ∧ (∀ b, SerPrims.collLenDecode b = CollLen.decode b) :=
  ⟨SerPrims.collLenEncode_eq, SerPrims.collLenDecode_eq⟩
example : SerPrims.collLenEncode 65534 = [0xff, 0xfe] ∧ SerPrims.collLenEncode 65535 = [0xff, 0xff, 0, 0, 0, 0, 0, 0, 0, 0] ∧
    SerPrims.collLenEncode 65536 = [0xff, 0xff, 0, 0, 0, 0, 0, 0, 0, 1] := by decide

/-- every collection size a `u64` can hold is read back from what the current source writes for it, whatever follows:
    a Vec / HashMap / String / byte blob of ANY length (65535 included) announces its own length correctly -/
theorem collection_length_roundtrip_source (n : Nat) (h : n < 2 ^ 64) (r : Bytes) :
    SerPrims.collLenDecode (SerPrims.collLenEncode n ++ r) = .ok (n, r) := by
  rw [SerPrims.collLenEncode_eq, SerPrims.collLenDecode_eq]; exact collLen_roundtrip n h r
example : SerPrims.collLenDecode (SerPrims.collLenEncode 65535 ++ [7]) = .ok (65535, [7]) := by decide
example : SerPrims.collLenDecode [0xff, 0xff, 1, 2] = .error .ShortRead := by decide   -- the bare marker is NOT a length

/-- the BigSize writer / reader of the current source (match ranges, tags, widths, non-minimality comparisons) are the
    `BigSize.encode` / `BigSize.decode` of Model/Codec.lean -/
theorem bigsize_matches_source :
    (∀ n, SerPrims.bigSizeEncode n = BigSize.encode n) ∧ (∀ b, SerPrims.bigSizeDecode b = BigSize.decode b) :=
  ⟨SerPrims.bigSizeEncode_eq, SerPrims.bigSizeDecode_eq⟩
example : SerPrims.bigSizeEncode 0xfc = [0xfc] ∧ SerPrims.bigSizeEncode 0xfd = [0xfd, 0, 0xfd] ∧
    SerPrims.bigSizeEncode 0xffff = [0xfd, 0xff, 0xff] ∧ SerPrims.bigSizeEncode 0x10000 = [0xfe, 0, 1, 0, 0] := by decide

/-- every TLV type / length a `u64` can hold round-trips through the BigSize of the current source -/
theorem bigsize_roundtrip_source (n : Nat) (h : n < 2 ^ 64) (r : Bytes) :
    SerPrims.bigSizeDecode (SerPrims.bigSizeEncode n ++ r) = .ok (n, r) := by
  rw [SerPrims.bigSizeEncode_eq, SerPrims.bigSizeDecode_eq]; exact bigsize_roundtrip' n h r
example : SerPrims.bigSizeDecode (SerPrims.bigSizeEncode 0x10000 ++ [9]) = .ok (0x10000, [9]) := by decide

/-- … and the reader of the current source accepts minimal encodings only (one byte string per value) -/
theorem bigsize_minimal_source (b r : Bytes) (n : Nat) (h : SerPrims.bigSizeDecode b = .ok (n, r)) :
    b = SerPrims.bigSizeEncode n ++ r ∧ n < 2 ^ 64 := by
  rw [SerPrims.bigSizeDecode_eq] at h; rw [SerPrims.bigSizeEncode_eq]; exact bigsize_minimal' h
example : SerPrims.bigSizeDecode [0xfd, 0x00, 0xfc] = .error .InvalidValue := by decide

/-- the HighZeroBytesDroppedBigSize reader of the current source (accept condition `total_read_len == 0 || buf[$len] != 0`, the
    `first_byte` offset into the zero-padded buffer) is the `hzd` case of `FieldTy.decode` -/
theorem hzd_read_matches_source (len : Nat) (b : Bytes) :
    (FieldTy.hzd len).decode b = (SerPrims.hzdDecode len b).map (fun p => (Val.nat p.1, p.2)) :=
  SerPrims.hzdDecode_eq len b
example : SerPrims.hzdDecode 8 [1, 0] = .ok (256, []) ∧ SerPrims.hzdDecode 8 [0, 1] = .error .InvalidValue ∧
    SerPrims.hzdDecode 8 [] = .ok (0, []) := by decide

/-- the byte widths of `impl_writeable_primitive!` are the widths of the types -/
theorem prim_widths_exact : SerPrims.primWidths =
    [("u128", 16), ("u64", 8), ("u32", 4), ("u16", 2), ("i64", 8), ("i32", 4), ("i16", 2), ("i8", 1)] := by decide

/-! ## positional (non-TLV) prefixes: writer and reader agree POSITION BY POSITION

  `positionalSteps` (Generated/Positional.lean, tools/gen_positional.py, re-extracted on every check): the top-level statements of
  `FundedChannel::write / read`, `ChannelManager::write / ChannelManagerData::read`, `write_chanmon_internal / ChannelMonitor::read`
  that touch the stream, in source order, from the version prefix to the TLV block.  Unlike `positional_common_exact` (common
  subsequence of NAMES) the comparison is by POSITION: two adjacent same-typed values swapped on one side — e.g. the holder and the
  counterparty commitment numbers of a channel, which no type check and no TLV rule can tell apart — put a name against another
  name at two positions and break `positional_steps_agree`. -/

/-- steps that are ONE step on the other side: (object, merges of write steps, merges of read steps), highest index first.
    ChannelManager: best block (height + hash), the channel / event / background-event / pending-inbound-payment count + loop are
    each one `{…}` block or a constant `0u64` on the write side.  ChannelMonitor: the funding outpoint (txid + index) and the best
    block (hash + height) are written as two values and read by one block. -/
def posMerges : List (String × List (Nat × Nat) × List (Nat × Nat)) := [
  ("FundedChannel", [], []),
  ("ChannelManager", [], [(17, 2), (13, 2), (11, 2), (4, 2), (2, 2)]),
  ("ChannelMonitor", [(36, 2), (9, 2)], [])]

def posAligned : List (String × List PosStep × List PosStep) :=
  positionalSteps.map fun o =>
    match posMerges.find? (·.1 == o.1) with
    | some m => (o.1, mergeSteps o.2.1 m.2.1, mergeSteps o.2.2 m.2.2)
    | none => o

/-- the three positional prefixes have the same number of steps on both sides, begin with the version prefix and end with the
    TLV block -/
theorem positional_steps_framed :
    posAligned.map (fun o => (o.1, o.2.1.length, posFramed o.2.1 o.2.2)) =
      [("FundedChannel", 54, true), ("ChannelManager", 17, true), ("ChannelMonitor", 44, true)] := by decide +kernel

/-- at EVERY position the written value and the value read carry the same canonical name, except the positions pinned here one by
    one: renamed intermediates (`get_value_satoshis()` / `channel_value_satoshis`, `holder_commitment_point.next_transaction_number()` /
    `holder_commitment_next_transaction_number`, funding scripts), legacy constants written for old readers and discarded (`const` /
    `dummy` / `val`), and blocks labelled by their loop variable on one side and their count on the other -/
theorem positional_steps_agree :
    posAligned.map (fun o => (o.1, posNameMismatches o.2.1 o.2.2)) = [
      ("FundedChannel",
        [(2, "const", "val"),                                   -- 8 zero bytes of the pre-0.0.99 config, read and dropped
         (5, "get_value_satoshi", "channel_value_satoshi"),
         (9, "next_transaction_number", "holder_commitment_next_transaction_number"),
         (26, "is_outbound", "pending_update_fee_value"),        -- `if is_outbound { pending_update_fee… }` written by role, one Option<u32> read
         (32, "const", "?"),                                     -- legacy `0u8` (no longer used OnchainTxHandler flag), reader accepts 0 / 1
         (39, "counterparty_selected_channel_reserve_satoshi", "dummy"),   -- moved to TLV; positional copy read and dropped
         (43, "minimum_depth", "dummy"),
         (45, "channel_transaction_parameter", "channel_parameter")]),
      ("ChannelManager",
        [(2, "best_block", "best_block_height"),
         (4, "forward", "forward_htlc"),
         (5, "claimable_payment", "claimable_htlc"),
         (6, "claimable_payment", "claimable_htlc"),
         (7, "serializable_peer", "peer"),
         (8, "zip", "peer"),
         (9, "events_not_backwards_compatible", "event"),
         (10, "const", "background_event"),                      -- `0u64`: background events are never written
         (11, "highest_seen_timestamp", "last_node_announcement_serial"),   -- "we simply write the highest_seen_timestamp twice"
         (13, "const", "pending_inbound_payment"),               -- `0 as u64`: no stateful inbound payments since 0.0.116
         (14, "num_pending_outbounds_compat", "pending_outbound_payments_compat"),
         (15, "pending_outbound_payment", "pending_outbound_payments_compat")]),
      ("ChannelMonitor",
        [(9, "txid", "outpoint"),
         (10, "script_pubkey", "funding_script"),
         (14, "redeem_script", "funding_redeemscript"),
         (25, "prev_holder_commitment_tx", "prev_holder_signed_tx"),
         (26, "write_legacy_holder_commitment_data", "current_holder_signed_tx"),
         (31, "?", "pending_monitor_event"),                     -- count computed in a block (HolderForceClosedWithInfo written twice)
         (35, "block_hash", "best_block"),
         (36, "onchain_events_awaiting_threshold_conf", "waiting_threshold_conf"),
         (37, "onchain_events_awaiting_threshold_conf", "waiting_threshold_conf")])] := by decide +kernel

/-- wherever both sides state the integer / value type of a position (`as u64`, `let x: u64`, `U48`) the types are equal -/
theorem positional_types_agree :
    posAligned.map (fun o => (o.1, posTypeMismatches o.2.1 o.2.2)) =
      [("FundedChannel", []), ("ChannelManager", []), ("ChannelMonitor", [])] := by decide +kernel

/-- the compound steps (loops, `if` / `match`, `{…}`), with the number of syntactic stream accesses inside on the write and on the
    read side, pinned: a write added to / dropped from a loop body without the matching read (or vice versa) changes a pair -/
theorem positional_blocks_exact :
    posAligned.map (fun o => (o.1, posBlocks o.2.1 o.2.2)) = [
      ("FundedChannel",
        [(2, "const", 1, 1), (4, "channel_state", 1, 1), (7, "shutdown_scriptpubkey", 2, 1), (13, "pending_inbound_htlc", 16, 13),
         (15, "pending_outbound_htlc", 13, 10), (17, "holding_cell_htlc_update", 15, 10), (18, "resend_order", 2, 1),
         (23, "monitor_pending_forward", 2, 2), (25, "monitor_pending_failure", 3, 3), (26, "is_outbound", 3, 1), (32, "const", 1, 4),
         (39, "counterparty_selected_channel_reserve_satoshi", 1, 1), (43, "minimum_depth", 1, 1),
         (44, "counterparty_forwarding_info", 5, 4)]),
      ("ChannelManager",
        [(2, "best_block", 2, 2), (3, "channel", 2, 2), (4, "forward", 4, 4), (6, "claimable_payment", 3, 3), (8, "zip", 2, 2),
         (9, "events_not_backwards_compatible", 3, 2), (10, "const", 1, 4), (13, "const", 1, 3), (15, "pending_outbound_payment", 1, 1)]),
      ("ChannelMonitor",
        [(4, "broadcasted_holder_revokable_script", 5, 4), (6, "shutdown_script", 2, 1), (9, "txid", 2, 2),
         (16, "their_cur_per_commitment_point", 5, 3), (20, "counterparty_claimable_outpoint", 4, 4),
         (22, "counterparty_commitment_txn_on_chain", 2, 2), (24, "counterparty_hash_commitment_number", 2, 2),
         (25, "prev_holder_commitment_tx", 3, 2), (26, "write_legacy_holder_commitment_data", 1, 1), (30, "payment_preimage", 1, 1),
         (31, "?", 1, 1), (32, "pending_monitor_event", 4, 2), (34, "pending_event", 1, 1), (35, "block_hash", 2, 2),
         (37, "onchain_events_awaiting_threshold_conf", 1, 1), (39, "outputs_to_watch", 4, 4)])] := by decide +kernel

-- non-vacuity: swapping the two commitment numbers on the write side is seen at both positions
example : posNameMismatches [("val", "counterparty_next_commitment_transaction_number", "", 1), ("val", "next_transaction_number", "", 1)]
      [("val", "holder_commitment_next_transaction_number", "", 1), ("val", "counterparty_next_commitment_transaction_number", "", 1)]
    = [(0, "counterparty_next_commitment_transaction_number", "holder_commitment_next_transaction_number"),
       (1, "next_transaction_number", "counterparty_next_commitment_transaction_number")] := by decide
example : mergeSteps [("val", "a", "", 1), ("val", "txid", "", 1), ("val", "index", "", 1), ("val", "b", "", 1)] [(1, 2)]
    = [("val", "a", "", 1), ("blk", "txid", "", 2), ("val", "b", "", 1)] := by decide

/-! ## the writer's "forget the peer's uncommitted updates" table (FundedChannel::write / ::read / remove_uncommitted_htlcs_and_mark_paused)

  `Generated/ChanForget.lean` (tools/gen_chan_forget.py, re-extracted on every check) holds, statement by statement, what
  `impl Writeable for FundedChannel` does with the updates the PEER announced but no commitment_signed covers yet: the
  `dropped_inbound_htlcs` counter, the `len - dropped` count, the `continue` of the inbound loop and the state bytes, the state bytes
  of outbound HTLCs (RemoteRemoved written as Committed), the three-way pending_update_fee statement, the rewound
  `next_counterparty_htlc_id`; the reader's byte -> variant matches and its role-derived fee state; and the `retain` closure, the
  counter rewind, the fee reset and the outbound reset of `remove_uncommitted_htlcs_and_mark_paused`.  `Model/ChanForget.lean`
  runs those tables over a channel (`write`, `read`, `forget`, `recv`).  Seeded C12-r5 (`next_counterparty_htlc_id` written without
  the rewind) and C01-r5 (a fundee's RemoteAnnounced fee update written) each change one generated definition and break
  `written_state_is_forgotten_state`, `write_as_if_forgotten` and `retransmission_restores`. -/
section ChanForget
open Ldk.ChanForget Ldk.ChanForget.Gen

/-- WRITTEN STATE = IN-MEMORY STATE MINUS EXACTLY THE PEER'S UNCOMMITTED UPDATES: for every channel state (any HTLC lists, any
    ids, any fee update consistent with the channel's role) reading back what `FundedChannel::write` writes succeeds and yields
    the state `remove_uncommitted_htlcs_and_mark_paused` produces in memory.  (`FeeWf`: only the funder has an `Outbound` fee
    update and only the fundee a received one — `send_update_fee` panics on a fundee, `update_fee` closes on a funder; preserved by
    every transition of the model, `feeWf_preserved`, and asserted on every dump of the real channels by the harness.) -/
theorem written_state_is_forgotten_state (c : Chan) (h : FeeWf c) : readChan c.outbound (writeChan c) = some (forget c) := by
  obtain ⟨f1, f2, f3⟩ := flags
  have hc : (writeChan c).inCount = (writeChan c).inb.length := by
    simp only [writeChan, f1, if_true, filterMap_len]; have := len_split c.inb; rw [dropped_eq]; omega
  have ho : (writeChan c).outCount = (writeChan c).outb.length := by simp [writeChan]
  unfold readChan
  rw [if_neg (by simp [hc, ho])]
  simp only [writeChan, mapOpt_in, mapOpt_out, fee_rt c.outbound c.fee h, f2, if_true]
  simp only [forget, f3, if_true, counted_eq]
example : readChan false (writeChan ⟨false, [(4, .committed), (5, .remoteAnnounced), (6, .remoteAnnounced)], [(0, .remoteRemoved)], some (500, .remoteAnnounced), none, [9], 1, 7⟩)
    = some ⟨false, [(4, .committed)], [(0, .committed)], none, none, [9], 1, 5⟩ := by decide

/-- "we write out as if remove_uncommitted_htlcs_and_mark_paused had just been called": the bytes do not depend on whether the
    peer was disconnected first -/
theorem write_as_if_forgotten (c : Chan) (h : FeeWf c) : writeChan (forget c) = writeChan c := by
  obtain ⟨f1, f2, f3⟩ := flags
  simp only [writeChan, forget, f1, f2, f3, if_true, dropped_kept, filterMap_kept, List.map_map, List.length_map, wFee_forget c.outbound c.fee h,
    counted_eq, Nat.sub_zero]
  have h1 := len_split c.inb
  have h2 := dropped_eq c.inb
  congr 1
  · omega
  · apply List.map_congr_left; intro a _; simp [out_tag_reset]

/-- a second disconnection forgets nothing more -/
theorem forget_idempotent (c : Chan) : forget (forget c) = forget c := by
  obtain ⟨_, _, f3⟩ := flags
  simp only [forget, f3, if_true, filter_keep_idem, forgetFee_idem, List.map_map, counted_eq, dropped_kept, Nat.sub_zero]
  congr 1
  apply List.map_congr_left; intro a _; simp [out_reset_idem]

/-- … EXACTLY the peer's uncommitted updates: the inbound HTLCs dropped are the RemoteAnnounced ones and the id counter is rewound by
    their number; the holding cell (HTLC updates and fee update — OUR updates, not yet sent) and our own id counter are kept -/
theorem forgets_exactly_peer_uncommitted (c : Chan) :
    (forget c).inb = c.inb.filter (fun h => h.2 ≠ .remoteAnnounced) ∧
    (forget c).nextCp = c.nextCp - (c.inb.filter (fun h => h.2 = .remoteAnnounced)).length ∧
    (forget c).hold = c.hold ∧ (forget c).holdFee = c.holdFee ∧ (forget c).nextHolder = c.nextHolder ∧ (forget c).outbound = c.outbound ∧
    (forget c).outb = c.outb.map (fun h => (h.1, if h.2 = .remoteRemoved then .committed else h.2)) ∧
    (forget c).fee = (match c.fee with | some (_, .remoteAnnounced) => none | f => f) := by
  obtain ⟨_, _, f3⟩ := flags
  refine ⟨?_, ?_, rfl, rfl, rfl, rfl, ?_, ?_⟩
  · simp only [forget]; apply List.filter_congr; intro a _; cases a.2 <;> decide
  · simp only [forget, f3, if_true]; congr 2; apply List.filter_congr; intro a _; cases a.2 <;> decide
  · simp only [forget]; apply List.map_congr_left; intro a _; cases a.2 <;> rfl
  · simp only [forget]; cases hf : c.fee with
    | none => rfl
    | some p => obtain ⟨r, s⟩ := p; cases s <;> rfl

/-- READING IT BACK AND RE-APPLYING THE RETRANSMITTED UPDATES RESTORES THE IN-MEMORY STATE: the peer sends its uncommitted
    update_add_htlcs (and update_fee) again after channel_reestablish; the re-read channel accepts every one of them
    (`htlc_id == next_counterparty_htlc_id` each time — the written counter was rewound by exactly the number of HTLCs not
    written) and ends in the state the writer saw, up to outbound RemoteRemoved -> Committed (the peer's update_fulfill / fail is
    resent too; not modelled) -/
theorem retransmission_restores (c : Chan) (h : FeeWf c) (ha : AnnWf c) :
    (readChan c.outbound (writeChan c)).bind (fun c' => recvAll c' (retransmit c)) =
      some { c with outb := c.outb.map (fun h => (h.1, mOutReset h.2)) } := by
  rw [written_state_is_forgotten_state c h]
  obtain ⟨pre, k, hk, hpre, hin⟩ := ha
  obtain ⟨_, _, f3⟩ := flags
  obtain ⟨ob, inb, outb, fee, holdFee, hold, nh, ncp⟩ := c
  simp only at hk hin
  subst hin
  have hkeep : pre.filter (fun x => mKeep x.2) = pre := by
    apply List.filter_eq_self.mpr; intro x hx; exact (keep_iff x.2).mpr (hpre x hx)
  have hnone : ∀ l : List Nat, (l.map (fun i => (i, InSt.remoteAnnounced))).filter (fun x => mKeep x.2) = [] := by
    intro l; apply List.filter_eq_nil_iff.mpr; intro x hx; obtain ⟨i, _, rfl⟩ := List.mem_map.mp hx; simp [mKeep]
  have hra_pre : pre.filter (fun x => x.2 = .remoteAnnounced) = [] := by
    apply List.filter_eq_nil_iff.mpr; intro x hx; simpa using hpre x hx
  have hra_ann : ∀ l : List Nat, (l.map (fun i => (i, InSt.remoteAnnounced))).filter (fun x => x.2 = .remoteAnnounced) = l.map (fun i => (i, InSt.remoteAnnounced)) := by
    intro l; apply List.filter_eq_self.mpr; intro x hx; obtain ⟨i, _, rfl⟩ := List.mem_map.mp hx; simp
  have hcnt : ((pre ++ (List.range' (ncp - k) k).map (fun i => (i, InSt.remoteAnnounced))).filter (fun x => mCounted x.2)).length = k := by
    rw [counted_eq, dropped_eq, List.filter_append]
    have : pre.filter (fun x => !mKeep x.2) = [] := by
      apply List.filter_eq_nil_iff.mpr; intro x hx; simp [(keep_iff x.2).mpr (hpre x hx)]
    rw [this, List.nil_append, List.filter_eq_self.mpr, List.length_map, List.length_range']
    intro x hx; obtain ⟨i, _, rfl⟩ := List.mem_map.mp hx; simp [mKeep]
  have hforget : forget ⟨ob, pre ++ (List.range' (ncp - k) k).map (fun i => (i, InSt.remoteAnnounced)), outb, fee, holdFee, hold, nh, ncp⟩
      = ⟨ob, pre, outb.map (fun h => (h.1, mOutReset h.2)), forgetFee fee, holdFee, hold, nh, ncp - k⟩ := by
    simp only [forget, f3, if_true, List.filter_append, hkeep, hnone, List.append_nil]
    rw [← List.filter_append, hcnt]
  have hrt : retransmit ⟨ob, pre ++ (List.range' (ncp - k) k).map (fun i => (i, InSt.remoteAnnounced)), outb, fee, holdFee, hold, nh, ncp⟩
      = (List.range' (ncp - k) k).map Msg.add ++ (match fee with | some (r, .remoteAnnounced) => [Msg.fee r] | _ => []) := by
    simp only [retransmit, List.filter_append, hra_pre, hra_ann, List.nil_append, List.map_map]; rfl
  have hadds := recvAll_adds k ⟨ob, pre, outb.map (fun h => (h.1, mOutReset h.2)), forgetFee fee, holdFee, hold, nh, ncp - k⟩
    (match fee with | some (r, .remoteAnnounced) => [Msg.fee r] | _ => [])
  simp only at hadds
  rw [hforget, hrt, Option.bind_some, hadds, show ncp - k + k = ncp by omega]
  cases fee with
  | none => rfl
  | some p =>
    obtain ⟨r, s⟩ := p
    have hw : (ob = true ↔ s = .outbound) := by simpa [FeeWf] using h
    cases s with
    | remoteAnnounced =>
      have hob : ob = false := by cases ob <;> simp_all
      subst hob; rfl
    | awaitingRemoteRevokeToAnnounce => rfl
    | outbound => rfl
example : (readChan false (writeChan ⟨false, [(4, .committed), (5, .remoteAnnounced), (6, .remoteAnnounced)], [], some (500, .remoteAnnounced), none, [], 1, 7⟩)).bind
      (fun c' => recvAll c' [.add 5, .add 6, .fee 500])
    = some ⟨false, [(4, .committed), (5, .remoteAnnounced), (6, .remoteAnnounced)], [], some (500, .remoteAnnounced), none, [], 1, 7⟩ := by decide
-- the C12-r5 shape: a counter that is NOT rewound makes the re-read channel refuse the retransmitted add ("Remote skipped HTLC ID")
example : recv ⟨false, [(4, .committed)], [], none, none, [], 1, 6⟩ (.add 5) = none := by decide

/-- the two well-formedness conditions are invariants of the modelled transitions: receiving an update, a disconnection, a
    write + read -/
theorem feeWf_preserved (c c' : Chan) (m : Msg) (h : FeeWf c) (hr : recv c m = some c') : FeeWf c' ∧ FeeWf (forget c) := by
  constructor
  · cases m with
    | add id => simp only [recv] at hr; split at hr <;> simp_all [FeeWf]; subst hr; simpa [FeeWf] using h
    | fee r => simp only [recv] at hr; split at hr <;> simp_all [FeeWf]; subst hr; simp_all
  · unfold FeeWf at h ⊢; simp only [forget]
    cases hf : c.fee with
    | none => simp [forgetFee]
    | some p => obtain ⟨r, s⟩ := p; rw [hf] at h; cases s <;> simp_all [forgetFee, mFeeDrop]

theorem annWf_preserved (c c' : Chan) (id : Nat) (h : AnnWf c) (hr : recv c (.add id) = some c') : AnnWf c' ∧ AnnWf (forget c) := by
  obtain ⟨pre, k, hk, hpre, hin⟩ := h
  obtain ⟨_, _, f3⟩ := flags
  constructor
  · simp only [recv] at hr; split at hr
    · simp at hr
    · simp only [Option.some.injEq] at hr; subst hr
      refine ⟨pre, k + 1, by simp; omega, hpre, ?_⟩
      simp only [hin, List.append_assoc]
      rw [show c.nextCp + 1 - (k + 1) = c.nextCp - k by omega, List.range'_concat, List.map_append]
      simp; omega
  · refine ⟨(forget c).inb, 0, Nat.zero_le _, ?_, by simp⟩
    intro x hx; simp only [forget] at hx; exact (keep_iff x.2).mp (List.mem_filter.mp hx).2
example : FeeWf ⟨false, [], [], some (500, .remoteAnnounced), none, [], 0, 0⟩ ∧ ¬ FeeWf ⟨true, [], [], some (500, .remoteAnnounced), none, [], 0, 0⟩ := by decide

end ChanForget

/-! ## the per-HTLC optional vectors written as TLVs beside the positional HTLC lists (FundedChannel::write / ::read)

  `Generated/ChanSideVecs.lean` (tools/gen_chan_sidevecs.py, re-extracted on every check): for each of the 12 vectors (preimages,
  skimmed fees, blinding points, hold-htlc flags, accountable flags, attribution data of removed / holding-cell / fulfilled HTLCs) the
  element kinds in whose writer arm `vec.push(..)` stands, and the element kinds for which the reader's re-attachment loop takes
  `iter.next()`; plus which kinds are written at all and as which kind they come back (from the state bytes).  The pairing
  "k-th entry <-> k-th element that carries one" is position-only: a push moved in front of the RemoteAnnounced `continue`, a reader
  loop that walks every holding-cell entry instead of the AddHTLC ones, or a removal reason added on one side only shifts every later
  value to the wrong HTLC.  `side_rows_consistent` is the decidable condition on the translated table; `side_vectors_reattach` is
  the consequence for ALL lists. -/
section ChanSideVecs
open Ldk.ChanSideVecs Ldk.ChanSideVecs.Gen

theorem side_rows_consistent : sideRows.all (rowConsistent readAs listKinds) = true := by decide +kernel

theorem side_rows_exact : sideRows.map (fun r => (r.tlv, r.list, r.leftover)) =
    [(15, "out", true), (35, "out", true), (37, "hold", true), (39, "out", true), (41, "hold", true), (55, "in", true), (57, "hold", true),
     (61, "out", false), (67, "out", true), (69, "hold", true), (77, "hold", true), (79, "out", true)] := by decide +kernel

theorem side_vectors_reattach (r : SideRow) (hr : r ∈ sideRows) (l : List Elem)
    (hk : ∀ e ∈ l, e.1 ∈ kindsOfList listKinds r.list) :
    roundTrip readAs r l = some ((written readAs r.list l).map fun e =>
      (readKind readAs r.list e.1, if r.push.contains e.1 then e.2 else none)) := by
  have hc : rowConsistent readAs listKinds r = true := List.all_eq_true.mp side_rows_consistent r hr
  simp only [roundTrip]
  refine reattachOpt_collect (fun k => r.push.contains k) (fun k => r.attach.contains k) (readKind readAs r.list) r.leftover
    (written readAs r.list l) ?_
  intro e he
  have hw := List.mem_filter.mp he
  have hall := List.all_eq_true.mp hc e.1 (hk e hw.1)
  cases hro : readAsOf readAs r.list e.1 with
  | none => simp [hro] at hw
  | some k' => simp only [hro] at hall; simpa [readKind, hro] using hall
example : roundTrip readAs ⟨55, "removed_htlc_attribution_data", "in", ["LocalRemoved:FailRelay", "LocalRemoved:Fulfill"], "x", ["LocalRemoved:FailRelay", "LocalRemoved:Fulfill"], true⟩
    [("Committed", none), ("LocalRemoved:Fulfill", some 7), ("LocalRemoved:FailMalformed", none), ("LocalRemoved:FailRelay", none), ("LocalRemoved:Fulfill", some 9), ("RemoteAnnounced", some 1)]
    = some [("Committed", none), ("LocalRemoved:Fulfill", some 7), ("LocalRemoved:FailMalformed", none), ("LocalRemoved:FailRelay", none), ("LocalRemoved:Fulfill", some 9)] := by decide +kernel
-- a reader that also consumed an entry for FailMalformed removals would hand the second Fulfill's value to the wrong HTLC
example : roundTrip readAs ⟨55, "v", "in", ["LocalRemoved:FailRelay", "LocalRemoved:Fulfill"], "x", ["LocalRemoved:FailRelay", "LocalRemoved:FailMalformed", "LocalRemoved:Fulfill"], true⟩
    [("LocalRemoved:Fulfill", some 7), ("LocalRemoved:FailMalformed", none), ("LocalRemoved:Fulfill", some 9)] = none := by decide +kernel
end ChanSideVecs

/-! ## the well-formedness hypotheses of the forget-table theorems are invariants: reachable states need no side condition

  `Reach` (Model/ChanForget.lean): a fresh channel of either role, an update received from the peer, our own update_fee (funder
  only), the peer's commitment_signed, a disconnection, a write + read.  `reach_wf`: every reachable state satisfies FeeWf and AnnWf;
  hence `written_state_is_forgotten_state_reachable` / `retransmission_restores_reachable` hold without hypotheses.  (`commitSigned`
  and `sendFee` are hand-mirrored transitions: they only widen the set of states the theorems are known to cover.) -/
section ChanReach
open Ldk.ChanForget Ldk.ChanForget.Gen

theorem reach_wf (c : Chan) (h : Reach c) : FeeWf c ∧ AnnWf c := by
  induction h with
  | init ob => exact ⟨by simp [FeeWf], ⟨[], 0, Nat.le_refl _, by simp, by simp⟩⟩
  | @recv c c' m _ hr ih =>
    refine ⟨(feeWf_preserved c c' m ih.1 hr).1, ?_⟩
    cases m with
    | add id => exact (annWf_preserved c c' id ih.2 hr).1
    | fee r =>
      simp only [ChanForget.recv] at hr
      split at hr
      · simp at hr
      · simp only [Option.some.injEq] at hr; subst hr; exact ih.2
  | @sendFee c r _ hob ih =>
    refine ⟨by simp [FeeWf, hob], ?_⟩
    exact ih.2
  | @commit c _ ih =>
    constructor
    · have h1 := ih.1
      unfold FeeWf at h1 ⊢
      simp only [commitSigned]
      cases hf : c.fee with
      | none => simp
      | some p => obtain ⟨r, s⟩ := p; rw [hf] at h1; cases s <;> simp_all
    · refine ⟨(commitSigned c).inb, 0, Nat.zero_le _, ?_, by simp⟩
      intro x hx
      simp only [commitSigned, List.mem_map] at hx
      obtain ⟨y, _, rfl⟩ := hx
      by_cases hy : y.2 = .remoteAnnounced <;> simp [hy]
  | @disconnect c _ ih =>
    refine ⟨?_, ?_⟩
    · have := ih.1; unfold FeeWf at this ⊢; simp only [forget]
      cases hf : c.fee with
      | none => simp [forgetFee]
      | some p => obtain ⟨r, s⟩ := p; rw [hf] at this; cases s <;> simp_all [forgetFee, mFeeDrop]
    · refine ⟨(forget c).inb, 0, Nat.zero_le _, ?_, by simp⟩
      intro x hx; simp only [forget] at hx; exact (keep_iff x.2).mp (List.mem_filter.mp hx).2
  | @reload c c' _ hr ih =>
    rw [written_state_is_forgotten_state c ih.1] at hr
    simp only [Option.some.injEq] at hr; subst hr
    refine ⟨?_, ?_⟩
    · have := ih.1; unfold FeeWf at this ⊢; simp only [forget]
      cases hf : c.fee with
      | none => simp [forgetFee]
      | some p => obtain ⟨r, s⟩ := p; rw [hf] at this; cases s <;> simp_all [forgetFee, mFeeDrop]
    · refine ⟨(forget c).inb, 0, Nat.zero_le _, ?_, by simp⟩
      intro x hx; simp only [forget] at hx; exact (keep_iff x.2).mp (List.mem_filter.mp hx).2

/-- for every REACHABLE channel state (no side condition left): reading back what the writer writes gives the in-memory
    disconnect state, and the peer's retransmission restores the state the writer saw -/
theorem written_state_is_forgotten_state_reachable (c : Chan) (h : Reach c) :
    readChan c.outbound (writeChan c) = some (forget c) :=
  written_state_is_forgotten_state c (reach_wf c h).1

theorem retransmission_restores_reachable (c : Chan) (h : Reach c) :
    (readChan c.outbound (writeChan c)).bind (fun c' => recvAll c' (retransmit c)) =
      some { c with outb := c.outb.map (fun h => (h.1, mOutReset h.2)) } :=
  retransmission_restores c (reach_wf c h).1 (reach_wf c h).2
example : Reach ⟨false, [(0, .awaitingRemoteRevokeToAnnounce), (1, .remoteAnnounced)], [], some (500, .remoteAnnounced), none, [], 0, 2⟩ :=
  .recv (.fee 500) (.recv (.add 1) (.commit (.recv (.add 0) (.init false) rfl)) rfl) rfl
end ChanReach

end Ldk.C12
