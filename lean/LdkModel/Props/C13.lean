import LdkModel.Model.Codec
import LdkModel.Proofs.Codec
import LdkModel.Generated.MsgSchemas
import LdkModel.Model.MsgSchemasHand
import LdkModel.Generated.WireTypes
/-!
  C13 — peer messages round-trip through the wire format and decoding is total.

  All theorems are about the functions of Model/Codec.lean that the driver runs (`Schema.decode`,
  `Schema.encode`, `decodeTlvStream`/`tlvLoop`, `BigSize.decode`, …), for ALL byte strings, values and
  well-formed schemas (no bound).  The schemas of the real messages are regenerated from msgs.rs on every
  check; `all_schemas_wf` is the obligation that fails when a TLV is renumbered / un-sorted / a required
  TLV gets an odd type.
-/
set_option maxRecDepth 100000
namespace Ldk.C13
open Ldk.Codec Ldk.Codec.Gen

/-! ## BigSize and fixed-width integers -/

/-- every u64 round-trips through BigSize, whatever follows it -/
theorem bigsize_roundtrip (n : Nat) (h : n < 2 ^ 64) (r : Bytes) :
    BigSize.decode (BigSize.encode n ++ r) = .ok (n, r) := bigsize_roundtrip' n h r
example : BigSize.decode (BigSize.encode 70000 ++ [1, 2]) = .ok (70000, [1, 2]) := by decide

/-- the decoder accepts only the minimal encoding: what it consumed is exactly `encode n` -/
theorem bigsize_minimal (b r : Bytes) (n : Nat) (h : BigSize.decode b = .ok (n, r)) :
    b = BigSize.encode n ++ r ∧ n < 2 ^ 64 := bigsize_minimal' h
example : BigSize.decode [0xfd, 0x00, 0xfc] = .error .InvalidValue := by decide   -- non-minimal
example : BigSize.decode [0xfd, 0x00, 0xfd, 9] = .ok (253, [9]) := by decide

/-- BigSize decoding fails only with ShortRead (truncated) or InvalidValue (non-minimal) -/
theorem bigsize_errors (b : Bytes) (e : DecodeError) (h : BigSize.decode b = .error e) :
    e = .ShortRead ∨ e = .InvalidValue := bigsize_decode_error h
example : BigSize.decode [0xfe, 0, 1] = .error .ShortRead := by decide

/-- n-byte big-endian integers round-trip (u8/u16/u32/u64 are n = 1, 2, 4, 8) -/
theorem uint_roundtrip (n x : Nat) (h : x < 256 ^ n) (r : Bytes) :
    readUint n (beEncode n x ++ r) = .ok (x, r) := by
  rw [readUint_encode, Nat.mod_eq_of_lt h]
theorem u16_roundtrip (x : Nat) (h : x < 2 ^ 16) (r : Bytes) : readUint 2 (beEncode 2 x ++ r) = .ok (x, r) :=
  uint_roundtrip 2 x (by omega) r
theorem u32_roundtrip (x : Nat) (h : x < 2 ^ 32) (r : Bytes) : readUint 4 (beEncode 4 x ++ r) = .ok (x, r) :=
  uint_roundtrip 4 x (by omega) r
theorem u64_roundtrip (x : Nat) (h : x < 2 ^ 64) (r : Bytes) : readUint 8 (beEncode 8 x ++ r) = .ok (x, r) :=
  uint_roundtrip 8 x (by omega) r
example : beEncode 4 0x01020304 = [1, 2, 3, 4] := by decide
example : readUint 2 [0xab] = .error .ShortRead := by decide

/-- a successful fixed-width read consumed exactly the big-endian bytes of its result -/
theorem uint_decode_canonical (n x : Nat) (b r : Bytes) (h : readUint n b = .ok (x, r)) :
    b = beEncode n x ++ r ∧ x < 256 ^ n := readUint_ok h

/-- CollectionLength (the prefix of `Vec<u8>` / `impl_for_vec!`) round-trips, including the 0xffff escape -/
theorem collection_length_roundtrip (n : Nat) (h : n < 2 ^ 64) (r : Bytes) :
    CollLen.decode (CollLen.encode n ++ r) = .ok (n, r) := collLen_roundtrip n h r
example : CollLen.decode (CollLen.encode 0xffff) = .ok (0xffff, []) := by decide

/-! ## field types -/

/-- every field type round-trips on its valid values; self-delimiting types also with trailing data -/
theorem field_codec_roundtrip (ty : FieldTy) (v : Val) (r : Bytes) (hwf : ty.wf = true) (hv : ty.valid v = true)
    (hr : ty.selfDelim = true ∨ r = []) : ty.decode (ty.encode v ++ r) = .ok (v, r) :=
  field_roundtrip ty v r hwf hv hr
example : (FieldTy.hzd 8).decode ((FieldTy.hzd 8).encode (.nat 256)) = .ok (.nat 256, []) := by decide
example : (FieldTy.hzd 8).decode [0, 1] = .error .InvalidValue := by decide   -- leading zero byte
example : (FieldTy.vec (.uint 2)).decode [0, 2, 0, 7, 0, 9, 5] = .ok (.pair (.nat 7) (.pair (.nat 9) .unit), [5]) := by decide

/-! ## whole messages -/

/-- encode ∘ decode = id on the values of any well-formed schema -/
theorem codec_roundtrip (s : Schema) (v : MsgVal) (hwf : s.wf = true) (hv : v.valid s = true) :
    s.decode (s.encode v) = .ok v := schema_roundtrip s v hwf hv

/-- the TLV-stream layer alone -/
theorem tlv_stream_roundtrip (tlvs : List TlvField) (vals : List (Option Val))
    (hs : strictInc (tlvs.map (·.typ)) = true) (hwf : ∀ f ∈ tlvs, f.ty.wf = true ∧ f.typ < 2 ^ 64)
    (hv : validTlvs tlvs vals = true) :
    (decodeTlvStream tlvs (encodeTlvs tlvs vals)).map (fun acc => tlvs.map fun f => acc.lookup f.typ) = .ok vals := by
  rw [decodeTlvStream_encodeTlvs tlvs vals (strictInc_pairwise _ hs) hwf hv]
  simp [Except.map, lookup_presentVals _ _ (strictInc_pairwise _ hs) hv]

/-- the generated schemas are all well-formed: TLV types strictly increasing, < 2^64, required ⇒ even,
    fixed fields self-delimiting.  Breaks when msgs.rs renumbers / un-sorts / duplicates a TLV. -/
theorem all_schemas_wf : ∀ s ∈ generatedSchemas, s.wf = true := by decide

/-- coverage is pinned: exactly these macro-declared messages have a schema, exactly these two do not; exactly these
    hand-written codecs have a hand-written schema (Model/MsgSchemasHand.lean).
    Breaks (instead of silently shrinking the claim) when msgs.rs gains a new `impl_writeable_msg!`
    message or one of them starts using a field type / TLV kind the model cannot express. -/
theorem coverage_pinned :
    generatedSchemas.map (·.name) =
      ["Stfu", "SpliceInit", "SpliceAck", "SpliceLocked", "TxAddOutput", "TxRemoveInput", "TxRemoveOutput",
       "TxComplete", "TxInitRbf", "TxAckRbf", "TxAbort", "AnnouncementSignatures", "ChannelReestablish",
       "ClosingSigned", "ClosingComplete", "ClosingSig", "CommitmentSigned", "FundingCreated", "FundingSigned",
       "ChannelReady", "Shutdown", "UpdateFailHTLC", "UpdateFailMalformedHTLC", "UpdateFee", "UpdateFulfillHTLC",
       "PeerStorage", "PeerStorageRetrieval", "StartBatch", "UpdateAddHTLC", "ReplyShortChannelIdsEnd",
       "QueryChannelRange", "GossipTimestampFilter"] ∧
    notCovered.map (·.1) = ["TxSignatures", "RevokeAndACK"] ∧
    Hand.handSchemas.map (·.name) = ["OpenChannel", "AcceptChannel", "OpenChannelV2", "AcceptChannelV2"] ∧
    Hand.tailSchemas.map (·.name) = ["UnsignedChannelAnnouncement", "ChannelAnnouncement", "UnsignedChannelUpdate", "ChannelUpdate"] ∧
    Hand.customNames = ["ErrorMessage", "WarningMessage", "Ping", "Pong"] := by
  decide

/-- the round trip, instantiated for every message schema translated from msgs.rs -/
theorem generated_roundtrip (s : Schema) (hs : s ∈ generatedSchemas) (v : MsgVal) (hv : v.valid s = true) :
    s.decode (s.encode v) = .ok v := codec_roundtrip s v (all_schemas_wf s hs) hv

-- non-vacuity: a concrete ChannelReady with its optional TLV present is a valid value and round-trips
example : (⟨[.bytes (List.replicate 32 7), .bytes (0x02 :: List.replicate 32 1 |>.map id)], [some (.nat 42)]⟩ : MsgVal).tlvs.length = 1 := rfl
example : schema_StartBatch ∈ generatedSchemas := by decide
example : (⟨[.bytes (List.replicate 32 7), .nat 3], [some (.nat 132)]⟩ : MsgVal).valid schema_StartBatch = true := by decide
example : schema_StartBatch.decode (schema_StartBatch.encode ⟨[.bytes (List.replicate 32 7), .nat 3], [some (.nat 132)]⟩)
    = .ok ⟨[.bytes (List.replicate 32 7), .nat 3], [some (.nat 132)]⟩ := by decide

/-- decoding only ever returns values of the schema (required TLVs present, integers in range, keys
    and signatures valid, vectors of the announced length) — proved for schemas without
    HighZeroBytesDroppedBigSize fields (`Schema.plain`; missing: the `hzd` case of
    `Proofs.Codec.field_decode_spec`).  All generated message schemas are plain (`all_schemas_plain`). -/
theorem decode_valid_partial (s : Schema) (b : Bytes) (v : MsgVal) (hwf : s.wf = true) (hp : s.plain = true)
    (h : s.decode b = .ok v) : v.valid s = true := schema_decode_valid s b v hwf hp h

/-- re-encoding any successfully decoded message yields bytes that decode to the same message
    (same restriction as `decode_valid_partial`) -/
theorem reencode_stable_partial (s : Schema) (b : Bytes) (v : MsgVal) (hwf : s.wf = true) (hp : s.plain = true)
    (h : s.decode b = .ok v) : s.decode (s.encode v) = .ok v :=
  codec_roundtrip s v hwf (schema_decode_valid s b v hwf hp h)

theorem all_schemas_plain : ∀ s ∈ generatedSchemas, s.plain = true := by decide

/-- re-encode stability for every message schema translated from msgs.rs, for every byte string -/
theorem reencode_stable (s : Schema) (hs : s ∈ generatedSchemas) (b : Bytes) (v : MsgVal)
    (h : s.decode b = .ok v) : s.decode (s.encode v) = .ok v :=
  reencode_stable_partial s b v (all_schemas_wf s hs) (all_schemas_plain s hs) h
-- non-vacuity: a byte string with an unknown odd TLV decodes, and its (different) re-encoding decodes to the same value
example : schema_StartBatch.decode (List.replicate 32 7 ++ [0, 3, 1, 2, 0, 132, 3, 1, 9]) =
    .ok ⟨[.bytes (List.replicate 32 7), .nat 3], [some (.nat 132)]⟩ := by decide

/-! ## TLV stream rules (on arbitrary raw records `(type, value bytes)`, types and lengths < 2^64) -/

/-- all records are encodable: type and length fit a BigSize -/
def Framed (recs : List (Nat × Bytes)) : Prop := ∀ p ∈ recs, p.1 < 2 ^ 64 ∧ p.2.length < 2 ^ 64

/-- on a well-framed stream the byte-level loop does exactly what `procRecs` does record by record -/
theorem tlv_loop_by_records (tlvs : List TlvField) (recs : List (Nat × Bytes)) (h : Framed recs) :
    decodeTlvStream tlvs (rawEncode recs) = procRecs tlvs none [] recs :=
  tlvLoop_raw tlvs recs _ none [] h (by omega)

/-- a stream containing a record of an even type the schema does not declare is rejected, wherever the
    record stands and whatever surrounds it -/
theorem unknown_even_rejected (tlvs : List TlvField) (r1 r2 : List (Nat × Bytes)) (t : Nat) (val : Bytes)
    (hf : Framed (r1 ++ (t, val) :: r2)) (heven : t % 2 = 0) (hunk : ∀ f ∈ tlvs, f.typ ≠ t) :
    ∃ e, decodeTlvStream tlvs (rawEncode (r1 ++ (t, val) :: r2)) = .error e := by
  rw [tlv_loop_by_records tlvs _ hf]; exact procRecs_unknown_even tlvs t val r2 heven hunk r1 none []

/-- … and the error is `UnknownRequiredFeature` when the record is reached in order with no required
    field skipped -/
theorem unknown_even_rejected_exact (tlvs : List TlvField) (r2 : List (Nat × Bytes)) (t : Nat) (val : Bytes)
    (hf : Framed ((t, val) :: r2)) (heven : t % 2 = 0) (hunk : ∀ f ∈ tlvs, f.typ ≠ t)
    (hreq : reqSkipped tlvs none t = false) :
    decodeTlvStream tlvs (rawEncode ((t, val) :: r2)) = .error .UnknownRequiredFeature := by
  rw [tlv_loop_by_records tlvs _ hf]; exact procRecs_unknown_even_exact tlvs t val r2 none [] heven hunk rfl hreq
example : decodeTlvStream schema_ChannelReady.tlvs (rawEncode [(1, beEncode 8 5), (4, [9])]) = .error .UnknownRequiredFeature := by decide

/-- a record of an odd type the schema does not declare is ignored: removing it from the stream (at any
    position that keeps the types increasing) does not change the result — value or error -/
theorem unknown_odd_ignored (tlvs : List TlvField) (r1 r2 : List (Nat × Bytes)) (t : Nat) (val : Bytes)
    (hf : Framed (r1 ++ (t, val) :: r2)) (hodd : t % 2 = 1) (hunk : ∀ f ∈ tlvs, f.typ ≠ t)
    (h1 : ∀ p ∈ r1, p.1 < t) (h2 : ∀ p ∈ r2, t < p.1) :
    decodeTlvStream tlvs (rawEncode (r1 ++ (t, val) :: r2)) = decodeTlvStream tlvs (rawEncode (r1 ++ r2)) := by
  have hf' : Framed (r1 ++ r2) := by
    intro p hp
    rcases List.mem_append.mp hp with hp | hp
    · exact hf p (List.mem_append_left _ hp)
    · exact hf p (List.mem_append_right _ (List.mem_cons_of_mem _ hp))
  rw [tlv_loop_by_records tlvs _ hf, tlv_loop_by_records tlvs _ hf']
  exact procRecs_unknown_odd tlvs t val r2 hodd hunk h2 r1 none [] h1 rfl
example : decodeTlvStream schema_ChannelReady.tlvs (rawEncode [(1, beEncode 8 5), (3, [9, 9])]) = .ok [(1, .nat 5)] := by decide

/-- two adjacent records whose types do not strictly increase (out of order, or a duplicate) make the
    stream invalid, wherever they stand -/
theorem out_of_order_rejected (tlvs : List TlvField) (r1 r2 : List (Nat × Bytes)) (t1 t2 : Nat) (v1 v2 : Bytes)
    (hf : Framed (r1 ++ (t1, v1) :: (t2, v2) :: r2)) (hle : t2 ≤ t1) :
    ∃ e, decodeTlvStream tlvs (rawEncode (r1 ++ (t1, v1) :: (t2, v2) :: r2)) = .error e := by
  rw [tlv_loop_by_records tlvs _ hf]; exact procRecs_out_of_order tlvs t1 t2 v1 v2 r2 hle r1 none []
example : decodeTlvStream schema_ChannelReestablish.tlvs (rawEncode [(5, List.replicate 33 0), (1, List.replicate 33 0)]) = .error .InvalidValue := by decide
example : decodeTlvStream schema_ChannelReestablish.tlvs (rawEncode [(3, [1]), (3, [1])]) = .error .InvalidValue := by decide

/-- whatever decodes is well framed: the stream is a concatenation of records `type · length · value` whose
    values have exactly the declared length (the loop never hands a field decoder more than `length` bytes:
    it is given `take length`) -/
theorem decoded_stream_is_framed (tlvs : List TlvField) (b : Bytes) (out : List (Nat × Val))
    (h : decodeTlvStream tlvs b = .ok out) : ∃ recs, b = rawEncode recs ∧ Framed recs :=
  tlvLoop_ok_raw tlvs _ _ _ _ _ h

/-- message level: after the fixed part, the rest of the buffer is the TLV stream -/
theorem decode_after_fixed (s : Schema) (fx : List Val) (tl : Bytes) (hwf : s.wf = true)
    (hfx : validFixed s.fixed fx = true) :
    s.decode (encodeFixed s.fixed fx ++ tl) =
      (match decodeTlvStream s.tlvs tl with
       | .error e => .error e
       | .ok acc => .ok ⟨fx, s.tlvs.map fun f => acc.lookup f.typ⟩) := by
  simp only [Schema.decode, decodeFixed_roundtrip _ _ _ (schema_wf_parts hwf).1 hfx]
  cases decodeTlvStream s.tlvs tl <;> rfl

/-- message level: an unknown odd TLV record anywhere in the TLV part (types kept increasing) does not
    change what the message decodes to -/
theorem unknown_odd_ignored_msg (s : Schema) (fx : List Val) (r1 r2 : List (Nat × Bytes)) (t : Nat) (val : Bytes)
    (hwf : s.wf = true) (hfx : validFixed s.fixed fx = true)
    (hf : Framed (r1 ++ (t, val) :: r2)) (hodd : t % 2 = 1) (hunk : ∀ f ∈ s.tlvs, f.typ ≠ t)
    (h1 : ∀ p ∈ r1, p.1 < t) (h2 : ∀ p ∈ r2, t < p.1) :
    s.decode (encodeFixed s.fixed fx ++ rawEncode (r1 ++ (t, val) :: r2)) =
    s.decode (encodeFixed s.fixed fx ++ rawEncode (r1 ++ r2)) := by
  rw [decode_after_fixed s fx _ hwf hfx, decode_after_fixed s fx _ hwf hfx,
    unknown_odd_ignored s.tlvs r1 r2 t val hf hodd hunk h1 h2]

/-- message level: an unknown even TLV record anywhere in the TLV part makes the message undecodable -/
theorem unknown_even_rejected_msg (s : Schema) (fx : List Val) (r1 r2 : List (Nat × Bytes)) (t : Nat) (val : Bytes)
    (hwf : s.wf = true) (hfx : validFixed s.fixed fx = true)
    (hf : Framed (r1 ++ (t, val) :: r2)) (heven : t % 2 = 0) (hunk : ∀ f ∈ s.tlvs, f.typ ≠ t) :
    ∃ e, s.decode (encodeFixed s.fixed fx ++ rawEncode (r1 ++ (t, val) :: r2)) = .error e := by
  obtain ⟨e, he⟩ := unknown_even_rejected s.tlvs r1 r2 t val hf heven hunk
  exact ⟨e, by rw [decode_after_fixed s fx _ hwf hfx, he]⟩
example : schema_StartBatch.decode (List.replicate 32 7 ++ [0, 3] ++ rawEncode [(2, [])]) = .error .UnknownRequiredFeature := by decide

/-! ## totality -/

/-- `decodeTlvStream` is total by construction (structural recursion on fuel = input length + 1); the
    out-of-fuel answer is never taken: any larger fuel gives the same result -/
theorem decode_total (tlvs : List TlvField) (b : Bytes) (k : Nat) :
    decodeTlvStream tlvs b = tlvLoop tlvs (b.length + 1 + k) none [] b := decodeTlvStream_fuel tlvs b k
example : decodeTlvStream [] [0xfd] = .error .ShortRead := by decide

/-- a field decoder consumes a prefix of its input and returns the untouched rest -/
theorem field_decode_consumes_prefix (ty : FieldTy) (b : Bytes) (v : Val) (r : Bytes)
    (h : ty.decode b = .ok (v, r)) : ∃ pre, b = pre ++ r := field_decode_suffix ty b v r h

/-- the fixed part of a message is a prefix of the input; the TLV stream is decoded from the rest only -/
theorem fixed_part_consumes_prefix (ts : List FieldTy) (b : Bytes) (vs : List Val) (r : Bytes)
    (h : decodeFixed ts b = .ok (vs, r)) : ∃ pre, b = pre ++ r := decodeFixed_suffix ts b vs r h
example : decodeFixed [.uint 2, .bytes16] [0, 1, 0, 1, 7, 8] = .ok ([.nat 1, .bytes [7]], [8]) := by decide

/-! ## hand-written codecs (Model/MsgSchemasHand.lean) -/

/-- the hand-written schemas ARE the field layout extracted from the `impl Writeable` / `impl LengthReadable`
    bodies of msgs.rs on this run (field order, field types, TLV types and payload types, trailing excess data,
    low-bit check).  Breaks when one of these impls gains, drops, reorders or retypes a field. -/
theorem hand_schemas_match_source : Hand.handLayout = handPinned := by decide

/-- OpenChannel, AcceptChannel, OpenChannelV2, AcceptChannelV2 are well-formed schemas: every theorem above about
    well-formed schemas (round trip, unknown even / odd, out of order, decode_after_fixed, …) applies to them -/
theorem hand_schemas_wf : ∀ s ∈ Hand.handSchemas, s.wf = true := by decide
theorem hand_schemas_plain : ∀ s ∈ Hand.handSchemas, s.plain = true := by decide

theorem hand_roundtrip (s : Schema) (hs : s ∈ Hand.handSchemas) (v : MsgVal) (hv : v.valid s = true) :
    s.decode (s.encode v) = .ok v := codec_roundtrip s v (hand_schemas_wf s hs) hv

theorem hand_reencode_stable (s : Schema) (hs : s ∈ Hand.handSchemas) (b : Bytes) (v : MsgVal)
    (h : s.decode b = .ok v) : s.decode (s.encode v) = .ok v :=
  reencode_stable_partial s b v (hand_schemas_wf s hs) (hand_schemas_plain s hs) h
example : Hand.schema_AcceptChannelV2.decode (Hand.schema_AcceptChannelV2.encode
      ⟨[.bytes (List.replicate 32 1), .nat 1, .nat 2, .nat 3, .nat 4, .nat 5, .nat 6, .nat 7] ++ List.replicate 7 (.bytes (2 :: List.replicate 32 1)),
       [some (.bytes [0, 20]), none, some .unit, none]⟩) =
    .ok ⟨[.bytes (List.replicate 32 1), .nat 1, .nat 2, .nat 3, .nat 4, .nat 5, .nat 6, .nat 7] ++ List.replicate 7 (.bytes (2 :: List.replicate 32 1)),
       [some (.bytes [0, 20]), none, some .unit, none]⟩ := by decide

/-- the gossip messages ending in `excess_data`: fields self-delimiting, the checked flag field is a `u8` -/
theorem tail_schemas_wf : ∀ s ∈ Hand.tailSchemas, s.wf = true := by decide

theorem tail_wf_parts {s : Hand.TailSchema} (h : s.wf = true) :
    (∀ t ∈ s.fixed, t.wf = true ∧ t.selfDelim = true) ∧ (∀ t ∈ s.fixed, t.wf = true ∧ t.plain = true) := by
  simp only [Hand.TailSchema.wf, Bool.and_eq_true, List.all_eq_true] at h
  exact ⟨fun t ht => ⟨(h.1 t ht).1.1, (h.1 t ht).1.2⟩, fun t ht => ⟨(h.1 t ht).1.1, (h.1 t ht).2⟩⟩

/-- fields ++ excess data reads back as the same fields and the same excess data -/
theorem tail_roundtrip (s : Hand.TailSchema) (hwf : s.wf = true) (vs : List Val) (excess : Bytes)
    (hv : s.valid vs = true) : s.decode (s.encode vs excess) = .ok (vs, excess) := by
  simp only [Hand.TailSchema.valid, Bool.and_eq_true] at hv
  simp [Hand.TailSchema.decode, Hand.TailSchema.encode, decodeFixed_roundtrip _ _ _ (tail_wf_parts hwf).1 hv.1, hv.2]

/-- whatever such a message decodes to re-encodes to bytes that decode to the same thing -/
theorem tail_reencode_stable (s : Hand.TailSchema) (hwf : s.wf = true) (b : Bytes) (vs : List Val) (excess : Bytes)
    (h : s.decode b = .ok (vs, excess)) : s.decode (s.encode vs excess) = .ok (vs, excess) := by
  unfold Hand.TailSchema.decode at h
  split at h
  · cases h
  · rename_i vs' rest hd
    split at h
    · rename_i hp
      simp only [Except.ok.injEq, Prod.mk.injEq] at h
      obtain ⟨rfl, rfl⟩ := h
      exact tail_roundtrip s hwf _ _ (by simp [Hand.TailSchema.valid, decodeFixed_valid _ _ _ _ (tail_wf_parts hwf).2 hd, hp])
    · cases h

/-- the excess data is a suffix of the input: the fields consume a prefix and nothing else is looked at -/
theorem tail_decode_consumes_prefix (s : Hand.TailSchema) (b : Bytes) (vs : List Val) (excess : Bytes)
    (h : s.decode b = .ok (vs, excess)) : ∃ pre, b = pre ++ excess := by
  unfold Hand.TailSchema.decode at h
  split at h
  · cases h
  · rename_i vs' rest hd
    split at h
    · simp only [Except.ok.injEq, Prod.mk.injEq] at h
      obtain ⟨rfl, rfl⟩ := h
      exact decodeFixed_suffix _ _ _ _ hd
    · cases h
example : Hand.tail_UnsignedChannelUpdate.decode (List.replicate 32 9 ++ beEncode 8 5 ++ beEncode 4 7 ++ [1, 0] ++ beEncode 2 40 ++ beEncode 8 1 ++ beEncode 4 2 ++ beEncode 4 3 ++ beEncode 8 9 ++ [0xee]) =
    .ok ([.bytes (List.replicate 32 9), .nat 5, .nat 7, .nat 1, .nat 0, .nat 40, .nat 1, .nat 2, .nat 3, .nat 9], [0xee]) := by decide
example : Hand.tail_UnsignedChannelUpdate.decode (List.replicate 32 9 ++ beEncode 8 5 ++ beEncode 4 7 ++ [0, 0] ++ beEncode 2 40 ++ beEncode 8 1 ++ beEncode 4 2 ++ beEncode 4 3 ++ beEncode 8 9) =
    .error .InvalidValue := by decide   -- must_be_one flag clear
example : Hand.tail_UnsignedChannelUpdate.decode (List.replicate 32 9 ++ beEncode 8 5 ++ beEncode 4 7 ++ [0, 0]) = .error .ShortRead := by decide  -- … checked last

/-! ### ErrorMessage / WarningMessage / Ping / Pong -/

/-- ErrorMessage / WarningMessage: channel id ++ u16 length ++ UTF-8 data reads back as (channel id, data), whatever
    follows the message -/
theorem error_msg_roundtrip (cid data rest : Bytes) (hc : cid.length = 32) (hd : data.length < 2 ^ 16)
    (hu : Hand.validUtf8 data = true) :
    Hand.decodeErrorMsg (Hand.encodeErrorMsg cid data ++ rest) = .ok (cid, data) := by
  have h256 : data.length < 256 ^ 2 := by omega
  have e1 : (cid ++ (beEncode 2 data.length ++ data) ++ rest).drop 32 = beEncode 2 data.length ++ (data ++ rest) := by
    rw [List.append_assoc, ← hc, List.drop_left' rfl]; simp [List.append_assoc]
  have e2 : (cid ++ (beEncode 2 data.length ++ data) ++ rest).take 32 = cid := by
    rw [List.append_assoc, ← hc, List.take_left' rfl]
  simp only [Hand.decodeErrorMsg, Hand.encodeErrorMsg, e1, e2, readUint_encode, Nat.mod_eq_of_lt h256]
  simp only [List.length_append, List.take_left' rfl, hu, if_true]
  rw [if_neg (by omega), if_neg (by omega)]

/-- … and whatever decodes re-encodes to bytes that decode to the same (channel id, data) -/
theorem error_msg_reencode_stable (b cid data : Bytes) (h : Hand.decodeErrorMsg b = .ok (cid, data)) :
    Hand.decodeErrorMsg (Hand.encodeErrorMsg cid data) = .ok (cid, data) := by
  unfold Hand.decodeErrorMsg at h
  split at h
  · cases h
  · rename_i hlen
    split at h
    · cases h
    · rename_i len r hr
      split at h
      · cases h
      · rename_i hlr
        split at h
        · rename_i hu
          simp only [Except.ok.injEq, Prod.mk.injEq] at h
          obtain ⟨rfl, rfl⟩ := h
          have hl : len < 256 ^ 2 := (readUint_ok hr).2
          have := error_msg_roundtrip (b.take 32) (r.take len) [] (by simp; omega) (by simp; omega) hu
          simpa using this
        · cases h
example : Hand.decodeErrorMsg (List.replicate 32 7 ++ [0, 2, 0xc3, 0xa9]) = .ok (List.replicate 32 7, [0xc3, 0xa9]) := by decide
example : Hand.decodeErrorMsg (List.replicate 32 7 ++ [0, 2, 0xc3, 0x28]) = .error .InvalidValue := by decide   -- invalid UTF-8
example : Hand.decodeErrorMsg (List.replicate 32 7 ++ [0, 3, 0xed, 0xa0, 0x80]) = .error .InvalidValue := by decide   -- surrogate
example : Hand.decodeErrorMsg (List.replicate 32 7 ++ [0, 2, 0x41]) = .error .ShortRead := by decide

theorem collLen_u16 (n : Nat) (h : n < 2 ^ 16) (rest : Bytes) :
    ∃ pad, readUint 2 (CollLen.encode n ++ rest) = .ok (n, pad ++ rest) := by
  unfold CollLen.encode
  split
  · exact ⟨[], by rw [readUint_encode, Nat.mod_eq_of_lt (by omega), List.nil_append]⟩
  · have : n = 0xffff := by omega
    subst this
    exact ⟨beEncode 8 0, by rw [List.append_assoc, readUint_encode]⟩

/-- Ping: (ponglen, byteslen) round-trips through `ponglen ++ Vec-of-zeros`, whatever follows -/
theorem ping_roundtrip (ponglen byteslen : Nat) (hp : ponglen < 2 ^ 16) (hb : byteslen < 2 ^ 16) (rest : Bytes) :
    Hand.decodePing (Hand.encodePing ponglen byteslen ++ rest) = .ok (ponglen, byteslen) := by
  obtain ⟨pad, hpad⟩ := collLen_u16 byteslen hb (List.replicate byteslen 0 ++ rest)
  simp only [Hand.decodePing, Hand.encodePing, List.append_assoc, readUint_encode, Nat.mod_eq_of_lt (show ponglen < 256 ^ 2 by omega), hpad]
  simp; omega

/-- Pong: byteslen round-trips -/
theorem pong_roundtrip (byteslen : Nat) (hb : byteslen < 2 ^ 16) (rest : Bytes) :
    Hand.decodePong (Hand.encodePong byteslen ++ rest) = .ok byteslen := by
  obtain ⟨pad, hpad⟩ := collLen_u16 byteslen hb (List.replicate byteslen 0 ++ rest)
  simp only [Hand.decodePong, Hand.encodePong, List.append_assoc, hpad]
  simp; omega
example : Hand.decodePing [0, 5, 0, 2, 9, 9, 1] = .ok (5, 2) := by decide   -- padding content ignored, trailing byte not read
example : Hand.decodePing [0, 5, 0, 3, 9, 9] = .error .ShortRead := by decide
example : Hand.encodePing 5 2 = [0, 5, 0, 2, 0, 0] := by decide

/-! ## wire level -/

/-- message type ids are pairwise distinct, and so are the names -/
theorem wire_type_ids_distinct : (wireTypes.map (·.2)).Nodup ∧ (wireTypes.map (·.1)).Nodup := by decide

/-- every dispatched arm of `do_read` has a type id; cfg-gated arms too -/
theorem wire_dispatch_has_ids :
    (∀ n ∈ wireDispatch, (wireTypes.lookup n).isSome = true) ∧ (∀ p ∈ wireDispatchOff, (wireTypes.lookup p.1).isSome = true) := by
  decide

/-- type id ++ payload reads back as the same message -/
theorem wire_roundtrip (table : List (Nat × Schema)) (t : Nat) (s : Schema) (v : MsgVal)
    (ht : t < 2 ^ 16) (hl : table.lookup t = some s) (hwf : s.wf = true) (hv : v.valid s = true) :
    wireRead table (wireWrite t s v) = .ok (.known t s.name v) := by
  simp [wireRead, wireWrite, readUint_encode, Nat.mod_eq_of_lt (show t < 256 ^ 2 by omega), hl,
    schema_roundtrip s v hwf hv]

/-- an id that is not dispatched reads as `Unknown` whatever the payload; peer_handler's rule for it:
    even ⇒ disconnect, odd ⇒ ignore (modelled by `peerDispatch`; exercised end-to-end under C15) -/
theorem unknown_type_classified (table : List (Nat × Schema)) (t : Nat) (payload : Bytes)
    (ht : t < 2 ^ 16) (hl : table.lookup t = none) :
    wireRead table (beEncode 2 t ++ payload) = .ok (.unknown t) ∧
    peerDispatch (.unknown t) = (if t % 2 = 0 then .disconnect else .ignore) := by
  refine ⟨by simp [wireRead, readUint_encode, Nat.mod_eq_of_lt (show t < 256 ^ 2 by omega), hl], ?_⟩
  simp only [peerDispatch]; split <;> simp_all
example : peerDispatch (.unknown 41) = .ignore ∧ peerDispatch (.unknown 40) = .disconnect := by decide

end Ldk.C13
