import LdkModel.Model.Codec
import LdkModel.Proofs.Codec
import LdkModel.Generated.MsgSchemas
import LdkModel.Model.MsgSchemasHand
import LdkModel.Generated.WireTypes
import LdkModel.Model.MsgCustom
import LdkModel.Proofs.MsgCustom
import LdkModel.Proofs.CodecHzd
import LdkModel.Proofs.CodecTrunc
import LdkModel.Model.Int64
import LdkModel.Proofs.Utf8
import LdkModel.Model.MsgBitcoin
import LdkModel.Proofs.MsgBitcoin
/-!
  C13 — peer messages round-trip through the wire format and decoding is total.

  All theorems are about the functions of Model/Codec.lean that the driver runs (`Schema.decode`,
  `Schema.encode`, `decodeTlvStream`/`tlvLoop`, `BigSize.decode`, …), for ALL byte strings, values and
  well-formed schemas (no bound).  The schemas of the real messages are regenerated from msgs.rs on every
  check; `all_schemas_wf` is the obligation that fails when a TLV is renumbered / un-sorted / a required
  TLV gets an odd type.
-/
set_option maxRecDepth 100000
namespace Ldk.C13
open Ldk.Codec Ldk.Codec.Gen

/-! ## BigSize and fixed-width integers -/

/-- every u64 round-trips through BigSize, whatever follows it -/
theorem bigsize_roundtrip (n : Nat) (h : n < 2 ^ 64) (r : Bytes) :
    BigSize.decode (BigSize.encode n ++ r) = .ok (n, r) := bigsize_roundtrip' n h r
example : BigSize.decode (BigSize.encode 70000 ++ [1, 2]) = .ok (70000, [1, 2]) := by decide

/-- the decoder accepts only the minimal encoding: what it consumed is exactly `encode n` -/
theorem bigsize_minimal (b r : Bytes) (n : Nat) (h : BigSize.decode b = .ok (n, r)) :
    b = BigSize.encode n ++ r ∧ n < 2 ^ 64 := bigsize_minimal' h
example : BigSize.decode [0xfd, 0x00, 0xfc] = .error .InvalidValue := by decide   -- non-minimal
example : BigSize.decode [0xfd, 0x00, 0xfd, 9] = .ok (253, [9]) := by decide

/-- BigSize decoding fails only with ShortRead (truncated) or InvalidValue (non-minimal) -/
theorem bigsize_errors (b : Bytes) (e : DecodeError) (h : BigSize.decode b = .error e) :
    e = .ShortRead ∨ e = .InvalidValue := bigsize_decode_error h
example : BigSize.decode [0xfe, 0, 1] = .error .ShortRead := by decide

/-- n-byte big-endian integers round-trip (u8/u16/u32/u64 are n = 1, 2, 4, 8) -/
theorem uint_roundtrip (n x : Nat) (h : x < 256 ^ n) (r : Bytes) :
    readUint n (beEncode n x ++ r) = .ok (x, r) := by
  rw [readUint_encode, Nat.mod_eq_of_lt h]
theorem u16_roundtrip (x : Nat) (h : x < 2 ^ 16) (r : Bytes) : readUint 2 (beEncode 2 x ++ r) = .ok (x, r) :=
  uint_roundtrip 2 x (by omega) r
theorem u32_roundtrip (x : Nat) (h : x < 2 ^ 32) (r : Bytes) : readUint 4 (beEncode 4 x ++ r) = .ok (x, r) :=
  uint_roundtrip 4 x (by omega) r
theorem u64_roundtrip (x : Nat) (h : x < 2 ^ 64) (r : Bytes) : readUint 8 (beEncode 8 x ++ r) = .ok (x, r) :=
  uint_roundtrip 8 x (by omega) r
example : beEncode 4 0x01020304 = [1, 2, 3, 4] := by decide
example : readUint 2 [0xab] = .error .ShortRead := by decide

/-- a successful fixed-width read consumed exactly the big-endian bytes of its result -/
theorem uint_decode_canonical (n x : Nat) (b r : Bytes) (h : readUint n b = .ok (x, r)) :
    b = beEncode n x ++ r ∧ x < 256 ^ n := readUint_ok h

/-- CollectionLength (the prefix of `Vec<u8>` / `impl_for_vec!`) round-trips, including the 0xffff escape -/
theorem collection_length_roundtrip (n : Nat) (h : n < 2 ^ 64) (r : Bytes) :
    CollLen.decode (CollLen.encode n ++ r) = .ok (n, r) := collLen_roundtrip n h r
example : CollLen.decode (CollLen.encode 0xffff) = .ok (0xffff, []) := by decide

/-! ## field types -/

/-- every field type round-trips on its valid values; self-delimiting types also with trailing data -/
theorem field_codec_roundtrip (ty : FieldTy) (v : Val) (r : Bytes) (hwf : ty.wf = true) (hv : ty.valid v = true)
    (hr : ty.selfDelim = true ∨ r = []) : ty.decode (ty.encode v ++ r) = .ok (v, r) :=
  field_roundtrip ty v r hwf hv hr
example : (FieldTy.hzd 8).decode ((FieldTy.hzd 8).encode (.nat 256)) = .ok (.nat 256, []) := by decide
example : (FieldTy.hzd 8).decode [0, 1] = .error .InvalidValue := by decide   -- leading zero byte
example : (FieldTy.vec (.uint 2)).decode [0, 2, 0, 7, 0, 9, 5] = .ok (.pair (.nat 7) (.pair (.nat 9) .unit), [5]) := by decide

/-! ## whole messages -/

/-- encode ∘ decode = id on the values of any well-formed schema -/
theorem codec_roundtrip (s : Schema) (v : MsgVal) (hwf : s.wf = true) (hv : v.valid s = true) :
    s.decode (s.encode v) = .ok v := schema_roundtrip s v hwf hv

/-- the TLV-stream layer alone -/
theorem tlv_stream_roundtrip (tlvs : List TlvField) (vals : List (Option Val))
    (hs : strictInc (tlvs.map (·.typ)) = true) (hwf : ∀ f ∈ tlvs, f.ty.wf = true ∧ f.typ < 2 ^ 64)
    (hv : validTlvs tlvs vals = true) :
    (decodeTlvStream tlvs (encodeTlvs tlvs vals)).map (fun acc => tlvs.map fun f => acc.lookup f.typ) = .ok vals := by
  rw [decodeTlvStream_encodeTlvs tlvs vals (strictInc_pairwise _ hs) hwf hv]
  simp [Except.map, lookup_presentVals _ _ (strictInc_pairwise _ hs) hv]

/-- the generated schemas are all well-formed: TLV types strictly increasing, < 2^64, required ⇒ even,
    fixed fields self-delimiting.  Breaks when msgs.rs renumbers / un-sorts / duplicates a TLV. -/
theorem all_schemas_wf : ∀ s ∈ generatedSchemas, s.wf = true := by decide

/-- coverage is pinned: exactly these macro-declared messages have a schema, exactly these two do not; exactly these
    hand-written codecs have a hand-written schema (Model/MsgSchemasHand.lean).
    Breaks (instead of silently shrinking the claim) when msgs.rs gains a new `impl_writeable_msg!`
    message or one of them starts using a field type / TLV kind the model cannot express. -/
theorem coverage_pinned :
    generatedSchemas.map (·.name) =
      ["Stfu", "SpliceInit", "SpliceAck", "SpliceLocked", "TxAddOutput", "TxRemoveInput", "TxRemoveOutput",
       "TxComplete", "TxInitRbf", "TxAckRbf", "TxAbort", "AnnouncementSignatures", "ChannelReestablish",
       "ClosingSigned", "ClosingComplete", "ClosingSig", "CommitmentSigned", "FundingCreated", "FundingSigned",
       "ChannelReady", "Shutdown", "UpdateFailHTLC", "UpdateFailMalformedHTLC", "UpdateFee", "UpdateFulfillHTLC",
       "PeerStorage", "PeerStorageRetrieval", "StartBatch", "UpdateAddHTLC", "ReplyShortChannelIdsEnd",
       "QueryChannelRange", "GossipTimestampFilter"] ∧
    notCovered.map (·.1) = ["TxSignatures", "RevokeAndACK"] ∧
    Hand.handSchemas.map (·.name) = ["OpenChannel", "AcceptChannel", "OpenChannelV2", "AcceptChannelV2"] ∧
    Hand.tailSchemas.map (·.name) = ["UnsignedChannelAnnouncement", "ChannelAnnouncement", "UnsignedChannelUpdate", "ChannelUpdate"] ∧
    Hand.customNames = ["ErrorMessage", "WarningMessage", "Ping", "Pong"] ∧
    Custom.customNames = ["UnsignedNodeAnnouncement", "NodeAnnouncement", "QueryShortChannelIds", "ReplyChannelRange", "Init", "OnionMessage"] := by
  decide

/-- the round trip, instantiated for every message schema translated from msgs.rs -/
theorem generated_roundtrip (s : Schema) (hs : s ∈ generatedSchemas) (v : MsgVal) (hv : v.valid s = true) :
    s.decode (s.encode v) = .ok v := codec_roundtrip s v (all_schemas_wf s hs) hv

-- non-vacuity: a concrete ChannelReady with its optional TLV present is a valid value and round-trips
example : (⟨[.bytes (List.replicate 32 7), .bytes (0x02 :: List.replicate 32 1 |>.map id)], [some (.nat 42)]⟩ : MsgVal).tlvs.length = 1 := rfl
example : schema_StartBatch ∈ generatedSchemas := by decide
example : (⟨[.bytes (List.replicate 32 7), .nat 3], [some (.nat 132)]⟩ : MsgVal).valid schema_StartBatch = true := by decide
example : schema_StartBatch.decode (schema_StartBatch.encode ⟨[.bytes (List.replicate 32 7), .nat 3], [some (.nat 132)]⟩)
    = .ok ⟨[.bytes (List.replicate 32 7), .nat 3], [some (.nat 132)]⟩ := by decide

/-- decoding only ever returns values of the schema (required TLVs present, integers in range, keys
    and signatures valid, vectors of the announced length) — proved for schemas without
    HighZeroBytesDroppedBigSize fields (`Schema.plain`; missing: the `hzd` case of
    `Proofs.Codec.field_decode_spec`).  All generated message schemas are plain (`all_schemas_plain`). -/
theorem decode_valid_partial (s : Schema) (b : Bytes) (v : MsgVal) (hwf : s.wf = true) (hp : s.plain = true)
    (h : s.decode b = .ok v) : v.valid s = true := schema_decode_valid s b v hwf hp h

/-- re-encoding any successfully decoded message yields bytes that decode to the same message
    (same restriction as `decode_valid_partial`) -/
theorem reencode_stable_partial (s : Schema) (b : Bytes) (v : MsgVal) (hwf : s.wf = true) (hp : s.plain = true)
    (h : s.decode b = .ok v) : s.decode (s.encode v) = .ok v :=
  codec_roundtrip s v hwf (schema_decode_valid s b v hwf hp h)

theorem all_schemas_plain : ∀ s ∈ generatedSchemas, s.plain = true := by decide

/-- UNCONDITIONAL form of `decode_valid_partial` (the `hzd` case of the field-level spec is `Proofs.CodecHzd.hzd_decode_spec`): for EVERY
    well-formed schema — HighZeroBytesDroppedBigSize fields included — decoding only ever returns values of the schema -/
theorem decode_valid (s : Schema) (b : Bytes) (v : MsgVal) (hwf : s.wf = true) (h : s.decode b = .ok v) : v.valid s = true :=
  schema_decode_valid_all s b v hwf h

/-- UNCONDITIONAL form of `reencode_stable_partial`: for every well-formed schema and every byte string, re-encoding a successfully
    decoded message yields bytes that decode to the same message -/
theorem reencode_stable_any_schema (s : Schema) (b : Bytes) (v : MsgVal) (hwf : s.wf = true) (h : s.decode b = .ok v) :
    s.decode (s.encode v) = .ok v := codec_roundtrip s v hwf (decode_valid s b v hwf h)

/-- field level, every field type (no `plain` restriction): a successful decode returns a valid value whose encoding is exactly as
    long as what was consumed -/
theorem field_decode_valid (ty : FieldTy) (b : Bytes) (v : Val) (r : Bytes) (hwf : ty.wf = true) (h : ty.decode b = .ok (v, r)) :
    ty.valid v = true ∧ b.length = (ty.encode v).length + r.length := field_decode_spec_all ty b v r hwf h

/-- which HighZeroBytesDropped inputs are accepted: at most n bytes reach the value, the first of them non-zero (or none at all); what
    is accepted IS the canonical (leading-zero-free) encoding of the value returned -/
theorem hzd_accepts_only_canonical (n : Nat) (l : Bytes) (hl : l.length ≤ n) (hh : l.head? ≠ some 0) :
    (FieldTy.hzd n).decode l = .ok (.nat (beDecode l), []) ∧ (FieldTy.hzd n).encode (.nat (beDecode l)) = l := by
  refine ⟨?_, hzd_encode_beDecode l n hl hh⟩
  cases l with
  | nil => simp [FieldTy.decode, beDecode]
  | cons x xs =>
    have hk : min n (x :: xs).length = (x :: xs).length := Nat.min_eq_right hl
    have hx : x ≠ 0 := by intro h0; apply hh; simp [h0]
    simp only [FieldTy.decode, hk]
    simp [hx]
example : (FieldTy.hzd 8).decode [0, 1] = .error .InvalidValue := by decide
example : schema_StartBatch.plain = true ∧
    (⟨"x", [], [], [⟨1, "amt", .hzd 8, .option⟩]⟩ : Schema).plain = false ∧ (⟨"x", [], [], [⟨1, "amt", .hzd 8, .option⟩]⟩ : Schema).wf = true := by decide
example : (⟨"x", [], [], [⟨1, "amt", .hzd 8, .option⟩]⟩ : Schema).decode [1, 2, 1, 0] = .ok ⟨[], [some (.nat 256)]⟩ := by decide

/-- re-encode stability for every message schema translated from msgs.rs, for every byte string -/
theorem reencode_stable (s : Schema) (hs : s ∈ generatedSchemas) (b : Bytes) (v : MsgVal)
    (h : s.decode b = .ok v) : s.decode (s.encode v) = .ok v :=
  reencode_stable_partial s b v (all_schemas_wf s hs) (all_schemas_plain s hs) h
-- non-vacuity: a byte string with an unknown odd TLV decodes, and its (different) re-encoding decodes to the same value
example : schema_StartBatch.decode (List.replicate 32 7 ++ [0, 3, 1, 2, 0, 132, 3, 1, 9]) =
    .ok ⟨[.bytes (List.replicate 32 7), .nat 3], [some (.nat 132)]⟩ := by decide

/-! ## TLV stream rules (on arbitrary raw records `(type, value bytes)`, types and lengths < 2^64) -/

/-- all records are encodable: type and length fit a BigSize -/
def Framed (recs : List (Nat × Bytes)) : Prop := ∀ p ∈ recs, p.1 < 2 ^ 64 ∧ p.2.length < 2 ^ 64

/-- on a well-framed stream the byte-level loop does exactly what `procRecs` does record by record -/
theorem tlv_loop_by_records (tlvs : List TlvField) (recs : List (Nat × Bytes)) (h : Framed recs) :
    decodeTlvStream tlvs (rawEncode recs) = procRecs tlvs none [] recs :=
  tlvLoop_raw tlvs recs _ none [] h (by omega)

/-- a stream containing a record of an even type the schema does not declare is rejected, wherever the
    record stands and whatever surrounds it -/
theorem unknown_even_rejected (tlvs : List TlvField) (r1 r2 : List (Nat × Bytes)) (t : Nat) (val : Bytes)
    (hf : Framed (r1 ++ (t, val) :: r2)) (heven : t % 2 = 0) (hunk : ∀ f ∈ tlvs, f.typ ≠ t) :
    ∃ e, decodeTlvStream tlvs (rawEncode (r1 ++ (t, val) :: r2)) = .error e := by
  rw [tlv_loop_by_records tlvs _ hf]; exact procRecs_unknown_even tlvs t val r2 heven hunk r1 none []

/-- … and the error is `UnknownRequiredFeature` when the record is reached in order with no required
    field skipped -/
theorem unknown_even_rejected_exact (tlvs : List TlvField) (r2 : List (Nat × Bytes)) (t : Nat) (val : Bytes)
    (hf : Framed ((t, val) :: r2)) (heven : t % 2 = 0) (hunk : ∀ f ∈ tlvs, f.typ ≠ t)
    (hreq : reqSkipped tlvs none t = false) :
    decodeTlvStream tlvs (rawEncode ((t, val) :: r2)) = .error .UnknownRequiredFeature := by
  rw [tlv_loop_by_records tlvs _ hf]; exact procRecs_unknown_even_exact tlvs t val r2 none [] heven hunk rfl hreq
example : decodeTlvStream schema_ChannelReady.tlvs (rawEncode [(1, beEncode 8 5), (4, [9])]) = .error .UnknownRequiredFeature := by decide

/-- a record of an odd type the schema does not declare is ignored: removing it from the stream (at any
    position that keeps the types increasing) does not change the result — value or error -/
theorem unknown_odd_ignored (tlvs : List TlvField) (r1 r2 : List (Nat × Bytes)) (t : Nat) (val : Bytes)
    (hf : Framed (r1 ++ (t, val) :: r2)) (hodd : t % 2 = 1) (hunk : ∀ f ∈ tlvs, f.typ ≠ t)
    (h1 : ∀ p ∈ r1, p.1 < t) (h2 : ∀ p ∈ r2, t < p.1) :
    decodeTlvStream tlvs (rawEncode (r1 ++ (t, val) :: r2)) = decodeTlvStream tlvs (rawEncode (r1 ++ r2)) := by
  have hf' : Framed (r1 ++ r2) := by
    intro p hp
    rcases List.mem_append.mp hp with hp | hp
    · exact hf p (List.mem_append_left _ hp)
    · exact hf p (List.mem_append_right _ (List.mem_cons_of_mem _ hp))
  rw [tlv_loop_by_records tlvs _ hf, tlv_loop_by_records tlvs _ hf']
  exact procRecs_unknown_odd tlvs t val r2 hodd hunk h2 r1 none [] h1 rfl
example : decodeTlvStream schema_ChannelReady.tlvs (rawEncode [(1, beEncode 8 5), (3, [9, 9])]) = .ok [(1, .nat 5)] := by decide

/-- two adjacent records whose types do not strictly increase (out of order, or a duplicate) make the
    stream invalid, wherever they stand -/
theorem out_of_order_rejected (tlvs : List TlvField) (r1 r2 : List (Nat × Bytes)) (t1 t2 : Nat) (v1 v2 : Bytes)
    (hf : Framed (r1 ++ (t1, v1) :: (t2, v2) :: r2)) (hle : t2 ≤ t1) :
    ∃ e, decodeTlvStream tlvs (rawEncode (r1 ++ (t1, v1) :: (t2, v2) :: r2)) = .error e := by
  rw [tlv_loop_by_records tlvs _ hf]; exact procRecs_out_of_order tlvs t1 t2 v1 v2 r2 hle r1 none []
example : decodeTlvStream schema_ChannelReestablish.tlvs (rawEncode [(5, List.replicate 33 0), (1, List.replicate 33 0)]) = .error .InvalidValue := by decide
example : decodeTlvStream schema_ChannelReestablish.tlvs (rawEncode [(3, [1]), (3, [1])]) = .error .InvalidValue := by decide

/-- whatever decodes is well framed: the stream is a concatenation of records `type · length · value` whose
    values have exactly the declared length (the loop never hands a field decoder more than `length` bytes:
    it is given `take length`) -/
theorem decoded_stream_is_framed (tlvs : List TlvField) (b : Bytes) (out : List (Nat × Val))
    (h : decodeTlvStream tlvs b = .ok out) : ∃ recs, b = rawEncode recs ∧ Framed recs :=
  tlvLoop_ok_raw tlvs _ _ _ _ _ h

/-- message level: after the fixed part, the rest of the buffer is the TLV stream -/
theorem decode_after_fixed (s : Schema) (fx : List Val) (tl : Bytes) (hwf : s.wf = true)
    (hfx : validFixed s.fixed fx = true) :
    s.decode (encodeFixed s.fixed fx ++ tl) =
      (match decodeTlvStream s.tlvs tl with
       | .error e => .error e
       | .ok acc => .ok ⟨fx, s.tlvs.map fun f => acc.lookup f.typ⟩) := by
  simp only [Schema.decode, decodeFixed_roundtrip _ _ _ (schema_wf_parts hwf).1 hfx]
  cases decodeTlvStream s.tlvs tl <;> rfl

/-- message level: an unknown odd TLV record anywhere in the TLV part (types kept increasing) does not
    change what the message decodes to -/
theorem unknown_odd_ignored_msg (s : Schema) (fx : List Val) (r1 r2 : List (Nat × Bytes)) (t : Nat) (val : Bytes)
    (hwf : s.wf = true) (hfx : validFixed s.fixed fx = true)
    (hf : Framed (r1 ++ (t, val) :: r2)) (hodd : t % 2 = 1) (hunk : ∀ f ∈ s.tlvs, f.typ ≠ t)
    (h1 : ∀ p ∈ r1, p.1 < t) (h2 : ∀ p ∈ r2, t < p.1) :
    s.decode (encodeFixed s.fixed fx ++ rawEncode (r1 ++ (t, val) :: r2)) =
    s.decode (encodeFixed s.fixed fx ++ rawEncode (r1 ++ r2)) := by
  rw [decode_after_fixed s fx _ hwf hfx, decode_after_fixed s fx _ hwf hfx,
    unknown_odd_ignored s.tlvs r1 r2 t val hf hodd hunk h1 h2]

/-- message level: an unknown even TLV record anywhere in the TLV part makes the message undecodable -/
theorem unknown_even_rejected_msg (s : Schema) (fx : List Val) (r1 r2 : List (Nat × Bytes)) (t : Nat) (val : Bytes)
    (hwf : s.wf = true) (hfx : validFixed s.fixed fx = true)
    (hf : Framed (r1 ++ (t, val) :: r2)) (heven : t % 2 = 0) (hunk : ∀ f ∈ s.tlvs, f.typ ≠ t) :
    ∃ e, s.decode (encodeFixed s.fixed fx ++ rawEncode (r1 ++ (t, val) :: r2)) = .error e := by
  obtain ⟨e, he⟩ := unknown_even_rejected s.tlvs r1 r2 t val hf heven hunk
  exact ⟨e, by rw [decode_after_fixed s fx _ hwf hfx, he]⟩
example : schema_StartBatch.decode (List.replicate 32 7 ++ [0, 3] ++ rawEncode [(2, [])]) = .error .UnknownRequiredFeature := by decide

/-! ## truncation of valid encodings (Proofs/CodecTrunc.lean): every well-formed schema, every valid value, EVERY cut point -/

/-- field level: a strict prefix of the encoding of a valid value never decodes to an error other than ShortRead; a self-delimiting
    type answers ShortRead (a read-to-end type — hzd, restBytes, chunks — may accept the prefix: it IS an encoding) -/
theorem field_truncation (ty : FieldTy) (v : Val) (p q : Bytes) (hwf : ty.wf = true) (hv : ty.valid v = true)
    (h : ty.encode v = p ++ q) (hq : q ≠ []) :
    (ty.decode p = .error .ShortRead ∨ ∃ v' r', ty.decode p = .ok (v', r')) ∧
    (ty.selfDelim = true → ty.decode p = .error .ShortRead) := field_trunc ty v p q hwf hv h hq
example : (FieldTy.vec (.uint 2)).decode [0, 2, 0, 7, 0] = .error .ShortRead := by decide
example : (FieldTy.hzd 8).decode [1] = .ok (.nat 1, []) := by decide   -- strict prefix of the encoding [1, 0] of 256

/-- a cut inside the fixed part: ShortRead -/
theorem truncation_in_fixed_part (s : Schema) (v : MsgVal) (hwf : s.wf = true) (hv : v.valid s = true) (p q : Bytes)
    (h : encodeFixed s.fixed v.fixed = p ++ q) (hq : q ≠ []) : s.decode p = .error .ShortRead :=
  (trunc_fixed_part s v hwf hv p q h hq).2

/-- a cut inside the k-th TLV record (inside its type, between type and length, inside the length, inside the value), the earlier
    records intact: ShortRead -/
theorem truncation_inside_record (s : Schema) (v : MsgVal) (hwf : s.wf = true) (hv : v.valid s = true) (k : Nat)
    (f : TlvField) (x : Val) (hf : s.tlvs[k]? = some f) (hx : v.tlvs[k]? = some (some x)) (p' q' : Bytes)
    (hcut : BigSize.encode f.typ ++ (BigSize.encode (f.ty.encode x).length ++ f.ty.encode x) = p' ++ q')
    (hp : p' ≠ []) (hq : q' ≠ []) :
    s.decode (boundaryCut s v k ++ p') = .error .ShortRead := trunc_inside_record s v hwf hv k f x hf hx p' q' hcut hp hq

/-- a cut exactly between two records (`boundaryCut s v k` = fixed part ++ the records of the first k declared fields): the message
    decodes with the later optional records absent — that is what the format allows — unless a REQUIRED record was cut off
    (`_check_missing_tlv!` ⇒ InvalidValue) -/
theorem truncation_at_record_boundary (s : Schema) (v : MsgVal) (hwf : s.wf = true) (hv : v.valid s = true) (k : Nat) :
    s.decode (boundaryCut s v k) =
      if reqDropped s.tlvs v.tlvs k then .error .InvalidValue else .ok ⟨v.fixed, maskAfter k v.tlvs⟩ :=
  trunc_at_boundary s v hwf hv k

/-- ALL cut points: every prefix of a valid encoding either is a record-boundary cut — whose result is given above, never ShortRead —
    or decodes to ShortRead.  No prefix decodes to any other error, and no prefix that ends inside a field or record is accepted. -/
theorem truncation_classified (s : Schema) (v : MsgVal) (hwf : s.wf = true) (hv : v.valid s = true) (p q : Bytes)
    (h : s.encode v = p ++ q) :
    (s.decode p = .error .ShortRead ∧ ¬ ∃ k, p = boundaryCut s v k) ∨
    ∃ k, p = boundaryCut s v k ∧
      s.decode p = if reqDropped s.tlvs v.tlvs k then .error .InvalidValue else .ok ⟨v.fixed, maskAfter k v.tlvs⟩ := by
  rcases trunc_decode_result s v hwf hv p q h with h1 | h2
  · exact .inl ⟨h1, fun hk => trunc_cases_exclusive s v hwf hv p ⟨h1, hk⟩⟩
  · exact .inr h2
-- non-vacuity on StartBatch (32-byte channel id, u16 batch size, optional TLV 1 = u16): cut in the fixed part, at the boundary, in the record
example : schema_StartBatch.encode ⟨[.bytes (List.replicate 32 7), .nat 3], [some (.nat 132)]⟩ = List.replicate 32 7 ++ [0, 3, 1, 2, 0, 132] := by decide
example : schema_StartBatch.decode (List.replicate 32 7 ++ [0]) = .error .ShortRead := by decide
example : schema_StartBatch.decode (List.replicate 32 7 ++ [0, 3]) = .ok ⟨[.bytes (List.replicate 32 7), .nat 3], [none]⟩ := by decide
example : boundaryCut schema_StartBatch ⟨[.bytes (List.replicate 32 7), .nat 3], [some (.nat 132)]⟩ 0 = List.replicate 32 7 ++ [0, 3] := by decide
example : schema_StartBatch.decode (List.replicate 32 7 ++ [0, 3, 1]) = .error .ShortRead := by decide
example : schema_StartBatch.decode (List.replicate 32 7 ++ [0, 3, 1, 2, 0]) = .error .ShortRead := by decide

/-! ## totality -/

/-- `decodeTlvStream` is total by construction (structural recursion on fuel = input length + 1); the
    out-of-fuel answer is never taken: any larger fuel gives the same result -/
theorem decode_total (tlvs : List TlvField) (b : Bytes) (k : Nat) :
    decodeTlvStream tlvs b = tlvLoop tlvs (b.length + 1 + k) none [] b := decodeTlvStream_fuel tlvs b k
example : decodeTlvStream [] [0xfd] = .error .ShortRead := by decide

/-- a field decoder consumes a prefix of its input and returns the untouched rest -/
theorem field_decode_consumes_prefix (ty : FieldTy) (b : Bytes) (v : Val) (r : Bytes)
    (h : ty.decode b = .ok (v, r)) : ∃ pre, b = pre ++ r := field_decode_suffix ty b v r h

/-- the fixed part of a message is a prefix of the input; the TLV stream is decoded from the rest only -/
theorem fixed_part_consumes_prefix (ts : List FieldTy) (b : Bytes) (vs : List Val) (r : Bytes)
    (h : decodeFixed ts b = .ok (vs, r)) : ∃ pre, b = pre ++ r := decodeFixed_suffix ts b vs r h
example : decodeFixed [.uint 2, .bytes16] [0, 1, 0, 1, 7, 8] = .ok ([.nat 1, .bytes [7]], [8]) := by decide

/-! ## hand-written codecs (Model/MsgSchemasHand.lean) -/

/-- the hand-written schemas ARE the field layout extracted from the `impl Writeable` / `impl LengthReadable`
    bodies of msgs.rs on this run (field order, field types, TLV types and payload types, trailing excess data,
    low-bit check).  Breaks when one of these impls gains, drops, reorders or retypes a field. -/
theorem hand_schemas_match_source : Hand.handLayout = handPinned := by decide

/-- OpenChannel, AcceptChannel, OpenChannelV2, AcceptChannelV2 are well-formed schemas: every theorem above about
    well-formed schemas (round trip, unknown even / odd, out of order, decode_after_fixed, …) applies to them -/
theorem hand_schemas_wf : ∀ s ∈ Hand.handSchemas, s.wf = true := by decide
theorem hand_schemas_plain : ∀ s ∈ Hand.handSchemas, s.plain = true := by decide

theorem hand_roundtrip (s : Schema) (hs : s ∈ Hand.handSchemas) (v : MsgVal) (hv : v.valid s = true) :
    s.decode (s.encode v) = .ok v := codec_roundtrip s v (hand_schemas_wf s hs) hv

theorem hand_reencode_stable (s : Schema) (hs : s ∈ Hand.handSchemas) (b : Bytes) (v : MsgVal)
    (h : s.decode b = .ok v) : s.decode (s.encode v) = .ok v :=
  reencode_stable_partial s b v (hand_schemas_wf s hs) (hand_schemas_plain s hs) h
example : Hand.schema_AcceptChannelV2.decode (Hand.schema_AcceptChannelV2.encode
      ⟨[.bytes (List.replicate 32 1), .nat 1, .nat 2, .nat 3, .nat 4, .nat 5, .nat 6, .nat 7] ++ List.replicate 7 (.bytes (2 :: List.replicate 32 1)),
       [some (.bytes [0, 20]), none, some .unit, none]⟩) =
    .ok ⟨[.bytes (List.replicate 32 1), .nat 1, .nat 2, .nat 3, .nat 4, .nat 5, .nat 6, .nat 7] ++ List.replicate 7 (.bytes (2 :: List.replicate 32 1)),
       [some (.bytes [0, 20]), none, some .unit, none]⟩ := by decide

/-- the gossip messages ending in `excess_data`: fields self-delimiting, the checked flag field is a `u8` -/
theorem tail_schemas_wf : ∀ s ∈ Hand.tailSchemas, s.wf = true := by decide

theorem tail_wf_parts {s : Hand.TailSchema} (h : s.wf = true) :
    (∀ t ∈ s.fixed, t.wf = true ∧ t.selfDelim = true) ∧ (∀ t ∈ s.fixed, t.wf = true ∧ t.plain = true) := by
  simp only [Hand.TailSchema.wf, Bool.and_eq_true, List.all_eq_true] at h
  exact ⟨fun t ht => ⟨(h.1 t ht).1.1, (h.1 t ht).1.2⟩, fun t ht => ⟨(h.1 t ht).1.1, (h.1 t ht).2⟩⟩

/-- fields ++ excess data reads back as the same fields and the same excess data -/
theorem tail_roundtrip (s : Hand.TailSchema) (hwf : s.wf = true) (vs : List Val) (excess : Bytes)
    (hv : s.valid vs = true) : s.decode (s.encode vs excess) = .ok (vs, excess) := by
  simp only [Hand.TailSchema.valid, Bool.and_eq_true] at hv
  simp [Hand.TailSchema.decode, Hand.TailSchema.encode, decodeFixed_roundtrip _ _ _ (tail_wf_parts hwf).1 hv.1, hv.2]

/-- whatever such a message decodes to re-encodes to bytes that decode to the same thing -/
theorem tail_reencode_stable (s : Hand.TailSchema) (hwf : s.wf = true) (b : Bytes) (vs : List Val) (excess : Bytes)
    (h : s.decode b = .ok (vs, excess)) : s.decode (s.encode vs excess) = .ok (vs, excess) := by
  unfold Hand.TailSchema.decode at h
  split at h
  · cases h
  · rename_i vs' rest hd
    split at h
    · rename_i hp
      simp only [Except.ok.injEq, Prod.mk.injEq] at h
      obtain ⟨rfl, rfl⟩ := h
      exact tail_roundtrip s hwf _ _ (by simp [Hand.TailSchema.valid, decodeFixed_valid _ _ _ _ (tail_wf_parts hwf).2 hd, hp])
    · cases h

/-- the excess data is a suffix of the input: the fields consume a prefix and nothing else is looked at -/
theorem tail_decode_consumes_prefix (s : Hand.TailSchema) (b : Bytes) (vs : List Val) (excess : Bytes)
    (h : s.decode b = .ok (vs, excess)) : ∃ pre, b = pre ++ excess := by
  unfold Hand.TailSchema.decode at h
  split at h
  · cases h
  · rename_i vs' rest hd
    split at h
    · simp only [Except.ok.injEq, Prod.mk.injEq] at h
      obtain ⟨rfl, rfl⟩ := h
      exact decodeFixed_suffix _ _ _ _ hd
    · cases h
example : Hand.tail_UnsignedChannelUpdate.decode (List.replicate 32 9 ++ beEncode 8 5 ++ beEncode 4 7 ++ [1, 0] ++ beEncode 2 40 ++ beEncode 8 1 ++ beEncode 4 2 ++ beEncode 4 3 ++ beEncode 8 9 ++ [0xee]) =
    .ok ([.bytes (List.replicate 32 9), .nat 5, .nat 7, .nat 1, .nat 0, .nat 40, .nat 1, .nat 2, .nat 3, .nat 9], [0xee]) := by decide
example : Hand.tail_UnsignedChannelUpdate.decode (List.replicate 32 9 ++ beEncode 8 5 ++ beEncode 4 7 ++ [0, 0] ++ beEncode 2 40 ++ beEncode 8 1 ++ beEncode 4 2 ++ beEncode 4 3 ++ beEncode 8 9) =
    .error .InvalidValue := by decide   -- must_be_one flag clear
example : Hand.tail_UnsignedChannelUpdate.decode (List.replicate 32 9 ++ beEncode 8 5 ++ beEncode 4 7 ++ [0, 0]) = .error .ShortRead := by decide  -- … checked last

/-! ### ErrorMessage / WarningMessage / Ping / Pong -/

/-- ErrorMessage / WarningMessage: channel id ++ u16 length ++ UTF-8 data reads back as (channel id, data), whatever
    follows the message -/
theorem error_msg_roundtrip (cid data rest : Bytes) (hc : cid.length = 32) (hd : data.length < 2 ^ 16)
    (hu : Hand.validUtf8 data = true) :
    Hand.decodeErrorMsg (Hand.encodeErrorMsg cid data ++ rest) = .ok (cid, data) := by
  have h256 : data.length < 256 ^ 2 := by omega
  have e1 : (cid ++ (beEncode 2 data.length ++ data) ++ rest).drop 32 = beEncode 2 data.length ++ (data ++ rest) := by
    rw [List.append_assoc, ← hc, List.drop_left' rfl]; simp [List.append_assoc]
  have e2 : (cid ++ (beEncode 2 data.length ++ data) ++ rest).take 32 = cid := by
    rw [List.append_assoc, ← hc, List.take_left' rfl]
  simp only [Hand.decodeErrorMsg, Hand.encodeErrorMsg, e1, e2, readUint_encode, Nat.mod_eq_of_lt h256]
  simp only [List.length_append, List.take_left' rfl, hu, if_true]
  rw [if_neg (by omega), if_neg (by omega)]

/-- … and whatever decodes re-encodes to bytes that decode to the same (channel id, data) -/
theorem error_msg_reencode_stable (b cid data : Bytes) (h : Hand.decodeErrorMsg b = .ok (cid, data)) :
    Hand.decodeErrorMsg (Hand.encodeErrorMsg cid data) = .ok (cid, data) := by
  unfold Hand.decodeErrorMsg at h
  split at h
  · cases h
  · rename_i hlen
    split at h
    · cases h
    · rename_i len r hr
      split at h
      · cases h
      · rename_i hlr
        split at h
        · rename_i hu
          simp only [Except.ok.injEq, Prod.mk.injEq] at h
          obtain ⟨rfl, rfl⟩ := h
          have hl : len < 256 ^ 2 := (readUint_ok hr).2
          have := error_msg_roundtrip (b.take 32) (r.take len) [] (by simp; omega) (by simp; omega) hu
          simpa using this
        · cases h
example : Hand.decodeErrorMsg (List.replicate 32 7 ++ [0, 2, 0xc3, 0xa9]) = .ok (List.replicate 32 7, [0xc3, 0xa9]) := by decide
example : Hand.decodeErrorMsg (List.replicate 32 7 ++ [0, 2, 0xc3, 0x28]) = .error .InvalidValue := by decide   -- invalid UTF-8
example : Hand.decodeErrorMsg (List.replicate 32 7 ++ [0, 3, 0xed, 0xa0, 0x80]) = .error .InvalidValue := by decide   -- surrogate
example : Hand.decodeErrorMsg (List.replicate 32 7 ++ [0, 2, 0x41]) = .error .ShortRead := by decide

theorem collLen_u16 (n : Nat) (h : n < 2 ^ 16) (rest : Bytes) :
    ∃ pad, readUint 2 (CollLen.encode n ++ rest) = .ok (n, pad ++ rest) := by
  unfold CollLen.encode
  split
  · exact ⟨[], by rw [readUint_encode, Nat.mod_eq_of_lt (by omega), List.nil_append]⟩
  · have : n = 0xffff := by omega
    subst this
    exact ⟨beEncode 8 0, by rw [List.append_assoc, readUint_encode]⟩

/-- Ping: (ponglen, byteslen) round-trips through `ponglen ++ Vec-of-zeros`, whatever follows -/
theorem ping_roundtrip (ponglen byteslen : Nat) (hp : ponglen < 2 ^ 16) (hb : byteslen < 2 ^ 16) (rest : Bytes) :
    Hand.decodePing (Hand.encodePing ponglen byteslen ++ rest) = .ok (ponglen, byteslen) := by
  obtain ⟨pad, hpad⟩ := collLen_u16 byteslen hb (List.replicate byteslen 0 ++ rest)
  simp only [Hand.decodePing, Hand.encodePing, List.append_assoc, readUint_encode, Nat.mod_eq_of_lt (show ponglen < 256 ^ 2 by omega), hpad]
  simp; omega

/-- Pong: byteslen round-trips -/
theorem pong_roundtrip (byteslen : Nat) (hb : byteslen < 2 ^ 16) (rest : Bytes) :
    Hand.decodePong (Hand.encodePong byteslen ++ rest) = .ok byteslen := by
  obtain ⟨pad, hpad⟩ := collLen_u16 byteslen hb (List.replicate byteslen 0 ++ rest)
  simp only [Hand.decodePong, Hand.encodePong, List.append_assoc, hpad]
  simp; omega
example : Hand.decodePing [0, 5, 0, 2, 9, 9, 1] = .ok (5, 2) := by decide   -- padding content ignored, trailing byte not read
example : Hand.decodePing [0, 5, 0, 3, 9, 9] = .error .ShortRead := by decide
example : Hand.encodePing 5 2 = [0, 5, 0, 2, 0, 0] := by decide

/-! ## UTF-8 (ErrorMessage / WarningMessage data) and i64 (Proofs/Utf8.lean) -/

/-- the validation automaton the ErrorMessage / WarningMessage decoders run accepts EXACTLY the well-formed UTF-8 byte strings of the
    Unicode Standard, Table 3-7 (`WellFormedUtf8`: a declarative inductive definition, one constructor per row) — all byte strings -/
theorem utf8_valid_iff_well_formed (b : Bytes) : Hand.validUtf8 b = true ↔ WellFormedUtf8 b := validUtf8_iff b

/-- so the decoder's answer on a well-framed ErrorMessage is decided by the declarative spec -/
theorem error_msg_accepts_iff_well_formed (cid data rest : Bytes) (hc : cid.length = 32) (hd : data.length < 2 ^ 16) :
    Hand.decodeErrorMsg (Hand.encodeErrorMsg cid data ++ rest) = .ok (cid, data) ↔ WellFormedUtf8 data := by
  constructor
  · intro h
    rw [← utf8_valid_iff_well_formed]
    cases hu : Hand.validUtf8 data with
    | true => rfl
    | false =>
      exfalso
      have h256 : data.length < 256 ^ 2 := by omega
      have e1 : (cid ++ (beEncode 2 data.length ++ data) ++ rest).drop 32 = beEncode 2 data.length ++ (data ++ rest) := by
        rw [List.append_assoc, ← hc, List.drop_left' rfl]; simp [List.append_assoc]
      simp only [Hand.decodeErrorMsg, Hand.encodeErrorMsg, e1, readUint_encode, Nat.mod_eq_of_lt h256] at h
      simp only [List.length_append, List.take_left' rfl, hu] at h
      rw [if_neg (by omega), if_neg (by omega)] at h
      simp at h
  · intro h; exact error_msg_roundtrip cid data rest hc hd ((utf8_valid_iff_well_formed data).2 h)
example : WellFormedUtf8 [0xc3, 0xa9] := (utf8_valid_iff_well_formed _).1 (by decide)
example : ¬ WellFormedUtf8 [0xed, 0xa0, 0x80] := fun h => absurd ((utf8_valid_iff_well_formed _).2 h) (by decide)   -- a surrogate

/-- i64 fields (`funding_contribution_satoshis`, …) are two's complement: every i64 round-trips through its 8 big-endian bytes, and a
    successful read consumed exactly the encoding of the in-range integer it returns (the schemas carry the same 8 bytes as `.uint 8`) -/
theorem i64_two_complement_roundtrip (i : Int) (h : -2 ^ 63 ≤ i ∧ i < 2 ^ 63) (r : Bytes) : readI64 (encodeI64 i ++ r) = .ok (i, r) :=
  i64_roundtrip i h r
theorem i64_read_canonical (b r : Bytes) (i : Int) (h : readI64 b = .ok (i, r)) : (-2 ^ 63 ≤ i ∧ i < 2 ^ 63) ∧ b = encodeI64 i ++ r :=
  readI64_canonical h
/-- … and it is the same bytes the schema-level `.uint 8` field carries -/
theorem i64_is_uint8_pattern (b : Bytes) : readI64 b = (match (FieldTy.uint 8).decode b with
    | .error e => .error e
    | .ok (.nat n, r) => .ok (i64OfBits n, r)
    | .ok (_, r) => .ok (0, r)) := by
  simp only [readI64, FieldTy.decode]
  cases readUint 8 b with
  | error e => rfl
  | ok p => rfl
example : readI64 [0xff, 0xff, 0xff, 0xff, 0xff, 0xff, 0xff, 0xfe] = .ok (-2, []) := by decide
example : encodeI64 (-1) = List.replicate 8 0xff := by decide

/-! ## custom hand-written codecs (Model/MsgCustom.lean): SocketAddress, (Unsigned)NodeAnnouncement, QueryShortChannelIds, ReplyChannelRange

  The arithmetic / comparisons of the Rust reader and writer bodies are TRANSLATED on every run (`Gen.nodeAnn*`, `Gen.*Rules`,
  `Gen.sockAddrKinds`); the theorems below are about the decoders that call those definitions, so they are re-proved against what
  the source says now.  `kinds` is always the extracted table; `hdr` ranges over the header field lists (`hdrOk`). -/

/-- the SocketAddress table extracted from the source is consistent: type bytes distinct and < 256, every constant of
    `SocketAddress::len` is the value-independent byte count of the variant's fields, `hostname.len()` is added exactly for the
    variant with a hostname.  Breaks when a `len` constant / a field width / a type byte changes on one side only. -/
theorem sockaddr_kinds_wf : kindsWf sockAddrKinds = true := by decide

/-- the hand-written header field lists ARE what the reader bodies read before the variable part -/
theorem custom_headers_match_source :
    Custom.nodeAnnHeaderNames.zip Custom.nodeAnnHeader = nodeAnnHeaderPinned ∧
    Custom.queryScidHeaderNames.zip Custom.queryScidHeader = queryShortChannelIdsHeaderPinned ∧
    Custom.replyRangeHeaderNames.zip Custom.replyRangeHeader = replyChannelRangeHeaderPinned := by decide

/-- … and they satisfy the shape conditions of the theorems below -/
theorem custom_headers_ok :
    Custom.hdrOk Custom.nodeAnnHeader = true ∧ Custom.hdrOk Custom.nodeAnnSignedHeader = true ∧
    Custom.hdrOk Custom.queryScidHeader = true ∧ Custom.hdrOk Custom.replyRangeHeader = true := by decide

/-- `SocketAddress::len()` + 1 (the type byte "not recorded") is exactly the number of bytes `write` emits, for every address -/
theorem sockaddr_len_is_encoded_length (a : SockAddr) (hv : a.valid sockAddrKinds = true) :
    (a.encode sockAddrKinds).length = 1 + a.len sockAddrKinds := addr_encode_length sockaddr_kinds_wf a hv

/-- every address of every kind round-trips, whatever follows it -/
theorem sockaddr_roundtrip (a : SockAddr) (r : Bytes) (hv : a.valid sockAddrKinds = true) :
    decodeAddrResult sockAddrKinds (a.encode sockAddrKinds ++ r) = .ok (.inl a, r) ∧
    decodeAddr sockAddrKinds (a.encode sockAddrKinds ++ r) = .ok (a, r) := by
  have h := addr_roundtrip sockaddr_kinds_wf a r hv
  exact ⟨h, by simp [decodeAddr, h]⟩

/-- a decoded address is valid, and what was consumed is exactly its encoding: the decoder reads the descriptor's own bytes, no more -/
theorem sockaddr_decode_canonical (b : Bytes) (a : SockAddr) (r : Bytes) (h : decodeAddrResult sockAddrKinds b = .ok (.inl a, r)) :
    b = a.encode sockAddrKinds ++ r ∧ a.valid sockAddrKinds = true := addr_decode_exact h

/-- a byte that is no known descriptor type: `Result<SocketAddress, u8>` hands it back having consumed nothing else;
    `SocketAddress::read` (the TLV of `init`) answers UnknownVersion -/
theorem sockaddr_unknown_type (x : UInt8) (r : Bytes) (h : findKind sockAddrKinds x.toNat = none) :
    decodeAddrResult sockAddrKinds (x :: r) = .ok (.inr x, r) ∧ decodeAddr sockAddrKinds (x :: r) = .error .UnknownVersion := by
  have h1 := addr_unknown_result sockAddrKinds x r h
  exact ⟨h1, by simp [decodeAddr, h1]⟩
example : decodeAddr sockAddrKinds [1, 10, 0, 0, 1, 0x26, 0x07, 9] = .ok (⟨1, [.bytes [10, 0, 0, 1], .nat 9735]⟩, [9]) := by decide
example : decodeAddr sockAddrKinds [5, 2, 0x61, 0x2e, 0, 80] = .ok (⟨5, [.bytes [0x61, 0x2e], .nat 80]⟩, []) := by decide
example : decodeAddr sockAddrKinds [5, 2, 0x61, 0x20, 0, 80] = .error .InvalidValue := by decide      -- ' ' in a hostname
example : decodeAddr sockAddrKinds [6, 1, 2] = .error .UnknownVersion := by decide
example : decodeAddr sockAddrKinds [4, 1, 2] = .error .ShortRead := by decide

/-- decode ∘ encode = id on every well-formed (Unsigned)NodeAnnouncement (`NodeAnn.wf`) -/
theorem node_ann_roundtrip (hdr : List FieldTy) (hh : Custom.hdrOk hdr = true) (m : Custom.NodeAnn)
    (hm : m.wf sockAddrKinds hdr = true) :
    Custom.decodeNodeAnn sockAddrKinds hdr (Custom.encodeNodeAnn sockAddrKinds hdr m) = .ok m :=
  Custom.nodeAnn_roundtrip' sockaddr_kinds_wf hdr hh m hm

/-- the decoder accepts ONLY canonical encodings of well-formed values: whatever byte string decodes IS the encoding of the
    message it decodes to — every byte of the input is accounted for, exactly once -/
theorem node_ann_decode_canonical (hdr : List FieldTy) (hh : Custom.hdrOk hdr = true) (b : Bytes) (m : Custom.NodeAnn)
    (h : Custom.decodeNodeAnn sockAddrKinds hdr b = .ok m) :
    Custom.encodeNodeAnn sockAddrKinds hdr m = b ∧ m.wf sockAddrKinds hdr = true :=
  Custom.nodeAnn_canonical' sockaddr_kinds_wf hdr hh b m h

/-- re-encoding any successfully decoded announcement yields bytes that decode to the same announcement -/
theorem node_ann_reencode_stable (hdr : List FieldTy) (hh : Custom.hdrOk hdr = true) (b : Bytes) (m : Custom.NodeAnn)
    (h : Custom.decodeNodeAnn sockAddrKinds hdr b = .ok m) :
    Custom.decodeNodeAnn sockAddrKinds hdr (Custom.encodeNodeAnn sockAddrKinds hdr m) = .ok m :=
  node_ann_roundtrip hdr hh m (node_ann_decode_canonical hdr hh b m h).2

/-- the decoder consumes exactly the declared length: in an accepted message the address descriptors and the excess address data
    occupy exactly `addrlen` bytes (the u16 after the header), and `excess_data` is everything after them -/
theorem node_ann_declared_length_exact (hdr : List FieldTy) (hh : Custom.hdrOk hdr = true) (b : Bytes) (m : Custom.NodeAnn)
    (h : Custom.decodeNodeAnn sockAddrKinds hdr b = .ok m) :
    ∃ L, L < 2 ^ 16 ∧ (Custom.encodeAddrs sockAddrKinds m.addresses ++ m.excessAddr).length = L ∧
      b = encodeFixed hdr m.hdr ++ (beEncode 2 L ++ (Custom.encodeAddrs sockAddrKinds m.addresses ++ (m.excessAddr ++ m.excess))) := by
  obtain ⟨e, hw⟩ := node_ann_decode_canonical hdr hh b m h
  obtain ⟨_, h2, h3, _⟩ := Custom.nodeAnn_wf_parts hw
  refine ⟨Custom.regionLen sockAddrKinds m.addresses + m.excessAddr.length, h3, by simp [Custom.encodeAddrs_length], ?_⟩
  rw [← e, Custom.encodeNodeAnn, Custom.writeAddrLen_eq sockaddr_kinds_wf _ _ h2]
  simp [nodeAnnWriteTotal]

/-- OVER-RUN: a descriptor that starts inside the declared address region but ends after it — by however little — is rejected with
    BadLengthDescriptor, whatever precedes it (any well-formed descriptors) and whatever follows (the decoder does not read an
    address past the declared length) -/
theorem node_ann_overrun_rejected (hdr : List FieldTy) (hh : Custom.hdrOk hdr = true) (hv : List Val) (hvv : validFixed hdr hv = true)
    (as : List SockAddr) (a : SockAddr) (L : Nat) (rest : Bytes)
    (has : ∀ x ∈ as, x.valid sockAddrKinds = true) (ha : a.valid sockAddrKinds = true) (hL : L < 2 ^ 16)
    (hin : Custom.regionLen sockAddrKinds as < L) (hout : L < Custom.regionLen sockAddrKinds as + (a.encode sockAddrKinds).length) :
    Custom.decodeNodeAnn sockAddrKinds hdr
      (encodeFixed hdr hv ++ (beEncode 2 L ++ (Custom.encodeAddrs sockAddrKinds as ++ (a.encode sockAddrKinds ++ rest)))) =
      .error .BadLengthDescriptor := by
  obtain ⟨p1, _, _⟩ := Custom.hdrOk_parts hh
  have hlen := Custom.length_le_regionLen as has
  have hel := Custom.encodeAddrs_length sockAddrKinds as
  simp only [Custom.decodeNodeAnn, decodeFixed_roundtrip hdr hv _ p1 hvv, readUint_encode, Nat.mod_eq_of_lt (show L < 256 ^ 2 by omega)]
  have hfuel : (Custom.encodeAddrs sockAddrKinds as ++ (a.encode sockAddrKinds ++ rest)).length + 1 =
      as.length + ((Custom.regionLen sockAddrKinds as - as.length + (a.encode sockAddrKinds ++ rest).length) + 1) := by
    simp only [List.length_append, hel]; omega
  rw [hfuel, Custom.addrLoop_overrun sockaddr_kinds_wf L as a _ 0 [] rest has ha (by omega) (by omega)]

/-- UNDER-RUN: the message ends while the declared address region still expects a descriptor: BadLengthDescriptor -/
theorem node_ann_truncated_region_rejected (hdr : List FieldTy) (hh : Custom.hdrOk hdr = true) (hv : List Val)
    (hvv : validFixed hdr hv = true) (as : List SockAddr) (L : Nat)
    (has : ∀ x ∈ as, x.valid sockAddrKinds = true) (hL : L < 2 ^ 16) (hin : Custom.regionLen sockAddrKinds as < L) :
    Custom.decodeNodeAnn sockAddrKinds hdr (encodeFixed hdr hv ++ (beEncode 2 L ++ Custom.encodeAddrs sockAddrKinds as)) =
      .error .BadLengthDescriptor := by
  obtain ⟨p1, _, _⟩ := Custom.hdrOk_parts hh
  have hlen := Custom.length_le_regionLen as has
  have hel := Custom.encodeAddrs_length sockAddrKinds as
  simp only [Custom.decodeNodeAnn, decodeFixed_roundtrip hdr hv _ p1 hvv, readUint_encode, Nat.mod_eq_of_lt (show L < 256 ^ 2 by omega)]
  have hfuel : (Custom.encodeAddrs sockAddrKinds as).length + 1 = as.length + ((Custom.regionLen sockAddrKinds as - as.length) + 1) := by
    rw [hel]; omega
  rw [hfuel, Custom.addrLoop_truncated sockaddr_kinds_wf L as _ 0 [] has (by omega)]

/-- … and in general: no byte string that is shorter than header + addrlen field + declared `addrlen` is accepted, whatever it
    contains (never a partially filled message for a truncated input) -/
theorem node_ann_short_input_rejected (hdr : List FieldTy) (hh : Custom.hdrOk hdr = true) (hv : List Val)
    (hvv : validFixed hdr hv = true) (L : Nat) (hL : L < 2 ^ 16) (tail : Bytes) (hshort : tail.length < L) :
    ∃ e, Custom.decodeNodeAnn sockAddrKinds hdr (encodeFixed hdr hv ++ (beEncode 2 L ++ tail)) = .error e := by
  cases hres : Custom.decodeNodeAnn sockAddrKinds hdr (encodeFixed hdr hv ++ (beEncode 2 L ++ tail)) with
  | error e => exact ⟨e, rfl⟩
  | ok m => have := Custom.nodeAnn_input_long_enough sockaddr_kinds_wf hdr hh hv hvv L hL tail m hres; omega

-- non-vacuity (header: no features, timestamp 1, node id, rgb, alias): one IPv4 descriptor, then the unknown type 0xff as excess address data
example : Custom.decodeNodeAnn sockAddrKinds Custom.nodeAnnHeader
    ([0, 0, 0, 0, 0, 1] ++ List.replicate 33 2 ++ [10, 11, 12] ++ List.replicate 32 1 ++ [0, 10, 1, 9, 9, 9, 9, 0x26, 0x07, 0xff, 5, 6, 0xee]) =
    .ok ⟨[.bytes [], .nat 1, .bytes (List.replicate 33 2), .bytes [10, 11, 12], .bytes (List.replicate 32 1)],
         [⟨1, [.bytes [9, 9, 9, 9], .nat 9735]⟩], [0xff, 5, 6], [0xee]⟩ := by decide
-- declared addrlen one less than the descriptor occupies (the off-by-one of a dropped `1 +`): rejected
example : Custom.decodeNodeAnn sockAddrKinds Custom.nodeAnnHeader
    ([0, 0, 0, 0, 0, 1] ++ List.replicate 33 2 ++ [10, 11, 12] ++ List.replicate 32 1 ++ [0, 6, 1, 9, 9, 9, 9, 0x26, 0x07, 0xee]) =
    .error .BadLengthDescriptor := by decide
example : Custom.decodeNodeAnn sockAddrKinds Custom.nodeAnnHeader
    ([0, 0, 0, 0, 0, 1] ++ List.replicate 33 2 ++ [10, 11, 12] ++ List.replicate 32 1 ++ [0, 8, 1, 9, 9, 9, 9, 0x26, 0x07]) =
    .error .BadLengthDescriptor := by decide   -- declared one more than there is

/-- the translated arithmetic of both encoded-id-list codecs says what the theorems need (each field by `rfl` on the generated
    definitions: breaks when the source changes `encoding_len == 0 || (encoding_len - 1) % 8 != 0`, the element count, the
    writer's `1 + len * 8`, or the accepted / written `EncodingType`) -/
theorem scid_rules_spec : queryShortChannelIdsRules.Spec ∧ replyChannelRangeRules.Spec :=
  ⟨⟨fun _ => rfl, fun _ => rfl, fun _ => rfl, rfl, by decide⟩, ⟨fun _ => rfl, fun _ => rfl, fun _ => rfl, rfl, by decide⟩⟩

/-- QueryShortChannelIds / ReplyChannelRange round-trip (≤ 8191 ids: `1 + 8·len` must fit the u16), whatever follows the message -/
theorem scid_list_roundtrip (rules : ScidRules) (hr : rules.Spec) (hdr : List FieldTy) (hh : Custom.hdrOk hdr = true)
    (m : Custom.ScidMsg) (hm : m.wf hdr = true) (rest : Bytes) :
    Custom.decodeScidMsg rules hdr (Custom.encodeScidMsg rules hdr m ++ rest) = .ok (m, rest) :=
  Custom.scid_roundtrip' hr hdr hh m hm rest

/-- what the decoder consumed is exactly the canonical encoding of the (well-formed) message it returns; the rest is untouched -/
theorem scid_list_decode_canonical (rules : ScidRules) (hr : rules.Spec) (hdr : List FieldTy) (hh : Custom.hdrOk hdr = true)
    (b : Bytes) (m : Custom.ScidMsg) (rest : Bytes) (h : Custom.decodeScidMsg rules hdr b = .ok (m, rest)) :
    b = Custom.encodeScidMsg rules hdr m ++ rest ∧ m.wf hdr = true := Custom.scid_exact' hr hdr hh b m rest h

theorem scid_list_reencode_stable (rules : ScidRules) (hr : rules.Spec) (hdr : List FieldTy) (hh : Custom.hdrOk hdr = true)
    (b : Bytes) (m : Custom.ScidMsg) (rest : Bytes) (h : Custom.decodeScidMsg rules hdr b = .ok (m, rest)) :
    Custom.decodeScidMsg rules hdr (Custom.encodeScidMsg rules hdr m) = .ok (m, []) := by
  have := scid_list_roundtrip rules hr hdr hh m (scid_list_decode_canonical rules hr hdr hh b m rest h).2 []
  simpa using this

/-- the declared `encoding_len` is exactly 1 (the encoding type) + the bytes of the ids that were returned -/
theorem scid_list_declared_length_exact (rules : ScidRules) (hr : rules.Spec) (hdr : List FieldTy) (hh : Custom.hdrOk hdr = true)
    (b : Bytes) (m : Custom.ScidMsg) (rest : Bytes) (h : Custom.decodeScidMsg rules hdr b = .ok (m, rest)) :
    ∃ L, L < 2 ^ 16 ∧ L = 1 + (Custom.encodeU64s m.scids).length ∧
      b = encodeFixed hdr m.hdr ++ (beEncode 2 L ++ (beEncode 1 rules.written ++ Custom.encodeU64s m.scids)) ++ rest := by
  obtain ⟨e, hw⟩ := scid_list_decode_canonical rules hr hdr hh b m rest h
  obtain ⟨_, _, h3⟩ := Custom.scid_wf_parts hw
  refine ⟨1 + m.scids.length * 8, by omega, by rw [Custom.encodeU64s_length]; omega, ?_⟩
  rw [e, Custom.encodeScidMsg, hr.encLen]

/-- a declared `encoding_len` that is 0 or not ≡ 1 (mod 8) is InvalidValue, whatever follows -/
theorem scid_list_bad_length_rejected (rules : ScidRules) (hr : rules.Spec) (hdr : List FieldTy) (hh : Custom.hdrOk hdr = true)
    (hv : List Val) (hvv : validFixed hdr hv = true) (L : Nat) (hL : L < 2 ^ 16) (hbad : L = 0 ∨ (L - 1) % 8 ≠ 0) (tail : Bytes) :
    Custom.decodeScidMsg rules hdr (encodeFixed hdr hv ++ (beEncode 2 L ++ (beEncode 1 rules.accepted ++ tail))) = .error .InvalidValue := by
  obtain ⟨p1, _, _⟩ := Custom.hdrOk_parts hh
  have hb := hr.byte
  have hs := hr.same
  have hbl : (decide (L = 0) || decide ((L - 1) % 8 ≠ 0)) = true := by simpa using hbad
  simp only [Custom.decodeScidMsg, decodeFixed_roundtrip hdr hv _ p1 hvv, readUint_encode, Nat.mod_eq_of_lt (show L < 256 ^ 2 by omega),
    Nat.mod_eq_of_lt (show rules.accepted < 256 ^ 1 by omega), hr.badLen, hbl]
  simp

/-- any encoding type other than the accepted one (Uncompressed) is UnsupportedCompression — checked before the length -/
theorem scid_list_compression_rejected (rules : ScidRules) (hdr : List FieldTy) (hh : Custom.hdrOk hdr = true)
    (hv : List Val) (hvv : validFixed hdr hv = true) (L ty : Nat) (hL : L < 2 ^ 16) (hty : ty < 256) (hne : ty ≠ rules.accepted) (tail : Bytes) :
    Custom.decodeScidMsg rules hdr (encodeFixed hdr hv ++ (beEncode 2 L ++ (beEncode 1 ty ++ tail))) = .error .UnsupportedCompression := by
  obtain ⟨p1, _, _⟩ := Custom.hdrOk_parts hh
  simp only [Custom.decodeScidMsg, decodeFixed_roundtrip hdr hv _ p1 hvv, readUint_encode, Nat.mod_eq_of_lt (show L < 256 ^ 2 by omega),
    Nat.mod_eq_of_lt (show ty < 256 ^ 1 by omega)]
  simp [hne]

/-- fewer id bytes than the declared length announces: ShortRead -/
theorem scid_list_truncated_rejected (rules : ScidRules) (hr : rules.Spec) (hdr : List FieldTy) (hh : Custom.hdrOk hdr = true)
    (hv : List Val) (hvv : validFixed hdr hv = true) (L : Nat) (hL : L < 2 ^ 16) (hok : L ≠ 0 ∧ (L - 1) % 8 = 0) (tail : Bytes)
    (hshort : tail.length < L - 1) :
    Custom.decodeScidMsg rules hdr (encodeFixed hdr hv ++ (beEncode 2 L ++ (beEncode 1 rules.accepted ++ tail))) = .error .ShortRead := by
  obtain ⟨p1, _, _⟩ := Custom.hdrOk_parts hh
  have hb := hr.byte
  have hs := hr.same
  have hbl : (decide (L = 0) || decide ((L - 1) % 8 ≠ 0)) = false := by simp [hok.1, hok.2]
  simp only [Custom.decodeScidMsg, decodeFixed_roundtrip hdr hv _ p1 hvv, readUint_encode, Nat.mod_eq_of_lt (show L < 256 ^ 2 by omega),
    Nat.mod_eq_of_lt (show rules.accepted < 256 ^ 1 by omega), hr.badLen, hbl, hr.count,
    Custom.readU64s_short ((L - 1) / 8) tail (by omega)]
  simp
example : Custom.decodeScidMsg queryShortChannelIdsRules Custom.queryScidHeader (List.replicate 32 7 ++ [0, 9, 0] ++ beEncode 8 5 ++ [0xaa]) =
    .ok (⟨[.bytes (List.replicate 32 7)], [5]⟩, [0xaa]) := by decide
example : Custom.decodeScidMsg queryShortChannelIdsRules Custom.queryScidHeader (List.replicate 32 7 ++ [0, 10, 0] ++ beEncode 8 5 ++ [0xaa]) =
    .error .InvalidValue := by decide
example : Custom.decodeScidMsg replyChannelRangeRules Custom.replyRangeHeader (List.replicate 32 7 ++ [0, 0, 0, 1, 0, 0, 0, 2, 1, 0, 9, 1] ++ beEncode 8 5) =
    .error .UnsupportedCompression := by decide
example : Custom.decodeScidMsg replyChannelRangeRules Custom.replyRangeHeader (List.replicate 32 7 ++ [0, 0, 0, 1, 0, 0, 0, 2, 2, 0, 1, 0]) =
    .error .InvalidValue := by decide   -- sync_complete is a bool

/-- the theorems above instantiated for the four concrete messages: round trip on well-formed values, and every accepted byte string
    is (a prefix-)canonical encoding of a well-formed value -/
theorem unsigned_node_announcement_codec :
    (∀ m : Custom.NodeAnn, m.wf sockAddrKinds Custom.nodeAnnHeader = true →
      Custom.decodeNodeAnn sockAddrKinds Custom.nodeAnnHeader (Custom.encodeNodeAnn sockAddrKinds Custom.nodeAnnHeader m) = .ok m) ∧
    (∀ b m, Custom.decodeNodeAnn sockAddrKinds Custom.nodeAnnHeader b = .ok m →
      Custom.encodeNodeAnn sockAddrKinds Custom.nodeAnnHeader m = b ∧ m.wf sockAddrKinds Custom.nodeAnnHeader = true) :=
  ⟨fun m hm => node_ann_roundtrip _ custom_headers_ok.1 m hm, fun b m h => node_ann_decode_canonical _ custom_headers_ok.1 b m h⟩

theorem node_announcement_codec :
    (∀ m : Custom.NodeAnn, m.wf sockAddrKinds Custom.nodeAnnSignedHeader = true →
      Custom.decodeNodeAnn sockAddrKinds Custom.nodeAnnSignedHeader (Custom.encodeNodeAnn sockAddrKinds Custom.nodeAnnSignedHeader m) = .ok m) ∧
    (∀ b m, Custom.decodeNodeAnn sockAddrKinds Custom.nodeAnnSignedHeader b = .ok m →
      Custom.encodeNodeAnn sockAddrKinds Custom.nodeAnnSignedHeader m = b ∧ m.wf sockAddrKinds Custom.nodeAnnSignedHeader = true) :=
  ⟨fun m hm => node_ann_roundtrip _ custom_headers_ok.2.1 m hm, fun b m h => node_ann_decode_canonical _ custom_headers_ok.2.1 b m h⟩

theorem query_short_channel_ids_codec :
    (∀ (m : Custom.ScidMsg) (rest : Bytes), m.wf Custom.queryScidHeader = true →
      Custom.decodeScidMsg queryShortChannelIdsRules Custom.queryScidHeader (Custom.encodeScidMsg queryShortChannelIdsRules Custom.queryScidHeader m ++ rest) = .ok (m, rest)) ∧
    (∀ b m rest, Custom.decodeScidMsg queryShortChannelIdsRules Custom.queryScidHeader b = .ok (m, rest) →
      b = Custom.encodeScidMsg queryShortChannelIdsRules Custom.queryScidHeader m ++ rest ∧ m.wf Custom.queryScidHeader = true) :=
  ⟨fun m rest hm => scid_list_roundtrip _ scid_rules_spec.1 _ custom_headers_ok.2.2.1 m hm rest,
   fun b m rest h => scid_list_decode_canonical _ scid_rules_spec.1 _ custom_headers_ok.2.2.1 b m rest h⟩

theorem reply_channel_range_codec :
    (∀ (m : Custom.ScidMsg) (rest : Bytes), m.wf Custom.replyRangeHeader = true →
      Custom.decodeScidMsg replyChannelRangeRules Custom.replyRangeHeader (Custom.encodeScidMsg replyChannelRangeRules Custom.replyRangeHeader m ++ rest) = .ok (m, rest)) ∧
    (∀ b m rest, Custom.decodeScidMsg replyChannelRangeRules Custom.replyRangeHeader b = .ok (m, rest) →
      b = Custom.encodeScidMsg replyChannelRangeRules Custom.replyRangeHeader m ++ rest ∧ m.wf Custom.replyRangeHeader = true) :=
  ⟨fun m rest hm => scid_list_roundtrip _ scid_rules_spec.2 _ custom_headers_ok.2.2.2 m hm rest,
   fun b m rest h => scid_list_decode_canonical _ scid_rules_spec.2 _ custom_headers_ok.2.2.2 b m rest h⟩

/-! ### Init -/

/-- the Init schema IS what the reader / writer bodies declare: two feature vectors, TLV 1 `networks` (ChainHashes to the end of the
    record), TLV 3 `remote_network_address` (a SocketAddress) -/
theorem init_schema_matches_source :
    (⟨Custom.initSchema.name, Custom.initSchema.fixedNames, Custom.initSchema.fixed, Custom.initSchema.tlvs.map (fun f => (f.typ, f.ty)), false, none⟩ : HandLayout) = initPinned ∧
    Custom.initSchema.tlvs.map (·.name) = initTlvNamesPinned := by decide

/-- Init's fixed part + TLV stream is a well-formed, HighZeroBytesDropped-free schema: every generic theorem above (TLV order, unknown
    even ⇒ rejected, unknown odd ⇒ ignored, framing, `decode_after_fixed`, …) applies to it -/
theorem init_schema_wf : Custom.initSchema.wf = true ∧ Custom.initSchema.plain = true := by decide

/-- the "global" vector the writer emits is contained in the full vector: OR-ing it back changes nothing -/
theorem init_global_features_absorbed (f : Bytes) : Custom.orBE f (Custom.first13 f) = f := Custom.orBE_first13 f

/-- decode ∘ encode = id on every Init (feature vector < 2^16 bytes, TLV values valid) -/
theorem init_roundtrip (m : Custom.InitMsg) (hm : m.wf = true) : Custom.decodeInit (Custom.encodeInit m) = .ok m :=
  Custom.init_roundtrip' init_schema_wf.1 m hm

/-- whatever decodes is a well-formed Init, and re-encoding it yields bytes that decode to the same Init (the split into
    global / local feature vectors of the input is NOT preserved — only their union is) -/
theorem init_reencode_stable (b : Bytes) (m : Custom.InitMsg) (h : Custom.decodeInit b = .ok m) :
    m.wf = true ∧ Custom.decodeInit (Custom.encodeInit m) = .ok m := by
  have hw := Custom.init_decode_wf init_schema_wf.1 init_schema_wf.2 b m h
  exact ⟨hw, init_roundtrip m hw⟩

/-- the decoder is the schema decoder followed by the OR of the two vectors (no other outcome) -/
theorem init_decode_shape (b : Bytes) :
    (∃ e, Custom.initSchema.decode b = .error e ∧ Custom.decodeInit b = .error e) ∨
    (∃ g f tlvs, Custom.initSchema.decode b = .ok ⟨[.bytes g, .bytes f], tlvs⟩ ∧ Custom.decodeInit b = .ok ⟨Custom.orBE f g, tlvs⟩) := by
  cases hd : Custom.initSchema.decode b with
  | error e => exact .inl ⟨e, rfl, by simp [Custom.decodeInit, hd]⟩
  | ok v =>
    have hv := schema_decode_valid Custom.initSchema b v init_schema_wf.1 init_schema_wf.2 hd
    obtain ⟨fx, tlvs⟩ := v
    simp only [MsgVal.valid, Custom.initSchema, Bool.and_eq_true] at hv
    match fx, hv.1 with
    | [.bytes g, .bytes f], _ => exact .inr ⟨g, f, tlvs, rfl, by simp [Custom.decodeInit, hd]⟩
    | [], h => simp [validFixed] at h
    | [_], h => simp [validFixed] at h
    | _ :: _ :: _ :: _, h => simp [validFixed] at h
    | [.nat _, _], h => simp [validFixed, FieldTy.valid] at h
    | [.unit, _], h => simp [validFixed, FieldTy.valid] at h
    | [.pair _ _, _], h => simp [validFixed, FieldTy.valid] at h
    | [.bytes _, .nat _], h => simp [validFixed, FieldTy.valid] at h
    | [.bytes _, .unit], h => simp [validFixed, FieldTy.valid] at h
    | [.bytes _, .pair _ _], h => simp [validFixed, FieldTy.valid] at h
-- global 0x2002 (bits 1 and 13), local 0x01_0000 (bit 16), networks = one chain hash, address = IPv4
example : Custom.decodeInit ([0, 2, 0x20, 0x02, 0, 3, 1, 0, 0] ++ [1, 32] ++ List.replicate 32 6 ++ [3, 7, 1, 10, 0, 0, 1, 0x26, 0x07]) =
    .ok ⟨[1, 0x20, 0x02], [some (.pair (.bytes (List.replicate 32 6)) .unit), some (.pair (.nat 1) (.pair (.bytes [10, 0, 0, 1]) (.pair (.nat 9735) .unit)))]⟩ := by decide
example : Custom.encodeInit ⟨[1, 0xe0, 0x02], [none, none]⟩ = [0, 2, 0x20, 0x02, 0, 3, 1, 0xe0, 0x02] := by decide   -- bits 14, 15 are not "global"
example : Custom.decodeInit ([0, 0, 0, 0] ++ [1, 33] ++ List.replicate 33 6) = .error .ShortRead := by decide      -- 33 bytes are not whole chain hashes
example : Custom.decodeInit ([0, 0, 0, 0] ++ [3, 2, 9, 9]) = .error .UnknownVersion := by decide                   -- unknown address type in the TLV
example : Custom.decodeInit ([0, 0, 0, 0] ++ [3, 8, 1, 10, 0, 0, 1, 0x26, 0x07, 0]) = .error .InvalidValue := by decide   -- address does not fill its record
example : Custom.decodeInit ([0, 0, 0, 0] ++ [2, 0]) = .error .UnknownRequiredFeature := by decide

/-! ### OnionMessage -/

/-- the constant the packet reader subtracts from the declared length IS the width of the packet's fixed fields
    (version + public key + hmac) -/
theorem onion_overhead_is_field_widths : Custom.onionMsgOverhead = 1 + 33 + 32 := by decide

/-- OnionMessage round-trips (hop data of any length that fits the u16 packet length), whatever follows the message -/
theorem onion_message_roundtrip (m : Custom.OnionMsg) (hm : m.wf = true) (rest : Bytes) :
    Custom.decodeOnionMsg (Custom.encodeOnionMsg m ++ rest) = .ok (m, rest) := Custom.onion_roundtrip' m hm rest

/-- what the decoder consumed is exactly the canonical encoding of the (well-formed) message it returns: the packet occupies exactly
    the declared `len` bytes (never fewer — a declared length below 66 or beyond the input is rejected — never more) -/
theorem onion_message_decode_canonical (b : Bytes) (m : Custom.OnionMsg) (rest : Bytes) (h : Custom.decodeOnionMsg b = .ok (m, rest)) :
    b = Custom.encodeOnionMsg m ++ rest ∧ m.wf = true := Custom.onion_exact' b m rest h

theorem onion_message_reencode_stable (b : Bytes) (m : Custom.OnionMsg) (rest : Bytes) (h : Custom.decodeOnionMsg b = .ok (m, rest)) :
    Custom.decodeOnionMsg (Custom.encodeOnionMsg m) = .ok (m, []) := by
  have := onion_message_roundtrip m (onion_message_decode_canonical b m rest h).2 []
  simpa using this

/-- a declared packet length that the input does not cover is never accepted -/
theorem onion_message_short_input_rejected (bp : Val) (hbp : Hand.point.valid bp = true) (len : Nat) (hl : len < 2 ^ 16) (tail : Bytes)
    (hshort : tail.length < len) : ∃ e, Custom.decodeOnionMsg (Hand.point.encode bp ++ (beEncode 2 len ++ tail)) = .error e := by
  cases hres : Custom.decodeOnionMsg (Hand.point.encode bp ++ (beEncode 2 len ++ tail)) with
  | error e => exact ⟨e, rfl⟩
  | ok p =>
    exfalso
    obtain ⟨m, rest⟩ := p
    have hpt : Hand.point.wf = true ∧ Hand.point.selfDelim = true := by decide
    simp only [Custom.decodeOnionMsg, field_roundtrip Hand.point bp _ hpt.1 hbp (.inl hpt.2), readUint_encode,
      Nat.mod_eq_of_lt (show len < 256 ^ 2 by omega)] at hres
    split at hres
    · cases hres
    · rename_i pv r' hpk
      obtain ⟨_, p2, p3⟩ := Custom.hdrOk_parts (Custom.packetTys_ok (len - Custom.onionMsgOverhead))
      have e2 := Custom.decodeFixed_exact _ _ _ _ p3 hpk
      obtain ⟨_, hpl⟩ := Custom.packet_shape _ _ (decodeFixed_valid _ _ _ _ p2 hpk)
      have h1 : (tail.take len).length = Custom.onionMsgOverhead + (len - Custom.onionMsgOverhead) + r'.length := by
        rw [e2, List.length_append, hpl]
      simp only [List.length_take, Custom.onionMsgOverhead, onionPacketOverheadPinned] at h1
      omega
example : Custom.decodeOnionMsg ([2] ++ List.replicate 32 1 ++ [0, 67, 0, 2] ++ List.replicate 32 1 ++ [0xaa] ++ List.replicate 32 9 ++ [0xee]) =
    .ok (⟨.bytes ([2] ++ List.replicate 32 1), [.nat 0, .bytes ([2] ++ List.replicate 32 1), .bytes [0xaa], .bytes (List.replicate 32 9)]⟩, [0xee]) := by decide
example : Custom.decodeOnionMsg ([2] ++ List.replicate 32 1 ++ [0, 65, 0, 2] ++ List.replicate 32 1 ++ List.replicate 32 9) = .error .ShortRead := by decide

/-! ## bitcoin consensus encodings and blinded paths (Model/MsgBitcoin.lean): TxAddInput, TxSignatures, RevokeAndACK

  The constants and comparisons the decoders CALL (`Gen.btc*`) are extracted / translated on every run from the `bitcoin` crate the
  harness is locked to and from util/ser.rs, ln/msgs.rs, blinded_path/mod.rs; the theorems are re-proved against them. -/

/-- what the extracted constants have to say for the theorems below to mean what the comments say (by `decide` on the generated
    definitions): CompactSize ranges contiguous and matching the non-minimality bounds, MAX_VEC_SIZE, the three TLV types, the
    introduction-node first bytes.  Breaks when the crate or the source changes one of them. -/
theorem btc_consts_spec :
    btcMaxVecSize = 4000000 ∧ btcCs1Max + 1 = btcCs2Min ∧ btcCs2Max + 1 = btcCs4Min ∧ btcCs4Max + 1 = btcCs8Min ∧
    btcCs1Max = 0xFC ∧ btcCs2Max = 0xFFFF ∧ btcCs4Max = 0xFFFFFFFF ∧
    btcTxAddInputTlv = 0 ∧ btcTxSignaturesTlv = 0 ∧ btcRevokeAndAckTlv = 75537 ∧
    (∀ t < 256, Btc.introWf [UInt8.ofNat t] = false) ∧
    (List.range 256).filter btcIntroScid = [0, 1] ∧ (List.range 256).filter btcIntroNode = [2, 3] := by decide

/-- the parts of the three messages that ARE ordinary schemas are well-formed and plain: every generic theorem above (TLV order, unknown
    even / odd, framing, truncation, …) applies to what follows the prevtx of TxAddInput and to the TLV stream of TxSignatures -/
theorem btc_rest_schemas_wf :
    Btc.txAddInputRest.wf = true ∧ Btc.txAddInputRest.plain = true ∧ Btc.txSignaturesRest.wf = true ∧ Btc.txSignaturesRest.plain = true ∧
    Custom.hdrOk Btc.txAddInputHeader = true ∧ Custom.hdrOk Btc.txSignaturesHeader = true ∧ Custom.hdrOk Btc.revokeAndAckHeader = true := by decide

/-- CompactSize: every u64 round-trips; the decoder accepts only the minimal form; it fails only with ShortRead / InvalidValue -/
theorem compact_size_roundtrip (n : Nat) (h : n < 2 ^ 64) (r : Bytes) :
    Btc.CompactSize.decode (Btc.CompactSize.encode n ++ r) = .ok (n, r) := Btc.compactSize_roundtrip n h r
theorem compact_size_minimal (b r : Bytes) (n : Nat) (h : Btc.CompactSize.decode b = .ok (n, r)) :
    b = Btc.CompactSize.encode n ++ r ∧ n < 2 ^ 64 := Btc.compactSize_exact h
theorem compact_size_errors (b : Bytes) (e : DecodeError) (h : Btc.CompactSize.decode b = .error e) :
    e = .ShortRead ∨ e = .InvalidValue := Btc.compactSize_decode_error h
example : Btc.CompactSize.decode [0xfd, 0xfc, 0x00] = .error .InvalidValue := by decide   -- non-minimal (little-endian 0x00fc)
example : Btc.CompactSize.decode [0xfd, 0xfd, 0x00, 9] = .ok (253, [9]) := by decide
example : Btc.CompactSize.decode [0xfe, 0, 0] = .error .ShortRead := by decide

/-- Witness: round trip within the crate's limits (`witnessWf`: at most MAX_VEC_SIZE elements and content bytes) -/
theorem witness_roundtrip (w : List Bytes) (r : Bytes) (h : Btc.witnessWf w = true) :
    Btc.decodeWitness (Btc.encodeWitness w ++ r) = .ok (w, r) := Btc.witness_roundtrip w r h
/-- … the decoder accepts ONLY canonical encodings of witnesses within the limits, and reads exactly their bytes -/
theorem witness_decode_canonical (b r : Bytes) (w : List Bytes) (h : Btc.decodeWitness b = .ok (w, r)) :
    b = Btc.encodeWitness w ++ r ∧ Btc.witnessWf w = true := Btc.witness_exact h
/-- `Witness::size()` (what `Vec<Witness>` compares with the declared u16) IS the number of bytes the witness occupies -/
theorem witness_size_is_encoded_length (w : List Bytes) : (Btc.encodeWitness w).length = Btc.witnessSize w :=
  Btc.witness_size_is_encoded_length w
/-- the crate's size limits: a declared element count above MAX_VEC_SIZE is rejected whatever follows; an element whose declared size
    takes the running content total (`used`) above MAX_VEC_SIZE is rejected BEFORE a byte of it is looked at -/
theorem witness_count_limit (n : Nat) (hn : n < 2 ^ 64) (h : btcMaxVecSize < n) (rest : Bytes) :
    Btc.decodeWitness (Btc.CompactSize.encode n ++ rest) = .error .InvalidValue := Btc.witness_count_oversized n hn h rest
theorem witness_element_limit (n used sz : Nat) (hsz : sz < 2 ^ 64) (h : btcMaxVecSize < used + sz + Btc.CompactSize.size sz) (rest : Bytes) :
    Btc.decodeWitnessItems (n + 1) used (Btc.CompactSize.encode sz ++ rest) = .error .InvalidValue :=
  Btc.witnessItems_oversized n used sz hsz h rest
example : Btc.decodeWitness [2, 1, 0xaa, 0, 7] = .ok ([[0xaa], []], [7]) := by decide
example : Btc.decodeWitness [2, 1, 0xaa] = .error .ShortRead := by decide
example : Btc.decodeWitness [0xfe, 0x01, 0x09, 0x3d, 0x00] = .error .InvalidValue := by decide   -- 4 000 001 elements declared
example : Btc.decodeWitness [0xfe, 0x00, 0x09, 0x3d, 0x00] = .error .ShortRead := by decide      -- 4 000 000: allowed, the input ends

/-- Transaction: decode ∘ encode = id on every well-formed transaction (`Tx.wf`), whatever follows it -/
theorem transaction_roundtrip (t : Btc.Tx) (h : t.wf = true) (r : Bytes) : Btc.decodeTx (Btc.encodeTx t ++ r) = .ok (t, r) :=
  Btc.tx_roundtrip t h r
/-- the decoder accepts ONLY canonical encodings of well-formed transactions (legacy form iff there is an input and every witness is
    empty; marker / flag form with no input or with some non-empty witness), and what it consumed is exactly that encoding:
    it never reads past the transaction, never drops a byte of it -/
theorem transaction_decode_canonical (b r : Bytes) (t : Btc.Tx) (h : Btc.decodeTx b = .ok (t, r)) :
    b = Btc.encodeTx t ++ r ∧ t.wf = true := Btc.tx_exact h
theorem transaction_reencode_stable (b r : Bytes) (t : Btc.Tx) (h : Btc.decodeTx b = .ok (t, r)) :
    Btc.decodeTx (Btc.encodeTx t) = .ok (t, []) := Btc.tx_reencode_stable h
/-- no strict prefix of a transaction's encoding is accepted -/
theorem transaction_truncated_rejected (t : Btc.Tx) (h : t.wf = true) (p q : Bytes) (he : Btc.encodeTx t = p ++ q) (hq : q ≠ []) :
    ∃ e, Btc.decodeTx p = .error e := Btc.tx_strict_prefix_rejected t h p q he hq
-- version 2, one input (txid 01…, vout 0, empty script, sequence ffffffff), no output, lock_time 0: legacy form
example : Btc.decodeTx ([2, 0, 0, 0, 1] ++ List.replicate 32 1 ++ [0, 0, 0, 0, 0, 0xff, 0xff, 0xff, 0xff, 0, 0, 0, 0, 0, 0xee]) =
    .ok (⟨2, [(⟨List.replicate 32 1, 0, [], 0xffffffff⟩, [])], [], 0⟩, [0xee]) := by decide
-- the same input behind marker / flag with an EMPTY witness: "witness flag set but no witnesses present" — before lock_time is read
example : Btc.decodeTx ([2, 0, 0, 0, 0, 1, 1] ++ List.replicate 32 1 ++ [0, 0, 0, 0, 0, 0xff, 0xff, 0xff, 0xff, 0, 0]) = .error .InvalidValue := by decide
example : Btc.decodeTx ([2, 0, 0, 0, 0, 1, 1] ++ List.replicate 32 1 ++ [0, 0, 0, 0, 0, 0xff, 0xff, 0xff, 0xff, 0, 1, 0, 9, 0, 0, 0]) =
    .ok (⟨2, [(⟨List.replicate 32 1, 0, [], 0xffffffff⟩, [[]])], [], 9⟩, []) := by decide
example : Btc.decodeTx [2, 0, 0, 0, 0, 2, 0, 0, 0, 0, 0, 0] = .error .InvalidValue := by decide   -- unsupported segwit flag
example : Btc.decodeTx [2, 0, 0, 0, 0, 1, 0, 0, 7, 0, 0, 0] = .ok (⟨2, [], [], 7⟩, []) := by decide   -- no inputs: marker / flag form

/-- TxAddInput: decode ∘ encode = id on well-formed messages (`TxAddInput.wf`: the transaction fits the u16 length) -/
theorem tx_add_input_roundtrip (m : Btc.TxAddInput) (h : m.wf = true) : Btc.decodeTxAddInput (Btc.encodeTxAddInput m) = .ok m :=
  Btc.tx_add_input_roundtrip m h
/-- whatever decodes is well-formed and re-encodes to bytes that decode to the same message -/
theorem tx_add_input_reencode_stable (b : Bytes) (m : Btc.TxAddInput) (h : Btc.decodeTxAddInput b = .ok m) :
    m.wf = true ∧ Btc.decodeTxAddInput (Btc.encodeTxAddInput m) = .ok m :=
  ⟨Btc.tx_add_input_decode_wf h, Btc.tx_add_input_reencode_stable h⟩
/-- NEVER READS PAST THE DECLARED LENGTH, never short of it: in an accepted message the bytes after the header are the u16 length, the
    canonical encoding of the transaction returned — exactly `length` bytes — and then the tail that the rest schema decodes -/
theorem tx_add_input_declared_length_exact (b : Bytes) (m : Btc.TxAddInput) (h : Btc.decodeTxAddInput b = .ok m) :
    ∃ tail, b = encodeFixed Btc.txAddInputHeader m.hdr ++ (Btc.encodePrevtx m.prevtx ++ tail) ∧
      Btc.txAddInputRest.decode tail = .ok m.rest := (Btc.tx_add_input_exact h).2
/-- SURPLUS: a declared length that exceeds the transaction by any k > 0 — whether the surplus bytes exist or the message ends first — is
    BadLengthDescriptor -/
theorem tx_add_input_surplus_rejected (hv : List Val) (hhv : validFixed Btc.txAddInputHeader hv = true) (tx : Btc.Tx) (hw : tx.wf = true)
    (k : Nat) (hk : 0 < k) (hL : (Btc.encodeTx tx).length + k < 2 ^ 16) (tail : Bytes) :
    Btc.decodeTxAddInput (encodeFixed Btc.txAddInputHeader hv ++ (beEncode 2 ((Btc.encodeTx tx).length + k) ++ (Btc.encodeTx tx ++ tail))) =
      .error .BadLengthDescriptor := Btc.tx_add_input_surplus hv hhv tx hw k hk hL tail
/-- SHORT: a declared length that ends inside the transaction is never accepted -/
theorem tx_add_input_short_rejected (hv : List Val) (hhv : validFixed Btc.txAddInputHeader hv = true) (tx : Btc.Tx) (hw : tx.wf = true)
    (L' : Nat) (h0 : 0 < L') (hlt : L' < (Btc.encodeTx tx).length) (h16 : L' < 2 ^ 16) (tail : Bytes) :
    ∃ e, Btc.decodeTxAddInput (encodeFixed Btc.txAddInputHeader hv ++ (beEncode 2 L' ++ (Btc.encodeTx tx ++ tail))) = .error e :=
  Btc.tx_add_input_short hv hhv tx hw L' h0 hlt h16 tail
example : Btc.decodeTxAddInput (List.replicate 32 7 ++ beEncode 8 1 ++ [0, 0] ++ [0, 0, 0, 5, 0, 0, 0, 6]) =
    .ok ⟨[.bytes (List.replicate 32 7), .nat 1], none, ⟨[.nat 5, .nat 6], [none]⟩⟩ := by decide
example : Btc.decodeTxAddInput (List.replicate 32 7 ++ beEncode 8 1 ++ [0, 12] ++ [2, 0, 0, 0, 0, 1, 0, 0, 7, 0, 0, 0] ++ [0, 0, 0, 5, 0, 0, 0, 6]) =
    .ok ⟨[.bytes (List.replicate 32 7), .nat 1], some ⟨2, [], [], 7⟩, ⟨[.nat 5, .nat 6], [none]⟩⟩ := by decide
example : Btc.decodeTxAddInput (List.replicate 32 7 ++ beEncode 8 1 ++ [0, 13] ++ [2, 0, 0, 0, 0, 1, 0, 0, 7, 0, 0, 0] ++ [0, 0, 0, 5, 0, 0, 0, 6]) =
    .error .BadLengthDescriptor := by decide
example : Btc.decodeTxAddInput (List.replicate 32 7 ++ beEncode 8 1 ++ [0, 11] ++ [2, 0, 0, 0, 0, 1, 0, 0, 7, 0, 0, 0] ++ [0, 0, 0, 5, 0, 0, 0, 6]) =
    .error .ShortRead := by decide

/-- TxSignatures: decode ∘ encode = id on well-formed messages (< 2^16 witnesses, each within the limits and of a size that fits its u16) -/
theorem tx_signatures_roundtrip (m : Btc.TxSignatures) (h : m.wf = true) : Btc.decodeTxSignatures (Btc.encodeTxSignatures m) = .ok m :=
  Btc.tx_signatures_roundtrip m h
theorem tx_signatures_reencode_stable (b : Bytes) (m : Btc.TxSignatures) (h : Btc.decodeTxSignatures b = .ok m) :
    m.wf = true ∧ Btc.decodeTxSignatures (Btc.encodeTxSignatures m) = .ok m :=
  ⟨Btc.tx_signatures_decode_wf h, Btc.tx_signatures_reencode_stable h⟩
/-- in an accepted message the witness vector is canonical: the declared count is the number of witnesses returned and every declared u16
    length is exactly the size of its witness (`encodeWitnessVec` writes `witnessSize`), byte for byte -/
theorem tx_signatures_declared_lengths_exact (b : Bytes) (m : Btc.TxSignatures) (h : Btc.decodeTxSignatures b = .ok m) :
    ∃ tail, b = encodeFixed Btc.txSignaturesHeader m.hdr ++ (Btc.encodeWitnessVec m.witnesses ++ tail) ∧
      Btc.txSignaturesRest.decode tail = .ok m.rest := (Btc.tx_signatures_exact h).2
/-- a declared witness length that differs from the witness's size — in either direction — is BadLengthDescriptor -/
theorem tx_signatures_wrong_length_rejected (w : List Bytes) (h : Btc.witnessWf w = true) (L : Nat) (hL : L < 2 ^ 16)
    (hne : L ≠ Btc.witnessSize w) (r : Bytes) :
    Btc.decodeSizedWitness (beEncode 2 L ++ (Btc.encodeWitness w ++ r)) = .error .BadLengthDescriptor :=
  Btc.sized_witness_wrong_length w h L hL hne r
example : Btc.decodeTxSignatures (List.replicate 64 7 ++ [0, 1, 0, 3, 1, 1, 0xaa]) =
    .ok ⟨[.bytes (List.replicate 32 7), .bytes (List.replicate 32 7)], [[[0xaa]]], ⟨[], [none]⟩⟩ := by decide
example : Btc.decodeTxSignatures (List.replicate 64 7 ++ [0, 1, 0, 4, 1, 1, 0xaa]) = .error .BadLengthDescriptor := by decide
example : Btc.decodeTxSignatures (List.replicate 64 7 ++ [0, 1, 0, 2, 1, 1, 0xaa]) = .error .BadLengthDescriptor := by decide
example : Btc.decodeTxSignatures (List.replicate 64 7 ++ [0, 2, 0, 3, 1, 1, 0xaa]) = .error .ShortRead := by decide

/-- one `(u64, BlindedMessagePath)` entry round-trips, whatever follows it; what decodes is well-formed (a valid introduction node of
    either kind, valid points, 1..255 hops) and as long as what was consumed -/
theorem path_entry_roundtrip (p : Btc.PathEntry) (r : Bytes) (h : p.wf = true) :
    Btc.decodePathEntry (Btc.encodePathEntry p ++ r) = .ok (p, r) := Btc.path_entry_roundtrip p r h
theorem path_entry_decode_valid (b r : Bytes) (p : Btc.PathEntry) (h : Btc.decodePathEntry b = .ok (p, r)) :
    p.wf = true ∧ b.length = (Btc.encodePathEntry p).length + r.length := Btc.path_entry_decode_spec h

/-- RevokeAndACK: decode ∘ encode = id on well-formed messages (an empty vector is written as NO record and read back as empty) -/
theorem revoke_and_ack_roundtrip (m : Btc.RevokeAndAck) (h : m.wf = true) : Btc.decodeRevokeAndAck (Btc.encodeRevokeAndAck m) = .ok m :=
  Btc.revoke_and_ack_roundtrip m h
theorem revoke_and_ack_reencode_stable (b : Bytes) (m : Btc.RevokeAndAck) (h : Btc.decodeRevokeAndAck b = .ok m) :
    m.wf = true ∧ Btc.decodeRevokeAndAck (Btc.encodeRevokeAndAck m) = .ok m :=
  ⟨Btc.revoke_and_ack_decode_wf h, Btc.revoke_and_ack_reencode_stable h⟩
/-- its TLV loop rejects an unknown even type, and is total: the out-of-fuel answer is never taken (any larger fuel, same result) -/
theorem revoke_and_ack_unknown_even (fuel : Nat) (last : Option Nat) (cur : Option (List Btc.PathEntry)) (typ len : Nat) (rest : Bytes)
    (ht : typ < 2 ^ 64) (hl : len < 2 ^ 64) (hlast : lastLt last typ = true) (hne : typ ≠ btcRevokeAndAckTlv) (hev : typ % 2 = 0) :
    Btc.raaLoop (fuel + 1) last cur (BigSize.encode typ ++ (BigSize.encode len ++ rest)) = .error .UnknownRequiredFeature :=
  Btc.raaLoop_unknown_even fuel last cur typ len rest ht hl hlast hne hev
theorem revoke_and_ack_decode_total (b : Bytes) (k : Nat) :
    Btc.raaLoop (b.length + 1 + k) none none b = Btc.raaLoop (b.length + 1) none none b := Btc.decodeRevokeAndAck_fuel b k
example : Btc.decodeRevokeAndAck (List.replicate 32 7 ++ List.replicate 32 8 ++ [2] ++ List.replicate 32 1) =
    .ok ⟨[.bytes (List.replicate 32 7), .bytes (List.replicate 32 8), .bytes ([2] ++ List.replicate 32 1)], []⟩ := by decide
-- one path: htlc id 5, introduction node = direction 1 + scid 9, blinding point, one hop with an empty payload
example : Btc.decodeRevokeAndAck (List.replicate 32 7 ++ List.replicate 32 8 ++ [2] ++ List.replicate 32 1 ++ [0xfe, 0, 1, 0x27, 0x11, 86] ++
      beEncode 8 5 ++ [1] ++ beEncode 8 9 ++ [2] ++ List.replicate 32 1 ++ [1] ++ [2] ++ List.replicate 32 1 ++ [0, 0]) =
    .ok ⟨[.bytes (List.replicate 32 7), .bytes (List.replicate 32 8), .bytes ([2] ++ List.replicate 32 1)],
      [⟨5, [1] ++ beEncode 8 9, .bytes ([2] ++ List.replicate 32 1), .pair (.pair (.bytes ([2] ++ List.replicate 32 1)) (.bytes [])) .unit⟩]⟩ := by decide
example : Btc.decodePathEntry (beEncode 8 5 ++ [4]) = .error .InvalidValue := by decide        -- not an introduction-node byte: at once
example : Btc.decodePathEntry (beEncode 8 5 ++ [3, 1]) = .error .ShortRead := by decide
example : Btc.decodePathEntry (beEncode 8 5 ++ [0] ++ beEncode 8 9 ++ [2] ++ List.replicate 32 1 ++ [0]) = .error .InvalidValue := by decide   -- no hops

/-! ## wire level -/

/-- message type ids are pairwise distinct, and so are the names -/
theorem wire_type_ids_distinct : (wireTypes.map (·.2)).Nodup ∧ (wireTypes.map (·.1)).Nodup := by decide

/-- every dispatched arm of `do_read` has a type id; cfg-gated arms too -/
theorem wire_dispatch_has_ids :
    (∀ n ∈ wireDispatch, (wireTypes.lookup n).isSome = true) ∧ (∀ p ∈ wireDispatchOff, (wireTypes.lookup p.1).isSome = true) := by
  decide

/-- EVERY arm `wire::do_read` dispatches on (48 in the harness build) has a model decoder: a generated / hand-written `Schema`, a
    `TailSchema`, or one of the custom decoders of Model/MsgSchemasHand, Model/MsgCustom, Model/MsgBitcoin.  Breaks when wire.rs gains an
    arm for a message none of them covers. -/
theorem wire_dispatch_all_modelled :
    wireDispatch.length = 48 ∧
    ∀ n ∈ wireDispatch, n ∈ generatedSchemas.map (·.name) ++ Hand.handSchemas.map (·.name) ++ Hand.tailSchemas.map (·.name) ++
      Hand.customNames ++ Custom.customNames ++ Btc.btcNames := by decide

/-- type id ++ payload reads back as the same message -/
theorem wire_roundtrip (table : List (Nat × Schema)) (t : Nat) (s : Schema) (v : MsgVal)
    (ht : t < 2 ^ 16) (hl : table.lookup t = some s) (hwf : s.wf = true) (hv : v.valid s = true) :
    wireRead table (wireWrite t s v) = .ok (.known t s.name v) := by
  simp [wireRead, wireWrite, readUint_encode, Nat.mod_eq_of_lt (show t < 256 ^ 2 by omega), hl,
    schema_roundtrip s v hwf hv]

/-- an id that is not dispatched reads as `Unknown` whatever the payload; peer_handler's rule for it:
    even ⇒ disconnect, odd ⇒ ignore (modelled by `peerDispatch`; exercised end-to-end under C15) -/
theorem unknown_type_classified (table : List (Nat × Schema)) (t : Nat) (payload : Bytes)
    (ht : t < 2 ^ 16) (hl : table.lookup t = none) :
    wireRead table (beEncode 2 t ++ payload) = .ok (.unknown t) ∧
    peerDispatch (.unknown t) = (if t % 2 = 0 then .disconnect else .ignore) := by
  refine ⟨by simp [wireRead, readUint_encode, Nat.mod_eq_of_lt (show t < 256 ^ 2 by omega), hl], ?_⟩
  simp only [peerDispatch]; split <;> simp_all
example : peerDispatch (.unknown 41) = .ignore ∧ peerDispatch (.unknown 40) = .disconnect := by decide

end Ldk.C13
