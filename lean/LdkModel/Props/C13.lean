import LdkModel.Model.Codec
import LdkModel.Proofs.Codec
import LdkModel.Generated.MsgSchemas
import LdkModel.Generated.WireTypes
/-!
  C13 — peer messages round-trip through the wire format and decoding is total.

  All theorems are about the functions of Model/Codec.lean that the driver runs (`Schema.decode`,
  `Schema.encode`, `decodeTlvStream`/`tlvLoop`, `BigSize.decode`, …), for ALL byte strings, values and
  well-formed schemas (no bound).  The schemas of the real messages are regenerated from msgs.rs on every
  check; `all_schemas_wf` is the obligation that fails when a TLV is renumbered / un-sorted / a required
  TLV gets an odd type.
-/
namespace Ldk.C13
open Ldk.Codec Ldk.Codec.Gen

/-! ## BigSize and fixed-width integers -/

/-- every u64 round-trips through BigSize, whatever follows it -/
theorem bigsize_roundtrip (n : Nat) (h : n < 2 ^ 64) (r : Bytes) :
    BigSize.decode (BigSize.encode n ++ r) = .ok (n, r) := bigsize_roundtrip' n h r
example : BigSize.decode (BigSize.encode 70000 ++ [1, 2]) = .ok (70000, [1, 2]) := by decide

/-- the decoder accepts only the minimal encoding: what it consumed is exactly `encode n` -/
theorem bigsize_minimal (b r : Bytes) (n : Nat) (h : BigSize.decode b = .ok (n, r)) :
    b = BigSize.encode n ++ r ∧ n < 2 ^ 64 := bigsize_minimal' h
example : BigSize.decode [0xfd, 0x00, 0xfc] = .error .InvalidValue := by decide   -- non-minimal
example : BigSize.decode [0xfd, 0x00, 0xfd, 9] = .ok (253, [9]) := by decide

/-- BigSize decoding fails only with ShortRead (truncated) or InvalidValue (non-minimal) -/
theorem bigsize_errors (b : Bytes) (e : DecodeError) (h : BigSize.decode b = .error e) :
    e = .ShortRead ∨ e = .InvalidValue := bigsize_decode_error h
example : BigSize.decode [0xfe, 0, 1] = .error .ShortRead := by decide

/-- n-byte big-endian integers round-trip (u8/u16/u32/u64 are n = 1, 2, 4, 8) -/
theorem uint_roundtrip (n x : Nat) (h : x < 256 ^ n) (r : Bytes) :
    readUint n (beEncode n x ++ r) = .ok (x, r) := by
  rw [readUint_encode, Nat.mod_eq_of_lt h]
theorem u16_roundtrip (x : Nat) (h : x < 2 ^ 16) (r : Bytes) : readUint 2 (beEncode 2 x ++ r) = .ok (x, r) :=
  uint_roundtrip 2 x (by omega) r
theorem u32_roundtrip (x : Nat) (h : x < 2 ^ 32) (r : Bytes) : readUint 4 (beEncode 4 x ++ r) = .ok (x, r) :=
  uint_roundtrip 4 x (by omega) r
theorem u64_roundtrip (x : Nat) (h : x < 2 ^ 64) (r : Bytes) : readUint 8 (beEncode 8 x ++ r) = .ok (x, r) :=
  uint_roundtrip 8 x (by omega) r
example : beEncode 4 0x01020304 = [1, 2, 3, 4] := by decide
example : readUint 2 [0xab] = .error .ShortRead := by decide

/-- a successful fixed-width read consumed exactly the big-endian bytes of its result -/
theorem uint_decode_canonical (n x : Nat) (b r : Bytes) (h : readUint n b = .ok (x, r)) :
    b = beEncode n x ++ r ∧ x < 256 ^ n := readUint_ok h

/-- CollectionLength (the prefix of `Vec<u8>` / `impl_for_vec!`) round-trips, including the 0xffff escape -/
theorem collection_length_roundtrip (n : Nat) (h : n < 2 ^ 64) (r : Bytes) :
    CollLen.decode (CollLen.encode n ++ r) = .ok (n, r) := collLen_roundtrip n h r
example : CollLen.decode (CollLen.encode 0xffff) = .ok (0xffff, []) := by decide

/-! ## field types -/

/-- every field type round-trips on its valid values; self-delimiting types also with trailing data -/
theorem field_codec_roundtrip (ty : FieldTy) (v : Val) (r : Bytes) (hwf : ty.wf = true) (hv : ty.valid v = true)
    (hr : ty.selfDelim = true ∨ r = []) : ty.decode (ty.encode v ++ r) = .ok (v, r) :=
  field_roundtrip ty v r hwf hv hr
example : (FieldTy.hzd 8).decode ((FieldTy.hzd 8).encode (.nat 256)) = .ok (.nat 256, []) := by decide
example : (FieldTy.hzd 8).decode [0, 1] = .error .InvalidValue := by decide   -- leading zero byte
example : (FieldTy.vec (.uint 2)).decode [0, 2, 0, 7, 0, 9, 5] = .ok (.pair (.nat 7) (.pair (.nat 9) .unit), [5]) := by decide

/-! ## whole messages -/

/-- encode ∘ decode = id on the values of any well-formed schema -/
theorem codec_roundtrip (s : Schema) (v : MsgVal) (hwf : s.wf = true) (hv : v.valid s = true) :
    s.decode (s.encode v) = .ok v := schema_roundtrip s v hwf hv

/-- the TLV-stream layer alone -/
theorem tlv_stream_roundtrip (tlvs : List TlvField) (vals : List (Option Val))
    (hs : strictInc (tlvs.map (·.typ)) = true) (hwf : ∀ f ∈ tlvs, f.ty.wf = true ∧ f.typ < 2 ^ 64)
    (hv : validTlvs tlvs vals = true) :
    (decodeTlvStream tlvs (encodeTlvs tlvs vals)).map (fun acc => tlvs.map fun f => acc.lookup f.typ) = .ok vals := by
  rw [decodeTlvStream_encodeTlvs tlvs vals (strictInc_pairwise _ hs) hwf hv]
  simp [Except.map, lookup_presentVals _ _ (strictInc_pairwise _ hs) hv]

/-- the generated schemas are all well-formed: TLV types strictly increasing, < 2^64, required ⇒ even,
    fixed fields self-delimiting.  Breaks when msgs.rs renumbers / un-sorts / duplicates a TLV. -/
theorem all_schemas_wf : ∀ s ∈ generatedSchemas, s.wf = true := by decide

/-- the round trip, instantiated for every message schema translated from msgs.rs -/
theorem generated_roundtrip (s : Schema) (hs : s ∈ generatedSchemas) (v : MsgVal) (hv : v.valid s = true) :
    s.decode (s.encode v) = .ok v := codec_roundtrip s v (all_schemas_wf s hs) hv

-- non-vacuity: a concrete ChannelReady with its optional TLV present is a valid value and round-trips
example : (⟨[.bytes (List.replicate 32 7), .bytes (0x02 :: List.replicate 32 1 |>.map id)], [some (.nat 42)]⟩ : MsgVal).tlvs.length = 1 := rfl
example : schema_StartBatch ∈ generatedSchemas := by decide
example : (⟨[.bytes (List.replicate 32 7), .nat 3], [some (.nat 132)]⟩ : MsgVal).valid schema_StartBatch = true := by decide
example : schema_StartBatch.decode (schema_StartBatch.encode ⟨[.bytes (List.replicate 32 7), .nat 3], [some (.nat 132)]⟩)
    = .ok ⟨[.bytes (List.replicate 32 7), .nat 3], [some (.nat 132)]⟩ := by decide

/-! ## wire level -/

/-- message type ids are pairwise distinct, and so are the names -/
theorem wire_type_ids_distinct : (wireTypes.map (·.2)).Nodup ∧ (wireTypes.map (·.1)).Nodup := by decide

/-- every dispatched arm of `do_read` has a type id; cfg-gated arms too -/
theorem wire_dispatch_has_ids :
    (∀ n ∈ wireDispatch, (wireTypes.lookup n).isSome = true) ∧ (∀ p ∈ wireDispatchOff, (wireTypes.lookup p.1).isSome = true) := by
  decide

/-- type id ++ payload reads back as the same message -/
theorem wire_roundtrip (table : List (Nat × Schema)) (t : Nat) (s : Schema) (v : MsgVal)
    (ht : t < 2 ^ 16) (hl : table.lookup t = some s) (hwf : s.wf = true) (hv : v.valid s = true) :
    wireRead table (wireWrite t s v) = .ok (.known t s.name v) := by
  simp [wireRead, wireWrite, readUint_encode, Nat.mod_eq_of_lt (show t < 256 ^ 2 by omega), hl,
    schema_roundtrip s v hwf hv]

/-- an id that is not dispatched reads as `Unknown` whatever the payload; peer_handler's rule for it:
    even ⇒ disconnect, odd ⇒ ignore (modelled by `peerDispatch`; exercised end-to-end under C15) -/
theorem unknown_type_classified (table : List (Nat × Schema)) (t : Nat) (payload : Bytes)
    (ht : t < 2 ^ 16) (hl : table.lookup t = none) :
    wireRead table (beEncode 2 t ++ payload) = .ok (.unknown t) ∧
    peerDispatch (.unknown t) = (if t % 2 = 0 then .disconnect else .ignore) := by
  refine ⟨by simp [wireRead, readUint_encode, Nat.mod_eq_of_lt (show t < 256 ^ 2 by omega), hl], ?_⟩
  simp only [peerDispatch]; split <;> simp_all
example : peerDispatch (.unknown 41) = .ignore ∧ peerDispatch (.unknown 40) = .disconnect := by decide

end Ldk.C13
