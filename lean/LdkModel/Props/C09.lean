/- C09 — No state is revealed to the peer before its monitor update is durable.
   The model (Model/MonGate.lean) is the gating discipline as an event monitor; `run` accepts an event
   list iff every step is enabled.  The theorems relate acceptance to the DECLARATIVE statements of the
   property, for every event list (any Completed/InProgress pattern, any completion order and delay).
   The tie to the code: every trace of every explored real schedule must be accepted (model `mongate`,
   harness bin `chan`), and the implementation-side oracle re-checks the declarative statements on the
   raw trace. -/
import LdkModel.Model.MonGate
import LdkModel.Model.CloseGate
import LdkModel.Proofs.MonGate
import LdkModel.Proofs.MonGateInv
namespace Ldk.C09
open Ldk.MonGate

/-- ids of the `update` events of a trace, in order -/
def updateIds : List Ev → List Nat
  | [] => []
  | .update id _ _ :: es => id :: updateIds es
  | _ :: es => updateIds es

theorem step_next_update (s s1 : St) (id : Nat) (k : List Kind) (ip : Bool)
    (h : step s (.update id k ip) = some s1) : (s.next = none ∨ s.next = some id) ∧ s1.next = some (id + 1) := by
  cases hn : s.next with
  | none =>
    simp [step, hn] at h
    subst h
    exact ⟨Or.inl rfl, rfl⟩
  | some n =>
    simp [step, hn] at h
    obtain ⟨h1, h2⟩ := h
    subst h2
    exact ⟨Or.inr (by rw [h1]), rfl⟩

theorem step_next_other (s s1 : St) (e : Ev) (hne : ∀ id k ip, e ≠ .update id k ip)
    (h : step s e = some s1) : s1.next = s.next := by
  cases e with
  | update id k ip => exact absurd rfl (hne id k ip)
  | done id =>
    simp only [step] at h
    split at h
    · injection h with h; subst h; rfl
    · contradiction
  | releaseCs =>
    simp only [step] at h
    split at h <;> try contradiction
    split at h <;> try contradiction
    injection h with h; subst h; rfl
  | releaseRaa =>
    simp only [step] at h
    split at h <;> try contradiction
    split at h <;> try contradiction
    injection h with h; subst h; rfl

theorem ids_from (evs : List Ev) : ∀ (s s' : St) (k : Nat), s.next = some k → run s evs = some s' →
    updateIds evs = List.range' k (updateIds evs).length := by
  induction evs with
  | nil => intro s s' k _ _; simp [updateIds]
  | cons e es ih =>
    intro s s' k hk h
    simp only [run] at h
    split at h
    · contradiction
    · rename_i s1 hs1
      cases e with
      | update id kinds ip =>
        have ⟨h1, h2⟩ := step_next_update s s1 id kinds ip hs1
        have hid : id = k := by
          rcases h1 with h1 | h1 <;> rw [hk] at h1 <;> simp at h1; exact h1.symm
        subst hid
        have := ih s1 s' (id + 1) h2 h
        simp only [updateIds, List.length_cons, List.range'_succ]
        rw [← this]
      | done id => simpa [updateIds] using ih s1 s' k (by rw [step_next_other s s1 _ (by intros; simp) hs1, hk]) h
      | releaseCs => simpa [updateIds] using ih s1 s' k (by rw [step_next_other s s1 _ (by intros; simp) hs1, hk]) h
      | releaseRaa => simpa [updateIds] using ih s1 s' k (by rw [step_next_other s s1 _ (by intros; simp) hs1, hk]) h

/-- Every accepted trace hands updates to chain::Watch with strictly increasing, gap-free ids:
    the id sequence is `k, k+1, k+2, …` for the first id `k` seen. -/
theorem update_ids_gap_free (evs : List Ev) : ∀ (s s' : St), s.next = none → run s evs = some s' →
    ∃ k, updateIds evs = List.range' k (updateIds evs).length := by
  induction evs with
  | nil => intro _ _ _ _; exact ⟨0, by simp [updateIds]⟩
  | cons e es ih =>
    intro s s' hn h
    simp only [run] at h
    split at h
    · contradiction
    · rename_i s1 hs1
      cases e with
      | update id kinds ip =>
        have ⟨_, h2⟩ := step_next_update s s1 id kinds ip hs1
        refine ⟨id, ?_⟩
        have := ids_from es s1 s' (id + 1) h2 h
        simp only [updateIds, List.length_cons, List.range'_succ]
        rw [← this]
      | done id => simpa [updateIds] using ih s1 s' (by rw [step_next_other s s1 _ (by intros; simp) hs1, hn]) h
      | releaseCs => simpa [updateIds] using ih s1 s' (by rw [step_next_other s s1 _ (by intros; simp) hs1, hn]) h
      | releaseRaa => simpa [updateIds] using ih s1 s' (by rw [step_next_other s s1 _ (by intros; simp) hs1, hn]) h

example : run St.init [.update 7 [.holderCommitment] true, .update 8 [.counterpartyCommitment] true, .done 8, .done 7, .releaseRaa, .releaseCs] ≠ none := by decide
example : run St.init [.update 7 [.holderCommitment] true, .update 9 [] false] = none := by decide

/-! ### which updates are in flight -/

/-- After any accepted prefix, the in-flight set is exactly: handed to Watch as InProgress and not yet
    reported complete. -/
theorem in_flight_characterised (pre : List Ev) (s : St) (h : run St.init pre = some s) (id : Nat) :
    id ∈ s.inFlight ↔ (∃ k, Ev.update id k true ∈ pre) ∧ Ev.done id ∉ pre :=
  (inv_of_run h).mem id

example : ∃ s, run St.init [.update 7 [.holderCommitment] true, .update 8 [] false, .update 9 [] true, .done 7] = some s ∧
    7 ∉ s.inFlight ∧ 8 ∉ s.inFlight ∧ 9 ∈ s.inFlight := ⟨_, rfl, by decide, by decide, by decide⟩

/-! ### no release while an earlier update is in flight

`lastWith k pre` (Proofs/MonGate.lean) is the id of the LAST update of `pre` whose step kinds contain
`k`; `lastWith_is_last` pins that reading down. -/

theorem lastWith_is_last (k : Kind) (pre : List Ev) (u : Nat) (h : lastWith k pre = some u) :
    ∃ l1 ks ip l2, pre = l1 ++ .update u ks ip :: l2 ∧ ks.contains k = true ∧
      ∀ id ks' ip', Ev.update id ks' ip' ∈ l2 → ks'.contains k = false :=
  lastWith_spec k pre u h

/-- A commitment_signed is released only when a counterparty-commitment update exists and every
    InProgress update with id ≤ the latest such update has completed (earlier in the trace). -/
theorem no_release_while_in_flight (pre post : List Ev) (s : St)
    (h : run St.init (pre ++ Ev.releaseCs :: post) = some s) :
    ∃ u, lastWith .counterpartyCommitment pre = some u ∧
      ∀ id k, Ev.update id k true ∈ pre → id ≤ u → Ev.done id ∈ pre := by
  obtain ⟨s1, h1, h2⟩ := run_append_some h
  have inv := inv_of_run h1
  simp only [run] at h2
  cases hs : step s1 .releaseCs with
  | none => simp [hs] at h2
  | some s2 =>
    obtain ⟨_, u, hu, hall⟩ := step_releaseCs_some hs
    refine ⟨u, by rw [← inv.cp, hu], ?_⟩
    intro id k hm hle
    apply Classical.byContradiction
    intro hnd
    have := hall id ((inv.mem id).2 ⟨⟨k, hm⟩, hnd⟩)
    omega

/-- Same for revoke_and_ack and the latest holder-commitment update. -/
theorem no_release_while_in_flight_raa (pre post : List Ev) (s : St)
    (h : run St.init (pre ++ Ev.releaseRaa :: post) = some s) :
    ∃ u, lastWith .holderCommitment pre = some u ∧
      ∀ id k, Ev.update id k true ∈ pre → id ≤ u → Ev.done id ∈ pre := by
  obtain ⟨s1, h1, h2⟩ := run_append_some h
  have inv := inv_of_run h1
  simp only [run] at h2
  cases hs : step s1 .releaseRaa with
  | none => simp [hs] at h2
  | some s2 =>
    obtain ⟨_, u, hu, hall⟩ := step_releaseRaa_some hs
    refine ⟨u, by rw [← inv.holder, hu], ?_⟩
    intro id k hm hle
    apply Classical.byContradiction
    intro hnd
    have := hall id ((inv.mem id).2 ⟨⟨k, hm⟩, hnd⟩)
    omega

/-- A release with no prior commitment update of the matching kind is never accepted. -/
theorem release_needs_commitment (pre post : List Ev) :
    (lastWith .counterpartyCommitment pre = none → run St.init (pre ++ Ev.releaseCs :: post) = none) ∧
    (lastWith .holderCommitment pre = none → run St.init (pre ++ Ev.releaseRaa :: post) = none) := by
  constructor
  · intro hn
    cases h : run St.init (pre ++ Ev.releaseCs :: post) with
    | none => rfl
    | some s =>
      obtain ⟨u, hu, _⟩ := no_release_while_in_flight pre post s h
      rw [hn] at hu; cases hu
  · intro hn
    cases h : run St.init (pre ++ Ev.releaseRaa :: post) with
    | none => rfl
    | some s =>
      obtain ⟨u, hu, _⟩ := no_release_while_in_flight_raa pre post s h
      rw [hn] at hu; cases hu

-- accepted once 7 and 8 are complete (9, later than the commitment, may still be in flight) …
example : run St.init [.update 7 [.holderCommitment] true, .update 8 [.counterpartyCommitment] true,
    .update 9 [.preimage] true, .done 8, .done 7, .releaseCs] ≠ none := by decide
example : lastWith .counterpartyCommitment [.update 7 [.holderCommitment] true, .update 8 [.counterpartyCommitment] true,
    .update 9 [.preimage] true, .done 8, .done 7] = some 8 := by decide
-- … rejected while the EARLIER update 7 is still in flight, and with no commitment update at all
example : run St.init [.update 7 [.holderCommitment] true, .update 8 [.counterpartyCommitment] true,
    .done 8, .releaseCs] = none := by decide
example : run St.init [.update 7 [.holderCommitment] false, .releaseCs] = none := by decide
example : run St.init [.update 7 [.holderCommitment] false, .releaseRaa] ≠ none := by decide

/-! ### completions -/

/-- An accepted trace completes only ids that are in flight: handed to Watch as InProgress earlier, not
    completed before — and never completed again later. -/
theorem done_only_in_flight (pre post : List Ev) (id : Nat) (s : St)
    (h : run St.init (pre ++ Ev.done id :: post) = some s) :
    (∃ s1, run St.init pre = some s1 ∧ id ∈ s1.inFlight) ∧
    (∃ k, Ev.update id k true ∈ pre) ∧ Ev.done id ∉ pre ∧ Ev.done id ∉ post := by
  have first : ∀ (pre post : List Ev) (s : St), run St.init (pre ++ Ev.done id :: post) = some s →
      ∃ s1, run St.init pre = some s1 ∧ id ∈ s1.inFlight := by
    intro pre post s h
    obtain ⟨s1, h1, h2⟩ := run_append_some h
    refine ⟨s1, h1, ?_⟩
    simp only [run] at h2
    cases hs : step s1 (.done id) with
    | none => simp [hs] at h2
    | some s2 => exact (step_done_some hs).1
  obtain ⟨s1, h1, hin⟩ := first pre post s h
  obtain ⟨hu, hd⟩ := (in_flight_characterised pre s1 h1 id).1 hin
  refine ⟨⟨s1, h1, hin⟩, hu, hd, ?_⟩
  intro hm
  obtain ⟨p, q, hpq⟩ := List.append_of_mem hm
  subst hpq
  have h' : run St.init ((pre ++ Ev.done id :: p) ++ Ev.done id :: q) = some s := by simpa using h
  obtain ⟨s2, h2, hin2⟩ := first _ q s h'
  exact ((in_flight_characterised _ s2 h2 id).1 hin2).2 (by simp)

example : run St.init [.update 7 [] true, .done 7] ≠ none := by decide
example : run St.init [.update 7 [] true, .done 7, .done 7] = none := by decide
example : run St.init [.update 7 [] false, .done 7] = none := by decide

/-- Completions may arrive in any order: permuting a block of `done` events of an accepted trace gives an
    accepted trace with the SAME final state (in particular the same `next`, `lastCpCommit`,
    `lastHolderCommit` and in-flight set) — so which messages may be released, now or later, never depends
    on the order in which completions arrive. -/
theorem any_completion_order (pre ds ds' post : List Ev) (s : St)
    (hd : ∀ e ∈ ds, ∃ id, e = Ev.done id) (hp : ds.Perm ds')
    (h : run St.init (pre ++ ds ++ post) = some s) :
    run St.init (pre ++ ds' ++ post) = some s := by
  obtain ⟨s2, h12, h3⟩ := run_append_some h
  obtain ⟨s1, h1, h2⟩ := run_append_some h12
  have hd' : ∀ e ∈ ds, Ev.isDone e = true := by
    intro e he; obtain ⟨id, rfl⟩ := hd e he; rfl
  exact run_append_of (run_append_of h1 (run_perm_done hp hd' s1 s2 h2)) h3

/-- the form "equal up to the order of `inFlight`" (weaker than `any_completion_order`) -/
theorem any_completion_order_fields (pre ds ds' post : List Ev) (s : St)
    (hd : ∀ e ∈ ds, ∃ id, e = Ev.done id) (hp : ds.Perm ds')
    (h : run St.init (pre ++ ds ++ post) = some s) :
    ∃ s', run St.init (pre ++ ds' ++ post) = some s' ∧ s'.next = s.next ∧ s'.lastCpCommit = s.lastCpCommit ∧
      s'.lastHolderCommit = s.lastHolderCommit ∧ s'.inFlight.Perm s.inFlight :=
  ⟨s, any_completion_order pre ds ds' post s hd hp h, rfl, rfl, rfl, List.Perm.refl _⟩

/-- hence a release is accepted after one completion order iff it is after any other -/
theorem release_independent_of_completion_order (pre ds ds' post : List Ev)
    (hd : ∀ e ∈ ds, ∃ id, e = Ev.done id) (hp : ds.Perm ds') :
    run St.init (pre ++ ds ++ post) = run St.init (pre ++ ds' ++ post) := by
  have hd' : ∀ e ∈ ds', ∃ id, e = Ev.done id := fun e he => hd e (hp.mem_iff.2 he)
  cases h : run St.init (pre ++ ds ++ post) with
  | some s => exact (any_completion_order pre ds ds' post s hd hp h).symm
  | none =>
    cases h' : run St.init (pre ++ ds' ++ post) with
    | none => rfl
    | some s' => rw [any_completion_order pre ds' ds post s' hd' hp.symm h'] at h; cases h

example : ∃ s, run St.init ([.update 7 [.holderCommitment] true, .update 8 [.counterpartyCommitment] true, .update 9 [] true]
      ++ [.done 8, .done 9, .done 7] ++ [.releaseRaa, .releaseCs]) = some s ∧
    run St.init ([.update 7 [.holderCommitment] true, .update 8 [.counterpartyCommitment] true, .update 9 [] true]
      ++ [.done 7, .done 8, .done 9] ++ [.releaseRaa, .releaseCs]) = some s := ⟨_, rfl, rfl⟩


/-! ### the channel-side gate model (`Gate` in Model/MonGate.lean; its decisions are Generated/MonGate.lean, re-translated from
    channel.rs / channelmanager.rs by tools/gen_mongate.py on every run) -/
section GateModel
open Ldk.MonGate.Gate

/-- Held items are never lost, duplicated or reordered — for EVERY op sequence (any mix of commitment_signed / revoke_and_ack /
    claims / sends, any Completed / InProgress pattern, any completion order and delay, RAA-blocked updates, disconnects and
    reestablishes) and for each of the four held vectors (update_adds to forward, forwards, failures, finalized fulfills):
    what has been released so far, followed by what is still held, is exactly what the revoke_and_acks handed over, in order. -/
theorem held_items_conserved (kind : VK) (k0 : Nat) (ops : List Op) :
    rel kind (Gate.run (Chan.init k0) ops).2 ++ kind.of (Gate.run (Chan.init k0) ops).1.pend = addedAll kind ops := by
  have := run_conserves kind ops (Chan.init k0)
  rw [this]
  cases kind <;> simp [Chan.init, Gen.Pend.empty, VK.of]

/-- hence once nothing is held any more, exactly the held items have been released, each once, in the order they were held -/
theorem held_items_released_exactly_once (kind : VK) (k0 : Nat) (ops : List Op)
    (h : kind.of (Gate.run (Chan.init k0) ops).1.pend = []) :
    rel kind (Gate.run (Chan.init k0) ops).2 = addedAll kind ops := by
  have := held_items_conserved kind k0 ops
  rw [h, List.append_nil] at this
  exact this

-- two revoke_and_acks while update 6 is in flight (the second one's update 7 too), completions in descending order:
-- the failures [1,2] and [3] and the forwardable adds come out once, in order, at the completion that empties the in-flight set
example : rel .fails (Gate.run (Chan.init 5) [.raaRecv false false false [10] [] [1, 2] [] true, .raaRecv false true false [] [] [3] [20] true,
    .complete 7, .complete 6]).2 = [1, 2, 3] := by decide
example : (Gate.run (Chan.init 5) [.raaRecv false false false [10] [] [1, 2] [] true, .raaRecv false true false [] [] [3] [20] true,
    .complete 7]).2 = [.handed 6 true, .handed 7 true] := by decide
example : (Gate.run (Chan.init 5) [.raaRecv false false false [10] [] [1, 2] [] true, .complete 6]).2 =
    [.handed 6 true, .adds [10], .fails [1, 2]] := by decide


/-! #### the Gate model over WHOLE op sequences (invariant `Gate.Inv` of Proofs/MonGateInv.lean, proved by induction through every
    translated decision: pushBlockable, raaReleaseMonitor, claimBuildsCs / claimJump, unblockNext, mgrNewUpdate, mgrRetain,
    mgrStillInFlight, resumeBlocked, pausedSetsInProgress, checkReady, the reestablish hold-backs, canGenerateNewCommitment) -/

/-- GAP-FREE, ASCENDING ids: for every op sequence from a fresh channel whose latest_monitor_update_id is k0, the ids handed to
    chain::Watch are exactly k0+1, k0+2, … in this order — also across RAA-blocked queues, preimage updates jumping the queue,
    unblocking, Completed / InProgress in any pattern. -/
theorem gate_update_ids_gap_free (k0 : Nat) (ops : List Op) :
    handedIds (Gate.run (Chan.init k0) ops).2 = List.range' (k0 + 1) (handedIds (Gate.run (Chan.init k0) ops).2).length := by
  obtain ⟨_, ⟨n, h1, _⟩, _⟩ := run_good ops (Chan.init k0) (Inv.init k0)
  rw [h1]; simp [Chan.init]

example : handedIds (Gate.run (Chan.init 5) [.raaRecv false false true [] [] [] [] true, .csRecv true false true, .claim false true, .unblock false,
    .unblock true]).2 = [6, 7, 8] := by decide

/-- NO RELEASE WHILE IN FLIGHT: in every op sequence, whenever a step releases anything gated (revoke_and_ack, commitment_signed,
    channel_ready, held update_adds / forwards / failures / fulfills) the state it leaves has NO update in flight — neither in the
    manager's in_flight_monitor_updates nor pending in the ChainMonitor. -/
theorem gate_no_release_while_in_flight (k0 : Nat) (ops : List Op) :
    ∀ p ∈ Gate.trace (Chan.init k0) ops, anyGated p.2 = true → p.1.inFlight = [] ∧ p.1.cmPending = [] :=
  (run_good ops (Chan.init k0) (Inv.init k0)).2.2

example : (Gate.trace (Chan.init 5) [.csRecv false false true, .complete 6]).map (fun p => (anyGated p.2, p.1.cmPending)) = [(false, [6]), (true, [])] := by decide

/-- COMPLETION ORDER: from any state, completing the updates the ChainMonitor reports pending in ANY order (any two permutations of
    the pending ids) reaches the same state and releases the same outputs in the same order. -/
theorem gate_completion_order_independent (c : Chan) (ds ds' : List Nat) (h : ds.Perm c.cmPending) (h' : ds'.Perm c.cmPending) :
    Gate.run c (ds.map Op.complete) = Gate.run c (ds'.map Op.complete) := by
  rw [run_completions ds c h, run_completions ds' c h']

example : Gate.run (Gate.run (Chan.init 5) [.raaRecv false false false [10] [] [1] [] true, .raaRecv false true false [] [] [3] [] true]).1 [.complete 6, .complete 7] =
    Gate.run (Gate.run (Chan.init 5) [.raaRecv false false false [10] [] [1] [] true, .raaRecv false true false [] [] [3] [] true]).1 [.complete 7, .complete 6] := by decide

/-- … and nothing at all is released before the LAST pending completion -/
theorem gate_nothing_released_before_last_completion (c : Chan) (d : Nat) (h : (c.cmPending.erase d).isEmpty = false) :
    (Gate.step c (.complete d)).2 = [] := by
  simp only [Gate.step]
  split
  · simp [h]
  · rfl

/-- PRODUCER CENSUS (tools/gen_mongate.py: every function of channel.rs that creates a ChannelMonitorUpdate, with its class; a new or
    re-routed producer is a TRANSLATE-ERROR): while an earlier update of the channel is blocked, NO producer hands its update to
    chain::Watch — every site of every non-preimage class hands over nothing (for every blocked queue, hold flag and id), and a preimage
    producer hands over exactly the id of the FIRST blocked update (so the ids stay gap-free: claim_jump_keeps_ids_gap_free) -/
theorem no_producer_hands_over_while_blocked (s : String × String) (hs : s ∈ Gen.updateSites) (b : Nat) (bs : List Nat) (hold : Bool) (id : Nat) :
    (s.2 ≠ "preimage-jump" → s.2 ≠ "direct-close" → siteHandsOver s.2 (b :: bs) hold id = none) ∧
    (s.2 = "preimage-jump" → siteHandsOver s.2 (b :: bs) hold id = some b) := by
  simp only [Gen.updateSites, List.mem_cons, List.mem_nil_iff, or_false] at hs
  rcases hs with rfl | rfl | rfl | rfl | rfl | rfl | rfl | rfl | rfl | rfl | rfl | rfl <;>
    simp [siteHandsOver, Gen.pushBlockable, Gen.raaReleaseMonitor, Gen.claimJump]

example : siteHandsOver "queued" [] false 9 = some 9 ∧ siteHandsOver "raa-release-monitor" [] true 9 = none ∧ siteHandsOver "raa-release-monitor" [] false 9 = some 9 := by decide

/-- … the interactive-tx / splice producers (RenegotiatedFunding, RenegotiatedFundingLocked) and the ShutdownScript producers are all of
    the queueing class; channelmanager.rs builds updates itself only for closed channels / at start-up (no blocked queue exists there) and
    chain::Watch::update_channel has exactly one caller, handle_new_monitor_update_locked_actions_handled_by_caller (translated: mgrNewUpdate) -/
theorem funding_step_producers_queue :
    (∀ st ∈ Gen.stepSites, ∀ f ∈ st.2, (f, "queued") ∈ Gen.updateSites) ∧
    (∀ s ∈ Gen.managerSites, s.2 = "closed-channel" ∨ s.2 = "startup-replay") ∧
    Gen.watchUpdateCallers = ["handle_new_monitor_update_locked_actions_handled_by_caller"] := by decide

example : ("RenegotiatedFunding", ["splice_initial_commitment_signed"]) ∈ Gen.stepSites := by decide

/-- check_get_channel_ready (translated guard chain): a channel_ready that is due while a monitor update is in progress is
    ALWAYS recorded in monitor_pending_channel_ready (whether or not the peer is connected), and it is produced at once only
    when no update is in progress and the peer is connected. -/
theorem channel_ready_due_recorded_or_sent (inProgress disconnected : Bool) :
    (inProgress = true → Gen.checkReady inProgress disconnected = (true, false)) ∧
    ((Gen.checkReady inProgress disconnected).2 = true → inProgress = false ∧ disconnected = false) := by
  cases inProgress <;> cases disconnected <;> decide

example : Gen.checkReady false false = (false, true) := by decide

/-- channel_reestablish (translated hold-back decisions): while a monitor update is in progress neither revoke_and_ack nor
    commitment_signed is retransmitted — the matching monitor_pending flag is set instead — and in state AwaitingChannelReady no
    channel_ready is sent. (The retransmission in state ChannelReady is NOT guarded in the code: KF-C09-1, see below.) -/
theorem reestablish_holds_back_while_in_progress (blockedNonempty ourReady : Bool) :
    Gen.reestRaa true blockedNonempty = (some true, false) ∧ Gen.reestCs true blockedNonempty = (some true, false) ∧
    Gen.reestAwaitingReadyHeld ourReady true = true := by
  cases blockedNonempty <;> cases ourReady <;> decide

/-- KF-C09-1 as a statement about the translated code: the channel_ready retransmission of channel_reestablish in state
    ChannelReady does not look at MonitorUpdateInProgress. -/
theorem reestablish_ready_resend_ignores_monitor_state_partial (a b c : Bool) :
    Gen.reestReadyResent a b c true = Gen.reestReadyResent a b c false := by
  cases a <;> cases b <;> cases c <;> decide

example : (Gate.step { Chan.init 0 with paused := true, cmPending := [0] } (.reestablish false false 2)).2 = [.readyResent] := by decide

/-- get_update_fulfill_htlc_and_commit (translated renumbering): when a preimage update jumps a queue of blocked updates whose
    ids are `n, n+1, …`, it takes id `n` and the queue becomes `n+1, n+2, …` — ids stay gap-free and strictly increasing for ANY
    queue length; with an empty queue it keeps its own id. -/
theorem claim_jump_keeps_ids_gap_free (n len own : Nat) :
    Gen.claimJump (List.range' n len) own = (if len = 0 then own else n, List.range' (n + 1) len) := by
  cases len with
  | zero => simp [Gen.claimJump]
  | succ m =>
    simp only [Gen.claimJump, List.range'_succ, List.map_cons, Nat.succ_ne_zero, if_false]
    refine Prod.ext (by simp) ?_
    simp only [List.map_cons]
    congr 1
    have : ∀ (m s : Nat), List.map (fun x => x + 1) (List.range' s m) = List.range' (s + 1) m := by
      intro m
      induction m with
      | zero => intro s; rfl
      | succ j ih => intro s; simp only [List.range'_succ, List.map_cons, ih]
    exact this m (n + 1)

example : Gen.claimJump [8, 9, 10] 11 = (8, [9, 10, 11]) := by decide

/-- revoke_and_ack (translated): whichever of its three monitor_updating_paused calls is taken, the three held vectors are
    passed on, a commitment_signed is recorded as owed exactly when one was built, and no revoke_and_ack / channel_ready is. -/
theorem raa_pause_args (freed rc : Bool) (fw fl ff : List Nat) :
    Gen.raaPauseArgs freed rc fw fl ff = ((false, freed || rc, false), (fw, fl, ff)) := by
  cases freed <;> cases rc <;> rfl

/-- monitor_updating_paused (translated) never clears an owed message and never drops a held item. -/
theorem paused_is_monotone (p : Gen.Pend) (a b c : Bool) (fw fl ff : List Nat) :
    let q := Gen.paused p a b c fw fl ff
    (p.raa = true → q.raa = true) ∧ (p.cs = true → q.cs = true) ∧ (p.ready = true → q.ready = true) ∧
    q.fwds = p.fwds ++ fw ∧ q.fails = p.fails ++ fl ∧ q.fulfills = p.fulfills ++ ff ∧ q.adds = p.adds ∧ Gen.pausedSetsInProgress = true := by
  refine ⟨?_, ?_, ?_, rfl, rfl, rfl, rfl, rfl⟩ <;> intro h <;> simp [Gen.paused, h]

example : (Gen.paused { Gen.Pend.empty with raa := true, fails := [1] } false true false [] [2] []).fails = [1, 2] := by decide

/-- Every NON-preimage update is queued behind held (blocked) updates, never handed to chain::Watch ahead of them: for every
    state with a non-empty blocked queue, a received commitment_signed, a received revoke_and_ack (held or not), a send and any
    other producer of the source census (`Gen.updateSites`: shutdown / get_shutdown / splice …, all of class "queued" — pinned by
    tools/gen_mongate.py, TRANSLATE-ERROR when a site stops going through push_ret_blockable_mon_update) hand NOTHING over and
    append their id at the END of the queue. Only the preimage update of a claim may jump (claim_jump_keeps_ids_gap_free). -/
theorem non_preimage_updates_queue_behind_held (c : Chan) (h : c.blocked ≠ []) :
    (∀ nc ar ip, (Gate.step c (.csRecv nc ar ip)).2 = [] ∧ (Gate.step c (.csRecv nc ar ip)).1.blocked = c.blocked ++ [c.latest + 1]) ∧
    (∀ f rc hold a fw fl ff ip, (Gate.step c (.raaRecv f rc hold a fw fl ff ip)).2 = [] ∧
        (Gate.step c (.raaRecv f rc hold a fw fl ff ip)).1.blocked = c.blocked ++ [c.latest + 1]) ∧
    (∀ ip, (Gate.step c (.other ip)).2 = [] ∧ (Gate.step c (.other ip)).1.blocked = c.blocked ++ [c.latest + 1]) ∧
    (∀ ip, c.paused = false → c.disconnected = false →
        (Gate.step c (.send ip)).2 = [] ∧ (Gate.step c (.send ip)).1.blocked = c.blocked ++ [c.latest + 1]) := by
  have hne : c.blocked.isEmpty = false := by
    cases hb : c.blocked with
    | nil => exact absurd hb h
    | cons x xs => rfl
  have hq : ∀ (c1 : Chan) (id : Nat) (ip : Bool), c1.blocked = c.blocked →
      (queueOrHand c1 id ip).2 = [] ∧ (queueOrHand c1 id ip).1.blocked = c.blocked ++ [id] := by
    intro c1 id ip hb
    simp [queueOrHand, Gen.pushBlockable, hb, hne]
  refine ⟨?_, ?_, ?_, ?_⟩
  · intro nc ar ip
    simp only [Gate.step]
    apply hq
    unfold csPre
    split <;> rfl
  · intro f rc hold a fw fl ff ip
    simp [Gate.step, Gen.raaReleaseMonitor, hne, pauseWith]
  · intro ip
    simp only [Gate.step]
    exact hq _ _ _ rfl
  · intro ip hp hd
    have hcan : (!c.canGenerateNewCommitment) = false := by
      simp [Gate.Chan.canGenerateNewCommitment, Ldk.CloseGate.Gen.canGenerateNewCommitment, Ldk.CloseGate.Gen.Flags.none, hp, hd]
    simp only [Gate.step, hcan, Bool.false_eq_true, if_false]
    exact hq _ _ _ rfl

example : (Gate.step { Chan.init 7 with blocked := [8], latest := 8, paused := true } (.other false)).1.blocked = [8, 9] := by decide
example : ∀ s ∈ Gen.updateSites, s.2 = "queued" ∨ s.2 = "preimage-jump" ∨ s.2 = "raa-release-monitor" ∨ s.2 = "inner" ∨ s.2 = "direct-close" := by decide

end GateModel


/-! ## The closing_signed gate (Model/CloseGate.lean over Generated/CloseGate.lean, re-translated from
   ChannelContext::closing_negotiation_ready — every ChannelState arm —, maybe_propose_closing_signed, the closing_signed handler and
   timer_check_closing_negotiation_progress on every run): `closing_signed` (which lets the peer broadcast a transaction paying to the
   script our monitor learns through the ShutdownScript ChannelMonitorUpdate) and the closing timer wait for in-flight updates, in every
   phase of a funded channel including before channel_ready. -/
section CloseGate
open Ldk.CloseGate Ldk.CloseGate.Gen

/-- THE decision (translated arm by arm from ChannelContext::closing_negotiation_ready), for EVERY ChannelState variant and EVERY
    flag assignment: the closing negotiation is "ready" only in a funded state in which both shutdowns were exchanged, no monitor
    update is in flight and the peer is connected. -/
theorem closing_ready_state_needs_no_update_in_flight (v : Nat) (f : Flags) (h : closingReadyState v f = true) :
    isMonitorUpdateInProgress v f = false ∧ isPeerDisconnected v f = false ∧ isBothSidesShutdown v f = true ∧ (v = 2 ∨ v = 3) := by
  unfold closingReadyState at h
  split at h <;> simp_all [isMonitorUpdateInProgress, isPeerDisconnected, isBothSidesShutdown, isLocalShutdownSent, isRemoteShutdownSent]

example : closingReadyState 2 { Flags.none with localShutdownSent := true, remoteShutdownSent := true, ourChannelReady := true } = true := by decide
example : closingReadyState 2 { Flags.none with localShutdownSent := true, remoteShutdownSent := true, monitorUpdateInProgress := true } = false := by decide

/-- … and conversely nothing else is required of the flags before channel_ready (the channel_ready / batch flags do not matter) -/
theorem closing_ready_state_awaiting_iff (f : Flags) :
    closingReadyState 2 f = (f.localShutdownSent && f.remoteShutdownSent && !f.monitorUpdateInProgress && !f.peerDisconnected) := by
  cases f; simp [closingReadyState]; grind

example : closingReadyState 2 { Flags.none with localShutdownSent := true, remoteShutdownSent := true, theirChannelReady := true, waitingForBatch := true } = true := by decide

/-- the r5 situation: AwaitingChannelReady, we are the funder, both `shutdown`s exchanged, the ShutdownScript update still in flight -/
def exAwaiting : Ldk.CloseGate.Chan :=
  { v := 2, f := { Flags.none with localShutdownSent := true, remoteShutdownSent := true, monitorUpdateInProgress := true }
    nIn := 0, nOut := 0, fee := false, lastSent := false, outbound := true, expCs := false, parked := false, timerOn := false }

theorem closing_ready_needs_no_update_in_flight (c : Chan) (h : c.ready = true) :
    c.inProgress = false ∧ c.disconnected = false ∧ isBothSidesShutdown c.v c.f = true ∧ c.nIn = 0 ∧ c.nOut = 0 ∧ c.fee = false := by
  simp only [Chan.ready, closingReady, Bool.and_eq_true] at h
  obtain ⟨⟨⟨h1, h2⟩, h3⟩, h4⟩ := h
  have := closing_ready_state_needs_no_update_in_flight c.v c.f h4
  simp_all [Chan.inProgress, Chan.disconnected]

example : exAwaiting.ready = false ∧ (setMon exAwaiting false).ready = true := by decide

/-- the handler of the peer's closing_signed answers only when no update is in flight (translated guard chain) -/
theorem closing_signed_gate_answers_only_when_quiet (ps bs pd ni no ftb ob ls ip : Bool) (h : closingSignedGate ps bs pd ni no ftb ob ls ip = 0) :
    ip = false ∧ pd = false ∧ bs = true := by
  unfold closingSignedGate at h
  cases ps <;> cases bs <;> cases pd <;> cases ni <;> cases no <;> cases ftb <;> cases ob <;> cases ls <;> cases ip <;> simp_all

example : closingSignedGate false true false true true false false false true = 2 := by decide

/-- one step: whatever releases a closing_signed does so from a state with no update in flight, a connected peer, both shutdowns -/
theorem step_closing_signed_quiet (c : Chan) (op : Op) (h : Out.closingSigned ∈ (Ldk.CloseGate.step c op).2) :
    c.inProgress = false ∧ c.disconnected = false ∧ isBothSidesShutdown c.v c.f = true := by
  have hrecv : ∀ (c' : Chan) ps ftb, c'.v = c.v → c'.f = c.f → Out.closingSigned ∈ (recvStep c' ps ftb).2 →
      c.inProgress = false ∧ c.disconnected = false ∧ isBothSidesShutdown c.v c.f = true := by
    intro c' ps ftb hv hf hm
    unfold recvStep at hm
    split at hm
    · rename_i hg
      have := closing_signed_gate_answers_only_when_quiet _ _ _ _ _ _ _ _ _ hg
      simp_all [Chan.inProgress, Chan.disconnected]
    · simp at hm
    · simp at hm
  cases op with
  | localShutdown upd ip => simp only [Ldk.CloseGate.step] at h; split at h <;> simp at h
  | remoteShutdown upd ip => simp only [Ldk.CloseGate.step] at h; split at h <;> simp at h
  | monitorDone => simp [Ldk.CloseGate.step] at h
  | disconnect => simp only [Ldk.CloseGate.step] at h; split at h <;> simp at h
  | reconnect => simp [Ldk.CloseGate.step] at h
  | tick => simp only [Ldk.CloseGate.step] at h; split at h <;> simp at h
  | recv ps ftb => exact hrecv c ps ftb rfl rfl (by simpa [Ldk.CloseGate.step] using h)
  | poll =>
    simp only [Ldk.CloseGate.step] at h
    split at h
    · rename_i hg
      have hr : c.ready = true := by
        unfold proposeGate at hg
        cases hl : c.lastSent <;> cases hr : c.ready <;> simp_all
      have := closing_ready_needs_no_update_in_flight c hr
      exact ⟨this.1, this.2.1, this.2.2.1⟩
    · exact hrecv { c with parked := false } false false rfl rfl h
    · simp at h

example : (Ldk.CloseGate.step exAwaiting .poll).2 = [] ∧ (Ldk.CloseGate.step (setMon exAwaiting false) .poll).2 = [.closingSigned] := by decide

/-- WHOLE HISTORIES: for every start state and every sequence of shutdowns, completions, disconnections, polls, received
    closing_signed and timer ticks, every closing_signed is released from a state in which no monitor update is in flight. -/
theorem closing_signed_never_released_while_update_in_flight (c : Chan) (ops : List Op) :
    ∀ p ∈ Ldk.CloseGate.run c ops, p.2 = Out.closingSigned → p.1.inProgress = false ∧ p.1.disconnected = false ∧ isBothSidesShutdown p.1.v p.1.f = true := by
  induction ops generalizing c with
  | nil => intro p hp; simp [Ldk.CloseGate.run] at hp
  | cons op ops ih =>
    intro p hp he
    simp only [Ldk.CloseGate.run, List.mem_append, List.mem_map] at hp
    rcases hp with ⟨o, ho, rfl⟩ | hp
    · simp only at he; subst he
      exact step_closing_signed_quiet c op ho
    · exact ih _ p hp he

-- held while in flight, released exactly once when the update completes; the fundee parks the peer's closing_signed meanwhile
example : (Ldk.CloseGate.run exAwaiting [.poll, .tick, .poll, .monitorDone, .poll, .poll]).map (·.2) = [.closingSigned] := by decide
example : (Ldk.CloseGate.run { exAwaiting with outbound := false } [.recv false false, .poll, .monitorDone, .poll]).map (·.2) = [.parked, .closingSigned] := by decide

/-- the closing timer (two ticks → force close) does not run while an update is in flight / the peer is disconnected -/
theorem closing_timer_idle_while_update_in_flight (c : Chan) (h : c.inProgress = true ∨ c.disconnected = true) :
    Ldk.CloseGate.step c .tick = (c, []) := by
  have hr : c.ready = false := by
    cases hc : c.ready
    · rfl
    · have := closing_ready_needs_no_update_in_flight c hc
      rcases h with h | h <;> simp_all
  simp [Ldk.CloseGate.step, timerGate, hr]

example : (Ldk.CloseGate.step exAwaiting .tick).1.timerOn = false ∧ (Ldk.CloseGate.run (setMon exAwaiting false) [.tick, .tick]).map (·.2) = [.timeout] := by decide

/-- the send-side gate (ChannelState::can_generate_new_commitment, translated; consulted by send_htlc, send_update_fee, fail_htlc,
    get_update_fulfill_htlc, maybe_free_holding_cell_htlcs, revoke_and_ack): a new commitment is generated only in state ChannelReady with
    no monitor update in flight and a connected peer — for every variant and every flag assignment -/
theorem new_commitment_needs_no_update_in_flight (v : Nat) (f : Flags) (h : canGenerateNewCommitment v f = true) :
    isMonitorUpdateInProgress v f = false ∧ isPeerDisconnected v f = false ∧ v = 3 := by
  unfold canGenerateNewCommitment at h
  split at h <;> simp_all [isMonitorUpdateInProgress, isPeerDisconnected]

example : canGenerateNewCommitment 3 Flags.none = true ∧ canGenerateNewCommitment 3 { Flags.none with monitorUpdateInProgress := true } = false
    ∧ canGenerateNewCommitment 2 Flags.none = false := by decide

/-- `Gate.step (.send _)` in Model/MonGate.lean CALLS the translated predicate (no hand-mirrored guard); on the two flags the Gate model
    tracks it says: nothing is sent while paused or disconnected — dropping a flag from can_generate_new_commitment breaks this theorem -/
theorem gate_send_blocked_iff_cannot_generate (c : Ldk.MonGate.Gate.Chan) :
    (c.paused || c.disconnected) = !c.canGenerateNewCommitment := by
  cases hp : c.paused <;> cases hd : c.disconnected <;>
    simp [Ldk.MonGate.Gate.Chan.canGenerateNewCommitment, canGenerateNewCommitment, Flags.none, hp, hd]

theorem gate_send_held_when_cannot_generate (c : Ldk.MonGate.Gate.Chan) (ip : Bool) (h : c.paused = true ∨ c.disconnected = true) :
    Ldk.MonGate.Gate.step c (.send ip) = (c, []) := by
  have := gate_send_blocked_iff_cannot_generate c
  have h2 : (!c.canGenerateNewCommitment) = true := by rw [← this]; rcases h with h | h <;> simp [h]
  simp [Ldk.MonGate.Gate.step, h2]

example : (Ldk.MonGate.Gate.step { Ldk.MonGate.Gate.Chan.init 7 with paused := true } (.send false)).2 = [] ∧
    (Ldk.MonGate.Gate.step (Ldk.MonGate.Gate.Chan.init 7) (.send true)).2 = [.handed 8 true] := by decide

/-- "once completions arrive exactly the held message is released": the funder's closing_signed that was held only by the in-flight update
    (both shutdowns exchanged, peer connected, nothing pending, variant 2 or 3 with no other blocking flag) leaves at the first poll after
    `monitorDone`, and a further poll releases nothing more -/
theorem held_closing_signed_released_exactly_once (c : Chan)
    (hready : (setMon c false).ready = true) (hout : c.outbound = true) (hlast : c.lastSent = false) (hexp : c.expCs = false) :
    Ldk.CloseGate.run c [.monitorDone, .poll, .poll] = [(setMon c false, .closingSigned)] := by
  have hv : c.v = 2 ∨ c.v = 3 := by
    have hr := hready
    simp only [Chan.ready, closingReady, Bool.and_eq_true] at hr
    exact (closing_ready_state_needs_no_update_in_flight (setMon c false).v (setMon c false).f hr.2).2.2.2
  have h1 : Ldk.CloseGate.step c .monitorDone = (setMon c false, []) := by
    rcases hv with hv | hv <;>
      simp [Ldk.CloseGate.step, restored, restoredWrites, clearMonitorUpdateInProgress, setMon, hv]
  have hg : proposeGate (setMon c false).lastSent (setMon c false).ready (setMon c false).outbound (setMon c false).expCs (setMon c false).parked = 1 := by
    have e1 : (setMon c false).lastSent = false := hlast
    have e2 : (setMon c false).outbound = true := hout
    have e3 : (setMon c false).expCs = false := hexp
    simp [proposeGate, e1, e2, e3, hready]
  have h2 : Ldk.CloseGate.step (setMon c false) .poll = ({ setMon c false with lastSent := true }, [.closingSigned]) := by
    simp only [Ldk.CloseGate.step, hg]
  have h3 : Ldk.CloseGate.step { setMon c false with lastSent := true } .poll = ({ setMon c false with lastSent := true }, []) := by
    simp [Ldk.CloseGate.step, proposeGate]
  simp [Ldk.CloseGate.run, h1, h2, h3]

example : Ldk.CloseGate.run exAwaiting [.monitorDone, .poll, .poll] = [(setMon exAwaiting false, .closingSigned)] :=
  held_closing_signed_released_exactly_once exAwaiting (by decide) rfl rfl rfl

/-- get_shutdown (translated chain of refusals): a LOCAL shutdown is never started on top of an in-flight monitor update or towards a
    disconnected peer, nor twice, nor after the peer's — in every variant, for every flag assignment; and a refused call changes nothing -/
theorem get_shutdown_refused_while_update_in_flight (v : Nat) (f : Flags) (a b o : Bool)
    (h : isMonitorUpdateInProgress v f = true ∨ isPeerDisconnected v f = true ∨ isLocalShutdownSent v f = true ∨ isRemoteShutdownSent v f = true) :
    getShutdownRefused v f a b o = true := by
  unfold getShutdownRefused
  rcases h with h | h | h | h <;> simp [h]

theorem refused_local_shutdown_changes_nothing (c : Chan) (upd ip : Bool) (h : c.inProgress = true ∨ c.disconnected = true) :
    Ldk.CloseGate.step c (.localShutdown upd ip) = (c, [.refused]) := by
  have : getShutdownRefused c.v c.f false false false = true :=
    get_shutdown_refused_while_update_in_flight c.v c.f false false false (by
      rcases h with h | h
      · exact Or.inl h
      · exact Or.inr (Or.inl h))
  simp [Ldk.CloseGate.step, this]

example : getShutdownRefused 3 Flags.none false false false = false ∧ getShutdownRefused 2 Flags.none false false false = false ∧
    (Ldk.CloseGate.step exAwaiting (.localShutdown true true)).2 = [.refused] := by decide

/-! ### Round 6: the WRITES of the actions are translated too (Generated/CloseGate.lean "EFFECTS": get_shutdown, shutdown,
   monitor_updating_paused / _restored, remove_uncommitted_htlcs_and_mark_paused, channel_reestablish, and the pinned census of every
   site of channel.rs that writes a flag / field the closing gate reads).  What follows is proved THROUGH those translated writes. -/

/-- none of the translated writes of get_shutdown, shutdown (the peer's), channel_reestablish or a disconnection touches
    MONITOR_UPDATE_IN_PROGRESS; monitor_updating_paused sets it in every funded variant — for every variant and flag assignment -/
theorem only_completion_clears_in_flight_mark (v : Nat) (f : Flags) :
    isMonitorUpdateInProgress v (getShutdownWrites v f) = isMonitorUpdateInProgress v f ∧
    isMonitorUpdateInProgress v (shutdownWrites v f) = isMonitorUpdateInProgress v f ∧
    isMonitorUpdateInProgress v (reestablishWrites v f) = isMonitorUpdateInProgress v f ∧
    isMonitorUpdateInProgress v (disconnectWrites v f) = isMonitorUpdateInProgress v f ∧
    isMonitorUpdateInProgress v (pausedWrites v f) = (v == 1 || v == 2 || v == 3) := by
  by_cases hv : (v == 1 || v == 2 || v == 3) = true <;>
    simp [getShutdownWrites, shutdownWrites, reestablishWrites, disconnectWrites, pausedWrites, setLocalShutdownSent,
      setRemoteShutdownSent, clearPeerDisconnected, setPeerDisconnected, setMonitorUpdateInProgress, isMonitorUpdateInProgress, hv]

example : isMonitorUpdateInProgress 2 (restoredWrites 2 exAwaiting.f) = false ∧ isMonitorUpdateInProgress 2 (shutdownWrites 2 exAwaiting.f) = true := by decide

/-- what the translated writes DO set: our shutdown marks LOCAL_SHUTDOWN_SENT, the peer's marks both sides (we answer at once), a
    completion clears the in-flight mark — in every funded variant (elsewhere the setters of impl_state_flag! do nothing) -/
theorem shutdown_writes_mark_both_sides (v : Nat) (f : Flags) :
    isLocalShutdownSent v (getShutdownWrites v f) = (v == 1 || v == 2 || v == 3) ∧
    isBothSidesShutdown v (shutdownWrites v f) = (v == 1 || v == 2 || v == 3) ∧
    isMonitorUpdateInProgress v (restoredWrites v f) = false ∧
    (getShutdownRefused v (shutdownWrites v f) false false false = false → (v == 1 || v == 2 || v == 3) = false) := by
  by_cases hv : (v == 1 || v == 2 || v == 3) = true <;>
    simp [getShutdownWrites, shutdownWrites, restoredWrites, setLocalShutdownSent, setRemoteShutdownSent, clearMonitorUpdateInProgress,
      isLocalShutdownSent, isRemoteShutdownSent, isBothSidesShutdown, isMonitorUpdateInProgress, getShutdownRefused, hv]

example : isBothSidesShutdown 2 (shutdownWrites 2 Flags.none) = true ∧ isBothSidesShutdown 0 (shutdownWrites 0 Flags.none) = false := by decide

/-- … and they leave PEER_DISCONNECTED alone, except the disconnection (sets it) and the re-establishment (clears it) -/
theorem writes_keep_disconnected_mark (v : Nat) (f : Flags) :
    isPeerDisconnected v (getShutdownWrites v f) = isPeerDisconnected v f ∧
    isPeerDisconnected v (shutdownWrites v f) = isPeerDisconnected v f ∧
    isPeerDisconnected v (pausedWrites v f) = isPeerDisconnected v f ∧
    isPeerDisconnected v (restoredWrites v f) = isPeerDisconnected v f ∧
    isPeerDisconnected v (reestablishWrites v f) = false ∧
    isPeerDisconnected v (disconnectWrites v f) = (v == 1 || v == 2 || v == 3) := by
  by_cases hv : (v == 1 || v == 2 || v == 3) = true <;>
    simp [getShutdownWrites, shutdownWrites, reestablishWrites, disconnectWrites, pausedWrites, restoredWrites, setLocalShutdownSent,
      setRemoteShutdownSent, clearPeerDisconnected, setPeerDisconnected, setMonitorUpdateInProgress, clearMonitorUpdateInProgress,
      isPeerDisconnected, hv]

example : isPeerDisconnected 3 (disconnectWrites 3 Flags.none) = true ∧ isPeerDisconnected 3 (reestablishWrites 3 (disconnectWrites 3 Flags.none)) = false := by decide

private theorem recvStep_keeps_state (c : Chan) (ps ftb : Bool) : (recvStep c ps ftb).1.v = c.v ∧ (recvStep c ps ftb).1.f = c.f := by
  unfold recvStep; split <;> simp

private theorem shutdownUpdate_in_flight (c : Chan) (ip : Bool) (h : c.inProgress = true) : (shutdownUpdate c ip).inProgress = true := by
  have hv : (c.v == 1 || c.v == 2 || c.v == 3) = true := by
    simp only [Chan.inProgress, isMonitorUpdateInProgress, Bool.and_eq_true] at h; exact h.1
  have hp : (paused c).inProgress = true := by
    simp only [paused, Chan.inProgress, (only_completion_clears_in_flight_mark c.v c.f).2.2.2.2]; exact hv
  unfold shutdownUpdate
  rw [if_pos (by simp [h])]; exact hp

private theorem shutdownUpdate_keeps (c : Chan) (ip : Bool) :
    (shutdownUpdate c ip).disconnected = c.disconnected ∧ (shutdownUpdate c ip).lastSent = c.lastSent ∧ (shutdownUpdate c ip).parked = c.parked := by
  have D := writes_keep_disconnected_mark c.v c.f
  have D' := writes_keep_disconnected_mark c.v (pausedWrites c.v c.f)
  unfold shutdownUpdate
  split <;> simp [paused, restored, Chan.disconnected, D.2.2.1, D'.2.2.2.1]

/-- ONE STEP: no action other than the completion of the monitor updates lifts the in-flight mark — not a second shutdown, not a
    disconnection / reconnection, not a poll, a received closing_signed or a timer tick -/
theorem in_flight_mark_lifted_only_by_completion (c : Chan) (op : Op) (hop : op ≠ .monitorDone) (h : c.inProgress = true) :
    (Ldk.CloseGate.step c op).1.inProgress = true := by
  have W := only_completion_clears_in_flight_mark c.v c.f
  cases op with
  | monitorDone => exact absurd rfl hop
  | localShutdown upd ip =>
    simp only [Ldk.CloseGate.step]
    split
    · exact h
    · have h1 : ({ c with f := getShutdownWrites c.v c.f } : Chan).inProgress = true := by simpa [Chan.inProgress, W.1] using h
      cases upd
      · simpa using h1
      · simpa using shutdownUpdate_in_flight _ ip h1
  | remoteShutdown upd ip =>
    simp only [Ldk.CloseGate.step]
    split
    · exact h
    · have h1 : ({ c with f := shutdownWrites c.v c.f } : Chan).inProgress = true := by simpa [Chan.inProgress, W.2.1] using h
      cases upd
      · simpa using h1
      · simpa using shutdownUpdate_in_flight _ ip h1
  | disconnect =>
    simp only [Ldk.CloseGate.step]
    split
    · exact h
    · simpa [Chan.inProgress, W.2.2.2.1] using h
  | reconnect => simpa [Ldk.CloseGate.step, Chan.inProgress, W.2.2.1] using h
  | recv ps ftb =>
    have k := recvStep_keeps_state c ps ftb
    simp only [Ldk.CloseGate.step, Chan.inProgress, k.1, k.2]; exact h
  | poll =>
    simp only [Ldk.CloseGate.step]
    split
    · exact h
    · have k := recvStep_keeps_state { c with parked := false } false false
      simp only [Chan.inProgress, k.1, k.2]; exact h
    · exact h
  | tick => simpa [Ldk.CloseGate.step, Chan.inProgress] using h

example : (Ldk.CloseGate.step exAwaiting .disconnect).1.inProgress = true ∧ (Ldk.CloseGate.step exAwaiting .monitorDone).1.inProgress = false := by decide

/-- WHOLE HISTORIES: from a state with an update in flight, NO sequence of shutdowns, disconnections, reconnections, polls, received
    closing_signed and timer ticks that does not contain the completion releases a closing_signed -/
theorem nothing_but_completion_unlocks_closing_signed (c : Chan) (ops : List Op) (h : c.inProgress = true) (hno : Op.monitorDone ∉ ops) :
    ∀ p ∈ Ldk.CloseGate.run c ops, p.2 ≠ Out.closingSigned := by
  induction ops generalizing c with
  | nil => intro p hp; simp [Ldk.CloseGate.run] at hp
  | cons op ops ih =>
    intro p hp
    simp only [Ldk.CloseGate.run, List.mem_append, List.mem_map] at hp
    rcases hp with ⟨o, ho, rfl⟩ | hp
    · intro he
      simp only at he; subst he
      have := (step_closing_signed_quiet c op ho).1
      simp [h] at this
    · have hop : op ≠ .monitorDone := fun e => hno (by simp [e])
      exact ih _ (in_flight_mark_lifted_only_by_completion c op hop h) (fun hm => hno (List.mem_cons_of_mem _ hm)) p hp

example : (Ldk.CloseGate.run exAwaiting [.poll, .disconnect, .reconnect, .tick, .poll, .recv false false]).map (·.2) = [.refused] := by decide

/-- shutdown (the peer's; translated chain of refusals): refused while we wait for a channel_reestablish, before the funding could have
    been broadcast, in quiescence — and a refused shutdown changes nothing (every write follows the last refusal) -/
theorem shutdown_refused_when_disconnected_or_unfunded (v : Nat) (f : Flags) (a b s : Bool)
    (h : isPeerDisconnected v f = true ∨ v = 0 ∨ isQuiescent v f = true ∨ isLocalStfuSent v f = true ∨ isRemoteStfuSent v f = true) :
    shutdownRefused v f a b s = true := by
  unfold shutdownRefused
  rcases h with h | h | h | h | h <;> simp [h]

theorem refused_remote_shutdown_changes_nothing (c : Chan) (upd ip : Bool) (h : c.disconnected = true) :
    Ldk.CloseGate.step c (.remoteShutdown upd ip) = (c, [.refused]) := by
  have : shutdownRefused c.v c.f false false false = true :=
    shutdown_refused_when_disconnected_or_unfunded c.v c.f false false false (Or.inl h)
  simp [Ldk.CloseGate.step, this]

example : shutdownRefused 2 exAwaiting.f false false false = false ∧ shutdownRefused 3 (disconnectWrites 3 Flags.none) false false false = true := by decide

/-- the closing dance restarts on a disconnection (translated: last_sent_closing_fee = None, pending_counterparty_closing_signed = None
    before set_peer_disconnected; early return when already disconnected).  Invariant: while the peer is disconnected no closing_signed
    of ours counts as sent and none of the peer's is parked -/
def DanceForgotten (c : Chan) : Prop := c.disconnected = true → c.lastSent = false ∧ c.parked = false

theorem step_keeps_dance_forgotten (c : Chan) (op : Op) (h : DanceForgotten c) : DanceForgotten (Ldk.CloseGate.step c op).1 := by
  have D := writes_keep_disconnected_mark c.v c.f
  have hrecv : ∀ (c' : Chan) ps ftb, DanceForgotten c' → DanceForgotten (recvStep c' ps ftb).1 := by
    intro c' ps ftb h' hd
    have k := recvStep_keeps_state c' ps ftb
    have hd' : c'.disconnected = true := by simpa [Chan.disconnected, k.1, k.2] using hd
    have hg : closingSignedGate ps (isBothSidesShutdown c'.v c'.f) c'.disconnected (c'.nIn == 0) (c'.nOut == 0) ftb c'.outbound c'.lastSent c'.inProgress = 1 := by
      rw [hd']; unfold closingSignedGate
      cases ps <;> cases (isBothSidesShutdown c'.v c'.f) <;> simp
    have : recvStep c' ps ftb = (c', [.refused]) := by simp [recvStep, hg]
    rw [this]; exact h' hd'
  cases op with
  | localShutdown upd ip =>
    simp only [Ldk.CloseGate.step]
    split
    · exact h
    · rename_i hr
      intro hd
      have hnd : c.disconnected = false := by
        cases hc : c.disconnected
        · rfl
        · exact absurd (get_shutdown_refused_while_update_in_flight c.v c.f false false false (Or.inr (Or.inl hc))) hr
      have h1 : ({ c with f := getShutdownWrites c.v c.f } : Chan).disconnected = false := by simpa [Chan.disconnected, D.1] using hnd
      cases upd
      · simp [h1] at hd
      · simp [(shutdownUpdate_keeps _ ip).1, h1] at hd
  | remoteShutdown upd ip =>
    simp only [Ldk.CloseGate.step]
    split
    · exact h
    · rename_i hr
      intro hd
      have hnd : c.disconnected = false := by
        cases hc : c.disconnected
        · rfl
        · exact absurd (shutdown_refused_when_disconnected_or_unfunded c.v c.f false false false (Or.inl hc)) hr
      have h1 : ({ c with f := shutdownWrites c.v c.f } : Chan).disconnected = false := by simpa [Chan.disconnected, D.2.1] using hnd
      cases upd
      · simp [h1] at hd
      · simp [(shutdownUpdate_keeps _ ip).1, h1] at hd
  | monitorDone =>
    intro hd
    have : c.disconnected = true := by simpa [Ldk.CloseGate.step, restored, Chan.disconnected, D.2.2.2.1] using hd
    simpa [Ldk.CloseGate.step, restored] using h this
  | disconnect =>
    simp only [Ldk.CloseGate.step]
    split
    · exact h
    · intro _; simp [disconnectLastSent, disconnectParked]
  | reconnect =>
    intro hd
    simp [Ldk.CloseGate.step, Chan.disconnected, D.2.2.2.2.1] at hd
  | recv ps ftb => exact hrecv c ps ftb h
  | poll =>
    simp only [Ldk.CloseGate.step]
    split
    · rename_i hg
      intro hd
      have hd' : c.disconnected = true := by simpa [Chan.disconnected] using hd
      have hr : c.ready = false := by
        cases hc : c.ready
        · rfl
        · have := (closing_ready_needs_no_update_in_flight c hc).2.1; simp [hd'] at this
      simp [proposeGate, hr] at hg
    · rename_i hg
      intro hd
      have k := recvStep_keeps_state { c with parked := false } false false
      have hd' : c.disconnected = true := by simpa [Chan.disconnected, k.1, k.2] using hd
      have hr : c.ready = false := by
        cases hc : c.ready
        · rfl
        · have := (closing_ready_needs_no_update_in_flight c hc).2.1; simp [hd'] at this
      simp [proposeGate, hr] at hg
    · exact h
  | tick =>
    intro hd
    have : c.disconnected = true := by simpa [Ldk.CloseGate.step, Chan.disconnected] using hd
    simpa [Ldk.CloseGate.step] using h this

/-- WHOLE HISTORIES: after every sequence of actions, a channel whose peer is disconnected has forgotten the closing dance — so neither a
    stale `last_sent_closing_fee` nor a closing_signed parked behind an in-flight update survives into the next connection -/
theorem dance_forgotten_while_disconnected (c : Chan) (ops : List Op) (h : DanceForgotten c) :
    DanceForgotten (ops.foldl (fun c op => (Ldk.CloseGate.step c op).1) c) := by
  induction ops generalizing c with
  | nil => exact h
  | cons op ops ih => exact ih _ (step_keeps_dance_forgotten c op h)

-- the fundee parks the peer's closing_signed behind the in-flight update; a disconnection drops it; after the completion nothing is owed
example : ([Op.recv false false, .disconnect, .reconnect, .monitorDone].foldl (fun c op => (Ldk.CloseGate.step c op).1) { exAwaiting with outbound := false }).parked = false ∧
    (Ldk.CloseGate.step { exAwaiting with outbound := false } (.recv false false)).1.parked = true := by decide
example : DanceForgotten exAwaiting := by intro h; exact absurd h (by decide)

/-- interactive-tx / splice (translated guards): while the update that records the counterparty's initial post-splice commitment
    (splice_initial_commitment_signed: pause + monitor_pending_tx_signatures) is in flight, NEITHER the tx_signatures handler NOR
    signer_maybe_unblocked releases our tx_signatures — whatever the signer state; they are owed to monitor_updating_restored,
    which withholds them only for a pending signer -/
theorem tx_signatures_wait_for_monitor_update (signerPending : Bool) :
    txSignaturesHeld true spliceCsMarksTxSignaturesPending signerPending = true ∧
    signerUnblockReleasesTxSignatures true signerPending = false ∧
    (signerUnblockReleasesTxSignatures false signerPending = true → signerPending = false) ∧
    restoredWithholdsTxSignatures false = false := by
  cases signerPending <;> decide

example : txSignaturesHeld false true false = false ∧ signerUnblockReleasesTxSignatures false false = true := by decide

end CloseGate
end Ldk.C09
