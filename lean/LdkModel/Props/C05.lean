/- C05 — Revoked state is never used and state is never revoked early.
   THIS SECTION: the revocation-secret store that underlies
     C05 "every secret received from the peer is checked … and stored" and
     C06 "any revoked commitment, from any point in the channel's history … the monitor can derive
          its secret".
   Property theorems only; the model is Model/Secrets.lean (mirrors
   `CounterpartyCommitmentSecrets` and `build_commitment_secret` of lightning/src/ln/chan_utils.rs),
   helper lemmas are in Proofs/Secrets.lean.

   Every theorem is for an ARBITRARY index width `B` (the code is the instance `B = 48`, 49 slots,
   `Params48`), an arbitrary secret type, an arbitrary `flip` and an arbitrary hash `H`; nothing is
   enumerated.  Where a cryptographic property is needed (`secret_store_rejects`) it is a
   hypothesis (injectivity of flip-then-hash), never an axiom. -/
import LdkModel.Proofs.Secrets
import LdkModel.Proofs.RaaGate
import LdkModel.Proofs.HolderGate
import LdkModel.Generated.RaaRelease
import LdkModel.Props.ChanProto
namespace Ldk.C05
open Ldk.Secrets

variable {S : Type} [DecidableEq S]

/-- the sender's (BOLT-3 `generate_from_seed`) per-commitment secret of commitment number `i` -/
def secretFor (P : Params S) (seed : S) (i : Nat) : S := buildCommitmentSecret P seed i

/-- Provide the sender's secrets for the indices `2^B − 1, 2^B − 2, …, 2^B − k`, in this
    (descending, = channel) order, to a fresh store; `none` as soon as one step is refused. -/
def insertDesc (P : Params S) (seed : S) : Nat → Option (Store S)
  | 0 => some (Store.new P)
  | k + 1 => (insertDesc P seed k).bind fun st =>
      provideSecret P st (2 ^ P.B - (k + 1)) (secretFor P seed (2 ^ P.B - (k + 1)))

omit [DecidableEq S] in
/-- The algebraic core: the secret of an index `i` whose `p` low bits are clear yields, through
    the receiver's `derive_secret(·, p, j)`, the sender's secret of every `j` that agrees with `i`
    from bit `p` up.  (Induction on the bits of the recursive generator.) -/
theorem derivation_identity (P : Params S) (seed : S) (i j p : Nat) (hp : p ≤ P.B)
    (hi : i % 2 ^ p = 0) (hij : j / 2 ^ p = i / 2 ^ p) :
    deriveSecret P (secretFor P seed i) p j = secretFor P seed j :=
  derive_build P seed i j p hp hi hij

/-- Slot-invariant preservation (`Inv` = "slot `p` is empty, or holds the sender's secret of the
    smallest inserted index with exactly `p` trailing zeros, `p` capped at `B`"): if the invariant
    holds after inserting everything in `[m+1, 2^B)`, then the next secret `m` is accepted, goes
    to slot `place_secret(m)`, and the invariant holds for `[m, 2^B)`. -/
theorem slot_invariant_preserved (P : Params S) (seed : S) (m : Nat) (st : Store S)
    (h : Inv P seed (m + 1) st) (hm : m < 2 ^ P.B) :
    ∃ st', provideSecret P st m (secretFor P seed m) = some st' ∧ Inv P seed m st' :=
  ⟨_, (h.step hm).1, (h.step hm).2⟩

/-- every prefix of the descending sequence is accepted and leaves the invariant -/
theorem insertDesc_inv (P : Params S) (seed : S) : ∀ k, k ≤ 2 ^ P.B →
    ∃ st, insertDesc P seed k = some st ∧ Inv P seed (2 ^ P.B - k) st := by
  intro k
  induction k with
  | zero => intro _; exact ⟨_, rfl, by simpa using Inv_new P seed⟩
  | succ k ih =>
    intro hk
    obtain ⟨st, hst, hinv⟩ := ih (by omega)
    have e : 2 ^ P.B - k = (2 ^ P.B - (k + 1)) + 1 := by omega
    rw [e] at hinv
    have hstep := hinv.step (by omega)
    refine ⟨_, ?_, hstep.2⟩
    unfold insertDesc
    rw [hst]
    exact hstep.1

/-- **secret_store_complete** — `B + 1` slots suffice for all `2^B` indices.  For every seed and
    every `k ≤ 2^B`: providing the BOLT-3 secrets of the indices `2^B−1, …, 2^B−k` in descending
    order succeeds at every step (every prefix `k' ≤ k` yields a store), the store still has
    `B + 1` slots, and afterwards `get_secret j` returns the sender's secret for EVERY inserted
    `j`.  (C06: every revoked commitment anywhere in the history has its secret available.) -/
theorem secret_store_complete (P : Params S) (seed : S) (k : Nat) (hk : k ≤ 2 ^ P.B) :
    (∀ k', k' ≤ k → (insertDesc P seed k').isSome) ∧
    ∃ st, insertDesc P seed k = some st ∧ st.length = P.B + 1 ∧
      ∀ j, 2 ^ P.B - k ≤ j → j < 2 ^ P.B → getSecret P st j = some (secretFor P seed j) := by
  constructor
  · intro k' hk'
    obtain ⟨st, hst, _⟩ := insertDesc_inv P seed k' (by omega)
    rw [hst]; rfl
  · obtain ⟨st, hst, hinv⟩ := insertDesc_inv P seed k hk
    exact ⟨st, hst, hinv.len, fun j h1 h2 => hinv.get j h1 h2⟩

/-- **get_secret_sound** — after those inserts, whatever `get_secret j` returns for a commitment
    number `j < 2^B` is the sender's secret of `j`, and it returns `None` for every `j` below the
    minimum seen (so a never-revoked state is never "derivable"). -/
theorem get_secret_sound (P : Params S) (seed : S) (k : Nat) (hk : k ≤ 2 ^ P.B) (st : Store S)
    (hst : insertDesc P seed k = some st) :
    (∀ j v, j < 2 ^ P.B → getSecret P st j = some v → v = secretFor P seed j) ∧
    (∀ j, j < 2 ^ P.B - k → getSecret P st j = none) := by
  obtain ⟨st', hst', hinv⟩ := insertDesc_inv P seed k hk
  rw [hst] at hst'
  cases hst'
  exact ⟨fun j v hj hv => hinv.get_sound j hj v hv, fun j hj => hinv.get_none (by omega) j hj⟩

/-- **min_seen_tracks** — `get_min_seen_secret` is `2^B − k` after `k` inserts. -/
theorem min_seen_tracks (P : Params S) (seed : S) (k : Nat) (hk : k ≤ 2 ^ P.B) (st : Store S)
    (hst : insertDesc P seed k = some st) : getMinSeenSecret P st = 2 ^ P.B - k := by
  obtain ⟨st', hst', hinv⟩ := insertDesc_inv P seed k hk
  rw [hst] at hst'
  cases hst'
  exact hinv.min (by omega)

/-- The `assert!(idx < self.get_min_seen_secret())` of `get_secret` never fires on a store built
    by the channel's (descending) sequence, for any commitment number. -/
theorem get_secret_never_asserts (P : Params S) (seed : S) (k : Nat) (hk : k ≤ 2 ^ P.B)
    (st : Store S) (hst : insertDesc P seed k = some st) (j : Nat) (hj : j < 2 ^ P.B) :
    getSecretAsserts P st j = false := by
  obtain ⟨st', hst', hinv⟩ := insertDesc_inv P seed k hk
  rw [hst] at hst'
  cases hst'
  unfold getSecretAsserts
  by_cases hm : 2 ^ P.B - k ≤ j
  · rw [hinv.get j hm hj]; rfl
  · rw [hinv.min (by omega)]
    simp [hm]

/-- **secret_store_rejects** — if flip-bit-0-then-hash is injective (SHA-256 collision
    resistance enters here, as a hypothesis), then after any prefix of the channel's sequence a
    WRONG secret for the next commitment number `m` is refused whenever `m` is even (it then has a
    lower slot to be checked against: slot 0 holds `m + 1`).  `Err` leaves the store untouched:
    `provideSecret` returns no new store. -/
theorem secret_store_rejects (P : Params S) (seed : S)
    (hinj : ∀ a b : S, P.H (P.flip 0 a) = P.H (P.flip 0 b) → a = b)
    (k : Nat) (hk : k < 2 ^ P.B) (st : Store S) (hst : insertDesc P seed k = some st)
    (heven : (2 ^ P.B - (k + 1)) % 2 = 0) (hk0 : 0 < k)
    (s : S) (hs : s ≠ secretFor P seed (2 ^ P.B - (k + 1))) :
    provideSecret P st (2 ^ P.B - (k + 1)) s = none := by
  obtain ⟨st', hst', hinv⟩ := insertDesc_inv P seed k (by omega)
  rw [hst] at hst'
  cases hst'
  -- m := the next index (even); m + 1 = 2^B - k is the current minimum (odd), in slot 0
  generalize hm : 2 ^ P.B - (k + 1) = m at *
  have hmin : 2 ^ P.B - k = m + 1 := by omega
  rw [hmin] at hinv
  have hB : 1 ≤ P.B := by
    cases hb : P.B with
    | zero => rw [hb] at hk; simp at hk; omega
    | succ n => omega
  have hbit0 : m.testBit 0 = false := by
    rw [Nat.testBit_eq_decide_div_mod_eq]; simp [heven]
  have hpos : 1 ≤ placeSecret P.B m := by
    apply Nat.succ_le_of_lt
    apply Nat.pos_of_ne_zero
    intro h0
    have := place_bit P.B m (by omega)
    rw [h0, hbit0] at this
    cases this
  have hplace1 : placeSecret P.B (m + 1) = 0 := by
    have := place_add_two_pow P.B m (placeSecret P.B m) 0 (place_le _ _) (by omega) (place_low _ _)
    simpa using this
  have hslot0 := hinv.slot_min (by omega)
  rw [hplace1] at hslot0
  -- the consistency loop fails at slot 0
  unfold provideSecret
  simp only
  rw [if_neg]
  intro hcons
  rw [consistent_iff] at hcons
  have h0 := hcons 0 (by omega)
  rw [hslot0] at h0
  simp only at h0
  -- both sides are one flip-hash away: derive(·, p, m+1) = derive(·, p, 1) = H (flip 0 ·)
  have hcongr : ∀ x : S, deriveSecret P x (placeSecret P.B m) (m + 1) = P.H (P.flip 0 x) := by
    intro x
    rw [← derive_one P (placeSecret P.B m) x hpos]
    apply derive_congr
    intro b hb
    by_cases hb0 : b = 0
    · subst hb0
      rw [Nat.add_comm, show (1 : Nat) = 2 ^ 0 from rfl, Nat.testBit_two_pow_add_eq, hbit0]
      rfl
    · have hlow := place_low P.B m b hb
      have h1 : (m + 1).testBit b = m.testBit b := by
        rw [Nat.testBit_eq_decide_div_mod_eq, Nat.testBit_eq_decide_div_mod_eq]
        have hb1 : 1 ≤ b := by omega
        obtain ⟨c, hc⟩ : ∃ c, b = c + 1 := ⟨b - 1, by omega⟩
        have e : ∀ n : Nat, n / 2 ^ b = n / 2 / 2 ^ c := by
          intro n; rw [hc, Nat.pow_succ, Nat.mul_comm, Nat.div_div_eq_div_mul]
        rw [e, e]
        have : (m + 1) / 2 = m / 2 := by omega
        rw [this]
      rw [h1, hlow]
      have h2 : (2 ^ 0).testBit b = decide (0 = b) := Nat.testBit_two_pow
      rw [Nat.pow_zero] at h2
      rw [h2]; exact (decide_eq_false (fun e => hb0 e.symm)).symm
  have hid := derive_build P seed m (m + 1) (placeSecret P.B m) (place_le _ _) (place_mod _ _) (by
    have h2 : 2 ≤ 2 ^ placeSecret P.B m := by
      calc 2 = 2 ^ 1 := rfl
        _ ≤ 2 ^ placeSecret P.B m := Nat.pow_le_pow_right (by omega) hpos
    have hmod := place_mod P.B m
    obtain ⟨c, hc⟩ := Nat.dvd_of_mod_eq_zero hmod
    have hpp : 0 < 2 ^ placeSecret P.B m := Nat.two_pow_pos _
    rw [Nat.div_eq_of_eq_mul_right hpp hc]
    apply Nat.div_eq_of_lt_le
    · rw [Nat.mul_comm]; omega
    · rw [Nat.succ_mul, Nat.mul_comm]; omega)
  rw [hcongr] at h0 hid
  exact hs (hinj _ _ (h0.trans hid.symm))

/-- Definitional form of the check (no assumption): a secret that does not re-derive some stored
    lower slot is refused — by ANY store, whatever it holds. -/
theorem provide_refuses_inconsistent (P : Params S) (st : Store S) (idx : Nat) (s : S) (i : Nat)
    (hi : i < placeSecret P.B idx)
    (hne : deriveSecret P s (placeSecret P.B idx) (slot P st i).2 ≠ (slot P st i).1) :
    provideSecret P st idx s = none := by
  unfold provideSecret
  simp only
  rw [if_neg]
  intro hc
  rw [consistent_iff] at hc
  exact hne (hc i hi)

/-- An accepted `provide_secret` either stores `(secret, idx)` in slot `place_secret(idx)` — and
    only for an index BELOW everything seen — or changes nothing; it never touches another slot. -/
theorem provide_effect (P : Params S) (st st' : Store S) (idx : Nat) (s : S)
    (h : provideSecret P st idx s = some st') :
    (getMinSeenSecret P st ≤ idx ∧ st' = st) ∨
    (idx < getMinSeenSecret P st ∧ st' = st.set (placeSecret P.B idx) (s, idx)) := by
  unfold provideSecret at h
  simp only at h
  split at h
  · split at h
    · left; exact ⟨by assumption, by cases h; rfl⟩
    · right; exact ⟨by omega, by cases h; rfl⟩
  · cases h

/-- **Reload** — `read(write(store)) = store` for every store the code can hold (32-byte secrets,
    `u64` indices, any number of slots; the code: 49): the serialised form (49 × (32 + 8) bytes
    and an empty TLV stream) loses nothing, so every theorem above survives a monitor / channel
    reload verbatim. -/
theorem store_reload_roundtrip (st : Store Bytes) (h : WfStore st) :
    deserialize st.length (serialize st) = some st :=
  read_write st h

/-! ### Non-vacuity: small-width runs with a free (hence injective) symbolic hash.
    These are sanity runs of the executable model, not the claim. -/

/-- free term algebra: `flip` and `hash` are constructors, so flip-then-hash is injective -/
inductive Sym where
  | zero | seed | flip (b : Nat) (s : Sym) | hash (s : Sym)
  deriving DecidableEq

def P5 : Params Sym := { B := 5, zero := .zero, flip := .flip, H := .hash }

/-- after `k` descending inserts every index `≥ 2^5 − k` is answered with the sender's secret,
    every lower one with `none`, and the minimum is `2^5 − k` -/
def runOk (k : Nat) : Bool :=
  match insertDesc P5 .seed k with
  | none => false
  | some st =>
    (List.range 32).all (fun j =>
      getSecret P5 st j == (if 32 - k ≤ j then some (secretFor P5 .seed j) else none)) &&
    getMinSeenSecret P5 st == 32 - k && st.length == 6

example : (List.range 33).all runOk = true := by decide
-- hypotheses of `secret_store_rejects` are satisfiable, and its conclusion is observed:
example : ∀ a b : Sym, P5.H (P5.flip 0 a) = P5.H (P5.flip 0 b) → a = b := by
  intro a b h; injection h with h; injection h
example : (insertDesc P5 .seed 5).bind (fun st => provideSecret P5 st 26 (.hash (secretFor P5 .seed 26))) = none := by
  decide
example : ((insertDesc P5 .seed 5).bind (fun st => provideSecret P5 st 26 (secretFor P5 .seed 26))).isSome = true := by
  decide
-- a corrupted secret at an ODD index is not checked by the store (it has no lower slot) …
example : ((insertDesc P5 .seed 4).bind (fun st => provideSecret P5 st 27 .zero)).isSome = true := by decide
-- … and skipping ahead is refused when a lower slot is still empty (fresh store, even index):
example : provideSecret P5 (Store.new P5) 30 (secretFor P5 .seed 30) = none := by decide
example : WfStore (Store.new Params48) := by
  intro sl hsl
  have := List.eq_of_mem_replicate hsl
  subst this; exact ⟨by decide, by decide⟩
-- the code's instance: 49 slots, and the BOLT-3 appendix-D vector through the real SHA-256
example : Params48.B = 48 ∧ (Store.new Params48).length = 49 := by decide
#guard buildCommitmentSecret Params48 (List.replicate 32 0xff) 0xaaaaaaaaaaa ==
  [0x56,0xf4,0x00,0x8f,0xb0,0x07,0xca,0x9a,0xcf,0x0e,0x15,0xb0,0x54,0xd5,0xc9,0xfd,
   0x12,0xee,0x06,0xce,0xa3,0x47,0x91,0x4d,0xdb,0xae,0xd7,0x0d,0x1c,0x13,0xa5,0x28]

/-! ### Channel level, receiving side: a `revoke_and_ack` is accepted only while one is owed
    Model/RaaGate.lean.  The guard chain `RaaGuard.check`, the commitment-number expressions
    (`validateIdx`, `provideIdx`, `monitorIdx`) and the state step `RaaGuard.accept` are GENERATED from the
    text of `FundedChannel::revoke_and_ack` on every run (tools/gen_raa_guard.py, including the bodies of the
    `ChannelContext` bool helpers a guard calls); the theorems below are about those generated definitions,
    for every state, every message and every op sequence of an ARBITRARY peer. -/

section RaaGate
open Ldk.RaaGate Ldk.RaaGuard
variable {Pt : Type} [DecidableEq Pt]

/-- **raa_accepted_only_when_awaiting** — whenever `revoke_and_ack` returns Ok (in ANY state, for ANY
    message): the channel was AwaitingRemoteRevoke (a commitment_signed of ours is outstanding), operational,
    connected and not quiescent; the secret is a valid key whose public key is the commitment point the peer
    announced for its current commitment; signer and store were asked about commitment number
    `counterparty_next_commitment_transaction_number + 1` and accepted; exactly that `(number, secret)` goes to
    the store and into the CommitmentSecret monitor update; the number moves down by exactly one, the flag is
    cleared, the points rotate.  Nothing else of the modelled state changes. -/
theorem raa_accepted_only_when_awaiting (w : World S Pt) (c c' : Side S Pt) (m : Raa S Pt)
    (h : recvRaa w c m = some c') :
    c.st.awaitingRemoteRevoke = true ∧
    c.env.channelReady = true ∧ c.env.peerDisconnected = false ∧ c.env.quiescent = false ∧
    (∀ p, c.st.cpCurPoint = some p → w.pointOf m.secret = some p) ∧ (w.pointOf m.secret).isSome = true ∧
    w.signerOk (c.st.cpNext + 1) m.secret = true ∧
    provideSecret w.P c.store (c.st.cpNext + 1) m.secret = some c'.store ∧
    c'.accepted = (c.st.cpNext + 1, m.secret) :: c.accepted ∧
    c'.st.cpNext = c.st.cpNext - 1 ∧ c'.st.awaitingRemoteRevoke = false ∧
    c'.st.cpCurPoint = c.st.cpNextPoint ∧ c'.st.cpNextPoint = some m.next ∧
    c'.signed = c.signed ∧ c'.env = c.env := by
  obtain ⟨hc, st', hp, rfl⟩ := recvRaa_some h
  obtain ⟨h1, h2, h3, _, h5, h6, h7, h8, _⟩ := check_none _ hc
  refine ⟨h7, h2, h3, h1, ?_, h5, h8, hp, rfl, rfl, rfl, rfl, rfl, rfl, rfl⟩
  intro p hp'
  have h6' := h6 (by show (c.st.cpCurPoint).isSome = true; rw [hp']; rfl)
  have h5' : (w.pointOf m.secret).isSome = true := h5
  change (match c.st.cpCurPoint, w.pointOf m.secret with
      | some p, some q => decide (p = q)
      | _, _ => true) = true at h6'
  rw [hp'] at h6'
  cases hq : w.pointOf m.secret with
  | none => rw [hq] at h5'; cases h5'
  | some q => rw [hq] at h6'; simp only [decide_eq_true_eq] at h6'; rw [h6']

/-- **unsolicited_raa_refused** — while no revocation is outstanding EVERY revoke_and_ack is refused, whatever
    it contains and whatever else is pending on the channel (uncommitted updates of either side, fee updates,
    `expecting_peer_commitment_signed`, shutdown …): an error is returned and nothing is written. -/
theorem unsolicited_raa_refused (w : World S Pt) (c : Side S Pt) (m : Raa S Pt)
    (h : c.st.awaitingRemoteRevoke = false) :
    recvRaa w c m = none ∧ ∃ e, outcome w c m = some e := by
  cases hr : recvRaa w c m with
  | some c' => have := (raa_accepted_only_when_awaiting w c c' m hr).1; rw [h] at this; cases this
  | none =>
    refine ⟨rfl, ?_⟩
    cases ho : outcome w c m with
    | some e => exact ⟨e, rfl⟩
    | none =>
      have := (check_none _ ho).2.2.2.2.2.2.1
      have : c.st.awaitingRemoteRevoke = true := this
      rw [h] at this; cases this

/-- conversely the generated chain asks for nothing more: operational + connected + valid matching secret +
    awaiting + signer and store agree ⇒ accepted (no honest revoke_and_ack is refused) -/
theorem solicited_raa_accepted (w : World S Pt) (c : Side S Pt) (m : Raa S Pt) (p : Pt)
    (h1 : c.env.quiescent = false) (h2 : c.env.channelReady = true) (h3 : c.env.peerDisconnected = false)
    (h4 : c.env.bothSidesShutdown = false) (hp : w.pointOf m.secret = some p) (hc : c.st.cpCurPoint = some p)
    (h7 : c.st.awaitingRemoteRevoke = true) (h8 : w.signerOk (c.st.cpNext + 1) m.secret = true)
    (h9 : (provideSecret w.P c.store (c.st.cpNext + 1) m.secret).isSome = true) :
    (recvRaa w c m).isSome = true := by
  have hk : check (inOf w c m) = none := by
    apply check_none_of
    · exact h1
    · exact h2
    · exact h3
    · show (c.env.bothSidesShutdown && c.env.lastSentClosingFeeSome) = false
      rw [h4]; rfl
    · show (w.pointOf m.secret).isSome = true
      rw [hp]; rfl
    · intro _
      show (match c.st.cpCurPoint, w.pointOf m.secret with
        | some p, some q => decide (p = q)
        | _, _ => true) = true
      rw [hc, hp]; simp
    · exact h7
    · exact h8
    · exact h9
  unfold recvRaa outcome
  rw [hk]
  simp only [Option.isSome_none, Bool.false_eq_true, if_false, Option.isSome_map]
  exact h9

/-- **commitment_numbers_step_by_one** — for EVERY sequence of {we sign a counterparty commitment, the peer
    sends any revoke_and_ack, anything else changes arbitrarily} from a channel whose next counterparty
    commitment number is `n0`: the number has moved down by exactly one per ACCEPTED revoke_and_ack; accepted
    revocations never outnumber signed commitments and at most one signed commitment is unrevoked — exactly
    when AwaitingRemoteRevoke is set; the commitment numbers handed to the store / the monitor are
    `n0 + 1, n0, n0 − 1, …` without gap or repetition (the descending order the secret-store theorems
    assume); and the store is exactly the result of providing those secrets in that order. -/
theorem commitment_numbers_step_by_one (w : World S Pt) (n0 : Nat) (st0 : Store S) (cur nxt : Option Pt)
    (ops : List (Op S Pt)) (c : Side S Pt) (h : RaaGate.run w (Side.init n0 st0 cur nxt) ops = some c) :
    c.st.cpNext = n0 - c.accepted.length ∧
    c.accepted.length ≤ c.signed ∧ c.signed ≤ c.accepted.length + 1 ∧
    (c.st.awaitingRemoteRevoke = true ↔ c.signed = c.accepted.length + 1) ∧
    c.accepted.map (·.1) = idxs n0 c.accepted.length ∧
    replay w.P st0 c.accepted = some c.store := by
  have inv := Inv.run ops _ c (Inv.init w n0 st0 cur nxt) h
  have hc := inv.cnt
  refine ⟨inv.num, ?_, ?_, ?_, inv.idx, inv.sto⟩
  · split at hc <;> omega
  · split at hc <;> omega
  · cases hw : c.st.awaitingRemoteRevoke <;> simp [hw] at hc ⊢ <;> omega

/-- the numbers are consecutive: `idxs n0 k = [n0 + 2 − k, …, n0, n0 + 1]` (newest first) -/
theorem idxs_spec (n0 : Nat) : ∀ k, (idxs n0 k).length = k ∧ ∀ j, j < k → (idxs n0 k)[j]? = some (n0 - (k - 1 - j) + 1)
  | 0 => ⟨rfl, fun _ hj => by omega⟩
  | k + 1 => by
    obtain ⟨hl, hg⟩ := idxs_spec n0 k
    refine ⟨by simp [idxs, hl], ?_⟩
    intro j hj
    cases j with
    | zero => simp [idxs]
    | succ j =>
      simp only [idxs, List.getElem?_cons_succ]
      rw [hg j (by omega)]
      congr 2
      omega

/-- **chan_model_raa_gate_is_generated_guard** — the two-party protocol model (Model/Channel.lean, the model
    of `counters`, `at_most_one_outstanding`, `raa_only_after_cs`, C01's agreement) processes a revoke_and_ack
    exactly when the GENERATED guard chain accepts it on that node's state (connected; the message itself
    well-formed): its hand-written `if !awaitingRaa then none` is the guard the code has. -/
theorem chan_model_raa_gate_is_generated_guard (n : Chan.Node) (e : Bool) (hc : n.paused = false) :
    (Chan.Node.onRaa n).isSome = (check (inOfNode n e)).isNone := by
  cases ha : n.awaitingRaa
  · have h1 : Chan.Node.onRaa n = none := by unfold Chan.Node.onRaa; simp [ha]
    rw [h1]
    cases hk : check (inOfNode n e) with
    | some _ => rfl
    | none =>
      have := (check_none _ hk).2.2.2.2.2.2.1
      have : n.awaitingRaa = true := this
      rw [ha] at this; cases this
  · have h1 : (Chan.Node.onRaa n).isSome = true := by unfold Chan.Node.onRaa; simp [ha]
    rw [h1]
    have hk : check (inOfNode n e) = none := by
      apply check_none_of <;> first | rfl | exact hc | exact ha | (intro _; rfl)
    rw [hk]; rfl

/-- **raa_guard_accepts_only_outstanding** — in every run of the two-party protocol (all interleavings,
    disconnections anywhere): whenever the generated guard chain would accept a revoke_and_ack at a node, that
    node has signed exactly one commitment more than the peer has revoked (`csSent = raaRecv + 1`); processing
    it restores `csSent = raaRecv`: commitment numbers move by one per commitment_signed / revoke_and_ack pair. -/
theorem raa_guard_accepts_only_outstanding (va vb f0 : Nat) (evs : List Chan.Ev) (s : Chan.Sys)
    (h : Chan.run (Chan.Sys.init va vb f0) evs = some s) (e : Bool) :
    (check (inOfNode s.a e) = none → s.a.csSent = s.a.raaRecv + 1 ∧
        ∃ n', Chan.Node.onRaa s.a = some n' ∧ n'.csSent = n'.raaRecv ∧ n'.awaitingRaa = false) ∧
    (check (inOfNode s.b e) = none → s.b.csSent = s.b.raaRecv + 1 ∧
        ∃ n', Chan.Node.onRaa s.b = some n' ∧ n'.csSent = n'.raaRecv ∧ n'.awaitingRaa = false) := by
  obtain ⟨_, _, ha, hb⟩ := ChanProto.at_most_one_outstanding va vb f0 evs s h
  have key : ∀ n : Chan.Node, (n.awaitingRaa = true ↔ n.csSent = n.raaRecv + 1) → check (inOfNode n e) = none →
      n.csSent = n.raaRecv + 1 ∧ ∃ n', Chan.Node.onRaa n = some n' ∧ n'.csSent = n'.raaRecv ∧ n'.awaitingRaa = false := by
    intro n hn hk
    have hw : n.awaitingRaa = true := (check_none _ hk).2.2.2.2.2.2.1
    have hcs := hn.1 hw
    refine ⟨hcs, ?_⟩
    unfold Chan.Node.onRaa
    simp only [hw, Bool.not_true, Bool.false_eq_true, if_false]
    exact ⟨_, rfl, by simp only; omega, rfl⟩
  exact ⟨key s.a ha, key s.b hb⟩

/-! non-vacuity (width-5 symbolic store, points = hash of the secret) -/
def W5 : World Sym Sym := { P := P5, pointOf := fun s => if s = .zero then none else some (.hash s), signerOk := fun _ _ => true }
def side0 : Side Sym Sym := Side.init 30 (Store.new P5) (some (.hash (secretFor P5 .seed 31))) (some (.hash (secretFor P5 .seed 30)))
def raaOf (i : Nat) : Raa Sym Sym := { secret := secretFor P5 .seed i, next := .hash (secretFor P5 .seed (i - 2)) }

-- sign, revoke, sign, revoke: two accepted revocations for the numbers 31, 30; the number went 30 → 28
example : (RaaGate.run W5 side0 [.sign, .raa (raaOf 31), .sign, .raa (raaOf 30)]).map
    (fun c => (c.st.cpNext, c.signed, c.accepted.map (·.1), c.st.awaitingRemoteRevoke)) = some (28, 2, [30, 31], false) := by decide
-- the same revoke_and_ack without a commitment_signed of ours outstanding — idle, or with an uncommitted update of
-- the peer pending (RemoteAnnounced HTLC), or twice — is refused and moves nothing
example : (RaaGate.run W5 side0 [.raa (raaOf 31)]).map (fun c => (c.st.cpNext, c.accepted.length)) = some (30, 0) := by decide
example : outcome W5 side0 (raaOf 31) = some .unexpected := by decide
example : outcome W5 { side0 with env := { inb := [.remoteAnnounced], expectingPeerCommitmentSigned := true, pendingUpdateFeeSome := true } } (raaOf 31)
    = some .unexpected := by decide
example : (RaaGate.run W5 side0 [.sign, .raa (raaOf 31), .raa (raaOf 30)]).map (fun c => (c.st.cpNext, c.accepted.length)) = some (29, 1) := by decide
-- a secret that is not the one behind the announced point is refused although a revocation is owed
example : outcome W5 { side0 with st := { side0.st with awaitingRemoteRevoke := true } } (raaOf 30) = some .secretMismatch := by decide
example : (recvRaa W5 { side0 with st := { side0.st with awaitingRemoteRevoke := true } } (raaOf 31)).isSome = true := by decide
-- the protocol model: a's first revoke_and_ack arrives while a awaits it
example : (Chan.run (Chan.Sys.init 10 10) [.commit true [3] [] [], .release true, .recv false, .recv false, .sendRaa false]).map
    (fun s => (check (inOfNode s.a false)).isNone && (check (inOfNode s.b false)).isSome) = some true := by decide

end RaaGate

/-! ### Holder side: the monitor never signs a revoked holder commitment; a signed state is never revoked
    Model/HolderGate.lean; `noFurtherUpdatesAllowed`, `isPreCloseStep`, `updateOk` (update_monitor's final refusal
    decision) and `chainMonitorDefers` (ChainMonitor::update_channel_internal) are GENERATED from channelmonitor.rs /
    chainmonitor.rs (tools/gen_holder_gate.py). -/

section HolderGate
open Ldk.HolderGate

/-- **never_sign_revoked_holder** — for EVERY sequence of {commitment_signed accepted (persister answers Completed or
    InProgress), in-flight update completes, the monitor signs its latest holder commitment / an HTLC transaction on it,
    ChannelForceClosed, funding spend seen, channel closed, crash + reload}: no holder commitment number that was ever
    handed to the signer has had its secret released — neither before the signature request ("never signs a revoked
    commitment") nor at any later time ("a broadcast state is never revoked") — every released secret belongs to a
    number strictly above (older than) the monitor's current holder commitment, and once anything was signed
    `holder_tx_signed` stays set. -/
theorem never_sign_revoked_holder (n0 : Nat) (evs : List HolderGate.Ev) (s : HolderGate.Sys)
    (h : HolderGate.run (HolderGate.Sys.init n0) evs = some s) :
    (∀ n ∈ s.signReq, n ∉ s.released) ∧ (∀ n ∈ s.released, s.monCur < n) ∧
    (s.signReq ≠ [] → s.flags.holderTxSigned = true) ∧ s.monCur = s.chanCur := by
  have inv := HolderGate.Inv.run evs _ s (HolderGate.Inv.init n0) h
  exact ⟨fun n hn => (inv.i5 n hn).1, inv.i1, inv.i4, inv.i2⟩

/-- **signed_state_never_revoked** — once `holder_tx_signed` is set (also after a reload: the flag is serialized), a further
    holder-commitment update is applied to the monitor but REFUSED (update_monitor returns Err), the ChainMonitor never
    reports it Completed at once, and the revoke_and_ack it gates is held frozen: the set of released secrets does
    not grow by that step, whatever the persister answers. -/
theorem signed_state_never_revoked (s s' : HolderGate.Sys) (pc : Bool) (hs : s.flags.holderTxSigned = true)
    (h : HolderGate.step s (.csRecv pc) = some s') :
    updateOk true s.flags [.latestHolderCommitmentTXInfo] = false ∧
    s'.released = s.released ∧ s'.inflight = some (s.chanCur, true) ∧ s'.monCur = s.chanCur - 1 := by
  obtain ⟨h1, h2⟩ := signed_refuses s.flags hs pc
  have hn : noFurtherUpdatesAllowed s.flags = true := by simp [noFurtherUpdatesAllowed, hs]
  have hu : updateOk true s.flags [.latestHolderCommitmentTXInfo] = false := by simp [updateOk, hn, isPreCloseStep]
  simp only [HolderGate.step] at h
  split at h
  · cases h
  · rw [h1] at h
    simp only [Bool.false_eq_true, if_false, Option.some.injEq] at h
    subst h
    exact ⟨hu, rfl, by simp [h2], rfl⟩

/-- the refusal covers exactly the update kinds a live channel generates: a CommitmentSecret (the PEER's revocation)
    and both commitment kinds are refused after the close, preimages / ChannelForceClosed / ReleasePaymentComplete are not -/
theorem post_close_refusal_kinds (f : Flags) (hf : noFurtherUpdatesAllowed f = true) (st : Step) :
    updateOk true f [st] = !isPreCloseStep st := by
  simp [updateOk, hf]

/-- **freeze_iff_any_close_flag** — the GENERATED `no_further_updates_allowed` is exactly "one of the three close flags is set",
    for EVERY value of the funding-mode flags (`is_manual_broadcast`, `funding_seen_onchain`): no channel type is exempt from
    the post-close freeze, and a channel with none of the flags set is not frozen. -/
theorem freeze_iff_any_close_flag (f : Flags) :
    noFurtherUpdatesAllowed f = (f.fundingSpendSeen || f.lockdownFromOffchain || f.holderTxSigned) := by
  simp [noFurtherUpdatesAllowed]

example : noFurtherUpdatesAllowed { holderTxSigned := true, isManualBroadcast := true, fundingSeenOnchain := true } = true := by decide
example : noFurtherUpdatesAllowed { isManualBroadcast := true, fundingSeenOnchain := false } = false := by decide

/-- **never_sign_revoked_holder_any_funding_mode** — `never_sign_revoked_holder` for a channel of EITHER funding mode
    (ordinary, or funding_transaction_generated_manual_broadcast with the funding seen on chain or not), over every sequence
    of the events of `never_sign_revoked_holder` plus {the monitor goes on chain through
    queue_latest_holder_commitment_txn_for_broadcast(require_funding_seen), an HTLC times out in block_confirmed, the funding
    transaction is seen on chain}, with the GENERATED decisions `skipBroadcastUntilFundingSeen`, `timeoutBroadcastAllowed`,
    `broadcastOnFundingSeen` deciding whether a signature is requested: no holder commitment number handed to the signer
    ever has its secret released, and whenever anything was signed the GENERATED freeze predicate holds. -/
theorem never_sign_revoked_holder_any_funding_mode (n0 : Nat) (manual seen : Bool) (evs : List HolderGate.Ev) (s : HolderGate.Sys)
    (h : HolderGate.run (HolderGate.Sys.initF n0 manual seen) evs = some s) :
    (∀ n ∈ s.signReq, n ∉ s.released) ∧ (∀ n ∈ s.released, s.monCur < n) ∧
    (s.signReq ≠ [] → noFurtherUpdatesAllowed s.flags = true) ∧ s.monCur = s.chanCur := by
  have inv := HolderGate.Inv.run evs _ s (HolderGate.Inv.initF n0 manual seen) h
  refine ⟨fun n hn => (inv.i5 n hn).1, inv.i1, ?_, inv.i2⟩
  intro hne
  rw [freeze_iff_any_close_flag, inv.i4 hne]; simp

/-- **marked_channel_is_frozen** — whichever way the monitor decides to go on chain (user / ChannelForceClosed broadcast with or
    without require_funding_seen, HTLC timeout), and whether or not a transaction is really queued (manual-broadcast funding
    not yet seen: nothing is), the freeze holds from that step on: the next commitment_signed releases nothing. -/
theorem marked_channel_is_frozen (s s1 s2 : HolderGate.Sys) (e : HolderGate.Ev) (pc : Bool)
    (he : (∃ r, e = .goOnChain r) ∨ e = .htlcTimeout ∨ e = .sign)
    (h1 : HolderGate.step s e = some s1) (h2 : HolderGate.step s1 (.csRecv pc) = some s2) :
    noFurtherUpdatesAllowed s1.flags = true ∧ s2.released = s1.released ∧ s2.inflight = some (s1.chanCur, true) := by
  have hs : s1.flags.holderTxSigned = true := by
    rcases he with ⟨r, rfl⟩ | rfl | rfl <;> (simp only [HolderGate.step] at h1; cases h1; rfl)
  have h := signed_state_never_revoked s1 s2 pc hs h2
  exact ⟨by rw [freeze_iff_any_close_flag, hs]; simp, h.2.1, h.2.2.1⟩

-- non-vacuity: a manual-broadcast channel whose funding was seen: an HTLC times out (the monitor signs number 9), the
-- commitment_signed that follows is applied but its revoke_and_ack (secret 9) stays frozen for ever
example : (HolderGate.run (HolderGate.Sys.initF 10 true true) [.csRecv true, .htlcTimeout, .csRecv true]).map
    (fun s => (s.released, s.signReq, s.monCur, s.inflight)) = some ([10], [9], 8, some (9, true)) := by decide
-- funding not yet seen: marked (frozen, nothing signed), the update is still refused; when the funding shows up the
-- monitor signs its THEN-current commitment 8, whose secret is not released either
example : (HolderGate.run (HolderGate.Sys.initF 10 true false) [.csRecv true, .goOnChain true, .csRecv true, .fundingSeen]).map
    (fun s => (s.released, s.signReq, s.monCur, s.inflight)) = some ([10], [8], 8, some (9, true)) := by decide

-- non-vacuity: two updates complete (secrets 10, 9 released), the monitor signs number 8, a further commitment_signed is
-- applied (monitor at 7) but its revoke_and_ack stays frozen, also across a reload; 8 is never released
example : (HolderGate.run (HolderGate.Sys.init 10) [.csRecv true, .csRecv false, .complete, .sign, .csRecv true, .restart, .complete]) = none := by decide
example : (HolderGate.run (HolderGate.Sys.init 10) [.csRecv true, .csRecv false, .complete, .sign, .csRecv true, .restart]).map
    (fun s => (s.released, s.signReq, s.monCur, s.inflight)) = some ([9, 10], [8], 7, some (8, true)) := by decide
-- an update in flight when the monitor signs: the completion releases the OLDER number 10, the signature was for 9
example : (HolderGate.run (HolderGate.Sys.init 10) [.csRecv false, .sign, .complete]).map
    (fun s => (s.released, s.signReq)) = some ([10], [9]) := by decide
example : isPreCloseStep .commitmentSecret = true ∧ isPreCloseStep .paymentPreimage = false := by decide

end HolderGate

/-! ### Which secret a revoke_and_ack and its retransmission release
    `currentTransactionNumber`, `advanceNext`, `releaseIdx`, `ourCommitmentTransaction`, `requiredRevoke` are GENERATED from
    HolderCommitmentPoint::{current_transaction_number, advance}, FundedChannel::get_last_revoke_and_ack and channel_reestablish
    (tools/gen_raa_release.py -> Generated/RaaRelease.lean). Commitment numbers count DOWN: "later" = smaller. -/

section RaaRelease
open Ldk.RaaRelease

/-- next_transaction_number after `k` accepted commitment_signed (each one advances the point once: pinned) -/
def nextAfter (next0 : Nat) : Nat → Nat
  | 0 => next0
  | k + 1 => advanceNext (nextAfter next0 k)

theorem nextAfter_eq (next0 k : Nat) : nextAfter next0 k = next0 - k := by
  induction k with
  | zero => rfl
  | succ k ih => simp only [nextAfter, advanceNext, ih]; omega

/-- **release_is_just_superseded** — for EVERY holder commitment point: the index that get_last_revoke_and_ack hands to
    release_commitment_secret after the point was advanced is exactly the number that was CURRENT before the advance (the
    commitment just superseded), i.e. one above the new current number — never the current commitment or a later one. -/
theorem release_is_just_superseded (next : Nat) (h : 0 < next) :
    releaseIdx (advanceNext next) = currentTransactionNumber next ∧
    releaseIdx (advanceNext next) = currentTransactionNumber (advanceNext next) + 1 := by
  refine ⟨?_, ?_⟩ <;> simp only [releaseIdx, advanceNext, currentTransactionNumber] <;> omega

example : releaseIdx (advanceNext 100) = 101 ∧ currentTransactionNumber 100 = 101 := by decide

/-- **releases_descend_by_one** — over a whole history: the (k+1)-th revoke_and_ack of a channel releases the secret of
    `current0 - k` (current0 = the first current number), so consecutive releases go down by exactly one and no index is
    released twice or skipped.  (`k + 2 ≤ next0`: the u64 subtraction of `advance` does not underflow — 2^48 updates.) -/
theorem releases_descend_by_one (next0 k : Nat) (h : k + 2 ≤ next0) :
    releaseIdx (nextAfter next0 (k + 1)) = currentTransactionNumber next0 - k ∧
    releaseIdx (nextAfter next0 (k + 2)) + 1 = releaseIdx (nextAfter next0 (k + 1)) := by
  refine ⟨?_, ?_⟩ <;> simp only [nextAfter_eq, releaseIdx, currentTransactionNumber] <;> omega

example : (List.range 4).map (fun k => releaseIdx (nextAfter 99 (k + 1))) = [100, 99, 98, 97] := by decide

/-- **retransmission_repeats_last_release** — on a fresh channel after `k` accepted commitment_signed
    (next_transaction_number started at INITIAL_COMMITMENT_NUMBER - 1), for EVERY `next_remote_commitment_number` the peer may
    send in channel_reestablish: if the GENERATED required_revoke decision says "retransmit", then the peer lacks exactly our
    last revoke_and_ack (k = msg + 1), the retransmitted secret is the one the peer asks for (INITIAL - msg), it is the SAME
    index the original revoke_and_ack released, and it is one above the current holder commitment number — never the current
    one or a later one.  If the decision says "none" the peer has all k revocations. -/
theorem retransmission_repeats_last_release (k msgN : Nat) (hk : k + 1 ≤ initialCommitmentNumber - 1) :
    let next := nextAfter (initialCommitmentNumber - 1) k
    (requiredRevoke msgN (ourCommitmentTransaction next) = .retransmit →
      k = msgN + 1 ∧ releaseIdx next = initialCommitmentNumber - msgN ∧
      releaseIdx next = releaseIdx (advanceNext (nextAfter (initialCommitmentNumber - 1) (k - 1))) ∧
      releaseIdx next = currentTransactionNumber next + 1) ∧
    (requiredRevoke msgN (ourCommitmentTransaction next) = .none → msgN = k) := by
  have hI : initialCommitmentNumber = 281474976710655 := by simp [initialCommitmentNumber]
  intro next
  have hn : next = initialCommitmentNumber - 1 - k := nextAfter_eq _ _
  have hour : ourCommitmentTransaction next = k := by
    simp only [ourCommitmentTransaction, currentTransactionNumber, hn]; omega
  rw [hour]
  constructor
  · intro h
    simp only [requiredRevoke] at h
    split at h
    · cases h
    · split at h
      · rename_i h2
        have h2' : msgN + 1 = k := by simpa using h2
        refine ⟨h2'.symm, ?_, ?_, ?_⟩
        · simp only [releaseIdx, hn]; omega
        · simp only [releaseIdx, advanceNext, nextAfter_eq, hn]; omega
        · simp only [releaseIdx, currentTransactionNumber]
      · cases h
  · intro h
    simp only [requiredRevoke] at h
    split at h
    · rename_i h1; simpa using h1
    · split at h <;> cases h

example : requiredRevoke 2 (ourCommitmentTransaction (nextAfter (initialCommitmentNumber - 1) 3)) = .retransmit ∧
    releaseIdx (nextAfter (initialCommitmentNumber - 1) 3) = initialCommitmentNumber - 2 := by decide
example : requiredRevoke 3 (ourCommitmentTransaction (nextAfter (initialCommitmentNumber - 1) 3)) = .none ∧
    requiredRevoke 5 (ourCommitmentTransaction (nextAfter (initialCommitmentNumber - 1) 3)) = .error := by decide

end RaaRelease

/-! ### Channel-level theorems (integrator)
    `revoke_only_after_newer_signed`, `never_sign_revoked_holder`, `at_most_one_outstanding`,
    `numbers_step_by_one`, `raa_checked`, `released_implies_update_durable` go BELOW this line.
    The names above (`secretFor`, `insertDesc`, `derivation_identity`, `slot_invariant_preserved`,
    `insertDesc_inv`, `secret_store_complete`, `get_secret_sound`, `min_seen_tracks`,
    `get_secret_never_asserts`, `secret_store_rejects`, `provide_refuses_inconsistent`,
    `provide_effect`, `store_reload_roundtrip`) are stable. -/

end Ldk.C05
