/- C05 — Revoked state is never used and state is never revoked early.
   THIS SECTION: the revocation-secret store that underlies
     C05 "every secret received from the peer is checked … and stored" and
     C06 "any revoked commitment, from any point in the channel's history … the monitor can derive
          its secret".
   Property theorems only; the model is Model/Secrets.lean (mirrors
   `CounterpartyCommitmentSecrets` and `build_commitment_secret` of lightning/src/ln/chan_utils.rs),
   helper lemmas are in Proofs/Secrets.lean.

   Every theorem is for an ARBITRARY index width `B` (the code is the instance `B = 48`, 49 slots,
   `Params48`), an arbitrary secret type, an arbitrary `flip` and an arbitrary hash `H`; nothing is
   enumerated.  Where a cryptographic property is needed (`secret_store_rejects`) it is a
   hypothesis (injectivity of flip-then-hash), never an axiom. -/
import LdkModel.Proofs.Secrets
namespace Ldk.C05
open Ldk.Secrets

variable {S : Type} [DecidableEq S]

/-- the sender's (BOLT-3 `generate_from_seed`) per-commitment secret of commitment number `i` -/
def secretFor (P : Params S) (seed : S) (i : Nat) : S := buildCommitmentSecret P seed i

/-- Provide the sender's secrets for the indices `2^B − 1, 2^B − 2, …, 2^B − k`, in this
    (descending, = channel) order, to a fresh store; `none` as soon as one step is refused. -/
def insertDesc (P : Params S) (seed : S) : Nat → Option (Store S)
  | 0 => some (Store.new P)
  | k + 1 => (insertDesc P seed k).bind fun st =>
      provideSecret P st (2 ^ P.B - (k + 1)) (secretFor P seed (2 ^ P.B - (k + 1)))

omit [DecidableEq S] in
/-- The algebraic core: the secret of an index `i` whose `p` low bits are clear yields, through
    the receiver's `derive_secret(·, p, j)`, the sender's secret of every `j` that agrees with `i`
    from bit `p` up.  (Induction on the bits of the recursive generator.) -/
theorem derivation_identity (P : Params S) (seed : S) (i j p : Nat) (hp : p ≤ P.B)
    (hi : i % 2 ^ p = 0) (hij : j / 2 ^ p = i / 2 ^ p) :
    deriveSecret P (secretFor P seed i) p j = secretFor P seed j :=
  derive_build P seed i j p hp hi hij

/-- Slot-invariant preservation (`Inv` = "slot `p` is empty, or holds the sender's secret of the
    smallest inserted index with exactly `p` trailing zeros, `p` capped at `B`"): if the invariant
    holds after inserting everything in `[m+1, 2^B)`, then the next secret `m` is accepted, goes
    to slot `place_secret(m)`, and the invariant holds for `[m, 2^B)`. -/
theorem slot_invariant_preserved (P : Params S) (seed : S) (m : Nat) (st : Store S)
    (h : Inv P seed (m + 1) st) (hm : m < 2 ^ P.B) :
    ∃ st', provideSecret P st m (secretFor P seed m) = some st' ∧ Inv P seed m st' :=
  ⟨_, (h.step hm).1, (h.step hm).2⟩

/-- every prefix of the descending sequence is accepted and leaves the invariant -/
theorem insertDesc_inv (P : Params S) (seed : S) : ∀ k, k ≤ 2 ^ P.B →
    ∃ st, insertDesc P seed k = some st ∧ Inv P seed (2 ^ P.B - k) st := by
  intro k
  induction k with
  | zero => intro _; exact ⟨_, rfl, by simpa using Inv_new P seed⟩
  | succ k ih =>
    intro hk
    obtain ⟨st, hst, hinv⟩ := ih (by omega)
    have e : 2 ^ P.B - k = (2 ^ P.B - (k + 1)) + 1 := by omega
    rw [e] at hinv
    have hstep := hinv.step (by omega)
    refine ⟨_, ?_, hstep.2⟩
    unfold insertDesc
    rw [hst]
    exact hstep.1

/-- **secret_store_complete** — `B + 1` slots suffice for all `2^B` indices.  For every seed and
    every `k ≤ 2^B`: providing the BOLT-3 secrets of the indices `2^B−1, …, 2^B−k` in descending
    order succeeds at every step (every prefix `k' ≤ k` yields a store), the store still has
    `B + 1` slots, and afterwards `get_secret j` returns the sender's secret for EVERY inserted
    `j`.  (C06: every revoked commitment anywhere in the history has its secret available.) -/
theorem secret_store_complete (P : Params S) (seed : S) (k : Nat) (hk : k ≤ 2 ^ P.B) :
    (∀ k', k' ≤ k → (insertDesc P seed k').isSome) ∧
    ∃ st, insertDesc P seed k = some st ∧ st.length = P.B + 1 ∧
      ∀ j, 2 ^ P.B - k ≤ j → j < 2 ^ P.B → getSecret P st j = some (secretFor P seed j) := by
  constructor
  · intro k' hk'
    obtain ⟨st, hst, _⟩ := insertDesc_inv P seed k' (by omega)
    rw [hst]; rfl
  · obtain ⟨st, hst, hinv⟩ := insertDesc_inv P seed k hk
    exact ⟨st, hst, hinv.len, fun j h1 h2 => hinv.get j h1 h2⟩

/-- **get_secret_sound** — after those inserts, whatever `get_secret j` returns for a commitment
    number `j < 2^B` is the sender's secret of `j`, and it returns `None` for every `j` below the
    minimum seen (so a never-revoked state is never "derivable"). -/
theorem get_secret_sound (P : Params S) (seed : S) (k : Nat) (hk : k ≤ 2 ^ P.B) (st : Store S)
    (hst : insertDesc P seed k = some st) :
    (∀ j v, j < 2 ^ P.B → getSecret P st j = some v → v = secretFor P seed j) ∧
    (∀ j, j < 2 ^ P.B - k → getSecret P st j = none) := by
  obtain ⟨st', hst', hinv⟩ := insertDesc_inv P seed k hk
  rw [hst] at hst'
  cases hst'
  exact ⟨fun j v hj hv => hinv.get_sound j hj v hv, fun j hj => hinv.get_none (by omega) j hj⟩

/-- **min_seen_tracks** — `get_min_seen_secret` is `2^B − k` after `k` inserts. -/
theorem min_seen_tracks (P : Params S) (seed : S) (k : Nat) (hk : k ≤ 2 ^ P.B) (st : Store S)
    (hst : insertDesc P seed k = some st) : getMinSeenSecret P st = 2 ^ P.B - k := by
  obtain ⟨st', hst', hinv⟩ := insertDesc_inv P seed k hk
  rw [hst] at hst'
  cases hst'
  exact hinv.min (by omega)

/-- The `assert!(idx < self.get_min_seen_secret())` of `get_secret` never fires on a store built
    by the channel's (descending) sequence, for any commitment number. -/
theorem get_secret_never_asserts (P : Params S) (seed : S) (k : Nat) (hk : k ≤ 2 ^ P.B)
    (st : Store S) (hst : insertDesc P seed k = some st) (j : Nat) (hj : j < 2 ^ P.B) :
    getSecretAsserts P st j = false := by
  obtain ⟨st', hst', hinv⟩ := insertDesc_inv P seed k hk
  rw [hst] at hst'
  cases hst'
  unfold getSecretAsserts
  by_cases hm : 2 ^ P.B - k ≤ j
  · rw [hinv.get j hm hj]; rfl
  · rw [hinv.min (by omega)]
    simp [hm]

/-- **secret_store_rejects** — if flip-bit-0-then-hash is injective (SHA-256 collision
    resistance enters here, as a hypothesis), then after any prefix of the channel's sequence a
    WRONG secret for the next commitment number `m` is refused whenever `m` is even (it then has a
    lower slot to be checked against: slot 0 holds `m + 1`).  `Err` leaves the store untouched:
    `provideSecret` returns no new store. -/
theorem secret_store_rejects (P : Params S) (seed : S)
    (hinj : ∀ a b : S, P.H (P.flip 0 a) = P.H (P.flip 0 b) → a = b)
    (k : Nat) (hk : k < 2 ^ P.B) (st : Store S) (hst : insertDesc P seed k = some st)
    (heven : (2 ^ P.B - (k + 1)) % 2 = 0) (hk0 : 0 < k)
    (s : S) (hs : s ≠ secretFor P seed (2 ^ P.B - (k + 1))) :
    provideSecret P st (2 ^ P.B - (k + 1)) s = none := by
  obtain ⟨st', hst', hinv⟩ := insertDesc_inv P seed k (by omega)
  rw [hst] at hst'
  cases hst'
  -- m := the next index (even); m + 1 = 2^B - k is the current minimum (odd), in slot 0
  generalize hm : 2 ^ P.B - (k + 1) = m at *
  have hmin : 2 ^ P.B - k = m + 1 := by omega
  rw [hmin] at hinv
  have hB : 1 ≤ P.B := by
    cases hb : P.B with
    | zero => rw [hb] at hk; simp at hk; omega
    | succ n => omega
  have hbit0 : m.testBit 0 = false := by
    rw [Nat.testBit_eq_decide_div_mod_eq]; simp [heven]
  have hpos : 1 ≤ placeSecret P.B m := by
    apply Nat.succ_le_of_lt
    apply Nat.pos_of_ne_zero
    intro h0
    have := place_bit P.B m (by omega)
    rw [h0, hbit0] at this
    cases this
  have hplace1 : placeSecret P.B (m + 1) = 0 := by
    have := place_add_two_pow P.B m (placeSecret P.B m) 0 (place_le _ _) (by omega) (place_low _ _)
    simpa using this
  have hslot0 := hinv.slot_min (by omega)
  rw [hplace1] at hslot0
  -- the consistency loop fails at slot 0
  unfold provideSecret
  simp only
  rw [if_neg]
  intro hcons
  rw [consistent_iff] at hcons
  have h0 := hcons 0 (by omega)
  rw [hslot0] at h0
  simp only at h0
  -- both sides are one flip-hash away: derive(·, p, m+1) = derive(·, p, 1) = H (flip 0 ·)
  have hcongr : ∀ x : S, deriveSecret P x (placeSecret P.B m) (m + 1) = P.H (P.flip 0 x) := by
    intro x
    rw [← derive_one P (placeSecret P.B m) x hpos]
    apply derive_congr
    intro b hb
    by_cases hb0 : b = 0
    · subst hb0
      rw [Nat.add_comm, show (1 : Nat) = 2 ^ 0 from rfl, Nat.testBit_two_pow_add_eq, hbit0]
      rfl
    · have hlow := place_low P.B m b hb
      have h1 : (m + 1).testBit b = m.testBit b := by
        rw [Nat.testBit_eq_decide_div_mod_eq, Nat.testBit_eq_decide_div_mod_eq]
        have hb1 : 1 ≤ b := by omega
        obtain ⟨c, hc⟩ : ∃ c, b = c + 1 := ⟨b - 1, by omega⟩
        have e : ∀ n : Nat, n / 2 ^ b = n / 2 / 2 ^ c := by
          intro n; rw [hc, Nat.pow_succ, Nat.mul_comm, Nat.div_div_eq_div_mul]
        rw [e, e]
        have : (m + 1) / 2 = m / 2 := by omega
        rw [this]
      rw [h1, hlow]
      have h2 : (2 ^ 0).testBit b = decide (0 = b) := Nat.testBit_two_pow
      rw [Nat.pow_zero] at h2
      rw [h2]; exact (decide_eq_false (fun e => hb0 e.symm)).symm
  have hid := derive_build P seed m (m + 1) (placeSecret P.B m) (place_le _ _) (place_mod _ _) (by
    have h2 : 2 ≤ 2 ^ placeSecret P.B m := by
      calc 2 = 2 ^ 1 := rfl
        _ ≤ 2 ^ placeSecret P.B m := Nat.pow_le_pow_right (by omega) hpos
    have hmod := place_mod P.B m
    obtain ⟨c, hc⟩ := Nat.dvd_of_mod_eq_zero hmod
    have hpp : 0 < 2 ^ placeSecret P.B m := Nat.two_pow_pos _
    rw [Nat.div_eq_of_eq_mul_right hpp hc]
    apply Nat.div_eq_of_lt_le
    · rw [Nat.mul_comm]; omega
    · rw [Nat.succ_mul, Nat.mul_comm]; omega)
  rw [hcongr] at h0 hid
  exact hs (hinj _ _ (h0.trans hid.symm))

/-- Definitional form of the check (no assumption): a secret that does not re-derive some stored
    lower slot is refused — by ANY store, whatever it holds. -/
theorem provide_refuses_inconsistent (P : Params S) (st : Store S) (idx : Nat) (s : S) (i : Nat)
    (hi : i < placeSecret P.B idx)
    (hne : deriveSecret P s (placeSecret P.B idx) (slot P st i).2 ≠ (slot P st i).1) :
    provideSecret P st idx s = none := by
  unfold provideSecret
  simp only
  rw [if_neg]
  intro hc
  rw [consistent_iff] at hc
  exact hne (hc i hi)

/-- An accepted `provide_secret` either stores `(secret, idx)` in slot `place_secret(idx)` — and
    only for an index BELOW everything seen — or changes nothing; it never touches another slot. -/
theorem provide_effect (P : Params S) (st st' : Store S) (idx : Nat) (s : S)
    (h : provideSecret P st idx s = some st') :
    (getMinSeenSecret P st ≤ idx ∧ st' = st) ∨
    (idx < getMinSeenSecret P st ∧ st' = st.set (placeSecret P.B idx) (s, idx)) := by
  unfold provideSecret at h
  simp only at h
  split at h
  · split at h
    · left; exact ⟨by assumption, by cases h; rfl⟩
    · right; exact ⟨by omega, by cases h; rfl⟩
  · cases h

/-- **Reload** — `read(write(store)) = store` for every store the code can hold (32-byte secrets,
    `u64` indices, any number of slots; the code: 49): the serialised form (49 × (32 + 8) bytes
    and an empty TLV stream) loses nothing, so every theorem above survives a monitor / channel
    reload verbatim. -/
theorem store_reload_roundtrip (st : Store Bytes) (h : WfStore st) :
    deserialize st.length (serialize st) = some st :=
  read_write st h

/-! ### Non-vacuity: small-width runs with a free (hence injective) symbolic hash.
    These are sanity runs of the executable model, not the claim. -/

/-- free term algebra: `flip` and `hash` are constructors, so flip-then-hash is injective -/
inductive Sym where
  | zero | seed | flip (b : Nat) (s : Sym) | hash (s : Sym)
  deriving DecidableEq

def P5 : Params Sym := { B := 5, zero := .zero, flip := .flip, H := .hash }

/-- after `k` descending inserts every index `≥ 2^5 − k` is answered with the sender's secret,
    every lower one with `none`, and the minimum is `2^5 − k` -/
def runOk (k : Nat) : Bool :=
  match insertDesc P5 .seed k with
  | none => false
  | some st =>
    (List.range 32).all (fun j =>
      getSecret P5 st j == (if 32 - k ≤ j then some (secretFor P5 .seed j) else none)) &&
    getMinSeenSecret P5 st == 32 - k && st.length == 6

example : (List.range 33).all runOk = true := by decide
-- hypotheses of `secret_store_rejects` are satisfiable, and its conclusion is observed:
example : ∀ a b : Sym, P5.H (P5.flip 0 a) = P5.H (P5.flip 0 b) → a = b := by
  intro a b h; injection h with h; injection h
example : (insertDesc P5 .seed 5).bind (fun st => provideSecret P5 st 26 (.hash (secretFor P5 .seed 26))) = none := by
  decide
example : ((insertDesc P5 .seed 5).bind (fun st => provideSecret P5 st 26 (secretFor P5 .seed 26))).isSome = true := by
  decide
-- a corrupted secret at an ODD index is not checked by the store (it has no lower slot) …
example : ((insertDesc P5 .seed 4).bind (fun st => provideSecret P5 st 27 .zero)).isSome = true := by decide
-- … and skipping ahead is refused when a lower slot is still empty (fresh store, even index):
example : provideSecret P5 (Store.new P5) 30 (secretFor P5 .seed 30) = none := by decide
example : WfStore (Store.new Params48) := by
  intro sl hsl
  have := List.eq_of_mem_replicate hsl
  subst this; exact ⟨by decide, by decide⟩
-- the code's instance: 49 slots, and the BOLT-3 appendix-D vector through the real SHA-256
example : Params48.B = 48 ∧ (Store.new Params48).length = 49 := by decide
#guard buildCommitmentSecret Params48 (List.replicate 32 0xff) 0xaaaaaaaaaaa ==
  [0x56,0xf4,0x00,0x8f,0xb0,0x07,0xca,0x9a,0xcf,0x0e,0x15,0xb0,0x54,0xd5,0xc9,0xfd,
   0x12,0xee,0x06,0xce,0xa3,0x47,0x91,0x4d,0xdb,0xae,0xd7,0x0d,0x1c,0x13,0xa5,0x28]

/-! ### Channel-level theorems (integrator)
    `revoke_only_after_newer_signed`, `never_sign_revoked_holder`, `at_most_one_outstanding`,
    `numbers_step_by_one`, `raa_checked`, `released_implies_update_durable` go BELOW this line.
    The names above (`secretFor`, `insertDesc`, `derivation_identity`, `slot_invariant_preserved`,
    `insertDesc_inv`, `secret_store_complete`, `get_secret_sound`, `min_seen_tracks`,
    `get_secret_never_asserts`, `secret_store_rejects`, `provide_refuses_inconsistent`,
    `provide_effect`, `store_reload_roundtrip`) are stable. -/

end Ldk.C05
