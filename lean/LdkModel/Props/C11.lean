/- C11 — On-chain conclusions depend only on the chain, not on how it was delivered.
   Property theorems only, about Model/ChainView.lean (the monitor's awaiting-threshold queue and its
   five chain notifications; maturity through the GENERATED `confirmationThreshold`).  Every theorem
   quantifies over all catalogs (what each transaction makes the monitor queue), all chains, all
   admissible op lists (`Adm` / `Presents`: any subset of a block's transactions, any number of
   repetitions, before or after the best-block update, skipping heights) and, where stated, all
   states.  Helper lemmas: Proofs/ChainView.lean. -/
import LdkModel.Proofs.ChainView
import LdkModel.Proofs.ClaimView
import LdkModel.Proofs.Unconfirm
import LdkModel.Proofs.FundConf
namespace Ldk.C11
open Ldk Ldk.ChainView Ldk.ClaimHeights

/-- The generated threshold is never below the anti-reorg depth: an event queued at height `h`
    reaches its threshold at a best height `b` only if `b - h + 1 ≥ ANTI_REORG_DELAY`. -/
theorem threshold_ge_anti_reorg (h : Nat) (csv : Option Nat) :
    confirmationThreshold h csv + 1 ≥ h + ANTI_REORG_DELAY :=
  ChainView.threshold_ge h csv

/-- non-vacuity: without a CSV delay the bound is tight -/
example : confirmationThreshold 100 none + 1 = 100 + ANTI_REORG_DELAY := by decide

/-- Irrevocable only when buried.  From ANY state, after ANY op list `pre`, whatever op comes next:
    an entry that this op moves into `matured` is, at that moment, buried by at least
    ANTI_REORG_DELAY blocks as far as the monitor's best height goes. -/
theorem irrevocable_only_when_buried (cat : Catalog) (s : St) (pre : List Op) (op : Op) (e : Entry)
    (hnew : e ∈ (run cat s (pre ++ [op])).matured) (hold : e ∉ (run cat s pre).matured) :
    (run cat s (pre ++ [op])).best + 1 ≥ e.height + ANTI_REORG_DELAY := by
  rw [run_append] at hnew ⊢
  have h1 := step_matured_reached cat (run cat s pre) op e hnew hold
  have h2 := (reached_iff _ _).1 h1
  have h3 := e.threshold_ge
  show (step cat (run cat s pre) op).best + 1 ≥ _
  omega

/-- non-vacuity: an entry does mature (here exactly when the sixth block is announced) -/
example :
    let cat : Catalog := fun _ => [{ kind := 2, csv := none }]
    (run cat (init 99) [.txsConfirmed 100 [7], .bestBlock 104]).matured = [] ∧
    (run cat (init 99) [.txsConfirmed 100 [7], .bestBlock 104, .bestBlock 105]).matured
      = [{ txid := 7, height := 100, ev := { kind := 2, csv := none } }] := by decide

/-- Re-delivery is idempotent: announcing the same confirmation twice in a row is the same as
    once — in every state, for every transaction list (duplicates inside the list included). -/
theorem redelivery_idempotent (cat : Catalog) (s : St) (h : Nat) (txs : List Nat) :
    txsConfirmed cat (txsConfirmed cat s h txs) h txs = txsConfirmed cat s h txs := by
  apply txsConfirmed_noop
  · intro t ht
    rcases known_after_addTxs cat h txs s t ht with h1 | h1
    · left
      unfold txsConfirmed
      rw [known_mature]
      exact h1
    · exact Or.inr h1
  · rw [txsConfirmed_best]; omega
  · intro e he
    exact (mem_mature_awaiting.1 he).2

/-- the same through `step`, for both the Listen and the Confirm notification -/
theorem redelivery_idempotent_step (cat : Catalog) (s : St) (h : Nat) (txs : List Nat) :
    step cat (step cat s (.blockConnected h txs)) (.blockConnected h txs) = step cat s (.blockConnected h txs) ∧
    step cat (step cat s (.txsConfirmed h txs)) (.txsConfirmed h txs) = step cat s (.txsConfirmed h txs) :=
  ⟨redelivery_idempotent cat s h txs, redelivery_idempotent cat s h txs⟩

/-- non-vacuity: the first delivery does change the state -/
example :
    let cat : Catalog := fun _ => [{ kind := 1, csv := some 144 }]
    txsConfirmed cat (init 99) 100 [7] ≠ init 99 := by decide

/-- A re-delivery at any later time (the "highly redundant" client): in a state where nothing
    awaiting has reached its threshold — every state `run` produces from `init`, see
    `Inv.aw` — announcing again transactions that are all known, at a height not above the best
    one, changes nothing. -/
theorem late_redelivery_noop (cat : Catalog) (s : St) (h : Nat) (txs : List Nat)
    (hknown : ∀ t ∈ txs, known s t = true ∨ cat t = []) (hh : h ≤ s.best)
    (hsettled : ∀ e ∈ s.awaiting, e.reached s.best = false) :
    step cat s (.txsConfirmed h txs) = s :=
  txsConfirmed_noop hknown hh hsettled

example :
    let cat : Catalog := fun _ => [{ kind := 1, csv := none }]
    let s := run cat (init 99) [.txsConfirmed 100 [7], .bestBlock 103]
    (∀ t ∈ [7], known s t = true ∨ cat t = []) ∧ 100 ≤ s.best ∧ (∀ e ∈ s.awaiting, e.reached s.best = false) := by
  decide

/-- The conclusion is a function of the chain: ANY admissible fork-free presentation of `c` ends
    in the canonical state (best = tip; every entry of the chain awaiting or matured according to
    its threshold against the tip). -/
theorem delivery_conclusion_canonical (cat : Catalog) (b0 : Nat) (c : Chain) (ops : List Op)
    (hwf : WF c) (hp : Presents b0 c ops) : Equiv (run cat (init b0) ops) (canon cat b0 c) :=
  presents_canon hwf hp

/-- Delivery-style independence: any two admissible presentations of the same chain — whole
    blocks, transactions-first, best-block-first, partial blocks in several calls, any
    duplication, skipped heights, later blocks' transactions before earlier ones' — agree on
    `best`, and on `awaiting` and `matured` as sets. -/
theorem delivery_style_independent (cat : Catalog) (b0 : Nat) (c : Chain) (ops₁ ops₂ : List Op)
    (hwf : WF c) (h₁ : Presents b0 c ops₁) (h₂ : Presents b0 c ops₂) :
    Equiv (run cat (init b0) ops₁) (run cat (init b0) ops₂) :=
  (presents_canon hwf h₁).trans (presents_canon hwf h₂).symm

/-- The concrete styles are admissible: every per-block mix of {Listen whole block, optionally
    preceded by an empty filtered block; Confirm transactions-first; Confirm best-block-first},
    each with arbitrary duplication of either call, presents a height-sorted chain. -/
theorem styles_admissible (style : Block → BlockStyle) (b0 : Nat) (c : Chain) (hs : Sorted b0 c) :
    Presents b0 c (presents style c) :=
  presents_Presents style hs

/-- … hence any two style mixes agree. -/
theorem delivery_style_independent_styles (cat : Catalog) (style₁ style₂ : Block → BlockStyle)
    (b0 : Nat) (c : Chain) (hs : Sorted b0 c) (hwf : WF c) :
    Equiv (run cat (init b0) (presents style₁ c)) (run cat (init b0) (presents style₂ c)) :=
  delivery_style_independent cat b0 c _ _ hwf (styles_admissible style₁ b0 c hs) (styles_admissible style₂ b0 c hs)

/-- Skipping: announcing only the blocks that contain relevant transactions, and the last one
    (`best_block_updated` "may be skipped for intermediary blocks"), is admissible too, hence agrees
    with every block-by-block presentation. -/
theorem skipping_admissible (style : Block → BlockStyle) (b0 : Nat) (c : Chain) (hs : Sorted b0 c) :
    Presents b0 c (presentsSkipping style c) :=
  presentsSkipping_Presents style hs

theorem delivery_style_independent_skipping (cat : Catalog) (style₁ style₂ : Block → BlockStyle)
    (b0 : Nat) (c : Chain) (hs : Sorted b0 c) (hwf : WF c) :
    Equiv (run cat (init b0) (presentsSkipping style₁ c)) (run cat (init b0) (presents style₂ c)) :=
  delivery_style_independent cat b0 c _ _ hwf (skipping_admissible style₁ b0 c hs) (styles_admissible style₂ b0 c hs)

example :
    let c : Chain := [⟨101, [1]⟩, ⟨102, []⟩, ⟨103, []⟩, ⟨104, [2]⟩, ⟨105, []⟩, ⟨106, []⟩]
    presentsSkipping (fun _ => {}) c =
      [.txsConfirmed 101 [1], .bestBlock 101, .txsConfirmed 104 [2], .bestBlock 104, .txsConfirmed 106 [], .bestBlock 106] := by
  decide

/-- Highly redundant: re-announcing every earlier non-empty block's transactions before each new
    block is admissible as well. -/
theorem redundant_admissible (style : Block → BlockStyle) (b0 : Nat) (c : Chain) (hs : Sorted b0 c) :
    Presents b0 c (presentsRedundant style [] c) :=
  presentsRedundant_Presents style hs

example :
    let c : Chain := [⟨101, [1]⟩, ⟨102, []⟩, ⟨103, [2]⟩]
    presentsRedundant (fun _ => {}) [] c =
      [.txsConfirmed 101 [1], .bestBlock 101, .txsConfirmed 101 [1], .txsConfirmed 102 [], .bestBlock 102,
       .txsConfirmed 101 [1], .txsConfirmed 103 [2], .bestBlock 103] := by decide

/-- non-vacuity: three genuinely different op lists for one chain, equal conclusions (here even
    as lists), and a conclusion that is not trivial -/
example :
    let cat : Catalog := fun t => if t = 1 then [{ kind := 2, csv := none }, { kind := 1, csv := none }] else [{ kind := 3, csv := some 8 }]
    let c : Chain := [⟨101, [1]⟩, ⟨102, []⟩, ⟨103, [2]⟩, ⟨106, []⟩]
    let whole : Block → BlockStyle := fun _ => { listen := true }
    let txFirstDup : Block → BlockStyle := fun _ => { dupTx := 2 }
    let bestFirst : Block → BlockStyle := fun _ => { bestFirst := true, dupBest := 1 }
    presents whole c ≠ presents txFirstDup c ∧ presents txFirstDup c ≠ presents bestFirst c ∧
    run cat (init 100) (presents whole c) = run cat (init 100) (presents txFirstDup c) ∧
    run cat (init 100) (presents whole c) = run cat (init 100) (presents bestFirst c) ∧
    (run cat (init 100) (presents whole c)).matured.length = 2 ∧
    (run cat (init 100) (presents whole c)).awaiting.length = 1 := by decide

example : Sorted 100 [⟨101, [1]⟩, ⟨102, []⟩, ⟨103, [2]⟩, ⟨106, []⟩] := by simp [Sorted]

/-- Shallow reorg retracts.  After any admissible presentation of `c`, disconnecting to a height
    `h` below the tip — from a state in which everything matured had already matured by `h` —
    gives exactly the canonical state of the chain truncated at `h`. -/
theorem shallow_reorg_retracts (cat : Catalog) (b0 : Nat) (c : Chain) (ops : List Op) (h : Nat)
    (hwf : WF c) (hp : Presents b0 c ops) (hb : b0 ≤ h) (hlt : h < tip b0 c)
    (hblk : h = b0 ∨ ∃ b ∈ c, b.height = h)
    (hmat : ∀ e ∈ (run cat (init b0) ops).matured, e.threshold ≤ h) :
    Equiv (step cat (run cat (init b0) ops) (.blocksDisconnected h)) (canon cat b0 (truncate c h)) := by
  obtain ⟨i1, i2⟩ := presents_inv (cat := cat) hwf hp
  rw [step_blocksDisconnected_lt cat (by omega)]
  have ht := tip_truncate (c := c) hb hblk
  refine ⟨by simp [rewindTo, canon, ht], fun e => ?_, fun e => ?_⟩
  · simp only [rewindTo, canon, ht, List.mem_filter, decide_eq_true_eq, mem_chainEntries_truncate,
      Bool.not_eq_eq_eq_not, Bool.not_true]
    constructor
    · rintro ⟨h1, h2⟩
      have h3 := (reached_false_iff _ _).1 (i1.aw e h1)
      exact ⟨⟨((i1.mem e).1 (Or.inl h1)).1, h2⟩, (reached_false_iff _ _).2 (by omega)⟩
    · rintro ⟨⟨h1, h2⟩, h3⟩
      rcases (i1.mem e).2 ⟨h1, hp.complete _ _ (mem_chainEntries.1 h1).1⟩ with h4 | h4
      · exact ⟨h4, h2⟩
      · have := hmat e h4
        have := (reached_false_iff _ _).1 h3
        omega
  · simp only [rewindTo, canon, ht, List.mem_filter, mem_chainEntries_truncate]
    constructor
    · intro h1
      have h2 := hmat e h1
      have h3 := e.threshold_ge
      have : ANTI_REORG_DELAY = 6 := rfl
      exact ⟨⟨((i1.mem e).1 (Or.inr h1)).1, by omega⟩, (reached_iff _ _).2 h2⟩
    · rintro ⟨⟨h1, _⟩, h3⟩
      rcases (i1.mem e).2 ⟨h1, hp.complete _ _ (mem_chainEntries.1 h1).1⟩ with h4 | h4
      · have h5 := (reached_false_iff _ _).1 (i1.aw e h4)
        have h6 := (reached_iff _ _).1 h3
        omega
      · exact h4

/-- … and a reorg shallower than ANTI_REORG_DELAY leaves nothing (awaiting or matured) of the
    blocks it removes, whatever had matured below. -/
theorem shallow_reorg_removes_all (cat : Catalog) (b0 : Nat) (c : Chain) (ops : List Op) (h : Nat)
    (hwf : WF c) (hp : Presents b0 c ops) (hlt : h < tip b0 c)
    (hd : tip b0 c < h + ANTI_REORG_DELAY) :
    let s := step cat (run cat (init b0) ops) (.blocksDisconnected h)
    s.best = h ∧ (∀ e, e ∈ s.awaiting ∨ e ∈ s.matured → e.height ≤ h) ∧
    (∀ e, e ∈ chainEntries cat c → e.height ≤ h → e ∈ s.awaiting ∨ e ∈ s.matured) := by
  obtain ⟨i1, i2⟩ := presents_inv (cat := cat) hwf hp
  simp only
  rw [step_blocksDisconnected_lt cat (by omega)]
  have i3 := rewindTo_inv (h := h) (by omega) hd i1
  refine ⟨rfl, fun e he => ?_, fun e h1 h2 => ?_⟩
  · exact (mem_chainEntries_truncate.1 ((i3.mem e).1 he).1).2
  · exact (i3.mem e).2 ⟨mem_chainEntries_truncate.2 ⟨h1, h2⟩, hp.complete _ _ (mem_chainEntries.1 h1).1⟩

/-- non-vacuity: a depth-3 reorg over a block containing a transaction, nothing matured yet -/
example :
    let cat : Catalog := fun _ => [{ kind := 2, csv := none }]
    let c : Chain := [⟨101, [1]⟩, ⟨102, [2]⟩, ⟨103, []⟩, ⟨104, []⟩]
    let s := run cat (init 100) (presents (fun _ => {}) c)
    s.awaiting.length = 2 ∧ s.matured = [] ∧
    step cat s (.blocksDisconnected 101) = canon cat 100 (truncate c 101) ∧
    (canon cat 100 (truncate c 101)).awaiting.length = 1 := by decide

/-- Connected-then-disconnected fork (semantic form).  `opsF` admissibly presents (part of) a
    fork chain `cF`; `rws` is any op list acting as one rewind to the fork point height `h`;
    `opsFin` admissibly presents the blocks above `h` of the final chain `c'`, which agrees with
    `cF` up to `h`.  If the fork is shallower than ANTI_REORG_DELAY and the final chain is at least
    as high as the fork was, the conclusion is the canonical one of `c'` — as if the fork had never
    been seen.  PARTIAL: what is missing is the Confirm client that reports a reorg with
    `transaction_unconfirmed` only (`Rewind.unconfirmOnly`): there the monitor's best height stays
    at the fork's tip until the new chain passes it, which `Adm` (best never goes backwards) does
    not cover; that style is covered by the c11 correspondence only. -/
theorem fork_then_final_canonical_partial (cat : Catalog) (cF c' : Chain) (b0 h : Nat)
    (opsF rws opsFin : List Op) (hwfF : WF cF) (hwf : WF c')
    (hagree : ∀ k t, k ≤ h → (inChain c' k t ↔ inChain cF k t))
    (haF : Adm cF b0 opsF)
    (hh : h < topHeight b0 opsF) (hd : topHeight b0 opsF < h + ANTI_REORG_DELAY)
    (hrw : ∀ s : St, s.best = topHeight b0 opsF → run cat s rws = rewindTo s h)
    (haFin : Adm c' h opsFin)
    (hcomplete : ∀ k t, inChain c' k t → t ∈ delivered opsFin ∨ (k ≤ h ∧ t ∈ delivered opsF))
    (htop : topHeight h opsFin = tip b0 c') (hge : topHeight b0 opsF ≤ tip b0 c') :
    Equiv (run cat (init b0) (opsF ++ rws ++ opsFin)) (canon cat b0 c') :=
  fork_canon hwfF hwf hagree haF hh hd hrw haFin hcomplete htop hge

/-- The four rewinds that announce the lower best height — one `blocks_disconnected`, one per
    block, one `best_block_updated(fork point)`, one per block — all act as one rewind
    (hypothesis `hrw` above). -/
theorem rewinds_act_as_one (cat : Catalog) (r : Rewind) (fork : Chain) (tipH h : Nat) (s : St)
    (hr : r ≠ .unconfirmOnly) (hh : h < tipH) (hs : s.best = tipH) :
    run cat s (rewindOps r fork tipH h) = rewindTo s h :=
  run_rewindOps cat r fork hr hh hs

/-- Connected-then-disconnected fork, concrete form: `pre` is the common prefix (up to the fork
    point height `h`), `forkB` the competing blocks, `final` the final chain's blocks above `h`.
    For every per-block style mix and each of the four best-height-announcing rewinds, a fork
    shallower than ANTI_REORG_DELAY (and not higher than the final chain) leaves no trace: the
    conclusion is the canonical one of `pre ++ final`.  PARTIAL for the same reason as above
    (`Rewind.unconfirmOnly` excluded). -/
theorem fork_styles_canonical_partial (cat : Catalog) (style : Block → BlockStyle) (r : Rewind)
    (hr : r ≠ .unconfirmOnly) (pre forkB final : Chain) (b0 h : Nat)
    (hsF : Sorted b0 (pre ++ forkB)) (hsC : Sorted b0 (pre ++ final))
    (hpre : ∀ b ∈ pre, b.height ≤ h) (hforkB : ∀ b ∈ forkB, h < b.height) (hfin : ∀ b ∈ final, h < b.height)
    (hb0 : b0 ≤ h) (hne : forkB ≠ [])
    (hwfF : WF (pre ++ forkB)) (hwf : WF (pre ++ final))
    (hd : tip b0 (pre ++ forkB) < h + ANTI_REORG_DELAY) (hge : tip b0 (pre ++ forkB) ≤ tip b0 (pre ++ final)) :
    Equiv (run cat (init b0) (presentsFork style r pre forkB final b0 h)) (canon cat b0 (pre ++ final)) :=
  fork_styles_canon style r hr pre forkB final b0 h hsF hsC hpre hforkB hfin hb0 hne hwfF hwf hd hge

/-- … so a fork-then-final delivery agrees with every fork-free presentation of the final chain,
    whatever the fork contained. -/
theorem fork_vs_forkfree_partial (cat : Catalog) (style : Block → BlockStyle) (r : Rewind)
    (hr : r ≠ .unconfirmOnly) (pre forkB final : Chain) (b0 h : Nat) (ops : List Op)
    (hsF : Sorted b0 (pre ++ forkB)) (hsC : Sorted b0 (pre ++ final))
    (hpre : ∀ b ∈ pre, b.height ≤ h) (hforkB : ∀ b ∈ forkB, h < b.height) (hfin : ∀ b ∈ final, h < b.height)
    (hb0 : b0 ≤ h) (hne : forkB ≠ [])
    (hwfF : WF (pre ++ forkB)) (hwf : WF (pre ++ final))
    (hd : tip b0 (pre ++ forkB) < h + ANTI_REORG_DELAY) (hge : tip b0 (pre ++ forkB) ≤ tip b0 (pre ++ final))
    (hp : Presents b0 (pre ++ final) ops) :
    Equiv (run cat (init b0) (presentsFork style r pre forkB final b0 h)) (run cat (init b0) ops) :=
  (fork_styles_canonical_partial cat style r hr pre forkB final b0 h hsF hsC hpre hforkB hfin hb0 hne hwfF hwf hd hge).trans
    (presents_canon hwf hp).symm

/-- the depth bound is needed: at depth ANTI_REORG_DELAY an entry of the fork's first block has
    matured and stays, although the final chain does not contain its transaction -/
example :
    let cat : Catalog := fun _ => [{ kind := 2, csv := none }]
    let forkB : Chain := [⟨101, [9]⟩, ⟨102, []⟩, ⟨103, []⟩, ⟨104, []⟩, ⟨105, []⟩, ⟨106, []⟩]
    let final : Chain := [⟨101, []⟩, ⟨107, []⟩]
    (run cat (init 100) (presentsFork (fun _ => {}) .listenOnce [] forkB final 100 100)).matured.length = 1 ∧
    (canon cat 100 final).matured = [] := by decide

/-- non-vacuity of the fork theorem's shape: a depth-2 fork containing the commitment-like
    transaction 1 one block later than the final chain has it, all five rewinds, two styles; the
    conclusions coincide with the fork-free presentation of the final chain. -/
example :
    let cat : Catalog := fun _ => [{ kind := 2, csv := none }, { kind := 1, csv := some 4 }]
    let pre : Chain := [⟨101, []⟩]
    let forkB : Chain := [⟨102, []⟩, ⟨103, [1]⟩]
    let final : Chain := [⟨102, [1]⟩, ⟨103, []⟩, ⟨104, []⟩, ⟨108, []⟩]
    let whole : Block → BlockStyle := fun _ => { listen := true }
    let bestFirst : Block → BlockStyle := fun _ => { bestFirst := true }
    let goal := run cat (init 100) (presents whole (pre ++ final))
    goal.matured.length = 2 ∧
    run cat (init 100) (presentsFork whole .listenOnce pre forkB final 100 101) = goal ∧
    run cat (init 100) (presentsFork whole .listenEach pre forkB final 100 101) = goal ∧
    run cat (init 100) (presentsFork bestFirst .bestOnce pre forkB final 100 101) = goal ∧
    run cat (init 100) (presentsFork bestFirst .bestEach pre forkB final 100 101) = goal ∧
    run cat (init 100) (presentsFork bestFirst .unconfirmOnly pre forkB final 100 101) = goal := by decide

/-! ## Claims layer: `OnchainTxHandler::claimable_outpoints` with creation heights

Histories are arbitrary lists of `COp` — every chain notification of the Listen / Confirm
contracts (`block_connected`, `transactions_confirmed`, `best_block_updated`, `blocks_disconnected`)
in any order, with any heights and transaction lists, interleaved with `provide_payment_preimage`
calls at any point.  `C` is the commitment transaction (the one transaction for which the monitor
queues a FundingSpendConfirmation), `K` the catalog of its tracked outputs — outputs of the
counterparty's commitment (`holder = false`, CounterpartyOfferedHTLCOutput) and of OUR OWN
(`holder = true`, HolderHTLCOutput) alike: since repo commit 0461f57 provide_payment_preimage dates
a late holder claim at `confirmed_spend_height.unwrap_or(best)` (translated on every run; reverting
that commit regenerates `holderPreimageOutpointHeight _ best := best` and breaks
`late_holder_preimage_request_dated_at_confirmation` and the invariant proofs).  The theorems start
from a monitor with no claim registered (claims a force-closing node registers at broadcast time,
dated before the confirmation, are in the correspondence only) and are `_partial` because

* histories containing `transaction_unconfirmed` are excluded (`NoUnconf`): the Confirm client that
  reports a re-org only that way never reaches OnchainTxHandler::blocks_disconnected for a
  transaction the handler does not track, so claims outlive their parent
  (see the last example of this file); that style is covered by the c11 correspondence;
* "not lost" is proved while the commitment is confirmed but NOT YET IRREVOCABLE
  (`¬ FscMat`): once `funding_spend_confirmed` is set, the real code dates a new preimage claim at the
  tip — for either commitment kind — and a one-block re-org drops it:
  `no_claim_lost_fails_after_final` (KF-C11-4), a kernel-checked counter-example of the full
  statement in the model, reproduced on the real code by the harness oracle O1. -/

/-- What the Rust text says, as translated on this run: a preimage claim built while the commitment's
    FundingSpendConfirmation is still awaiting carries that entry's height, registration dates the
    claim there (not at the tip), a claim made when the commitment confirms is dated at that block,
    and a re-org to `nb` drops exactly the claims / handler entries dated above `nb`. -/
theorem late_preimage_request_dated_at_confirmation (h best : Nat) :
    preimageSpendHeight false (some h) best = some (some h) ∧
    claimCreationHeight (some h) best = h ∧
    counterpartyConfirmOutpointHeight h = some h ∧
    (∀ c nb, claimDropped c nb = true ↔ nb < c) ∧
    (∀ hh nb, handlerEntryDropped hh nb = true ↔ nb < hh) :=
  ⟨rfl, rfl, rfl, claimDropped_iff, handlerEntryDropped_iff⟩

example : claimCreationHeight none 107 = 107 ∧ claimDropped 103 102 = true ∧ claimDropped 103 103 = false := by decide

/-- The holder branch, as translated on this run: a preimage claim on OUR commitment built while its
    FundingSpendConfirmation is awaiting at `h` is stored with `Some(h)` (not with the tip), a claim
    made when our commitment is seen confirming is stored with that block's height, and only once the
    spend is irrevocable does the request fall back to the tip. -/
theorem late_holder_preimage_request_dated_at_confirmation (h best : Nat) :
    holderStoredHeight (holderPreimageOutpointHeight (some h) best) = some h ∧
    holderStoredHeight (holderConfirmOutpointHeight h) = some h ∧
    holderStoredHeight (holderPreimageOutpointHeight none best) = some best :=
  ⟨rfl, rfl, rfl⟩

example : claimCreationHeight (holderStoredHeight (holderPreimageOutpointHeight (some 100) 103)) 103 = 100 := by decide

/-- Every claim is dated at its parent's confirmation.  After ANY history (no
    `transaction_unconfirmed`), a claim the monitor holds on an output of the commitment `C`
    (the counterparty's or our own) with creation height `c` means: `C`'s FundingSpendConfirmation is awaiting at
    exactly height `c`, or `C` is irrevocably confirmed. -/
theorem claim_dated_at_parent_confirmation_partial (cat : Catalog) (K : ClaimCat) (C : Nat)
    (hK : OneCommitment cat K C) (b0 : Nat) (ops : List COp) (hnu : NoUnconf ops)
    (o : Nat) (i : OutInfo) (c : Nat) (hoi : (o, i) ∈ K.outs)
    (hx : (⟨o, c⟩ : Claim) ∈ (crun cat K (cinit b0) ops).claims) :
    FscAw C (crun cat K (cinit b0) ops).st c ∨ FscMat C (crun cat K (cinit b0) ops).st :=
  (crun_inv (U := fun _ => False) hK hnu (fun _ _ _ _ h => h) (cinit_inv cat K C _ b0)).dated o i c hoi hx

/-- … and its preimage is known. -/
theorem claim_only_with_preimage_partial (cat : Catalog) (K : ClaimCat) (C : Nat)
    (hK : OneCommitment cat K C) (b0 : Nat) (ops : List COp) (hnu : NoUnconf ops)
    (o : Nat) (i : OutInfo) (c : Nat) (hoi : (o, i) ∈ K.outs)
    (hx : (⟨o, c⟩ : Claim) ∈ (crun cat K (cinit b0) ops).claims) :
    preKnown (preimagesOf ops) i.needs = true := by
  have h1 := (crun_inv (U := fun _ => False) hK hnu (fun _ _ _ _ h => h) (cinit_inv cat K C _ b0)).preK o i c hoi hx
  exact preKnown_mono (fun q hq => by
    rcases (crun_pre cat K (cinit b0) ops q).1 hq with h2 | h2
    · simp [cinit] at h2
    · exact h2) h1

/-- No claim is lost.  After ANY history (connects, disconnects to any fork point, preimages at any
    moment, in any order; no `transaction_unconfirmed`): if the monitor holds `C` confirmed at height
    `c` and not yet irrevocable, then every output of `C` whose preimage was provided at some point
    of the history and which no delivered transaction spends has its claim pending, dated `c`. -/
theorem no_claim_lost_partial (cat : Catalog) (K : ClaimCat) (C : Nat)
    (hK : OneCommitment cat K C) (b0 : Nat) (ops : List COp) (hnu : NoUnconf ops)
    (o : Nat) (i : OutInfo) (hoi : (o, i) ∈ K.outs)
    (hunspent : ∀ t ∈ delivered (chainOps ops), o ∉ K.spends t)
    (hpre : preKnown (preimagesOf ops) i.needs = true)
    (c : Nat) (hconf : FscAw C (crun cat K (cinit b0) ops).st c)
    (hnf : ¬ FscMat C (crun cat K (cinit b0) ops).st) :
    (⟨o, c⟩ : Claim) ∈ (crun cat K (cinit b0) ops).claims := by
  have hI := crun_inv (U := fun x => x = o) hK hnu
    (fun t ht o' ho' he => hunspent t ht (he ▸ ho')) (cinit_inv cat K C _ b0)
  refine hI.kept o i c hoi rfl ?_ hconf hnf
  exact preKnown_mono (fun q hq => (crun_pre cat K (cinit b0) ops q).2 (Or.inr hq)) hpre

/-- … spelled out for OUR OWN commitment (the repaired KF-C11-3 shape): a preimage claim on the holder
    commitment — whenever the preimage arrived — is pending and dated at the commitment's confirmation
    height while that commitment is confirmed and not yet irrevocable, after any history. -/
theorem holder_claim_kept_and_dated_partial (cat : Catalog) (K : ClaimCat) (C : Nat)
    (hK : OneCommitment cat K C) (b0 : Nat) (ops : List COp) (hnu : NoUnconf ops)
    (o : Nat) (i : OutInfo) (hoi : (o, i) ∈ K.outs) (_hh : i.holder = true)
    (hunspent : ∀ t ∈ delivered (chainOps ops), o ∉ K.spends t)
    (hpre : preKnown (preimagesOf ops) i.needs = true)
    (c : Nat) (hconf : FscAw C (crun cat K (cinit b0) ops).st c)
    (hnf : ¬ FscMat C (crun cat K (cinit b0) ops).st) :
    (⟨o, c⟩ : Claim) ∈ (crun cat K (cinit b0) ops).claims ∧
    ∀ c', (⟨o, c'⟩ : Claim) ∈ (crun cat K (cinit b0) ops).claims → c' = c := by
  refine ⟨no_claim_lost_partial cat K C hK b0 ops hnu o i hoi hunspent hpre c hconf hnf, fun c' hx => ?_⟩
  rcases claim_dated_at_parent_confirmation_partial cat K C hK b0 ops hnu o i c' hoi hx with h1 | h1
  · exact FscAw_unique (crun_inv (U := fun _ => False) hK hnu (fun _ _ _ _ h => h) (cinit_inv cat K C _ b0)).base h1 hconf
  · exact absurd h1 hnf

/-- non-vacuity: commitment 1 confirms at 100, the preimage arrives three blocks later, a fork
    replaces the two blocks above 101 — the claim is registered at the preimage, dated 100, and
    still there after the re-org, under either kind of rewind -/
example :
    let cat : Catalog := fun t => if t = 1 then [{ kind := 2, csv := none }] else []
    let K : ClaimCat := { outs := [(7, { parent := 1, needs := some 5, holder := false })], spends := fun _ => [] }
    let pre : List COp := [.chain (.blockConnected 100 [1]), .chain (.bestBlock 103), .preimage 5]
    (crun cat K (cinit 99) pre).claims = [⟨7, 100⟩] ∧
    (crun cat K (cinit 99) (pre ++ [.chain (.blocksDisconnected 101)])).claims = [⟨7, 100⟩] ∧
    (crun cat K (cinit 99) (pre ++ [.chain (.bestBlock 100), .chain (.txsConfirmed 101 [])])).claims = [⟨7, 100⟩] ∧
    (crun cat K (cinit 99) [.chain (.blockConnected 100 [1]), .chain (.bestBlock 103)]).claims = [] := by decide

/-- A re-org that leaves the commitment confirmed loses nothing (the C11-a shape).  After any
    history, with `C` awaiting at height `c`: rewinding to ANY fork point `h ≥ c` — by
    `blocks_disconnected(h)` or by `best_block_updated(h)` — keeps the claim of every unspent output
    whose preimage is known, still dated `c`. -/
theorem reorg_above_commitment_keeps_claims_partial (cat : Catalog) (K : ClaimCat) (C : Nat)
    (hK : OneCommitment cat K C) (b0 : Nat) (ops : List COp) (hnu : NoUnconf ops)
    (o : Nat) (i : OutInfo) (hoi : (o, i) ∈ K.outs)
    (hunspent : ∀ t ∈ delivered (chainOps ops), o ∉ K.spends t)
    (hpre : preKnown (preimagesOf ops) i.needs = true)
    (c : Nat) (hconf : FscAw C (crun cat K (cinit b0) ops).st c)
    (hnf : ¬ FscMat C (crun cat K (cinit b0) ops).st) (h : Nat) (hch : c ≤ h)
    (hbelow : h ≤ (crun cat K (cinit b0) ops).st.best) :
    (⟨o, c⟩ : Claim) ∈ (cstep cat K (crun cat K (cinit b0) ops) (.chain (.blocksDisconnected h))).claims ∧
    (⟨o, c⟩ : Claim) ∈ (cstep cat K (crun cat K (cinit b0) ops) (.chain (.bestBlock h))).claims := by
  have hI := crun_inv (U := fun x => x = o) hK hnu
    (fun t ht o' ho' he => hunspent t ht (he ▸ ho')) (cinit_inv cat K C _ b0)
  have hk : preKnown (crun cat K (cinit b0) ops).pre i.needs = true :=
    preKnown_mono (fun q hq => (crun_pre cat K (cinit b0) ops q).2 (Or.inr hq)) hpre
  have hin := hI.kept o i c hoi rfl hk hconf hnf
  have hrw : (⟨o, c⟩ : Claim) ∈ (cRewind K (crun cat K (cinit b0) ops) h).claims :=
    (mem_handlerDisconnect_claims (hAw := (crun cat K (cinit b0) ops).hAw)).2 ⟨hin, hch⟩
  constructor
  · show _ ∈ (cBlocksDisconnected K _ h).claims
    unfold cBlocksDisconnected
    split
    · exact hrw
    · exact hin
  · show _ ∈ (cBestBlock K _ h).claims
    unfold cBestBlock
    split
    · omega
    · exact hrw

/-- Claims whose parent was disconnected are dropped: in any reachable state in which the monitor
    does not hold `C` confirmed (neither awaiting nor irrevocable) there is no claim on an output of
    `C`; in particular after rewinding below `C`'s height. -/
theorem claims_dropped_when_parent_disconnected_partial (cat : Catalog) (K : ClaimCat) (C : Nat)
    (hK : OneCommitment cat K C) (b0 : Nat) (ops : List COp) (hnu : NoUnconf ops)
    (hgone : known (crun cat K (cinit b0) ops).st C = false)
    (o : Nat) (i : OutInfo) (c : Nat) (hoi : (o, i) ∈ K.outs) :
    (⟨o, c⟩ : Claim) ∉ (crun cat K (cinit b0) ops).claims := by
  intro hx
  rcases claim_dated_at_parent_confirmation_partial cat K C hK b0 ops hnu o i c hoi hx with h1 | h1
  · rw [FscAw_known h1] at hgone; cases hgone
  · rw [FscMat_known h1] at hgone; cases hgone

/-- … the rewind form: `C` awaiting at `c`, not irrevocable; after `blocks_disconnected(h)` with
    `h < c` the monitor no longer knows `C` and holds no claim on its outputs. -/
theorem reorg_below_commitment_drops_claims_partial (cat : Catalog) (K : ClaimCat) (C : Nat)
    (hK : OneCommitment cat K C) (b0 : Nat) (ops : List COp) (hnu : NoUnconf ops)
    (c : Nat) (hconf : FscAw C (crun cat K (cinit b0) ops).st c)
    (hnf : ¬ FscMat C (crun cat K (cinit b0) ops).st) (hcat : ∀ ev ∈ cat C, ev.kind = 2)
    (h : Nat) (hlt : h < c) (hbest : c ≤ (crun cat K (cinit b0) ops).st.best)
    (o : Nat) (i : OutInfo) (c' : Nat) (hoi : (o, i) ∈ K.outs) :
    (⟨o, c'⟩ : Claim) ∉ (crun cat K (cinit b0) (ops ++ [.chain (.blocksDisconnected h)])).claims := by
  have hnu' : NoUnconf (ops ++ [.chain (.blocksDisconnected h)]) := NoUnconf_append.2 ⟨hnu, trivial⟩
  apply claims_dropped_when_parent_disconnected_partial cat K C hK b0 _ hnu' _ o i c' hoi
  have hI := crun_inv (U := fun _ => False) hK hnu (fun _ _ _ _ h => h) (cinit_inv cat K C _ b0)
  rw [crun_append, crun_cons]
  show known (cstep cat K _ (.chain (.blocksDisconnected h))).st C = false
  rw [cstep_st, step_blocksDisconnected_lt cat (by omega)]
  cases hk : known (rewindTo (crun cat K (cinit b0) ops).st h) C with
  | false => rfl
  | true =>
    obtain ⟨e, he, ht⟩ := known_iff.1 hk
    rcases he with he | he
    · have h1 := List.mem_filter.1 he
      have hk2 : e.ev.kind = 2 := hcat _ (ht ▸ hI.base.fromCat e (Or.inl h1.1))
      have : e.height = c := FscAw_unique hI.base ⟨e, h1.1, ht, hk2, rfl⟩ hconf
      have h2 := h1.2
      simp at h2
      omega
    · have hk2 : e.ev.kind = 2 := hcat _ (ht ▸ hI.base.fromCat e (Or.inr he))
      exact absurd ⟨e, he, ht, hk2⟩ hnf

/-- … and regenerated when the parent re-confirms: in any reachable state in which the monitor
    does not know `C`, a `transactions_confirmed(h', txs)` containing `C` (not already buried:
    `best + 1 < h' + ANTI_REORG_DELAY`) registers the claim of every output of `C` whose preimage is
    known and that the history never spends, dated at the NEW height `h'`. -/
theorem claims_regenerated_on_reconfirmation_partial (cat : Catalog) (K : ClaimCat) (C : Nat)
    (hK : OneCommitment cat K C) (b0 : Nat) (ops : List COp) (hnu : NoUnconf ops)
    (hgone : known (crun cat K (cinit b0) ops).st C = false)
    (h' : Nat) (txs : List Nat) (hC : C ∈ txs)
    (hshallow : (crun cat K (cinit b0) ops).st.best + 1 < h' + ANTI_REORG_DELAY)
    (o : Nat) (i : OutInfo) (hoi : (o, i) ∈ K.outs)
    (hunspent : ∀ t ∈ delivered (chainOps ops) ++ txs, o ∉ K.spends t)
    (hpre : preKnown (preimagesOf ops) i.needs = true) :
    (⟨o, h'⟩ : Claim) ∈ (crun cat K (cinit b0) (ops ++ [.chain (.txsConfirmed h' txs)])).claims := by
  have hnu' : NoUnconf (ops ++ [.chain (.txsConfirmed h' txs)]) := NoUnconf_append.2 ⟨hnu, trivial⟩
  have hd : delivered (chainOps (ops ++ [.chain (.txsConfirmed h' txs)])) = delivered (chainOps ops) ++ txs := by
    simp [chainOps_append, delivered_append, chainOps, delivered]
  have hp : preimagesOf (ops ++ [.chain (.txsConfirmed h' txs)]) = preimagesOf ops := by
    simp [preimagesOf_append, preimagesOf]
  have hstep : (crun cat K (cinit b0) (ops ++ [.chain (.txsConfirmed h' txs)])).st
      = txsConfirmed cat (crun cat K (cinit b0) ops).st h' txs := by
    rw [crun_append, crun_cons]; rfl
  -- every new entry of `C` sits at `h'` and is not yet mature
  have notReached : ∀ e : Entry, e.height = h' →
      e.reached (max (crun cat K (cinit b0) ops).st.best h') = false := by
    intro e he
    apply (reached_false_iff _ _).2
    have := e.threshold_ge
    have hA : ANTI_REORG_DELAY = 6 := rfl
    omega
  obtain ⟨ev, hev, hk2⟩ := hK.has_fsc
  apply no_claim_lost_partial cat K C hK b0 _ hnu' o i hoi (by rw [hd]; exact hunspent) (by rw [hp]; exact hpre)
  · rw [hstep]
    exact ⟨_, mem_txsConfirmed_awaiting.2 ⟨addTxs_adds (cat := cat) (h := h') hC hgone hev, notReached _ rfl⟩, rfl, hk2, rfl⟩
  · rw [hstep]
    rintro ⟨e, he, ht, _⟩
    rcases mem_txsConfirmed_matured.1 he with h1 | ⟨h1, h2⟩
    · rw [known_iff.2 ⟨e, Or.inr h1, ht⟩] at hgone; cases hgone
    · rcases mem_addTxs_awaiting h1 with h3 | ⟨_, _, h3, _⟩
      · rw [known_iff.2 ⟨e, Or.inl h3, ht⟩] at hgone; cases hgone
      · rw [notReached e h3] at h2; cases h2

/-- non-vacuity: claim dated 100; the fork removes the commitment (claim gone, commitment unknown);
    it re-confirms at 101 in the new chain: claim back, dated 101 -/
example :
    let cat : Catalog := fun t => if t = 1 then [{ kind := 2, csv := none }] else []
    let K : ClaimCat := { outs := [(7, { parent := 1, needs := some 5, holder := false })], spends := fun _ => [] }
    let pre : List COp := [.chain (.blockConnected 100 [1]), .chain (.bestBlock 102), .preimage 5]
    (crun cat K (cinit 98) pre).claims = [⟨7, 100⟩] ∧
    (crun cat K (cinit 98) (pre ++ [.chain (.blocksDisconnected 99)])).claims = [] ∧
    known (crun cat K (cinit 98) (pre ++ [.chain (.blocksDisconnected 99)])).st 1 = false ∧
    (crun cat K (cinit 98) (pre ++ [.chain (.blocksDisconnected 99), .chain (.txsConfirmed 101 [1])])).claims = [⟨7, 101⟩] := by
  decide

/-- Path independence of the claims view.  Two ARBITRARY histories (different forks, different
    notification styles, preimages provided at different moments and in different orders) that end
    with the same monitor view of the chain (`Equiv`) and provided the same set of preimages hold the
    same claims, with the same creation heights, on every output of the commitment (either kind)
    that neither history spends — while the commitment is not yet irrevocable. -/
theorem claims_view_path_independent_partial (cat : Catalog) (K : ClaimCat) (C : Nat)
    (hK : OneCommitment cat K C) (b0 : Nat) (ops₁ ops₂ : List COp)
    (hnu₁ : NoUnconf ops₁) (hnu₂ : NoUnconf ops₂)
    (hst : Equiv (run cat (init b0) (chainOps ops₁)) (run cat (init b0) (chainOps ops₂)))
    (hpre : ∀ q, q ∈ preimagesOf ops₁ ↔ q ∈ preimagesOf ops₂)
    (o : Nat) (i : OutInfo) (hoi : (o, i) ∈ K.outs)
    (hu₁ : ∀ t ∈ delivered (chainOps ops₁), o ∉ K.spends t)
    (hu₂ : ∀ t ∈ delivered (chainOps ops₂), o ∉ K.spends t)
    (hnf : ¬ FscMat C (crun cat K (cinit b0) ops₁).st) (c : Nat) :
    (⟨o, c⟩ : Claim) ∈ (crun cat K (cinit b0) ops₁).claims ↔ (⟨o, c⟩ : Claim) ∈ (crun cat K (cinit b0) ops₂).claims := by
  have e1 : (crun cat K (cinit b0) ops₁).st = run cat (init b0) (chainOps ops₁) := crun_st cat K _ ops₁
  have e2 : (crun cat K (cinit b0) ops₂).st = run cat (init b0) (chainOps ops₂) := crun_st cat K _ ops₂
  have awIff : ∀ c, FscAw C (crun cat K (cinit b0) ops₁).st c ↔ FscAw C (crun cat K (cinit b0) ops₂).st c := by
    intro c
    rw [e1, e2]
    constructor
    · rintro ⟨e, he, h⟩; exact ⟨e, (hst.2.1 e).1 he, h⟩
    · rintro ⟨e, he, h⟩; exact ⟨e, (hst.2.1 e).2 he, h⟩
  have matIff : FscMat C (crun cat K (cinit b0) ops₁).st ↔ FscMat C (crun cat K (cinit b0) ops₂).st := by
    rw [e1, e2]
    constructor
    · rintro ⟨e, he, h⟩; exact ⟨e, (hst.2.2 e).1 he, h⟩
    · rintro ⟨e, he, h⟩; exact ⟨e, (hst.2.2 e).2 he, h⟩
  constructor
  · intro hx
    have hd := claim_dated_at_parent_confirmation_partial cat K C hK b0 ops₁ hnu₁ o i c hoi hx
    have hp := claim_only_with_preimage_partial cat K C hK b0 ops₁ hnu₁ o i c hoi hx
    rcases hd with hd | hd
    · exact no_claim_lost_partial cat K C hK b0 ops₂ hnu₂ o i hoi hu₂
        (preKnown_mono (fun q hq => (hpre q).1 hq) hp) c ((awIff c).1 hd) (fun hm => hnf (matIff.2 hm))
    · exact absurd hd hnf
  · intro hx
    have hd := claim_dated_at_parent_confirmation_partial cat K C hK b0 ops₂ hnu₂ o i c hoi hx
    have hp := claim_only_with_preimage_partial cat K C hK b0 ops₂ hnu₂ o i c hoi hx
    rcases hd with hd | hd
    · exact no_claim_lost_partial cat K C hK b0 ops₁ hnu₁ o i hoi hu₁
        (preKnown_mono (fun q hq => (hpre q).2 hq) hp) c ((awIff c).2 hd) hnf
    · exact absurd (matIff.2 hd) hnf

/-- … hence the claims view depends only on the final chain and the set of preimages provided: two
    histories whose chain notifications are admissible presentations (`Presents`: any styles, any
    duplication, skipping) of the SAME chain agree. -/
theorem claims_depend_only_on_chain_and_preimages_partial (cat : Catalog) (K : ClaimCat) (C : Nat)
    (hK : OneCommitment cat K C) (b0 : Nat) (ch : Chain) (hwf : WF ch) (ops₁ ops₂ : List COp)
    (hnu₁ : NoUnconf ops₁) (hnu₂ : NoUnconf ops₂)
    (hp₁ : Presents b0 ch (chainOps ops₁)) (hp₂ : Presents b0 ch (chainOps ops₂))
    (hpre : ∀ q, q ∈ preimagesOf ops₁ ↔ q ∈ preimagesOf ops₂)
    (o : Nat) (i : OutInfo) (hoi : (o, i) ∈ K.outs)
    (hu₁ : ∀ t ∈ delivered (chainOps ops₁), o ∉ K.spends t)
    (hu₂ : ∀ t ∈ delivered (chainOps ops₂), o ∉ K.spends t)
    (hnf : ¬ FscMat C (crun cat K (cinit b0) ops₁).st) (c : Nat) :
    (⟨o, c⟩ : Claim) ∈ (crun cat K (cinit b0) ops₁).claims ↔ (⟨o, c⟩ : Claim) ∈ (crun cat K (cinit b0) ops₂).claims :=
  claims_view_path_independent_partial cat K C hK b0 ops₁ ops₂ hnu₁ hnu₂
    (delivery_style_independent cat b0 ch _ _ hwf hp₁ hp₂) hpre o i hoi hu₁ hu₂ hnf c

/-- … and a history that went through a connected-then-disconnected fork (shallower than
    ANTI_REORG_DELAY, any of the four best-height-announcing rewinds, any per-block styles) holds the
    same claims as any fork-free presentation of the final chain, whenever the preimages were
    provided (before the fork, on it, after the rewind, after the re-connection). -/
theorem claims_after_fork_as_if_never_seen_partial (cat : Catalog) (K : ClaimCat) (C : Nat)
    (hK : OneCommitment cat K C) (style : Block → BlockStyle) (r : Rewind) (hr : r ≠ .unconfirmOnly)
    (pre forkB final : Chain) (b0 h : Nat) (ops₁ ops₂ : List COp)
    (hshape : chainOps ops₁ = presentsFork style r pre forkB final b0 h)
    (hnu₁ : NoUnconf ops₁) (hnu₂ : NoUnconf ops₂)
    (hsF : Sorted b0 (pre ++ forkB)) (hsC : Sorted b0 (pre ++ final))
    (hpreB : ∀ b ∈ pre, b.height ≤ h) (hforkB : ∀ b ∈ forkB, h < b.height) (hfin : ∀ b ∈ final, h < b.height)
    (hb0 : b0 ≤ h) (hne : forkB ≠ [])
    (hwfF : WF (pre ++ forkB)) (hwf : WF (pre ++ final))
    (hd : tip b0 (pre ++ forkB) < h + ANTI_REORG_DELAY) (hge : tip b0 (pre ++ forkB) ≤ tip b0 (pre ++ final))
    (hp₂ : Presents b0 (pre ++ final) (chainOps ops₂))
    (hpre : ∀ q, q ∈ preimagesOf ops₁ ↔ q ∈ preimagesOf ops₂)
    (o : Nat) (i : OutInfo) (hoi : (o, i) ∈ K.outs)
    (hu₁ : ∀ t ∈ delivered (chainOps ops₁), o ∉ K.spends t)
    (hu₂ : ∀ t ∈ delivered (chainOps ops₂), o ∉ K.spends t)
    (hnf : ¬ FscMat C (crun cat K (cinit b0) ops₁).st) (c : Nat) :
    (⟨o, c⟩ : Claim) ∈ (crun cat K (cinit b0) ops₁).claims ↔ (⟨o, c⟩ : Claim) ∈ (crun cat K (cinit b0) ops₂).claims :=
  claims_view_path_independent_partial cat K C hK b0 ops₁ ops₂ hnu₁ hnu₂
    (hshape ▸ fork_vs_forkfree_partial cat style r hr pre forkB final b0 h _ hsF hsC hpreB hforkB hfin hb0 hne hwfF hwf hd hge hp₂)
    hpre o i hoi hu₁ hu₂ hnf c

/-- non-vacuity of path independence: the preimage before the commitment confirms / two blocks
    after it; whole blocks / best-block-first; with and without a depth-2 fork above the commitment —
    one final chain, one preimage set, identical claims -/
example :
    let cat : Catalog := fun t => if t = 1 then [{ kind := 2, csv := none }] else []
    let K : ClaimCat := { outs := [(7, { parent := 1, needs := some 5, holder := false })], spends := fun _ => [] }
    let a : List COp := [.preimage 5, .chain (.blockConnected 100 [1]), .chain (.blockConnected 101 []), .chain (.blockConnected 102 []), .chain (.blockConnected 103 [])]
    let b : List COp := [.chain (.bestBlock 100), .chain (.txsConfirmed 100 [1]), .chain (.bestBlock 102), .preimage 5, .chain (.bestBlock 103)]
    let c : List COp := [.chain (.blockConnected 100 [1]), .chain (.blockConnected 101 []), .chain (.blockConnected 102 []), .preimage 5,
      .chain (.blocksDisconnected 100), .chain (.blockConnected 101 []), .chain (.blockConnected 102 []), .chain (.blockConnected 103 [])]
    (crun cat K (cinit 99) a).claims = [⟨7, 100⟩] ∧ (crun cat K (cinit 99) b).claims = [⟨7, 100⟩] ∧
    (crun cat K (cinit 99) c).claims = [⟨7, 100⟩] := by decide

/-! ### why `_partial`: the full statements fail in the model exactly where the real code deviates -/

/-- the one-commitment catalog used by the counter-examples -/
def exCat : Catalog := fun t => if t = 1 then [{ kind := 2, csv := none }] else []

private theorem exCat_one (K : ClaimCat) (hp : ∀ o i, (o, i) ∈ K.outs → i.parent = 1)
    (hf : ∀ o i i', (o, i) ∈ K.outs → (o, i') ∈ K.outs → i = i') : OneCommitment exCat K 1 where
  fsc_only := by
    intro t ev hev _
    unfold exCat at hev
    split at hev
    · assumption
    · cases hev
  has_fsc := ⟨{ kind := 2, csv := none }, by simp [exCat], rfl⟩
  parents := hp
  functional := hf

/-- `no_claim_lost` WITHOUT the "not yet irrevocable" hypothesis (commitment awaiting OR final), for
    outputs of the counterparty's (`holder = false`) or of our own (`holder = true`) commitment -/
def NoClaimLostWhenConfirmed (holder : Bool) : Prop :=
  ∀ (cat : Catalog) (K : ClaimCat) (C : Nat), OneCommitment cat K C → ∀ (b0 : Nat) (ops : List COp), NoUnconf ops →
    ∀ (o : Nat) (i : OutInfo), (o, i) ∈ K.outs → i.holder = holder →
      (∀ t ∈ delivered (chainOps ops), o ∉ K.spends t) → preKnown (preimagesOf ops) i.needs = true →
      ((∃ c, FscAw C (crun cat K (cinit b0) ops).st c) ∨ FscMat C (crun cat K (cinit b0) ops).st) →
      hasClaim (crun cat K (cinit b0) ops).claims o = true

/-- KF-C11-4 in the model, for BOTH commitment kinds: the commitment confirms at 100 and becomes
    irrevocable at 105; the preimage arrives then (`funding_spend_confirmed` ⇒ confirmation height
    `None` ⇒ the claim is dated at the tip, 105 — in the holder branch through
    `confirmed_spend_height.unwrap_or(best)`); a ONE-block re-org (105 → 104) drops the claim although
    the commitment is irrevocably confirmed, the preimage known and the output unspent. -/
theorem no_claim_lost_fails_after_final (holder : Bool) : ¬ NoClaimLostWhenConfirmed holder := by
  intro hall
  cases holder with
  | false =>
    let K : ClaimCat := { outs := [(7, { parent := 1, needs := some 5, holder := false })], spends := fun _ => [] }
    have hK : OneCommitment exCat K 1 := exCat_one K (by intro o i h; simp [K] at h; rw [h.2])
      (by intro o i i' h h'; simp [K] at h h'; rw [h.2, h'.2])
    have := hall exCat K 1 hK 99
      [.chain (.blockConnected 100 [1]), .chain (.bestBlock 105), .preimage 5, .chain (.blocksDisconnected 104)]
      (by simp [NoUnconf]) 7 { parent := 1, needs := some 5, holder := false } (by simp [K]) rfl (by intro t _; simp [K])
      (by decide) (Or.inr (by decide))
    revert this
    decide
  | true =>
    let K : ClaimCat := { outs := [(7, { parent := 1, needs := some 5, holder := true })], spends := fun _ => [] }
    have hK : OneCommitment exCat K 1 := exCat_one K (by intro o i h; simp [K] at h; rw [h.2])
      (by intro o i i' h h'; simp [K] at h h'; rw [h.2, h'.2])
    have := hall exCat K 1 hK 99
      [.chain (.blockConnected 100 [1]), .chain (.bestBlock 105), .preimage 5, .chain (.blocksDisconnected 104)]
      (by simp [NoUnconf]) 7 { parent := 1, needs := some 5, holder := true } (by simp [K]) rfl (by intro t _; simp [K])
      (by decide) (Or.inr (by decide))
    revert this
    decide

/-- what the repair of KF-C11-3 (repo commit 0461f57) changed, in the model: OUR commitment confirms
    at 100, the preimage arrives two blocks later — the claim is dated 100 (before the repair: 102) and
    a fork replacing only block 102 keeps it -/
example :
    let K : ClaimCat := { outs := [(7, { parent := 1, needs := some 5, holder := true })], spends := fun _ => [] }
    (crun exCat K (cinit 99) [.chain (.blockConnected 100 [1]), .chain (.bestBlock 102), .preimage 5]).claims = [⟨7, 100⟩] ∧
    (crun exCat K (cinit 99) [.chain (.blockConnected 100 [1]), .chain (.bestBlock 102), .preimage 5,
      .chain (.blocksDisconnected 101)]).claims = [⟨7, 100⟩] ∧
    (crun exCat K (cinit 99) [.chain (.blockConnected 100 [1]), .chain (.bestBlock 102), .preimage 5,
      .chain (.blocksDisconnected 99), .chain (.txsConfirmed 101 [1])]).claims = [⟨7, 101⟩] := by decide

/-- why `NoUnconf`: a Confirm client that reports the re-org of the commitment with
    `transaction_unconfirmed` only — the monitor forgets the commitment, the handler keeps the claim
    (dated at the old height): "claims whose parent was disconnected are dropped" fails for that style. -/
example :
    let K : ClaimCat := { outs := [(7, { parent := 1, needs := some 5, holder := false })], spends := fun _ => [] }
    let s := crun exCat K (cinit 99) [.preimage 5, .chain (.txsConfirmed 100 [1]), .chain (.bestBlock 101), .chain (.txUnconfirmed 1)]
    known s.st 1 = false ∧ s.claims = [⟨7, 100⟩] := by decide

/-! ## The `transaction_unconfirmed`-only rewind (Confirm clients that report a re-org by naming the removed
transactions — in whatever order — and never announce a lower best block)

`UnconfOk aw us h` / `HUnconfOk hAw us h` is the Confirm contract for such a rewind to fork point `h`, stated
on the queue it acts on: only removed transactions are reported, every queued removed transaction is reported
(`Inv.unconfOk`: a list naming exactly the fork chain's transactions above `h`, any order, any repetition,
satisfies it in every reachable state).  The theorems say what the calls do — for EVERY order — and how the
result differs from the Listen client's `blocks_disconnected(h)`: the best height stays, and claims that no
handler entry reaches linger.  Every other difference is excluded by theorem. -/

/-- The monitor's retain test in transaction_unconfirmed, as translated on this run
    (`entry.height >= removed_height` drops), is the one the model's `txUnconfirmed` applies. -/
theorem txUnconfirmed_uses_translated_test (s : St) (t : Nat) :
    txUnconfirmed s t =
      match s.awaiting.find? (fun e => e.txid == t) with
      | some e => { s with awaiting := s.awaiting.filter (fun x => !monitorEntryUnconfirmed x.height e.height) }
      | none => s := by
  unfold txUnconfirmed
  cases s.awaiting.find? (fun e => e.txid == t) with
  | none => rfl
  | some e =>
    have : s.awaiting.filter (fun x => decide (x.height < e.height)) = s.awaiting.filter (fun x => !monitorEntryUnconfirmed x.height e.height) := by
      apply List.filter_congr
      intro x _
      simp only [monitorEntryUnconfirmed]
      by_cases hx : x.height < e.height
      · have : ¬ x.height ≥ e.height := by omega
        simp [hx, this]
      · have : x.height ≥ e.height := by omega
        simp [hx, this]
    simp only [this]

example : monitorEntryUnconfirmed 101 100 = true ∧ monitorEntryUnconfirmed 100 100 = true ∧ monitorEntryUnconfirmed 99 100 = false := by decide

/-- ORDER INDEPENDENCE on the monitor's queue.  From ANY state, any two lists of `transaction_unconfirmed`
    calls that follow the contract for fork point `h` (different orders, repetitions, extra ids of removed
    transactions the monitor does not hold) end in the SAME state, which is `rewindTo s h` — what
    `blocks_disconnected(h)` / `best_block_updated(h)` give — except that the best height is not touched. -/
theorem unconfirm_order_independent (cat : Catalog) (s : St) (us₁ us₂ : List Nat) (h : Nat)
    (ok₁ : UnconfOk s.awaiting us₁ h) (ok₂ : UnconfOk s.awaiting us₂ h) :
    run cat s (unconfOps us₁) = run cat s (unconfOps us₂) ∧
    run cat s (unconfOps us₁) = { rewindTo s h with best := s.best } := by
  rw [run_unconfOps cat s us₁ h ok₁, run_unconfOps cat s us₂ h ok₂]
  exact ⟨rfl, rfl⟩

/-- non-vacuity: commitment 1 at 100, a later transaction 2 at 101, both removed (fork point 99): lowest
    first, highest first — one result, nothing above 99 left, best still 102 -/
example :
    let cat : Catalog := fun t => if t = 1 then [{ kind := 2, csv := none }] else [{ kind := 3, csv := none }]
    let s := run cat (init 98) [.txsConfirmed 99 [7], .txsConfirmed 100 [1], .txsConfirmed 101 [2], .bestBlock 102]
    UnconfOk s.awaiting [1, 2] 99 ∧ UnconfOk s.awaiting [2, 1] 99 ∧
    run cat s (unconfOps [1, 2]) = run cat s (unconfOps [2, 1]) ∧
    (run cat s (unconfOps [1, 2])).awaiting.length = 1 ∧ (run cat s (unconfOps [1, 2])).best = 102 ∧ s.awaiting.length = 3 := by
  refine ⟨⟨by decide, by decide, by decide⟩, ⟨by decide, by decide, by decide⟩, by decide, by decide, by decide, by decide⟩

/-- Connected-then-disconnected fork through the unconfirm-only client — the case the `_partial` fork
    theorems above exclude.  `opsF` admissibly presents (part of) the fork chain `cF`; then
    `transaction_unconfirmed` is called for the transactions of `cF` above the fork point `h`, in ANY order
    `us` (only those, and all of them); then `opsFin` admissibly presents the final chain's blocks above `h`
    STARTING FROM THE STALE best height (best_block_updated never goes below the fork's tip) and reaches the
    final tip.  If the fork is shallower than ANTI_REORG_DELAY the conclusion is the canonical one of the
    final chain — as if the fork had never been seen, exactly as for a Listen client. -/
theorem fork_unconfirm_only_canonical (cat : Catalog) (cF c' : Chain) (b0 h : Nat)
    (opsF opsFin : List Op) (us : List Nat) (hwfF : WF cF) (hwf : WF c')
    (hagree : ∀ k t, k ≤ h → (inChain c' k t ↔ inChain cF k t))
    (haF : Adm cF b0 opsF)
    (hh : h < topHeight b0 opsF) (hd : topHeight b0 opsF < h + ANTI_REORG_DELAY)
    (honly : ∀ t ∈ us, ∃ k, h < k ∧ inChain cF k t)
    (hall : ∀ k t, h < k → inChain cF k t → t ∈ us)
    (haFin : Adm c' (topHeight b0 opsF) opsFin)
    (hcomplete : ∀ k t, inChain c' k t → t ∈ delivered opsFin ∨ (k ≤ h ∧ t ∈ delivered opsF))
    (htop : topHeight (topHeight b0 opsF) opsFin = tip b0 c') :
    Equiv (run cat (init b0) (opsF ++ unconfOps us ++ opsFin)) (canon cat b0 c') :=
  fork_unconf_canon hwfF hwf hagree haF hh hd honly hall haFin hcomplete htop

/-- … hence it agrees with every fork-free presentation of the final chain, and any two orders of the
    `transaction_unconfirmed` calls agree with each other. -/
theorem fork_unconfirm_only_vs_forkfree (cat : Catalog) (cF c' : Chain) (b0 h : Nat)
    (opsF opsFin ops : List Op) (us : List Nat) (hwfF : WF cF) (hwf : WF c')
    (hagree : ∀ k t, k ≤ h → (inChain c' k t ↔ inChain cF k t))
    (haF : Adm cF b0 opsF)
    (hh : h < topHeight b0 opsF) (hd : topHeight b0 opsF < h + ANTI_REORG_DELAY)
    (honly : ∀ t ∈ us, ∃ k, h < k ∧ inChain cF k t)
    (hall : ∀ k t, h < k → inChain cF k t → t ∈ us)
    (haFin : Adm c' (topHeight b0 opsF) opsFin)
    (hcomplete : ∀ k t, inChain c' k t → t ∈ delivered opsFin ∨ (k ≤ h ∧ t ∈ delivered opsF))
    (htop : topHeight (topHeight b0 opsF) opsFin = tip b0 c')
    (hp : Presents b0 c' ops) :
    Equiv (run cat (init b0) (opsF ++ unconfOps us ++ opsFin)) (run cat (init b0) ops) :=
  (fork_unconfirm_only_canonical cat cF c' b0 h opsF opsFin us hwfF hwf hagree haF hh hd honly hall haFin hcomplete htop).trans
    (presents_canon hwf hp).symm

/-- non-vacuity: fork [101: tx 1, 102: tx 2], both reported unconfirmed lowest-first / highest-first, then the
    index-syncing client's tip-only re-sync (best_block_updated(103), then transactions_confirmed(102, [1])):
    the conclusion is that of the whole-block delivery of the final chain -/
example :
    let cat : Catalog := fun t => if t = 1 then [{ kind := 2, csv := none }] else [{ kind := 3, csv := none }]
    let opsF : List Op := [.txsConfirmed 101 [1], .bestBlock 101, .txsConfirmed 102 [2], .bestBlock 102]
    let opsFin : List Op := [.bestBlock 103, .txsConfirmed 102 [1]]
    let goal := run cat (init 100) [.blockConnected 101 [], .blockConnected 102 [1], .blockConnected 103 []]
    run cat (init 100) (opsF ++ unconfOps [1, 2] ++ opsFin) = goal ∧
    run cat (init 100) (opsF ++ unconfOps [2, 1] ++ opsFin) = goal ∧ goal.awaiting.length = 1 := by decide

/-- ORDER INDEPENDENCE and the exact difference to the Listen client, claims layer.  From ANY state, for any
    list `us` of `transaction_unconfirmed` calls following the contract for fork point `h` on both queues:
    the monitor part is `rewindTo` with the best height kept, the OnchainTxHandler's awaiting entries and the
    known preimages are EXACTLY those `blocks_disconnected(h)` leaves (in particular no entry of a removed
    transaction survives, whichever transaction was reported first), and the claims are those
    `blocks_disconnected(h)` leaves PLUS the lingering ones: dated above `h` but below every handler entry
    above `h` (claims whose parent — the counterparty's commitment — has no handler entry). -/
theorem unconfirm_only_vs_listen (cat : Catalog) (K : ClaimCat) (s : CSt) (us : List Nat) (h : Nat)
    (okM : UnconfOk s.st.awaiting us h) (okH : HUnconfOk s.hAw us h) :
    (crun cat K s (cUnconfOps us)).st = { (cRewind K s h).st with best := s.st.best } ∧
    (crun cat K s (cUnconfOps us)).hAw = (cRewind K s h).hAw ∧
    (crun cat K s (cUnconfOps us)).pre = (cRewind K s h).pre ∧
    ∀ c, c ∈ (crun cat K s (cUnconfOps us)).claims ↔
      c ∈ (cRewind K s h).claims ∨
      (c ∈ s.claims ∧ h < c.creation ∧ ∀ e ∈ s.hAw, h < e.height → c.creation < e.height) := by
  obtain ⟨j1, j2, j3⟩ := cUnconf_aux cat K h us s okH
  refine ⟨?_, ?_, j3, fun c => ?_⟩
  · rw [crun_st, chainOps_cUnconfOps, run_unconfOps cat s.st us h okM]; rfl
  · rw [j1]; exact (handlerDisconnect_hAw h s.claims s.hAw).symm
  · rw [j2]; exact mem_unconfirmedClaims

/-- … two orders give the same claims, handler entries, preimages and monitor state. -/
theorem unconfirm_order_independent_claims (cat : Catalog) (K : ClaimCat) (s : CSt) (us₁ us₂ : List Nat) (h : Nat)
    (okM₁ : UnconfOk s.st.awaiting us₁ h) (okH₁ : HUnconfOk s.hAw us₁ h)
    (okM₂ : UnconfOk s.st.awaiting us₂ h) (okH₂ : HUnconfOk s.hAw us₂ h) :
    (crun cat K s (cUnconfOps us₁)).st = (crun cat K s (cUnconfOps us₂)).st ∧
    (crun cat K s (cUnconfOps us₁)).hAw = (crun cat K s (cUnconfOps us₂)).hAw ∧
    (crun cat K s (cUnconfOps us₁)).claims = (crun cat K s (cUnconfOps us₂)).claims ∧
    (crun cat K s (cUnconfOps us₁)).pre = (crun cat K s (cUnconfOps us₂)).pre := by
  obtain ⟨a1, a2, a3⟩ := cUnconf_aux cat K h us₁ s okH₁
  obtain ⟨b1, b2, b3⟩ := cUnconf_aux cat K h us₂ s okH₂
  refine ⟨?_, by rw [a1, b1], by rw [a2, b2], by rw [a3, b3]⟩
  rw [crun_st, crun_st, chainOps_cUnconfOps, chainOps_cUnconfOps, run_unconfOps cat s.st us₁ h okM₁, run_unconfOps cat s.st us₂ h okM₂]

/-- No OTHER deviation: when every claim dated above the fork point has a handler entry above the fork
    point at or below its date (the closer's monitor: the commitment transaction is the handler's claim of
    the funding outpoint, so its entry sits exactly at the date of the HTLC claims), the unconfirm-only
    rewind leaves exactly the claims of `blocks_disconnected(h)`. -/
theorem unconfirm_only_equals_listen_when_reached (cat : Catalog) (K : ClaimCat) (s : CSt) (us : List Nat) (h : Nat)
    (okM : UnconfOk s.st.awaiting us h) (okH : HUnconfOk s.hAw us h)
    (hreach : ∀ c ∈ s.claims, h < c.creation → ∃ e ∈ s.hAw, h < e.height ∧ e.height ≤ c.creation) (c : Claim) :
    c ∈ (crun cat K s (cUnconfOps us)).claims ↔ c ∈ (cRewind K s h).claims := by
  rw [(unconfirm_only_vs_listen cat K s us h okM okH).2.2.2 c]
  constructor
  · rintro (h1 | ⟨h1, h2, h3⟩)
    · exact h1
    · obtain ⟨e, he, h4, h5⟩ := hreach c h1 h2
      have := h3 e he h4
      omega
  · exact Or.inl

/-- non-vacuity, the seeded C11-r4 shape in the model: counterparty commitment 1 at 100 (no handler entry),
    the recipient's claim transaction 2 at 101 spends output 7; both removed (fork point 99).  Lowest-first
    and highest-first leave NO handler entry and the same claims; the HTLC claim dated 100 lingers (below the
    handler entry at 101) where the Listen client drops it — the one permitted difference. -/
example :
    let cat : Catalog := fun t => if t = 1 then [{ kind := 2, csv := none }] else [{ kind := 3, csv := none }]
    let K : ClaimCat := { outs := [(7, { parent := 1, needs := some 5, holder := false })], spends := fun t => if t = 2 then [7] else [] }
    let s := crun cat K (cinit 98) [.preimage 5, .chain (.txsConfirmed 100 [1]), .chain (.txsConfirmed 101 [2]), .chain (.bestBlock 102)]
    s.claims = [⟨7, 100⟩] ∧ s.hAw = [⟨2, 101, 7⟩] ∧
    (crun cat K s (cUnconfOps [1, 2])).hAw = [] ∧ (crun cat K s (cUnconfOps [2, 1])).hAw = [] ∧
    (crun cat K s (cUnconfOps [1, 2])).claims = [⟨7, 100⟩] ∧ (crun cat K s (cUnconfOps [2, 1])).claims = [⟨7, 100⟩] ∧
    (cRewind K s 99).claims = [] := by decide

/-- Stale creation heights: while a claim on an output lingers, the requests of the re-confirmed parent are
    ignored for that output (update_claims_view_from_requests' duplicate filter) — the claim is NOT lost, but it
    keeps its OLD date whatever the new confirmation height. -/
theorem reconfirmation_keeps_stale_date (H : Nat) (cl : List Claim) (reqs : List (Nat × Option Nat))
    (o c : Nat) (hx : (⟨o, c⟩ : Claim) ∈ cl) :
    (⟨o, c⟩ : Claim) ∈ registerAll H cl reqs ∧
    ∀ c', (⟨o, c'⟩ : Claim) ∈ registerAll H cl reqs → (⟨o, c'⟩ : Claim) ∈ cl := by
  refine ⟨registerAll_mono hx, fun c' h' => ?_⟩
  rcases mem_registerAll h' with h1 | ⟨req, _, h2, h3⟩
  · exact h1
  · have : req.1 = o := by have := congrArg Claim.out h2; simpa using this.symm
    rw [this, hasClaim_iff.2 ⟨c, hx⟩] at h3
    cases h3

/-- the mechanism of KF-C06-1 in the model (kernel-checked): the counterparty commitment 1 confirms at 103, is
    reported unconfirmed (the HTLC claim dated 103 lingers), re-confirms LOWER at 101 before any
    best_block_updated (request ignored, date stays 103); the next best_block_updated(102) — below the stale
    date, above the real confirmation — drops the claim although the commitment is confirmed at 101 -/
example :
    let K : ClaimCat := { outs := [(7, { parent := 1, needs := some 5, holder := false })], spends := fun _ => [] }
    let pre : List COp := [.preimage 5, .chain (.txsConfirmed 103 [1]), .chain (.bestBlock 104), .chain (.txUnconfirmed 1), .chain (.txsConfirmed 101 [1])]
    (crun exCat K (cinit 99) pre).claims = [⟨7, 103⟩] ∧ FscAw 1 (crun exCat K (cinit 99) pre).st 101 ∧
    (crun exCat K (cinit 99) (pre ++ [.chain (.bestBlock 102)])).claims = [] ∧
    FscAw 1 (crun exCat K (cinit 99) (pre ++ [.chain (.bestBlock 102)])).st 101 := by decide


/-! ## Manager / channel side: the funding-scope confirmation state machine (Model/FundConf.lean)
   FundedChannel::{transactions_confirmed, do_best_block_updated, transaction_unconfirmed, get_relevant_txids} and
   PendingFunding::check_get_splice_locked for the channel funding and every pending splice candidate; the retraction
   blocks, get_funding_tx_confirmations, check_funding_meets_minimum_depth and the transaction_unconfirmed rewind height
   are TRANSLATED from channel.rs on every run (Generated/FundConf.lean, tools/gen_fundconf.py). -/
section FundingScopes
open Ldk.FundConf Ldk.FundConfGen

/-- A reorganisation below the confirmation height FULLY retracts the confirmation of a funding scope: after
    do_best_block_updated(h) — whatever the channel, its candidates and what was already sent — either the channel was
    force-closed, or every pending splice candidate kept its txid and has its recorded confirmation CLEARED when it was
    above `h` (and untouched otherwise), and the main funding's recorded height is not above `h` either. -/
theorem funding_reorg_retracts_confirmation (c : Chan) (h : Nat) :
    (chanBestBlockUpdated c h).1.closed = true ∨
    ((∀ g' ∈ (chanBestBlockUpdated c h).1.cands, ∃ g ∈ c.cands, g'.txid = g.txid ∧
        g'.confHeight = if h < g.confHeight then 0 else g.confHeight) ∧
     (chanBestBlockUpdated c h).1.main.confHeight ≤ h) := by
  rcases bbu_cands_retracted c h with h1 | h1
  · exact Or.inl h1
  · rcases bbu_main_le c h with h2 | h2
    · exact Or.inl h2
    · exact Or.inr ⟨h1, h2⟩

/-- non-vacuity (the round-5 seeded shape): a splice candidate confirmed at 101, two blocks deep, no splice_locked sent,
    reorganised out by do_best_block_updated(100): confirmation cleared, no longer relevant, nothing locked -/
example :
    let c : Chan := { minDepth := 6, best := 102, main := { txid := 0, confHeight := 90, confIn := true, scid := true },
                      cands := [{ txid := 1, confHeight := 101, confIn := true, scid := true }] }
    (chanBestBlockUpdated c 100).1.cands.map (·.confHeight) = [0] ∧
    relevantTxids (chanBestBlockUpdated c 100).1 = [(0, 90)] ∧ (chanBestBlockUpdated c 100).2 = none := by decide

/-- "Which transactions still need watching": after do_best_block_updated(h), get_relevant_txids lists no funding
    scope (channel funding or splice candidate) with a confirmation height above `h`. -/
theorem funding_reorg_not_relevant_above (c : Chan) (h : Nat) (p : Nat × Nat)
    (hp : p ∈ relevantTxids (chanBestBlockUpdated c h).1) : p.2 ≤ h :=
  bbu_relevant_le c h p hp

example :
    let c : Chan := { minDepth := 6, best := 102, main := { txid := 0, confHeight := 90, confIn := true, scid := true },
                      cands := [{ txid := 1, confHeight := 101, confIn := true, scid := true }] }
    relevantTxids c = [(0, 90), (1, 101)] ∧ relevantTxids (chanBestBlockUpdated c 101).1 = [(0, 90), (1, 101)] := by decide

/-- splice_locked only for a buried candidate: a splice_locked produced by do_best_block_updated(h) names a candidate
    that AFTER the retraction step still has a recorded confirmation, at least minimum_depth deep at `h` — unless the
    channel is zero-conf (minimum_depth 0, trusted by configuration). In particular a candidate whose confirmation was
    retracted by this very call is not locked. -/
theorem splice_locked_only_when_buried (c : Chan) (h t : Nat) (hl : (chanBestBlockUpdated c h).2 = some t) :
    c.minDepth = 0 ∨ ∃ g ∈ (chanBestBlockUpdated c h).1.cands, g.txid = t ∧ g.confHeight ≠ 0 ∧ g.confHeight + c.minDepth ≤ h + 1 :=
  bbu_lock_sound c h t hl

example :
    let c : Chan := { minDepth := 6, best := 105, main := { txid := 0, confHeight := 90, confIn := true, scid := true },
                      cands := [{ txid := 1, confHeight := 101, confIn := true, scid := true }] }
    (chanBestBlockUpdated c 105).2 = none ∧ (chanBestBlockUpdated c 106).2 = some 1 := by decide

/-- Delivery independence of the retraction: Confirm::transaction_unconfirmed(txid) of a scope confirmed at `k` IS
    do_best_block_updated(k - 1) (translated rewind height), and Listen::blocks_disconnected(fork point h) IS
    Confirm::best_block_updated(h) on the channel — so the three ways a client reports the reorg run the same
    retraction, to which the three theorems above apply. -/
theorem unconfirmed_is_reorg_below (c : Chan) (t : Nat) (f : Scope) (hc : c.closed = false)
    (hf : (c.main :: c.cands).find? (fun f => f.txid == t) = some f) (hk : f.confHeight ≠ 0) :
    chanTxUnconfirmed c t = chanBestBlockUpdated c (f.confHeight - 1) ∧
    ∀ h, FundConf.step c (.disc h) = FundConf.step c (.best h) :=
  ⟨unconf_eq_bbu c t f hc hf hk, fun _ => rfl⟩

example :
    let c : Chan := { minDepth := 6, best := 102, main := { txid := 0, confHeight := 90, confIn := true, scid := true },
                      cands := [{ txid := 1, confHeight := 101, confIn := true, scid := true }] }
    (chanTxUnconfirmed c 1).1.cands.map (·.confHeight) = [0] ∧ relevantTxids (chanTxUnconfirmed c 1).1 = [(0, 90)] := by decide

/-- No splice_locked later without re-confirmation, over WHOLE histories: for every channel, every op list (any
    mix of Confirm / Listen calls, any heights, any order) and every splice_locked `t` it produces: the channel is
    zero-conf, or candidate `t` had a recorded confirmation at the start, or some call of the history handed
    transaction `t` to transactions_confirmed. Together with `funding_reorg_retracts_confirmation` (the reorg clears the
    record): once a candidate was reorganised out, growing the competing fork never locks it. -/
theorem no_splice_locked_without_confirmation (c : Chan) (ops : List FundConf.Op) (t : Nat) (ht : t ∈ (FundConf.run c ops).2) :
    c.minDepth = 0 ∨ Conf c.cands t ∨ ∃ o ∈ ops, confirms o t :=
  (run_StepOK ops c).2.2 t ht

/-- the same for the recorded confirmations (what get_relevant_txids reports for candidates): none appears without
    a confirming call -/
theorem no_confirmation_without_confirming_call (c : Chan) (ops : List FundConf.Op) (g : Scope)
    (hg : g ∈ (FundConf.run c ops).1.cands) (h0 : g.confHeight ≠ 0) :
    Conf c.cands g.txid ∨ ∃ o ∈ ops, confirms o g.txid :=
  (run_StepOK ops c).2.1 g hg h0

/-- non-vacuity: the demo history of the seeded change (2 confirmations, both blocks disconnected, competing fork
    of ANTI_REORG_DELAY + 2 blocks without the splice transaction) locks nothing and ends with only the channel
    funding relevant; with the transaction re-mined in the fork it locks exactly once, min_depth deep -/
example :
    let c : Chan := { minDepth := 6, best := 100, main := { txid := 0, confHeight := 90, confIn := true, scid := true }, cands := [{ txid := 1 }] }
    let fork (ids : List Nat) : List FundConf.Op := [.block 101 ids, .block 102 [], .block 103 [], .block 104 [], .block 105 [], .block 106 [], .block 107 [], .block 108 []]
    (FundConf.run c (([.block 101 [1], .block 102 [], .disc 100] : List FundConf.Op) ++ fork [])).2 = [] ∧
    relevantTxids (FundConf.run c (([.block 101 [1], .block 102 [], .disc 100] : List FundConf.Op) ++ fork [])).1 = [(0, 90)] ∧
    (FundConf.run c (([.block 101 [1], .block 102 [], .disc 100] : List FundConf.Op) ++ fork [1])).2 = [1] ∧
    (FundConf.run c (([.conf 101 [1], .best 101, .best 102, .unconf 1, .best 100] : List FundConf.Op) ++ fork [])).2 = [] := by decide

/-- Delivery-order independence of one connected block, for a channel with ONE pending splice candidate whose
    channel funding stays confirmed and whose candidate is not recorded above the block: announcing the block
    best-block-first (`best h; conf h ids`), transactions-first (`conf h ids; best h`) or through Listen
    (`block h ids`) ends in the SAME channel (recorded heights, sent_funding_txid, closed) and produces the SAME
    splice_locked messages — for every block content `ids` and every state of the candidate (unconfirmed, confirmed
    shallow / deep, locked or not). `_partial`: missing are several negotiated candidates (RBF); there the real loop of
    transactions_confirmed is order-sensitive when a block holds two conflicting candidates (cannot happen in a valid
    chain), which is not excluded by a hypothesis here but by restricting to one candidate. -/
theorem connect_order_independent_partial (c : Chan) (f : Scope) (h : Nat) (ids : List Nat)
    (hcl : c.closed = false) (hc : c.cands = [f]) (hm0 : c.main.confHeight ≠ 0) (hmh : c.main.confHeight ≤ h)
    (hfh : f.confHeight ≤ h) (hb : c.best < h) :
    FundConf.run c [.best h, .conf h ids] = FundConf.run c [.conf h ids, .best h] ∧
    FundConf.run c [.block h ids] = FundConf.run c [.conf h ids, .best h] :=
  connect_order_single c f h ids hcl hc hm0 hmh hfh hb

/-- non-vacuity: a 1-conf channel locks in the confirming block under both orders -/
example :
    let c : Chan := { minDepth := 1, best := 100, main := { txid := 0, confHeight := 90, confIn := true, scid := true }, cands := [{ txid := 1 }] }
    FundConf.run c [.best 101, .conf 101 [7, 1]] = FundConf.run c [.conf 101 [7, 1], .best 101] ∧
    (FundConf.run c [.best 101, .conf 101 [7, 1]]).2 = [1] := by decide

/-- The channel funding BEFORE channel_ready (Model Pre: AwaitingChannelReady, the harness family PRE): a
    reorganisation below the recorded confirmation height fully retracts it — height, block hash AND short channel id
    are cleared (all three resets of the translated retraction block), nothing is reported by get_relevant_txids, and no
    channel_ready is produced by that call unless the channel is zero-conf. For every such channel and every height. -/
theorem prefunding_reorg_fully_retracted (p : Pre) (h : Nat) (hc : p.closed = false) (hlt : h < p.main.confHeight) :
    (preBestBlockUpdated p h).1.main.confHeight = 0 ∧ (preBestBlockUpdated p h).1.main.confIn = false ∧
    (preBestBlockUpdated p h).1.main.scid = false ∧ preRelevant (preBestBlockUpdated p h).1 = [] ∧
    ((preBestBlockUpdated p h).2 = true → p.minDepth = 0) := by
  have hm := preBBU_main p h hc
  obtain ⟨h1, h2, h3⟩ := preRetracted_of_lt p h hlt
  refine ⟨hm ▸ h1, hm ▸ h2, hm ▸ h3, ?_, fun hr => ?_⟩
  · unfold preRelevant
    split
    · rfl
    · simp [hm, scopeRelevant, relevantHeight, h1]
  · rcases preBBU_ready_sound p h hr with h4 | ⟨h4, _⟩
    · exact h4
    · rw [hm, h1] at h4; exact absurd rfl h4

example :
    let p : Pre := { minDepth := 6, best := 13, main := { txid := 0, confHeight := 12, confIn := true, scid := true } }
    preRelevant p = [(0, 12)] ∧ preRelevant (preBestBlockUpdated p 11).1 = [] ∧ (preBestBlockUpdated p 11).1.main.scid = false ∧
    (preBestBlockUpdated p 17).2 = true ∧ (preBestBlockUpdated p 16).2 = false := by decide

/-- channel_ready only for a buried funding, and nothing is reported above the best height: a channel_ready produced
    by do_best_block_updated(h) comes with a recorded confirmation (after the retraction) at least minimum_depth
    deep at `h`, or the channel is zero-conf; and get_relevant_txids lists no height above `h` afterwards. -/
theorem channel_ready_only_when_buried (p : Pre) (h : Nat) :
    ((preBestBlockUpdated p h).2 = true →
      p.minDepth = 0 ∨ ((preBestBlockUpdated p h).1.main.confHeight ≠ 0 ∧
        (preBestBlockUpdated p h).1.main.confHeight + p.minDepth ≤ h + 1)) ∧
    (p.closed = false → ∀ q ∈ preRelevant (preBestBlockUpdated p h).1, q.2 ≤ h) :=
  ⟨preBBU_ready_sound p h, fun hc q hq => preRelevant_le p h q hq hc⟩

example :
    let p : Pre := { minDepth := 6, best := 16, main := { txid := 0, confHeight := 12, confIn := true, scid := true } }
    (preBestBlockUpdated p 17).2 = true ∧ (preBestBlockUpdated p 17).1.ourReady = true ∧
    (preBestBlockUpdated (preBestBlockUpdated p 17).1 11).1.closed = true := by decide

/-- A reorganisation that removes the confirmed splice candidate also UN-SENDS its splice_locked: for every open
    channel (minimum_depth > 0, funding still confirmed at `h`, at most one confirmed candidate `f` — more is a
    force-close) and every `h` below f's recorded height, after do_best_block_updated(h) sent_funding_txid no longer
    names `f`, no splice_locked is produced and the channel stays open — so when the transaction re-confirms and gets
    buried again a NEW splice_locked is sent (oracle F3 on real nodes). -/
theorem reorg_unsends_splice_locked (c : Chan) (h : Nat) (f : Scope) (hc : c.closed = false)
    (hmain : mainUnconfirmedCloses c h = false) (hcnt : ¬ confirmedCount c.cands ≥ 2)
    (hfind : c.cands.find? (fun f => f.confHeight != 0) = some f) (hlt : h < f.confHeight) (hmd : c.minDepth ≠ 0) :
    (chanBestBlockUpdated c h).1.sent ≠ some f.txid ∧ (chanBestBlockUpdated c h).2 = none ∧
    (chanBestBlockUpdated c h).1.closed = false :=
  bbu_unsends c h f hc hmain hcnt hfind hlt hmd

/-- non-vacuity: locked at 106, reorganised out, re-mined at 101' and buried again: a second splice_locked -/
example :
    let c : Chan := { minDepth := 6, best := 100, main := { txid := 0, confHeight := 90, confIn := true, scid := true }, cands := [{ txid := 1 }] }
    let up (ids : List Nat) : List FundConf.Op := [.block 101 ids, .block 102 [], .block 103 [], .block 104 [], .block 105 [], .block 106 []]
    (FundConf.run c (up [1])).1.sent = some 1 ∧ (FundConf.run c (up [1] ++ [.disc 100])).1.sent = none ∧
    (FundConf.run c (up [1] ++ [.disc 100] ++ up [1])).2 = [1, 1] := by decide

/-- Delivery-order independence of one connected block for ANY number of negotiated (RBF) splice candidates, for
    every block that confirms none of the still-unconfirmed candidates (every block after the candidate confirmed, every
    block of a competing fork without it, duplicated / rescanned blocks): best-block-first, transactions-first and the
    Listen call end in the same channel with the same splice_locked messages — whatever is recorded (one candidate
    shallow / deep / locked, none, even the ill-formed two) as long as nothing is recorded above the block.
    The complementary case (the block that confirms a candidate) is connect_order_independent_confirming_block. -/
theorem connect_order_independent_nonconfirming_block (c : Chan) (h : Nat) (ids : List Nat) (hcl : c.closed = false)
    (hm0 : c.main.confHeight ≠ 0) (hmh : c.main.confHeight ≤ h) (hfh : ∀ f ∈ c.cands, f.confHeight ≤ h)
    (hb : c.best < h) (hno : ∀ f ∈ c.cands, f.confHeight = 0 → f.txid ∉ ids) :
    FundConf.run c [.best h, .conf h ids] = FundConf.run c [.conf h ids, .best h] ∧
    FundConf.run c [.block h ids] = FundConf.run c [.conf h ids, .best h] :=
  connect_order_no_candidate c h ids hcl hm0 hmh hfh hb hno

/-- non-vacuity: three candidates, the second confirmed at 101 reaches minimum_depth in block 106 under both orders -/
example :
    let c : Chan := { minDepth := 6, best := 105, main := { txid := 0, confHeight := 90, confIn := true, scid := true },
                      cands := [{ txid := 1 }, { txid := 2, confHeight := 101, confIn := true, scid := true }, { txid := 3 }] }
    FundConf.run c [.best 106, .conf 106 [7, 2]] = FundConf.run c [.conf 106 [7, 2], .best 106] ∧
    (FundConf.run c [.best 106, .conf 106 [7, 2]]).2 = [2] := by decide

/-- Delivery-order independence for the block that CONFIRMS one of SEVERAL negotiated (RBF) candidates. Hypotheses =
    well-formedness of the chain, not a restriction of the code: the candidates of one pending splice all spend the
    current funding output, so (a) while one of them is about to confirm none of the others is in the chain (all
    unconfirmed) and (b) the block holds the txid of at most one of them (`f`; every other id of the block is arbitrary).
    Then best-first and transactions-first end in the same channel with the same splice_locked messages (Listen =
    transactions-first by definition). With connect_order_independent_nonconfirming_block this covers every block of a
    well-formed chain for any number of candidates; what is outside is exactly the ill-formed block of the
    kernel-checked example below. -/
theorem connect_order_independent_confirming_block (c : Chan) (pre suf : List Scope) (f : Scope) (h : Nat) (ids : List Nat)
    (hcl : c.closed = false) (hc : c.cands = pre ++ f :: suf) (hp : AllU pre) (hs : AllU suf) (hf : f.confHeight = 0)
    (hm0 : c.main.confHeight ≠ 0) (hmh : c.main.confHeight ≤ h) (hb : c.best < h)
    (hno : ∀ g ∈ pre ++ suf, g.txid ∉ ids) :
    FundConf.run c [.best h, .conf h ids] = FundConf.run c [.conf h ids, .best h] :=
  connect_order_one_of_several c pre suf f h ids hcl hc hp hs hf hm0 hmh hb hno

/-- non-vacuity: two candidates, a 1-conf channel, a block confirming ONE of them — both orders agree and lock it -/
example :
    let c : Chan := { minDepth := 1, best := 100, main := { txid := 0, confHeight := 90, confIn := true, scid := true }, cands := [{ txid := 1 }, { txid := 2 }] }
    FundConf.run c [.best 101, .conf 101 [2]] = FundConf.run c [.conf 101 [2], .best 101] ∧
    FundConf.run c [.best 101, .conf 101 [9, 1]] = FundConf.run c [.conf 101 [9, 1], .best 101] := by decide

/-- DOCUMENTED LIMITATION (kernel-checked): a block holding BOTH conflicting candidates, the later-negotiated one first.
    The candidate loop of transactions_confirmed only errors when the already-confirmed candidate comes EARLIER in
    negotiated_candidates, so both get recorded; transactions-first then closes in best_block_updated ("splice tx of
    another pending funding already confirmed"), best-first stays open until the next block. Unreachable with a valid
    chain (both transactions spend the same funding output); with the candidates in list order both orders close. -/
example :
    let c : Chan := { minDepth := 6, best := 100, main := { txid := 0, confHeight := 90, confIn := true, scid := true }, cands := [{ txid := 1 }, { txid := 2 }] }
    (FundConf.run c [.conf 101 [2, 1], .best 101]).1.closed = true ∧ (FundConf.run c [.best 101, .conf 101 [2, 1]]).1.closed = false ∧
    (FundConf.run c [.best 101, .conf 101 [2, 1], .best 102]).1.closed = true ∧
    (FundConf.run c [.conf 101 [1, 2], .best 101]).1.closed = true ∧ (FundConf.run c [.best 101, .conf 101 [1, 2]]).1.closed = true := by decide

/-- The force-close decision of do_best_block_updated for a channel in ChannelReady state, as an EXACT characterisation
    over the TRANSLATED guard (Generated mainCloseGuard: channel state, `funding_tx_confirmations == 0 && was_confirmed`
    with was_confirmed captured before the retraction block, `minimum_depth > 0`): for every open channel, every
    candidate list and every height, the call force-closes IFF the channel funding had a recorded block hash and has no
    confirmation at `h` and the channel is not zero-conf — or two splice candidates are recorded as confirmed. So (R2) a
    ready non-zero-conf channel whose funding left the chain is always closed, and (R3) a zero-conf channel, or one whose
    funding is still confirmed at `h`, never is by the funding test. -/
theorem funding_reorg_force_close_iff (c : Chan) (h : Nat) (hc : c.closed = false) :
    (chanBestBlockUpdated c h).1.closed = true ↔
      (c.main.confIn = true ∧ (c.main.confHeight = 0 ∨ h < c.main.confHeight) ∧ 0 < c.minDepth) ∨
      confirmedCount c.cands ≥ 2 :=
  bbu_closed_iff c h hc

/-- non-vacuity: funding at 90 reorganised out at 89 closes a minimum_depth-6 channel, keeps a zero-conf one (record
    cleared, nothing relevant), and a reorg that leaves the funding in place (h = 90) closes neither -/
example :
    let c : Chan := { minDepth := 6, best := 95, main := { txid := 0, confHeight := 90, confIn := true, scid := true } }
    let z : Chan := { c with minDepth := 0 }
    (chanBestBlockUpdated c 89).1.closed = true ∧ (chanBestBlockUpdated c 90).1.closed = false ∧
    (chanBestBlockUpdated z 89).1.closed = false ∧ relevantTxids (chanBestBlockUpdated z 89).1 = [] ∧
    (chanBestBlockUpdated z 89).1.main.confHeight = 0 := by decide

/-- The same decision BEFORE channel_ready was exchanged (Model Pre; the state guard of the translated mainCloseGuard
    is `is_our_channel_ready()` there): a reorganisation below the recorded confirmation of the funding of a
    non-zero-conf channel produces no channel_ready and force-closes the channel EXACTLY when our channel_ready had
    already been sent — before it the reorg is harmless (family PRE: both sides reached on real nodes). -/
theorem prefunding_reorg_closes_iff_our_channel_ready_sent (p : Pre) (h : Nat) (hc : p.closed = false)
    (hin : p.main.confIn = true) (hlt : h < p.main.confHeight) (hmd : p.minDepth ≠ 0) :
    (preBestBlockUpdated p h).1.closed = p.ourReady ∧ (preBestBlockUpdated p h).2 = false :=
  preBBU_closed_of_lt p h hc hin hlt hmd

example :
    let p : Pre := { minDepth := 6, best := 17, main := { txid := 0, confHeight := 12, confIn := true, scid := true } }
    (preBestBlockUpdated p 11).1.closed = false ∧ (preBestBlockUpdated { p with ourReady := true } 11).1.closed = true := by decide

/-- The two-confirmations error of FundedChannel::transactions_confirmed (candidate loop; its two decisions are the
    TRANSLATED confirmLoopErr = `funding_already_confirmed || confirmed_funding_index.is_some()` and confirmLoopMark =
    `funding_tx_confirmation_height != 0`): for every open channel with any number of negotiated (RBF) candidates, a
    transaction that confirms a still-unconfirmed candidate `g` while a candidate EARLIER in negotiated_candidates
    already has a recorded confirmation force-closes the channel ("splice tx of another pending funding already
    confirmed") — whatever else the block holds. The other order (already-confirmed candidate LATER in the list) is
    the documented quirk of the kernel-checked example above: recorded, closed by the next do_best_block_updated. -/
theorem second_candidate_confirmation_closes (c : Chan) (h t : Nat) (ts : List Nat) (pre suf : List Scope) (g : Scope)
    (hcl : c.closed = false) (hc : c.cands = pre ++ g :: suf)
    (hpre : ∀ f ∈ pre, f.confHeight = 0 → f.txid ≠ t) (hany : ∃ f ∈ pre, f.confHeight ≠ 0)
    (hg : g.confHeight = 0) (hgt : g.txid = t) :
    (chanTxsConfirmed c h (t :: ts)).1.closed = true ∧ relevantTxids (chanTxsConfirmed c h (t :: ts)).1 = [] := by
  have hcl' := txs_second_confirmation_closes c h t ts pre suf g hcl hc (fun f hf => by
    by_cases h0 : f.confHeight = 0
    · simp [confirmGuard, h0, hpre f hf h0]
    · simp [confirmGuard, h0]) hany hg hgt
  exact ⟨hcl', by simp [relevantTxids, hcl']⟩

/-- non-vacuity: candidate 1 confirmed at 101; the conflicting candidate 2 (negotiated later) confirms at 102: closed at
    once by transactions_confirmed, under both delivery orders -/
example :
    let c : Chan := { minDepth := 6, best := 101, main := { txid := 0, confHeight := 90, confIn := true, scid := true },
                      cands := [{ txid := 1, confHeight := 101, confIn := true, scid := true }, { txid := 2 }, { txid := 3 }] }
    (chanTxsConfirmed c 102 [2, 9]).1.closed = true ∧ (chanTxsConfirmed c 102 [9, 2]).1.closed = true ∧ (FundConf.run c [.best 102, .conf 102 [2]]).1.closed = true ∧
    (chanTxsConfirmed c 102 [9, 3, 7]).1.closed = true ∧ (chanTxsConfirmed c 102 [9, 7]).1.closed = false := by decide

end FundingScopes


end Ldk.C11
