/- C11 — On-chain conclusions depend only on the chain, not on how it was delivered.
   Property theorems only, about Model/ChainView.lean (the monitor's awaiting-threshold queue and its
   five chain notifications; maturity through the GENERATED `confirmationThreshold`).  Every theorem
   quantifies over all catalogs (what each transaction makes the monitor queue), all chains, all
   admissible op lists (`Adm` / `Presents`: any subset of a block's transactions, any number of
   repetitions, before or after the best-block update, skipping heights) and, where stated, all
   states.  Helper lemmas: Proofs/ChainView.lean. -/
import LdkModel.Proofs.ChainView
namespace Ldk.C11
open Ldk Ldk.ChainView

/-- The generated threshold is never below the anti-reorg depth: an event queued at height `h`
    reaches its threshold at a best height `b` only if `b - h + 1 ≥ ANTI_REORG_DELAY`. -/
theorem threshold_ge_anti_reorg (h : Nat) (csv : Option Nat) :
    confirmationThreshold h csv + 1 ≥ h + ANTI_REORG_DELAY :=
  ChainView.threshold_ge h csv

/-- non-vacuity: without a CSV delay the bound is tight -/
example : confirmationThreshold 100 none + 1 = 100 + ANTI_REORG_DELAY := by decide

/-- Irrevocable only when buried.  From ANY state, after ANY op list `pre`, whatever op comes next:
    an entry that this op moves into `matured` is, at that moment, buried by at least
    ANTI_REORG_DELAY blocks as far as the monitor's best height goes. -/
theorem irrevocable_only_when_buried (cat : Catalog) (s : St) (pre : List Op) (op : Op) (e : Entry)
    (hnew : e ∈ (run cat s (pre ++ [op])).matured) (hold : e ∉ (run cat s pre).matured) :
    (run cat s (pre ++ [op])).best + 1 ≥ e.height + ANTI_REORG_DELAY := by
  rw [run_append] at hnew ⊢
  have h1 := step_matured_reached cat (run cat s pre) op e hnew hold
  have h2 := (reached_iff _ _).1 h1
  have h3 := e.threshold_ge
  show (step cat (run cat s pre) op).best + 1 ≥ _
  omega

/-- non-vacuity: an entry does mature (here exactly when the sixth block is announced) -/
example :
    let cat : Catalog := fun _ => [{ kind := 2, csv := none }]
    (run cat (init 99) [.txsConfirmed 100 [7], .bestBlock 104]).matured = [] ∧
    (run cat (init 99) [.txsConfirmed 100 [7], .bestBlock 104, .bestBlock 105]).matured
      = [{ txid := 7, height := 100, ev := { kind := 2, csv := none } }] := by decide

/-- Re-delivery is idempotent: announcing the same confirmation twice in a row is the same as
    once — in every state, for every transaction list (duplicates inside the list included). -/
theorem redelivery_idempotent (cat : Catalog) (s : St) (h : Nat) (txs : List Nat) :
    txsConfirmed cat (txsConfirmed cat s h txs) h txs = txsConfirmed cat s h txs := by
  apply txsConfirmed_noop
  · intro t ht
    rcases known_after_addTxs cat h txs s t ht with h1 | h1
    · left
      unfold txsConfirmed
      rw [known_mature]
      exact h1
    · exact Or.inr h1
  · rw [txsConfirmed_best]; omega
  · intro e he
    exact (mem_mature_awaiting.1 he).2

/-- the same through `step`, for both the Listen and the Confirm notification -/
theorem redelivery_idempotent_step (cat : Catalog) (s : St) (h : Nat) (txs : List Nat) :
    step cat (step cat s (.blockConnected h txs)) (.blockConnected h txs) = step cat s (.blockConnected h txs) ∧
    step cat (step cat s (.txsConfirmed h txs)) (.txsConfirmed h txs) = step cat s (.txsConfirmed h txs) :=
  ⟨redelivery_idempotent cat s h txs, redelivery_idempotent cat s h txs⟩

/-- non-vacuity: the first delivery does change the state -/
example :
    let cat : Catalog := fun _ => [{ kind := 1, csv := some 144 }]
    txsConfirmed cat (init 99) 100 [7] ≠ init 99 := by decide

/-- A re-delivery at any later time (the "highly redundant" client): in a state where nothing
    awaiting has reached its threshold — every state `run` produces from `init`, see
    `Inv.aw` — announcing again transactions that are all known, at a height not above the best
    one, changes nothing. -/
theorem late_redelivery_noop (cat : Catalog) (s : St) (h : Nat) (txs : List Nat)
    (hknown : ∀ t ∈ txs, known s t = true ∨ cat t = []) (hh : h ≤ s.best)
    (hsettled : ∀ e ∈ s.awaiting, e.reached s.best = false) :
    step cat s (.txsConfirmed h txs) = s :=
  txsConfirmed_noop hknown hh hsettled

example :
    let cat : Catalog := fun _ => [{ kind := 1, csv := none }]
    let s := run cat (init 99) [.txsConfirmed 100 [7], .bestBlock 103]
    (∀ t ∈ [7], known s t = true ∨ cat t = []) ∧ 100 ≤ s.best ∧ (∀ e ∈ s.awaiting, e.reached s.best = false) := by
  decide

/-- The conclusion is a function of the chain: ANY admissible fork-free presentation of `c` ends
    in the canonical state (best = tip; every entry of the chain awaiting or matured according to
    its threshold against the tip). -/
theorem delivery_conclusion_canonical (cat : Catalog) (b0 : Nat) (c : Chain) (ops : List Op)
    (hwf : WF c) (hp : Presents b0 c ops) : Equiv (run cat (init b0) ops) (canon cat b0 c) :=
  presents_canon hwf hp

/-- Delivery-style independence: any two admissible presentations of the same chain — whole
    blocks, transactions-first, best-block-first, partial blocks in several calls, any
    duplication, skipped heights, later blocks' transactions before earlier ones' — agree on
    `best`, and on `awaiting` and `matured` as sets. -/
theorem delivery_style_independent (cat : Catalog) (b0 : Nat) (c : Chain) (ops₁ ops₂ : List Op)
    (hwf : WF c) (h₁ : Presents b0 c ops₁) (h₂ : Presents b0 c ops₂) :
    Equiv (run cat (init b0) ops₁) (run cat (init b0) ops₂) :=
  (presents_canon hwf h₁).trans (presents_canon hwf h₂).symm

/-- The concrete styles are admissible: every per-block mix of {Listen whole block, optionally
    preceded by an empty filtered block; Confirm transactions-first; Confirm best-block-first},
    each with arbitrary duplication of either call, presents a height-sorted chain. -/
theorem styles_admissible (style : Block → BlockStyle) (b0 : Nat) (c : Chain) (hs : Sorted b0 c) :
    Presents b0 c (presents style c) :=
  presents_Presents style hs

/-- … hence any two style mixes agree. -/
theorem delivery_style_independent_styles (cat : Catalog) (style₁ style₂ : Block → BlockStyle)
    (b0 : Nat) (c : Chain) (hs : Sorted b0 c) (hwf : WF c) :
    Equiv (run cat (init b0) (presents style₁ c)) (run cat (init b0) (presents style₂ c)) :=
  delivery_style_independent cat b0 c _ _ hwf (styles_admissible style₁ b0 c hs) (styles_admissible style₂ b0 c hs)

/-- Skipping: announcing only the blocks that contain relevant transactions, and the last one
    (`best_block_updated` "may be skipped for intermediary blocks"), is admissible too, hence agrees
    with every block-by-block presentation. -/
theorem skipping_admissible (style : Block → BlockStyle) (b0 : Nat) (c : Chain) (hs : Sorted b0 c) :
    Presents b0 c (presentsSkipping style c) :=
  presentsSkipping_Presents style hs

theorem delivery_style_independent_skipping (cat : Catalog) (style₁ style₂ : Block → BlockStyle)
    (b0 : Nat) (c : Chain) (hs : Sorted b0 c) (hwf : WF c) :
    Equiv (run cat (init b0) (presentsSkipping style₁ c)) (run cat (init b0) (presents style₂ c)) :=
  delivery_style_independent cat b0 c _ _ hwf (skipping_admissible style₁ b0 c hs) (styles_admissible style₂ b0 c hs)

example :
    let c : Chain := [⟨101, [1]⟩, ⟨102, []⟩, ⟨103, []⟩, ⟨104, [2]⟩, ⟨105, []⟩, ⟨106, []⟩]
    presentsSkipping (fun _ => {}) c =
      [.txsConfirmed 101 [1], .bestBlock 101, .txsConfirmed 104 [2], .bestBlock 104, .txsConfirmed 106 [], .bestBlock 106] := by
  decide

/-- Highly redundant: re-announcing every earlier non-empty block's transactions before each new
    block is admissible as well. -/
theorem redundant_admissible (style : Block → BlockStyle) (b0 : Nat) (c : Chain) (hs : Sorted b0 c) :
    Presents b0 c (presentsRedundant style [] c) :=
  presentsRedundant_Presents style hs

example :
    let c : Chain := [⟨101, [1]⟩, ⟨102, []⟩, ⟨103, [2]⟩]
    presentsRedundant (fun _ => {}) [] c =
      [.txsConfirmed 101 [1], .bestBlock 101, .txsConfirmed 101 [1], .txsConfirmed 102 [], .bestBlock 102,
       .txsConfirmed 101 [1], .txsConfirmed 103 [2], .bestBlock 103] := by decide

/-- non-vacuity: three genuinely different op lists for one chain, equal conclusions (here even
    as lists), and a conclusion that is not trivial -/
example :
    let cat : Catalog := fun t => if t = 1 then [{ kind := 2, csv := none }, { kind := 1, csv := none }] else [{ kind := 3, csv := some 8 }]
    let c : Chain := [⟨101, [1]⟩, ⟨102, []⟩, ⟨103, [2]⟩, ⟨106, []⟩]
    let whole : Block → BlockStyle := fun _ => { listen := true }
    let txFirstDup : Block → BlockStyle := fun _ => { dupTx := 2 }
    let bestFirst : Block → BlockStyle := fun _ => { bestFirst := true, dupBest := 1 }
    presents whole c ≠ presents txFirstDup c ∧ presents txFirstDup c ≠ presents bestFirst c ∧
    run cat (init 100) (presents whole c) = run cat (init 100) (presents txFirstDup c) ∧
    run cat (init 100) (presents whole c) = run cat (init 100) (presents bestFirst c) ∧
    (run cat (init 100) (presents whole c)).matured.length = 2 ∧
    (run cat (init 100) (presents whole c)).awaiting.length = 1 := by decide

example : Sorted 100 [⟨101, [1]⟩, ⟨102, []⟩, ⟨103, [2]⟩, ⟨106, []⟩] := by simp [Sorted]

/-- Shallow reorg retracts.  After any admissible presentation of `c`, disconnecting to a height
    `h` below the tip — from a state in which everything matured had already matured by `h` —
    gives exactly the canonical state of the chain truncated at `h`. -/
theorem shallow_reorg_retracts (cat : Catalog) (b0 : Nat) (c : Chain) (ops : List Op) (h : Nat)
    (hwf : WF c) (hp : Presents b0 c ops) (hb : b0 ≤ h) (hlt : h < tip b0 c)
    (hblk : h = b0 ∨ ∃ b ∈ c, b.height = h)
    (hmat : ∀ e ∈ (run cat (init b0) ops).matured, e.threshold ≤ h) :
    Equiv (step cat (run cat (init b0) ops) (.blocksDisconnected h)) (canon cat b0 (truncate c h)) := by
  obtain ⟨i1, i2⟩ := presents_inv (cat := cat) hwf hp
  rw [step_blocksDisconnected_lt cat (by omega)]
  have ht := tip_truncate (c := c) hb hblk
  refine ⟨by simp [rewindTo, canon, ht], fun e => ?_, fun e => ?_⟩
  · simp only [rewindTo, canon, ht, List.mem_filter, decide_eq_true_eq, mem_chainEntries_truncate,
      Bool.not_eq_eq_eq_not, Bool.not_true]
    constructor
    · rintro ⟨h1, h2⟩
      have h3 := (reached_false_iff _ _).1 (i1.aw e h1)
      exact ⟨⟨((i1.mem e).1 (Or.inl h1)).1, h2⟩, (reached_false_iff _ _).2 (by omega)⟩
    · rintro ⟨⟨h1, h2⟩, h3⟩
      rcases (i1.mem e).2 ⟨h1, hp.complete _ _ (mem_chainEntries.1 h1).1⟩ with h4 | h4
      · exact ⟨h4, h2⟩
      · have := hmat e h4
        have := (reached_false_iff _ _).1 h3
        omega
  · simp only [rewindTo, canon, ht, List.mem_filter, mem_chainEntries_truncate]
    constructor
    · intro h1
      have h2 := hmat e h1
      have h3 := e.threshold_ge
      have : ANTI_REORG_DELAY = 6 := rfl
      exact ⟨⟨((i1.mem e).1 (Or.inr h1)).1, by omega⟩, (reached_iff _ _).2 h2⟩
    · rintro ⟨⟨h1, _⟩, h3⟩
      rcases (i1.mem e).2 ⟨h1, hp.complete _ _ (mem_chainEntries.1 h1).1⟩ with h4 | h4
      · have h5 := (reached_false_iff _ _).1 (i1.aw e h4)
        have h6 := (reached_iff _ _).1 h3
        omega
      · exact h4

/-- … and a reorg shallower than ANTI_REORG_DELAY leaves nothing (awaiting or matured) of the
    blocks it removes, whatever had matured below. -/
theorem shallow_reorg_removes_all (cat : Catalog) (b0 : Nat) (c : Chain) (ops : List Op) (h : Nat)
    (hwf : WF c) (hp : Presents b0 c ops) (hlt : h < tip b0 c)
    (hd : tip b0 c < h + ANTI_REORG_DELAY) :
    let s := step cat (run cat (init b0) ops) (.blocksDisconnected h)
    s.best = h ∧ (∀ e, e ∈ s.awaiting ∨ e ∈ s.matured → e.height ≤ h) ∧
    (∀ e, e ∈ chainEntries cat c → e.height ≤ h → e ∈ s.awaiting ∨ e ∈ s.matured) := by
  obtain ⟨i1, i2⟩ := presents_inv (cat := cat) hwf hp
  simp only
  rw [step_blocksDisconnected_lt cat (by omega)]
  have i3 := rewindTo_inv (h := h) (by omega) hd i1
  refine ⟨rfl, fun e he => ?_, fun e h1 h2 => ?_⟩
  · exact (mem_chainEntries_truncate.1 ((i3.mem e).1 he).1).2
  · exact (i3.mem e).2 ⟨mem_chainEntries_truncate.2 ⟨h1, h2⟩, hp.complete _ _ (mem_chainEntries.1 h1).1⟩

/-- non-vacuity: a depth-3 reorg over a block containing a transaction, nothing matured yet -/
example :
    let cat : Catalog := fun _ => [{ kind := 2, csv := none }]
    let c : Chain := [⟨101, [1]⟩, ⟨102, [2]⟩, ⟨103, []⟩, ⟨104, []⟩]
    let s := run cat (init 100) (presents (fun _ => {}) c)
    s.awaiting.length = 2 ∧ s.matured = [] ∧
    step cat s (.blocksDisconnected 101) = canon cat 100 (truncate c 101) ∧
    (canon cat 100 (truncate c 101)).awaiting.length = 1 := by decide

/-- Connected-then-disconnected fork (semantic form).  `opsF` admissibly presents (part of) a
    fork chain `cF`; `rws` is any op list acting as one rewind to the fork point height `h`;
    `opsFin` admissibly presents the blocks above `h` of the final chain `c'`, which agrees with
    `cF` up to `h`.  If the fork is shallower than ANTI_REORG_DELAY and the final chain is at least
    as high as the fork was, the conclusion is the canonical one of `c'` — as if the fork had never
    been seen.  PARTIAL: what is missing is the Confirm client that reports a reorg with
    `transaction_unconfirmed` only (`Rewind.unconfirmOnly`): there the monitor's best height stays
    at the fork's tip until the new chain passes it, which `Adm` (best never goes backwards) does
    not cover; that style is covered by the c11 correspondence only. -/
theorem fork_then_final_canonical_partial (cat : Catalog) (cF c' : Chain) (b0 h : Nat)
    (opsF rws opsFin : List Op) (hwfF : WF cF) (hwf : WF c')
    (hagree : ∀ k t, k ≤ h → (inChain c' k t ↔ inChain cF k t))
    (haF : Adm cF b0 opsF)
    (hh : h < topHeight b0 opsF) (hd : topHeight b0 opsF < h + ANTI_REORG_DELAY)
    (hrw : ∀ s : St, s.best = topHeight b0 opsF → run cat s rws = rewindTo s h)
    (haFin : Adm c' h opsFin)
    (hcomplete : ∀ k t, inChain c' k t → t ∈ delivered opsFin ∨ (k ≤ h ∧ t ∈ delivered opsF))
    (htop : topHeight h opsFin = tip b0 c') (hge : topHeight b0 opsF ≤ tip b0 c') :
    Equiv (run cat (init b0) (opsF ++ rws ++ opsFin)) (canon cat b0 c') :=
  fork_canon hwfF hwf hagree haF hh hd hrw haFin hcomplete htop hge

/-- The four rewinds that announce the lower best height — one `blocks_disconnected`, one per
    block, one `best_block_updated(fork point)`, one per block — all act as one rewind
    (hypothesis `hrw` above). -/
theorem rewinds_act_as_one (cat : Catalog) (r : Rewind) (fork : Chain) (tipH h : Nat) (s : St)
    (hr : r ≠ .unconfirmOnly) (hh : h < tipH) (hs : s.best = tipH) :
    run cat s (rewindOps r fork tipH h) = rewindTo s h :=
  run_rewindOps cat r fork hr hh hs

/-- Connected-then-disconnected fork, concrete form: `pre` is the common prefix (up to the fork
    point height `h`), `forkB` the competing blocks, `final` the final chain's blocks above `h`.
    For every per-block style mix and each of the four best-height-announcing rewinds, a fork
    shallower than ANTI_REORG_DELAY (and not higher than the final chain) leaves no trace: the
    conclusion is the canonical one of `pre ++ final`.  PARTIAL for the same reason as above
    (`Rewind.unconfirmOnly` excluded). -/
theorem fork_styles_canonical_partial (cat : Catalog) (style : Block → BlockStyle) (r : Rewind)
    (hr : r ≠ .unconfirmOnly) (pre forkB final : Chain) (b0 h : Nat)
    (hsF : Sorted b0 (pre ++ forkB)) (hsC : Sorted b0 (pre ++ final))
    (hpre : ∀ b ∈ pre, b.height ≤ h) (hforkB : ∀ b ∈ forkB, h < b.height) (hfin : ∀ b ∈ final, h < b.height)
    (hb0 : b0 ≤ h) (hne : forkB ≠ [])
    (hwfF : WF (pre ++ forkB)) (hwf : WF (pre ++ final))
    (hd : tip b0 (pre ++ forkB) < h + ANTI_REORG_DELAY) (hge : tip b0 (pre ++ forkB) ≤ tip b0 (pre ++ final)) :
    Equiv (run cat (init b0) (presentsFork style r pre forkB final b0 h)) (canon cat b0 (pre ++ final)) :=
  fork_styles_canon style r hr pre forkB final b0 h hsF hsC hpre hforkB hfin hb0 hne hwfF hwf hd hge

/-- … so a fork-then-final delivery agrees with every fork-free presentation of the final chain,
    whatever the fork contained. -/
theorem fork_vs_forkfree_partial (cat : Catalog) (style : Block → BlockStyle) (r : Rewind)
    (hr : r ≠ .unconfirmOnly) (pre forkB final : Chain) (b0 h : Nat) (ops : List Op)
    (hsF : Sorted b0 (pre ++ forkB)) (hsC : Sorted b0 (pre ++ final))
    (hpre : ∀ b ∈ pre, b.height ≤ h) (hforkB : ∀ b ∈ forkB, h < b.height) (hfin : ∀ b ∈ final, h < b.height)
    (hb0 : b0 ≤ h) (hne : forkB ≠ [])
    (hwfF : WF (pre ++ forkB)) (hwf : WF (pre ++ final))
    (hd : tip b0 (pre ++ forkB) < h + ANTI_REORG_DELAY) (hge : tip b0 (pre ++ forkB) ≤ tip b0 (pre ++ final))
    (hp : Presents b0 (pre ++ final) ops) :
    Equiv (run cat (init b0) (presentsFork style r pre forkB final b0 h)) (run cat (init b0) ops) :=
  (fork_styles_canonical_partial cat style r hr pre forkB final b0 h hsF hsC hpre hforkB hfin hb0 hne hwfF hwf hd hge).trans
    (presents_canon hwf hp).symm

/-- the depth bound is needed: at depth ANTI_REORG_DELAY an entry of the fork's first block has
    matured and stays, although the final chain does not contain its transaction -/
example :
    let cat : Catalog := fun _ => [{ kind := 2, csv := none }]
    let forkB : Chain := [⟨101, [9]⟩, ⟨102, []⟩, ⟨103, []⟩, ⟨104, []⟩, ⟨105, []⟩, ⟨106, []⟩]
    let final : Chain := [⟨101, []⟩, ⟨107, []⟩]
    (run cat (init 100) (presentsFork (fun _ => {}) .listenOnce [] forkB final 100 100)).matured.length = 1 ∧
    (canon cat 100 final).matured = [] := by decide

/-- non-vacuity of the fork theorem's shape: a depth-2 fork containing the commitment-like
    transaction 1 one block later than the final chain has it, all five rewinds, two styles; the
    conclusions coincide with the fork-free presentation of the final chain. -/
example :
    let cat : Catalog := fun _ => [{ kind := 2, csv := none }, { kind := 1, csv := some 4 }]
    let pre : Chain := [⟨101, []⟩]
    let forkB : Chain := [⟨102, []⟩, ⟨103, [1]⟩]
    let final : Chain := [⟨102, [1]⟩, ⟨103, []⟩, ⟨104, []⟩, ⟨108, []⟩]
    let whole : Block → BlockStyle := fun _ => { listen := true }
    let bestFirst : Block → BlockStyle := fun _ => { bestFirst := true }
    let goal := run cat (init 100) (presents whole (pre ++ final))
    goal.matured.length = 2 ∧
    run cat (init 100) (presentsFork whole .listenOnce pre forkB final 100 101) = goal ∧
    run cat (init 100) (presentsFork whole .listenEach pre forkB final 100 101) = goal ∧
    run cat (init 100) (presentsFork bestFirst .bestOnce pre forkB final 100 101) = goal ∧
    run cat (init 100) (presentsFork bestFirst .bestEach pre forkB final 100 101) = goal ∧
    run cat (init 100) (presentsFork bestFirst .unconfirmOnly pre forkB final 100 101) = goal := by decide

end Ldk.C11
