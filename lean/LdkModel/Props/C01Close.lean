/- C01 — cooperative close: "a cooperative close pays each party its final balance less only the negotiated fee".

   Model: Generated/Closing.lean is re-TRANSLATED from lightning/src/ln/channel.rs on every run (`build_closing_transaction`
   over `Int` as in the source's `i64`, `calculate_closing_fee_limits`, `get_closing_transaction_weight`, the fee decision of
   `closing_signed` from the `fee_range` test to the end, the tail of `closing_negotiation_ready`, and the three pinned equality
   tests that decide about broadcasting); Model/Closing.lean mirrors by hand only the ORDER of the steps of `closing_signed`
   and the two-party message loop (tied by the end-to-end differential of the `chan` harness).

   Reading of the code that the theorems make precise:
   * the fee is paid by the funder alone; when it exceeds the funder's whole-satoshi balance `build_closing_transaction` does NOT
     saturate: it returns `Err(ChannelError::close)` (after a `debug_assert!`) — `closing_fails_iff`;
   * BOTH outputs are tested against the HOLDER's dust limit (`<=`), so two parties with different dust limits can build
     different transactions from the same balances; `closing_signed` retries the verification with `skip_remote_output`, which
     covers exactly the case "the signer dropped ITS OWN output" — `peer_verifies_iff`, `peer_rejects_in_dust_band`;
   * the fundee answers `min(peer's max, own max)` without comparing it with its own minimum: `negotiation_outcome` has the
     exception `fee = F.minFee = N.maxFee < N.minFee` (the funder's first proposal equals its entire balance and lies below the
     fundee's minimum), `fundee_signs_below_its_minimum` is a concrete instance. -/
import LdkModel.Proofs.Closing
import LdkModel.Props.ChanProto
namespace Ldk.C01Close
open Ldk.Closing

/-! ### 1. one closing transaction: conservation, who pays, dust -/

/-- `build_closing_transaction` fails exactly when the fee exceeds the funder's balance in whole satoshis — for every balance,
    channel value, dust limit, funder side, fee, with or without `skip_remote_output`. -/
theorem closing_fails_iff (v : View) (fee : Nat) (skip : Bool) (hv : v.valueToSelfMsat ≤ v.chanValueSat * 1000) :
    closingTx v fee skip = none ↔ funderBal v < fee := by
  rw [closingTx_eq v fee skip hv]
  split <;> simp_all

example : closingTx { valueToSelfMsat := 5_000_999, chanValueSat := 100_000, dust := 354, isFunder := true, minFee := 0, maxFee := 0 } 5001 false = none := by decide
example : (closingTx { valueToSelfMsat := 5_000_999, chanValueSat := 100_000, dust := 354, isFunder := true, minFee := 0, maxFee := 0 } 5000 false).isSome = true := by decide

/-- CONSERVATION and "who gets what", for all inputs.  When `build_closing_transaction` succeeds:
    the fee it reports is the fee asked for; before the dust test the two values and the fee add up to the channel value
    minus the sub-satoshi remainder of the two msat balances (0 if the balance is a whole number of satoshis, else 1 sat);
    the holder's output is its balance in whole satoshis — less the fee iff it is the funder — or 0 when that is `≤` the
    holder dust limit; the same for the counterparty's output, which is also 0 under `skip_remote_output`. -/
theorem closing_conservation (v : View) (fee : Nat) (skip : Bool) (h c u : Nat)
    (hv : v.valueToSelfMsat ≤ v.chanValueSat * 1000) (e : closingTx v fee skip = some (h, c, u)) :
    u = fee ∧ fee ≤ funderBal v ∧
    holderPre v fee + cpPre v fee + fee + (if v.valueToSelfMsat % 1000 = 0 then 0 else 1) = v.chanValueSat ∧
    h = cut v.dust (holderPre v fee) ∧ c = (if skip then 0 else cut v.dust (cpPre v fee)) ∧
    holderPre v fee = v.valueToSelfMsat / 1000 - (if v.isFunder then fee else 0) ∧
    cpPre v fee = (v.chanValueSat * 1000 - v.valueToSelfMsat) / 1000 - (if v.isFunder then 0 else fee) := by
  rw [closingTx_eq v fee skip hv] at e
  split at e
  · cases e
  · rename_i hf
    injection e with e
    simp only [Prod.mk.injEq] at e
    obtain ⟨e1, e2, e3⟩ := e
    refine ⟨e3.symm, by omega, ?_, e1.symm, e2.symm, rfl, rfl⟩
    unfold funderBal at hf
    unfold holderPre cpPre
    cases hfu : v.isFunder
    · rw [hfu] at hf; simp only [Bool.false_eq_true, if_false] at hf ⊢; split <;> omega
    · rw [hfu] at hf; simp only [if_true] at hf ⊢; split <;> omega

/-- Nothing is dust: outputs + fee (+ the sub-satoshi remainder) = channel value. -/
theorem closing_outputs_plus_fee (v : View) (fee : Nat) (h c u : Nat) (hv : v.valueToSelfMsat ≤ v.chanValueSat * 1000)
    (e : closingTx v fee false = some (h, c, u)) (hh : v.dust < holderPre v fee) (hc : v.dust < cpPre v fee) :
    h + c + fee + (if v.valueToSelfMsat % 1000 = 0 then 0 else 1) = v.chanValueSat := by
  obtain ⟨_, _, k, e1, e2, _, _⟩ := closing_conservation v fee false h c u hv e
  simp only [Bool.false_eq_true, if_false] at e2
  unfold cut at e1 e2
  rw [if_neg (by omega)] at e1 e2
  omega

/-- An output is dropped: exactly its value (`≤` the dust limit unless it is the `skip_remote_output` drop) goes to the miners
    on top of the fee: channel value − outputs = fee + dropped values + remainder. -/
theorem closing_dropped_goes_to_fee (v : View) (fee : Nat) (skip : Bool) (h c u : Nat) (hv : v.valueToSelfMsat ≤ v.chanValueSat * 1000)
    (e : closingTx v fee skip = some (h, c, u)) :
    h + c + fee + (if h = 0 then holderPre v fee else 0) + (if c = 0 then cpPre v fee else 0) +
      (if v.valueToSelfMsat % 1000 = 0 then 0 else 1) = v.chanValueSat ∧
    (h = 0 → holderPre v fee ≤ v.dust) ∧ (c = 0 → skip = false → cpPre v fee ≤ v.dust) := by
  obtain ⟨_, _, k, e1, e2, _, _⟩ := closing_conservation v fee skip h c u hv e
  unfold cut at e1 e2
  generalize (if v.valueToSelfMsat % 1000 = 0 then 0 else 1) = r at k ⊢
  refine ⟨?_, ?_, ?_⟩
  · cases skip
    · simp only [Bool.false_eq_true, if_false] at e2
      split at e1 <;> split at e2 <;> (repeat' split) <;> omega
    · simp only [if_true] at e2
      split at e1 <;> (repeat' split) <;> omega
  · intro h0; split at e1 <;> omega
  · intro c0 hs; subst hs; simp only [Bool.false_eq_true, if_false] at e2; split at e2 <;> omega

-- 100 000 sat channel, funder holds 60 000.999 sat, fee 700: 59 300 + 39 999 + 700 + 1 (remainder) = 100 000
example : closingTx { valueToSelfMsat := 60_000_999, chanValueSat := 100_000, dust := 354, isFunder := true, minFee := 0, maxFee := 0 } 700 false = some (59_300, 39_999, 700) := by decide
-- the fundee's 300.5 sat are below the dust limit: its output is dropped, the 300 sat go to the fee
example : closingTx { valueToSelfMsat := 99_699_500, chanValueSat := 100_000, dust := 354, isFunder := true, minFee := 0, maxFee := 0 } 700 false = some (98_999, 0, 700) := by decide

/-- The fundee never pays any part of the fee; the funder pays all of it. -/
theorem closing_fee_paid_by_funder (v : View) (fee : Nat) (h c u : Nat) (hv : v.valueToSelfMsat ≤ v.chanValueSat * 1000)
    (e : closingTx v fee false = some (h, c, u)) :
    (v.isFunder = false → h = cut v.dust (v.valueToSelfMsat / 1000) ∧
        c = cut v.dust ((v.chanValueSat * 1000 - v.valueToSelfMsat) / 1000 - fee)) ∧
    (v.isFunder = true → h = cut v.dust (v.valueToSelfMsat / 1000 - fee) ∧
        c = cut v.dust ((v.chanValueSat * 1000 - v.valueToSelfMsat) / 1000)) := by
  obtain ⟨_, _, _, e1, e2, e3, e4⟩ := closing_conservation v fee false h c u hv e
  simp only [Bool.false_eq_true, if_false] at e2
  rw [e3] at e1; rw [e4] at e2
  constructor <;> intro hf <;> simp only [hf, if_true, if_false, Bool.false_eq_true, Nat.sub_zero] at e1 e2 <;> exact ⟨e1, e2⟩

example : closingTx { valueToSelfMsat := 40_000_000, chanValueSat := 100_000, dust := 354, isFunder := false, minFee := 0, maxFee := 0 } 700 false = some (40_000, 59_300, 700) := by decide

/-! ### 2. both sides build the same transaction -/

/-- the two parties' views of one channel: same channel value, balances that partition it, opposite funder flags -/
def Mirror (A B : View) : Prop :=
  A.chanValueSat = B.chanValueSat ∧ A.valueToSelfMsat + B.valueToSelfMsat = A.chanValueSat * 1000 ∧ A.isFunder = !B.isFunder

/-- Before the dust test the two parties compute the same two values (msat rounding included) and the same funder balance —
    for every fee. -/
theorem closing_views_mirror (A B : View) (fee : Nat) (hm : Mirror A B) :
    holderPre A fee = cpPre B fee ∧ cpPre A fee = holderPre B fee ∧ funderBal A = funderBal B := by
  obtain ⟨h1, h2, h3⟩ := hm
  unfold holderPre cpPre funderBal
  rw [h3, ← h1]
  have e1 : A.chanValueSat * 1000 - B.valueToSelfMsat = A.valueToSelfMsat := by omega
  have e2 : A.chanValueSat * 1000 - A.valueToSelfMsat = B.valueToSelfMsat := by omega
  rw [e1, e2]
  cases B.isFunder <;> simp

/-- With equal dust limits (two LDK nodes: `MIN_CHAN_DUST_LIMIT_SATOSHIS` on both sides) both parties build the SAME closing
    transaction at every fee — so each one's signature verifies against the other's transaction — and fail together. -/
theorem closing_same_tx (A B : View) (fee : Nat) (hm : Mirror A B) (hd : A.dust = B.dust) (h c u : Nat) :
    closingTx A fee false = some (h, c, u) ↔ closingTx B fee false = some (c, h, u) := by
  obtain ⟨m1, m2, m3⟩ := closing_views_mirror A B fee hm
  have hvA : A.valueToSelfMsat ≤ A.chanValueSat * 1000 := by have := hm.2.1; omega
  have hvB : B.valueToSelfMsat ≤ B.chanValueSat * 1000 := by have := hm.2.1; have := hm.1; omega
  rw [closingTx_eq A fee false hvA, closingTx_eq B fee false hvB, m1, m2, m3, hd]
  split
  · simp
  · simp only [Bool.false_eq_true, if_false, Option.some.injEq, Prod.mk.injEq]
    constructor <;> (rintro ⟨a, b, c⟩; exact ⟨b, a, c⟩)

example : closingTx { valueToSelfMsat := 60_000_999, chanValueSat := 100_000, dust := 354, isFunder := true, minFee := 0, maxFee := 0 } 700 false = some (59_300, 39_999, 700) ∧
    closingTx { valueToSelfMsat := 39_999_001, chanValueSat := 100_000, dust := 354, isFunder := false, minFee := 0, maxFee := 0 } 700 false = some (39_999, 59_300, 700) := by decide

/-- DIFFERENT dust limits, exactly: `B` verifies the transaction `A` signed (plain, or — the retry of `closing_signed` — without
    A's own output) iff A's and B's dust tests agree on B's output, and agree on A's output or A dropped its own output. -/
theorem peer_verifies_iff (A B : View) (fee : Nat) (hm : Mirror A B) (h c u : Nat) (r : Option (Nat × Nat))
    (e : closingTx A fee false = some (h, c, u)) :
    (verified B { fee := fee, range := r, tx := (h, c) }).isSome = true ↔
    (cut A.dust (cpPre A fee) = cut B.dust (cpPre A fee) ∧
      (cut A.dust (holderPre A fee) = cut B.dust (holderPre A fee) ∨ cut A.dust (holderPre A fee) = 0)) := by
  obtain ⟨m1, m2, m3⟩ := closing_views_mirror A B fee hm
  have hvA : A.valueToSelfMsat ≤ A.chanValueSat * 1000 := by have := hm.2.1; omega
  have hvB : B.valueToSelfMsat ≤ B.chanValueSat * 1000 := by have := hm.2.1; have := hm.1; omega
  rw [closingTx_eq A fee false hvA] at e
  unfold verified
  simp only
  rw [closingTx_eq B fee false hvB, closingTx_eq B fee true hvB, ← m1, ← m2, ← m3]
  split at e
  · cases e
  · rename_i hf
    simp only [Bool.false_eq_true, if_false, Option.some.injEq, Prod.mk.injEq] at e
    obtain ⟨e1, e2, _⟩ := e
    simp only [hf, ↓reduceIte, Closing.flip, Bool.false_eq_true, beq_iff_eq, Prod.mk.injEq, ← e1, ← e2]
    generalize cut A.dust (holderPre A fee) = a
    generalize cut B.dust (holderPre A fee) = a'
    generalize cut A.dust (cpPre A fee) = b
    generalize cut B.dust (cpPre A fee) = b'
    by_cases k1 : a' = a <;> by_cases k2 : b' = b <;> by_cases k3 : 0 = a <;> simp [k1, k2, k3] <;> omega

def bandA : View := { valueToSelfMsat := 99_600_000, chanValueSat := 100_000, dust := 546, isFunder := true, minFee := 500, maxFee := 500 }
def bandB : View := { valueToSelfMsat := 400_000, chanValueSat := 100_000, dust := 354, isFunder := false, minFee := 0, maxFee := 99_600 }

/-- The band the retry does not cover: B's output lies above B's dust limit and at or below A's.  A drops it, B cannot verify
    A's signature against either variant: "Invalid closing tx signature from peer", force-close between two honest parties.
    (BOLT 2/3 let each node trim against its OWN limit; LDK as `B` has limit 354, a peer `A` may have up to 546.) -/
theorem peer_rejects_in_dust_band :
    Mirror bandA bandB ∧ closingTx bandA 500 false = some (99_100, 0, 500) ∧ closingTx bandB 500 false = some (400, 99_100, 500) ∧
    (propose bandA).map (onClosingSigned bandB none) = some (.err .close) := by
  unfold Mirror
  decide

/-! ### 3. tie to the update protocol: at every quiescent point of every guarded run both peers build the same closing transaction -/

open Ldk.Chan in
/-- For EVERY guarded run of the two-party protocol (all interleavings, fee updates, disconnections; Props/ChanProto.lean) that
    ends with no HTLC pending on either side: the closing transactions the two nodes build from their OWN `value_to_self_msat`
    are the same transaction at every fee, and it pays node `a` (the funder) its final balance less the fee and node `b` its final
    balance, each in whole satoshis (or nothing when `≤` the dust limit).
    Partial: inherits the guards (G1)–(G4) of `balance_quiescent_partial`; equal dust limits (`closing_same_tx`). -/
theorem coop_close_agreement_partial (va vb f0 : Nat) (evs : List Ev) (s : Sys) (chanSat dust minA maxA minB maxB fee : Nat)
    (h : runG (Sys.init va vb f0) evs = some s)
    (hq : s.a.inb = [] ∧ s.a.outb = [] ∧ s.b.inb = [] ∧ s.b.outb = [])
    (hc : va + vb = chanSat * 1000) :
    let A : View := { valueToSelfMsat := s.a.valueToSelf, chanValueSat := chanSat, dust := dust, isFunder := true, minFee := minA, maxFee := maxA }
    let B : View := { valueToSelfMsat := s.b.valueToSelf, chanValueSat := chanSat, dust := dust, isFunder := false, minFee := minB, maxFee := maxB }
    (∀ x y u, closingTx A fee false = some (x, y, u) ↔ closingTx B fee false = some (y, x, u)) ∧
    (closingTx A fee false = none ↔ s.a.valueToSelf / 1000 < fee) ∧
    (∀ x y u, closingTx A fee false = some (x, y, u) →
      x = cut dust (s.a.valueToSelf / 1000 - fee) ∧ y = cut dust (s.b.valueToSelf / 1000) ∧ u = fee) := by
  intro A B
  have hb := ChanProto.balance_quiescent_partial va vb f0 evs s h hq
  have hm : Mirror A B := ⟨rfl, by show s.a.valueToSelf + s.b.valueToSelf = chanSat * 1000; omega, rfl⟩
  have hvA : A.valueToSelfMsat ≤ A.chanValueSat * 1000 := by show s.a.valueToSelf ≤ chanSat * 1000; omega
  refine ⟨fun x y u => closing_same_tx A B fee hm rfl x y u, ?_, ?_⟩
  · rw [closing_fails_iff A fee false hvA]; rfl
  · intro x y u e
    obtain ⟨k1, k2⟩ := (closing_fee_paid_by_funder A fee x y u hvA e).2 rfl
    have hu := closingTx_used e
    refine ⟨k1, ?_, hu⟩
    have : (chanSat * 1000 - s.a.valueToSelf) = s.b.valueToSelf := by omega
    rw [k2]; show cut dust ((chanSat * 1000 - s.a.valueToSelf) / 1000) = _; rw [this]

-- non-vacuity: `ChanProto.goodRun` ends quiescent with 750 / 1250 msat … scaled: a 2 000 msat "channel" of 2 sat
example : (Ldk.Chan.runG (Ldk.Chan.Sys.init 1000 1000) ChanProto.goodRun).map (fun s =>
    (s.a.inb.isEmpty && s.a.outb.isEmpty && s.b.inb.isEmpty && s.b.outb.isEmpty,
     closingTx { valueToSelfMsat := s.a.valueToSelf, chanValueSat := 2, dust := 0, isFunder := true, minFee := 0, maxFee := 0 } 0 false,
     closingTx { valueToSelfMsat := s.b.valueToSelf, chanValueSat := 2, dust := 0, isFunder := false, minFee := 0, maxFee := 0 } 0 false)) =
    some (true, some (0, 1, 0), some (1, 0, 0)) := by decide

/-! ### 4. the fee negotiation -/

/-- `closing_negotiation_ready` (translated) demands: no inbound HTLC, no outbound HTLC, no pending fee update, both shutdowns. -/
theorem negotiation_ready_needs_quiescence {α β γ : Type} (inb : List α) (outb : List β) (pf : Option γ) (st : Bool)
    (h : closing_negotiation_ready inb outb pf st = true) : inb = [] ∧ outb = [] ∧ pf = none ∧ st = true := by
  unfold closing_negotiation_ready at h
  simp only [Bool.and_eq_true, List.isEmpty_iff, Option.isNone_iff_eq_none] at h
  exact ⟨h.1.1.1, h.1.1.2, h.1.2, h.2⟩

example : closing_negotiation_ready ([] : List Nat) ([] : List Nat) (none : Option Nat) true = true := by decide
example : closing_negotiation_ready [1] ([] : List Nat) (none : Option Nat) true = false := by decide

/-- THE NEGOTIATION, for all pairs of fee ranges, all balances, dust limits (a funder `F` and a fundee `N` that both run this
    code and send `fee_range`):
    * it always ends within three closing_signed messages;
    * if it fails (an `Err` anywhere: no consensus, the funder cannot pay, a signature that does not verify) NOBODY has broadcast;
    * otherwise BOTH broadcast the same transaction at the same fee, that transaction is one each of them builds itself at that
      fee (plain or without the signer's own dust output), and the fee lies in the funder's range, at or below the fundee's
      maximum, and at or above the fundee's minimum — except when the funder's first proposal `F.minFee` equals the fundee's
      maximum `N.maxFee` (= the funder's entire balance, `calculate_closing_fee_limits`) and that is below the fundee's minimum. -/
theorem negotiation_outcome (F N : View) (hF : F.isFunder = true) (hN : N.isFunder = false) :
    ((negotiate F N).err ≠ none → (negotiate F N).bF = none ∧ (negotiate F N).bN = none) ∧
    ((negotiate F N).err = none → ∃ fee t, (negotiate F N).bF = some (fee, t) ∧ (negotiate F N).bN = some (fee, t) ∧
        (closingTx F fee false = some (t.1, t.2, fee) ∨ closingTx F fee true = some (t.1, t.2, fee)) ∧
        (closingTx N fee false = some (t.2, t.1, fee) ∨ closingTx N fee true = some (t.2, t.1, fee)) ∧
        F.minFee ≤ fee ∧ fee ≤ F.maxFee ∧ fee ≤ N.maxFee ∧
        (N.minFee ≤ fee ∨ (fee = F.minFee ∧ fee = N.maxFee ∧ N.maxFee < N.minFee))) ∧
    (negotiate F N).msgs.length ≤ 3 :=
  negotiate_spec F N hF hN

/-- the fundee's own maximum is the funder's balance, so a fee the fundee proposes never makes `build_closing_transaction` fail -/
theorem fundee_max_is_funder_balance (cm nf : Nat) (t : Option Nat) (fr w fc chan vts : Nat) :
    (calculate_closing_fee_limits false cm nf t fr w fc chan vts).2 = chan - (vts + 999) / 1000 := by
  unfold calculate_closing_fee_limits
  cases t <;> simp

def exF : View := { valueToSelfMsat := 60_000_000, chanValueSat := 100_000, dust := 354, isFunder := true, minFee := 170, maxFee := 1500 }
def exN : View := { valueToSelfMsat := 40_000_000, chanValueSat := 100_000, dust := 354, isFunder := false, minFee := 400, maxFee := 60_000 }

-- overlapping ranges [170,1500] / [400,60000]: three messages, both broadcast (59 830 − … ) at the funder's maximum 1500
example : negotiate exF exN = { bF := some (1500, (58_500, 40_000)), bN := some (1500, (58_500, 40_000)), msgs := [⟨170, some (170, 1500), (59_830, 40_000)⟩, ⟨1500, some (400, 60_000), (40_000, 58_500)⟩, ⟨1500, some (170, 1500), (58_500, 40_000)⟩] } := by decide
-- disjoint ranges: warning, nobody broadcasts
example : negotiate ({ exF with maxFee := 300 } : View) exN = { err := some .warn, msgs := [⟨170, some (170, 300), (59_830, 40_000)⟩] } := by decide
-- the funder cannot pay its own minimum: no proposal at all
example : (negotiate ({ exF with valueToSelfMsat := 100_000 } : View) ({ exN with valueToSelfMsat := 99_900_000 } : View)).noProposal = true := by decide

def lowF : View := { valueToSelfMsat := 170_000, chanValueSat := 100_000, dust := 354, isFunder := true, minFee := 170, maxFee := 1500 }
def lowN : View := { valueToSelfMsat := 99_830_000, chanValueSat := 100_000, dust := 354, isFunder := false, minFee := 400, maxFee := 170 }

/-- The exception is real: the funder's balance (170 sat) equals its minimum fee; the fundee's minimum is 400 sat, its
    maximum the funder's balance (170): the fundee signs and broadcasts at 170 sat, below its own minimum. -/
theorem fundee_signs_below_its_minimum :
    Mirror lowF lowN ∧ (negotiate lowF lowN).err = none ∧ (negotiate lowF lowN).bN = some (170, (0, 99_830)) ∧
    (negotiate lowF lowN).bF = some (170, (0, 99_830)) ∧ lowN.minFee = 400 := by
  unfold Mirror
  decide

/-- Legacy negotiation (peer sends no `fee_range`), one step, for all values: the answer stays inside our own range, and when the
    peer did not echo our last fee it moves STRICTLY from our last fee towards the peer's (meet in the middle); the first answer
    is the peer's fee clamped into our range. -/
theorem legacy_decision (fnd : Bool) (fee omin omax nf : Nat) (last : Option Nat)
    (h : closing_signed_fee_decision fnd fee none last omin omax = .ok nf) (hr : omin ≤ omax) :
    (last = none → omin ≤ nf ∧ nf ≤ omax ∧ (omin ≤ fee → fee ≤ omax → nf = fee)) ∧
    (∀ lf, last = some lf → omin ≤ lf → lf ≤ omax → omin ≤ nf ∧ nf ≤ omax ∧
      (lf < fee → lf < nf ∧ nf ≤ fee) ∧ (fee < lf → fee ≤ nf ∧ nf < lf)) := by
  unfold closing_signed_fee_decision at h
  cases last with
  | none =>
    simp only [decide_eq_true_eq] at h
    refine ⟨fun _ => ?_, fun lf k => by cases k⟩
    (repeat' (split at h)) <;> cases h <;> omega
  | some l =>
    simp only [decide_eq_true_eq] at h
    refine ⟨fun k => (by cases k), fun lf k h1 h2 => ?_⟩
    injection k with k; subst k
    (repeat' (split at h)) <;> cases h <;> omega

example : (closing_signed_fee_decision true 900 none (some 300) 200 600).toOption = some 600 := by decide
example : (closing_signed_fee_decision true 100 none (some 300) 200 600).toOption = some 200 := by decide
example : (closing_signed_fee_decision true 900 none (some 600) 200 600).toOption = none := by decide

end Ldk.C01Close
