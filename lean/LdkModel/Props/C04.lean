/- C04 — Inbound payments are claimable only if complete and authentic; all-or-nothing.
   Property theorems only.  Model: Model/InboundPay.lean (mirrors lightning/src/ln/inbound_payment.rs
   and the claimable-payment handling of lightning/src/ln/channelmanager.rs); helper lemmas:
   Proofs/InboundPay.lean.  The constants (`MAX_VALUE_MSAT`, `MPP_TIMEOUT_TICKS`,
   `HTLC_FAIL_BACK_BUFFER`) and the predicates `mppOnchainTimeout` / `claimDeadline` are GENERATED from
   the Rust source on every run.

   Cryptography is a parameter: every statement is for an arbitrary `PayCrypto` (MAC, stream cipher,
   hash).  Where a fact about it is needed it is the functional hypothesis `PayCrypto.Wf` (output
   lengths; xor-stream encryption is an involution) — never a security assumption, never an axiom.
   What authenticity means here is therefore exactly: "accepted ⇒ the MAC equation holds for these
   very inputs" (`verify_accepts_iff`); that nobody can produce such an equation without the key is
   the assumption about HMAC-SHA256 listed in the evidence. -/
import LdkModel.Proofs.InboundPay
namespace Ldk.C04
open Ldk Ldk.InboundPay

/-! ## authentic: the stateless payment secret -/

/-- The input ranges of `create*` given by the Rust types (`u16` delta) plus "no `u64` overflow in
    `calculate_absolute_expiry`" (there the Rust code panics in debug builds and wraps in release). -/
structure Admissible (deltaSecs now : Nat) (cltv : Option Nat) : Prop where
  noOverflow : absoluteExpiry now deltaSecs < 2 ^ 64
  cltv16 : ∀ d, cltv = some d → d < 2 ^ 16

/-- Bit packing: `construct_info_bytes` fails exactly at its two bounds (minimum amount above
    `MAX_VALUE_MSAT` — which also covers the 2^61 test —, or a custom final CLTV with an expiry that
    does not fit 48 bits), and otherwise yields 16 bytes from which `verify` reads back the method,
    the minimum amount, the min-final-CLTV and the expiry it was given, for ALL admissible values. -/
theorem info_roundtrip (minAmt : Option Nat) (m : Method) (deltaSecs now : Nat) (cltv : Option Nat)
    (h : Admissible deltaSecs now cltv) :
    (constructInfo minAmt m deltaSecs now cltv = none ↔
      ((∃ a, minAmt = some a ∧ a > MAX_VALUE_MSAT) ∨
       (cltv.isSome = true ∧ absoluteExpiry now deltaSecs > 2 ^ 48 - 1))) ∧
    (∀ info, constructInfo minAmt m deltaSecs now cltv = some info →
      info.length = 16 ∧
      Method.fromBits (unpackInfo info).methodBits = some m ∧
      (unpackInfo info).amt = minAmt.getD 0 ∧
      (∀ d, cltv = some d → (unpackInfo info).cltvBits = d ∧
                             (unpackInfo info).expiry48 = absoluteExpiry now deltaSecs) ∧
      (cltv = none → (unpackInfo info).expiry64 = absoluteExpiry now deltaSecs)) := by
  refine ⟨constructInfo_eq_none minAmt m deltaSecs now cltv, fun info hi => ?_⟩
  rw [constructInfo_eq_some] at hi
  obtain ⟨h1, h2, rfl⟩ := hi
  have hmax := max_value_lt
  have ha : minAmt.getD 0 < 2 ^ 61 := by
    cases minAmt with
    | none => simp
    | some a => have := h1 a rfl; simp only [Option.getD_some]; omega
  have he : ExpOk (absoluteExpiry now deltaSecs) cltv := by
    cases cltv with
    | none => exact h.noOverflow
    | some d => exact ⟨by have := h2 rfl; omega, h.cltv16 d rfl⟩
  rw [unpack_pack m.bits _ _ cltv m.bits_lt ha he]
  refine ⟨packInfo_length _ _ _ _, Method.fromBits_bits m, rfl, fun d hd => ?_, fun hn => ?_⟩
  · subst hd; exact ⟨rfl, Nat.mod_eq_of_lt he.1⟩
  · subst hn; rfl

/-- `create` followed by `verify` (LDK-generated payment hash): the secret, hash and (encrypted)
    metadata returned by `create` verify, for every `total_msat` and every later time, exactly when
    `total ≥ min` and `expiry ≥ now'`; the answer carries a preimage of the payment hash, the
    registered min-final-CLTV and the original metadata — and when refused, the refusal is the amount
    one first. -/
theorem verify_create (C : PayCrypto) (hC : C.Wf) (k : Keys) (minAmt : Option Nat) (deltaSecs : Nat)
    (rand : Bytes) (now : Nat) (cltv : Option Nat) (md : Option Bytes) (hr : 16 ≤ rand.length)
    (h : Admissible deltaSecs now cltv) (hash secret : Bytes) (md' : Option Bytes)
    (hc : create C k minAmt deltaSecs rand now cltv md = some (hash, secret, md')) (total now' : Nat) :
    ∃ pre, C.hash pre = hash ∧
      verify C k hash secret total md' now' =
        if total < minAmt.getD 0 then .error .amountTooLow
        else if absoluteExpiry now deltaSecs < now' then .error .expired
        else .ok ⟨some pre, cltv, md⟩ := by
  unfold create at hc
  split at hc
  · cases hc
  · rename_i info hi
    rw [constructInfo_eq_some] at hi
    obtain ⟨h1, h2, rfl⟩ := hi
    simp only [Option.some.injEq, Prod.mk.injEq] at hc
    obtain ⟨rfl, rfl, rfl⟩ := hc
    have hmax := max_value_lt
    have ha : minAmt.getD 0 < 2 ^ 61 := by
      cases minAmt with
      | none => simp
      | some a => have := h1 a rfl; simp only [Option.getD_some]; omega
    have he : ExpOk (absoluteExpiry now deltaSecs) cltv := by
      cases cltv with
      | none => exact h.noOverflow
      | some d => exact ⟨by have := h2 rfl; omega, h.cltv16 d rfl⟩
    have hiv := take16_length rand hr
    have hm : (if cltv.isSome = true then Method.ldkHashCltv else Method.ldkHash) = .ldkHash ∨
        (if cltv.isSome = true then Method.ldkHashCltv else Method.ldkHash) = .ldkHashCltv := by
      cases cltv <;> simp
    have hcl : cltv.isSome = (if cltv.isSome = true then Method.ldkHashCltv else Method.ldkHash).hasCltv := by
      cases cltv <;> rfl
    refine ⟨_, rfl, ?_⟩
    have hmac := macStage_ldk C hC k _ hm _ _ cltv _ hiv ha he (md.map (C.enc k.metaKey (rand.take 16)))
    rw [verify_constructed C hC k _ _ _ cltv _ _ _ hiv ha he hcl _ hmac]
    cases md <;> simp [hC.enc_enc]

/-- `create_from_hash` followed by `verify` (user-provided payment hash): same, no preimage. -/
theorem verify_create_from_hash (C : PayCrypto) (hC : C.Wf) (k : Keys) (minAmt : Option Nat) (hash : Bytes)
    (deltaSecs : Nat) (rand : Bytes) (now : Nat) (cltv : Option Nat) (md : Option Bytes) (hr : 16 ≤ rand.length)
    (h : Admissible deltaSecs now cltv) (secret : Bytes) (md' : Option Bytes)
    (hc : createFromHash C k minAmt hash deltaSecs rand now cltv md = some (secret, md')) (total now' : Nat) :
    verify C k hash secret total md' now' =
      if total < minAmt.getD 0 then .error .amountTooLow
      else if absoluteExpiry now deltaSecs < now' then .error .expired
      else .ok ⟨none, cltv, md⟩ := by
  unfold createFromHash at hc
  split at hc
  · cases hc
  · rename_i info hi
    rw [constructInfo_eq_some] at hi
    obtain ⟨h1, h2, rfl⟩ := hi
    simp only [Option.some.injEq, Prod.mk.injEq] at hc
    obtain ⟨rfl, rfl⟩ := hc
    have hmax := max_value_lt
    have ha : minAmt.getD 0 < 2 ^ 61 := by
      cases minAmt with
      | none => simp
      | some a => have := h1 a rfl; simp only [Option.getD_some]; omega
    have he : ExpOk (absoluteExpiry now deltaSecs) cltv := by
      cases cltv with
      | none => exact h.noOverflow
      | some d => exact ⟨by have := h2 rfl; omega, h.cltv16 d rfl⟩
    have hivr := take16_length rand hr
    have hm : (if cltv.isSome = true then Method.userHashCltv else Method.userHash) = .userHash ∨
        (if cltv.isSome = true then Method.userHashCltv else Method.userHash) = .userHashCltv := by
      cases cltv <;> simp
    have hcl : cltv.isSome = (if cltv.isSome = true then Method.userHashCltv else Method.userHash).hasCltv := by
      cases cltv <;> rfl
    have hmac := macStage_user C hC k _ hm _ _ cltv hash _ hivr ha he md
    have hiv := mac_take16_length C hC k.userKey
      (packInfo (if cltv.isSome = true then Method.userHashCltv else Method.userHash).bits (minAmt.getD 0)
        (absoluteExpiry now deltaSecs) cltv ++ hash ++
        metaPart (md.map fun x => C.enc k.metaKey (rand.take 16) x ++ rand.take 16))
    rw [verify_constructed C hC k _ _ _ cltv _ _ _ hiv ha he hcl _ hmac]

/-- `create_for_spontaneous_payment` (as LDK calls it: no custom final CLTV) followed by `verify`. -/
theorem verify_create_spontaneous (C : PayCrypto) (hC : C.Wf) (k : Keys) (minAmt : Option Nat)
    (deltaSecs now : Nat) (h : Admissible deltaSecs now none) (hash secret : Bytes)
    (hc : createSpontaneous C k minAmt deltaSecs now none = some secret) (total now' : Nat) :
    verify C k hash secret total none now' =
      if total < minAmt.getD 0 then .error .amountTooLow
      else if absoluteExpiry now deltaSecs < now' then .error .expired
      else .ok ⟨none, none, none⟩ := by
  unfold createSpontaneous at hc
  split at hc
  · cases hc
  · rename_i info hi
    rw [constructInfo_eq_some] at hi
    obtain ⟨h1, _, rfl⟩ := hi
    simp only [Option.some.injEq] at hc
    subst hc
    have hmax := max_value_lt
    have ha : minAmt.getD 0 < 2 ^ 61 := by
      cases minAmt with
      | none => simp
      | some a => have := h1 a rfl; simp only [Option.getD_some]; omega
    have he : ExpOk (absoluteExpiry now deltaSecs) none := h.noOverflow
    have hmac := macStage_spont C hC k _ _ none hash ha he
    have hiv := mac_take16_length C hC k.spontKey
      (packInfo Method.spontaneous.bits (minAmt.getD 0) (absoluteExpiry now deltaSecs) none)
    rw [verify_constructed C hC k .spontaneous _ _ none _ _ _ hiv ha he rfl _ hmac]

/-- Exact characterisation of acceptance, for ANY hash, secret, amount, metadata and time (no
    hypothesis on the crypto): `verify` accepts ⇔ the decrypted method bits name a known method ∧ the
    method's MAC / hash equation holds for exactly these inputs ∧ `total_msat` reaches the encoded
    minimum ∧ the encoded expiry has not passed.  Hence a secret whose hash, amount bits, expiry
    bits, CLTV bits or metadata were changed is accepted only if the MAC equation holds anew for
    the changed values. -/
theorem verify_accepts_iff (C : PayCrypto) (k : Keys) (hash secret : Bytes) (total : Nat) (md : Option Bytes)
    (now : Nat) :
    (∃ r, verify C k hash secret total md now = .ok r) ↔
      ((Method.fromBits (infoOf C k secret).methodBits).isSome = true ∧
       MacEq C k hash secret md ∧
       minAmtOf C k secret ≤ total ∧
       now ≤ expiryOf C k secret) := by
  have hvalid : MacEq C k hash secret md → (Method.fromBits (infoOf C k secret).methodBits).isSome = true := by
    unfold MacEq infoOf
    simp only
    cases Method.fromBits (unpackInfo (decryptInfo C k secret).2).methodBits <;> simp
  constructor
  · rintro ⟨r, hr⟩
    cases hm : macStage C k hash secret md with
    | error e => rw [verify_of_macStage_error C k hash secret md e hm] at hr; cases hr
    | ok r' =>
      have hmac := (macStage_ok_iff C k hash secret md).1 ⟨r', hm⟩
      rw [verify_of_macStage_ok C k hash secret md r' hm] at hr
      refine ⟨hvalid hmac, hmac, ?_, ?_⟩
      · apply Classical.byContradiction; intro hlt
        rw [if_pos (by omega)] at hr; cases hr
      · apply Classical.byContradiction; intro hlt
        split at hr
        · cases hr
        · rw [if_pos (by omega)] at hr; cases hr
  · rintro ⟨_, hmac, hamt, hexp⟩
    obtain ⟨r', hm⟩ := (macStage_ok_iff C k hash secret md).2 hmac
    rw [verify_of_macStage_ok C k hash secret md r' hm, if_neg (by omega), if_neg (by omega)]
    exact ⟨_, rfl⟩

/-- What an accepting `verify` returns is determined by the secret: the min-final-CLTV encoded in
    it (for the two custom-CLTV methods), and for LDK-hash methods a preimage of the payment hash. -/
theorem verify_returns (C : PayCrypto) (k : Keys) (hash secret : Bytes) (total : Nat) (md : Option Bytes)
    (now : Nat) (r : VerifyOk) (h : verify C k hash secret total md now = .ok r) :
    r.minFinalCltv = minFinalCltvOf C k secret ∧ ∀ pre, r.preimage = some pre → C.hash pre = hash := by
  cases hm : macStage C k hash secret md with
  | error e => rw [verify_of_macStage_error C k hash secret md e hm] at h; cases h
  | ok r' =>
    rw [verify_of_macStage_ok C k hash secret md r' hm] at h
    split at h
    · cases h
    · split at h
      · cases h
      · cases h
        refine ⟨rfl, fun pre hp => ?_⟩
        simp only at hp
        exact macStage_preimage C k hash secret md r' hm pre hp

/-- The MAC is checked first: when authentication fails, `verify` gives that one answer for every
    `total_msat` and every time — no amount- or expiry-dependent result exists for an unauthentic
    secret (the second stage is not reached; `macStage` has no access to either value). -/
theorem mac_checked_first (C : PayCrypto) (k : Keys) (hash secret : Bytes) (md : Option Bytes)
    (hbad : ¬ MacEq C k hash secret md) :
    ∃ e, e ≠ VerifyErr.amountTooLow ∧ e ≠ VerifyErr.expired ∧
      ∀ total now, verify C k hash secret total md now = .error e := by
  cases hm : macStage C k hash secret md with
  | ok r => exact absurd ((macStage_ok_iff C k hash secret md).1 ⟨r, hm⟩) hbad
  | error e =>
    refine ⟨e, ?_, ?_, fun total now => verify_of_macStage_error C k hash secret md e hm total now⟩
    · exact (macStage_error_kind C k hash secret md e hm).1
    · exact (macStage_error_kind C k hash secret md e hm).2

/-! ## complete, all-or-nothing: the MPP accumulator of one payment hash

`Reachable s`: `s` is the accumulator after ANY list of ops (`part`, `tick`, `block h`, `claim`,
`claimDone`, `failBack`, with any arguments, in any order) from the empty one. -/

/-- `PaymentClaimable` is produced only by the arrival of a part, only while no claim is pending,
    and only when the set is complete: every held part carries the same `total_msat`, the same
    secret/metadata/purpose tag and the same even-TLV flag as the part that completed it, the
    sender-intended amounts reach the total, did not reach it before this part, and stay below
    `MAX_VALUE_MSAT`. -/
theorem claimable_only_if_complete (s : Mpp) (hs : Reachable s) (op : Op) (a k d : Nat)
    (h : Out.claimable a k d ∈ (step s op).2) :
    ∃ id value intended skim total cltv tag ev, op = .part id value intended skim total cltv tag ev ∧
      s.claiming = false ∧
      (∀ p ∈ (step s op).1.parts, p.total = total ∧ p.tag = tag ∧ p.evenTlv = ev) ∧
      total ≤ sumIntended (step s op).1.parts ∧
      sumIntended (step s op).1.parts - intended < total ∧
      sumIntended (step s op).1.parts < MAX_VALUE_MSAT := by
  obtain ⟨id, value, intended, skim, total, cltv, tag, ev, rfl⟩ := claimable_only_from_part s op a k d h
  refine ⟨id, value, intended, skim, total, cltv, tag, ev, rfl, ?_⟩
  have hinv := (hs.step (.part id value intended skim total cltv tag ev)).inv
  simp only [step] at h hinv ⊢
  obtain ⟨t, g, e, _, hcl, h1, h2, h3, hmax, hlt, hge, heq, _, _, _⟩ := stepPart_claimable s _ a k d h
  simp only at h1 h2 h3 hmax hlt hge
  subst h1 h2 h3
  rw [heq] at hinv ⊢
  simp only [sumIntended_completed]
  exact ⟨hcl, hinv.fields, by omega, by omega, by omega⟩

/-- The announced amount is the sum of the VALUES (what arrived) of exactly the held parts (the old
    ones and the new one), every one of them is marked with it, the announced skimmed fee is the sum
    of their `counterparty_skimmed_fee_msat`, and the announced deadline is the smallest
    `cltv_expiry` among them minus `HTLC_FAIL_BACK_BUFFER`. -/
theorem claimable_amount_deadline (s : Mpp) (op : Op) (a k d : Nat)
    (h : Out.claimable a k d ∈ (step s op).2) :
    a = sumValue (step s op).1.parts ∧ k = sumSkim (step s op).1.parts ∧
    (∀ p ∈ (step s op).1.parts, p.totalRecv = some a) ∧
    (∃ id value intended skim total cltv tag ev, op = .part id value intended skim total cltv tag ev ∧
      ((step s op).1.parts.map (·.id)).Perm (s.parts.map (·.id) ++ [id]) ∧
      a = sumValue s.parts + value ∧ k = sumSkim s.parts + skim.getD 0) ∧
    ∃ m, m ∈ (step s op).1.parts.map (·.cltv) ∧ (∀ c ∈ (step s op).1.parts.map (·.cltv), m ≤ c) ∧
      d = m - HTLC_FAIL_BACK_BUFFER := by
  obtain ⟨id, value, intended, skim, total, cltv, tag, ev, rfl⟩ := claimable_only_from_part s op a k d h
  simp only [step] at h ⊢
  obtain ⟨t, g, e, _, _, _, _, _, _, _, _, heq, ha, hk, hd⟩ := stepPart_claimable s _ a k d h
  rw [heq]
  simp only
  refine ⟨by rw [sumValue_completed]; exact ha, by rw [sumSkim_completed]; exact hk, ?_,
    ⟨id, value, intended, skim, total, cltv, tag, ev, rfl, ?_, ?_, ?_⟩, ?_⟩
  · intro p hp
    obtain ⟨q0, _, rfl⟩ := mem_completed hp
    rw [ha]
  · have := (completedParts_perm s { id, value, intended, skim, cltv, ticks := 0, totalRecv := none, total, tag, evenTlv := ev }).map (·.id)
    simpa [List.map_map, Function.comp_def] using this
  · rw [ha, sumValue_append]; simp [sumValue]
  · rw [hk, sumSkim_append]; simp [sumSkim]
  · cases hmin : minCltv (completedParts s { id, value, intended, skim, cltv, ticks := 0, totalRecv := none, total, tag, evenTlv := ev }) with
    | none =>
      exfalso
      simp only [minCltv, List.min?_eq_none_iff, List.map_eq_nil_iff] at hmin
      exact completed_ne_nil _ _ hmin
    | some m =>
      rw [hmin] at hd
      obtain ⟨h1, h2⟩ := (minCltv_spec _ m).1 hmin
      exact ⟨m, h1, h2, by rw [hd]; rfl⟩

/-- A part that arrives when the held set is already complete is failed back on its own; the set
    (and its announcement) is untouched. -/
theorem late_part_rejected (s : Mpp) (hne : s.parts ≠ []) (hc : s.total ≤ sumIntended s.parts)
    (id value intended : Nat) (skim : Option Nat) (total cltv tag : Nat) (ev : Bool) :
    step s (.part id value intended skim total cltv tag ev) = (s, [.failPart id]) := by
  simp only [step]
  exact stepPart_late s _ hne hc

/-- MPP timeout: a timer tick on an incomplete set in which some part has waited
    `MPP_TIMEOUT_TICKS` ticks fails EVERY held part and forgets the set; in every other case a tick
    fails nothing — in particular a complete set is never timed out. -/
theorem timeout_fails_all (s : Mpp) :
    (s.parts ≠ [] → sumIntended s.parts < s.total → (∃ p ∈ s.parts, MPP_TIMEOUT_TICKS ≤ p.ticks + 1) →
      (step s .tick).2 = s.parts.map (fun q => Out.failPart q.id) ∧ (step s .tick).1.parts = []) ∧
    (s.total ≤ sumIntended s.parts → (step s .tick).2 = []) ∧
    ((step s .tick).2 = [] ∨ (step s .tick).2 = s.parts.map (fun q => Out.failPart q.id) ∧ (step s .tick).1.parts = []) := by
  simp only [step]
  refine ⟨fun hne hlt hto => ?_, fun hc => ?_, ?_⟩
  · rcases stepTick_outs s with ⟨_, h2⟩ | ⟨h1, h2, _⟩
    · rcases h2 with h2 | h2 | h2
      · exact absurd h2 hne
      · omega
      · obtain ⟨p, hp, hp2⟩ := hto; have := h2 p hp; omega
    · exact ⟨h1, h2⟩
  · rcases stepTick_outs s with ⟨h1, _⟩ | ⟨_, _, _, h2, _⟩
    · exact h1
    · omega
  · rcases stepTick_outs s with ⟨h1, _⟩ | ⟨h1, h2, _⟩
    · exact Or.inl h1
    · exact Or.inr ⟨h1, h2⟩

/-- With the generated constant (`MPP_TIMEOUT_TICKS` of the build under test) the first tick that
    finds an incomplete set fails all of it. -/
theorem first_tick_fails_incomplete (s : Mpp) (hne : s.parts ≠ []) (hlt : sumIntended s.parts < s.total) :
    (step s .tick).2 = s.parts.map (fun q => Out.failPart q.id) ∧ (step s .tick).1.parts = [] := by
  obtain ⟨p, hp⟩ := List.exists_mem_of_ne_nil _ hne
  exact (timeout_fails_all s).1 hne hlt ⟨p, hp, by have : MPP_TIMEOUT_TICKS = 1 := rfl; omega⟩

/-- All-or-nothing, for every reachable accumulator and every op:
    * no step both releases a preimage and fails a part;
    * a step that releases a preimage is a `claim`, releases it on EVERY held part, reports
      `PaymentClaimed` for exactly their value, which is the amount every one of them was announced
      with, and leaves nothing held;
    * after ANY claim nothing is held, and what it did is one of: nothing / fulfil all / fail all;
    * `fail_htlc_backwards` fails every held part; a timer tick fails all held parts or none. -/
theorem all_or_nothing (s : Mpp) (hs : Reachable s) (op : Op) :
    (¬ ∃ i j, Out.fulfilPart i ∈ (step s op).2 ∧ Out.failPart j ∈ (step s op).2) ∧
    ((∃ i, Out.fulfilPart i ∈ (step s op).2) →
      ∃ known amt, op = .claim known ∧
        (step s op).2 = s.parts.map (fun q => Out.fulfilPart q.id) ++ [.claimed amt (sumSkim s.parts) s.total] ∧
        amt = sumValue s.parts ∧ (∀ p ∈ s.parts, p.totalRecv = some amt) ∧
        (step s op).1.parts = [] ∧ (step s op).1.claiming = true) ∧
    (∀ known, op = .claim known →
      (step s op).1.parts = [] ∧
      ((step s op).2 = [] ∨ (step s op).2 = [.inconsistent] ∨
       (step s op).2 = s.parts.map (fun q => Out.failPart q.id) ∨
       (step s op).2 = .inconsistent :: s.parts.map (fun q => Out.failPart q.id) ∨
       ∃ amt, (step s op).2 = s.parts.map (fun q => Out.fulfilPart q.id) ++ [.claimed amt (sumSkim s.parts) s.total])) ∧
    (op = .failBack → (step s op).2 = s.parts.map (fun q => Out.failPart q.id) ∧ (step s op).1.parts = []) ∧
    (op = .tick → (step s op).2 = [] ∨
      ((step s op).2 = s.parts.map (fun q => Out.failPart q.id) ∧ (step s op).1.parts = [])) := by
  have hful : (∃ i, Out.fulfilPart i ∈ (step s op).2) →
      ∃ known amt, op = .claim known ∧
        (step s op).2 = s.parts.map (fun q => Out.fulfilPart q.id) ++ [.claimed amt (sumSkim s.parts) s.total] ∧
        amt = sumValue s.parts ∧ (∀ p ∈ s.parts, p.totalRecv = some amt) ∧
        (step s op).1.parts = [] ∧ (step s op).1.claiming = true := by
    rintro ⟨i, hi⟩
    obtain ⟨known, rfl⟩ := fulfil_only_from_claim s op i hi
    simp only [step] at hi ⊢
    rcases stepClaim_outs s known with h1 | h1 | h1 | h1 | ⟨amt, h1, hl, hcl, _, _⟩
    · rw [h1] at hi; simp at hi
    · rw [h1] at hi; simp at hi
    · rw [h1] at hi; simp at hi
    · rw [h1] at hi; simp at hi
    · obtain ⟨hall, hsum⟩ := claim_success_inv hs.inv amt hl
      exact ⟨known, amt, rfl, h1, hsum.symm, hall, stepClaim_parts s known, hcl⟩
  refine ⟨?_, hful, ?_, ?_, ?_⟩
  · rintro ⟨i, j, hi, hj⟩
    obtain ⟨known, amt, rfl, h1, _⟩ := hful ⟨i, hi⟩
    rw [h1] at hj
    simp at hj
  · rintro known rfl
    simp only [step]
    refine ⟨stepClaim_parts s known, ?_⟩
    rcases stepClaim_outs s known with h1 | h1 | h1 | h1 | ⟨amt, h1, _⟩
    · exact Or.inl h1
    · exact Or.inr (Or.inl h1)
    · exact Or.inr (Or.inr (Or.inl h1))
    · exact Or.inr (Or.inr (Or.inr (Or.inl h1)))
    · exact Or.inr (Or.inr (Or.inr (Or.inr ⟨amt, h1⟩)))
  · rintro rfl; exact ⟨rfl, rfl⟩
  · rintro rfl; exact (timeout_fails_all s).2.2

/-- Claiming before the advertised deadline is total.  After `PaymentClaimable {a, d}` let ANY
    sequence of further parts, timer ticks, blocks at heights `< d` and claim completions pass
    (`Quiet d`): then no held part has been failed (the on-chain timeout fails none of them, ticks
    none, the only failures are the late parts themselves), and `claim_funds` releases the preimage
    on every part of the announced set and reports `PaymentClaimed` for exactly `a` (with the announced
    skimmed fee `k` and the onion total) — whatever was skimmed off or over-paid on the parts — unless the
    payment carries even custom TLVs and the plain `claim_funds` was used, in which case every part
    is failed (still all-or-nothing). -/
theorem claim_before_deadline_total (s : Mpp) (hs : Reachable s) (op : Op) (a k d : Nat)
    (h : Out.claimable a k d ∈ (step s op).2) (ops : List Op) (hq : ∀ o ∈ ops, Quiet d o) (known : Bool) :
    (∀ o ∈ (run (step s op).1 ops).2, ∃ i, o = .failPart i ∧ i ∈ partIds ops) ∧
    ids (run (step s op).1 ops).1 = ids (step s op).1 ∧
    ((known = true ∨ (step s op).1.evenTlv = false) →
      (step (run (step s op).1 ops).1 (.claim known)).2 =
        (ids (step s op).1).map Out.fulfilPart ++ [.claimed a k (step s op).1.total]) ∧
    ((known = false ∧ (step s op).1.evenTlv = true) →
      (step (run (step s op).1 ops).1 (.claim known)).2 = (ids (step s op).1).map Out.failPart) := by
  obtain ⟨hamt, hskim, hmark, _, m, hm1, hm2, hd⟩ := claimable_amount_deadline s op a k d h
  obtain ⟨id, value, intended, skim, total, cltv, tag, ev, hop, hcl, _, hge, _, _⟩ :=
    claimable_only_if_complete s hs op a k d h
  have hinv := (hs.step op).inv
  have hready : Ready (step s op).1 a d := by
    refine ⟨?_, hmark, hamt.symm, ?_, ?_, ?_⟩
    · intro hnil; rw [hnil] at hm1; simp at hm1
    · -- the state's total is the common total of its parts
      have : (step s op).1.total = total := by
        subst hop
        simp only [step] at h ⊢
        obtain ⟨t, g, e, _, _, _, h2, _, _, _, _, heq, _, _, _⟩ := stepPart_claimable s _ a k d h
        rw [heq]; exact h2.symm
      rw [this]; exact hge
    · intro p hp
      have := hm2 p.cltv (List.mem_map.2 ⟨p, hp, rfl⟩)
      rw [hd]; simp only [claimDeadline]; omega
    · subst hop
      simp only [step] at h ⊢
      obtain ⟨t, g, e, _, hc, _, _, _, _, _, _, heq, _, _, _⟩ := stepPart_claimable s _ a k d h
      rw [heq]; exact hc
  obtain ⟨g1, g2, g3, g4, g5, g6⟩ := hready.run_quiet ops hq
  refine ⟨g4, g2, fun hk => ?_, fun hk => ?_⟩
  · have e : ∀ t, step t (.claim known) = stepClaim t known := fun _ => rfl
    rw [e, ((g1.claim known).1 (by rw [g3]; exact hk))]
    have e2 : ∀ l : List Part, l.map (fun q => Out.fulfilPart q.id) = (l.map (·.id)).map Out.fulfilPart := by
      intro l; simp [List.map_map, Function.comp_def]
    simp only [ids] at g2 ⊢
    rw [e2, g2, g5, g6, ← hskim]
  · have e : ∀ t, step t (.claim known) = stepClaim t known := fun _ => rfl
    rw [e, ((g1.claim known).2 (by rw [g3]; exact hk))]
    have e2 : ∀ l : List Part, l.map (fun q => Out.failPart q.id) = (l.map (·.id)).map Out.failPart := by
      intro l; simp [List.map_map, Function.comp_def]
    simp only [ids] at g2 ⊢
    rw [e2, g2]

/-- If any part can no longer be claimed, none is.  Once the on-chain timeout (a block at height
    `h`) has failed a part of positive value of an announced set, then — whatever ops follow, as long
    as no new complete set is announced — no preimage is ever released for this payment hash. -/
theorem none_if_part_lost (s : Mpp) (hs : Reachable s) (h : Nat) (q : Part) (hq : q ∈ s.parts) (x : Nat)
    (hx : q.totalRecv = some x) (hpos : 0 < q.value) (hto : mppOnchainTimeout h q.cltv = true)
    (ops : List Op) (hno : ∀ a k d, Out.claimable a k d ∉ (run (step s (.block h)).1 ops).2) (i : Nat) :
    Out.failPart q.id ∈ (step s (.block h)).2 ∧
    Out.fulfilPart i ∉ (run (step s (.block h)).1 ops).2 := by
  constructor
  · simp only [step, stepBlock, List.mem_map, List.mem_filter]
    exact ⟨q, ⟨hq, hto⟩, rfl⟩
  · have hshort : Short (step s (.block h)).1 := Short.of_block hs.inv h q hq x hx hpos hto
    have hreach : Reachable (step s (.block h)).1 := hs.step _
    generalize (step s (.block h)).1 = s1 at hshort hreach hno
    induction ops generalizing s1 with
    | nil => simp [run]
    | cons op ops ih =>
      simp only [run, List.mem_append, not_or] at hno ⊢
      have hno1 : ∀ a k d, Out.claimable a k d ∉ (step s1 op).2 := fun a k d hm => (hno a k d).1 hm
      refine ⟨?_, ih _ (hshort.preserved op hno1) (hreach.step op) (fun a k d hm => (hno a k d).2 hm)⟩
      intro hm
      obtain ⟨known, rfl⟩ := fulfil_only_from_claim s1 op i hm
      exact Short.claim_none hreach.inv hshort known i hm

/-- Over the whole history of a payment hash (ANY op list from the empty accumulator, part ids
    distinct — an id stands for `(channel_id, htlc_id)`): every HTLC is resolved at most once. In
    particular no HTLC is ever both failed back and fulfilled, none is fulfilled (or failed) twice,
    and nothing is resolved that did not arrive. -/
theorem resolved_at_most_once (ops : List Op) (hnd : (partIds ops).Nodup) (i : Nat) :
    (resolvedIds (run Mpp.init ops).2).count i ≤ 1 ∧
    ¬ (Out.failPart i ∈ (run Mpp.init ops).2 ∧ Out.fulfilPart i ∈ (run Mpp.init ops).2) ∧
    (i ∈ resolvedIds (run Mpp.init ops).2 → i ∈ partIds ops) := by
  have hle := run_count_le Mpp.init ops i
  have h1 := (List.nodup_iff_count.1 hnd) i
  have h0 : (ids Mpp.init).count i = 0 := rfl
  simp only [List.count_append, h0, Nat.zero_add] at hle
  refine ⟨by omega, ?_, ?_⟩
  · rintro ⟨hf, hg⟩
    have e := count_resolvedIds (run Mpp.init ops).2 i
    have hf' := List.count_pos_iff.2 hf
    have hg' := List.count_pos_iff.2 hg
    omega
  · intro hm
    have := List.count_pos_iff.2 hm
    exact List.count_pos_iff.1 (by omega)

/-! ## non-vacuity: concrete instances of every hypothesis and outcome used above -/

/-- a toy `PayCrypto` that satisfies `Wf` (only for non-vacuity; the driver uses the real primitives) -/
def toyCrypto : PayCrypto where
  mac := fun k m => ((k ++ m) ++ List.replicate 32 0).take 32
  enc := fun _ _ d => d
  hash := fun b => b

private theorem toyWf : toyCrypto.Wf :=
  ⟨by intro k m; simp [toyCrypto, List.length_take]; omega, by intro k iv d; rfl, by intro k iv d; rfl⟩

def toyKeys : Keys := ⟨[1], [2], [3], [4], [5]⟩

example : Admissible 3600 1700000000 (some 18) := ⟨by decide, by intro d hd; cases hd; decide⟩
example : (create toyCrypto toyKeys (some 1000) 3600 (List.replicate 16 7) 1700000000 (some 18) none).isSome = true := by decide
example : constructInfo (some (MAX_VALUE_MSAT + 1)) .ldkHash 3600 1700000000 none = none := by decide
example : constructInfo (some MAX_VALUE_MSAT) .ldkHash 3600 1700000000 none ≠ none := by decide
example : constructInfo none .userHashCltv 0 (2 ^ 48 - 7200) (some 18) = none ∧
    constructInfo none .userHashCltv 0 (2 ^ 48 - 7201) (some 18) ≠ none := by decide

def okWith (r : Except VerifyErr VerifyOk) (c : Option Nat) (md : Option Bytes) : Bool :=
  match r with | .ok v => v.minFinalCltv == c && v.metadata == md && v.preimage.isSome | .error _ => false
def errIs (r : Except VerifyErr VerifyOk) (e : VerifyErr) : Bool :=
  match r with | .ok _ => false | .error x => x == e

/-- one concrete create → verify: accepted at the minimum and at the expiry, refused one below / one
    after; a changed hash is refused as such whatever the amount and the time -/
example :
    (create toyCrypto toyKeys (some 1000) 3600 (List.replicate 16 7) 1700000000 (some 18) (some [9, 9])).any
      (fun (h, sec, md) =>
        okWith (verify toyCrypto toyKeys h sec 1000 md (1700000000 + 3600 + 7200)) (some 18) (some [9, 9]) &&
        errIs (verify toyCrypto toyKeys h sec 999 md 1700000000) .amountTooLow &&
        errIs (verify toyCrypto toyKeys h sec 1000 md (1700000000 + 3600 + 7201)) .expired &&
        errIs (verify toyCrypto toyKeys (0 :: h) sec 1000 md 1700000000) .badMac &&
        errIs (verify toyCrypto toyKeys (0 :: h) sec 0 md (2 ^ 60)) .badMac) = true := by decide

-- the accumulator: two parts complete a 1000-msat payment (deadline = min cltv − 39), blocks below
-- the deadline change nothing, the claim fulfils both parts
example : (run Mpp.init [.part 1 600 600 none 1000 500 1 false, .tick]).2 = [.failPart 1] := by decide
example : (run Mpp.init [.part 2 600 600 none 1000 500 1 false, .part 1 400 400 none 1000 480 1 false,
      .part 3 10 10 none 1000 500 1 false, .tick, .block 440, .claim false]).2 =
    [.claimable 1000 0 441, .failPart 3, .fulfilPart 1, .fulfilPart 2, .claimed 1000 0 1000] := by decide
-- at the deadline the part with the smallest expiry is failed; the claim then releases nothing
example : (run Mpp.init [.part 2 600 600 none 1000 500 1 false, .part 1 400 400 none 1000 480 1 false,
      .block 441, .claim false]).2 = [.claimable 1000 0 441, .failPart 1] := by decide
example : Quiet 441 (.block 440) ∧ ¬ Quiet 441 (.block 441) := by simp [Quiet]
example : (partIds [.part 2 600 600 none 1000 500 1 false, .part 1 400 400 none 1000 480 1 false, .block 441, .claim false]).Nodup := by decide
-- onion-field mismatch, over-payment bound, even TLVs with the plain claim
example : (run Mpp.init [.part 1 600 600 none 1000 500 1 false, .part 2 400 400 none 999 500 1 false]).2 = [.failPart 2] := by decide
example : (run Mpp.init [.part 1 600 600 none 1000 500 1 true, .part 2 400 400 none 1000 500 1 true, .claim false]).2 =
    [.claimable 1000 0 461, .failPart 1, .failPart 2] := by decide
example : (run Mpp.init [.part 1 5 5 none (MAX_VALUE_MSAT + 9) 500 1 false, .part 2 MAX_VALUE_MSAT MAX_VALUE_MSAT none (MAX_VALUE_MSAT + 9) 500 1 false]).2 =
    [.failPart 2] := by decide
-- the "should not be reachable" branch of claim_payment_internal is reachable in the model
example : (run Mpp.init [.part 1 600 600 none 1000 500 1 false, .part 2 400 400 none 1000 480 1 false, .block 441,
      .part 3 100 100 none 1000 600 1 false, .claim false]).2 = [.claimable 1000 0 441, .failPart 2, .inconsistent] := by decide

end Ldk.C04
