/- C04 — Inbound payments are claimable only if complete and authentic; all-or-nothing.
   Property theorems only.  Model: Model/InboundPay.lean (mirrors lightning/src/ln/inbound_payment.rs
   and the claimable-payment handling of lightning/src/ln/channelmanager.rs); helper lemmas:
   Proofs/InboundPay.lean.  The constants (`MAX_VALUE_MSAT`, `MPP_TIMEOUT_TICKS`,
   `HTLC_FAIL_BACK_BUFFER`) and the predicates `mppOnchainTimeout` / `claimDeadline` are GENERATED from
   the Rust source on every run.

   Cryptography is a parameter: every statement is for an arbitrary `PayCrypto` (MAC, stream cipher,
   hash).  Where a fact about it is needed it is the functional hypothesis `PayCrypto.Wf` (output
   lengths; xor-stream encryption is an involution) — never a security assumption, never an axiom.
   What authenticity means here is therefore exactly: "accepted ⇒ the MAC equation holds for these
   very inputs" (`verify_accepts_iff`); that nobody can produce such an equation without the key is
   the assumption about HMAC-SHA256 listed in the evidence. -/
import LdkModel.Proofs.InboundPay
namespace Ldk.C04
open Ldk Ldk.InboundPay

/-! ## authentic: the stateless payment secret -/

/-- The input ranges of `create*` given by the Rust types (`u16` delta) plus "no `u64` overflow in
    `calculate_absolute_expiry`" (there the Rust code panics in debug builds and wraps in release). -/
structure Admissible (deltaSecs now : Nat) (cltv : Option Nat) : Prop where
  noOverflow : absoluteExpiry now deltaSecs < 2 ^ 64
  cltv16 : ∀ d, cltv = some d → d < 2 ^ 16

/-- Bit packing: `construct_info_bytes` fails exactly at its two bounds (minimum amount above
    `MAX_VALUE_MSAT` — which also covers the 2^61 test —, or a custom final CLTV with an expiry that
    does not fit 48 bits), and otherwise yields 16 bytes from which `verify` reads back the method,
    the minimum amount, the min-final-CLTV and the expiry it was given, for ALL admissible values. -/
theorem info_roundtrip (minAmt : Option Nat) (m : Method) (deltaSecs now : Nat) (cltv : Option Nat)
    (h : Admissible deltaSecs now cltv) :
    (constructInfo minAmt m deltaSecs now cltv = none ↔
      ((∃ a, minAmt = some a ∧ a > MAX_VALUE_MSAT) ∨
       (cltv.isSome = true ∧ absoluteExpiry now deltaSecs > 2 ^ 48 - 1))) ∧
    (∀ info, constructInfo minAmt m deltaSecs now cltv = some info →
      info.length = 16 ∧
      Method.fromBits (unpackInfo info).methodBits = some m ∧
      (unpackInfo info).amt = minAmt.getD 0 ∧
      (∀ d, cltv = some d → (unpackInfo info).cltvBits = d ∧
                             (unpackInfo info).expiry48 = absoluteExpiry now deltaSecs) ∧
      (cltv = none → (unpackInfo info).expiry64 = absoluteExpiry now deltaSecs)) := by
  refine ⟨constructInfo_eq_none minAmt m deltaSecs now cltv, fun info hi => ?_⟩
  rw [constructInfo_eq_some] at hi
  obtain ⟨h1, h2, rfl⟩ := hi
  have hmax := max_value_lt
  have ha : minAmt.getD 0 < 2 ^ 61 := by
    cases minAmt with
    | none => simp
    | some a => have := h1 a rfl; simp only [Option.getD_some]; omega
  have he : ExpOk (absoluteExpiry now deltaSecs) cltv := by
    cases cltv with
    | none => exact h.noOverflow
    | some d => exact ⟨by have := h2 rfl; omega, h.cltv16 d rfl⟩
  rw [unpack_pack m.bits _ _ cltv m.bits_lt ha he]
  refine ⟨packInfo_length _ _ _ _, Method.fromBits_bits m, rfl, fun d hd => ?_, fun hn => ?_⟩
  · subst hd; exact ⟨rfl, Nat.mod_eq_of_lt he.1⟩
  · subst hn; rfl

/-- `create` followed by `verify` (LDK-generated payment hash): the secret, hash and (encrypted)
    metadata returned by `create` verify, for every `total_msat` and every later time, exactly when
    `total ≥ min` and `expiry ≥ now'`; the answer carries a preimage of the payment hash, the
    registered min-final-CLTV and the original metadata — and when refused, the refusal is the amount
    one first. -/
theorem verify_create (C : PayCrypto) (hC : C.Wf) (k : Keys) (minAmt : Option Nat) (deltaSecs : Nat)
    (rand : Bytes) (now : Nat) (cltv : Option Nat) (md : Option Bytes) (hr : 16 ≤ rand.length)
    (h : Admissible deltaSecs now cltv) (hash secret : Bytes) (md' : Option Bytes)
    (hc : create C k minAmt deltaSecs rand now cltv md = some (hash, secret, md')) (total now' : Nat) :
    ∃ pre, C.hash pre = hash ∧
      verify C k hash secret total md' now' =
        if total < minAmt.getD 0 then .error .amountTooLow
        else if absoluteExpiry now deltaSecs < now' then .error .expired
        else .ok ⟨some pre, cltv, md⟩ := by
  unfold create at hc
  split at hc
  · cases hc
  · rename_i info hi
    rw [constructInfo_eq_some] at hi
    obtain ⟨h1, h2, rfl⟩ := hi
    simp only [Option.some.injEq, Prod.mk.injEq] at hc
    obtain ⟨rfl, rfl, rfl⟩ := hc
    have hmax := max_value_lt
    have ha : minAmt.getD 0 < 2 ^ 61 := by
      cases minAmt with
      | none => simp
      | some a => have := h1 a rfl; simp only [Option.getD_some]; omega
    have he : ExpOk (absoluteExpiry now deltaSecs) cltv := by
      cases cltv with
      | none => exact h.noOverflow
      | some d => exact ⟨by have := h2 rfl; omega, h.cltv16 d rfl⟩
    have hiv := take16_length rand hr
    have hm : (if cltv.isSome = true then Method.ldkHashCltv else Method.ldkHash) = .ldkHash ∨
        (if cltv.isSome = true then Method.ldkHashCltv else Method.ldkHash) = .ldkHashCltv := by
      cases cltv <;> simp
    have hcl : cltv.isSome = (if cltv.isSome = true then Method.ldkHashCltv else Method.ldkHash).hasCltv := by
      cases cltv <;> rfl
    refine ⟨_, rfl, ?_⟩
    have hmac := macStage_ldk C hC k _ hm _ _ cltv _ hiv ha he (md.map (C.enc k.metaKey (rand.take 16)))
    rw [verify_constructed C hC k _ _ _ cltv _ _ _ hiv ha he hcl _ hmac]
    cases md <;> simp [hC.enc_enc]

/-- `create_from_hash` followed by `verify` (user-provided payment hash): same, no preimage. -/
theorem verify_create_from_hash (C : PayCrypto) (hC : C.Wf) (k : Keys) (minAmt : Option Nat) (hash : Bytes)
    (deltaSecs : Nat) (rand : Bytes) (now : Nat) (cltv : Option Nat) (md : Option Bytes) (hr : 16 ≤ rand.length)
    (h : Admissible deltaSecs now cltv) (secret : Bytes) (md' : Option Bytes)
    (hc : createFromHash C k minAmt hash deltaSecs rand now cltv md = some (secret, md')) (total now' : Nat) :
    verify C k hash secret total md' now' =
      if total < minAmt.getD 0 then .error .amountTooLow
      else if absoluteExpiry now deltaSecs < now' then .error .expired
      else .ok ⟨none, cltv, md⟩ := by
  unfold createFromHash at hc
  split at hc
  · cases hc
  · rename_i info hi
    rw [constructInfo_eq_some] at hi
    obtain ⟨h1, h2, rfl⟩ := hi
    simp only [Option.some.injEq, Prod.mk.injEq] at hc
    obtain ⟨rfl, rfl⟩ := hc
    have hmax := max_value_lt
    have ha : minAmt.getD 0 < 2 ^ 61 := by
      cases minAmt with
      | none => simp
      | some a => have := h1 a rfl; simp only [Option.getD_some]; omega
    have he : ExpOk (absoluteExpiry now deltaSecs) cltv := by
      cases cltv with
      | none => exact h.noOverflow
      | some d => exact ⟨by have := h2 rfl; omega, h.cltv16 d rfl⟩
    have hivr := take16_length rand hr
    have hm : (if cltv.isSome = true then Method.userHashCltv else Method.userHash) = .userHash ∨
        (if cltv.isSome = true then Method.userHashCltv else Method.userHash) = .userHashCltv := by
      cases cltv <;> simp
    have hcl : cltv.isSome = (if cltv.isSome = true then Method.userHashCltv else Method.userHash).hasCltv := by
      cases cltv <;> rfl
    have hmac := macStage_user C hC k _ hm _ _ cltv hash _ hivr ha he md
    have hiv := mac_take16_length C hC k.userKey
      (packInfo (if cltv.isSome = true then Method.userHashCltv else Method.userHash).bits (minAmt.getD 0)
        (absoluteExpiry now deltaSecs) cltv ++ hash ++
        metaPart (md.map fun x => C.enc k.metaKey (rand.take 16) x ++ rand.take 16))
    rw [verify_constructed C hC k _ _ _ cltv _ _ _ hiv ha he hcl _ hmac]

/-- `create_for_spontaneous_payment` (as LDK calls it: no custom final CLTV) followed by `verify`. -/
theorem verify_create_spontaneous (C : PayCrypto) (hC : C.Wf) (k : Keys) (minAmt : Option Nat)
    (deltaSecs now : Nat) (h : Admissible deltaSecs now none) (hash secret : Bytes)
    (hc : createSpontaneous C k minAmt deltaSecs now none = some secret) (total now' : Nat) :
    verify C k hash secret total none now' =
      if total < minAmt.getD 0 then .error .amountTooLow
      else if absoluteExpiry now deltaSecs < now' then .error .expired
      else .ok ⟨none, none, none⟩ := by
  unfold createSpontaneous at hc
  split at hc
  · cases hc
  · rename_i info hi
    rw [constructInfo_eq_some] at hi
    obtain ⟨h1, _, rfl⟩ := hi
    simp only [Option.some.injEq] at hc
    subst hc
    have hmax := max_value_lt
    have ha : minAmt.getD 0 < 2 ^ 61 := by
      cases minAmt with
      | none => simp
      | some a => have := h1 a rfl; simp only [Option.getD_some]; omega
    have he : ExpOk (absoluteExpiry now deltaSecs) none := h.noOverflow
    have hmac := macStage_spont C hC k _ _ none hash ha he
    have hiv := mac_take16_length C hC k.spontKey
      (packInfo Method.spontaneous.bits (minAmt.getD 0) (absoluteExpiry now deltaSecs) none)
    rw [verify_constructed C hC k .spontaneous _ _ none _ _ _ hiv ha he rfl _ hmac]

/-- Exact characterisation of acceptance, for ANY hash, secret, amount, metadata and time (no
    hypothesis on the crypto): `verify` accepts ⇔ the decrypted method bits name a known method ∧ the
    method's MAC / hash equation holds for exactly these inputs ∧ `total_msat` reaches the encoded
    minimum ∧ the encoded expiry has not passed.  Hence a secret whose hash, amount bits, expiry
    bits, CLTV bits or metadata were changed is accepted only if the MAC equation holds anew for
    the changed values. -/
theorem verify_accepts_iff (C : PayCrypto) (k : Keys) (hash secret : Bytes) (total : Nat) (md : Option Bytes)
    (now : Nat) :
    (∃ r, verify C k hash secret total md now = .ok r) ↔
      ((Method.fromBits (infoOf C k secret).methodBits).isSome = true ∧
       MacEq C k hash secret md ∧
       minAmtOf C k secret ≤ total ∧
       now ≤ expiryOf C k secret) := by
  have hvalid : MacEq C k hash secret md → (Method.fromBits (infoOf C k secret).methodBits).isSome = true := by
    unfold MacEq infoOf
    simp only
    cases Method.fromBits (unpackInfo (decryptInfo C k secret).2).methodBits <;> simp
  constructor
  · rintro ⟨r, hr⟩
    cases hm : macStage C k hash secret md with
    | error e => rw [verify_of_macStage_error C k hash secret md e hm] at hr; cases hr
    | ok r' =>
      have hmac := (macStage_ok_iff C k hash secret md).1 ⟨r', hm⟩
      rw [verify_of_macStage_ok C k hash secret md r' hm] at hr
      refine ⟨hvalid hmac, hmac, ?_, ?_⟩
      · apply Classical.byContradiction; intro hlt
        rw [if_pos (by omega)] at hr; cases hr
      · apply Classical.byContradiction; intro hlt
        split at hr
        · cases hr
        · rw [if_pos (by omega)] at hr; cases hr
  · rintro ⟨_, hmac, hamt, hexp⟩
    obtain ⟨r', hm⟩ := (macStage_ok_iff C k hash secret md).2 hmac
    rw [verify_of_macStage_ok C k hash secret md r' hm, if_neg (by omega), if_neg (by omega)]
    exact ⟨_, rfl⟩

/-- What an accepting `verify` returns is determined by the secret: the min-final-CLTV encoded in
    it (for the two custom-CLTV methods), and for LDK-hash methods a preimage of the payment hash. -/
theorem verify_returns (C : PayCrypto) (k : Keys) (hash secret : Bytes) (total : Nat) (md : Option Bytes)
    (now : Nat) (r : VerifyOk) (h : verify C k hash secret total md now = .ok r) :
    r.minFinalCltv = minFinalCltvOf C k secret ∧ ∀ pre, r.preimage = some pre → C.hash pre = hash := by
  cases hm : macStage C k hash secret md with
  | error e => rw [verify_of_macStage_error C k hash secret md e hm] at h; cases h
  | ok r' =>
    rw [verify_of_macStage_ok C k hash secret md r' hm] at h
    split at h
    · cases h
    · split at h
      · cases h
      · cases h
        refine ⟨rfl, fun pre hp => ?_⟩
        simp only at hp
        exact macStage_preimage C k hash secret md r' hm pre hp

/-- The MAC is checked first: when authentication fails, `verify` gives that one answer for every
    `total_msat` and every time — no amount- or expiry-dependent result exists for an unauthentic
    secret (the second stage is not reached; `macStage` has no access to either value). -/
theorem mac_checked_first (C : PayCrypto) (k : Keys) (hash secret : Bytes) (md : Option Bytes)
    (hbad : ¬ MacEq C k hash secret md) :
    ∃ e, e ≠ VerifyErr.amountTooLow ∧ e ≠ VerifyErr.expired ∧
      ∀ total now, verify C k hash secret total md now = .error e := by
  cases hm : macStage C k hash secret md with
  | ok r => exact absurd ((macStage_ok_iff C k hash secret md).1 ⟨r, hm⟩) hbad
  | error e =>
    refine ⟨e, ?_, ?_, fun total now => verify_of_macStage_error C k hash secret md e hm total now⟩
    · exact (macStage_error_kind C k hash secret md e hm).1
    · exact (macStage_error_kind C k hash secret md e hm).2

end Ldk.C04
