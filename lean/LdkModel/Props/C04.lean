/- C04 — Inbound payments are claimable only if complete and authentic; all-or-nothing.
   Property theorems only.  Model: Model/InboundPay.lean (mirrors lightning/src/ln/inbound_payment.rs
   and the claimable-payment handling of lightning/src/ln/channelmanager.rs); helper lemmas:
   Proofs/InboundPay.lean.  The constants (`MAX_VALUE_MSAT`, `MPP_TIMEOUT_TICKS`,
   `HTLC_FAIL_BACK_BUFFER`) and the predicates `mppOnchainTimeout` / `claimDeadline` are GENERATED from
   the Rust source on every run.

   Cryptography is a parameter: every statement is for an arbitrary `PayCrypto` (MAC, stream cipher,
   hash).  Where a fact about it is needed it is the functional hypothesis `PayCrypto.Wf` (output
   lengths; xor-stream encryption is an involution) — never a security assumption, never an axiom.
   What authenticity means here is therefore exactly: "accepted ⇒ the MAC equation holds for these
   very inputs" (`verify_accepts_iff`); that nobody can produce such an equation without the key is
   the assumption about HMAC-SHA256 listed in the evidence. -/
import LdkModel.Proofs.InboundPay
namespace Ldk.C04
open Ldk Ldk.InboundPay

/-! ## authentic: the stateless payment secret -/

/-- The input ranges of `create*` given by the Rust types (`u16` delta) plus "no `u64` overflow in
    `calculate_absolute_expiry`" (there the Rust code panics in debug builds and wraps in release). -/
structure Admissible (deltaSecs now : Nat) (cltv : Option Nat) : Prop where
  noOverflow : absoluteExpiry now deltaSecs < 2 ^ 64
  cltv16 : ∀ d, cltv = some d → d < 2 ^ 16

/-- Bit packing: `construct_info_bytes` fails exactly at its two bounds (minimum amount above
    `MAX_VALUE_MSAT` — which also covers the 2^61 test —, or a custom final CLTV with an expiry that
    does not fit 48 bits), and otherwise yields 16 bytes from which `verify` reads back the method,
    the minimum amount, the min-final-CLTV and the expiry it was given, for ALL admissible values. -/
theorem info_roundtrip (minAmt : Option Nat) (m : Method) (deltaSecs now : Nat) (cltv : Option Nat)
    (h : Admissible deltaSecs now cltv) :
    (constructInfo minAmt m deltaSecs now cltv = none ↔
      ((∃ a, minAmt = some a ∧ a > MAX_VALUE_MSAT) ∨
       (cltv.isSome = true ∧ absoluteExpiry now deltaSecs > 2 ^ 48 - 1))) ∧
    (∀ info, constructInfo minAmt m deltaSecs now cltv = some info →
      info.length = 16 ∧
      Method.fromBits (unpackInfo info).methodBits = some m ∧
      (unpackInfo info).amt = minAmt.getD 0 ∧
      (∀ d, cltv = some d → (unpackInfo info).cltvBits = d ∧
                             (unpackInfo info).expiry48 = absoluteExpiry now deltaSecs) ∧
      (cltv = none → (unpackInfo info).expiry64 = absoluteExpiry now deltaSecs)) := by
  refine ⟨constructInfo_eq_none minAmt m deltaSecs now cltv, fun info hi => ?_⟩
  rw [constructInfo_eq_some] at hi
  obtain ⟨h1, h2, rfl⟩ := hi
  have hmax := max_value_lt
  have ha : minAmt.getD 0 < 2 ^ 61 := by
    cases minAmt with
    | none => simp
    | some a => have := h1 a rfl; simp only [Option.getD_some]; omega
  have he : ExpOk (absoluteExpiry now deltaSecs) cltv := by
    cases cltv with
    | none => exact h.noOverflow
    | some d => exact ⟨by have := h2 rfl; omega, h.cltv16 d rfl⟩
  rw [unpack_pack m.bits _ _ cltv m.bits_lt ha he]
  refine ⟨packInfo_length _ _ _ _, Method.fromBits_bits m, rfl, fun d hd => ?_, fun hn => ?_⟩
  · subst hd; exact ⟨rfl, Nat.mod_eq_of_lt he.1⟩
  · subst hn; rfl

/-- `create` followed by `verify` (LDK-generated payment hash): the secret, hash and (encrypted)
    metadata returned by `create` verify, for every `total_msat` and every later time, exactly when
    `total ≥ min` and `expiry ≥ now'`; the answer carries a preimage of the payment hash, the
    registered min-final-CLTV and the original metadata — and when refused, the refusal is the amount
    one first. -/
theorem verify_create (C : PayCrypto) (hC : C.Wf) (k : Keys) (minAmt : Option Nat) (deltaSecs : Nat)
    (rand : Bytes) (now : Nat) (cltv : Option Nat) (md : Option Bytes) (hr : 16 ≤ rand.length)
    (h : Admissible deltaSecs now cltv) (hash secret : Bytes) (md' : Option Bytes)
    (hc : create C k minAmt deltaSecs rand now cltv md = some (hash, secret, md')) (total now' : Nat) :
    ∃ pre, C.hash pre = hash ∧
      verify C k hash secret total md' now' =
        if total < minAmt.getD 0 then .error .amountTooLow
        else if absoluteExpiry now deltaSecs < now' then .error .expired
        else .ok ⟨some pre, cltv, md⟩ := by
  unfold create at hc
  split at hc
  · cases hc
  · rename_i info hi
    rw [constructInfo_eq_some] at hi
    obtain ⟨h1, h2, rfl⟩ := hi
    simp only [Option.some.injEq, Prod.mk.injEq] at hc
    obtain ⟨rfl, rfl, rfl⟩ := hc
    have hmax := max_value_lt
    have ha : minAmt.getD 0 < 2 ^ 61 := by
      cases minAmt with
      | none => simp
      | some a => have := h1 a rfl; simp only [Option.getD_some]; omega
    have he : ExpOk (absoluteExpiry now deltaSecs) cltv := by
      cases cltv with
      | none => exact h.noOverflow
      | some d => exact ⟨by have := h2 rfl; omega, h.cltv16 d rfl⟩
    have hiv := take16_length rand hr
    have hm : (if cltv.isSome = true then Method.ldkHashCltv else Method.ldkHash) = .ldkHash ∨
        (if cltv.isSome = true then Method.ldkHashCltv else Method.ldkHash) = .ldkHashCltv := by
      cases cltv <;> simp
    have hcl : cltv.isSome = (if cltv.isSome = true then Method.ldkHashCltv else Method.ldkHash).hasCltv := by
      cases cltv <;> rfl
    refine ⟨_, rfl, ?_⟩
    have hmac := macStage_ldk C hC k _ hm _ _ cltv _ hiv ha he (md.map (C.enc k.metaKey (rand.take 16)))
    rw [verify_constructed C hC k _ _ _ cltv _ _ _ hiv ha he hcl _ hmac]
    cases md <;> simp [hC.enc_enc]

/-- `create_from_hash` followed by `verify` (user-provided payment hash): same, no preimage. -/
theorem verify_create_from_hash (C : PayCrypto) (hC : C.Wf) (k : Keys) (minAmt : Option Nat) (hash : Bytes)
    (deltaSecs : Nat) (rand : Bytes) (now : Nat) (cltv : Option Nat) (md : Option Bytes) (hr : 16 ≤ rand.length)
    (h : Admissible deltaSecs now cltv) (secret : Bytes) (md' : Option Bytes)
    (hc : createFromHash C k minAmt hash deltaSecs rand now cltv md = some (secret, md')) (total now' : Nat) :
    verify C k hash secret total md' now' =
      if total < minAmt.getD 0 then .error .amountTooLow
      else if absoluteExpiry now deltaSecs < now' then .error .expired
      else .ok ⟨none, cltv, md⟩ := by
  unfold createFromHash at hc
  split at hc
  · cases hc
  · rename_i info hi
    rw [constructInfo_eq_some] at hi
    obtain ⟨h1, h2, rfl⟩ := hi
    simp only [Option.some.injEq, Prod.mk.injEq] at hc
    obtain ⟨rfl, rfl⟩ := hc
    have hmax := max_value_lt
    have ha : minAmt.getD 0 < 2 ^ 61 := by
      cases minAmt with
      | none => simp
      | some a => have := h1 a rfl; simp only [Option.getD_some]; omega
    have he : ExpOk (absoluteExpiry now deltaSecs) cltv := by
      cases cltv with
      | none => exact h.noOverflow
      | some d => exact ⟨by have := h2 rfl; omega, h.cltv16 d rfl⟩
    have hivr := take16_length rand hr
    have hm : (if cltv.isSome = true then Method.userHashCltv else Method.userHash) = .userHash ∨
        (if cltv.isSome = true then Method.userHashCltv else Method.userHash) = .userHashCltv := by
      cases cltv <;> simp
    have hcl : cltv.isSome = (if cltv.isSome = true then Method.userHashCltv else Method.userHash).hasCltv := by
      cases cltv <;> rfl
    have hmac := macStage_user C hC k _ hm _ _ cltv hash _ hivr ha he md
    have hiv := mac_take16_length C hC k.userKey
      (packInfo (if cltv.isSome = true then Method.userHashCltv else Method.userHash).bits (minAmt.getD 0)
        (absoluteExpiry now deltaSecs) cltv ++ hash ++
        metaPart (md.map fun x => C.enc k.metaKey (rand.take 16) x ++ rand.take 16))
    rw [verify_constructed C hC k _ _ _ cltv _ _ _ hiv ha he hcl _ hmac]

/-- `create_for_spontaneous_payment` (as LDK calls it: no custom final CLTV) followed by `verify`. -/
theorem verify_create_spontaneous (C : PayCrypto) (hC : C.Wf) (k : Keys) (minAmt : Option Nat)
    (deltaSecs now : Nat) (h : Admissible deltaSecs now none) (hash secret : Bytes)
    (hc : createSpontaneous C k minAmt deltaSecs now none = some secret) (total now' : Nat) :
    verify C k hash secret total none now' =
      if total < minAmt.getD 0 then .error .amountTooLow
      else if absoluteExpiry now deltaSecs < now' then .error .expired
      else .ok ⟨none, none, none⟩ := by
  unfold createSpontaneous at hc
  split at hc
  · cases hc
  · rename_i info hi
    rw [constructInfo_eq_some] at hi
    obtain ⟨h1, _, rfl⟩ := hi
    simp only [Option.some.injEq] at hc
    subst hc
    have hmax := max_value_lt
    have ha : minAmt.getD 0 < 2 ^ 61 := by
      cases minAmt with
      | none => simp
      | some a => have := h1 a rfl; simp only [Option.getD_some]; omega
    have he : ExpOk (absoluteExpiry now deltaSecs) none := h.noOverflow
    have hmac := macStage_spont C hC k _ _ none hash ha he
    have hiv := mac_take16_length C hC k.spontKey
      (packInfo Method.spontaneous.bits (minAmt.getD 0) (absoluteExpiry now deltaSecs) none)
    rw [verify_constructed C hC k .spontaneous _ _ none _ _ _ hiv ha he rfl _ hmac]

/-- Exact characterisation of acceptance, for ANY hash, secret, amount, metadata and time (no
    hypothesis on the crypto): `verify` accepts ⇔ the decrypted method bits name a known method ∧ the
    method's MAC / hash equation holds for exactly these inputs ∧ `total_msat` reaches the encoded
    minimum ∧ the encoded expiry has not passed.  Hence a secret whose hash, amount bits, expiry
    bits, CLTV bits or metadata were changed is accepted only if the MAC equation holds anew for
    the changed values. -/
theorem verify_accepts_iff (C : PayCrypto) (k : Keys) (hash secret : Bytes) (total : Nat) (md : Option Bytes)
    (now : Nat) :
    (∃ r, verify C k hash secret total md now = .ok r) ↔
      ((Method.fromBits (infoOf C k secret).methodBits).isSome = true ∧
       MacEq C k hash secret md ∧
       minAmtOf C k secret ≤ total ∧
       now ≤ expiryOf C k secret) := by
  have hvalid : MacEq C k hash secret md → (Method.fromBits (infoOf C k secret).methodBits).isSome = true := by
    unfold MacEq infoOf
    simp only
    cases Method.fromBits (unpackInfo (decryptInfo C k secret).2).methodBits <;> simp
  constructor
  · rintro ⟨r, hr⟩
    cases hm : macStage C k hash secret md with
    | error e => rw [verify_of_macStage_error C k hash secret md e hm] at hr; cases hr
    | ok r' =>
      have hmac := (macStage_ok_iff C k hash secret md).1 ⟨r', hm⟩
      rw [verify_of_macStage_ok C k hash secret md r' hm] at hr
      refine ⟨hvalid hmac, hmac, ?_, ?_⟩
      · apply Classical.byContradiction; intro hlt
        rw [if_pos (by omega)] at hr; cases hr
      · apply Classical.byContradiction; intro hlt
        split at hr
        · cases hr
        · rw [if_pos (by omega)] at hr; cases hr
  · rintro ⟨_, hmac, hamt, hexp⟩
    obtain ⟨r', hm⟩ := (macStage_ok_iff C k hash secret md).2 hmac
    rw [verify_of_macStage_ok C k hash secret md r' hm, if_neg (by omega), if_neg (by omega)]
    exact ⟨_, rfl⟩

/-- What an accepting `verify` returns is determined by the secret: the min-final-CLTV encoded in
    it (for the two custom-CLTV methods), and for LDK-hash methods a preimage of the payment hash. -/
theorem verify_returns (C : PayCrypto) (k : Keys) (hash secret : Bytes) (total : Nat) (md : Option Bytes)
    (now : Nat) (r : VerifyOk) (h : verify C k hash secret total md now = .ok r) :
    r.minFinalCltv = minFinalCltvOf C k secret ∧ ∀ pre, r.preimage = some pre → C.hash pre = hash := by
  cases hm : macStage C k hash secret md with
  | error e => rw [verify_of_macStage_error C k hash secret md e hm] at h; cases h
  | ok r' =>
    rw [verify_of_macStage_ok C k hash secret md r' hm] at h
    split at h
    · cases h
    · split at h
      · cases h
      · cases h
        refine ⟨rfl, fun pre hp => ?_⟩
        simp only at hp
        exact macStage_preimage C k hash secret md r' hm pre hp

/-- The MAC is checked first: when authentication fails, `verify` gives that one answer for every
    `total_msat` and every time — no amount- or expiry-dependent result exists for an unauthentic
    secret (the second stage is not reached; `macStage` has no access to either value). -/
theorem mac_checked_first (C : PayCrypto) (k : Keys) (hash secret : Bytes) (md : Option Bytes)
    (hbad : ¬ MacEq C k hash secret md) :
    ∃ e, e ≠ VerifyErr.amountTooLow ∧ e ≠ VerifyErr.expired ∧
      ∀ total now, verify C k hash secret total md now = .error e := by
  cases hm : macStage C k hash secret md with
  | ok r => exact absurd ((macStage_ok_iff C k hash secret md).1 ⟨r, hm⟩) hbad
  | error e =>
    refine ⟨e, ?_, ?_, fun total now => verify_of_macStage_error C k hash secret md e hm total now⟩
    · exact (macStage_error_kind C k hash secret md e hm).1
    · exact (macStage_error_kind C k hash secret md e hm).2

/-! ## complete, all-or-nothing: the MPP accumulator of one payment hash

`Reachable s`: `s` is the accumulator after ANY list of ops (`part`, `tick`, `block h`, `claim`,
`claimDone`, `failBack`, with any arguments, in any order) from the empty one. -/

/-- `PaymentClaimable` is produced only by the arrival of a part, only while no claim is pending,
    and only when the set is complete: every held part carries the same `total_msat`, the same
    secret/metadata/purpose tag and the same even-TLV flag as the part that completed it, the
    sender-intended amounts reach the total, did not reach it before this part, and stay below
    `MAX_VALUE_MSAT`. -/
theorem claimable_only_if_complete (s : Mpp) (hs : Reachable s) (op : Op) (a k d : Nat)
    (h : Out.claimable a k d ∈ (step s op).2) :
    ∃ id value intended skim total cltv tag ev, op = .part id value intended skim total cltv tag ev ∧
      s.claiming = false ∧
      (∀ p ∈ (step s op).1.parts, p.total = total ∧ p.tag = tag ∧ p.evenTlv = ev) ∧
      total ≤ sumIntended (step s op).1.parts ∧
      sumIntended (step s op).1.parts - intended < total ∧
      sumIntended (step s op).1.parts < MAX_VALUE_MSAT := by
  obtain ⟨id, value, intended, skim, total, cltv, tag, ev, rfl⟩ := claimable_only_from_part s op a k d h
  refine ⟨id, value, intended, skim, total, cltv, tag, ev, rfl, ?_⟩
  have hinv := (hs.step (.part id value intended skim total cltv tag ev)).inv
  simp only [step] at h hinv ⊢
  obtain ⟨t, g, e, _, hcl, h1, h2, h3, hmax, hlt, hge, heq, _, _, _⟩ := stepPart_claimable s _ a k d h
  simp only at h1 h2 h3 hmax hlt hge
  subst h1 h2 h3
  rw [heq] at hinv ⊢
  simp only [sumIntended_completed]
  exact ⟨hcl, hinv.fields, by omega, by omega, by omega⟩

/-- The announced amount is the sum of the VALUES (what arrived) of exactly the held parts (the old
    ones and the new one), every one of them is marked with it, the announced skimmed fee is the sum
    of their `counterparty_skimmed_fee_msat`, and the announced deadline is the smallest
    `cltv_expiry` among them minus `HTLC_FAIL_BACK_BUFFER`. -/
theorem claimable_amount_deadline (s : Mpp) (op : Op) (a k d : Nat)
    (h : Out.claimable a k d ∈ (step s op).2) :
    a = sumValue (step s op).1.parts ∧ k = sumSkim (step s op).1.parts ∧
    (∀ p ∈ (step s op).1.parts, p.totalRecv = some a) ∧
    (∃ id value intended skim total cltv tag ev, op = .part id value intended skim total cltv tag ev ∧
      ((step s op).1.parts.map (·.id)).Perm (s.parts.map (·.id) ++ [id]) ∧
      a = sumValue s.parts + value ∧ k = sumSkim s.parts + skim.getD 0) ∧
    ∃ m, m ∈ (step s op).1.parts.map (·.cltv) ∧ (∀ c ∈ (step s op).1.parts.map (·.cltv), m ≤ c) ∧
      d = m - HTLC_FAIL_BACK_BUFFER := by
  obtain ⟨id, value, intended, skim, total, cltv, tag, ev, rfl⟩ := claimable_only_from_part s op a k d h
  simp only [step] at h ⊢
  obtain ⟨t, g, e, _, _, _, _, _, _, _, _, heq, ha, hk, hd⟩ := stepPart_claimable s _ a k d h
  rw [heq]
  simp only
  refine ⟨by rw [sumValue_completed]; exact ha, by rw [sumSkim_completed]; exact hk, ?_,
    ⟨id, value, intended, skim, total, cltv, tag, ev, rfl, ?_, ?_, ?_⟩, ?_⟩
  · intro p hp
    obtain ⟨q0, _, rfl⟩ := mem_completed hp
    rw [ha]
  · have := (completedParts_perm s { id, value, intended, skim, cltv, ticks := 0, totalRecv := none, total, tag, evenTlv := ev }).map (·.id)
    simpa [List.map_map, Function.comp_def] using this
  · rw [ha, sumValue_append]; simp [sumValue]
  · rw [hk, sumSkim_append]; simp [sumSkim]
  · cases hmin : minCltv (completedParts s { id, value, intended, skim, cltv, ticks := 0, totalRecv := none, total, tag, evenTlv := ev }) with
    | none =>
      exfalso
      simp only [minCltv, List.min?_eq_none_iff, List.map_eq_nil_iff] at hmin
      exact completed_ne_nil _ _ hmin
    | some m =>
      rw [eventClaimDeadline_eq, hmin] at hd
      obtain ⟨h1, h2⟩ := (minCltv_spec _ m).1 hmin
      exact ⟨m, h1, h2, by rw [hd]; rfl⟩

/-- The advertised claim window is safe, stated about the TRANSLATED `claim_deadline` expression of
    `handle_claimable_htlc` (`MppGen.eventClaimDeadline`, regenerated from the Rust text on every run) and the
    TRANSLATED `MppPart::check_onchain_timeout`, for ALL non-empty part lists in any order: the advertised
    deadline is `cltv_expiry - HTLC_FAIL_BACK_BUFFER` of some part of the set, no part has a smaller one, and at every
    height strictly below it the on-chain timeout fails NO part of the set. (A deadline taken from the first /
    last / largest expiry instead of the minimum makes this — and `claimable_amount_deadline`,
    `claim_before_deadline_total` through `eventClaimDeadline_eq` — stop checking.) -/
theorem advertised_deadline_precedes_every_part_timeout (htlcs : List MppGen.PartG) (hne : htlcs ≠ []) (htlc_expiry : Nat) :
    (∃ p ∈ htlcs, MppGen.eventClaimDeadline htlcs htlc_expiry = p.cltv_expiry - HTLC_FAIL_BACK_BUFFER) ∧
    (∀ p ∈ htlcs, MppGen.eventClaimDeadline htlcs htlc_expiry ≤ p.cltv_expiry - HTLC_FAIL_BACK_BUFFER) ∧
    ∀ h, h < MppGen.eventClaimDeadline htlcs htlc_expiry → ∀ p ∈ htlcs, mppOnchainTimeout h p.cltv_expiry = false := by
  cases hmin : MppGen.eventMinCltv htlcs with
  | none =>
    exfalso
    simp only [MppGen.eventMinCltv, List.min?_eq_none_iff, List.map_eq_nil_iff] at hmin
    exact hne hmin
  | some m =>
    have hd : MppGen.eventClaimDeadline htlcs htlc_expiry = m - HTLC_FAIL_BACK_BUFFER := by
      simp only [MppGen.eventClaimDeadline, hmin]
    obtain ⟨h1, h2⟩ := List.min?_eq_some_iff.1 (by simpa only [MppGen.eventMinCltv] using hmin)
    obtain ⟨p0, hp0, hp0e⟩ := List.mem_map.1 h1
    have hle : ∀ p ∈ htlcs, MppGen.eventClaimDeadline htlcs htlc_expiry ≤ p.cltv_expiry - HTLC_FAIL_BACK_BUFFER := by
      intro p hp
      have := h2 p.cltv_expiry (List.mem_map.2 ⟨p, hp, rfl⟩)
      rw [hd]; omega
    refine ⟨⟨p0, hp0, by rw [hd, ← hp0e]⟩, hle, fun h hlt p hp => ?_⟩
    have := hle p hp
    simp only [mppOnchainTimeout, decide_eq_false_iff_not, ge_iff_le]
    omega

example : MppGen.eventClaimDeadline [⟨400, 400, 0, some 1000, 480, none⟩, ⟨600, 600, 0, some 1000, 500, none⟩] 480 = 480 - HTLC_FAIL_BACK_BUFFER ∧
    MppGen.eventClaimDeadline [⟨600, 600, 0, some 1000, 500, none⟩, ⟨400, 400, 0, some 1000, 480, none⟩] 480 = 480 - HTLC_FAIL_BACK_BUFFER := by decide

/-- A part that arrives when the held set is already complete is failed back on its own; the set
    (and its announcement) is untouched. -/
theorem late_part_rejected (s : Mpp) (hne : s.parts ≠ []) (hc : s.total ≤ sumIntended s.parts)
    (id value intended : Nat) (skim : Option Nat) (total cltv tag : Nat) (ev : Bool) :
    step s (.part id value intended skim total cltv tag ev) = (s, [.failPart id]) := by
  simp only [step]
  exact stepPart_late s _ hne hc

/-- MPP timeout: a timer tick on an incomplete set in which some part has waited
    `MPP_TIMEOUT_TICKS` ticks fails EVERY held part and forgets the set; in every other case a tick
    fails nothing — in particular a complete set is never timed out. -/
theorem timeout_fails_all (s : Mpp) :
    (s.parts ≠ [] → sumIntended s.parts < s.total → (∃ p ∈ s.parts, MPP_TIMEOUT_TICKS ≤ p.ticks + 1) →
      (step s .tick).2 = s.parts.map (fun q => Out.failPart q.id) ∧ (step s .tick).1.parts = []) ∧
    (s.total ≤ sumIntended s.parts → (step s .tick).2 = []) ∧
    ((step s .tick).2 = [] ∨ (step s .tick).2 = s.parts.map (fun q => Out.failPart q.id) ∧ (step s .tick).1.parts = []) := by
  simp only [step]
  refine ⟨fun hne hlt hto => ?_, fun hc => ?_, ?_⟩
  · rcases stepTick_outs s with ⟨_, h2⟩ | ⟨h1, h2, _⟩
    · rcases h2 with h2 | h2 | h2
      · exact absurd h2 hne
      · omega
      · obtain ⟨p, hp, hp2⟩ := hto; have := h2 p hp; omega
    · exact ⟨h1, h2⟩
  · rcases stepTick_outs s with ⟨h1, _⟩ | ⟨_, _, _, h2, _⟩
    · exact h1
    · omega
  · rcases stepTick_outs s with ⟨h1, _⟩ | ⟨h1, h2, _⟩
    · exact Or.inl h1
    · exact Or.inr ⟨h1, h2⟩

/-- With the generated constant (`MPP_TIMEOUT_TICKS` of the build under test) the first tick that
    finds an incomplete set fails all of it. -/
theorem first_tick_fails_incomplete (s : Mpp) (hne : s.parts ≠ []) (hlt : sumIntended s.parts < s.total) :
    (step s .tick).2 = s.parts.map (fun q => Out.failPart q.id) ∧ (step s .tick).1.parts = [] := by
  obtain ⟨p, hp⟩ := List.exists_mem_of_ne_nil _ hne
  exact (timeout_fails_all s).1 hne hlt ⟨p, hp, by have : MPP_TIMEOUT_TICKS = 1 := rfl; omega⟩

/-- All-or-nothing, for every reachable accumulator and every op:
    * no step both releases a preimage and fails a part;
    * a step that releases a preimage is a `claim`, releases it on EVERY held part, reports
      `PaymentClaimed` for exactly their value, which is the amount every one of them was announced
      with, and leaves nothing held;
    * after ANY claim nothing is held, and what it did is one of: nothing / fulfil all / fail all;
    * `fail_htlc_backwards` fails every held part; a timer tick fails all held parts or none. -/
theorem all_or_nothing (s : Mpp) (hs : Reachable s) (op : Op) :
    (¬ ∃ i j, Out.fulfilPart i ∈ (step s op).2 ∧ Out.failPart j ∈ (step s op).2) ∧
    ((∃ i, Out.fulfilPart i ∈ (step s op).2) →
      ∃ known amt, op = .claim known ∧
        (step s op).2 = s.parts.map (fun q => Out.fulfilPart q.id) ++ [.claimed amt (sumSkim s.parts) s.total] ∧
        amt = sumValue s.parts ∧ (∀ p ∈ s.parts, p.totalRecv = some amt) ∧
        (step s op).1.parts = [] ∧ (step s op).1.claiming = true) ∧
    (∀ known, op = .claim known →
      (step s op).1.parts = [] ∧
      ((step s op).2 = [] ∨ (step s op).2 = [.inconsistent] ∨
       (step s op).2 = s.parts.map (fun q => Out.failPart q.id) ∨
       (step s op).2 = .inconsistent :: s.parts.map (fun q => Out.failPart q.id) ∨
       ∃ amt, (step s op).2 = s.parts.map (fun q => Out.fulfilPart q.id) ++ [.claimed amt (sumSkim s.parts) s.total])) ∧
    (op = .failBack → (step s op).2 = s.parts.map (fun q => Out.failPart q.id) ∧ (step s op).1.parts = []) ∧
    (op = .tick → (step s op).2 = [] ∨
      ((step s op).2 = s.parts.map (fun q => Out.failPart q.id) ∧ (step s op).1.parts = [])) := by
  have hful : (∃ i, Out.fulfilPart i ∈ (step s op).2) →
      ∃ known amt, op = .claim known ∧
        (step s op).2 = s.parts.map (fun q => Out.fulfilPart q.id) ++ [.claimed amt (sumSkim s.parts) s.total] ∧
        amt = sumValue s.parts ∧ (∀ p ∈ s.parts, p.totalRecv = some amt) ∧
        (step s op).1.parts = [] ∧ (step s op).1.claiming = true := by
    rintro ⟨i, hi⟩
    obtain ⟨known, rfl⟩ := fulfil_only_from_claim s op i hi
    simp only [step] at hi ⊢
    rcases stepClaim_outs s known with h1 | h1 | h1 | h1 | ⟨amt, h1, hl, hcl, _, _⟩
    · rw [h1] at hi; simp at hi
    · rw [h1] at hi; simp at hi
    · rw [h1] at hi; simp at hi
    · rw [h1] at hi; simp at hi
    · obtain ⟨hall, hsum⟩ := claim_success_inv hs.inv amt hl
      exact ⟨known, amt, rfl, h1, hsum.symm, hall, stepClaim_parts s known, hcl⟩
  refine ⟨?_, hful, ?_, ?_, ?_⟩
  · rintro ⟨i, j, hi, hj⟩
    obtain ⟨known, amt, rfl, h1, _⟩ := hful ⟨i, hi⟩
    rw [h1] at hj
    simp at hj
  · rintro known rfl
    simp only [step]
    refine ⟨stepClaim_parts s known, ?_⟩
    rcases stepClaim_outs s known with h1 | h1 | h1 | h1 | ⟨amt, h1, _⟩
    · exact Or.inl h1
    · exact Or.inr (Or.inl h1)
    · exact Or.inr (Or.inr (Or.inl h1))
    · exact Or.inr (Or.inr (Or.inr (Or.inl h1)))
    · exact Or.inr (Or.inr (Or.inr (Or.inr ⟨amt, h1⟩)))
  · rintro rfl; exact ⟨rfl, rfl⟩
  · rintro rfl; exact (timeout_fails_all s).2.2

/-- Claiming before the advertised deadline is total.  After `PaymentClaimable {a, d}` let ANY
    sequence of further parts, timer ticks, blocks at heights `< d` and claim completions pass
    (`Quiet d`): then no held part has been failed (the on-chain timeout fails none of them, ticks
    none, the only failures are the late parts themselves), and `claim_funds` releases the preimage
    on every part of the announced set and reports `PaymentClaimed` for exactly `a` (with the announced
    skimmed fee `k` and the onion total) — whatever was skimmed off or over-paid on the parts — unless the
    payment carries even custom TLVs and the plain `claim_funds` was used, in which case every part
    is failed (still all-or-nothing). -/
theorem claim_before_deadline_total (s : Mpp) (hs : Reachable s) (op : Op) (a k d : Nat)
    (h : Out.claimable a k d ∈ (step s op).2) (ops : List Op) (hq : ∀ o ∈ ops, Quiet d o) (known : Bool) :
    (∀ o ∈ (run (step s op).1 ops).2, ∃ i, o = .failPart i ∧ i ∈ partIds ops) ∧
    ids (run (step s op).1 ops).1 = ids (step s op).1 ∧
    ((known = true ∨ (step s op).1.evenTlv = false) →
      (step (run (step s op).1 ops).1 (.claim known)).2 =
        (ids (step s op).1).map Out.fulfilPart ++ [.claimed a k (step s op).1.total]) ∧
    ((known = false ∧ (step s op).1.evenTlv = true) →
      (step (run (step s op).1 ops).1 (.claim known)).2 = (ids (step s op).1).map Out.failPart) := by
  obtain ⟨hamt, hskim, hmark, _, m, hm1, hm2, hd⟩ := claimable_amount_deadline s op a k d h
  obtain ⟨id, value, intended, skim, total, cltv, tag, ev, hop, hcl, _, hge, _, _⟩ :=
    claimable_only_if_complete s hs op a k d h
  have hinv := (hs.step op).inv
  have hready : Ready (step s op).1 a d := by
    refine ⟨?_, hmark, hamt.symm, ?_, ?_, ?_⟩
    · intro hnil; rw [hnil] at hm1; simp at hm1
    · -- the state's total is the common total of its parts
      have : (step s op).1.total = total := by
        subst hop
        simp only [step] at h ⊢
        obtain ⟨t, g, e, _, _, _, h2, _, _, _, _, heq, _, _, _⟩ := stepPart_claimable s _ a k d h
        rw [heq]; exact h2.symm
      rw [this]; exact hge
    · intro p hp
      have := hm2 p.cltv (List.mem_map.2 ⟨p, hp, rfl⟩)
      rw [hd]; simp only [claimDeadline]; omega
    · subst hop
      simp only [step] at h ⊢
      obtain ⟨t, g, e, _, hc, _, _, _, _, _, _, heq, _, _, _⟩ := stepPart_claimable s _ a k d h
      rw [heq]; exact hc
  obtain ⟨g1, g2, g3, g4, g5, g6⟩ := hready.run_quiet ops hq
  refine ⟨g4, g2, fun hk => ?_, fun hk => ?_⟩
  · have e : ∀ t, step t (.claim known) = stepClaim t known := fun _ => rfl
    rw [e, ((g1.claim known).1 (by rw [g3]; exact hk))]
    have e2 : ∀ l : List Part, l.map (fun q => Out.fulfilPart q.id) = (l.map (·.id)).map Out.fulfilPart := by
      intro l; simp [List.map_map, Function.comp_def]
    simp only [ids] at g2 ⊢
    rw [e2, g2, g5, g6, ← hskim]
  · have e : ∀ t, step t (.claim known) = stepClaim t known := fun _ => rfl
    rw [e, ((g1.claim known).2 (by rw [g3]; exact hk))]
    have e2 : ∀ l : List Part, l.map (fun q => Out.failPart q.id) = (l.map (·.id)).map Out.failPart := by
      intro l; simp [List.map_map, Function.comp_def]
    simp only [ids] at g2 ⊢
    rw [e2, g2]

/-- If any part can no longer be claimed, none is.  Once the on-chain timeout (a block at height
    `h`) has failed a part of positive value of an announced set, then — whatever ops follow, as long
    as no new complete set is announced — no preimage is ever released for this payment hash. -/
theorem none_if_part_lost (s : Mpp) (hs : Reachable s) (h : Nat) (q : Part) (hq : q ∈ s.parts) (x : Nat)
    (hx : q.totalRecv = some x) (hpos : 0 < q.value) (hto : mppOnchainTimeout h q.cltv = true)
    (ops : List Op) (hno : ∀ a k d, Out.claimable a k d ∉ (run (step s (.block h)).1 ops).2) (i : Nat) :
    Out.failPart q.id ∈ (step s (.block h)).2 ∧
    Out.fulfilPart i ∉ (run (step s (.block h)).1 ops).2 := by
  constructor
  · simp only [step, stepBlock, List.mem_map, List.mem_filter]
    exact ⟨q, ⟨hq, hto⟩, rfl⟩
  · have hshort : Short (step s (.block h)).1 := Short.of_block hs.inv h q hq x hx hpos hto
    have hreach : Reachable (step s (.block h)).1 := hs.step _
    generalize (step s (.block h)).1 = s1 at hshort hreach hno
    induction ops generalizing s1 with
    | nil => simp [run]
    | cons op ops ih =>
      simp only [run, List.mem_append, not_or] at hno ⊢
      have hno1 : ∀ a k d, Out.claimable a k d ∉ (step s1 op).2 := fun a k d hm => (hno a k d).1 hm
      refine ⟨?_, ih _ (hshort.preserved op hno1) (hreach.step op) (fun a k d hm => (hno a k d).2 hm)⟩
      intro hm
      obtain ⟨known, rfl⟩ := fulfil_only_from_claim s1 op i hm
      exact Short.claim_none hreach.inv hshort known i hm

/-- Over the whole history of a payment hash (ANY op list from the empty accumulator, part ids
    distinct — an id stands for `(channel_id, htlc_id)`): every HTLC is resolved at most once. In
    particular no HTLC is ever both failed back and fulfilled, none is fulfilled (or failed) twice,
    and nothing is resolved that did not arrive. -/
theorem resolved_at_most_once (ops : List Op) (hnd : (partIds ops).Nodup) (i : Nat) :
    (resolvedIds (run Mpp.init ops).2).count i ≤ 1 ∧
    ¬ (Out.failPart i ∈ (run Mpp.init ops).2 ∧ Out.fulfilPart i ∈ (run Mpp.init ops).2) ∧
    (i ∈ resolvedIds (run Mpp.init ops).2 → i ∈ partIds ops) := by
  have hle := run_count_le Mpp.init ops i
  have h1 := (List.nodup_iff_count.1 hnd) i
  have h0 : (ids Mpp.init).count i = 0 := rfl
  simp only [List.count_append, h0, Nat.zero_add] at hle
  refine ⟨by omega, ?_, ?_⟩
  · rintro ⟨hf, hg⟩
    have e := count_resolvedIds (run Mpp.init ops).2 i
    have hf' := List.count_pos_iff.2 hf
    have hg' := List.count_pos_iff.2 hg
    omega
  · intro hm
    have := List.count_pos_iff.2 hm
    exact List.count_pos_iff.1 (by omega)

/-! ## value, sender_intended_value, skimmed fee: the TRANSLATED per-part decisions

`Generated/InboundMpp.lean` (namespace `MppGen`, regenerated by tools/gen_inbound.py on every run) holds
the Rust text of every decision that sums or compares per-part amounts — `check_incoming_mpp_part`,
`check_mpp_timeout`, the PaymentClaimable / PaymentClaimed amounts, `claim_payment_internal`'s expected
amount, the part construction of `process_receive_htlcs`, the amount test of
`create_recv_pending_htlc_info` — translated expression by expression.  The theorems of this section
are about THOSE functions (first block), tie the model's steps to them (second block), and draw the
consequences for all part lists with arbitrary skimmed fees / over-payments (third block). -/

/-- the loop of `check_mpp_timeout` (translated body): ticks advanced on every part, the accumulator
    grows by Σ sender_intended_value, the flag records whether some part has now waited `MPP_TIMEOUT_TICKS` -/
theorem mpp_timeout_loop_sums_sender_intended (l : List MppGen.PartG) (acc : Nat) (to : Bool) :
    MppGen.timeoutLoop l acc to = (l.map gTick, acc + gIntended l, to || gExpired l) := by
  induction l generalizing acc to with
  | nil => simp [MppGen.timeoutLoop, gIntended, gExpired]
  | cons h t ih =>
    simp only [MppGen.timeoutLoop, MppGen.timeoutBody, ih, gIntended, gTick, gExpired, List.map_cons, List.sum_cons,
      List.any_cons, ge_iff_le]
    by_cases hc : MPP_TIMEOUT_TICKS ≤ h.timer_ticks + 1
    · simp [hc, Nat.add_assoc]
    · simp [hc, Nat.add_assoc]

/-- `check_mpp_timeout` in closed form: it returns true iff Σ SENDER_INTENDED_VALUE of the parts is below
    `total_msat` and some part has waited `MPP_TIMEOUT_TICKS` ticks — `value` and the skimmed fee are not read -/
theorem timeout_sums_sender_intended (htlcs : List MppGen.PartG) (total_mpp_value : Nat) :
    MppGen.checkMppTimeout htlcs total_mpp_value =
      (htlcs.map gTick, decide (gIntended htlcs < total_mpp_value) && gExpired htlcs) := by
  simp only [MppGen.checkMppTimeout, mpp_timeout_loop_sums_sender_intended, MppGen.timeoutDone, Nat.zero_add, Bool.false_or, ge_iff_le]
  by_cases hc : total_mpp_value ≤ gIntended htlcs
  · simp [hc, Nat.not_lt.2 hc]
  · simp [hc, Nat.lt_of_not_le hc]

/-- the loop of `check_incoming_mpp_part` with its early `break` (translated body): below `MAX_VALUE_MSAT` it is
    the new part's sender_intended_value plus Σ sender_intended_value of the held parts -/
theorem mpp_completion_loop_sums_sender_intended (l : List MppGen.PartG) (acc : Nat) :
    (MppGen.incomingLoop l acc ≥ MAX_VALUE_MSAT ↔ acc + gIntended l ≥ MAX_VALUE_MSAT) ∧
    (MppGen.incomingLoop l acc < MAX_VALUE_MSAT → MppGen.incomingLoop l acc = acc + gIntended l) := by
  induction l generalizing acc with
  | nil => simp [MppGen.incomingLoop, gIntended]
  | cons h t ih =>
    simp only [MppGen.incomingLoop, MppGen.incomingBody, MppGen.incomingBreak, gIntended, List.map_cons, List.sum_cons,
      ge_iff_le, decide_eq_true_eq]
    split
    · rename_i hb
      constructor
      · constructor <;> intro _ <;> omega
      · intro h2; omega
    · rename_i hb
      obtain ⟨i1, i2⟩ := ih (acc + h.sender_intended_value)
      simp only [gIntended, ge_iff_le] at i1 i2
      exact ⟨⟨fun hx => by have := i1.1 hx; omega, fun hx => i1.2 (by omega)⟩, fun h2 => by rw [i2 h2]; omega⟩

/-- `check_incoming_mpp_part` in closed form (`incomingSpec`): reject / complete / hold are decided by
    Σ SENDER_INTENDED_VALUE against `MAX_VALUE_MSAT` and `total_msat`; on completion every part is marked with Σ VALUE -/
theorem completion_sums_sender_intended (set : List MppGen.PartG) (new_htlc : MppGen.PartG) (total_mpp_value : Nat) :
    MppGen.checkIncomingMppPart set new_htlc total_mpp_value =
      match incomingSpec set new_htlc total_mpp_value with
      | .reject => (.reject, set)
      | .complete => (.complete, (set ++ [new_htlc]).map fun h => { h with total_value_received := some (gValue (set ++ [new_htlc])) })
      | .hold => (.hold, set ++ [new_htlc]) := by
  have hl := mpp_completion_loop_sums_sender_intended set (MppGen.incomingInit new_htlc)
  simp only [MppGen.incomingInit] at hl
  have hv : MppGen.incomingVerdict (MppGen.incomingLoop set (MppGen.incomingInit new_htlc)) new_htlc total_mpp_value =
      incomingSpec set new_htlc total_mpp_value := by
    simp only [MppGen.incomingVerdict, incomingSpec, MppGen.incomingInit, ge_iff_le, decide_eq_true_eq]
    by_cases hmax : MAX_VALUE_MSAT ≤ MppGen.incomingLoop set new_htlc.sender_intended_value
    · have := hl.1.1 hmax
      rw [if_pos hmax, if_pos (by omega)]
    · have he := hl.2 (by omega)
      have e1 : new_htlc.sender_intended_value + gIntended set - new_htlc.sender_intended_value = gIntended set := by omega
      have e2 : new_htlc.sender_intended_value + gIntended set = gIntended set + new_htlc.sender_intended_value := by omega
      have hm2 : ¬ MAX_VALUE_MSAT ≤ gIntended set + new_htlc.sender_intended_value := by omega
      rw [if_neg hmax, he, e1, e2, if_neg hm2]
  simp only [MppGen.checkIncomingMppPart, hv]
  cases incomingSpec set new_htlc total_mpp_value <;> simp [MppGen.completeAmount, gValue]

/-- timer ticks do not change Σ sender_intended_value -/
theorem gIntended_tickedN (total : Nat) (n : Nat) (l : List MppGen.PartG) : gIntended (tickedN total n l) = gIntended l := by
  induction n generalizing l with
  | zero => rfl
  | succ n ih => simp only [tickedN, ih, timeout_sums_sender_intended, gIntended_map_tick]

/-- COMPLETION AND TIMEOUT ARE DECIDED ON THE SAME QUANTITY (translated code, all part lists, all
    values / skimmed fees): a set that `check_incoming_mpp_part` declared complete — the one shown to
    the user in PaymentClaimable — is never reported as timed out by `check_mpp_timeout`, after any
    number of timer ticks. -/

theorem claimable_never_mpp_timed_out (set : List MppGen.PartG) (new_htlc : MppGen.PartG) (total_mpp_value : Nat)
    (h : (MppGen.checkIncomingMppPart set new_htlc total_mpp_value).1 = .complete) (n : Nat) :
    (MppGen.checkMppTimeout (tickedN total_mpp_value n (MppGen.checkIncomingMppPart set new_htlc total_mpp_value).2)
      total_mpp_value).2 = false := by
  rw [completion_sums_sender_intended] at h ⊢
  rw [timeout_sums_sender_intended]
  simp only [gIntended_tickedN]
  cases hs : incomingSpec set new_htlc total_mpp_value <;> rw [hs] at h <;> simp only [reduceCtorEq] at h
  have hc := (incomingSpec_complete set new_htlc total_mpp_value).1 hs
  simp only [gIntended_setRecv, gIntended_append, Bool.and_eq_false_imp, decide_eq_true_eq]
  intro hlt
  simp only [gIntended, List.map_cons, List.map_nil, List.sum_cons, List.sum_nil, Nat.add_zero] at hlt hc
  omega

/-- `n` calls of `check_mpp_timeout` advance every part's `timer_ticks` by `n` -/
theorem timer_ticks_tickedN (total : Nat) (n : Nat) (l : List MppGen.PartG) :
    (tickedN total n l).map (·.timer_ticks) = l.map (fun h => h.timer_ticks + n) := by
  induction n generalizing l with
  | zero => simp [tickedN]
  | succ n ih =>
    simp only [tickedN, ih, timeout_sums_sender_intended, List.map_map, Function.comp_def, gTick]
    congr 1; funext h; omega

/-- … and an INCOMPLETE set (Σ sender_intended_value below total_msat) is reported as timed out by the
    `MPP_TIMEOUT_TICKS`-th tick at the latest (and by every later one). -/

theorem incomplete_mpp_times_out (htlcs : List MppGen.PartG) (total_mpp_value : Nat) (hne : htlcs ≠ [])
    (hlt : gIntended htlcs < total_mpp_value) (n : Nat) (hn : MPP_TIMEOUT_TICKS ≤ n + 1) :
    (MppGen.checkMppTimeout (tickedN total_mpp_value n htlcs) total_mpp_value).2 = true := by
  rw [timeout_sums_sender_intended]
  simp only [gIntended_tickedN, hlt, decide_true, Bool.true_and, gExpired]
  have ht := timer_ticks_tickedN total_mpp_value n htlcs
  cases htlcs with
  | nil => exact absurd rfl hne
  | cons h t =>
    cases hl : tickedN total_mpp_value n (h :: t) with
    | nil => rw [hl] at ht; simp at ht
    | cons h' t' =>
      rw [hl] at ht
      simp only [List.map_cons, List.cons.injEq] at ht
      simp only [List.any_cons, Bool.or_eq_true, decide_eq_true_eq]
      left; omega

/-! ### the model's steps ARE the translated functions -/

/-- `timer_tick_occurred` on one payment hash: the model's `tick` step is `check_mpp_timeout` as
    translated from the Rust source (ticks advanced on every part; when it returns true every part
    is failed and the entry removed). -/

theorem tick_is_check_mpp_timeout (s : Mpp) :
    (MppGen.checkMppTimeout (s.parts.map Part.g) s.total).1 =
      (s.parts.map fun q => { q with ticks := q.ticks + 1 }).map Part.g ∧
    step s .tick =
      if s.parts.isEmpty then (s, [])
      else if (MppGen.checkMppTimeout (s.parts.map Part.g) s.total).2 then
        ({ s with parts := [] }, s.parts.map fun q => Out.failPart q.id)
      else ({ s with parts := s.parts.map fun q => { q with ticks := q.ticks + 1 } }, []) := by
  rw [timeout_sums_sender_intended, gIntended_g, gExpired_g, gTick_g]
  refine ⟨rfl, ?_⟩
  simp only [step, stepTick, sumIntended_tick, map_tick_ids, List.any_map, Function.comp_def, ge_iff_le]
  split
  · rfl
  · by_cases hc : s.total ≤ sumIntended s.parts
    · simp [hc, Nat.not_lt.2 hc]
    · simp only [hc, ↓reduceIte, Nat.lt_of_not_le hc, decide_true, Bool.true_and]

/-- `handle_claimable_htlc` for a part that may join the payment (no claim pending; same purpose /
    secret / metadata tag, `total_msat` and even-TLV flag as the first part — the `check_merge`
    stage): the model's `part` step is `check_incoming_mpp_part` as translated — same verdict, same
    resulting set (up to the final sort), and the event reports the translated `amount_msat`
    (Σ value) and `counterparty_skimmed_fee_msat` (Σ skimmed fee) of that set. -/

theorem part_is_check_incoming_mpp_part (s : Mpp) (p : Part) (hcl : s.claiming = false)
    (hm : s.parts ≠ [] → p.tag = s.tag ∧ p.total = s.total ∧ p.evenTlv = s.evenTlv) :
    ∀ r, r = MppGen.checkIncomingMppPart (s.parts.map Part.g) p.g (if s.parts.isEmpty then p.total else s.total) →
    (r.1 = .reject → stepPart s p = (s, [.failPart p.id])) ∧
    (r.1 = .complete → ((stepPart s p).1.parts.map Part.g).Perm r.2 ∧
        ∃ d, (stepPart s p).2 = [.claimable (MppGen.eventAmount r.2) (MppGen.eventSkim r.2) d]) ∧
    (r.1 = .hold → (stepPart s p).1.parts.map Part.g = r.2 ∧ (stepPart s p).2 = []) := by
  intro r hr
  obtain ⟨total, tag, ev, hfirst, hnot, heq⟩ := stepPart_normal s p
  have htot : (if s.parts.isEmpty then p.total else s.total) = total := by
    cases hs : s.parts with
    | nil => simp [(hfirst hs).1]
    | cons q qs => simp [(hnot (by rw [hs]; exact List.cons_ne_nil _ _)).1]
  have hfields : ¬ (p.tag ≠ tag ∨ p.total ≠ total ∨ p.evenTlv ≠ ev) := by
    cases hs : s.parts with
    | nil => obtain ⟨e1, e2, e3⟩ := hfirst hs; simp [e1, e2, e3]
    | cons q qs =>
      have hne : s.parts ≠ [] := by rw [hs]; exact List.cons_ne_nil _ _
      obtain ⟨e1, e2, e3⟩ := hnot hne
      obtain ⟨f1, f2, f3⟩ := hm hne
      simp [e1, e2, e3, f1, f2, f3]
  rw [htot, completion_sums_sender_intended] at hr
  have hacc := accIntended_spec s.parts p.intended
  have hgi : gIntended (s.parts.map Part.g) = sumIntended s.parts := gIntended_g _
  have hpi : p.g.sender_intended_value = p.intended := rfl
  rw [heq]
  simp only [hcl, Bool.false_eq_true, ↓reduceIte, hfields]
  cases hv : incomingSpec (s.parts.map Part.g) p.g total with
  | reject =>
    rw [hv] at hr
    subst hr
    refine ⟨fun _ => ?_, fun h => by simp at h, fun h => by simp at h⟩
    have hc := (incomingSpec_reject _ _ _).1 hv
    rw [hgi, hpi] at hc
    by_cases hmax : accIntended p.intended s.parts ≥ MAX_VALUE_MSAT
    · rw [if_pos hmax]
    · have hsum := hacc.2 (by omega)
      rw [if_neg hmax, if_pos (by omega)]
  | complete =>
    rw [hv] at hr
    subst hr
    have hc := (incomingSpec_complete _ _ _).1 hv
    rw [hgi, hpi] at hc
    have hmax : ¬ accIntended p.intended s.parts ≥ MAX_VALUE_MSAT := by rw [hacc.1]; omega
    have hsum := hacc.2 (by omega)
    refine ⟨fun h => by simp at h, fun _ => ?_, fun h => by simp at h⟩
    rw [if_neg hmax, if_neg (by omega), if_pos (by omega)]
    simp only
    constructor
    · have hp := (sortParts_perm ((s.parts ++ [p]).map fun q => { q with totalRecv := some (sumValue (s.parts ++ [p])) })).map Part.g
      refine hp.trans ?_
      have : gValue (s.parts.map Part.g ++ [p.g]) = sumValue (s.parts ++ [p]) := by
        rw [← gValue_g]; simp
      rw [this]
      simp [Part.g, List.map_map, Function.comp_def]
    · have e1 : MppGen.eventAmount (List.map (fun h => { h with total_value_received := some (gValue (s.parts.map Part.g ++ [p.g])) })
          (s.parts.map Part.g ++ [p.g])) = sumValue (s.parts ++ [p]) := by
        rw [← gValue_g]; simp [MppGen.eventAmount, gValue, List.map_map, Function.comp_def]
      have e2 : MppGen.eventSkim (List.map (fun h => { h with total_value_received := some (gValue (s.parts.map Part.g ++ [p.g])) })
          (s.parts.map Part.g ++ [p.g])) = sumSkim (s.parts ++ [p]) := by
        rw [← gSkim_g]; simp [MppGen.eventSkim, gSkim, List.map_map, Function.comp_def]
      rw [e1, e2]
      exact ⟨_, rfl⟩
  | hold =>
    rw [hv] at hr
    subst hr
    have hc := (incomingSpec_hold _ _ _).1 hv
    rw [hgi, hpi] at hc
    have hmax : ¬ accIntended p.intended s.parts ≥ MAX_VALUE_MSAT := by rw [hacc.1]; omega
    have hsum := hacc.2 (by omega)
    refine ⟨fun h => by simp at h, fun h => by simp at h, fun _ => ?_⟩
    rw [if_neg hmax, if_neg (by omega), if_neg (by omega)]
    simp

/-- `handle_claimable_htlc` as a whole, for EVERY accumulator and EVERY part (no side condition): the model's
    `part` step is the translated `MppGen.handleClaimable` — pending-claim gate, purpose test against the entry the
    first part created, `check_merge` (payment_secret, payment_metadata, total_mpp_amount_msat, even custom TLVs),
    then the amount decisions of `check_incoming_mpp_part` — with the same verdict, the same resulting set (up to
    the final sort), and an event that reports the translated `amount_msat`, `counterparty_skimmed_fee_msat` and
    `claim_deadline` of that set.  A part refused at any stage is failed back on its own and the set is untouched. -/
theorem part_is_handle_claimable_htlc (s : Mpp) (p : Part) :
    ∀ r, r = MppGen.handleClaimable s.claiming p.tag (if s.parts.isEmpty then p.tag else s.tag)
        (onionOf (if s.parts.isEmpty then p.total else s.total) (if s.parts.isEmpty then p.tag else s.tag)
          (if s.parts.isEmpty then p.evenTlv else s.evenTlv))
        (onionOf p.total p.tag p.evenTlv) (s.parts.map Part.g) p.g →
    (r.1 = .reject → stepPart s p = (s, [.failPart p.id])) ∧
    (r.1 = .complete → ((stepPart s p).1.parts.map Part.g).Perm r.2 ∧
        (stepPart s p).2 = [.claimable (MppGen.eventAmount r.2) (MppGen.eventSkim r.2)
          (MppGen.eventClaimDeadline ((stepPart s p).1.parts.map Part.g) p.cltv)]) ∧
    (r.1 = .hold → (stepPart s p).1.parts.map Part.g = r.2 ∧ (stepPart s p).2 = []) := by
  intro r hr
  obtain ⟨total, tag, ev, hfirst, hnot, heq⟩ := stepPart_normal s p
  have hent : (if s.parts.isEmpty then p.total else s.total) = total ∧ (if s.parts.isEmpty then p.tag else s.tag) = tag ∧
      (if s.parts.isEmpty then p.evenTlv else s.evenTlv) = ev := by
    cases hs : s.parts with
    | nil => obtain ⟨e1, e2, e3⟩ := hfirst hs; simp [e1, e2, e3]
    | cons q qs => obtain ⟨e1, e2, e3⟩ := hnot (by rw [hs]; exact List.cons_ne_nil _ _); simp [e1, e2, e3]
  obtain ⟨t1, t2, t3⟩ := hent
  rw [t1, t2, t3] at hr
  simp only [MppGen.handleClaimable, MppGen.pendingClaimRefuses] at hr
  cases hcl : s.claiming with
  | true =>
    rw [hcl] at hr; simp only [↓reduceIte] at hr
    subst hr
    refine ⟨fun _ => ?_, fun h => by simp at h, fun h => by simp at h⟩
    rw [heq]; simp [hcl]
  | false =>
    rw [hcl] at hr; simp only [Bool.false_eq_true, ↓reduceIte] at hr
    by_cases hmis : (p.tag ≠ tag ∨ p.total ≠ total ∨ p.evenTlv ≠ ev)
    · have hm := (mergeRefuses_iff total tag ev p).2 hmis
      have hr' : r = (.reject, s.parts.map Part.g) := by
        rw [hr]
        rcases Bool.or_eq_true_iff.1 hm with h1 | h2
        · simp [h1]
        · simp [h2]
      subst hr'
      refine ⟨fun _ => ?_, fun h => by simp at h, fun h => by simp at h⟩
      rw [heq]; simp [hcl, hmis]
    · have hm : ¬ ((MppGen.purposeMismatch p.tag tag || MppGen.checkMergeErr (onionOf total tag ev) (onionOf p.total p.tag p.evenTlv)) = true) :=
        fun h => hmis ((mergeRefuses_iff total tag ev p).1 h)
      simp only [Bool.or_eq_true, not_or, Bool.not_eq_true] at hm
      rw [hm.1, hm.2] at hr
      simp only [Bool.false_eq_true, ↓reduceIte, onionOf] at hr
      simp only [not_or, Decidable.not_not] at hmis
      have hmm : s.parts ≠ [] → p.tag = s.tag ∧ p.total = s.total ∧ p.evenTlv = s.evenTlv := by
        intro hne; obtain ⟨e1, e2, e3⟩ := hnot hne
        exact ⟨hmis.1.trans e2, hmis.2.1.trans e1, hmis.2.2.trans e3⟩
      obtain ⟨g1, g2, g3⟩ := part_is_check_incoming_mpp_part s p hcl hmm r (by rw [hr, t1])
      refine ⟨g1, fun hc => ?_, g3⟩
      obtain ⟨gp, d, gd⟩ := g2 hc
      refine ⟨gp, ?_⟩
      have hmem : Out.claimable (MppGen.eventAmount r.2) (MppGen.eventSkim r.2) d ∈ (stepPart s p).2 := by rw [gd]; simp
      obtain ⟨_, _, _, _, _, _, _, _, _, _, _, heq2, _, _, hd⟩ := stepPart_claimable s p _ _ _ hmem
      rw [gd, hd, heq2]

/-- the model's claim loop is the translated loop of `claim_payment_internal` -/
theorem claimLoop_translated (l : List Part) (e : Option Nat) (a : Nat) :
    InboundPay.claimLoop l e a = MppGen.claimLoop (l.map Part.g) e a := by
  induction l generalizing e a with
  | nil => rfl
  | cons p ps ih =>
    simp only [InboundPay.claimLoop, List.map_cons, MppGen.claimLoop, MppGen.claimMismatch, MppGen.claimBody, ih]
    have : (e != p.totalRecv) = decide (e ≠ p.g.total_value_received) := by
      simp only [Part.g, bne, ne_eq]; congr 1
      cases h : decide (e = p.totalRecv) <;> simp_all
    rw [this]
    rfl

/-- a claim loop that ends with `valid_mpp = true` has added up Σ VALUE of all parts -/
theorem gClaimLoop_valid (l : List MppGen.PartG) (e : Option Nat) (a : Nat) (e' : Option Nat) (a' : Nat)
    (h : MppGen.claimLoop l e a = (e', a', true)) : a' = a + gValue l := by
  induction l generalizing e a with
  | nil => simp only [MppGen.claimLoop, Prod.mk.injEq, and_true] at h; simp [gValue, h.2]
  | cons p ps ih =>
    simp only [MppGen.claimLoop] at h
    split at h
    · simp at h
    · have := ih _ _ h
      simp only [MppGen.claimBody] at this
      simp only [gValue, List.map_cons, List.sum_cons] at this ⊢
      omega

/-- `claim_funds` / `claim_funds_with_known_custom_tlvs` on a held set that is not refused for its
    even TLVs: the model's `claim` step is `claim_payment_internal` as translated — the same loop over
    the parts (`expected_amt_msat` = the amount announced, `claimable_amt_msat` = Σ value of what is
    still there), the same two early returns, and PaymentClaimed reports the translated
    `ClaimingPayment::amount_msat`, the per-HTLC skimmed fees and the onion total. -/

theorem claim_is_claim_payment_internal (s : Mpp) (known : Bool) (hne : s.parts ≠ [])
    (hk : known = true ∨ s.evenTlv = false) :
    ∀ r, r = MppGen.claimLoop (s.parts.map Part.g) none 0 →
    step s (.claim known) =
      if MppGen.claimNothing (s.parts.map Part.g) r.1 then ({ s with parts := [] }, if r.2.2 then [] else [.inconsistent])
      else if MppGen.claimShort r.2.1 r.1 then ({ s with parts := [] }, if r.2.2 then [] else [.inconsistent])
      else if r.2.2 then
        ({ s with parts := [], claiming := true },
          s.parts.map (fun q => Out.fulfilPart q.id) ++
            [.claimed (MppGen.claimingAmount (s.parts.map Part.g))
              ((s.parts.map Part.g).map MppGen.claimedHtlcSkim).sum s.total])
      else ({ s with parts := [] }, .inconsistent :: s.parts.map (fun q => Out.failPart q.id)) := by
  intro r hr
  have hemp : s.parts.isEmpty = false := by cases hs : s.parts <;> simp_all
  have hemp2 : (s.parts.map Part.g).isEmpty = false := by cases hs : s.parts <;> simp_all
  have htlv : (!known && s.evenTlv) = false := by rcases hk with rfl | hk <;> simp [*]
  have hskim : ((s.parts.map Part.g).map MppGen.claimedHtlcSkim).sum = sumSkim s.parts := by
    simp [MppGen.claimedHtlcSkim, sumSkim, Part.g, List.map_map, Function.comp_def]
  simp only [step, stepClaim, claimRefuses_eq, hemp, htlv, Bool.false_eq_true, ↓reduceIte, claimLoop_translated, ← hr,
    MppGen.claimNothing, MppGen.claimShort, hemp2, Bool.false_or, hskim]
  rcases hrr : r with ⟨exp, amt, valid⟩
  cases exp with
  | none => cases valid <;> simp
  | some e =>
    simp only [Option.isNone_some, Bool.false_eq_true, ↓reduceIte, Option.getD_some, ne_eq, decide_not, Bool.not_eq_eq_eq_not,
      Bool.not_true, decide_eq_false_iff_not, ite_not]
    by_cases hae : amt = e
    · subst hae
      cases valid with
      | false => simp
      | true =>
        have := gClaimLoop_valid _ _ _ _ _ (hr.symm.trans hrr)
        simp only [Nat.zero_add] at this
        simp [MppGen.claimingAmount, this, gValue]
    · cases valid <;> simp [hae]

/-- the other arm of `begin_claiming_payment`: when the TRANSLATED unknown-even-TLV test fires on the entry's onion
    fields (plain `claim_funds` on a payment carrying an even custom TLV), every held HTLC is failed back, nothing
    is fulfilled, no claim is recorded, and the entry is gone — still all-or-nothing. -/
theorem claim_refused_for_unknown_even_tlv (s : Mpp) (known : Bool) (hne : s.parts ≠ [])
    (hr : MppGen.claimRefusesUnknownEven known (onionOf s.total s.tag s.evenTlv).custom_tlvs = true) :
    step s (.claim known) = ({ s with parts := [] }, s.parts.map (fun q => Out.failPart q.id)) ∧
    known = false ∧ s.evenTlv = true := by
  have hemp : s.parts.isEmpty = false := by cases hs : s.parts <;> simp_all
  refine ⟨by simp only [step, stepClaim, hemp, hr, Bool.false_eq_true, ↓reduceIte], ?_⟩
  rw [claimRefuses_eq] at hr
  cases known <;> cases he : s.evenTlv <;> simp_all

example : MppGen.claimRefusesUnknownEven false (onionOf 1000 2 true).custom_tlvs = true ∧
    MppGen.claimRefusesUnknownEven true (onionOf 1000 2 true).custom_tlvs = false ∧
    MppGen.claimRefusesUnknownEven false (onionOf 1000 1 false).custom_tlvs = false := by decide

example : (MppGen.handleClaimable false 1 1 (onionOf 1000 1 false) (onionOf 999 1 false) [] ⟨400, 400, 0, none, 500, none⟩).1 = .reject ∧
    (MppGen.handleClaimable true 1 1 (onionOf 1000 1 false) (onionOf 1000 1 false) [] ⟨400, 400, 0, none, 500, none⟩).1 = .reject ∧
    (MppGen.handleClaimable false 2 1 (onionOf 1000 1 false) (onionOf 1000 2 false) [] ⟨400, 400, 0, none, 500, none⟩).1 = .reject ∧
    (MppGen.handleClaimable false 1 1 (onionOf 1000 1 false) (onionOf 1000 1 true) [] ⟨400, 400, 0, none, 500, none⟩).1 = .reject ∧
    (MppGen.handleClaimable false 1 1 (onionOf 1000 1 false) (onionOf 1000 1 false) [] ⟨400, 400, 0, none, 500, none⟩).1 = .hold ∧
    (MppGen.handleClaimable false 1 1 (onionOf 1000 1 true) (onionOf 1000 1 true) [⟨600, 600, 0, none, 480, none⟩] ⟨400, 400, 0, none, 500, none⟩).1 = .complete := by decide

/-- how `process_receive_htlcs` fills in a part: `value` is the amount of the update_add_htlc,
    `sender_intended_value` the onion's amt_to_forward, the skimmed fee the message's TLV — the
    model's `part` op builds exactly the translated `ClaimableHTLC`. -/

theorem part_fields_translated (id value intended : Nat) (skim : Option Nat) (total cltv tag : Nat) (ev : Bool) :
    ({ id, value, intended, skim, cltv, ticks := 0, totalRecv := none, total, tag, evenTlv := ev } : Part).g =
      MppGen.recvPart (MppGen.recvValue (some value) intended) intended cltv skim := rfl

/-! ### consequences for the accumulator (ALL part lists, arbitrary skimmed fees and over-payments) -/

/-- A payment that was reported claimable is never timed out by `timer_tick_occurred`: after ANY
    number of timer ticks nothing was failed, the announced set is still held, and the claim
    releases the preimage on every part and reports the announced amount — whatever the parts'
    values and skimmed fees are (no hypothesis relates `value` to `sender_intended_value`). -/

theorem claimable_survives_timer_ticks (s : Mpp) (hs : Reachable s) (op : Op) (a k d : Nat)
    (h : Out.claimable a k d ∈ (step s op).2) (n : Nat) (known : Bool)
    (hk : known = true ∨ (step s op).1.evenTlv = false) :
    (run (step s op).1 (List.replicate n .tick)).2 = [] ∧
    ids (run (step s op).1 (List.replicate n .tick)).1 = ids (step s op).1 ∧
    (step (run (step s op).1 (List.replicate n .tick)).1 (.claim known)).2 =
      (ids (step s op).1).map Out.fulfilPart ++ [.claimed a k (step s op).1.total] := by
  have hq : ∀ o ∈ List.replicate n Op.tick, Quiet d o := by
    intro o ho; rw [(List.mem_replicate.1 ho).2]; trivial
  obtain ⟨g1, g2, g3, _⟩ := claim_before_deadline_total s hs op a k d h _ hq known
  refine ⟨?_, g2, g3 hk⟩
  cases hout : (run (step s op).1 (List.replicate n Op.tick)).2 with
  | nil => rfl
  | cons o os =>
    obtain ⟨i, _, hi⟩ := g1 o (by rw [hout]; exact List.mem_cons_self ..)
    rw [partIds_ticks] at hi
    cases hi

/-- induction behind `incomplete_failed_after_timeout_ticks` -/
theorem incomplete_failed_aux (n : Nat) : ∀ s : Mpp, s.parts ≠ [] → sumIntended s.parts < s.total →
    (∃ p ∈ s.parts, MPP_TIMEOUT_TICKS ≤ p.ticks + (n + 1)) →
    (run s (List.replicate (n + 1) .tick)).2 = s.parts.map (fun q => Out.failPart q.id) ∧
    (run s (List.replicate (n + 1) .tick)).1.parts = [] := by
  induction n with
  | zero =>
    intro s hne hlt hto
    obtain ⟨h1, h2⟩ := (timeout_fails_all s).1 hne hlt hto
    simp only [List.replicate_succ, List.replicate_zero, run, List.append_nil]
    exact ⟨h1, h2⟩
  | succ n ih =>
    intro s hne hlt hto
    rw [show List.replicate (n + 1 + 1) Op.tick = Op.tick :: List.replicate (n + 1) Op.tick from rfl]
    simp only [run]
    rcases stepTick_outs s with ⟨_, h2⟩ | ⟨h1, h2, _⟩
    · have hw : ∀ p ∈ s.parts, p.ticks + 1 < MPP_TIMEOUT_TICKS := by
        rcases h2 with h2 | h2 | h2
        · exact absurd h2 hne
        · omega
        · exact h2
      have e : step s .tick = ({ s with parts := s.parts.map fun q => { q with ticks := q.ticks + 1 } }, []) := stepTick_wait s hne hlt hw
      rw [e]
      obtain ⟨p, hp, hp2⟩ := hto
      have := ih { s with parts := s.parts.map fun q => { q with ticks := q.ticks + 1 } } (by simpa using hne)
        (by simpa only [sumIntended_tick] using hlt)
        ⟨{ p with ticks := p.ticks + 1 }, List.mem_map.2 ⟨p, hp, rfl⟩, by simp only; omega⟩
      simp only [List.nil_append]
      rw [map_tick_ids] at this
      exact this
    · have e : step s .tick = stepTick s := rfl
      rw [e, run_ticks_empty _ h2, List.append_nil]
      exact ⟨h1, h2⟩

/-- An INCOMPLETE set (Σ sender_intended_value below total_msat) that receives no further part is
    failed back — every part of it — by the `MPP_TIMEOUT_TICKS`-th timer tick at the latest, and the
    entry is gone; stated for the generated constant whatever its value. -/

theorem incomplete_failed_after_timeout_ticks (s : Mpp) (hne : s.parts ≠ []) (hlt : sumIntended s.parts < s.total)
    (n : Nat) (hn : MPP_TIMEOUT_TICKS ≤ n + 1) :
    (run s (List.replicate (n + 1) .tick)).2 = s.parts.map (fun q => Out.failPart q.id) ∧
    (run s (List.replicate (n + 1) .tick)).1.parts = [] := by
  obtain ⟨p, hp⟩ := List.exists_mem_of_ne_nil _ hne
  exact incomplete_failed_aux n s hne hlt ⟨p, hp, by omega⟩

/-- Completion and timeout look at the SAME quantity, Σ sender_intended_value against total_msat,
    and at no other amount: a tick leaves a held set alone iff the sender-intended amounts reach the
    total or no part has waited long enough; a compatible part produces PaymentClaimable iff with it
    the sender-intended amounts reach the total for the first time (below `MAX_VALUE_MSAT`). -/

theorem completion_and_timeout_same_quantity (s : Mpp) (hne : s.parts ≠ []) (hcl : s.claiming = false) :
    ((step s .tick).2 = [] ↔ (s.total ≤ sumIntended s.parts ∨ ∀ p ∈ s.parts, p.ticks + 1 < MPP_TIMEOUT_TICKS)) ∧
    ∀ id value intended skim cltv, ∀ ev, ev = s.evenTlv →
      ((∃ a k d, Out.claimable a k d ∈ (step s (.part id value intended skim s.total cltv s.tag ev)).2) ↔
        (sumIntended s.parts < s.total ∧ s.total ≤ sumIntended s.parts + intended ∧
         sumIntended s.parts + intended < MAX_VALUE_MSAT)) := by
  constructor
  · simp only [step]
    constructor
    · intro h0
      rcases stepTick_outs s with ⟨_, h2⟩ | ⟨h1, _, _, _, _⟩
      · rcases h2 with h2 | h2 | h2
        · exact absurd h2 hne
        · exact Or.inl h2
        · exact Or.inr h2
      · rw [h0] at h1
        cases hs : s.parts with
        | nil => exact absurd hs hne
        | cons q qs => rw [hs] at h1; simp at h1
    · intro h0
      rcases stepTick_outs s with ⟨h1, _⟩ | ⟨_, _, _, hlt, p, hp, hp2⟩
      · exact h1
      · rcases h0 with h0 | h0
        · omega
        · have := h0 p hp; omega
  · intro id value intended skim cltv ev hev
    subst hev
    simp only [step]
    constructor
    · rintro ⟨a, k, d, h⟩
      obtain ⟨t, g, e, hnot, _, _, h2, _, hmax, hlt, hge, _⟩ := stepPart_claimable s _ a k d h
      simp only at h2 hmax hlt hge
      subst h2
      omega
    · rintro ⟨h1, h2, h3⟩
      have hp := part_is_check_incoming_mpp_part s
        { id, value, intended, skim, cltv, ticks := 0, totalRecv := none, total := s.total, tag := s.tag, evenTlv := s.evenTlv }
        hcl (fun _ => ⟨rfl, rfl, rfl⟩) _ rfl
      have hemp : s.parts.isEmpty = false := by cases hs : s.parts <;> simp_all
      simp only [hemp, Bool.false_eq_true, ↓reduceIte] at hp
      have hv : (MppGen.checkIncomingMppPart (s.parts.map Part.g)
          ({ id, value, intended, skim, cltv, ticks := 0, totalRecv := none, total := s.total, tag := s.tag, evenTlv := s.evenTlv } : Part).g
          s.total).1 = .complete := by
        rw [completion_sums_sender_intended]
        have : incomingSpec (s.parts.map Part.g)
            ({ id, value, intended, skim, cltv, ticks := 0, totalRecv := none, total := s.total, tag := s.tag, evenTlv := s.evenTlv } : Part).g
            s.total = .complete := by
          rw [incomingSpec_complete, gIntended_g]; exact ⟨h2, h1, h3⟩
        rw [this]
      obtain ⟨_, d, hd⟩ := hp.2.1 hv
      exact ⟨_, _, d, by rw [hd]; exact List.mem_singleton.2 rfl⟩

/-- The amount test of `create_recv_pending_htlc_info` (whatever statement the translator read from the Rust text: the
    `if` chain that returns `FinalIncorrectHTLCAmount`, with the `let`s it reads), stated EXACTLY for all inputs: the HTLC
    is let through iff the onion amount is at most what arrived — plus the skimmed fee the peer declares ONLY IF the
    channel opted into `accept_underpaying_htlcs` (u64 saturating sum).  Any rewrite of the Rust test that the translator
    can read and that credits the fee without the opt-in, flips the comparison, moves the boundary by one or reads
    another amount regenerates `recvAmountTooLow` and this proof stops checking. -/
theorem recvAmountTest_exact (allow : Bool) (onion amt : Nat) (skim : Option Nat) :
    MppGen.recvAmountTooLow allow onion amt skim = false ↔
      onion ≤ (if allow then min (amt + skim.getD 0) (2 ^ 64 - 1) else amt) := by
  -- shape-independent on purpose: any `let` / nested-`if` form of the same test goes through, a different test does not
  cases allow <;> simp only [MppGen.recvAmountTooLow, satAdd64] <;> (repeat' split) <;> simp at * <;> omega

/-- a part that passed the amount test of `create_recv_pending_htlc_info` (translated) carries at least
    the onion amount once the skimmed fee it declares is added back (`accept_underpaying_htlcs` or not) -/
theorem recvAmountTooLow_false (allow : Bool) (onion amt : Nat) (skim : Option Nat)
    (h : MppGen.recvAmountTooLow allow onion amt skim = false) : onion ≤ amt + skim.getD 0 := by
  have := (recvAmountTest_exact allow onion amt skim).1 h
  cases allow <;> simp at this <;> omega

/-- without the opt-in nothing is credited: a part admitted on a channel with `accept_underpaying_htlcs = false` carries at
    least its onion amount, whatever `skimmed_fee_msat` TLV the peer attached -/
theorem strict_admit_not_underpaid (onion amt : Nat) (skim : Option Nat)
    (h : MppGen.recvAmountTooLow false onion amt skim = false) : onion ≤ amt := by
  have := (recvAmountTest_exact false onion amt skim).1 h
  simpa using this

/-- What is reported and claimed is what ARRIVED.  For the set announced by PaymentClaimable
    `{amount a, skimmed k}`: `a` = Σ value and `k` = Σ counterparty_skimmed_fee_msat of the held parts,
    the sender-intended amounts reach `total_msat`; hence
    * if every part passed the receive-side amount test of create_recv_pending_htlc_info (translated
      `recvAmountTooLow`, with or without `accept_underpaying_htlcs`): `total_msat ≤ Σ intended ≤ a + k`
      — the recipient is short of the invoice total by at most the skimmed fees it was told about;
    * if every part's skimmed fee is exactly what is missing (`value + skim = sender_intended`, what
      `forward_intercepted_htlc` produces): `a = Σ intended − k`;
    * if no part is under-paid (`sender_intended ≤ value`, over-paying forwarders): `total_msat ≤ a`. -/

theorem claimed_amount_accounts_for_skim (s : Mpp) (hs : Reachable s) (op : Op) (a k d : Nat)
    (h : Out.claimable a k d ∈ (step s op).2) :
    a = sumValue (step s op).1.parts ∧ k = sumSkim (step s op).1.parts ∧
    (step s op).1.total ≤ sumIntended (step s op).1.parts ∧
    ((∀ p ∈ (step s op).1.parts, ∃ allow, MppGen.recvAmountTooLow allow p.intended p.value p.skim = false) →
      sumIntended (step s op).1.parts ≤ a + k ∧ (step s op).1.total ≤ a + k) ∧
    ((∀ p ∈ (step s op).1.parts, p.value + p.skim.getD 0 = p.intended) →
      a = sumIntended (step s op).1.parts - k ∧ a + k = sumIntended (step s op).1.parts) ∧
    ((∀ p ∈ (step s op).1.parts, p.intended ≤ p.value) → (step s op).1.total ≤ a) := by
  obtain ⟨ha, hk, _⟩ := claimable_amount_deadline s op a k d h
  obtain ⟨id, value, intended, skim, total, cltv, tag, ev, hop, _, hf, hge, _, _⟩ := claimable_only_if_complete s hs op a k d h
  have htot : (step s op).1.total = total := by
    subst hop
    simp only [step] at h ⊢
    obtain ⟨t, g, e, _, _, _, h2, _, _, _, _, heq, _⟩ := stepPart_claimable s _ a k d h
    rw [heq]; exact h2.symm
  rw [htot]
  generalize (step s op).1.parts = ps at *
  have hadd : (ps.map fun p => p.value + p.skim.getD 0).sum = sumValue ps + sumSkim ps := sum_map_add ps _ _
  refine ⟨ha, hk, hge, fun hadm => ?_, fun hex => ?_, fun hov => ?_⟩
  · have : sumIntended ps ≤ (ps.map fun p => p.value + p.skim.getD 0).sum :=
      sum_le_of_forall ps _ _ (fun p hp => by obtain ⟨al, hal⟩ := hadm p hp; exact recvAmountTooLow_false al _ _ _ hal)
    omega
  · have : (ps.map fun p => p.value + p.skim.getD 0).sum = sumIntended ps := by
      simp only [sumIntended]; congr 1; exact List.map_congr_left hex
    omega
  · have : sumIntended ps ≤ sumValue ps := sum_le_of_forall ps _ _ hov
    omega

/-- Whole-history consequence: if every part of a set announced by PaymentClaimable `{amount a, skimmed k}` was admitted
    by the translated amount test on a channel that did NOT opt into under-paying HTLCs, then `a` itself — not `a + k` —
    reaches `total_msat` (the amount committed to), whatever fees the peers declared.  Proved for ALL reachable accumulator
    states and part ops. -/
theorem not_underpaid_without_opt_in (s : Mpp) (hs : Reachable s) (op : Op) (a k d : Nat)
    (h : Out.claimable a k d ∈ (step s op).2)
    (hstrict : ∀ p ∈ (step s op).1.parts, MppGen.recvAmountTooLow false p.intended p.value p.skim = false) :
    (step s op).1.total ≤ a ∧ sumIntended (step s op).1.parts ≤ a := by
  obtain ⟨ha, _, hge, _, _, hov⟩ := claimed_amount_accounts_for_skim s hs op a k d h
  have hall : ∀ p ∈ (step s op).1.parts, p.intended ≤ p.value :=
    fun p hp => strict_admit_not_underpaid _ _ _ (hstrict p hp)
  refine ⟨hov hall, ?_⟩
  rw [ha]; exact sum_le_of_forall _ _ _ hall

/-- The `min_final_cltv_expiry_delta` test of `process_receive_htlcs` (translated from the Rust text: the statement after
    `inbound_payment::verify` returned `Some(min_final_cltv_expiry_delta)`), stated EXACTLY for all heights, deltas and
    expiries: the HTLC goes on to the accumulator iff its expiry is at least the receiver's height plus the delta that was
    committed to when the payment was registered.  A flipped / off-by-one comparison, another height or a dropped
    addition regenerates `recvCltvBelowMin` and this proof stops checking. -/
theorem recvCltvTest_exact (height delta cltv : Nat) :
    MppGen.recvCltvBelowMin height delta cltv = false ↔ height + delta ≤ cltv := by
  simp [MppGen.recvCltvBelowMin]

/-- Whole-history consequence for the advertised claim window: if every part of the set announced by PaymentClaimable
    with `claim_deadline d` passed the translated test with the registered `delta` at a height `≥ h` (parts arrive at
    non-decreasing heights; `h` = the height when the first part arrived), then `d ≥ h + delta − HTLC_FAIL_BACK_BUFFER`:
    the user is never shown a payment whose claim window is shorter than the registered delta promises.
    For ALL reachable accumulator states and part ops. -/
theorem registered_cltv_delta_bounds_claim_deadline (s : Mpp) (op : Op) (a k d h delta : Nat)
    (hc : Out.claimable a k d ∈ (step s op).2)
    (hadm : ∀ p ∈ (step s op).1.parts, ∃ hp, h ≤ hp ∧ MppGen.recvCltvBelowMin hp delta p.cltv = false) :
    h + delta - HTLC_FAIL_BACK_BUFFER ≤ d := by
  obtain ⟨_, _, _, _, m, hm, _, hd⟩ := claimable_amount_deadline s op a k d hc
  obtain ⟨p, hp, rfl⟩ := List.mem_map.1 hm
  obtain ⟨hp', hle, hpass⟩ := hadm p hp
  have := (recvCltvTest_exact hp' delta p.cltv).1 hpass
  omega

/-- Which final-hop HTLCs go on to the payment logic at all (create_recv_pending_htlc_info's routing selection, translated
    arm by arm in source order), for EVERY hash function, preimage, hash and payload: an HTLC is handed on as a keysend
    only if the SHA-256 of the preimage its onion carries IS the payment hash ("a valid spontaneous payment"), as an
    invoice payment only if its onion carries payment_data (a payment secret, which `inbound_payment::verify` then
    checks) and no keysend preimage; everything else is refused with the translated reason.  A flipped preimage test,
    swapped arms or an accepting `else` regenerate `recvRouting` and this proof stops checking. -/
theorem routing_requires_valid_keysend_or_secret (sha256 : Nat → Nat) (ks : Option Nat) (pd : Bool) (hash : Nat) :
    (MppGen.recvRouting sha256 ks pd hash = .keysend ↔ ∃ p, ks = some p ∧ sha256 p = hash) ∧
    (MppGen.recvRouting sha256 ks pd hash = .invoice ↔ ks = none ∧ pd = true) ∧
    (MppGen.recvRouting sha256 ks pd hash = .refused .invalidKeysendPreimage ↔ ∃ p, ks = some p ∧ sha256 p ≠ hash) ∧
    (MppGen.recvRouting sha256 ks pd hash = .refused .paymentSecretRequired ↔ ks = none ∧ pd = false) := by
  cases ks with
  | none => cases pd <;> simp [MppGen.recvRouting]
  | some p =>
    by_cases h : sha256 p = hash <;> simp [MppGen.recvRouting, MppGen.keysendPreimageMismatch, h]

/-- From the wire to the part: the `PendingHTLCInfo` amounts create_recv_pending_htlc_info returns (translated), fed through the
    translated `let value = ..` and `ClaimableHTLC { .. }` of process_receive_htlcs, give a part whose `value` is the HTLC's
    amount, whose `sender_intended_value` is the onion amount and whose skimmed fee is the message's TLV — for all inputs.
    (Swapping the two amounts anywhere on this path regenerates one of the three definitions and breaks this `rfl`.) -/
theorem wire_amounts_reach_the_part (amt_msat onion_amt_msat cltv : Nat) (skim : Option Nat) :
    let info := MppGen.recvInfoAmounts amt_msat onion_amt_msat skim
    MppGen.recvPart (MppGen.recvValue info.1 info.2.1) info.2.1 cltv info.2.2 =
      { value := amt_msat, sender_intended_value := onion_amt_msat, timer_ticks := 0, total_value_received := none,
        cltv_expiry := cltv, counterparty_skimmed_fee_msat := skim } := rfl

/-- The receive-side tests RUN BEFORE the accumulator — over the stage order read from the Rust text (`MppGen.recvStages`:
    create_recv_pending_htlc_info's CLTV / amount tests and routing selection, then process_receive_htlcs' verify and
    min_final_cltv test, then handle_claimable_htlc).  For every accumulator state and HTLC: if any stage refuses, the
    claimable_payments state is UNTOUCHED and the only output is the failure of this HTLC (nothing is shown to the user);
    if none refuses, the result is exactly the accumulator's part step.  Moving a test behind handle_claimable_htlc in the
    Rust text reorders the generated list and this proof stops checking. -/
theorem recv_tests_precede_accumulator (sha256 : Nat → Nat) (i : RecvIn) (s : Mpp) :
    ((∃ st ∈ MppGen.recvStages, stageRefuses sha256 i st ≠ none) →
      (receive sha256 i s).1 = s ∧ (receive sha256 i s).2.1 = [.failPart i.id] ∧ (receive sha256 i s).2.2 ≠ none) ∧
    ((∀ st ∈ MppGen.recvStages, stageRefuses sha256 i st = none) →
      (receive sha256 i s).1 = (step s i.op).1 ∧ (receive sha256 i s).2.1 = (step s i.op).2 ∧ (receive sha256 i s).2.2 = none) := by
  have hacc : stageRefuses sha256 i .accumulator = none := rfl
  simp only [receive, MppGen.recvStages, runStages, List.mem_cons, List.not_mem_nil, or_false, exists_eq_or_imp, forall_eq_or_imp,
    exists_eq_left, forall_eq, List.nil_append, hacc, ne_eq, not_true_eq_false]
  cases h1 : stageRefuses sha256 i .finalCltv <;> cases h2 : stageRefuses sha256 i .expirySoon <;>
    cases h3 : stageRefuses sha256 i .amount <;> cases h4 : stageRefuses sha256 i .routing <;>
    cases h5 : stageRefuses sha256 i .verifySecret <;> cases h6 : stageRefuses sha256 i .minCltv <;> simp

/-- hence: whatever PaymentClaimable the receive path produces, the HTLC that produced it passed EVERY translated test —
    the exact amount test, the routing selection (payment secret or a keysend preimage that hashes to the payment hash),
    `verify` and the registered min_final_cltv delta for non-keysend HTLCs -/
theorem claimable_only_after_all_recv_tests (sha256 : Nat → Nat) (i : RecvIn) (s : Mpp) (a k d : Nat)
    (h : Out.claimable a k d ∈ (receive sha256 i s).2.1) :
    MppGen.recvAmountTooLow i.allow i.intended i.value i.skim = false ∧
    (∀ r, MppGen.recvRouting sha256 i.ks i.pd i.hash ≠ .refused r) ∧
    (i.ks = none → i.verifyOk = true ∧ ∀ m, i.minCltv = some m → i.height + m ≤ i.cltv) ∧
    Out.claimable a k d ∈ (step s i.op).2 := by
  by_cases hall : ∀ st ∈ MppGen.recvStages, stageRefuses sha256 i st = none
  · have hr := (recv_tests_precede_accumulator sha256 i s).2 hall
    rw [hr.2.1] at h
    have e3 := hall .amount (by decide)
    have e4 := hall .routing (by decide)
    have e5 := hall .verifySecret (by decide)
    have e6 := hall .minCltv (by decide)
    refine ⟨?_, ?_, ?_, h⟩
    · simp only [stageRefuses] at e3; revert e3; cases MppGen.recvAmountTooLow i.allow i.intended i.value i.skim <;> simp
    · intro r hr'; simp [stageRefuses, hr'] at e4
    · intro hk
      refine ⟨?_, fun m hm => ?_⟩
      · simp only [stageRefuses, hk] at e5; revert e5; cases i.verifyOk <;> simp
      · simp only [stageRefuses, hk, hm] at e6
        exact (recvCltvTest_exact _ _ _).1 (by revert e6; cases MppGen.recvCltvBelowMin i.height m i.cltv <;> simp)
  · have hex : ∃ st ∈ MppGen.recvStages, stageRefuses sha256 i st ≠ none :=
      Classical.byContradiction fun hne => hall fun st hst => Classical.byContradiction fun h' => hne ⟨st, hst, h'⟩
    have hr := (recv_tests_precede_accumulator sha256 i s).1 hex
    rw [hr.2.1] at h
    simp at h

/-- Blinded receive (final hop of a blinded path): the `payment_constraints` test of create_recv_pending_htlc_info's
    BlindedReceive arm — the translated body of `check_blinded_payment_constraints` applied to the ARGUMENTS the call site
    passes (read from the text) — lets the HTLC through iff the onion's sender-intended amount reaches `htlc_minimum_msat`
    and the HTLC's OWN `cltv_expiry` (not the onion's height) does not exceed `max_cltv_expiry`.  For all inputs. -/
theorem blinded_receive_constraints_exact (intended amt cltv onionCltv hmin maxCltv : Nat) :
    MppGen.blindedReceiveRefuses intended amt cltv onionCltv hmin maxCltv = false ↔ hmin ≤ intended ∧ cltv ≤ maxCltv := by
  simp [MppGen.blindedReceiveRefuses, MppGen.blindedConstraintsViolated]

/-- A restart between the parts of an MPP: what `impl Readable for (ClaimableHTLC, u64)` reads back of a part that
    `write_claimable_htlc` wrote (TLV numbers paired, read-side expressions translated) is the same part with
    `timer_ticks = 0` — every amount, the skimmed fee, `total_value_received` and the expiry survive, for all parts. -/
theorem reload_preserves_part (w : MppGen.PartG) : MppGen.reloadPart w = { w with timer_ticks := 0 } := by
  cases w; rfl

/-- hence the model's `restart` (used by the driver for the `restart` op) IS that reload on every held part, it changes
    nothing the completion / claim_deadline / claim decisions read, and the sums that decide all-or-nothing are unchanged -/
theorem restart_is_reload (s : Mpp) :
    (restartState s).parts.map Part.g = s.parts.map (fun p => MppGen.reloadPart p.g) ∧
    (restartState s).total = s.total ∧ (restartState s).tag = s.tag ∧ (restartState s).evenTlv = s.evenTlv ∧
    (restartState s).claiming = s.claiming ∧
    sumValue (restartState s).parts = sumValue s.parts ∧ sumIntended (restartState s).parts = sumIntended s.parts ∧
    sumSkim (restartState s).parts = sumSkim s.parts ∧ (restartState s).parts.map (·.cltv) = s.parts.map (·.cltv) ∧
    (restartState s).parts.map (·.id) = s.parts.map (·.id) := by
  refine ⟨?_, rfl, rfl, rfl, rfl, ?_, ?_, ?_, ?_, ?_⟩ <;>
    simp [restartState, sumValue, sumIntended, sumSkim, List.map_map, Function.comp_def, reload_preserves_part, Part.g]

/-- Front end + accumulator, composed.  `process_receive_htlcs` hands a part to `handle_claimable_htlc` only after
    `inbound_payment::verify(hash, secret, total_msat of THIS part's onion, ..)` accepted.  If the part that completes a
    set was so verified (for ANY crypto, keys, hash, secret, metadata, time), then for the announced PaymentClaimable
    `{amount a, skimmed k}`:
    * the MAC / hash equation holds for this hash and secret (authentic) and the secret had not expired;
    * the minimum amount encoded in the secret (the invoice amount) is at most the common `total_msat` of the set,
      which is at most Σ sender-intended — a payment is never reported claimable below the verified invoice amount;
    * if every held part passed the translated receive-side amount test (`recvAmountTooLow`, with or without
      `accept_underpaying_htlcs`), the invoice amount is at most `a + k`: what arrived falls short of it by at most the
      skimmed fees the recipient was told about (and agreed to by `accept_underpaying_htlcs`);
    * if no part is under-paid, the invoice amount is at most `a` itself. -/
theorem claimable_never_below_verified_invoice_amount (C : PayCrypto) (k : Keys) (hash secret : Bytes) (md : Option Bytes) (now : Nat)
    (s : Mpp) (hs : Reachable s) (id value intended : Nat) (skim : Option Nat) (total cltv tag : Nat) (ev : Bool) (a kf d : Nat)
    (hv : ∃ r, verify C k hash secret total md now = .ok r)
    (h : Out.claimable a kf d ∈ (step s (.part id value intended skim total cltv tag ev)).2) :
    MacEq C k hash secret md ∧ now ≤ expiryOf C k secret ∧
    minAmtOf C k secret ≤ total ∧
    (∀ p ∈ (step s (.part id value intended skim total cltv tag ev)).1.parts, p.total = total) ∧
    total ≤ sumIntended (step s (.part id value intended skim total cltv tag ev)).1.parts ∧
    ((∀ p ∈ (step s (.part id value intended skim total cltv tag ev)).1.parts,
        ∃ allow, MppGen.recvAmountTooLow allow p.intended p.value p.skim = false) → minAmtOf C k secret ≤ a + kf) ∧
    ((∀ p ∈ (step s (.part id value intended skim total cltv tag ev)).1.parts, p.intended ≤ p.value) → minAmtOf C k secret ≤ a) := by
  obtain ⟨_, hmac, hamt, hexp⟩ := (verify_accepts_iff C k hash secret total md now).1 hv
  obtain ⟨id', value', intended', skim', total', cltv', tag', ev', hop, _, hf, hge, _, _⟩ :=
    claimable_only_if_complete s hs _ a kf d h
  have ht : total' = total := by cases hop; rfl
  subst ht
  obtain ⟨ha, _, htot, hadm, _, _⟩ := claimed_amount_accounts_for_skim s hs _ a kf d h
  refine ⟨hmac, hexp, hamt, fun p hp => (hf p hp).1, hge, fun hall => ?_, fun hall => ?_⟩
  · have := (hadm hall).1
    omega
  · have : sumIntended (step s (.part id value intended skim total' cltv tag ev)).1.parts ≤
        sumValue (step s (.part id value intended skim total' cltv tag ev)).1.parts := sum_le_of_forall _ _ _ hall
    omega

/-- Front end + amount test + accumulator on channels WITHOUT `accept_underpaying_htlcs` (the default): if the completing
    part was verified by `inbound_payment::verify` and every held part passed the translated amount test with
    `allow_underpay = false`, the amount shown in PaymentClaimable itself reaches the invoice amount encoded in the secret —
    whatever `skimmed_fee_msat` TLVs the peers attached.  (This is the statement the round-5 seeded change falsifies:
    with it `recvAmountTooLow false` no longer implies `intended ≤ value`, and `strict_admit_not_underpaid` stops checking.) -/
theorem strict_claimable_reaches_verified_invoice_amount (C : PayCrypto) (k : Keys) (hash secret : Bytes) (md : Option Bytes) (now : Nat)
    (s : Mpp) (hs : Reachable s) (id value intended : Nat) (skim : Option Nat) (total cltv tag : Nat) (ev : Bool) (a kf d : Nat)
    (hv : ∃ r, verify C k hash secret total md now = .ok r)
    (h : Out.claimable a kf d ∈ (step s (.part id value intended skim total cltv tag ev)).2)
    (hstrict : ∀ p ∈ (step s (.part id value intended skim total cltv tag ev)).1.parts,
        MppGen.recvAmountTooLow false p.intended p.value p.skim = false) :
    minAmtOf C k secret ≤ a :=
  (claimable_never_below_verified_invoice_amount C k hash secret md now s hs id value intended skim total cltv tag ev a kf d hv h).2.2.2.2.2.2
    (fun p hp => strict_admit_not_underpaid _ _ _ (hstrict p hp))

/-! ## non-vacuity: concrete instances of every hypothesis and outcome used above -/

/-- a toy `PayCrypto` that satisfies `Wf` (only for non-vacuity; the driver uses the real primitives) -/
def toyCrypto : PayCrypto where
  mac := fun k m => ((k ++ m) ++ List.replicate 32 0).take 32
  enc := fun _ _ d => d
  hash := fun b => b

private theorem toyWf : toyCrypto.Wf :=
  ⟨by intro k m; simp [toyCrypto, List.length_take]; omega, by intro k iv d; rfl, by intro k iv d; rfl⟩

def toyKeys : Keys := ⟨[1], [2], [3], [4], [5]⟩

example : Admissible 3600 1700000000 (some 18) := ⟨by decide, by intro d hd; cases hd; decide⟩
example : (create toyCrypto toyKeys (some 1000) 3600 (List.replicate 16 7) 1700000000 (some 18) none).isSome = true := by decide
example : constructInfo (some (MAX_VALUE_MSAT + 1)) .ldkHash 3600 1700000000 none = none := by decide
example : constructInfo (some MAX_VALUE_MSAT) .ldkHash 3600 1700000000 none ≠ none := by decide
example : constructInfo none .userHashCltv 0 (2 ^ 48 - 7200) (some 18) = none ∧
    constructInfo none .userHashCltv 0 (2 ^ 48 - 7201) (some 18) ≠ none := by decide

def okWith (r : Except VerifyErr VerifyOk) (c : Option Nat) (md : Option Bytes) : Bool :=
  match r with | .ok v => v.minFinalCltv == c && v.metadata == md && v.preimage.isSome | .error _ => false
def errIs (r : Except VerifyErr VerifyOk) (e : VerifyErr) : Bool :=
  match r with | .ok _ => false | .error x => x == e

/-- one concrete create → verify: accepted at the minimum and at the expiry, refused one below / one
    after; a changed hash is refused as such whatever the amount and the time -/
example :
    (create toyCrypto toyKeys (some 1000) 3600 (List.replicate 16 7) 1700000000 (some 18) (some [9, 9])).any
      (fun (h, sec, md) =>
        okWith (verify toyCrypto toyKeys h sec 1000 md (1700000000 + 3600 + 7200)) (some 18) (some [9, 9]) &&
        errIs (verify toyCrypto toyKeys h sec 999 md 1700000000) .amountTooLow &&
        errIs (verify toyCrypto toyKeys h sec 1000 md (1700000000 + 3600 + 7201)) .expired &&
        errIs (verify toyCrypto toyKeys (0 :: h) sec 1000 md 1700000000) .badMac &&
        errIs (verify toyCrypto toyKeys (0 :: h) sec 0 md (2 ^ 60)) .badMac) = true := by decide

-- hypotheses of claimable_never_below_verified_invoice_amount: a created secret verifies for total_msat 1000 and the part
-- carrying that total completes a set
example :
    (create toyCrypto toyKeys (some 1000) 3600 (List.replicate 16 7) 1700000000 (some 18) none).any
      (fun (h, sec, md) => (match verify toyCrypto toyKeys h sec 1000 md 1700000000 with | .ok _ => true | .error _ => false)) = true ∧
    Out.claimable 990 10 441 ∈ (step (step Mpp.init (.part 2 600 600 none 1000 500 1 false)).1 (.part 1 390 400 (some 10) 1000 480 1 false)).2 := by
  decide
-- fail-back reasons per site (translated constants)
example : stepWhy Mpp.init .tick = .mPPTimeout ∧ stepWhy Mpp.init (.block 5) = .paymentClaimBuffer ∧
    stepWhy { Mpp.init with evenTlv := true } (.claim false) = .invalidOnionPayload ∧ stepWhy Mpp.init .failBack = .incorrectPaymentDetails := by decide

-- the accumulator: two parts complete a 1000-msat payment (deadline = min cltv − 39), blocks below
-- the deadline change nothing, the claim fulfils both parts
example : (run Mpp.init [.part 1 600 600 none 1000 500 1 false, .tick]).2 = [.failPart 1] := by decide
example : (run Mpp.init [.part 2 600 600 none 1000 500 1 false, .part 1 400 400 none 1000 480 1 false,
      .part 3 10 10 none 1000 500 1 false, .tick, .block 440, .claim false]).2 =
    [.claimable 1000 0 441, .failPart 3, .fulfilPart 1, .fulfilPart 2, .claimed 1000 0 1000] := by decide
-- at the deadline the part with the smallest expiry is failed; the claim then releases nothing
example : (run Mpp.init [.part 2 600 600 none 1000 500 1 false, .part 1 400 400 none 1000 480 1 false,
      .block 441, .claim false]).2 = [.claimable 1000 0 441, .failPart 1] := by decide
example : Quiet 441 (.block 440) ∧ ¬ Quiet 441 (.block 441) := by simp [Quiet]
example : (partIds [.part 2 600 600 none 1000 500 1 false, .part 1 400 400 none 1000 480 1 false, .block 441, .claim false]).Nodup := by decide
-- onion-field mismatch, over-payment bound, even TLVs with the plain claim
example : (run Mpp.init [.part 1 600 600 none 1000 500 1 false, .part 2 400 400 none 999 500 1 false]).2 = [.failPart 2] := by decide
example : (run Mpp.init [.part 1 600 600 none 1000 500 1 true, .part 2 400 400 none 1000 500 1 true, .claim false]).2 =
    [.claimable 1000 0 461, .failPart 1, .failPart 2] := by decide
example : (run Mpp.init [.part 1 5 5 none (MAX_VALUE_MSAT + 9) 500 1 false, .part 2 MAX_VALUE_MSAT MAX_VALUE_MSAT none (MAX_VALUE_MSAT + 9) 500 1 false]).2 =
    [.failPart 2] := by decide
-- the "should not be reachable" branch of claim_payment_internal is reachable in the model
example : (run Mpp.init [.part 1 600 600 none 1000 500 1 false, .part 2 400 400 none 1000 480 1 false, .block 441,
      .part 3 100 100 none 1000 600 1 false, .claim false]).2 = [.claimable 1000 0 441, .failPart 2, .inconsistent] := by decide

-- skimmed fees (value < sender_intended): complete on Σ intended = 1000 although only 970 arrived; three
-- timer ticks later the set is still there and the claim reports what arrived, the skim and the onion total
example : (run Mpp.init [.part 1 580 600 (some 20) 1000 500 1 false, .part 2 390 400 (some 10) 1000 480 1 false,
      .tick, .tick, .tick, .claim false]).2 =
    [.claimable 970 30 441, .fulfilPart 1, .fulfilPart 2, .claimed 970 30 1000] := by decide
-- an incomplete skimmed set is failed by the tick; an over-paying forwarder does not complete the set early
example : (run Mpp.init [.part 1 580 600 (some 20) 1000 500 1 false, .tick]).2 = [.failPart 1] := by decide
example : (run Mpp.init [.part 1 1200 600 none 1000 500 1 false, .part 2 400 400 none 1000 500 1 false, .claim false]).2 =
    [.claimable 1600 0 461, .fulfilPart 1, .fulfilPart 2, .claimed 1600 0 1000] := by decide
-- the translated functions on the same skimmed set: complete, and not timed out by any of the next ticks;
-- the hypotheses of `incomplete_mpp_times_out` / `claimed_amount_accounts_for_skim` are satisfiable
example : (MppGen.checkIncomingMppPart [⟨580, 600, 0, none, 500, some 20⟩] ⟨390, 400, 0, none, 480, some 10⟩ 1000).1 = .complete ∧
    (MppGen.checkMppTimeout (MppGen.checkIncomingMppPart [⟨580, 600, 0, none, 500, some 20⟩] ⟨390, 400, 0, none, 480, some 10⟩ 1000).2 1000).2 = false ∧
    MppGen.eventAmount (MppGen.checkIncomingMppPart [⟨580, 600, 0, none, 500, some 20⟩] ⟨390, 400, 0, none, 480, some 10⟩ 1000).2 = 970 ∧
    MppGen.eventSkim (MppGen.checkIncomingMppPart [⟨580, 600, 0, none, 500, some 20⟩] ⟨390, 400, 0, none, 480, some 10⟩ 1000).2 = 30 := by decide
example : (MppGen.checkMppTimeout [⟨580, 600, 0, none, 500, some 20⟩] 1000).2 = true ∧ gIntended [⟨580, 600, 0, none, 500, some 20⟩] < 1000 := by decide
example : MppGen.recvAmountTooLow true 600 580 (some 20) = false ∧ MppGen.recvAmountTooLow true 600 579 (some 20) = true ∧
    MppGen.recvAmountTooLow false 600 580 (some 20) = true ∧ MppGen.recvAmountTooLow false 600 600 none = false := by decide
example : (580 : Nat) + (some 20 : Option Nat).getD 0 = 600 := by decide

-- recvAmountTest_exact / not_underpaid_without_opt_in: both sides of the iff occur for both settings, incl. the u64 saturation
example : MppGen.recvAmountTooLow false 600 580 (some 20) = true ∧ MppGen.recvAmountTooLow false 600 600 (some 20) = false ∧
    MppGen.recvAmountTooLow true (2 ^ 64 - 1) (2 ^ 64 - 2) (some 5) = false ∧ MppGen.recvAmountTooLow true 601 580 (some 20) = true := by decide
example : Out.claimable 1000 20 441 ∈ (step (step Mpp.init (.part 2 600 600 (some 20) 1000 500 1 false)).1 (.part 1 400 400 none 1000 480 1 false)).2 ∧
    (∀ p ∈ (step (step Mpp.init (.part 2 600 600 (some 20) 1000 500 1 false)).1 (.part 1 400 400 none 1000 480 1 false)).1.parts,
      MppGen.recvAmountTooLow false p.intended p.value p.skim = false) := by decide

-- recvCltvTest_exact / registered_cltv_delta_bounds_claim_deadline: the boundary, and a set whose parts all pass at height 400 with delta 80
example : MppGen.recvCltvBelowMin 400 80 479 = true ∧ MppGen.recvCltvBelowMin 400 80 480 = false := by decide
example : Out.claimable 1000 0 441 ∈ (step (step Mpp.init (.part 2 600 600 none 1000 500 1 false)).1 (.part 1 400 400 none 1000 480 1 false)).2 ∧
    (∀ p ∈ (step (step Mpp.init (.part 2 600 600 none 1000 500 1 false)).1 (.part 1 400 400 none 1000 480 1 false)).1.parts,
      ∃ hp, 400 ≤ hp ∧ MppGen.recvCltvBelowMin hp 80 p.cltv = false) := by
  refine ⟨by decide, ?_⟩
  intro p hp
  exact ⟨400, Nat.le_refl _, by revert p; decide⟩

-- routing_requires_valid_keysend_or_secret: all four outcomes occur
example : MppGen.recvRouting (fun p => p + 1) (some 4) false 5 = .keysend ∧ MppGen.recvRouting (fun p => p + 1) (some 4) true 6 = .refused .invalidKeysendPreimage ∧
    MppGen.recvRouting (fun p => p + 1) none true 5 = .invoice ∧ MppGen.recvRouting (fun p => p + 1) none false 5 = .refused .paymentSecretRequired := by decide

-- recv_tests_precede_accumulator: a refused HTLC (wrong keysend preimage) and an accepted one that completes a set
example : (receive (fun p => p + 1) ⟨1, 1000, 1000, none, 1000, 500, 1, false, 500, 400, false, some 4, false, 6, true, none⟩ Mpp.init).2 =
      ([.failPart 1], some .invalidKeysendPreimage) ∧
    (receive (fun p => p + 1) ⟨1, 1000, 1000, none, 1000, 500, 1, false, 500, 400, false, some 4, false, 5, true, none⟩ Mpp.init).2 =
      ([.claimable 1000 0 461], none) := by decide

-- blinded_receive_constraints_exact / reload: both outcomes; a reloaded part with ticks
example : MppGen.blindedReceiveRefuses 1000 990 500 480 1000 500 = false ∧ MppGen.blindedReceiveRefuses 999 1200 500 480 1000 500 = true ∧
    MppGen.blindedReceiveRefuses 1000 1000 501 480 1000 500 = true := by decide
example : MppGen.reloadPart ⟨580, 600, 1, some 970, 500, some 20⟩ = ⟨580, 600, 0, some 970, 500, some 20⟩ := by decide

/-! ### round 6: the even (required) custom TLVs of `RecipientOnionFields::check_merge`, for ALL TLV lists -/

/-- the even-typed (must-understand) custom TLVs of a part's onion fields, in order -/
def evenTlvs (o : MppGen.OnionG) : List (Nat × Nat) := o.custom_tlvs.filter (fun t => decide (t.1 % 2 = 0))

/-- `RecipientOnionFields::check_merge` as TRANSLATED from outbound_payment.rs (`MppGen.checkMergeErr`, the very function the
    part step of the model calls): whenever it answers `Ok(())` for the stored fields `self` and those of a newly arrived
    part, both carry the same payment_secret / payment_metadata / total_msat and EXACTLY the same even custom TLVs (same
    types, same values, same order) — for arbitrary TLV lists on both sides, so in particular an even TLV that only the LATER
    part carries is a mismatch just as one that only the earlier part carries. Not provable when the comparison is a
    containment test in one direction only (`even_tlvs.any(|tlv| !further_tlvs.contains(tlv))`, which gen_inbound.py
    translates as it stands): `self` without even TLVs then merges with anything. -/
theorem merge_ok_implies_same_even_tlvs (self further : MppGen.OnionG) (h : MppGen.checkMergeErr self further = false) :
    self.payment_secret = further.payment_secret ∧ self.payment_metadata = further.payment_metadata ∧
    self.total_mpp_amount_msat = further.total_mpp_amount_msat ∧ evenTlvs self = evenTlvs further := by
  simp only [MppGen.checkMergeErr] at h
  by_cases h1 : self.payment_secret = further.payment_secret
  · by_cases h2 : self.payment_metadata = further.payment_metadata
    · by_cases h3 : self.total_mpp_amount_msat = further.total_mpp_amount_msat
      · refine ⟨h1, h2, h3, ?_⟩
        simpa [h1, h2, h3, evenTlvs] using h
      · simp [h1, h2, h3] at h
    · simp [h1, h2] at h
  · simp [h1] at h

/-- ... and conversely: equal fields and equal even TLVs are never refused, whatever the ODD TLVs are (those are only
    intersected). Together: `check_merge` = `Ok(())` iff the three fields and the even TLV sequences agree. -/
theorem merge_ok_iff_same_even_tlvs (self further : MppGen.OnionG) :
    MppGen.checkMergeErr self further = false ↔
      (self.payment_secret = further.payment_secret ∧ self.payment_metadata = further.payment_metadata ∧
       self.total_mpp_amount_msat = further.total_mpp_amount_msat ∧ evenTlvs self = evenTlvs further) := by
  refine ⟨merge_ok_implies_same_even_tlvs self further, fun ⟨h1, h2, h3, h4⟩ => ?_⟩
  simp only [evenTlvs] at h4
  simp [MppGen.checkMergeErr, h1, h2, h3]
  simpa using h4

/-- the whole gate sequence of `handle_claimable_htlc` (`MppGen.handleClaimable`, translated): a part that is not refused —
    held or completing the set, i.e. every part a PaymentClaimable can ever be about — carries exactly the even custom TLVs
    of the entry's stored onion fields, in whatever order the parts arrive. -/
theorem claimable_parts_agree_on_even_tlvs (pending : Bool) (purpose entry_purpose : Nat) (entry_fields onion_fields : MppGen.OnionG)
    (htlc_set : List MppGen.PartG) (new_htlc : MppGen.PartG)
    (h : (MppGen.handleClaimable pending purpose entry_purpose entry_fields onion_fields htlc_set new_htlc).1 ≠ .reject) :
    evenTlvs entry_fields = evenTlvs onion_fields := by
  cases hm : MppGen.checkMergeErr entry_fields onion_fields with
  | false => exact (merge_ok_implies_same_even_tlvs _ _ hm).2.2.2
  | true =>
    exfalso; apply h
    simp only [MppGen.handleClaimable, hm]
    split
    · rfl
    · split <;> rfl

-- non-vacuity: accepted with equal even TLVs and differing odd ones; refused when only the LATER part carries the even TLV,
-- when only the EARLIER one does, and when the value differs; and an accepting run of the whole gate sequence
example : MppGen.checkMergeErr ⟨1, 1, 1000, [(65536, 7), (65537, 1)]⟩ ⟨1, 1, 1000, [(65536, 7), (65539, 2)]⟩ = false ∧
    MppGen.checkMergeErr ⟨1, 1, 1000, []⟩ ⟨1, 1, 1000, [(65536, 7)]⟩ = true ∧
    MppGen.checkMergeErr ⟨1, 1, 1000, [(65537, 1)]⟩ ⟨1, 1, 1000, [(65537, 1), (65538, 42)]⟩ = true ∧
    MppGen.checkMergeErr ⟨1, 1, 1000, [(65536, 7)]⟩ ⟨1, 1, 1000, []⟩ = true ∧
    MppGen.checkMergeErr ⟨1, 1, 1000, [(65536, 7)]⟩ ⟨1, 1, 1000, [(65536, 8)]⟩ = true := by decide
example : (MppGen.handleClaimable false 1 1 ⟨1, 1, 1000, [(65536, 7)]⟩ ⟨1, 1, 1000, [(65536, 7), (65537, 3)]⟩
    [⟨400, 400, 0, some 1000, 480, none⟩] ⟨600, 600, 0, some 1000, 500, none⟩).1 ≠ .reject := by decide

end Ldk.C04
