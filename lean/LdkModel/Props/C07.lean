/- C07 — After a unilateral close every entitled output is recovered, validly and in time.

   Property theorems only.  Models: Generated/Package.lean (fee-bump / bump-timer / locktime
   arithmetic TRANSLATED from chain/package.rs on every run), Generated/Timing.lean
   (`confirmationThreshold`, translated from OnchainEventEntry::confirmation_threshold),
   Model/OnchainClaims.lean (the entitlement ledger and its `Balance` view).
   Helper lemmas: Proofs/{Package,OnchainClaims}.lean.

   What is NOT formalised (validated by the c07close run: libbitcoinconsensus on every broadcast,
   finality at broadcast height, fee monotonicity of replacements, per-block comparison of the
   ledger's balances with `get_claimable_balances`): transaction construction, the
   OnchainTxHandler's package bookkeeping, anchor bumping with wallet inputs. -/
import LdkModel.Proofs.Package
import LdkModel.Proofs.OnchainClaims
namespace Ldk.C07
open Ldk Ldk.Pkg Ldk.Onchain

/-- **feerate_bump_monotone** — (as C06) whenever `feerate_bump` answers `(fee', rate')`: for every
    transaction weight `w ≥ 4` the feerate never decreases (tight: Props/C06.lean has the `w < 4`
    counter-example); for every weight the answer is either a plain
    re-broadcast at the previous feerate and fee, or a replacement paying at least the previous fee
    plus the relay increment (BIP-125 rules 3/4) that leaves at least dust to the output; a
    `ForceBump` of a feerate ≥ 4 sat/kW is always such a replacement. -/
theorem feerate_bump_monotone (w inp dust prev : Nat) (s : FeerateStrategy) (est fee' rate' : Nat)
    (h : feerateBump w inp dust prev s est = some (fee', rate')) :
    (4 ≤ w → prev ≤ rate') ∧
    ((rate' = prev ∧ fee' = prev * w / 1000) ∨
     (prev * w / 1000 + INCREMENTAL_RELAY_FEE_SAT_PER_1000_WEIGHT * w / 1000 ≤ fee' ∧ dust ≤ inp - fee')) ∧
    (s = .forceBump → 4 ≤ prev →
      prev * w / 1000 + INCREMENTAL_RELAY_FEE_SAT_PER_1000_WEIGHT * w / 1000 ≤ fee') :=
  feerate_bump_monotone_core w inp dust prev s est fee' rate' h

/-- **bump_progress** — the next bump height of ANY package at ANY height is strictly in the future
    and at most `LOW_FREQUENCY_BUMP_INTERVAL` away, and the nearer an input's deadline, the sooner:
    an HTLC claimed by preimage on the counterparty's commitment (`CounterpartyOfferedHTLCOutput`,
    deadline = its `cltv_expiry`) is re-bumped EVERY block once the expiry is within
    `MIDDLE_FREQUENCY_BUMP_INTERVAL`, and a timeout claim (`CounterpartyReceivedHTLCOutput` /
    holder HTLC-timeout, deadline = `cltv_expiry + MIN_CLTV_EXPIRY_DELTA`, the inbound edge's
    expiry) likewise. -/
theorem bump_progress (h csh : Nat) (inputs : List PkgInput) :
    h < getHeightTimer h csh inputs ∧
    getHeightTimer h csh inputs ≤ h + LOW_FREQUENCY_BUMP_INTERVAL ∧
    (∀ t t', t ≤ t' → timerForTargetConf h t ≤ timerForTargetConf h t') ∧
    (∀ c, .counterpartyOfferedHTLCOutput c ∈ inputs → c ≤ h + MIDDLE_FREQUENCY_BUMP_INTERVAL →
        getHeightTimer h csh inputs = h + HIGH_FREQUENCY_BUMP_INTERVAL) ∧
    (∀ c, (.counterpartyReceivedHTLCOutput c ∈ inputs ∨ .holderHTLCOutput false c ∈ inputs) →
        c + MIN_CLTV_EXPIRY_DELTA ≤ h + MIDDLE_FREQUENCY_BUMP_INTERVAL →
        getHeightTimer h csh inputs = h + HIGH_FREQUENCY_BUMP_INTERVAL) := by
  have hh : HIGH_FREQUENCY_BUMP_INTERVAL = 1 := rfl
  have hl : LOW_FREQUENCY_BUMP_INTERVAL = 15 := rfl
  have hm : MIDDLE_FREQUENCY_BUMP_INTERVAL = 3 := rfl
  have h0 : h < h + LOW_FREQUENCY_BUMP_INTERVAL ∧ h + LOW_FREQUENCY_BUMP_INTERVAL ≤ h + LOW_FREQUENCY_BUMP_INTERVAL := by omega
  obtain ⟨h1, h2, h3, _, _⟩ := bump_progress_core h csh inputs
  have key : ∀ (i : PkgInput) (t : Nat), i ∈ inputs →
      heightTimerStep h csh (h + LOW_FREQUENCY_BUMP_INTERVAL) i = Nat.min (h + LOW_FREQUENCY_BUMP_INTERVAL) (timerForTargetConf h t) →
      t ≤ h + MIDDLE_FREQUENCY_BUMP_INTERVAL → getHeightTimer h csh inputs = h + HIGH_FREQUENCY_BUMP_INTERVAL := by
    intro i t hi hstep ht
    have hle := foldl_heightTimerStep_le_of_mem h csh inputs _ i h0 hi
    rw [hstep] at hle
    have h4 := Nat.le_trans hle (Nat.min_le_right _ _)
    rcases timerForTargetConf_cases h t with ⟨_, e⟩ | ⟨a, _, _⟩ | ⟨a, _⟩
    · rw [e] at h4
      unfold getHeightTimer at *
      omega
    · omega
    · omega
  refine ⟨h1, h2, h3, ?_, ?_⟩
  · intro c hc hle
    exact key _ c hc rfl hle
  · intro c hc hle
    rcases hc with hc | hc
    · exact key _ (c + MIN_CLTV_EXPIRY_DELTA) hc rfl hle
    · exact key _ (c + MIN_CLTV_EXPIRY_DELTA) hc rfl hle

/-- **threshold_ge_anti_reorg** — an on-chain event confirmed at `height` is acted upon only at
    `≥ height + ANTI_REORG_DELAY − 1` (ANTI_REORG_DELAY confirmations), never before the event's own
    block, and — for a CSV-encumbered output — not before `height + csv − 1` (when the spend
    becomes final). -/
theorem threshold_ge_anti_reorg (height : Nat) (csv : Option Nat) :
    height + ANTI_REORG_DELAY ≤ confirmationThreshold height csv + 1 ∧
    height ≤ confirmationThreshold height csv ∧
    (∀ c, csv = some c → height + c ≤ confirmationThreshold height csv + 1) ∧
    (csv = none → confirmationThreshold height csv = height + ANTI_REORG_DELAY - 1) := by
  have ha : ANTI_REORG_DELAY = 6 := rfl
  unfold confirmationThreshold
  cases csv with
  | none =>
    simp only
    refine ⟨?_, ?_, ?_, ?_⟩
    · omega
    · omega
    · intro c hc; simp at hc
    · simp
  | some c =>
    simp only
    have e : Nat.max (height + ANTI_REORG_DELAY - 1) (height + c - 1) = max (height + ANTI_REORG_DELAY - 1) (height + c - 1) := rfl
    rw [e]
    refine ⟨by omega, by omega, ?_, by intro h; cases h⟩
    intro c' hc
    cases hc
    omega

/-- **ledger_conservation** — in EVERY ledger state reachable from a closure (any items, any
    sequence of blocks / own claims / counterparty claims, in any order, with any heights and fees):
    the owned part of the reported balances + the value already handed out as spendable outputs +
    the fees realised by buried claims + what finally went to the counterparty = the entitlement,
    and the entitlement is the one fixed at closure. -/
theorem ledger_conservation (height : Nat) (items : List Item) (ops : List Op) :
    let l := run (close height items) ops
    balanceTotal l + spendableTotal l + feesTotal l + lostTotal l = entitlement l ∧
    entitlement l = Onchain.sum (items.map Item.entitled) := by
  intro l
  constructor
  · exact conserved_of_ok l (run_ok _ ops (close_ok height items))
  · rw [entitlement_eq, run_items, close_items]

/-- **balances_drain** — for every ledger state `l` reachable from a closure: (i) once every item
    is buried (`Matured`, or `Gone` to the counterparty) no balance is reported any more and
    spendable = entitlement − fees − lost; (ii) if nothing is still pending, one sufficiently high
    block buries everything: the balances DO drain. -/
theorem balances_drain (height : Nat) (items : List Item) (ops : List Op) :
    let l := run (close height items) ops
    (allSettled l = true →
        balances l = [] ∧ spendableTotal l + feesTotal l + lostTotal l = entitlement l) ∧
    ((∀ e ∈ l.entries, e.stage ≠ .pending) →
        ∃ H, ∀ H', H ≤ H' → allSettled (step l (.block H')) = true) := by
  intro l
  have hok : ∀ e ∈ l.entries, e.ok := run_ok _ ops (close_ok height items)
  constructor
  · intro hs
    have hbal : balances l = [] := by
      unfold balances
      rw [List.filterMap_eq_nil_iff]
      intro e he
      unfold allSettled at hs
      rw [List.all_eq_true] at hs
      have := hs e he
      unfold Entry.balance
      split <;> simp_all
    refine ⟨hbal, ?_⟩
    have := conserved_of_ok l hok
    have h0 : balanceTotal l = 0 := by unfold balanceTotal; rw [hbal]; rfl
    omega
  · intro hp
    refine ⟨Onchain.sum (l.entries.map Entry.settleHeight), fun H' hH => ?_⟩
    simp only [step, allSettled, List.all_map, List.all_eq_true]
    intro e he
    have h1 := le_sum_of_mem l.entries Entry.settleHeight e he
    have h2 : H' ≤ Nat.max l.best H' := Nat.le_max_right _ _
    exact bury_settled _ e (hp e he) (by omega)

/-- **locktime_final** — for every package: (a) without a pre-signed input, the locktime is at
    least the current height and at least every input's CLTV requirement (so every
    `OP_CHECKLOCKTIMEVERIFY` is satisfied), and (b) when all requirements are `≤` the current
    height — the condition under which the OnchainTxHandler releases a package instead of parking
    it in `locktimed_packages` — it is EXACTLY the current height, i.e. the transaction is final in
    the next block; (c) a pre-signed holder HTLC-timeout claim carries exactly the HTLC's
    `cltv_expiry`, an HTLC-success claim locktime 0. -/
theorem locktime_final (h : Nat) (inputs : List PkgInput) :
    (pkgSignedLocktime inputs = none →
        h ≤ packageLocktime h inputs ∧
        (∀ i ∈ inputs, ∀ c, minimumLocktime i = some c → c ≤ packageLocktime h inputs) ∧
        ((∀ i ∈ inputs, ∀ c, minimumLocktime i = some c → c ≤ h) → packageLocktime h inputs = h)) ∧
    (∀ pre c rest, inputs = .holderHTLCOutput pre c :: rest → packageLocktime h inputs = c) := by
  constructor
  · intro hs
    have hpl : packageLocktime h inputs = Nat.max h ((listMax? (inputs.filterMap minimumLocktime)).getD 0) := by
      unfold packageLocktime
      simp only [hs]
    -- the fold of max dominates its start and every element
    have hfold : ∀ (xs : List Nat) (x : Nat), x ≤ xs.foldl Nat.max x ∧ (∀ y ∈ xs, y ≤ xs.foldl Nat.max x) ∧
        (∀ b, x ≤ b → (∀ y ∈ xs, y ≤ b) → xs.foldl Nat.max x ≤ b) := by
      intro xs
      induction xs with
      | nil => intro x; exact ⟨Nat.le_refl _, fun y hy => absurd hy List.not_mem_nil, fun b hb _ => hb⟩
      | cons z rest ih =>
        intro x
        simp only [List.foldl_cons]
        obtain ⟨i1, i2, i3⟩ := ih (Nat.max x z)
        refine ⟨Nat.le_trans (Nat.le_max_left x z) i1, ?_, ?_⟩
        · intro y hy
          rcases List.mem_cons.mp hy with rfl | hy'
          · exact Nat.le_trans (Nat.le_max_right x y) i1
          · exact i2 y hy'
        · intro b hb hall
          exact i3 b (Nat.max_le.2 ⟨hb, hall z List.mem_cons_self⟩) (fun y hy => hall y (List.mem_cons_of_mem _ hy))
    have hmax : ∀ c ∈ inputs.filterMap minimumLocktime, c ≤ (listMax? (inputs.filterMap minimumLocktime)).getD 0 := by
      intro c hc
      cases hl : inputs.filterMap minimumLocktime with
      | nil => rw [hl] at hc; cases hc
      | cons x xs =>
        rw [hl] at hc
        simp only [listMax?, Option.getD_some]
        rcases List.mem_cons.mp hc with rfl | hc'
        · exact (hfold xs c).1
        · exact (hfold xs x).2.1 c hc'
    refine ⟨by rw [hpl]; exact Nat.le_max_left _ _, ?_, ?_⟩
    · intro i hi c hc
      rw [hpl]
      exact Nat.le_trans (hmax c (List.mem_filterMap.2 ⟨i, hi, hc⟩)) (Nat.le_max_right _ _)
    · intro hall
      rw [hpl]
      have : (listMax? (inputs.filterMap minimumLocktime)).getD 0 ≤ h := by
        cases hl : inputs.filterMap minimumLocktime with
        | nil => simp [listMax?]
        | cons x xs =>
          simp only [listMax?, Option.getD_some]
          have hmem : ∀ y ∈ x :: xs, y ≤ h := by
            intro y hy
            rw [← hl] at hy
            obtain ⟨i, hi, hc⟩ := List.mem_filterMap.1 hy
            exact hall i hi y hc
          exact (hfold xs x).2.2 h (hmem x List.mem_cons_self) (fun y hy => hmem y (List.mem_cons_of_mem _ hy))
      exact Nat.max_eq_left this
  · intro pre c rest hi
    subst hi
    simp [packageLocktime, pkgSignedLocktime, signedLocktime]

/-! ### Non-vacuity (sanity runs of the executable model, not the claim) -/

-- a holder close at height 100 (csv 144): own balance 50 000, an outbound HTLC 3 000 expiring at
-- 130, an inbound HTLC 2 000 with known preimage expiring at 140, an inbound one without preimage
def demoItems : List Item :=
  [⟨.toSelf, 50000, 0, 0, some 144⟩, ⟨.outboundHtlc, 3000, 130, 0, some 144⟩,
   ⟨.inboundHtlcPreimage, 2000, 0, 140, some 144⟩, ⟨.inboundHtlcUnknown, 1000, 0, 150, none⟩]

example : balances (close 100 demoItems) =
    [⟨.awaitingConfirmations 243, 50000⟩, ⟨.maybeTimeout 130, 3000⟩, ⟨.contentious 140, 2000⟩, ⟨.maybePreimage 150, 1000⟩] := by decide
example : balances (run (close 100 demoItems) [.claim 2 101 1800, .block 101, .claim 1 131 2700, .peerClaim 3 151, .block 156]) =
    [⟨.awaitingConfirmations 243, 50000⟩, ⟨.awaitingConfirmations 274, 3000⟩, ⟨.awaitingConfirmations 244, 2000⟩] := by decide
example : let l := run (close 100 demoItems) [.claim 2 101 1800, .claim 1 131 2700, .peerClaim 3 151, .block 300]
    balances l = [] ∧ allSettled l = true ∧ spendableTotal l = 54500 ∧ feesTotal l = 500 ∧ lostTotal l = 0 ∧ entitlement l = 55000 := by decide
example : confirmationThreshold 100 none = 105 ∧ confirmationThreshold 100 (some 144) = 243 ∧ confirmationThreshold 100 (some 3) = 105 := by decide
example : packageLocktime 500 [.counterpartyReceivedHTLCOutput 480, .counterpartyOfferedHTLCOutput 700] = 500 ∧
    packageLocktime 500 [.counterpartyReceivedHTLCOutput 520] = 520 ∧
    packageLocktime 500 [.holderHTLCOutput false 490] = 490 ∧ packageLocktime 500 [.holderHTLCOutput true 0] = 0 ∧
    packageLocktime 500 [.revokedOutput, .revokedHTLCOutput] = 500 := by decide
example : getHeightTimer 100 0 [.counterpartyOfferedHTLCOutput 102] = 101 ∧
    getHeightTimer 100 0 [.counterpartyReceivedHTLCOutput 60] = 103 ∧
    getHeightTimer 100 0 [.counterpartyReceivedHTLCOutput 90] = 115 ∧
    getHeightTimer 100 0 [.holderFundingOutput] = 101 := by decide
example : feerateBump 700 3000 546 2000 .forceBump 253 = some (1750, 2500) := by decide

end Ldk.C07
