/- C07 — After a unilateral close every entitled output is recovered, validly and in time.

   Property theorems only.  Models: Generated/Package.lean (fee-bump / bump-timer / locktime
   arithmetic TRANSLATED from chain/package.rs on every run), Generated/Timing.lean
   (`confirmationThreshold`, translated from OnchainEventEntry::confirmation_threshold),
   Model/OnchainClaims.lean (the entitlement ledger and its `Balance` view).
   Helper lemmas: Proofs/{Package,OnchainClaims}.lean.

   What is NOT formalised (validated by the c07close run: libbitcoinconsensus on every broadcast,
   finality at broadcast height, fee monotonicity of replacements, per-block comparison of the
   ledger's balances with `get_claimable_balances`): transaction construction, the
   OnchainTxHandler's package bookkeeping, anchor bumping with wallet inputs. -/
import LdkModel.Proofs.Package
import LdkModel.Proofs.OnchainClaims
import LdkModel.Proofs.ClaimTime
import LdkModel.Proofs.Packages
import LdkModel.Proofs.Sweeper
import LdkModel.Proofs.SweeperConfirm
import LdkModel.Proofs.HtlcBalance
namespace Ldk.C07
open Ldk Ldk.Pkg Ldk.Onchain

/-- **feerate_bump_monotone** — (as C06) whenever `feerate_bump` answers `(fee', rate')`: for every
    transaction weight `w ≥ 4` the feerate never decreases (tight: Props/C06.lean has the `w < 4`
    counter-example); for every weight the answer is either a plain
    re-broadcast at the previous feerate and fee, or a replacement paying at least the previous fee
    plus the relay increment (BIP-125 rules 3/4) that leaves at least dust to the output; a
    `ForceBump` of a feerate ≥ 4 sat/kW is always such a replacement. -/
theorem feerate_bump_monotone (w inp dust prev : Nat) (s : FeerateStrategy) (est fee' rate' : Nat)
    (h : feerateBump w inp dust prev s est = some (fee', rate')) :
    (4 ≤ w → prev ≤ rate') ∧
    ((rate' = prev ∧ fee' = prev * w / 1000) ∨
     (prev * w / 1000 + INCREMENTAL_RELAY_FEE_SAT_PER_1000_WEIGHT * w / 1000 ≤ fee' ∧ dust ≤ inp - fee')) ∧
    (s = .forceBump → 4 ≤ prev →
      prev * w / 1000 + INCREMENTAL_RELAY_FEE_SAT_PER_1000_WEIGHT * w / 1000 ≤ fee') :=
  feerate_bump_monotone_core w inp dust prev s est fee' rate' h

/-- **bump_progress** — the next bump height of ANY package at ANY height is strictly in the future
    and at most `LOW_FREQUENCY_BUMP_INTERVAL` away, and the nearer an input's deadline, the sooner:
    an HTLC claimed by preimage on the counterparty's commitment (`CounterpartyOfferedHTLCOutput`,
    deadline = its `cltv_expiry`) is re-bumped EVERY block once the expiry is within
    `MIDDLE_FREQUENCY_BUMP_INTERVAL`, and a timeout claim (`CounterpartyReceivedHTLCOutput` /
    holder HTLC-timeout, deadline = `cltv_expiry + MIN_CLTV_EXPIRY_DELTA`, the inbound edge's
    expiry) likewise. -/
theorem bump_progress (h csh : Nat) (inputs : List PkgInput) :
    h < getHeightTimer h csh inputs ∧
    getHeightTimer h csh inputs ≤ h + LOW_FREQUENCY_BUMP_INTERVAL ∧
    (∀ t t', t ≤ t' → timerForTargetConf h t ≤ timerForTargetConf h t') ∧
    (∀ c, .counterpartyOfferedHTLCOutput c ∈ inputs → c ≤ h + MIDDLE_FREQUENCY_BUMP_INTERVAL →
        getHeightTimer h csh inputs = h + HIGH_FREQUENCY_BUMP_INTERVAL) ∧
    (∀ c, (.counterpartyReceivedHTLCOutput c ∈ inputs ∨ .holderHTLCOutput false c ∈ inputs) →
        c + MIN_CLTV_EXPIRY_DELTA ≤ h + MIDDLE_FREQUENCY_BUMP_INTERVAL →
        getHeightTimer h csh inputs = h + HIGH_FREQUENCY_BUMP_INTERVAL) := by
  have hh : HIGH_FREQUENCY_BUMP_INTERVAL = 1 := rfl
  have hl : LOW_FREQUENCY_BUMP_INTERVAL = 15 := rfl
  have hm : MIDDLE_FREQUENCY_BUMP_INTERVAL = 3 := rfl
  have h0 : h < h + LOW_FREQUENCY_BUMP_INTERVAL ∧ h + LOW_FREQUENCY_BUMP_INTERVAL ≤ h + LOW_FREQUENCY_BUMP_INTERVAL := by omega
  obtain ⟨h1, h2, h3, _, _⟩ := bump_progress_core h csh inputs
  have key : ∀ (i : PkgInput) (t : Nat), i ∈ inputs →
      heightTimerStep h csh (h + LOW_FREQUENCY_BUMP_INTERVAL) i = Nat.min (h + LOW_FREQUENCY_BUMP_INTERVAL) (timerForTargetConf h t) →
      t ≤ h + MIDDLE_FREQUENCY_BUMP_INTERVAL → getHeightTimer h csh inputs = h + HIGH_FREQUENCY_BUMP_INTERVAL := by
    intro i t hi hstep ht
    have hle := foldl_heightTimerStep_le_of_mem h csh inputs _ i h0 hi
    rw [hstep] at hle
    have h4 := Nat.le_trans hle (Nat.min_le_right _ _)
    rcases timerForTargetConf_cases h t with ⟨_, e⟩ | ⟨a, _, _⟩ | ⟨a, _⟩
    · rw [e] at h4
      unfold getHeightTimer at *
      omega
    · omega
    · omega
  refine ⟨h1, h2, h3, ?_, ?_⟩
  · intro c hc hle
    exact key _ c hc rfl hle
  · intro c hc hle
    rcases hc with hc | hc
    · exact key _ (c + MIN_CLTV_EXPIRY_DELTA) hc rfl hle
    · exact key _ (c + MIN_CLTV_EXPIRY_DELTA) hc rfl hle

/-- **threshold_ge_anti_reorg** — an on-chain event confirmed at `height` is acted upon only at
    `≥ height + ANTI_REORG_DELAY − 1` (ANTI_REORG_DELAY confirmations), never before the event's own
    block, and — for a CSV-encumbered output — not before `height + csv − 1` (when the spend
    becomes final). -/
theorem threshold_ge_anti_reorg (height : Nat) (csv : Option Nat) :
    height + ANTI_REORG_DELAY ≤ confirmationThreshold height csv + 1 ∧
    height ≤ confirmationThreshold height csv ∧
    (∀ c, csv = some c → height + c ≤ confirmationThreshold height csv + 1) ∧
    (csv = none → confirmationThreshold height csv = height + ANTI_REORG_DELAY - 1) := by
  have ha : ANTI_REORG_DELAY = 6 := rfl
  unfold confirmationThreshold
  cases csv with
  | none =>
    simp only
    refine ⟨?_, ?_, ?_, ?_⟩
    · omega
    · omega
    · intro c hc; simp at hc
    · simp
  | some c =>
    simp only
    have e : Nat.max (height + ANTI_REORG_DELAY - 1) (height + c - 1) = max (height + ANTI_REORG_DELAY - 1) (height + c - 1) := rfl
    rw [e]
    refine ⟨by omega, by omega, ?_, by intro h; cases h⟩
    intro c' hc
    cases hc
    omega

/-- **ledger_conservation** — in EVERY ledger state reachable from a closure (any items, any
    sequence of blocks / own claims / counterparty claims, in any order, with any heights and fees):
    the owned part of the reported balances + the value already handed out as spendable outputs +
    the fees realised by buried claims + what finally went to the counterparty = the entitlement,
    and the entitlement is the one fixed at closure. -/
theorem ledger_conservation (height : Nat) (items : List Item) (ops : List Op) :
    let l := run (close height items) ops
    balanceTotal l + spendableTotal l + feesTotal l + lostTotal l = entitlement l ∧
    entitlement l = Onchain.sum (items.map Item.entitled) := by
  intro l
  constructor
  · exact conserved_of_ok l (run_ok _ ops (close_ok height items))
  · rw [entitlement_eq, run_items, close_items]

/-- **balances_drain** — for every ledger state `l` reachable from a closure: (i) once every item
    is buried (`Matured`, or `Gone` to the counterparty) no balance is reported any more and
    spendable = entitlement − fees − lost; (ii) if nothing is still pending, one sufficiently high
    block buries everything: the balances DO drain. -/
theorem balances_drain (height : Nat) (items : List Item) (ops : List Op) :
    let l := run (close height items) ops
    (allSettled l = true →
        balances l = [] ∧ spendableTotal l + feesTotal l + lostTotal l = entitlement l) ∧
    ((∀ e ∈ l.entries, e.stage ≠ .pending) →
        ∃ H, ∀ H', H ≤ H' → allSettled (step l (.block H')) = true) := by
  intro l
  have hok : ∀ e ∈ l.entries, e.ok := run_ok _ ops (close_ok height items)
  constructor
  · intro hs
    have hbal : balances l = [] := by
      unfold balances
      rw [List.filterMap_eq_nil_iff]
      intro e he
      unfold allSettled at hs
      rw [List.all_eq_true] at hs
      have := hs e he
      unfold Entry.balance
      split <;> simp_all
    refine ⟨hbal, ?_⟩
    have := conserved_of_ok l hok
    have h0 : balanceTotal l = 0 := by unfold balanceTotal; rw [hbal]; rfl
    omega
  · intro hp
    refine ⟨Onchain.sum (l.entries.map Entry.settleHeight), fun H' hH => ?_⟩
    simp only [step, allSettled, List.all_map, List.all_eq_true]
    intro e he
    have h1 := le_sum_of_mem l.entries Entry.settleHeight e he
    have h2 : H' ≤ Nat.max l.best H' := Nat.le_max_right _ _
    exact bury_settled _ e (hp e he) (by omega)

/-- **locktime_final** — for every package: (a) without a pre-signed input, the locktime is at
    least the current height and at least every input's CLTV requirement (so every
    `OP_CHECKLOCKTIMEVERIFY` is satisfied), and (b) when all requirements are `≤` the current
    height — the condition under which the OnchainTxHandler releases a package instead of parking
    it in `locktimed_packages` — it is EXACTLY the current height, i.e. the transaction is final in
    the next block; (c) a pre-signed holder HTLC-timeout claim carries exactly the HTLC's
    `cltv_expiry`, an HTLC-success claim locktime 0. -/
theorem locktime_final (h : Nat) (inputs : List PkgInput) :
    (pkgSignedLocktime inputs = none →
        h ≤ packageLocktime h inputs ∧
        (∀ i ∈ inputs, ∀ c, minimumLocktime i = some c → c ≤ packageLocktime h inputs) ∧
        ((∀ i ∈ inputs, ∀ c, minimumLocktime i = some c → c ≤ h) → packageLocktime h inputs = h)) ∧
    (∀ pre c rest, inputs = .holderHTLCOutput pre c :: rest → packageLocktime h inputs = c) := by
  constructor
  · intro hs
    have hpl : packageLocktime h inputs = Nat.max h ((listMax? (inputs.filterMap minimumLocktime)).getD 0) := by
      unfold packageLocktime
      simp only [hs]
    -- the fold of max dominates its start and every element
    have hfold : ∀ (xs : List Nat) (x : Nat), x ≤ xs.foldl Nat.max x ∧ (∀ y ∈ xs, y ≤ xs.foldl Nat.max x) ∧
        (∀ b, x ≤ b → (∀ y ∈ xs, y ≤ b) → xs.foldl Nat.max x ≤ b) := by
      intro xs
      induction xs with
      | nil => intro x; exact ⟨Nat.le_refl _, fun y hy => absurd hy List.not_mem_nil, fun b hb _ => hb⟩
      | cons z rest ih =>
        intro x
        simp only [List.foldl_cons]
        obtain ⟨i1, i2, i3⟩ := ih (Nat.max x z)
        refine ⟨Nat.le_trans (Nat.le_max_left x z) i1, ?_, ?_⟩
        · intro y hy
          rcases List.mem_cons.mp hy with rfl | hy'
          · exact Nat.le_trans (Nat.le_max_right x y) i1
          · exact i2 y hy'
        · intro b hb hall
          exact i3 b (Nat.max_le.2 ⟨hb, hall z List.mem_cons_self⟩) (fun y hy => hall y (List.mem_cons_of_mem _ hy))
    have hmax : ∀ c ∈ inputs.filterMap minimumLocktime, c ≤ (listMax? (inputs.filterMap minimumLocktime)).getD 0 := by
      intro c hc
      cases hl : inputs.filterMap minimumLocktime with
      | nil => rw [hl] at hc; cases hc
      | cons x xs =>
        rw [hl] at hc
        simp only [listMax?, Option.getD_some]
        rcases List.mem_cons.mp hc with rfl | hc'
        · exact (hfold xs c).1
        · exact (hfold xs x).2.1 c hc'
    refine ⟨by rw [hpl]; exact Nat.le_max_left _ _, ?_, ?_⟩
    · intro i hi c hc
      rw [hpl]
      exact Nat.le_trans (hmax c (List.mem_filterMap.2 ⟨i, hi, hc⟩)) (Nat.le_max_right _ _)
    · intro hall
      rw [hpl]
      have : (listMax? (inputs.filterMap minimumLocktime)).getD 0 ≤ h := by
        cases hl : inputs.filterMap minimumLocktime with
        | nil => simp [listMax?]
        | cons x xs =>
          simp only [listMax?, Option.getD_some]
          have hmem : ∀ y ∈ x :: xs, y ≤ h := by
            intro y hy
            rw [← hl] at hy
            obtain ⟨i, hi, hc⟩ := List.mem_filterMap.1 hy
            exact hall i hi y hc
          exact (hfold xs x).2.2 h (hmem x List.mem_cons_self) (fun y hy => hmem y (List.mem_cons_of_mem _ hy))
      exact Nat.max_eq_left this
  · intro pre c rest hi
    subst hi
    simp [packageLocktime, pkgSignedLocktime, signedLocktime]

/-! ### Non-vacuity (sanity runs of the executable model, not the claim) -/

-- a holder close at height 100 (csv 144): own balance 50 000, an outbound HTLC 3 000 expiring at
-- 130, an inbound HTLC 2 000 with known preimage expiring at 140, an inbound one without preimage
def demoItems : List Item :=
  [⟨.toSelf, 50000, 0, 0, some 144⟩, ⟨.outboundHtlc, 3000, 130, 0, some 144⟩,
   ⟨.inboundHtlcPreimage, 2000, 0, 140, some 144⟩, ⟨.inboundHtlcUnknown, 1000, 0, 150, none⟩]

example : balances (close 100 demoItems) =
    [⟨.awaitingConfirmations 243, 50000⟩, ⟨.maybeTimeout 130, 3000⟩, ⟨.contentious 140, 2000⟩, ⟨.maybePreimage 150, 1000⟩] := by decide
example : balances (run (close 100 demoItems) [.claim 2 101 1800, .block 101, .claim 1 131 2700, .peerClaim 3 151, .block 156]) =
    [⟨.awaitingConfirmations 243, 50000⟩, ⟨.awaitingConfirmations 274, 3000⟩, ⟨.awaitingConfirmations 244, 2000⟩] := by decide
example : let l := run (close 100 demoItems) [.claim 2 101 1800, .claim 1 131 2700, .peerClaim 3 151, .block 300]
    balances l = [] ∧ allSettled l = true ∧ spendableTotal l = 54500 ∧ feesTotal l = 500 ∧ lostTotal l = 0 ∧ entitlement l = 55000 := by decide
example : confirmationThreshold 100 none = 105 ∧ confirmationThreshold 100 (some 144) = 243 ∧ confirmationThreshold 100 (some 3) = 105 := by decide
example : packageLocktime 500 [.counterpartyReceivedHTLCOutput 480, .counterpartyOfferedHTLCOutput 700] = 500 ∧
    packageLocktime 500 [.counterpartyReceivedHTLCOutput 520] = 520 ∧
    packageLocktime 500 [.holderHTLCOutput false 490] = 490 ∧ packageLocktime 500 [.holderHTLCOutput true 0] = 0 ∧
    packageLocktime 500 [.revokedOutput, .revokedHTLCOutput] = 500 := by decide
example : getHeightTimer 100 0 [.counterpartyOfferedHTLCOutput 102] = 101 ∧
    getHeightTimer 100 0 [.counterpartyReceivedHTLCOutput 60] = 103 ∧
    getHeightTimer 100 0 [.counterpartyReceivedHTLCOutput 90] = 115 ∧
    getHeightTimer 100 0 [.holderFundingOutput] = 101 := by decide
example : feerateBump 700 3000 546 2000 .forceBump 253 = some (1750, 2500) := by decide

/-! ### Fees are raised monotonically, whatever the fee estimator answers

    `computePackageFeerate` / `computePackageOutput` are TRANSLATED from
    `PackageTemplate::compute_package_feerate` / `compute_package_output` on every run. -/

/-- **package_feerate_monotone** — the target feerate `compute_package_feerate` hands to the
    `BumpTransactionEvent` consumer (anchor channels: commitment bump, holder HTLC claims), for EVERY
    stored previous feerate, EVERY strategy and EVERY estimator answer:
    (a) is never below the previous one (`feerate_previous` is a u64 that is read saturating into a
        u32 — for a previous feerate that is a u32, as every feerate this function ever answered is,
        that is `prev ≤ result`);
    (b) on the first issue (`prev = 0`) it is the floor-bounded estimate;
    (c) `RetryPrevious` keeps the previous feerate, `HighestOfPreviousOrNew` is the maximum of it and
        the bounded estimate;
    (d) it never exceeds `max(prev, 5 × bounded estimate)`, never falls below the feerate floor once the
        previous one was above it, and stays a u32 as long as `5 × estimate` does. -/
theorem package_feerate_monotone (prev : Nat) (s : FeerateStrategy) (est : Nat) :
    Nat.min prev U32_MAX ≤ computePackageFeerate prev s est ∧
    (prev ≤ U32_MAX → prev ≤ computePackageFeerate prev s est) ∧
    (prev = 0 → computePackageFeerate prev s est = boundedSatPer1000Weight est) ∧
    (prev ≠ 0 → computePackageFeerate prev .retryPrevious est = Nat.min prev U32_MAX ∧
        computePackageFeerate prev .highestOfPreviousOrNew est = Nat.max (Nat.min prev U32_MAX) (boundedSatPer1000Weight est)) ∧
    computePackageFeerate prev s est ≤ Nat.max (Nat.min prev U32_MAX) (5 * boundedSatPer1000Weight est) ∧
    ((prev = 0 ∨ FEERATE_FLOOR_SATS_PER_KW ≤ prev) → FEERATE_FLOOR_SATS_PER_KW ≤ computePackageFeerate prev s est) ∧
    (5 * boundedSatPer1000Weight est ≤ U32_MAX → computePackageFeerate prev s est ≤ U32_MAX) := by
  have hge := computePackageFeerate_ge prev s est
  refine ⟨hge, ?_, ?_, ?_, computePackageFeerate_le prev s est, computePackageFeerate_floor prev s est,
    computePackageFeerate_in_range prev s est⟩
  · intro hp
    rw [pf_nat_min_eq] at hge
    omega
  · intro hp
    subst hp
    exact computePackageFeerate_first s est
  · intro hp
    exact ⟨computePackageFeerate_retry prev est hp, computePackageFeerate_highest prev est hp⟩

example : computePackageFeerate 0 .forceBump 100 = 253 ∧ computePackageFeerate 0 .retryPrevious 5000 = 5000 ∧
    computePackageFeerate 2000 .retryPrevious 9000 = 2000 ∧ computePackageFeerate 2000 .highestOfPreviousOrNew 9000 = 9000 ∧
    computePackageFeerate 2000 .highestOfPreviousOrNew 300 = 2000 := by decide

/-- **force_bump_raises_unless_capped** — a timer-driven `ForceBump` of a claim issued before at a
    (u32) feerate `prev` STRICTLY raises the target, except when the cap applies: the estimator now
    answers at most a fifth of what was already paid (`5 × bounded estimate ≤ prev`) — then the
    previous feerate is KEPT, the cap never pushes the target below it — or `prev` is already
    `u32::MAX`.  Exactly: a higher estimate is followed; otherwise 25 % are added (saturating)
    whenever that stays within 5 × the estimate. -/
theorem force_bump_raises_unless_capped (prev est : Nat) (hp : prev ≠ 0) (hu : prev ≤ U32_MAX) :
    (prev < computePackageFeerate prev .forceBump est ∨
      (computePackageFeerate prev .forceBump est = prev ∧ (5 * boundedSatPer1000Weight est ≤ prev ∨ prev = U32_MAX))) ∧
    (prev < boundedSatPer1000Weight est → computePackageFeerate prev .forceBump est = boundedSatPer1000Weight est) ∧
    (boundedSatPer1000Weight est ≤ prev → satAdd32 prev (prev / 4) ≤ 5 * boundedSatPer1000Weight est →
        computePackageFeerate prev .forceBump est = satAdd32 prev (prev / 4)) := by
  refine ⟨computePackageFeerate_force prev est hp hu, ?_, computePackageFeerate_force_uncapped prev est hp hu⟩
  intro h
  apply computePackageFeerate_force_est prev est hp
  rw [pf_nat_min_eq]
  omega

-- the estimator collapses from 2000 to the floor: the target stays at 2000 (capped, not lowered); a
-- merely lower estimate: +25 %; a cap that still leaves room: 5 × estimate
example : computePackageFeerate 2000 .forceBump 253 = 2000 ∧ computePackageFeerate 2000 .forceBump 1000 = 2500 ∧
    computePackageFeerate 2000 .forceBump 450 = 2250 ∧ computePackageFeerate 2000 .forceBump 3000 = 3000 ∧
    computePackageFeerate 1264 .forceBump 253 = 1265 ∧ computePackageFeerate 1265 .forceBump 253 = 1265 := by decide

/-- **package_feerate_trajectory_monotone** — composition over ANY fee-estimator trajectory: whatever
    the estimator answers at each (re-)issue of an externally funded claim and whichever strategy each
    call uses (any list, any length), the successive target feerates are non-decreasing, none is below
    the feerate the claim started with, and — started from a claim never issued before — none is below
    the feerate floor.  Range hypothesis (where the Nat rendering of the u32 arithmetic is exact):
    every estimate leaves `feerate_estimate * 5` inside a u32, i.e. is ≤ 858 993 459 sat/kW. -/
theorem package_feerate_trajectory_monotone (prev : Nat) (steps : List (FeerateStrategy × Nat))
    (hp : prev ≤ U32_MAX) (hr : ∀ p ∈ steps, 5 * boundedSatPer1000Weight p.2 ≤ U32_MAX) :
    (extTargets prev steps).Pairwise (· ≤ ·) ∧
    (∀ t ∈ extTargets prev steps, prev ≤ t ∧ t ≤ U32_MAX) ∧
    (prev = 0 → ∀ t ∈ extTargets prev steps, FEERATE_FLOOR_SATS_PER_KW ≤ t) := by
  refine ⟨extTargets_pairwise steps prev hp hr, extTargets_ge steps prev hp hr, ?_⟩
  intro h0 t ht
  subst h0
  cases steps with
  | nil => cases ht
  | cons p rest =>
    obtain ⟨s, est⟩ := p
    have hfirst : FEERATE_FLOOR_SATS_PER_KW ≤ computePackageFeerate 0 s est :=
      computePackageFeerate_floor 0 s est (Or.inl rfl)
    have hin := computePackageFeerate_in_range 0 s est (hr (s, est) List.mem_cons_self)
    simp only [extTargets, List.mem_cons] at ht
    rcases ht with rfl | ht
    · exact hfirst
    · exact Nat.le_trans hfirst (extTargets_ge rest _ hin (fun q hq => hr q (List.mem_cons_of_mem _ hq)) t ht).1

-- falling, oscillating and rising estimators
example : extTargets 0 [(.forceBump, 2000), (.forceBump, 253), (.forceBump, 253), (.highestOfPreviousOrNew, 100), (.forceBump, 500), (.retryPrevious, 9), (.forceBump, 10000)] =
    [2000, 2000, 2000, 2000, 2500, 2500, 10000] := by decide

/-- **package_output_sound** — what `compute_package_output` answers for a self-funded claim: the
    output is at least the dust limit and at most `max(inputs, dust)`; the feerate reaches the floor on
    the first issue and (weight ≥ 4) is never below the previous one afterwards; the answer is
    `feerate_bump`'s resp. `compute_fee_from_spent_amounts`' with the output clamped. -/
theorem package_output_sound (amt w dust prev : Nat) (s : FeerateStrategy) (est out rate : Nat)
    (h : computePackageOutput amt w dust prev s est = some (out, rate)) :
    dust ≤ out ∧ out ≤ Nat.max amt dust ∧
    (prev = 0 → FEERATE_FLOOR_SATS_PER_KW ≤ rate) ∧
    (4 ≤ w → prev ≤ rate) ∧
    (∃ fee, out = Nat.max (amt - fee) dust ∧
      ((prev ≠ 0 ∧ feerateBump w amt dust prev s est = some (fee, rate)) ∨
       (prev = 0 ∧ computeFeeFromSpentAmounts amt w est = some (fee, rate)))) := by
  obtain ⟨fee, ho, hc⟩ := computePackageOutput_some h
  have hmax : out = max (amt - fee) dust := ho
  have hmax2 : Nat.max amt dust = max amt dust := rfl
  refine ⟨by omega, by omega, ?_, ?_, ⟨fee, ho, hc⟩⟩
  · intro h0
    rcases hc with ⟨hp, _⟩ | ⟨_, hb⟩
    · exact absurd h0 hp
    · exact (computeFee_some hb).2.2
  · intro hw
    rcases ownStep_ge hw h with hh | hh <;> exact hh.1

example : computePackageOutput 100000 700 546 0 .forceBump 2000 = some (98600, 2000) ∧
    computePackageOutput 100000 700 546 2000 .forceBump 253 = some (98250, 2500) ∧
    computePackageOutput 1000 700 546 0 .forceBump 253 = some (823, 253) ∧
    computePackageOutput 600 700 546 0 .forceBump 2000 = some (546, 428) := by decide

/-- **own_feerate_trajectory_monotone** — the same composition for a self-funded claim: over ANY list
    of re-issues (estimator answer, strategy, and — packages get split and merged — amount, predicted
    weight ≥ 4 and dust limit free at every step) the feerates of the transactions actually issued are
    non-decreasing and never below the feerate stored at the start. -/
theorem own_feerate_trajectory_monotone (prev : Nat) (rs : List Reissue) (hw : ∀ r ∈ rs, 4 ≤ r.weight) :
    (ownFeerates prev rs).Pairwise (· ≤ ·) ∧ ∀ t ∈ ownFeerates prev rs, prev ≤ t :=
  ⟨ownFeerates_pairwise rs prev hw, ownFeerates_ge rs prev hw⟩

example : ownFeerates 0 [⟨100000, 700, 546, .forceBump, 2000⟩, ⟨100000, 700, 546, .forceBump, 253⟩,
    ⟨600, 700, 546, .forceBump, 253⟩, ⟨100000, 650, 546, .highestOfPreviousOrNew, 253⟩, ⟨100000, 650, 546, .forceBump, 9000⟩] =
    [2000, 2500, 2500, 9000] := by decide

/-- **rebroadcast_fee_slack** — the satoshi-level exception to "fees only go up" (known finding
    KF-C07-1): a plain re-broadcast (`RetryPrevious`; likewise `HighestOfPreviousOrNew` under a
    non-higher estimate) of a self-funded claim last issued by `feerate_bump` with fee `F` and stored
    feerate `r` keeps `r` but pays the fee RECOMPUTED from `r`, which was stored rounded down:
    `F' = r·w/1000 ≤ F`, and the loss is bounded, `F ≤ F' + w/1000 + 1`.  (The re-issued transaction is
    not an RBF replacement of the earlier one, which stays in the mempools.) -/
theorem rebroadcast_fee_slack (w inp dust prev : Nat) (s : FeerateStrategy) (est est' F r F' r' : Nat) (hw : 0 < w)
    (h : feerateBump w inp dust prev s est = some (F, r))
    (h' : feerateBump w inp dust r .retryPrevious est' = some (F', r')) :
    r' = r ∧ F' = r * w / 1000 ∧ F' ≤ F ∧ F ≤ F' + w / 1000 + 1 :=
  retry_after_bump hw h h'

-- the concrete input of KF-C07-1: bumped to 65 788 sat (stored 28 405 sat/kW), re-broadcast with 65 785 sat
example : feerateBump 2316 888716 330 22725 .forceBump 655 = some (65788, 28405) ∧
    feerateBump 2316 888716 330 28405 .retryPrevious 648 = some (65785, 28405) := by decide

/-! ### Outputs mature into SpendableOutputs that the node's keys can actually spend — with DIFFERENT per-side delays

    Every selector below (`monDelaysOfChannel`, `contestDelay`, `builtToLocalScriptCsv`,
    `builtHtlcTxOutputScriptCsv`, `monitorHolderScriptCsv`, `delayedDescriptorToSelfDelay`,
    `fundingSpendLocalCsv`, `htlcSpendToLocalCsv`, `descriptorSpendSequence`,
    `descriptorWitnessScriptCsv`, `descriptorFor`) is TRANSLATED from the Rust text on every run
    (tools/gen_maturity.py → Generated/Maturity.lean). -/
open Ldk.Maturity

/-- **descriptor_matches_script** — for ALL pairs of `to_self_delay`s the two peers may have chosen
    (`hs` = the node's own, `cs` = the counterparty's): the CSV that chan_utils.rs builds into the
    node's `to_local` output and into the outputs of its second-stage HTLC transactions is the delay
    the COUNTERPARTY chose, and it is the same number
    (a) in the script the monitor looks for (`broadcasted_holder_revokable_script`),
    (b) in the `DelayedPaymentOutputDescriptor::to_self_delay` it hands out in `SpendableOutputs`,
    (c) in the witness script and the nSequence with which sign/mod.rs spends that descriptor — so the
        spend reveals the script the output commits to and satisfies its `OP_CSV`,
    (d) in the csv of the `FundingSpendConfirmation` / `HTLCSpendConfirmation` events that time the
        reported balances. -/
theorem descriptor_matches_script (hs cs : Nat) :
    let m := monDelaysOfChannel hs cs
    let script := builtToLocalScriptCsv (contestDelay true hs cs)
    script = cs ∧ builtHtlcTxOutputScriptCsv (contestDelay true hs cs) = script ∧
    monitorHolderScriptCsv m = script ∧
    delayedDescriptorToSelfDelay m = script ∧
    descriptorWitnessScriptCsv (delayedDescriptorToSelfDelay m) = script ∧
    descriptorSpendSequence (delayedDescriptorToSelfDelay m) = script ∧
    fundingSpendLocalCsv m = some script ∧
    htlcSpendToLocalCsv m true false = some script ∧
    -- and the delay the node imposes on the counterparty is the node's own choice
    m.on_counterparty_tx_csv = contestDelay false hs cs ∧ contestDelay false hs cs = hs := by
  refine ⟨rfl, rfl, rfl, rfl, rfl, rfl, rfl, rfl, rfl, rfl⟩

example : delayedDescriptorToSelfDelay (monDelaysOfChannel 720 432) = 432 ∧
    monitorHolderScriptCsv (monDelaysOfChannel 720 432) = 432 ∧ (monDelaysOfChannel 720 432).on_counterparty_tx_csv = 720 := by decide

/-- **htlc_direction_sites_agree** — whose HTLC an output is ("outbound" = the node offered it) is derived at four places from the
    `$holder_tx` / `holder_commitment` flag of the commitment and `htlc.offered`: should_broadcast_holder_commitment_txn (translated by
    gen_timing.py `scanHtlcOutbound`), is_resolving_htlc_output twice (`resolvingHtlcOutbound`, the two copies must be textually the same
    operator) and get_htlc_balance (`balanceHtlcOutbound`). For all flag values the four agree, and an HTLC is outbound exactly when it is
    offered on the holder's commitment or received on the counterparty's; the holder-commitment scans of is_resolving_htlc_output (latest AND
    previous holder commitment) run with `holder_tx = true`, the counterparty scan with `false`. -/
theorem htlc_direction_sites_agree (holder_tx offered : Bool) :
    resolvingHtlcOutbound holder_tx offered = scanHtlcOutbound holder_tx offered ∧
    balanceHtlcOutbound holder_tx offered = scanHtlcOutbound holder_tx offered ∧
    (resolvingHtlcOutbound holder_tx offered = true ↔ holder_tx = offered) ∧
    resolvingScanHolderTx = [true, true, false] := by
  cases holder_tx <;> cases offered <;> decide

example : resolvingHtlcOutbound true false = false ∧ resolvingHtlcOutbound false false = true := by decide

/-- **htlc_success_spend_waits_for_csv** — for ALL pairs of delays: when the node's HTLC-success transaction (accepted_preimage_claim) for
    an INBOUND HTLC of its own commitment confirms (latest or previous holder commitment: `holder_tx = true`, the HTLC is not offered), the
    HTLCSpendConfirmation carries the CSV that is really in the HTLC transaction's output script (the counterparty's choice), so the
    balance stays reported until the output is spendable; a counterparty's preimage claim of the node's OUTBOUND HTLC (on either side's
    commitment) and every timeout claim carry none; and the entry records the preimage exactly for the two preimage claim types.
    `itemCsv` of the ledger (Model/CloseCfg.lean) is this composition. -/
theorem htlc_success_spend_waits_for_csv (hs cs : Nat) :
    let m := monDelaysOfChannel hs cs
    htlcSpendToLocalCsv m true (resolvingHtlcOutbound true false) = some (builtHtlcTxOutputScriptCsv (contestDelay true hs cs)) ∧
    htlcSpendToLocalCsv m true (resolvingHtlcOutbound false false) = none ∧
    (∀ outbound, htlcSpendToLocalCsv m false outbound = none) ∧
    (∀ c : CloseCfg, itemCsv c .inboundHtlcPreimage = if c.holderClose then some c.delays.on_holder_tx_csv else none) ∧
    (∀ a o, htlcSpendRecordsPreimage a o = (a || o)) := by
  refine ⟨rfl, rfl, fun o => by cases o <;> rfl, ?_, fun a o => rfl⟩
  intro c
  cases hc : c.holderClose <;> simp [itemCsv, hc, htlcSpendToLocalCsv, resolvingHtlcOutbound]

example : htlcSpendToLocalCsv (monDelaysOfChannel 720 432) true (resolvingHtlcOutbound true false) = some 432 := by decide

/-- **htlc_balance_one_class_counted_iff_winnable** — the classification chain of get_htlc_balance, TRANSLATED arm by arm
    (tools/gen_htlc_balance.py), on a non-revoked commitment with no delayed output of the HTLC pending, for ALL values of the flags, pending
    thresholds and the expiry: every UNRESOLVED HTLC output is reported under exactly one class (`htlcBalance` is a function, and it answers);
    an HTLC the node offered (`offered == holder_commitment`) is `ClaimableAwaitingConfirmations` at the threshold of its confirmed timeout
    spend, else `MaybeTimeoutClaimableHTLC` at its expiry; an inbound HTLC whose preimage the node knows is
    `ClaimableAwaitingConfirmations` exactly when a PREIMAGE spend is pending (flag `true`), else `ContentiousClaimable` (also while the
    counterparty's timeout spend is unburied); without the preimage it is `MaybePreimageClaimableHTLC`; and the class is NOT counted in the
    node's total exactly for an inbound HTLC without preimage — the only case in which the node cannot win the output. A delayed output
    pending (`holder_delayed_output_pending`) overrides everything with its own threshold. -/
theorem htlc_balance_one_class_counted_iff_winnable (res osp off hold pre : Bool) (tsp : Option Nat) (sp : Option (Nat × Bool)) (cltv : Nat) :
    let r := HtlcBalance.htlcBalance none res osp false off hold tsp pre sp cltv
    (res = false → r.isSome = true) ∧
    ((off == hold) = true → ¬(res = true ∧ osp = false) → r = some (match tsp with | some t => .awaiting t | none => .maybeTimeout cltv)) ∧
    ((off == hold) = false → pre = true → ¬(res = true ∧ osp = false) →
      r = some (match sp with | some (t, true) => .awaiting t | _ => .contentious cltv)) ∧
    ((off == hold) = false → pre = false → res = false → r = some (.maybePreimage cltv)) ∧
    (∀ c, r = some c → (c.counted = false ↔ ((off == hold) = false ∧ pre = false))) ∧
    (∀ t, HtlcBalance.htlcBalance (some t) res osp false off hold tsp pre sp cltv = some (.awaiting t)) := by
  cases res <;> cases osp <;> cases off <;> cases hold <;> cases pre <;> cases tsp <;>
    rcases sp with _ | ⟨t, _ | _⟩ <;>
    simp [HtlcBalance.htlcBalance, HtlcBalance.Cls.counted]

example : HtlcBalance.htlcBalance none false false false false true none true (some (120, false)) 100 = some (.contentious 100) ∧
    HtlcBalance.htlcBalance none false false false false true none true (some (120, true)) 100 = some (.awaiting 120) ∧
    HtlcBalance.htlcBalance none true false false true true none false none 100 = none := by decide

/-- **pending_class_is_translated_table** — the class under which the ledger (`Item.pendingClass`, what `balances` and the c07close
    comparison print) reports an unspent HTLC output, and the one it keeps while the counterparty's spend is unburied, IS the
    translated chain evaluated at that item's flags (nothing pending / a counterparty spend pending, not resolved, not revoked), for
    every item; and the ledger counts a balance (`Bal.owned`) exactly when the translated variant is counted. -/
theorem pending_class_is_translated_table (i : Item) (hk : i.kind ≠ .toSelf) (sp : Option Nat) :
    (HtlcBalance.htlcBalance none false false false (decide (i.kind = .outboundHtlc)) true none (decide (i.kind = .inboundHtlcPreimage))
        (sp.map fun t => (t, false)) i.cltv).bind clsOf = some i.pendingClass ∧
    ∀ c, clsOf c = some i.pendingClass → ∀ sat, (Bal.owned ⟨i.pendingClass, sat⟩ = 0 ↔ (c.counted = false ∨ sat = 0)) := by
  constructor
  · cases hkind : i.kind <;> cases sp <;> simp_all [HtlcBalance.htlcBalance, clsOf, Item.pendingClass, Item.cltv]
  · intro c hc sat
    cases c <;> simp [clsOf] at hc <;> simp [← hc, Bal.owned, HtlcBalance.Cls.counted]

example : (HtlcBalance.htlcBalance none false false false false true none true none ({ kind := .inboundHtlcPreimage, sat := 5000, claimableFrom := 0, contestedFrom := 140, csv := none } : Item).cltv).bind clsOf
    = some (.contentious 140) := by decide

/-- **descriptor_kind_table** — which kind of descriptor `get_spendable_outputs` produces for which of
    the node's scripts: only the holder's revokeable script yields a CSV-delayed descriptor, the
    counterparty-commitment `to_remote` a static-payment one, the sweep destination / shutdown script
    a plain static one; and exactly one descriptor each. -/
theorem descriptor_kind_table :
    descriptorFor .holderRevokeable = [.delayedPayment] ∧ descriptorFor .counterpartyPayment = [.staticPayment] ∧
    descriptorFor .destination = [.staticOutput] ∧ descriptorFor .shutdown = [.staticOutput] := by
  refine ⟨rfl, rfl, rfl, rfl⟩

/-- **item_csv_is_script_csv** — for every closure configuration and item kind, the csv the
    monitor's bookkeeping uses is the CSV really in the script of the output that pays the node. -/
theorem item_csv_is_script_csv (c : CloseCfg) (k : Kind) : itemCsv c k = scriptCsv c k := by
  cases k <;> cases hc : c.holderClose <;> simp [itemCsv, scriptCsv, hc] <;> rfl

/-- **spendable_exactly_when_final** — in EVERY ledger state reachable from a closure with ANY
    per-side delays (any items, any ops): an output whose claim confirmed at height `h` is handed to
    the user (`SpendableOutputs`; it leaves the balances) by the block at height `best` EXACTLY when
    it is buried by ANTI_REORG_DELAY confirmations and — if its script carries a CSV `d` — a spend with
    nSequence `d` is BIP-68-final in the next block (`h + d ≤ best + 1`): never earlier (it could not
    be spent), never later. -/
theorem spendable_exactly_when_final (c : CloseCfg) (height : Nat) (items : List Item) (ops : List Op) :
    let l := run (closeWith c height items) ops
    ∀ e ∈ l.entries, ∀ h net best, e.stage = .claimed h net →
      ((e.bury best).stage = .matured net ↔
        (h + ANTI_REORG_DELAY ≤ best + 1 ∧ ∀ d, scriptCsv c e.item.kind = some d → h + d ≤ best + 1)) := by
  intro l e he h net best hs
  have hcsv := run_closeWith_csv c height items ops e he
  rw [bury_claimed_iff best h net e hs, hcsv, item_csv_is_script_csv]

-- Alice (our_to_self_delay 720) closes on Bob (432): her balance confirmed at 100 is spendable from
-- the block at height 100 + 432 − 1, not one block earlier; closed on BY Bob: after 6 confirmations
example : let l := closeWith ⟨true, 720, 432, false⟩ 100 [⟨.toSelf, 50000, 0, 0, none⟩]
    balances l = [⟨.awaitingConfirmations 531, 50000⟩] ∧
    spendableTotal (step l (.block 530)) = 0 ∧ spendableTotal (step l (.block 531)) = 50000 := by decide
example : let l := closeWith ⟨false, 720, 432, false⟩ 100 [⟨.toSelf, 50000, 0, 0, none⟩]
    balances l = [⟨.awaitingConfirmations 105, 50000⟩] ∧ spendableTotal (step l (.block 105)) = 50000 := by decide

/-! ### A preimage learned AFTER the commitment confirmed claims EVERY output with that hash

    `counterpartyPreimageIter`, `counterpartyPreimageMatches`, `holderPreimageIter`,
    `holderClaimIncluded` are TRANSLATED from provide_payment_preimage's scans on every run
    (tools/gen_preimage_claims.py → Generated/PreimageClaims.lean). -/
open Ldk.PreimageClaims

/-- **late_preimage_claims_every_match** — for EVERY ledger (any entries, any hash list — hashes may
    repeat: parts of one multi-part payment over the channel, a reused hash), whichever side's
    commitment closed the channel: once the preimage of hash `m` is provided, EVERY still-unspent
    inbound HTLC output carrying hash `m` — not only the first one in the commitment's HTLC list —
    is claimable by the node (a claim package is pending) and is reported `ContentiousClaimable`.  "Whichever side's
    commitment" includes the counterparty's PREVIOUS, not yet revoked commitment (`hl.cfg.counterpartyPrev`): the proof reads
    the translated `counterpartyScanOnPrevious` / `counterpartyScanOnCurrent` / `holderScanRuns`. -/
theorem late_preimage_claims_every_match (hl : HLedger) (m i : Nat) (e : Entry)
    (he : hl.ledger.entries[i]? = some e) (hh : hl.hashes[i]? = some m)
    (hin : e.item.inbound = true) (hs : e.stage = .pending) :
    ∃ e', (hl.provide m).ledger.entries[i]? = some e' ∧ e'.item.kind = .inboundHtlcPreimage ∧
      e'.stage = .pending ∧ e'.balance = some ⟨.contentious e.item.contestedFrom, e.item.sat⟩ := by
  have hz : (hl.ledger.entries.zip hl.hashes)[i]? = some (e, m) := by
    rw [List.getElem?_zip_eq_some]; exact ⟨he, hh⟩
  have hacc : preimageScanAccepts hl.cfg m (e, m) = true := by
    unfold preimageScanAccepts
    simp only [hin, Bool.true_and]
    cases hl.cfg.holderClose <;> simp [holderClaimIncluded, counterpartyPreimageMatches]
  have hsel : (hl.sel m).contains i = true := by
    have hmode : (if hl.cfg.holderClose then holderPreimageIter else counterpartyPreimageIter) = IterMode.all := by
      cases hl.cfg.holderClose <;> rfl
    have hruns : hl.cfg.scanRuns = true := by
      unfold CloseCfg.scanRuns
      cases hl.cfg.holderClose <;> cases hl.cfg.counterpartyPrev <;> rfl
    unfold HLedger.sel
    rw [hruns, if_pos rfl, hmode]
    exact selectIdx_all _ _ i (e, m) hz hacc
  refine ⟨e.learn hl.cfg, ?_, learn_kind hl.cfg e hs hin, ?_, ?_⟩
  · rw [provide_getElem?, he]
    simp only [Option.map_some, hsel, if_true]
  · rw [(learn_item_sat hl.cfg e).2, hs]
  · have hk := learn_kind hl.cfg e hs hin
    have hst : (e.learn hl.cfg).stage = .pending := by rw [(learn_item_sat hl.cfg e).2, hs]
    have hsat := (learn_item_sat hl.cfg e).1
    have hcf : (e.learn hl.cfg).item.contestedFrom = e.item.contestedFrom := by
      unfold Entry.learn; rw [hs]; simp only; split <;> rfl
    unfold Entry.balance
    rw [hst]
    simp only [Item.pendingClass, hk, hsat, hcf]

-- three inbound parts with hash 7 and one HTLC with hash 9, preimages unknown at the counterparty's close:
-- providing 7 makes all three parts claimable, 9 stays a MaybePreimageClaimableHTLC
example : let hl := hclose ⟨false, 720, 432, false⟩ 100 [(⟨.toSelf, 50000, 0, 0, none⟩, 0), (⟨.inboundHtlcUnknown, 1000, 0, 150, none⟩, 7),
      (⟨.inboundHtlcUnknown, 2000, 0, 150, none⟩, 9), (⟨.inboundHtlcUnknown, 3000, 0, 150, none⟩, 7), (⟨.inboundHtlcUnknown, 4000, 0, 151, none⟩, 7)]
    balances (hl.provide 7).ledger = [⟨.awaitingConfirmations 105, 50000⟩, ⟨.contentious 150, 1000⟩, ⟨.maybePreimage 150, 2000⟩,
      ⟨.contentious 150, 3000⟩, ⟨.contentious 151, 4000⟩] ∧
    entitlement hl.ledger = 50000 ∧ entitlement (hl.provide 7).ledger = 58000 := by decide

/-- **spendable_exactly_when_final_late** — `spendable_exactly_when_final` also holds when preimages
    arrive after the closure (any interleaving of blocks, claims, counterparty claims and late
    preimages): an output made claimable by a late preimage is handed out exactly when it is buried
    and a spend with ITS script's CSV is final. -/
theorem spendable_exactly_when_final_late (c : CloseCfg) (height : Nat) (items : List (Item × Nat)) (ops : List HOp) :
    let hl := (hclose c height items).run ops
    ∀ e ∈ hl.ledger.entries, ∀ h net best, e.stage = .claimed h net →
      ((e.bury best).stage = .matured net ↔
        (h + ANTI_REORG_DELAY ≤ best + 1 ∧ ∀ d, scriptCsv c e.item.kind = some d → h + d ≤ best + 1)) := by
  intro hl e he h net best hs
  have hcsv := hrun_csvOk ops _ (hclose_csvOk c height items) e he
  have hcfg : hl.cfg = c := hrun_cfg ops _
  rw [hcfg] at hcsv
  rw [bury_claimed_iff best h net e hs, hcsv, item_csv_is_script_csv]

/-- **late_preimage_conservation** — in every state reachable from a closure by blocks, claims,
    counterparty claims AND late preimages (any order, any hashes): reported + spendable + fees + lost
    = the entitlement (which grows by every output a late preimage makes claimable), and once
    everything is buried the drained total (spendable + fees + lost) EQUALS that entitlement. -/
theorem late_preimage_conservation (c : CloseCfg) (height : Nat) (items : List (Item × Nat)) (ops : List HOp) :
    let l := ((hclose c height items).run ops).ledger
    balanceTotal l + spendableTotal l + feesTotal l + lostTotal l = entitlement l ∧
    (allSettled l = true → balances l = [] ∧ spendableTotal l + feesTotal l + lostTotal l = entitlement l) := by
  intro l
  have hok : ∀ e ∈ l.entries, e.ok := hrun_ok ops _ (hclose_ok c height items)
  have hc := conserved_of_ok l hok
  refine ⟨hc, fun hs => ?_⟩
  have hbal : balances l = [] := by
    unfold balances
    rw [List.filterMap_eq_nil_iff]
    intro e he
    unfold allSettled at hs
    rw [List.all_eq_true] at hs
    have := hs e he
    unfold Entry.balance
    split <;> simp_all
  refine ⟨hbal, ?_⟩
  have h0 : balanceTotal l = 0 := by unfold balanceTotal; rw [hbal]; rfl
  omega

def lateDemo : HLedger :=
  HLedger.run (hclose ⟨false, 720, 432, false⟩ 100 [(⟨.inboundHtlcUnknown, 1000, 0, 150, none⟩, 7), (⟨.inboundHtlcUnknown, 3000, 0, 150, none⟩, 7)])
    [HOp.op (.block 101), HOp.provide 7, HOp.op (.claim 0 103 900), HOp.op (.claim 1 103 2800), HOp.op (.block 120)]
example : balances lateDemo.ledger = [] ∧ spendableTotal lateDemo.ledger = 3700 ∧ feesTotal lateDemo.ledger = 300 ∧
    entitlement lateDemo.ledger = 4000 := by decide

open Ldk.ClaimTime Ldk.ClaimTiming

/-! ### Every claimable output is the node's once its claim confirms — exactly once; the pre-confirmation view -/

/-- **claimed_exactly_once** — in ANY ledger state (any closure — holder's, counterparty's latest or previous commitment —,
    any history of blocks, claims, counterparty claims and late preimages before), for an output the node may claim (an
    outbound HTLC after its expiry, an inbound HTLC whose preimage is known — from the start or, by
    `late_preimage_claims_every_match`, learned at any time while the output was unspent) that is still unspent: once the
    node's claim confirms (at `h`, paying `net`), then WHATEVER happens afterwards (`rest`: any blocks, further claims of the
    same output, counterparty claims of it, more preimages) the output stays the node's with exactly that value
    (`claimed h n` until burial, `matured n` after), the item is unchanged, and any block at or above the confirmation
    threshold hands out exactly `n = min net sat` — once: a handed-out entry is never handed out again.
    With `claim_in_time` (the claim confirms before the expiry under the confirmation hypothesis) this is "every HTLC whose
    preimage is known before its expiry is eventually claimed, exactly once". -/
theorem claimed_exactly_once (hl : HLedger) (i h net : Nat) (e : Entry) (rest : List HOp)
    (he : hl.ledger.entries[i]? = some e) (hs : e.stage = .pending) (hk : e.item.kind ≠ .inboundHtlcUnknown) :
    let n := Nat.min net e.item.sat
    let hl' := (hl.step (.op (.claim i h net))).run rest
    ∃ e', hl'.ledger.entries[i]? = some e' ∧ (e'.stage = .claimed h n ∨ e'.stage = .matured n) ∧ e'.item = e.item ∧
      ∀ H, confirmationThreshold h e.item.csv ≤ H →
        ∃ e'', (hl'.step (.op (.block H))).ledger.entries[i]? = some e'' ∧ e''.stage = .matured n ∧ e''.spendable = n ∧
          ∀ more, ∃ e3, ((hl'.step (.op (.block H))).run more).ledger.entries[i]? = some e3 ∧ e3.stage = .matured n := by
  intro n hl'
  have h0 := claim_pending hl i h net e he hs hk
  obtain ⟨e', h1, p1, i1⟩ := hrun_fixed rest _ i h n _ h0 (Or.inl rfl)
  refine ⟨e', h1, p1, i1, ?_⟩
  intro H hH
  have hb : confirmationThreshold h e'.item.csv ≤ Nat.max hl'.ledger.best H := by
    rw [i1]
    exact Nat.le_trans hH (Nat.le_max_right _ _)
  have hm := bury_fixed_matured (Nat.max hl'.ledger.best H) h n e' p1 hb
  have hget : (hl'.step (.op (.block H))).ledger.entries[i]? = some (e'.bury (Nat.max hl'.ledger.best H)) := by
    have h1' : hl'.ledger.entries[i]? = some e' := h1
    simp only [HLedger.step, Onchain.step, List.getElem?_map, h1', Option.map_some]
  refine ⟨_, hget, hm, by unfold Entry.spendable; rw [hm], ?_⟩
  intro more
  exact matured_stays more _ i n _ hget hm

-- an inbound HTLC learned late on the counterparty's PREVIOUS commitment, claimed at 103 for 900, re-claimed / contested later: 900, once
example : let hl := (hclose ⟨false, 720, 432, true⟩ 100 [(⟨.inboundHtlcUnknown, 1000, 0, 150, none⟩, 7)]).provide 7
    let hl' := (hl.step (.op (.claim 0 103 900))).run [.op (.peerClaim 0 104), .op (.claim 0 105 800), .provide 7, .op (.block 108), .op (.claim 0 109 1), .op (.block 400)]
    spendableTotal hl'.ledger = 900 ∧ balances hl'.ledger = [] ∧ lostTotal hl'.ledger = 0 := by decide

/-- **preclose_view_carries_over** — the pre-confirmation view (`ClaimableOnChannelClose` + per-HTLC balances; the amounts
    and heights of its arms TRANSLATED by gen_claim_timing.py from get_claimable_balances) and the ledger agree across the
    moment the HOLDER's commitment confirms, for EVERY balance, EVERY HTLC list, EVERY closure height and EVERY later history:
    what the node owns before (`amount_satoshis` of ClaimableOnChannelClose = to_self + inbound HTLCs with known preimage, plus
    the MaybeTimeoutClaimableHTLC balances) is the ledger's entitlement, hence = balances + spendable + fees + lost in every
    state reachable after the closure; and every outbound / preimage-less inbound HTLC is reported with the same class,
    height and amount before and right after the confirmation. -/
theorem preclose_view_carries_over (t height : Nat) (hs : List PreHtlc) (hk : ∀ h ∈ hs, h.kind ≠ .toSelf) (ops : List Op) :
    let l := run (close height (holderItems t hs)) ops
    (preView t hs).owned = entitlement l ∧
    balanceTotal l + spendableTotal l + feesTotal l + lostTotal l = (preView t hs).owned ∧
    (∀ h ∈ hs, h.kind = .outboundHtlc ∨ h.kind = .inboundHtlcUnknown →
      h.balance = Entry.balance ⟨h.item, .pending⟩) ∧
    (preView t hs).onClose = t + Onchain.sum (hs.map PreHtlc.claimingSat) := by
  intro l
  have hc := ledger_conservation height (holderItems t hs) ops
  have hown : (preView t hs).owned = entitlement l := by
    rw [hc.2, preView_owned_eq t hs hk]
    simp only [holderItems, List.map_cons, List.map_map, Onchain.sum, List.foldr_cons, Item.entitled]
    rfl
  refine ⟨hown, by rw [hown]; exact hc.1, ?_, rfl⟩
  intro h _ hkind
  obtain ⟨k, a, c⟩ := h
  rcases hkind with hkind | hkind <;> simp only at hkind <;> subst hkind <;> rfl

example : let v := preView 50000 [⟨.outboundHtlc, 3000999, 130⟩, ⟨.inboundHtlcPreimage, 2000500, 140⟩, ⟨.inboundHtlcUnknown, 1000000, 150⟩]
    v.onClose = 52000 ∧ v.htlcs = [⟨.maybeTimeout 130, 3000⟩, ⟨.maybePreimage 150, 1000⟩] ∧ v.owned = 55000 := by decide

/-! ### claim_in_time — the timing rules composed with the claim schedule, over ALL heights / expiries / arrival times

    `shouldBroadcastFor` (gen_timing.py), `getHeightTimer` / `packageLocktime` / `computePackageFeerate` (gen_package.py),
    `parksPackage` / `releasedFromPark` / `timerFires` / `firstIssueStrategy` / `timerBumpStrategy` (gen_claim_timing.py) and
    the constants are TRANSLATED on every run; `goesOnchainAt`, `requestIssueHeight`, `issueHeights`, `issues`
    (Model/ClaimTime.lean) only compose them over a chain whose blocks arrive one height at a time.  WHAT CONFIRMS WHEN is
    always a hypothesis (`ConfirmsWithin`), stated in the theorem. -/
open Ldk.ClaimTime Ldk.ClaimTiming

/-- **goes_onchain_when** — for EVERY expiry `c`, EVERY height `start` from which the monitor evaluates the HTLC and every
    horizon: the first block at which `should_broadcast_holder_commitment_txn` fires is
    * `max start (c − CLTV_CLAIM_BUFFER)` for an inbound HTLC whose preimage the monitor holds — never later than
      CLTV_CLAIM_BUFFER blocks before the expiry if the preimage was there by then, at once otherwise;
    * `max start (c + LATENCY_GRACE_PERIOD_BLOCKS)` for an outbound HTLC (whatever preimages are known);
    * never for an inbound HTLC without preimage. -/
theorem goes_onchain_when (c start fuel : Nat) :
    goesOnchainAt c false true start fuel =
      (if Nat.max start (c - CLTV_CLAIM_BUFFER) < start + fuel then some (Nat.max start (c - CLTV_CLAIM_BUFFER)) else none) ∧
    (∀ pre, goesOnchainAt c true pre start fuel =
      (if Nat.max start (c + LATENCY_GRACE_PERIOD_BLOCKS) < start + fuel then some (Nat.max start (c + LATENCY_GRACE_PERIOD_BLOCKS)) else none)) ∧
    goesOnchainAt c false false start fuel = none := by
  refine ⟨?_, ?_, ?_⟩
  · exact firstHeight_threshold _ _ (fun h => shouldBroadcast_inbound h c) fuel start
  · intro pre
    exact firstHeight_threshold _ _ (fun h => shouldBroadcast_outbound h c pre) fuel start
  · exact firstHeight_never _ (fun h => shouldBroadcast_no_preimage h c) fuel start

example : goesOnchainAt 500 false true 400 200 = some 464 ∧ goesOnchainAt 500 false true 480 200 = some 480 ∧
    goesOnchainAt 500 true false 400 200 = some 503 ∧ goesOnchainAt 500 false false 400 200 = none := by decide

/-- **goes_onchain_any** — with ANY set of HTLCs pending (any expiries, directions, preimage knowledge) the monitor goes on
    chain at the earliest of the single-HTLC heights of `goes_onchain_when`: some HTLC's own deadline is met exactly, and no
    HTLC's deadline is missed. -/
theorem goes_onchain_any (htlcs : List ScanHtlc) (start fuel h : Nat) (hh : firstOnchain htlcs start fuel = some h) :
    (∃ x ∈ htlcs, goesOnchainAt x.1 x.2.1 x.2.2 start fuel = some h) ∧
    (∀ x ∈ htlcs, ∀ hx, goesOnchainAt x.1 x.2.1 x.2.2 start fuel = some hx → h ≤ hx) :=
  firstOnchain_spec htlcs start fuel h hh

example : firstOnchain [(500, false, true), (470, true, false), (520, false, false)] 400 200 = some 464 ∧
    firstOnchain [(500, false, false), (470, true, false)] 400 200 = some 473 ∧ firstOnchain [(500, false, false)] 400 200 = none := by decide

/-- **timeout_claim_not_before_locktime** — our own timeout claims are never issued before their locktime is final, and not
    later than that either: for EVERY package and EVERY height `cur` at which the claim is requested, the height `b` at which
    the OnchainTxHandler issues it (at once, or out of `locktimed_packages`) is exactly `max cur (package_locktime)`; the
    transaction built THEN carries an nLockTime `≤ b` (minable in block `b + 1`); every input's CLTV requirement is `≤ b`; a
    pre-signed holder HTLC-timeout (nLockTime = the HTLC's `cltv_expiry`) is not issued before `cltv_expiry`. -/
theorem timeout_claim_not_before_locktime (cur fuel b : Nat) (inputs : List PkgInput)
    (hb : requestIssueHeight cur inputs fuel = some b) :
    b = Nat.max cur (issueLocktime cur inputs) ∧ cur ≤ b ∧
    issueLocktime b inputs ≤ b ∧
    (pkgSignedLocktime inputs = none → ∀ i ∈ inputs, ∀ c, minimumLocktime i = some c → c ≤ b) ∧
    (∀ pre c rest, inputs = .holderHTLCOutput pre c :: rest → c ≤ b ∧ issueLocktime b inputs = c) := by
  have he := requestIssueHeight_eq cur fuel b inputs hb
  have hle := issueLocktime_le cur inputs
  rw [← he] at hle
  have hcur : cur ≤ b := by rw [he]; exact Nat.le_max_left _ _
  have hlt : issueLocktime cur inputs ≤ b := by rw [he]; exact Nat.le_max_right _ _
  refine ⟨he, hcur, hle, ?_, ?_⟩
  · intro hs i hi c hc
    exact Nat.le_trans (((locktime_final cur inputs).1 hs).2.1 i hi c hc) hlt
  · intro pre c rest hi
    have h1 := (locktime_final cur inputs).2 pre c rest hi
    have h2 := (locktime_final b inputs).2 pre c rest hi
    unfold issueLocktime at hlt ⊢
    rw [h1] at hlt
    exact ⟨hlt, h2⟩

example : requestIssueHeight 100 [.counterpartyReceivedHTLCOutput 130] 100 = some 130 ∧
    requestIssueHeight 100 [.counterpartyReceivedHTLCOutput 90] 100 = some 100 ∧
    requestIssueHeight 100 [.holderHTLCOutput false 130] 100 = some 130 ∧
    requestIssueHeight 100 [.holderHTLCOutput true 0] 100 = some 100 ∧
    requestIssueHeight 100 [.counterpartyOfferedHTLCOutput 130] 100 = some 100 := by decide

/-- **reissue_schedule** — for EVERY package, EVERY height `start` of its first issue, EVERY horizon and EVERY fee-estimator
    trajectory `est` (a function of the height — anything): while the claim stays unconfirmed,
    (a) it is issued at `start` and then re-issued at strictly later heights at most LOW_FREQUENCY_BUMP_INTERVAL apart
        (`bump_progress` says how much sooner near a deadline);
    (b) hence at EVERY height `t` of the horizon the version in flight is less than LOW_FREQUENCY_BUMP_INTERVAL blocks old;
    (c) EVERY issue — first or timer-driven — carries a target feerate at least the estimator's floor-bounded answer at ITS
        height: the claim catches up with any fee rise at the next timer expiry at the latest;
    (d) the successive targets never decrease (range hypothesis of `package_feerate_trajectory_monotone`). -/
theorem reissue_schedule (csh : Nat) (inputs : List PkgInput) (est : Nat → Nat) (start fuel : Nat) :
    let hs := issueHeights csh inputs fuel start start
    (0 < fuel → ∃ rest, hs = start :: rest) ∧
    Stepwise (fun a b => a < b ∧ b ≤ a + LOW_FREQUENCY_BUMP_INTERVAL) hs ∧
    (∀ t, start ≤ t → t < start + fuel → ∃ h ∈ hs, h ≤ t ∧ t < h + LOW_FREQUENCY_BUMP_INTERVAL) ∧
    (issues csh inputs est start fuel).map (·.1) = hs ∧
    (∀ hr ∈ issues csh inputs est start fuel, boundedSatPer1000Weight (est hr.1) ≤ hr.2) ∧
    ((∀ h, 5 * boundedSatPer1000Weight (est h) ≤ U32_MAX) → (issueTargets est hs).Pairwise (· ≤ ·)) := by
  intro hs
  refine ⟨fun hf => issueHeights_head csh inputs fuel start start (Nat.le_refl _) (by omega),
    issueHeights_chain csh inputs fuel start start (Nat.le_refl _),
    fun t h1 h2 => issueHeights_cover csh inputs fuel start start (Nat.le_refl _) t h1 h2,
    issues_heights csh inputs est start fuel, issues_ge_est csh inputs est start fuel, ?_⟩
  intro hr
  refine (package_feerate_trajectory_monotone 0 (issueCalls est hs) (Nat.zero_le _) ?_).1
  intro p hp
  obtain ⟨h, e⟩ := issueCalls_mem est hs p hp
  rw [e]
  exact hr h

-- a preimage claim on the counterparty's commitment (expiry 160) first issued at 100: every 15, then 3, then every block;
-- the estimator doubles at 130: the re-issue at 130 follows it
example : issueHeights 160 [.counterpartyOfferedHTLCOutput 160] 62 100 100 =
    [100, 115, 130, 145, 148, 151, 154, 157, 158, 159, 160, 161] := by decide
example : issues 160 [.counterpartyOfferedHTLCOutput 160] (fun h => if h < 130 then 1000 else 2000) 100 40 =
    [(100, 1000), (115, 1250), (130, 2000)] := by decide

/-- **claim_in_time** — an inbound HTLC (expiry `c`) whose preimage the monitor holds from block `start` on, at least
    CLTV_CLAIM_BUFFER blocks before the expiry, for ALL `c`, `start`, packages, estimator trajectories:
    the monitor broadcasts its commitment at EXACTLY `hb = c − CLTV_CLAIM_BUFFER`; UNDER THE HYPOTHESES
      (1) the commitment confirms within MAX_BLOCKS_FOR_CONF blocks of its broadcast (at `hc`), and
      (2) `ConfirmsWithin`: a version of the HTLC claim issued — by the schedule that starts when the commitment confirms — at
          a target at least the then-current estimate confirms within MAX_BLOCKS_FOR_CONF blocks,
    the claim confirms at a height `hk ≤ c`: strictly before block `c + 1`, the first that may contain the counterparty's
    timeout transaction (nLockTime `c`).  The two confirmation windows use up the buffer exactly
    (CLTV_CLAIM_BUFFER = 2 × MAX_BLOCKS_FOR_CONF — re-proved against the generated constants). -/
theorem claim_in_time (c start fuel : Nat) (est : Nat → Nat) (csh : Nat) (inputs : List PkgInput) (hb hc hk : Nat)
    (hearly : start + CLTV_CLAIM_BUFFER ≤ c) (hon : goesOnchainAt c false true start fuel = some hb)
    (hcommit : hb ≤ hc ∧ hc ≤ hb + MAX_BLOCKS_FOR_CONF)
    (hclaim : ConfirmsWithin MAX_BLOCKS_FOR_CONF est (issues csh inputs est hc (c + 1 - hc)) hk) :
    hb = c - CLTV_CLAIM_BUFFER ∧ hk ≤ c ∧ hk < c + 1 := by
  have h36 : CLTV_CLAIM_BUFFER = 36 := rfl
  have h18 : MAX_BLOCKS_FOR_CONF = 18 := rfl
  have hbe : hb = c - CLTV_CLAIM_BUFFER := by
    rw [(goes_onchain_when c start fuel).1] at hon
    split at hon
    · simp only [Option.some.injEq] at hon
      rw [← hon, pf_nat_max_eq]
      omega
    · cases hon
  have hfuel : 0 < c + 1 - hc := by omega
  obtain ⟨rest, hhead⟩ := (reissue_schedule csh inputs est hc (c + 1 - hc)).1 hfuel
  have hmem : hc ∈ issueHeights csh inputs (c + 1 - hc) hc hc := by rw [hhead]; exact List.mem_cons_self
  obtain ⟨r, hr⟩ := issues_of_height csh inputs est hc (c + 1 - hc) hc hmem
  have hge := issues_ge_est csh inputs est hc (c + 1 - hc) (hc, r) hr
  have := hclaim (hc, r) hr hge
  simp only at this
  refine ⟨hbe, by omega, by omega⟩

/-- **claim_in_time_received** — the arrival times the ChannelManager's own rule admits are early enough: a payment is
    claimable only while `MppPart::check_onchain_timeout` is false (`height < cltv_expiry − HTLC_FAIL_BACK_BUFFER`); a preimage
    released at such a height `p` reaches the monitor before block `p + 1`, which is at least CLTV_CLAIM_BUFFER before the
    expiry — the premise `hearly` of `claim_in_time` with `start = p + 1`, with LATENCY_GRACE_PERIOD_BLOCKS − 1 blocks to spare. -/
theorem claim_in_time_received (p c : Nat) (h : mppOnchainTimeout p c = false) :
    (p + 1) + CLTV_CLAIM_BUFFER + (LATENCY_GRACE_PERIOD_BLOCKS - 1) ≤ c := by
  have h36 : CLTV_CLAIM_BUFFER = 36 := rfl
  have h39 : HTLC_FAIL_BACK_BUFFER = 39 := rfl
  have h3 : LATENCY_GRACE_PERIOD_BLOCKS = 3 := rfl
  unfold mppOnchainTimeout at h
  simp only [ge_iff_le, decide_eq_false_iff_not, Nat.not_le] at h
  omega

/-- **claim_in_time_late** — a claim that starts at ANY height `s` (the counterparty's commitment confirmed at `s`, or the
    preimage arrived at `s` after the closure: provide_payment_preimage issues at the current height) confirms by `s + n`
    under `ConfirmsWithin n`; so it beats the counterparty's timeout whenever `s + n ≤ c`.  Nothing is promised for a
    preimage that arrives later than that — the model does not pretend otherwise. -/
theorem claim_in_time_late (s fuel n c hk : Nat) (est : Nat → Nat) (csh : Nat) (inputs : List PkgInput) (hf : 0 < fuel)
    (hclaim : ConfirmsWithin n est (issues csh inputs est s fuel) hk) (hroom : s + n ≤ c) : hk ≤ s + n ∧ hk < c + 1 := by
  obtain ⟨rest, hhead⟩ := (reissue_schedule csh inputs est s fuel).1 hf
  have hmem : s ∈ issueHeights csh inputs fuel s s := by rw [hhead]; exact List.mem_cons_self
  obtain ⟨r, hr⟩ := issues_of_height csh inputs est s fuel s hmem
  have := hclaim (s, r) hr (issues_ge_est csh inputs est s fuel (s, r) hr)
  simp only at this
  omega

/-- **claim_in_time_after_spike** — robustness: suppose NOTHING is known about confirmation before some height `t0` (fees
    spiked, the first versions never confirm) and the hypothesis holds only for versions issued from `t0` on.  Because the
    schedule re-issues at least every LOW_FREQUENCY_BUMP_INTERVAL blocks and every re-issue is at least at the then-current
    estimate, the claim still confirms by `max s t0 + (LOW_FREQUENCY_BUMP_INTERVAL − 1) + n`. -/
theorem claim_in_time_after_spike (s fuel t0 n hk : Nat) (est : Nat → Nat) (csh : Nat) (inputs : List PkgInput)
    (hroom : Nat.max s t0 + LOW_FREQUENCY_BUMP_INTERVAL ≤ s + fuel)
    (hclaim : ConfirmsWithinFrom t0 n est (issues csh inputs est s fuel) hk) :
    hk ≤ Nat.max s t0 + (LOW_FREQUENCY_BUMP_INTERVAL - 1) + n := by
  have hl : LOW_FREQUENCY_BUMP_INTERVAL = 15 := rfl
  rw [pf_nat_max_eq] at hroom ⊢
  obtain ⟨h, hm, h1, h2⟩ := (reissue_schedule csh inputs est s fuel).2.2.1 (max s t0 + 14) (by omega) (by omega)
  obtain ⟨r, hr⟩ := issues_of_height csh inputs est s fuel h hm
  have := hclaim (h, r) hr (by simp only; omega) (issues_ge_est csh inputs est s fuel (h, r) hr)
  simp only at this
  omega

-- non-vacuity of the hypotheses: expiry 500, preimage from block 400 on; commitment out at 464, confirmed at 470; the claim
-- schedule starts at 470 at the estimate 1000 and the claim confirms at 480
example : goesOnchainAt 500 false true 400 200 = some 464 ∧
    ConfirmsWithin MAX_BLOCKS_FOR_CONF (fun _ => 1000) (issues 500 [.holderHTLCOutput true 500] (fun _ => 1000) 470 31) 480 := by
  refine ⟨by decide, ?_⟩
  intro hr hmem _
  have := (issueHeights_mem 500 [.holderHTLCOutput true 500] 31 470 470 (Nat.le_refl _) hr.1
    (by rw [← issues_heights 500 _ (fun _ => 1000) 470 31]; exact List.mem_map.2 ⟨hr, hmem, rfl⟩)).1
  have h18 : MAX_BLOCKS_FOR_CONF = 18 := rfl
  omega

/-! ## the package layer of OnchainTxHandler (Model/Packages.lean, shared with C06; decisions translated: Generated/Packages.lean) -/

section Packages
open Ldk.Packages Ldk.PkgLayer
variable {α : Type} [DecidableEq α]

/-- **rebroadcast_spends_only_unspent_outpoints** — "only with transactions that are consensus-valid when broadcast", the double-spend half:
    for EVERY handler state that passes the consistency check `wfB` (evaluated on every real handler state by the c07close / c06justice
    differential) and EVERY accepted block — any number of transactions, each spending any outpoints of any pending aggregated claim, in any
    order, e.g. the counterparty's two single-input HTLC-success transactions spending two different outpoints of ONE aggregated timeout
    claim — every claim transaction (re)broadcast while the block is processed (the replacement for a request the block split, every timer
    bump) spends only outpoints that are still unspent after that block.  Rests on the TRANSLATED queueing rule: `bump_candidates.insert`
    overwrites (`bumpInsertOverwrites`), so the bump candidate is the request AFTER ALL splits of the block; and a pending request that still
    contains an outpoint spent in the block is entirely spent by it and has its `Claim` entry (generate_claim's guard, pinned, stops it). -/
theorem rebroadcast_spends_only_unspent_outpoints (height : Nat) (feeOk : Nat → Bool) (h0 : Handler α) (txs : List (Tx α))
    (hwf : h0.wfB = true) (r : BlockResult α) (hr : connectBlock height feeOk h0 txs = some r) :
    (∀ i ∈ r.issued, ∀ o ∈ i.spends, o ∉ blockSpent txs) ∧
    (∀ e ∈ r.handler.pending, ∀ o ∈ e.2.outpoints, o ∈ blockSpent txs →
      hasClaimAt r.handler.events e.1 height ∧ ∀ o' ∈ e.2.outpoints, o' ∈ blockSpent txs) :=
  ⟨connectBlock_reissue_spends_unspent height feeOk h0 txs (wfB_sound h0 hwf) r hr,
   connectBlock_no_spent_outpoint_left height feeOk h0 txs (wfB_sound h0 hwf) r hr⟩

/-- three outbound HTLCs with the same expiry on the counterparty's commitment, aggregated in ONE timeout claim (claim id 9) -/
def exClaim : Handler Nat :=
  { pending := [(9, { inputs := [(1, { kind := .counterpartyReceivedHTLCOutput 140 }), (2, { kind := .counterpartyReceivedHTLCOutput 140 }), (3, { kind := .counterpartyReceivedHTLCOutput 140 })],
                      mall := .malleable .pinnable, spendable := 140, feerate := 253, timer := 155 })],
    claimable := [(1, 9, 120), (2, 9, 120), (3, 9, 120)], events := [], locked := [] }

-- non-vacuity: the counterparty's two HTLC-success transactions confirm in ONE block; the single replacement claim spends only the third output
example : exClaim.wfB = true ∧
    (connectBlock 141 (fun _ => true) exClaim [⟨21, [1]⟩, ⟨22, [2]⟩]).map (fun r =>
      (r.issued.map (fun i => (i.id, i.spends)), r.handler.pending.map (fun e => (e.1, e.2.outpoints)))) = some ([(9, [3])], [(9, [3])]) := by decide

end Packages

/-! ## OutputSweeper (util/sweep.rs): the last leg — SpendableOutputs descriptors are swept exactly once

    Model/Sweeper.lean; every comparison is the definition TRANSLATED by tools/gen_sweep.py (Generated/Sweep.lean):
    `disconnectUnconfirms` (Listen::blocks_disconnected), `txUnconfirmedUnconfirms` (Confirm::transaction_unconfirmed),
    `respendFilter` / `initialIsDelayed` (filter_fn of regenerate_and_broadcast_spend_if_necessary), `prunes`. -/
section Sweeper
open Ldk.Sweeper Ldk.SweepGen

/-- **sweeper_view_matches_chain** — for EVERY Listen-style history (any interleaving of track / sweep / block connected /
    blocks disconnected down to any fork point, from a fresh sweeper at any height) that describes a real chain (`WFHist`: an
    output handed to the sweeper is unspent, no block spends an outpoint an earlier block of the chain spent): in the state reached,
    a tracked output is held as confirmed (PendingThresholdConfirmations) EXACTLY when the best chain contains a spend of it,
    and then its confirmation height is the height of a block of the best chain that spends it, not above the tip.
    In particular a disconnect that KEEPS the block of a spend (fork point = its height) does not un-confirm it. -/
theorem sweeper_view_matches_chain (best : Nat) (ops : List LOp) (hw : WFHist (LState.fresh best) ops) :
    let l := (LState.fresh best).run ops
    ∀ o ∈ l.sw.outputs,
      o.status.isConfirmed = spentOnChain l.chain o.id ∧
      ∀ lb t h, o.status = .threshold lb t h → h ≤ l.sw.best ∧ ∃ b ∈ l.chain, b.1 = h ∧ blockSpends b o.id = true := by
  intro l o ho
  have hi : Inv l := inv_run ops _ (inv_fresh best) hw
  have h2 : ∀ lb t h, o.status = .threshold lb t h → h ≤ l.sw.best ∧ ∃ b ∈ l.chain, b.1 = h ∧ blockSpends b o.id = true := by
    intro lb t h hs
    obtain ⟨b, hb, hh, hsp⟩ := hi.confAt o ho lb t h hs
    exact ⟨hh ▸ hi.heights b hb, b, hb, hh, hsp⟩
  refine ⟨?_, h2⟩
  cases hc : o.status.isConfirmed
  · cases hs : spentOnChain l.chain o.id
    · rfl
    · rw [hi.spentConf o ho hs] at hc; cases hc
  · obtain ⟨lb, t, h, hst⟩ := (isConfirmed_iff _).1 hc
    obtain ⟨_, b, hb, _, hsp⟩ := h2 lb t h hst
    exact (spentOnChain_iff.2 ⟨b, hb, hsp⟩).symm

-- non-vacuity (the round-5 scenario): sweep of output 1 confirms in block 101, blocks 102-103, reorg with fork point 101: still confirmed at 101
example : WFHist (LState.fresh 100) [.track 1 none, .sweep, .connect [⟨1, [1]⟩], .connect [], .connect [], .disconnect 101, .connect []] ∧
    ((LState.fresh 100).run [.track 1 none, .sweep, .connect [⟨1, [1]⟩], .connect [], .connect [], .disconnect 101, .connect []]).sw.outputs
      = [⟨1, .threshold 100 1 101⟩] := by decide

/-- **sweeper_never_respends_confirmed_spend** — in every state reached by such a history, the transaction that
    `regenerate_and_broadcast_spend_if_necessary` builds spends NO output whose spend is confirmed on the best chain
    (it would be consensus-invalid and would take every other batched descriptor down with it). -/
theorem sweeper_never_respends_confirmed_spend (best : Nat) (ops : List LOp) (hw : WFHist (LState.fresh best) ops) :
    let l := (LState.fresh best).run ops
    (∀ id ∈ sweepInputs l.sw, spentOnChain l.chain id = false) ∧
    (∀ tx, (sweep l.sw).2 = some tx → ∀ id ∈ tx.inputs, spentOnChain l.chain id = false) := by
  intro l
  have hi : Inv l := inv_run ops _ (inv_fresh best) hw
  have h1 : ∀ id ∈ sweepInputs l.sw, spentOnChain l.chain id = false := by
    intro id hid
    obtain ⟨o, ho, rfl, hr⟩ := mem_sweepInputs hid
    cases hs : spentOnChain l.chain o.id
    · rfl
    · have := hi.spentConf o ho hs
      rw [respend_not_confirmed hr] at this; cases this
  exact ⟨h1, fun tx htx id hid => h1 id (sweep_tx_inputs htx ▸ hid)⟩

-- non-vacuity: after the reorg above a second output matures; the sweep spends output 2 only
example : (sweep ((LState.fresh 100).run [.track 1 none, .sweep, .connect [⟨1, [1]⟩], .connect [], .connect [], .disconnect 101, .connect [], .track 2 none]).sw).2
    = some ⟨2, [2]⟩ := by decide

/-- **disconnect_unconfirms_exactly_above_fork** — one call of Listen::blocks_disconnected on ANY sweeper state: an output
    confirmed at height h keeps its status when h ≤ fork point (its block stays), goes back to PendingFirstConfirmation with the
    same transaction when h > fork point, and outputs that were not confirmed are untouched; the best block becomes the fork point. -/
theorem disconnect_unconfirms_exactly_above_fork (s : State) (fork : Nat) :
    (blocksDisconnected s fork).best = fork ∧
    (blocksDisconnected s fork).outputs = s.outputs.map (fun o =>
      match o.status with
      | .threshold lb t h => if h ≤ fork then o else { o with status := .firstConf lb t }
      | _ => o) := by
  refine ⟨rfl, ?_⟩
  unfold blocksDisconnected
  apply List.map_congr_left
  intro o _
  cases hs : o.status with
  | initial d => simp [Status.confirmationHeight, disconnectUnconfirms_none]
  | firstConf lb t => simp [Status.confirmationHeight, disconnectUnconfirms_none]
  | threshold lb t h =>
    simp only [Status.confirmationHeight, disconnectUnconfirms_some]
    by_cases hle : h ≤ fork
    · simp [hle, Nat.not_lt.2 hle]
    · simp [hle, Nat.lt_of_not_le hle, Status.unconfirmed]

example : (blocksDisconnected { best := 103, outputs := [⟨1, .threshold 100 1 101⟩, ⟨2, .threshold 100 2 102⟩, ⟨3, .firstConf 100 3⟩], nextTx := 4 } 101).outputs
    = [⟨1, .threshold 100 1 101⟩, ⟨2, .firstConf 100 2⟩, ⟨3, .firstConf 100 3⟩] := by decide

/-- **transaction_unconfirmed_from_its_height** — Confirm::transaction_unconfirmed on ANY state: if the transaction is the
    latest spend of a tracked output confirmed at height u (the first such output decides), exactly the outputs confirmed at heights
    ≥ u go back to PendingFirstConfirmation (every block from u up is gone), the ones confirmed below u keep their status; an unknown
    or unconfirmed transaction changes nothing. -/
theorem transaction_unconfirmed_from_its_height (s : State) (txid : Nat) :
    transactionUnconfirmed s txid =
      match (s.outputs.find? fun o => o.status.latestTx == some txid).bind (·.status.confirmationHeight) with
      | some u => { s with outputs := s.outputs.map (fun o =>
          match o.status with
          | .threshold lb t h => if u ≤ h then { o with status := .firstConf lb t } else o
          | _ => o) }
      | none => s := by
  unfold transactionUnconfirmed
  cases (s.outputs.find? fun o => o.status.latestTx == some txid).bind (·.status.confirmationHeight) with
  | none => rfl
  | some u =>
    simp only
    congr 1
    apply List.map_congr_left
    intro o _
    cases hs : o.status with
    | initial d => simp [Status.confirmationHeight, txUnconfirmedUnconfirms_none]
    | firstConf lb t => simp [Status.confirmationHeight, txUnconfirmedUnconfirms_none]
    | threshold lb t h =>
      simp only [Status.confirmationHeight, txUnconfirmedUnconfirms_some]
      by_cases hle : u ≤ h
      · simp [hle, Status.unconfirmed]
      · simp [hle]

example : (transactionUnconfirmed { best := 103, outputs := [⟨1, .threshold 100 1 101⟩, ⟨2, .threshold 100 2 102⟩, ⟨3, .threshold 100 3 103⟩], nextTx := 4 } 2).outputs
    = [⟨1, .threshold 100 1 101⟩, ⟨2, .firstConf 100 2⟩, ⟨3, .firstConf 100 3⟩] := by decide

/-- **sweeper_respends_exactly_open_outputs** — the translated `filter_fn`: an output goes into the next sweep exactly when it is
    not confirmed, its delay (if any) has been reached, and it was not broadcast at the current height or above already. -/
theorem sweeper_respends_exactly_open_outputs (o : Out) (cur : Nat) :
    respend o cur = true ↔
      match o.status with
      | .initial none => True
      | .initial (some d) => d ≤ cur
      | .firstConf lb _ => lb < cur
      | .threshold _ _ _ => False := by
  unfold respend
  cases hs : o.status with
  | initial d =>
    cases d with
    | none => simp [Status.isConfirmed, Status.isDelayed, Status.latestBroadcastHeight, initialIsDelayed, respendFilter, optGe]
    | some d => simp [Status.isConfirmed, Status.isDelayed, Status.latestBroadcastHeight, initialIsDelayed, respendFilter, optGe]
  | firstConf lb t => simp [Status.isConfirmed, Status.isDelayed, Status.latestBroadcastHeight, respendFilter, optGe]
  | threshold lb t h => simp [Status.isConfirmed, respendFilter]

example : respend ⟨1, .firstConf 100 1⟩ 100 = false ∧ respend ⟨1, .firstConf 100 1⟩ 101 = true ∧ respend ⟨1, .initial (some 101)⟩ 100 = false := by decide

/-- **sweeper_prunes_exactly_at_depth** — Confirm::best_block_updated / the tail of filtered_block_connected: an output stays
    tracked exactly until the tip reaches confirmation height + PRUNE_DELAY_BLOCKS - 1 (= ARCHIVAL_DELAY_BLOCKS + ANTI_REORG_DELAY - 1
    blocks on top); unconfirmed outputs are never pruned. -/
theorem sweeper_prunes_exactly_at_depth (s : State) (h : Nat) (o : Out) :
    o ∈ (bestBlockUpdated s h).outputs ↔
      o ∈ s.outputs ∧ ∀ c, o.status.confirmationHeight = some c → h < c + 4037 := by
  unfold bestBlockUpdated
  simp only [List.mem_filter]
  refine and_congr_right fun _ => ?_
  unfold keepOut
  cases hc : o.status.confirmationHeight with
  | none => simp
  | some c =>
    simp only [prunes, PRUNE_DELAY_BLOCKS, ARCHIVAL_DELAY_BLOCKS, ANTI_REORG_DELAY]
    constructor
    · intro hk c' hc'; cases hc'; simp at hk; omega
    · intro hk; have := hk c rfl; simp; omega

example : (bestBlockUpdated { best := 0, outputs := [⟨1, .threshold 100 1 101⟩], nextTx := 2 } 4137).outputs = [⟨1, .threshold 100 1 101⟩] ∧
    (bestBlockUpdated { best := 0, outputs := [⟨1, .threshold 100 1 101⟩], nextTx := 2 } 4138).outputs = [] := by decide

/-- **sweeper_view_matches_chain_confirm_partial** — the Confirm style: for EVERY history of track / sweep /
    transactions_confirmed(h, txs) / best_block_updated(h) (any heights, either order, also a LOWER best height, the same block
    reported twice) / transaction_unconfirmed(txid) that respects `CWFHist` (a tracked output is unspent when handed over; no outpoint
    is spent at two heights of the chain), a tracked output is held as confirmed EXACTLY when the chain the calls describe contains a
    spend of it, and its confirmation height is the height of such a block.
    PARTIAL — what is missing: the chain semantics of `transaction_unconfirmed(txid)` is stated through the sweeper's own record:
    "every block at or above the height at which the sweeper holds `txid` confirmed (first output whose latest_spending_tx is txid) is
    gone, an unknown or unconfirmed txid removes nothing". That this recorded height IS the height of the block holding `txid` (txids
    determine inputs and occur at one height; get_relevant_txids hands the client exactly these ids) is not derived: `latestTx` is an
    opaque id in Model/Sweeper.lean. The c07sweep oracle checks the view against the harness's true chain after every Confirm-style reorg. -/
theorem sweeper_view_matches_chain_confirm_partial (best : Nat) (ops : List COp) (hw : CWFHist (LState.fresh best) ops) :
    let l := (LState.fresh best).crun ops
    ∀ o ∈ l.sw.outputs,
      o.status.isConfirmed = spentOnChain l.chain o.id ∧
      ∀ lb t h, o.status = .threshold lb t h → ∃ b ∈ l.chain, b.1 = h ∧ blockSpends b o.id = true := by
  intro l o ho
  have hi : CInv l := cinv_run ops _ (cinv_fresh best) hw
  refine ⟨?_, hi.confAt o ho⟩
  cases hc : o.status.isConfirmed
  · cases hs : spentOnChain l.chain o.id
    · rfl
    · rw [hi.spentConf o ho hs] at hc; cases hc
  · obtain ⟨lb, t, h, hst⟩ := (isConfirmed_iff _).1 hc
    obtain ⟨b, hb, _, hsp⟩ := hi.confAt o ho lb t h hst
    exact (spentOnChain_iff.2 ⟨b, hb, hsp⟩).symm

-- non-vacuity: best before conf and conf before best; tx 2 (height 103) is un-confirmed: output 2 goes back, output 1 (height 101) stays
example : CWFHist (LState.fresh 100) [.track 1 none, .sweep, .best 101, .conf 101 [⟨1, [1]⟩], .track 2 none, .best 102, .sweep, .conf 103 [⟨2, [2]⟩], .best 103, .unconf 2, .best 102] ∧
    ((LState.fresh 100).crun [.track 1 none, .sweep, .best 101, .conf 101 [⟨1, [1]⟩], .track 2 none, .best 102, .sweep, .conf 103 [⟨2, [2]⟩], .best 103, .unconf 2, .best 102]).sw.outputs
      = [⟨1, .threshold 100 1 101⟩, ⟨2, .firstConf 102 2⟩] ∧
    ((LState.fresh 100).crun [.track 1 none, .sweep, .best 101, .conf 101 [⟨1, [1]⟩], .track 2 none, .best 102, .sweep, .conf 103 [⟨2, [2]⟩], .best 103, .unconf 2, .best 102]).chain
      = [(101, [⟨1, [1]⟩])] := by decide

/-- **sweeper_never_respends_confirmed_spend_confirm_partial** — in every state reached by such a Confirm-style history the
    transaction the sweeper builds spends no output whose spend is on the described chain. PARTIAL for the same reason as above. -/
theorem sweeper_never_respends_confirmed_spend_confirm_partial (best : Nat) (ops : List COp) (hw : CWFHist (LState.fresh best) ops) :
    let l := (LState.fresh best).crun ops
    (∀ id ∈ sweepInputs l.sw, spentOnChain l.chain id = false) ∧
    (∀ tx, (sweep l.sw).2 = some tx → ∀ id ∈ tx.inputs, spentOnChain l.chain id = false) := by
  intro l
  have hi : CInv l := cinv_run ops _ (cinv_fresh best) hw
  have h1 : ∀ id ∈ sweepInputs l.sw, spentOnChain l.chain id = false := by
    intro id hid
    obtain ⟨o, ho, rfl, hr⟩ := mem_sweepInputs hid
    cases hs : spentOnChain l.chain o.id
    · rfl
    · have := hi.spentConf o ho hs
      rw [respend_not_confirmed hr] at this; cases this
  exact ⟨h1, fun tx htx id hid => h1 id (sweep_tx_inputs htx ▸ hid)⟩

example : (sweep ((LState.fresh 100).crun [.track 1 none, .sweep, .best 101, .conf 101 [⟨1, [1]⟩], .track 2 none, .best 102, .sweep, .conf 103 [⟨2, [2]⟩], .best 103, .unconf 2, .best 103]).sw).2
    = some ⟨3, [2]⟩ := by decide

end Sweeper

end Ldk.C07
