/- C01 — Every commitment conserves the channel's funds (commitment-builder half).
   Property theorems only.  `get_next_commitment_stats`, `get_available_balances`, the fee/weight
   helpers and every constant are GENERATED from lightning/src/sign/tx_builder.rs and ln/chan_utils.rs
   on every run (Generated/TxBuilder.lean); `buildCommitment` / `outputValues` (Model/TxBuilder.lean) are
   the hand-written mirror of `SpecTxBuilder::build_commitment_transaction` / `CommitmentTransaction::new`
   and are tied to the code by the `c01txb` correspondence. -/
import LdkModel.Proofs.TxBuilder
namespace Ldk.C01
open Ldk Ldk.TxB

/-- the funder's balance (after HTLCs) covers the anchors, and (after anchors) the commitment fee:
    exactly what `get_next_commitment_stats` checks with `checked_sub` before a commitment is signed -/
def FunderAffords (funder : Bool) (ty : ChanType) (b : Built) : Prop :=
  (if funder then b.selfAfterHtlcsMsat else b.remoteAfterHtlcsMsat) ≥ 1000 * total_anchors_sat ty ∧
  (if funder then b.localBeforeFeeMsat else b.remoteBeforeFeeMsat) / 1000 ≥ b.commitTxFeeSat

/-- Every pending HTLC is represented exactly once: as a non-dust output or as trimmed dust. -/
theorem commit_outputs_partition (local_ funder : Bool) (chan vts : Nat) (htlcs : List HtlcIn)
    (feerate dust : Nat) (ty : ChanType) (b : Built)
    (hb : buildCommitment local_ funder chan vts htlcs feerate dust ty = some b) :
    (b.nondust ++ b.dust).Perm htlcs ∧
    (∀ h ∈ b.nondust, buildIsDust ty feerate dust h = false) ∧
    (∀ h ∈ b.dust, buildIsDust ty feerate dust h = true) := by
  unfold buildCommitment at hb
  simp only [] at hb
  split at hb <;> try contradiction
  split at hb <;> try contradiction
  split at hb <;> try contradiction
  injection hb with hb
  subst hb
  refine ⟨?_, ?_, ?_⟩
  · have := List.filter_append_perm (fun h => !(buildIsDust ty feerate dust h)) htlcs
    simpa using this
  · intro h hh; simp [List.mem_filter] at hh; simpa using hh.2
  · intro h hh; simp [List.mem_filter] at hh; exact hh.2

/-- Conservation: whenever the funder can afford anchors and fee (the condition under which a
    commitment is ever signed), the outputs of the transaction plus the stated commitment fee never
    exceed the channel value — what is left over (dust HTLCs, sub-satoshi remainders, trimmed balance
    outputs, unmaterialised anchors) only ever goes to the miner, never to a party. -/
theorem outputs_plus_fee_le_channel_value (local_ funder : Bool) (chan vts : Nat) (htlcs : List HtlcIn)
    (feerate dust : Nat) (ty : ChanType) (b : Built)
    (hb : buildCommitment local_ funder chan vts htlcs feerate dust ty = some b)
    (hz : ty.zeroFee = true → ty.anchors = false ∧ feerate = 0)
    (ha : FunderAffords funder ty b) :
    (outputValues ty chan b).sum + b.commitTxFeeSat ≤ chan := by
  unfold buildCommitment at hb
  simp only [] at hb
  split at hb <;> try contradiction
  rename_i selfAfter hs
  split at hb <;> try contradiction
  rename_i remote hr
  split at hb <;> try contradiction
  rename_i remoteAfter hra
  injection hb with hb
  -- arithmetic facts from the three checked subtractions
  simp only [chkSub] at hs hr hra
  split at hs <;> try contradiction
  split at hr <;> try contradiction
  split at hra <;> try contradiction
  injection hs with hs; injection hr with hr; injection hra with hra
  have hsplit := sumMsat_filter_split (fun h => h.offered == local_) htlcs
  have hnd := sumSat_le (htlcs.filter (fun h => !(buildIsDust ty feerate dust h)))
  have hndle := sumMsat_filter_le (fun h => !(buildIsDust ty feerate dust h)) htlcs
  -- name the two saturating subtractions
  rw [satMul64_anchors] at hb
  generalize hp1 : saturating_sub_from_funder funder selfAfter remoteAfter (1000 * total_anchors_sat ty) = p1 at hb
  generalize hfe : commit_tx_fee_sat feerate (htlcs.filter (fun h => !(buildIsDust ty feerate dust h))).length ty = fee at hb
  generalize hp2 : saturating_sub_from_funder funder (p1.1 / 1000) (p1.2 / 1000) fee = p2 at hb
  subst hb
  obtain ⟨ha1, ha2⟩ := ha
  simp only [] at ha1 ha2
  have h1 := ssf_sum funder selfAfter remoteAfter (1000 * total_anchors_sat ty) ha1
  rw [hp1] at h1
  have hfun : (if funder = true then p1.1 / 1000 else p1.2 / 1000) ≥ fee := by
    cases funder <;> simpa using ha2
  have h2 := ssf_sum funder (p1.1 / 1000) (p1.2 / 1000) fee hfun
  rw [hp2] at h2
  have hanch := anchorOutputs_sum_le ty chan
    { toBroadcaster := if (if local_ then p2.1 else p2.2) ≥ dust then (if local_ then p2.1 else p2.2) else 0
      toCountersignatory := if (if local_ then p2.2 else p2.1) ≥ dust then (if local_ then p2.2 else p2.1) else 0
      nondust := htlcs.filter (fun h => !(buildIsDust ty feerate dust h))
      dust := htlcs.filter (fun h => buildIsDust ty feerate dust h)
      commitTxFeeSat := fee, localBeforeFeeMsat := p1.1, remoteBeforeFeeMsat := p1.2
      selfAfterHtlcsMsat := selfAfter, remoteAfterHtlcsMsat := remoteAfter } (fun h => (hz h).1)
  have hfee0 : ty.zeroFee = true → fee = 0 := by
    intro h; have := (hz h).2; subst this; rw [← hfe]; simp [commit_tx_fee_sat]
  have hA0 : ty.zeroFee = true → total_anchors_sat ty = 0 := by
    intro h; simp [total_anchors_sat, (hz h).1]
  simp only [outputValues, sum_map_htlcSat, List.sum_append]
  generalize hAO : (anchorOutputs ty chan _).sum = ao at *
  generalize hN : sumSat (htlcs.filter (fun h => !(buildIsDust ty feerate dust h))) = nd at *
  generalize hL : sumMsat (htlcs.filter (fun h => h.offered == local_)) = lt at *
  generalize hR : sumMsat (htlcs.filter (fun h => !(h.offered == local_))) = rt at *
  generalize hND : sumMsat (htlcs.filter (fun h => !(buildIsDust ty feerate dust h))) = ndm at *
  generalize hT : total_anchors_sat ty = A at *
  obtain ⟨p11, p12⟩ := p1
  obtain ⟨p21, p22⟩ := p2
  simp only [] at *
  have hk : (if funder = true then p11 / 1000 else p12 / 1000) ≥ fee := hfun
  have key : ∀ (tb tc ao' : Nat), tb + tc ≤ p21 + p22 →
      ao' ≤ (if ty.zeroFee = true then chan - nd - tb - tc else A) →
      ((if tc > 0 then [tc] else []).sum + (if tb > 0 then [tb] else []).sum + ao' + nd) + fee ≤ chan := by
    intro tb tc ao' hsum hao
    cases hzf : ty.zeroFee
    · simp only [hzf, Bool.false_eq_true, if_false] at hao
      (repeat' split) <;> simp only [List.sum_cons, List.sum_nil] <;> omega
    · have := hfee0 hzf; have := hA0 hzf
      simp only [hzf, if_true] at hao
      (repeat' split) <;> simp only [List.sum_cons, List.sum_nil] <;> omega
  cases local_
  · simp only [Bool.false_eq_true, if_false] at hanch ⊢
    refine key _ _ _ ?_ hanch
    split <;> split <;> omega
  · simp only [if_true] at hanch ⊢
    refine key _ _ _ ?_ hanch
    split <;> split <;> omega

end Ldk.C01
