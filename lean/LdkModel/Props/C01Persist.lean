/- C01 — persistence of the channel inside the update protocol (seeded change C01-r5): property theorems only.
   The per-state decisions of `impl Writeable for FundedChannel` / `ReadableArgs` (which inbound HTLC is written, the
   `next_counterparty_htlc_id` rewind, RemoteRemoved -> Committed, which `pending_update_fee` is written and the state it is
   read back in) are regenerated from channel.rs by tools/gen_chanwriter.py (Generated/ChanWriter.lean); `Node.written`
   (Model/ChanPersist.lean) applies them to the node of the two-party protocol model. -/
import LdkModel.Proofs.ChanPersist
import LdkModel.Model.ChanReest
import LdkModel.Props.ChanProto

namespace Ldk.C01Persist
open Ldk.Chan

/-- both nodes: fee-update states match the funding side, a paused node holds none of the peer's uncommitted updates -/
def GoodSys (s : Sys) : Prop := Good s.a ∧ Good s.b

theorem good_init (va vb f0 : Nat) : GoodSys (Sys.init va vb f0) :=
  ⟨good_of_unpaused _ rfl rfl, good_of_unpaused _ rfl rfl⟩

/-- THE STATE WRITTEN = THE STATE AFTER FORGETTING THE PEER'S UNCOMMITTED UPDATES.  For every node state in which the
    pending fee update is of the kind its funding side can have (an invariant of all runs: `good_reachable`), what
    `impl Writeable for FundedChannel` writes and `ReadableArgs` reads back is exactly what
    `remove_uncommitted_htlcs_and_mark_paused` leaves in memory: RemoteAnnounced inbound HTLCs dropped and
    `next_counterparty_htlc_id` rewound by their number, RemoteRemoved outbound HTLCs back to Committed, a fundee's
    RemoteAnnounced `pending_update_fee` dropped while an AwaitingRemoteRevokeToAnnounce / Outbound one comes back in the
    same state, everything else (counters, balance, AwaitingRemoteRevoke, the revocation owed) as it is.
    Depends on the GENERATED tables: with the writer of seeded change C01-r5 (`feeWritten false 0 = true`) or C12-r5
    (`nextCounterpartyHtlcIdWritten next dropped = next`) this proof does not check. -/
theorem written_forgets_uncommitted (n : Node) (hs : n.feeSideOk = true) (hp : n.paused = false) :
    n.written = n.pause :=
  written_eq_pause n hp hs

-- non-vacuity: a fundee holding a RemoteAnnounced HTLC, a RemoteRemoved HTLC and a RemoteAnnounced fee update
example :
    let n : Node := { Node.init 5000 false 253 with
      inb := [⟨0, 100, .committed⟩, ⟨1, 200, .remoteAnnounced⟩], nextInId := 2,
      outb := [⟨0, 300, .remoteRemoved true⟩], pendingFee := some (1000, .remoteAnnounced) }
    n.feeSideOk = true ∧ n.written.inb = [⟨0, 100, .committed⟩] ∧ n.written.nextInId = 1 ∧
    n.written.outb = [⟨0, 300, .committed⟩] ∧ n.written.pendingFee = none ∧ n.written = n.pause := by decide

/-- the invariant is preserved by every protocol event -/
theorem good_step (s s' : Sys) (e : Ev) (g : GoodSys s) (h : step s e = some s') : GoodSys s' := by
  obtain ⟨ga, gb⟩ := g
  cases e with
  | disconnect =>
    simp only [step, Option.some.injEq] at h
    rw [← h]; exact ⟨good_pause _ ga, good_pause _ gb⟩
  | fee x f =>
    cases x <;> simp only [step] at h <;> split at h <;> try contradiction
    all_goals
      rename_i hc
      simp only [Bool.or_eq_true, not_or, Bool.not_eq_true, Bool.not_eq_true', Bool.not_eq_false] at hc
      simp only [Option.some.injEq] at h
      rw [← h]
    · exact ⟨ga, good_of_unpaused _ (by simp [Node.feeSideOk, hc.1.1.1.2]) hc.1.1.1.1⟩
    · exact ⟨good_of_unpaused _ (by simp [Node.feeSideOk, hc.1.1.1.2]) hc.1.1.1.1, gb⟩
  | reest y =>
    cases y <;> simp only [step] at h
    · cases hr : s.b.reestablish s.a.csRecv s.a.raaRecv with
      | none => simp [hr] at h
      | some r => obtain ⟨n, p⟩ := r; simp only [hr, Option.map_some, Option.some.injEq] at h; rw [← h]; exact ⟨ga, good_reestablish gb hr⟩
    · cases hr : s.a.reestablish s.b.csRecv s.b.raaRecv with
      | none => simp [hr] at h
      | some r => obtain ⟨n, p⟩ := r; simp only [hr, Option.map_some, Option.some.injEq] at h; rw [← h]; exact ⟨good_reestablish ga hr, gb⟩
  | commit x adds fu fa =>
    cases x <;> simp only [step] at h <;> split at h <;> try contradiction
    all_goals
      rename_i hp
      split at h <;> try contradiction
    · cases hr : s.b.commit adds fu fa with
      | none => simp [hr] at h
      | some r => obtain ⟨n, p⟩ := r; simp only [hr, Option.map_some, Option.some.injEq] at h; rw [← h]; exact ⟨ga, (good_commit (by simpa using hp) gb hr).1⟩
    · cases hr : s.a.commit adds fu fa with
      | none => simp [hr] at h
      | some r => obtain ⟨n, p⟩ := r; simp only [hr, Option.map_some, Option.some.injEq] at h; rw [← h]; exact ⟨(good_commit (by simpa using hp) ga hr).1, gb⟩
  | release x =>
    cases x <;> simp only [step] at h <;> split at h <;> try contradiction
    all_goals
      split at h <;> try contradiction
      simp only [Option.some.injEq] at h
      rw [← h]; exact ⟨ga, gb⟩
  | sendRaa x =>
    cases x <;> simp only [step] at h <;> split at h <;> try contradiction
    all_goals
      rename_i hp
      split at h <;> try contradiction
      simp only [Option.some.injEq] at h
      rw [← h]
    · exact ⟨ga, good_of_unpaused _ gb.side (by simpa using hp)⟩
    · exact ⟨good_of_unpaused _ ga.side (by simpa using hp), gb⟩
  | recv y =>
    cases y <;> simp only [step] at h <;> split at h <;> try contradiction
    all_goals
      rename_i hp
      split at h <;> try contradiction
    · rename_i m rest hq
      cases hr : s.b.onMsg s.total m with
      | none => simp [hr] at h
      | some r => obtain ⟨n, ok⟩ := r; simp only [hr, Option.map_some, Option.some.injEq] at h; rw [← h]; exact ⟨ga, (good_onMsg (by simpa using hp) gb hr).1⟩
    · rename_i m rest hq
      cases hr : s.a.onMsg s.total m with
      | none => simp [hr] at h
      | some r => obtain ⟨n, ok⟩ := r; simp only [hr, Option.map_some, Option.some.injEq] at h; rw [← h]; exact ⟨(good_onMsg (by simpa using hp) ga hr).1, gb⟩

/-- A CRASH + RELOAD IS A DISCONNECTION: in every state satisfying the invariant, persisting node x now and reloading it
    from exactly that (the peer sees the connection drop) yields the very state a plain disconnection yields. -/
theorem restart_is_disconnect (s : Sys) (g : GoodSys s) (x : Bool) : stepR s (.restart x) = step s .disconnect := by
  cases x
  · simp only [stepR, step]; rw [written_eq_pause_of_good s.b g.2]
  · simp only [stepR, step]; rw [written_eq_pause_of_good s.a g.1]

theorem good_stepR (s s' : Sys) (e : EvR) (g : GoodSys s) (h : stepR s e = some s') : GoodSys s' := by
  cases e with
  | ev e => exact good_step s s' e g h
  | restart x => rw [restart_is_disconnect s g x] at h; exact good_step s s' .disconnect g h

theorem runR_eq_run : ∀ (evs : List EvR) (s : Sys), GoodSys s → runR s evs = run s (evs.map EvR.erase)
  | [], _, _ => rfl
  | e :: es, s, g => by
    have he : stepR s e = step s e.erase := by
      cases e with
      | ev e => rfl
      | restart x => exact restart_is_disconnect s g x
    simp only [runR, run, List.map_cons]
    rw [← he]
    cases hs : stepR s e with
    | none => rfl
    | some s' => exact runR_eq_run es s' (good_stepR s s' e g hs)

/-- the invariant holds in every reachable state, whatever mixture of protocol events, disconnections and restarts led there -/
theorem good_reachable (va vb f0 : Nat) : ∀ (evs : List EvR) (s : Sys), runR (Sys.init va vb f0) evs = some s → GoodSys s := by
  suffices H : ∀ (evs : List EvR) (s0 s : Sys), GoodSys s0 → runR s0 evs = some s → GoodSys s from
    fun evs s h => H evs _ s (good_init va vb f0) h
  intro evs
  induction evs with
  | nil => intro s0 s g h; simp only [runR, Option.some.injEq] at h; rw [← h]; exact g
  | cons e es ih =>
    intro s0 s g h
    simp only [runR] at h
    cases hs : stepR s0 e with
    | none => simp [hs] at h
    | some s1 => rw [hs] at h; exact ih s1 s (good_stepR s0 s1 e g hs) h

/-- RESTART IN EVERY WINDOW (all histories): a run in which either node is persisted and reloaded between ANY two protocol
    events, any number of times, is — state for state — the run in which the connection merely dropped at those points.
    Hence everything proved about runs with disconnections (counters, at most one outstanding commitment, retransmission of
    the same commitment after `reest`, agreement, balances: Props/ChanProto.lean) holds with restarts at arbitrary points. -/
theorem restart_runs_are_disconnect_runs (va vb f0 : Nat) (evs : List EvR) :
    runR (Sys.init va vb f0) evs = run (Sys.init va vb f0) (evs.map EvR.erase) :=
  runR_eq_run evs _ (good_init va vb f0)

/-- ... in particular the agreement of the two nodes on every commitment (HTLC set, balances, feerate): if the run with the
    restarts replaced by disconnections is a guarded run, every commitment_signed processed in the run WITH restarts matched
    the receiver's own view.  Partial: inherits the guards (G1), (G3), (G4) of `agreement_partial` / `fee_agreement_partial`. -/
theorem agreement_with_restarts_partial (va vb f0 : Nat) (evs : List EvR) (s sg : Sys)
    (h : runR (Sys.init va vb f0) evs = some s) (hg : runG (Sys.init va vb f0) (evs.map EvR.erase) = some sg) :
    s = sg ∧ s.agreed = true ∧ s.feeAgreed = true := by
  have h1 := restart_runs_are_disconnect_runs va vb f0 evs
  have h2 := run_of_runG _ _ _ hg
  rw [h1, h2, Option.some.injEq] at h
  subst h
  exact ⟨rfl, Ldk.ChanProto.agreement_partial va vb f0 _ _ hg, Ldk.ChanProto.fee_agreement_partial va vb f0 _ _ hg⟩

/-- the invariant also holds along plain runs (a run without restarts is a run with restarts) -/
theorem good_of_run (va vb f0 : Nat) (evs : List Ev) (s : Sys) (h : run (Sys.init va vb f0) evs = some s) : GoodSys s := by
  apply good_reachable va vb f0 (evs.map EvR.ev) s
  rw [restart_runs_are_disconnect_runs, List.map_map]
  have : (EvR.erase ∘ EvR.ev) = id := rfl
  rw [this, List.map_id]; exact h

/-- REESTABLISH + RETRANSMISSION FROM THE WRITTEN STATE REACHES THE SAME COMMITMENT: after node x was persisted and reloaded at
    any point of a guarded run, the a→b stream (what `a` retransmits once it has processed `b`'s channel_reestablish) contains
    the SAME commitment_signed — not a rebuilt different one — and the same number of revoke_and_acks in the same order as
    before the crash, and `reest` itself changes neither stream (so the agreed commitment is the one the run without the
    crash reaches).  Partial: the guards of `lost_messages_retransmitted_partial`. -/
theorem restart_retransmits_same_commitment_partial (va vb f0 : Nat) (evs : List Ev) (s s' : Sys) (x : Bool)
    (h : runG (Sys.init va vb f0) evs = some s) (hr : stepR s (.restart x) = some s') :
    (∀ c, Msg.cs c ∈ s.fullAB → Msg.cs c ∈ s'.fullAB) ∧
    countCs s'.fullAB = countCs s.fullAB ∧ countRaa s'.fullAB = countRaa s.fullAB ∧
    raaFirst s'.fullAB = raaFirst s.fullAB ∧
    (∀ s'' y, step s' (.reest y) = some s'' → s''.fullAB = s'.fullAB ∧ s''.fullBA = s'.fullBA) := by
  have g := good_of_run va vb f0 evs s (run_of_runG _ _ _ h)
  rw [restart_is_disconnect s g x] at hr
  exact Ldk.ChanProto.lost_messages_retransmitted_partial va vb f0 evs s s' h hr

-- non-vacuity: the fundee crashes with the funder's update_add_htlc + commitment_signed in flight
example : ((runG (Sys.init 600000 400000 253) [.commit true [30000] [] [], .release true, .recv false]).bind
    (fun s => (stepR s (.restart false)).map (fun s' => (s.fullAB.length, s'.fullAB.length, countCs s.fullAB, countCs s'.fullAB, s'.b.inb.length, s'.b.nextInId)))) =
    some (1, 2, 1, 1, 0, 0) := by decide   -- before: the commitment_signed still on the wire; after: update_add_htlc + the same commitment_signed to retransmit

/-- the scenario of seeded change C01-r5: the funder's update_fee reaches the fundee, the fundee is persisted and reloaded
    before the commitment_signed, reconnects, builds a commitment of its own (the claim it made while disconnected); the
    funder accepts it (same feerate on both sides: the fundee forgot the uncommitted fee update) -/
def feeRestartRun : List EvR := [
  .ev (.commit true [30000] [] []), .ev (.release true), .ev (.recv false), .ev (.recv false), .ev (.sendRaa false), .ev (.recv true),
  .ev (.commit false [] [] []), .ev (.release false), .ev (.recv true), .ev (.sendRaa true), .ev (.recv false),
  .ev (.fee true 1200), .ev (.commit true [] [] []), .ev (.release true), .ev (.recv false),   -- only the update_fee is processed
  .restart false,
  .ev (.reest false), .ev (.reest true), .ev (.release true),
  .ev (.commit false [] [0] []), .ev (.release false), .ev (.recv true), .ev (.recv true)]   -- the fundee's fulfill + commitment_signed

example : ((runR (Sys.init 600000 400000 253) feeRestartRun).map (fun s => (s.agreed, s.feeAgreed, s.b.pendingFee, s.b.feerate))) =
    some (true, true, none, 253) := by decide

/-- THE RETRANSMISSION DECISIONS OF channel_reestablish, over the comparisons GENERATED from the Rust text (`required_revoke`,
    `next_counterparty_commitment_number`, the commitment_signed arms; tools/gen_reest.py): whenever the node's counters are
    consistent (`csSent = raaRecv + [AwaitingRemoteRevoke]`, an invariant of all runs: next theorem) they decide exactly what the
    protocol model's `reestablish` decides — which revoke_and_ack is owed again and whether the last batch + commitment_signed
    is retransmitted.  A wrong comparison (±1, swapped side) in the source changes the generated definition and this proof fails. -/
theorem reestablish_generated_eq (n : Node) (p q : Nat) (hc : n.csSent = n.raaRecv + (if n.awaitingRaa then 1 else 0)) :
    n.reestablishG p q = n.reestablish p q := by
  unfold Node.reestablishG Node.reestablish Reest.requiredRevoke Reest.commitmentDecision Reest.nextCounterpartyCommitmentNumber Node.retrans
  cases hp : n.paused
  · simp
  · cases ha : n.awaitingRaa <;> simp only [ha] at hc <;>
      by_cases h1 : q = n.csRecv <;> by_cases h2 : q + 1 = n.csRecv <;>
      by_cases h3 : p = n.csSent <;> by_cases h4 : p + 1 = n.csSent <;>
      simp_all <;> omega

/-- ... in every reachable state of every run (disconnections and, by `restart_runs_are_disconnect_runs`, restarts included), for
    both nodes and whatever numbers the peer's channel_reestablish carries: so `restart_retransmits_same_commitment_partial` and
    `lost_messages_retransmitted_partial` are statements about the generated decisions. -/
theorem reestablish_generated_on_runs (va vb f0 : Nat) (evs : List Ev) (s : Sys) (h : run (Sys.init va vb f0) evs = some s) (p q : Nat) :
    s.a.reestablishG p q = s.a.reestablish p q ∧ s.b.reestablishG p q = s.b.reestablish p q := by
  obtain ⟨o1, o2, o3, o4⟩ := Ldk.ChanProto.at_most_one_outstanding va vb f0 evs s h
  obtain ⟨_, _, _, _, _, _, c7, c8⟩ := Ldk.ChanProto.counters va vb f0 evs s h
  constructor
  · apply reestablish_generated_eq
    cases ha : s.a.awaitingRaa
    · have : ¬ s.a.csSent = s.a.raaRecv + 1 := fun e => by have := o3.2 e; simp [ha] at this
      simp; omega
    · have := o3.1 ha; simp; omega
  · apply reestablish_generated_eq
    cases hb : s.b.awaitingRaa
    · have : ¬ s.b.csSent = s.b.raaRecv + 1 := fun e => by have := o4.2 e; simp [hb] at this
      simp; omega
    · have := o4.1 hb; simp; omega

example : (Node.init 5 true 0).reestablishG 0 0 = none ∧
    ({ Node.init 5 true 0 with paused := true, csSent := 1, awaitingRaa := true } : Node).reestablishG 0 0 ≠ none := by decide

/-- the writer of seeded change C01-r5 on the model node: the feerate of `pending_update_fee` is written whatever its state -/
def writtenC01r5 (n : Node) : Node :=
  { n.written with pendingFee := n.pendingFee.map (fun p => (p.1, FeeState.ofCode (Writer.feeReadState n.isFunder))) }

/-- DROPPING THE FUNDEE'S RemoteAnnounced FEE UPDATE IS NECESSARY (counter-example = the seeded scenario): in the run above with the
    fundee written by `writtenC01r5` instead, the fundee comes back believing the fee update was committed, signs the funder's next
    commitment at the new feerate, and the funder — still at the old one — rejects it: `feeAgreed = false`
    (in the real code: "Invalid commitment tx signature from peer"). -/
theorem fee_drop_is_necessary :
    ((runR (Sys.init 600000 400000 253) (feeRestartRun.take 15)).bind (fun s =>
      runR { s with a := s.a.pause, b := writtenC01r5 s.b, qab := [], qba := [] } (feeRestartRun.drop 16))).map
      (fun s => (s.feeAgreed, s.b.feerate, s.a.feerate)) = some (false, 1200, 253) := by decide

end Ldk.C01Persist
